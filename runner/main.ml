(* Generic driver for the extracted model: one request per line
     <component> <sexp>
   one reply per line <sexp>.  sexp ::= int | "string" | ( sexp* )
   Strings use \xx hex escapes for bytes outside printable ASCII, '"' and '\'.
   Parsing/printing only; all behaviour is in the extracted Model. *)
open Model

let rec pos_of_int n = if n = 1 then XH else if n land 1 = 0 then XO (pos_of_int (n lsr 1)) else XI (pos_of_int (n lsr 1))
let z_of_int n = if n = 0 then Z0 else if n > 0 then Zpos (pos_of_int n) else Zneg (pos_of_int (-n))
let rec int_of_pos = function XH -> 1 | XO p -> 2 * int_of_pos p | XI p -> 2 * int_of_pos p + 1
let int_of_z = function Z0 -> 0 | Zpos p -> int_of_pos p | Zneg p -> - (int_of_pos p)
let chars_of_string s = List.init (String.length s) (String.get s)
let string_of_chars l = String.concat "" (List.map (String.make 1) l)

let parse (s : string) (i : int ref) : sx =
  let n = String.length s in
  let rec skip () = if !i < n && s.[!i] = ' ' then (incr i; skip ()) in
  let rec value () =
    skip ();
    if !i >= n then failwith "eof" else
    match s.[!i] with
    | '(' -> incr i; let items = ref [] in
        let rec loop () = skip ();
          if !i >= n then failwith "eof in list"
          else if s.[!i] = ')' then incr i
          else (items := value () :: !items; loop ()) in
        loop (); SL (List.rev !items)
    | '"' -> incr i; let b = Buffer.create 16 in
        let rec loop () =
          if !i >= n then failwith "eof in string" else
          match s.[!i] with
          | '"' -> incr i
          | '\\' -> let h = String.sub s (!i + 1) 2 in
                    Buffer.add_char b (Char.chr (int_of_string ("0x" ^ h))); i := !i + 3; loop ()
          | c -> Buffer.add_char b c; incr i; loop () in
        loop (); SS (chars_of_string (Buffer.contents b))
    | _ -> let j = !i in
        while !i < n && s.[!i] <> ' ' && s.[!i] <> ')' do incr i done;
        SZ (z_of_int (int_of_string (String.sub s j (!i - j))))
  in value ()

let rec print b = function
  | SZ z -> Buffer.add_string b (string_of_int (int_of_z z))
  | SS cs -> Buffer.add_char b '"';
      List.iter (fun c -> let k = Char.code c in
        if k < 32 || k > 126 || c = '"' || c = '\\' then Buffer.add_string b (Printf.sprintf "\\%02x" k)
        else Buffer.add_char b c) cs;
      Buffer.add_char b '"'
  | SL l -> Buffer.add_char b '(';
      List.iteri (fun k x -> if k > 0 then Buffer.add_char b ' '; print b x) l;
      Buffer.add_char b ')'

let () =
  try while true do
    let line = input_line stdin in
    let sp = String.index line ' ' in
    let name = String.sub line 0 sp in
    let i = ref (sp + 1) in
    let out =
      try let v = parse line i in dispatch (chars_of_string name) v
      with Failure m -> SL [SS (chars_of_string ("runner-error: " ^ m))] in
    let b = Buffer.create 256 in
    print b out; print_string (Buffer.contents b); print_newline ()
  done with End_of_file -> ()
