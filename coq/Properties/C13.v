(* C13 — Distribution is decided by the documented option rules and never recurses.
   Only statements here; proofs are in Proofs/OptionsProofs.v. Every theorem quantifies
   over the whole option record (numbers in Z), the hook value [auto] and arbitrary strings. *)
From XV Require Import Base Options OptionsProofs.
Open Scope Z_scope.

(* -n0 always means a plain in-process run *)
Theorem c13_n0_plain : forall auto o,
  numprocesses o = NPNum 0 ->
  exists o', cmdline_main auto o = Ok o' /\ dist o' = DNo /\ tx o' = [] /\
             is_distribution_mode o' = false /\ installs_dsession o' = false.
Proof. exact n0_plain_l. Qed.
Print Assumptions c13_n0_plain.

(* -nK: K local workers capped by --maxprocesses, load mode unless --dist/-d names another *)
Theorem c13_nK_workers : forall auto o k o',
  numprocesses o = NPNum k -> k <> 0 -> cmdline_main auto o = Ok o' ->
  tx o' = repeat "popen"%string (Z.to_nat (cap k (maxprocesses o))) /\
  dist o' = eff_dist o /\ numprocesses o' = NPNum k.
Proof. exact nK_workers_l. Qed.
Print Assumptions c13_nK_workers.

Theorem c13_nK_distributed : forall auto o k o',
  numprocesses o = NPNum k -> k <> 0 -> 0 < cap k (maxprocesses o) ->
  cmdline_main auto o = Ok o' -> is_distribution_mode o' = true.
Proof. exact nK_distributed_l. Qed.
Print Assumptions c13_nK_distributed.

(* 'N*spec' expands to N workers (over arbitrary strings) *)
Theorem c13_mult_expands : forall (pre post : list ascii) n,
  ~ In "*"%char pre -> py_int (string_of_list_ascii pre) = Some n ->
  expand_tx (string_of_list_ascii (pre ++ "*"%char :: post)) =
  repeat (string_of_list_ascii post) (Z.to_nat n).
Proof. exact mult_expands_l. Qed.
Print Assumptions c13_mult_expands.

Theorem c13_empty_tx_usage_error : forall l,
  (flat_map expand_tx l = [] <-> parse_tx_spec l = Err EUsage) /\
  (forall r, parse_tx_spec l = Ok r -> r <> []).
Proof. intros l. split; [apply parse_tx_all_empty_l | intros r; apply parse_tx_nonempty_l]. Qed.
Print Assumptions c13_empty_tx_usage_error.

(* a mode without environments, or environments without a mode: no distribution *)
Theorem c13_mode_without_env : forall auto o o',
  numprocesses o = NPNone -> tx o = [] -> cmdline_main auto o = Ok o' ->
  is_distribution_mode o' = false /\ installs_dsession o' = false.
Proof. exact mode_without_env_l. Qed.
Print Assumptions c13_mode_without_env.

Theorem c13_env_without_mode : forall auto o o',
  numprocesses o = NPNone -> dist o = DNo -> distload o = false -> cmdline_main auto o = Ok o' ->
  is_distribution_mode o' = false /\ installs_dsession o' = false.
Proof. exact env_without_mode_l. Qed.
Print Assumptions c13_env_without_mode.

(* --pdb combined with distribution is rejected ... *)
Theorem c13_pdb_rejected : forall auto o o',
  cmdline_main auto o = Ok o' -> is_distribution_mode o' = true -> usepdb o = true ->
  collectonly o = true.
Proof. exact pdb_rejected_l. Qed.
Print Assumptions c13_pdb_rejected.

(* ... except that it turns -n auto/logical into 0 *)
Theorem c13_pdb_auto_zero : forall auto o,
  (numprocesses o = NPAuto \/ numprocesses o = NPLogical) -> usepdb o = true ->
  exists o', cmdline_main auto o = Ok o' /\ numprocesses o' = NPNum 0 /\ dist o' = DNo /\ tx o' = [] /\
             is_distribution_mode o' = false /\ installs_dsession o' = false.
Proof. exact pdb_auto_zero_l. Qed.
Print Assumptions c13_pdb_auto_zero.

Theorem c13_auto_is_hook_value : forall auto o,
  (numprocesses o = NPAuto \/ numprocesses o = NPLogical) -> usepdb o = false ->
  cmdline_main auto o = cmdline_main auto (set_np o (NPNum auto)).
Proof. exact auto_is_hook_value_l. Qed.
Print Assumptions c13_auto_is_hook_value.

(* --collect-only never starts workers *)
Theorem c13_collectonly_no_workers : forall auto o o',
  collectonly o = true -> cmdline_main auto o = Ok o' -> installs_dsession o' = false.
Proof. exact collectonly_no_workers_l. Qed.
Print Assumptions c13_collectonly_no_workers.

Theorem c13_installs_iff : forall o,
  installs_dsession o = true <-> (collectonly o = false /\ dist o <> DNo /\ tx o <> []).
Proof. exact installs_iff_l. Qed.
Print Assumptions c13_installs_iff.

(* inside a worker distribution, loop-on-fail and pdb are always off *)
Theorem c13_worker_never_distributes : forall auto o,
  exists o', cmdline_main auto (setup_config o) = Ok o' /\
             is_distribution_mode o' = false /\ installs_dsession o' = false /\
             looponfail o' = false /\ usepdb o' = false /\ numprocesses o' = NPNone /\
             looponfail_main o' = Ok false.
Proof. exact worker_never_distributes_l. Qed.
Print Assumptions c13_worker_never_distributes.

Theorem c13_looponfail_rules : forall o,
  (looponfail o = true -> usepdb o = true -> looponfail_main o = Err EUsage) /\
  (looponfail o = true -> usepdb o = false -> looponfail_main o = Ok true) /\
  (looponfail o = false -> looponfail_main o = Ok false).
Proof. exact looponfail_rules_l. Qed.
Print Assumptions c13_looponfail_rules.

(* auto worker count: at least 1; the environment variable overrides detection when it parses *)
Theorem c13_auto_at_least_one : forall cpu,
  (forall n, cpu = Some n -> 0 <= n) -> 1 <= auto_default None cpu.
Proof. exact auto_at_least_one_l. Qed.
Print Assumptions c13_auto_at_least_one.

Theorem c13_auto_env_override : forall s n cpu,
  s <> ""%string -> py_int s = Some n -> auto_default (Some s) cpu = n.
Proof. exact auto_env_override_l. Qed.
Print Assumptions c13_auto_env_override.
