(* C05 — each worker runs its tests in assignment order and announces the true next test.
   Model: Model/Worker.v (TestQueue + WorkerInteractor at lock-section granularity).
   Every theorem quantifies over every oracle (test behaviours), every command stream and every
   interleaving of deliveries, receiver-thread lock sections and main-thread steps ([ops]).
   [live w] = the entries put into the queue, in put order, minus those withdrawn by steals;
   [wran w] = the (item, nextitem) calls of pytest_runtest_protocol so far (with ghost tags). *)
From XV Require Import Base Worker WorkerProofs.

(* assignment order: the tests run so far are exactly an initial segment of the assigned,
   not-withdrawn queue entries, in the order they were assigned *)
Theorem c05_order : forall o ops,
  let w := fst (wrun o ops) in
  exists rest, live w = map (fun r => ent (fst r)) (wran w) ++ rest.
Proof. exact run_order. Qed.
Print Assumptions c05_order.

(* the announced next item is precisely the test run next *)
Theorem c05_nextitem : forall o ops k a na c nc,
  let w := fst (wrun o ops) in
  nth_error (wran w) k = Some (a, na) -> nth_error (wran w) (S k) = Some (c, nc) -> na = Some c.
Proof. exact run_nextitem. Qed.
Print Assumptions c05_nextitem.

(* nextitem = None only for the last test the worker runs *)
Theorem c05_none_only_last : forall o ops k a,
  let w := fst (wrun o ops) in
  nth_error (wran w) k = Some (a, None) -> nth_error (wran w) (S k) = None.
Proof. exact run_none_only_last. Qed.
Print Assumptions c05_none_only_last.

(* withdrawn tests are never tests already started or already announced as next *)
Theorem c05_no_steal_of_started : forall o ops a na,
  let w := fst (wrun o ops) in
  In (a, na) (wran w) ->
  ~ In (fst a) (wstolen w) /\ (forall b, na = Some b -> ~ In (fst b) (wstolen w)).
Proof. exact run_no_steal_of_started. Qed.
Print Assumptions c05_no_steal_of_started.

Theorem c05_taken_never_stolen : forall o ops e,
  let w := fst (wrun o ops) in In e (wpopped w) -> ~ In (fst e) (wstolen w).
Proof. exact run_taken_never_stolen. Qed.
Print Assumptions c05_taken_never_stolen.

(* when the loop ended at the shutdown marker, all assigned not-withdrawn tests in front of the
   first marker were run, in order, and nothing behind it *)
Theorem c05_complete_at_marker : forall o ops t,
  let w := fst (wrun o ops) in
  (exists s, wph w = PFinishing s) \/ wph w = PExited ->
  last (wpopped w) (0, Idx 0) = (t, Mark) ->
  live w = map (fun r => ent (fst r)) (wran w) ++ (t, Mark) :: wq w.
Proof. exact run_complete_at_marker. Qed.
Print Assumptions c05_complete_at_marker.

(* the has-items flag is exact at every step boundary (no lost wake-up) *)
Theorem c05_flag_exact : forall o ops,
  let w := fst (wrun o ops) in
  wflag w = negb (match wq w with [] => true | _ => false end).
Proof. exact run_flag_exact. Qed.
Print Assumptions c05_flag_exact.
