(* Extraction of the executable model for the correspondence runner.
   Directives: only those of ExtrOcamlBasic and ExtrOcamlString (bool, option,
   unit, list, prod, sumbool; ascii -> char, string -> char list).
   nat, positive, Z stay extracted inductives. *)
From Coq Require Import Extraction ExtrOcamlBasic ExtrOcamlString.
From XV Require Import Base Dispatch.
Set Extraction Output Directory ".".
Extraction "model.ml" dispatch.
