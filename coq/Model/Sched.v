(* Sched.v — the four scheduler models behind one operation type (the calls DSession
   makes on a scheduler), plus the wire codec used by the correspondence driver. *)
From XV Require Import Base Worker Ctl SchedLoad SchedSteal SchedScope SchedEach.
Open Scope nat_scope.

Inductive sstate := StL (s : lstate) | StW (s : wsstate) | StC (s : scstate) | StE (s : estate).

Inductive mode := MLoad | MSteal | MScope (k : scope_kind) | MEach.

Definition s_init (m : mode) (numnodes : nat) (chunk : option Z) : sstate :=
  match m with
  | MLoad => StL (l_init [] numnodes chunk)
  | MSteal => StW (ws_init [] numnodes)
  | MScope k => StC (sc_init [] k numnodes)
  | MEach => StE (e_init [] numnodes)
  end.

Definition s_nt (st : sstate) : ntable :=
  match st with StL s => l_nt s | StW s => ws_nt s | StC s => sc_nt s | StE s => e_nt s end.
Definition s_set_nt (st : sstate) (v : ntable) : sstate :=
  match st with
  | StL s => StL (l_set_nt s v) | StW s => StW (ws_set_nt s v)
  | StC s => StC (sc_set_nt s v) | StE s => StE (e_set_nt s v)
  end.

Definition s_nodes (st : sstate) : list nat :=
  match st with StL s => l_nodes s | StW s => ws_nodes s | StC s => sc_nodes s | StE s => e_nodes s end.
Definition s_tests_finished (st : sstate) : bool :=
  match st with
  | StL s => l_tests_finished s | StW s => ws_tests_finished s
  | StC s => sc_tests_finished s | StE s => e_tests_finished s
  end.
Definition s_has_pending (st : sstate) : bool :=
  match st with
  | StL s => l_has_pending s | StW s => ws_has_pending s
  | StC s => sc_has_pending s | StE s => e_has_pending s
  end.
Definition s_collection_is_completed (st : sstate) : bool :=
  match st with
  | StL s => l_collection_is_completed s | StW s => ws_collection_is_completed s
  | StC s => sc_collection_is_completed s | StE s => e_completed s
  end.

Inductive sop :=
| SNew (n spec : nat)                         (* a WorkerController comes into existence *)
| SAddNode (n : nat)
| SAddColl (n : nat) (coll : list string)
| SSchedule
| SComplete (n idx : nat) (ms : Z)
| SPending (item : string)
| SUnsched (n : nat) (ixs : list nat)
| SRemove (n : nat)
| SFlags (n : nat) (down closed : bool)       (* receiver thread saw the end / the channel died *)
| SShutdown (n : nat).                        (* node.shutdown() called by DSession *)

Definition lift {S A B} (wrap : S -> sstate) (f : A -> B) (r : S * list out * result A)
  : sstate * list out * result B :=
  let '(s, o, x) := r in
  (wrap s, o, match x with Ok a => Ok (f a) | Err e => Err e end).

Definition no_str (_ : unit) : option string := None.

(* NotImplementedError paths of the concrete classes *)
Definition s_step (st : sstate) (op : sop) : sstate * list out * result (option string) :=
  match op with
  | SNew n spec =>
      (s_set_nt st (aset n {| n_spec := spec; n_down := false; n_sdsent := false; n_closed := false |} (s_nt st)),
       [], Ok None)
  | SFlags n down closed =>
      match aget n (s_nt st) with
      | None => (st, [], Err EKey)
      | Some c => (s_set_nt st (aset n {| n_spec := n_spec c; n_down := down; n_sdsent := n_sdsent c;
                                          n_closed := closed |} (s_nt st)), [], Ok None)
      end
  | SShutdown n =>
      match st with
      | StL s => lift StL no_str (node_shutdown l_nt l_set_nt n s)
      | StW s => lift StW no_str (node_shutdown ws_nt ws_set_nt n s)
      | StC s => lift StC no_str (node_shutdown sc_nt sc_set_nt n s)
      | StE s => lift StE no_str (node_shutdown e_nt e_set_nt n s)
      end
  | SAddNode n =>
      match st with
      | StL s => lift StL no_str (l_add_node n s)
      | StW s => lift StW no_str (ws_add_node n s)
      | StC s => lift StC no_str (sc_add_node n s)
      | StE s => lift StE no_str (e_add_node n s)
      end
  | SAddColl n coll =>
      match st with
      | StL s => lift StL no_str (l_add_node_collection n coll s)
      | StW s => lift StW no_str (ws_add_node_collection n coll s)
      | StC s => lift StC no_str (sc_add_node_collection n coll s)
      | StE s => lift StE no_str (e_add_node_collection n coll s)
      end
  | SSchedule =>
      match st with
      | StL s => lift StL no_str (l_schedule s)
      | StW s => lift StW no_str (ws_schedule s)
      | StC s => lift StC no_str (sc_schedule s)
      | StE s => lift StE no_str (e_schedule s)
      end
  | SComplete n idx ms =>
      match st with
      | StL s => lift StL no_str (l_mark_test_complete n idx ms s)
      | StW s => lift StW no_str (ws_mark_test_complete n idx s)
      | StC s => lift StC no_str (sc_mark_test_complete n idx s)
      | StE s => lift StE no_str (e_mark_test_complete n idx s)
      end
  | SPending item =>
      match st with
      | StL s => lift StL no_str (l_mark_test_pending item s)
      | StW s => lift StW no_str (ws_mark_test_pending item s)
      | StC _ | StE _ => (st, [], Err ENotImpl)
      end
  | SUnsched n ixs =>
      match st with
      | StW s => lift StW no_str (ws_remove_pending_tests_from_node n ixs s)
      | _ => (st, [], Err ENotImpl)
      end
  | SRemove n =>
      match st with
      | StL s => lift StL (fun x => x) (l_remove_node n s)
      | StW s => lift StW (fun x => x) (ws_remove_node n s)
      | StC s => lift StC (fun x => x) (sc_remove_node n s)
      | StE s => lift StE (fun x => x) (e_remove_node n s)
      end
  end.

(* ---- wire codec ---- *)
Definition mode_of_sx (s : sx) : option mode :=
  match s with
  | SS "load" => Some MLoad
  | SS "worksteal" => Some MSteal
  | SS "loadscope" => Some (MScope KScope)
  | SS "loadfile" => Some (MScope KFile)
  | SS "loadgroup" => Some (MScope KGroup)
  | SS "each" => Some MEach
  | _ => None
  end%string.

Definition sop_of_sx (s : sx) : option sop :=
  match s with
  | SL [SS "new"; n; sp] =>
      match un_nat n, un_nat sp with Some n', Some sp' => Some (SNew n' sp') | _, _ => None end
  | SL [SS "add"; n] => option_map SAddNode (un_nat n)
  | SL [SS "coll"; n; c] =>
      match un_nat n, un_strs c with Some n', Some c' => Some (SAddColl n' c') | _, _ => None end
  | SL [SS "sched"] => Some SSchedule
  | SL [SS "done"; n; i; SZ ms] =>
      match un_nat n, un_nat i with Some n', Some i' => Some (SComplete n' i' ms) | _, _ => None end
  | SL [SS "pending"; SS item] => Some (SPending item)
  | SL [SS "unsched"; n; l] =>
      match un_nat n, un_nats l with Some n', Some l' => Some (SUnsched n' l') | _, _ => None end
  | SL [SS "remove"; n] => option_map SRemove (un_nat n)
  | SL [SS "flags"; n; d; c] =>
      match un_nat n, un_bool d, un_bool c with
      | Some n', Some d', Some c' => Some (SFlags n' d' c') | _, _, _ => None end
  | SL [SS "shutdown"; n] => option_map SShutdown (un_nat n)
  | _ => None
  end%string.

Definition sx_of_hook (h : hookcall) : sx :=
  match h with
  | HNodeReady n => SL [SS "nodeready"; sx_nat n]
  | HNodeDown n e => SL [SS "nodedown"; sx_nat n; sx_bool e]
  | HCollFinished n => SL [SS "collfinished"; sx_nat n]
  | HLogStart n i => SL [SS "h_logstart"; sx_nat n; sx_nat i]
  | HLogFinish n i => SL [SS "h_logfinish"; sx_nat n; sx_nat i]
  | HReport n i k oc => SL [SS "h_report"; sx_nat n; sx_nat i; sx_nat k; SZ (z_of_outcome oc)]
  | HCrashItem nid n => SL [SS "h_crashitem"; SS nid; sx_nat n]
  | HCrashReport nid n => SL [SS "h_crashreport"; SS nid; sx_nat n]
  | HCollectReport k f => SL [SS "h_collectreport"; sx_nat k; sx_bool f]
  | HInternalError n => SL [SS "h_internalerror"; sx_nat n]
  | HWarning => SL [SS "h_warning"]
  | HSpawn i sp => SL [SS "spawn"; sx_nat i; sx_nat sp]
  | HSummary d => SL [SS "summary"; sx_bool d]
  end%string.

Definition sx_of_out (o : out) : sx :=
  match o with
  | OHook h => sx_of_hook h
  | OSend n c => SL [SS "send"; sx_nat n; sx_of_cmd c]
  | OCollDiff a b => SL [SS "colldiff"; sx_nat a; sx_nat b]
  | OLogDiff a b => SL [SS "logdiff"; sx_nat a; sx_nat b]
  end%string.

Definition sx_of_res (r : result (option string)) : sx :=
  match r with
  | Ok None => SL [SS "ok"]
  | Ok (Some s) => SL [SS "ok"; SS s]
  | Err e => SL [SS "err"; SS (err_name e)]
  end%string.

Definition sx_view (st : sstate) : sx :=
  SL [sx_nats (s_nodes st); sx_bool (s_tests_finished st); sx_bool (s_has_pending st);
      sx_bool (s_collection_is_completed st);
      SL (map (fun p => SL [sx_nat (fst p); sx_bool (n_sdsent (snd p))]) (s_nt st))].

(* drive a scheduler with a list of operations; the run stops at the first exception
   (as the session would), reporting it *)
Fixpoint s_run (st : sstate) (ops : list sop) : list sx :=
  match ops with
  | [] => []
  | op :: r =>
      let '(st', o, res) := s_step st op in
      SL [SL (map sx_of_out o); sx_of_res res; sx_view st'] ::
      match res with
      | Ok _ => s_run st' r
      | Err _ => s_run st' r       (* callers may swallow; the driver decides whether to continue *)
      end
  end.

Definition run_sched (s : sx) : sx :=
  match s with
  | SL [m; SZ numnodes; chunk; SL ops] =>
      match mode_of_sx m, un_opt un_z chunk, opt_map sop_of_sx ops with
      | Some m', Some chunk', Some ops' => SL (s_run (s_init m' (Z.to_nat numnodes) chunk') ops')
      | _, _, _ => bad_input
      end
  | _ => bad_input
  end.

Definition run_split (s : sx) : sx :=
  match s with
  | SL [SS k; SS nodeid] =>
      if String.eqb k "loadscope" then SS (split_scope nodeid)
      else if String.eqb k "loadfile" then SS (split_file nodeid)
      else if String.eqb k "loadgroup" then SS (split_group nodeid)
      else bad_input
  | _ => bad_input
  end.
