(* CollDiff.v — the text report_collection_diff produces (report.py): a verified CHECKER for
   "the message names both workers and shows the difference".  difflib's matching heuristics are not
   modelled; instead the model reads the message the implementation produced (header line, the two
   file lines, the @@ hunks, the closing text), applies the hunks to the first collection and demands
   the second one.  Executable definitions only; proofs in Proofs/CollDiffProofs.v. *)
From XV Require Import Base.
Open Scope nat_scope.

Inductive dline := DCtx (s : string) | DDel (s : string) | DAdd (s : string).

(* h_skip: elements of the OLD list in front of the hunk; h_alen / h_blen: the lengths the header states *)
Record hunk := { h_skip : nat; h_alen : nat; h_blen : nat; h_lines : list dline }.

(* body of one hunk against the rest of the old list: (what it writes, what is left of the old list) *)
Fixpoint apply_lines (ls : list dline) (a : list string) : option (list string * list string) :=
  match ls with
  | [] => Some ([], a)
  | DCtx s :: r =>
      match a with
      | x :: a' => if String.eqb x s
                   then match apply_lines r a' with
                        | Some (o, rest) => Some (s :: o, rest)
                        | None => None
                        end
                   else None
      | [] => None
      end
  | DDel s :: r =>
      match a with
      | x :: a' => if String.eqb x s then apply_lines r a' else None
      | [] => None
      end
  | DAdd s :: r =>
      match apply_lines r a with
      | Some (o, rest) => Some (s :: o, rest)
      | None => None
      end
  end.

(* pos: how many elements of the old list lie in front of [a] *)
Fixpoint apply_hunks (hs : list hunk) (pos : nat) (a : list string) : option (list string) :=
  match hs with
  | [] => Some a
  | h :: r =>
      if h_skip h <? pos then None else
      let k := h_skip h - pos in
      if length a <? k then None else
      match apply_lines (h_lines h) (skipn k a) with
      | None => None
      | Some (o, rest) =>
          let consumed := length (skipn k a) - length rest in
          if negb (Nat.eqb (h_alen h) consumed && Nat.eqb (h_blen h) (length o)) then None else
          match apply_hunks r (h_skip h + consumed) rest with
          | Some t => Some (firstn k a ++ o ++ t)
          | None => None
          end
      end
  end.

Definition dels_of (ls : list dline) : list string :=
  flat_map (fun d => match d with DDel s => [s] | _ => [] end) ls.
Definition adds_of (ls : list dline) : list string :=
  flat_map (fun d => match d with DAdd s => [s] | _ => [] end) ls.
Definition all_dels (hs : list hunk) : list string := flat_map (fun h => dels_of (h_lines h)) hs.
Definition all_adds (hs : list hunk) : list string := flat_map (fun h => adds_of (h_lines h)) hs.

(* ---- reading the text ---- *)
Definition digit (c : ascii) : option nat :=
  let n := nat_of_ascii c in
  if (48 <=? n) && (n <=? 57) then Some (n - 48) else None.

Fixpoint read_nat (s : list ascii) (acc : nat) (any : bool) : option (nat * list ascii) :=
  match s with
  | c :: r => match digit c with
              | Some d => read_nat r (acc * 10 + d) true
              | None => if any then Some (acc, s) else None
              end
  | [] => if any then Some (acc, []) else None
  end.

(* "s" (length 1) or "s,l" as difflib's _format_range_unified writes it -> (skip, length) *)
Definition read_range (s : list ascii) : option (nat * nat * list ascii) :=
  match read_nat s 0 false with
  | None => None
  | Some (b, r) =>
      match r with
      | ","%char :: r' =>
          match read_nat r' 0 false with
          | Some (l, r'') =>
              if Nat.eqb l 0 then Some (b, 0, r'')
              else if Nat.eqb b 0 then None else Some (b - 1, l, r'')
          | None => None
          end
      | _ => if Nat.eqb b 0 then None else Some (b - 1, 1, r)
      end
  end.

Fixpoint strip_pre (p s : list ascii) : option (list ascii) :=
  match p with
  | [] => Some s
  | c :: p' => match s with
               | d :: s' => if Ascii.eqb c d then strip_pre p' s' else None
               | [] => None
               end
  end.

Definition la (s : string) : list ascii := list_ascii_of_string s.

(* "@@ -R +R @@" *)
Definition read_header (s : list ascii) : option (nat * nat * nat) :=
  match strip_pre (la "@@ -") s with
  | None => None
  | Some r1 =>
      match read_range r1 with
      | None => None
      | Some (sk, al, r2) =>
          match strip_pre (la " +") r2 with
          | None => None
          | Some r3 =>
              match read_range r3 with
              | None => None
              | Some (_, bl, r4) =>
                  match strip_pre (la " @@") r4 with
                  | Some [] => Some (sk, al, bl)
                  | _ => None
                  end
              end
          end
      end
  end.

Inductive cline := CBody (d : dline) | CHead (sk al bl : nat) | CBlank.

Definition classify (l : string) : option cline :=
  match l with
  | EmptyString => Some CBlank
  | String " " r => Some (CBody (DCtx r))
  | String "-" r => Some (CBody (DDel r))
  | String "+" r => Some (CBody (DAdd r))
  | String "@" _ => match read_header (la l) with
                    | Some (sk, al, bl) => Some (CHead sk al bl)
                    | None => None
                    end
  | _ => None
  end.

(* right to left: body lines wait for the header above them.  unified_diff ends its header lines
   with a newline of their own, so the joined text has one empty line under each of them: an empty
   line is accepted directly under a header and nowhere else (the flag says "an empty line is waiting") *)
Fixpoint parse_rl (ls : list string) : option (list dline * bool * list hunk) :=
  match ls with
  | [] => Some ([], false, [])
  | l :: r =>
      match parse_rl r with
      | None => None
      | Some (pend, blank, hs) =>
          match classify l with
          | Some (CBody d) => if blank then None else Some (d :: pend, false, hs)
          | Some CBlank => if blank then None else Some (pend, true, hs)
          | Some (CHead sk al bl) =>
              Some ([], false, {| h_skip := sk; h_alen := al; h_blen := bl; h_lines := pend |} :: hs)
          | None => None
          end
      end
  end.

Definition parse_hunks (ls : list string) : option (list hunk) :=
  match parse_rl ls with
  | Some ([], false, hs) => Some hs
  | _ => None
  end.

Definition first_line (f t : string) : string :=
  ("Different tests were collected between " ++ f ++ " and " ++ t ++ ". The difference is:")%string.
Definition closing : string :=
  "To see why this happens see 'Known limitations' in documentation for pytest-xdist"%string.

Fixpoint split_last (l : list string) : option (list string * string) :=
  match l with
  | [] => None
  | [x] => Some ([], x)
  | x :: r => match split_last r with
              | Some (i, t) => Some (x :: i, t)
              | None => None
              end
  end.

Definition str_list_eqb := list_eqb String.eqb.

Definition skip_blank (l : list string) : list string :=
  match l with
  | EmptyString :: r => r
  | _ => l
  end.

(* the whole message (as lines) of a non-None result: Some hunks when it is well formed *)
Definition read_message (f t : string) (msg : list string) : option (list hunk) :=
  match msg with
  | l0 :: l1 :: rest1 =>
      if String.eqb l0 (first_line f t) && String.eqb l1 ("--- " ++ f) then
        match skip_blank rest1 with
        | l2 :: rest2 =>
            if String.eqb l2 ("+++ " ++ t) then
              match split_last (skip_blank rest2) with
              | Some (body, tl) => if String.eqb tl closing then parse_hunks body else None
              | None => None
              end
            else None
        | [] => None
        end
      else None
  | _ => None
  end.

(* the check: None exactly for equal lists; otherwise a well-formed message whose hunks turn a into b *)
Definition message_ok (a b : list string) (f t : string) (msg : option (list string)) : bool :=
  match msg with
  | None => str_list_eqb a b
  | Some m =>
      negb (str_list_eqb a b) &&
      match read_message f t m with
      | Some hs => match apply_hunks hs 0 a with
                   | Some b' => str_list_eqb b' b
                   | None => false
                   end
      | None => false
      end
  end.

Open Scope Z_scope.
(* input: [a; b; from; to; [] | [lines]] *)
Definition run_colldiff (s : sx) : sx :=
  match s with
  | SL [a; b; SS f; SS t; m] =>
      match un_strs a, un_strs b, un_opt un_strs m with
      | Some a', Some b', Some m' => sx_bool (message_ok a' b' f t m')
      | _, _, _ => bad_input
      end
  | _ => bad_input
  end.
