(* Base.v — shared executable definitions: the wire format used by the
   correspondence harness (sx), the error type, Python list/slice helpers.
   Executable definitions only; proofs live under Proofs/. *)
From Coq Require Export ZArith Bool String Ascii List Lia.
Export ListNotations.
Open Scope Z_scope.

(* ---- wire format: the harness sends and receives values of this type ---- *)
Inductive sx : Type :=
| SZ (z : Z)
| SS (s : string)
| SL (l : list sx).

Fixpoint sx_eqb (a b : sx) {struct a} : bool :=
  match a, b with
  | SZ x, SZ y => Z.eqb x y
  | SS x, SS y => String.eqb x y
  | SL xs, SL ys =>
      (fix go (l1 l2 : list sx) {struct l1} : bool :=
         match l1, l2 with
         | [], [] => true
         | x :: l1', y :: l2' => sx_eqb x y && go l1' l2'
         | _, _ => false
         end) xs ys
  | _, _ => false
  end.

Definition sx_nat (n : nat) : sx := SZ (Z.of_nat n).
Definition sx_bool (b : bool) : sx := SZ (if b then 1 else 0).
Definition sx_nats (l : list nat) : sx := SL (map sx_nat l).
Definition sx_opt {A} (f : A -> sx) (o : option A) : sx :=
  match o with None => SL [] | Some a => SL [f a] end.

Definition un_z (s : sx) : option Z := match s with SZ z => Some z | _ => None end.
Definition un_nat (s : sx) : option nat :=
  match s with SZ z => if z <? 0 then None else Some (Z.to_nat z) | _ => None end.
Definition un_bool (s : sx) : option bool :=
  match s with SZ z => Some (negb (z =? 0)) | _ => None end.
Definition un_str (s : sx) : option string := match s with SS z => Some z | _ => None end.
Definition un_list (s : sx) : option (list sx) := match s with SL l => Some l | _ => None end.

Fixpoint opt_map {A B} (f : A -> option B) (l : list A) : option (list B) :=
  match l with
  | [] => Some []
  | x :: r => match f x, opt_map f r with
              | Some y, Some ys => Some (y :: ys)
              | _, _ => None
              end
  end.
Definition un_nats (s : sx) : option (list nat) :=
  match s with SL l => opt_map un_nat l | _ => None end.
Definition un_strs (s : sx) : option (list string) :=
  match s with SL l => opt_map un_str l | _ => None end.
Definition un_opt {A} (f : sx -> option A) (s : sx) : option (option A) :=
  match s with
  | SL [] => Some None
  | SL [x] => match f x with Some a => Some (Some a) | None => None end
  | _ => None
  end.

Definition bad_input : sx := SL [SS "bad-input"].

(* ---- Python exceptions that the modelled code can raise ---- *)
Inductive err :=
| EKey | EValue | EAssert | EOSError | ENotImpl | EZeroDiv | EUsage
| ERuntimeNoWorkers | EIndex | EImport | EAttr | EType | EOther.

Definition err_name (e : err) : string :=
  match e with
  | EKey => "KeyError" | EValue => "ValueError" | EAssert => "AssertionError"
  | EOSError => "OSError" | ENotImpl => "NotImplementedError"
  | EZeroDiv => "ZeroDivisionError" | EUsage => "UsageError"
  | ERuntimeNoWorkers => "RuntimeError" | EIndex => "IndexError"
  | EImport => "ModuleNotFoundError" | EAttr => "AttributeError"
  | EType => "TypeError" | EOther => "Exception"
  end%string.

Inductive result (A : Type) :=
| Ok (a : A)
| Err (e : err).
Arguments Ok {A} a.
Arguments Err {A} e.

Definition bind {A B} (r : result A) (f : A -> result B) : result B :=
  match r with Ok a => f a | Err e => Err e end.
Notation "'do' x <- r ; k" := (bind r (fun x => k))
  (at level 200, x pattern, r at level 100, k at level 200, right associativity).

(* ---- Python list helpers ---- *)

(* l[:k] and del l[:k] for an arbitrary (possibly negative) Python int k *)
Definition py_take {A} (k : Z) (l : list A) : list A :=
  if 0 <=? k then firstn (Z.to_nat k) l
  else firstn (length l - Z.to_nat (- k)) l.
Definition py_drop {A} (k : Z) (l : list A) : list A :=
  if 0 <=? k then skipn (Z.to_nat k) l
  else skipn (length l - Z.to_nat (- k)) l.

(* l[-k:] for k >= 1 (used by worksteal: pending[-num_steal:]) *)
Definition py_lastn {A} (k : nat) (l : list A) : list A :=
  skipn (length l - k) l.

(* list.remove(x): first occurrence, ValueError if absent *)
Fixpoint remove_first (x : nat) (l : list nat) : option (list nat) :=
  match l with
  | [] => None
  | y :: r => if Nat.eqb x y then Some r
              else match remove_first x r with
                   | Some r' => Some (y :: r')
                   | None => None
                   end
  end.

Definition mem_nat (x : nat) (l : list nat) : bool := existsb (Nat.eqb x) l.
Definition mem_str (x : string) (l : list string) : bool := existsb (String.eqb x) l.

Fixpoint index_of_str (x : string) (l : list string) : option nat :=
  match l with
  | [] => None
  | y :: r => if String.eqb x y then Some O
              else match index_of_str x r with
                   | Some i => Some (S i)
                   | None => None
                   end
  end.

Fixpoint list_eqb {A} (eqb : A -> A -> bool) (a b : list A) : bool :=
  match a, b with
  | [], [] => true
  | x :: a', y :: b' => eqb x y && list_eqb eqb a' b'
  | _, _ => false
  end.

(* first-occurrence de-duplication, keeping order (looponfail, set()) *)
Fixpoint dedup_str (seen : list string) (l : list string) : list string :=
  match l with
  | [] => []
  | x :: r => if mem_str x seen then dedup_str seen r
              else x :: dedup_str (x :: seen) r
  end.

Fixpoint dedup_nat (seen : list nat) (l : list nat) : list nat :=
  match l with
  | [] => []
  | x :: r => if mem_nat x seen then dedup_nat seen r
              else x :: dedup_nat (x :: seen) r
  end.

(* association lists with Python dict insertion-order semantics, nat keys *)
Section Assoc.
  Context {V : Type}.
  Definition amap := list (nat * V).
  Fixpoint aget (k : nat) (m : amap) : option V :=
    match m with
    | [] => None
    | (k', v) :: r => if Nat.eqb k k' then Some v else aget k r
    end.
  (* d[k] = v : keeps position when present, appends otherwise *)
  Fixpoint aset (k : nat) (v : V) (m : amap) : amap :=
    match m with
    | [] => [(k, v)]
    | (k', v') :: r => if Nat.eqb k k' then (k', v) :: r else (k', v') :: aset k v r
    end.
  Fixpoint adel (k : nat) (m : amap) : amap :=
    match m with
    | [] => []
    | (k', v') :: r => if Nat.eqb k k' then r else (k', v') :: adel k r
    end.
  Definition ahas (k : nat) (m : amap) : bool :=
    match aget k m with Some _ => true | None => false end.
  Definition akeys (m : amap) : list nat := map fst m.
End Assoc.
Arguments amap V : clear implicits.
