(* SchedSteal.v — model of scheduler/worksteal.py (WorkStealingScheduling). *)
From XV Require Import Base Worker Ctl SchedLoad.
Open Scope nat_scope.

Record wsstate := {
  ws_nt : ntable;
  ws_numnodes : nat;
  ws_n2c : amap (list string);
  ws_n2p : amap (list nat);
  ws_pending : list nat;
  ws_coll : option (list string);
  ws_steal : option nat;              (* steal_requested_from_node *)
}.

Definition ws_set_nt s v := {| ws_nt := v; ws_numnodes := ws_numnodes s; ws_n2c := ws_n2c s; ws_n2p := ws_n2p s;
                               ws_pending := ws_pending s; ws_coll := ws_coll s; ws_steal := ws_steal s |}.
Definition ws_set_n2c s v := {| ws_nt := ws_nt s; ws_numnodes := ws_numnodes s; ws_n2c := v; ws_n2p := ws_n2p s;
                                ws_pending := ws_pending s; ws_coll := ws_coll s; ws_steal := ws_steal s |}.
Definition ws_set_n2p s v := {| ws_nt := ws_nt s; ws_numnodes := ws_numnodes s; ws_n2c := ws_n2c s; ws_n2p := v;
                                ws_pending := ws_pending s; ws_coll := ws_coll s; ws_steal := ws_steal s |}.
Definition ws_set_pending s v := {| ws_nt := ws_nt s; ws_numnodes := ws_numnodes s; ws_n2c := ws_n2c s; ws_n2p := ws_n2p s;
                                    ws_pending := v; ws_coll := ws_coll s; ws_steal := ws_steal s |}.
Definition ws_set_coll s v := {| ws_nt := ws_nt s; ws_numnodes := ws_numnodes s; ws_n2c := ws_n2c s; ws_n2p := ws_n2p s;
                                 ws_pending := ws_pending s; ws_coll := v; ws_steal := ws_steal s |}.
Definition ws_set_steal s v := {| ws_nt := ws_nt s; ws_numnodes := ws_numnodes s; ws_n2c := ws_n2c s; ws_n2p := ws_n2p s;
                                  ws_pending := ws_pending s; ws_coll := ws_coll s; ws_steal := v |}.

Definition ws_init (nt : ntable) (numnodes : nat) : wsstate :=
  {| ws_nt := nt; ws_numnodes := numnodes; ws_n2c := []; ws_n2p := []; ws_pending := []; ws_coll := None;
     ws_steal := None |}.

Definition W := M wsstate.

Definition MIN_PENDING := 2.

Definition ws_nodes (s : wsstate) : list nat := akeys (ws_n2p s).
Definition ws_collection_is_completed (s : wsstate) : bool := ws_numnodes s <=? length (ws_n2c s).
Definition ws_tests_finished (s : wsstate) : bool :=
  ws_collection_is_completed s &&
  match ws_pending s with [] => true | _ => false end &&
  match ws_steal s with None => true | Some _ => false end &&
  forallb (fun p => length (snd p) <? MIN_PENDING) (ws_n2p s).
Definition ws_has_pending (s : wsstate) : bool :=
  match ws_pending s with
  | _ :: _ => true
  | [] => existsb (fun p => match snd p with [] => false | _ => true end) (ws_n2p s)
  end.

Definition ws_send_tests (n : nat) (num : Z) : W unit :=
  s <- get ;;
  let tests := py_take num (ws_pending s) in
  match tests with
  | [] => ret tt
  | _ =>
      put (ws_set_pending s (py_drop num (ws_pending s))) ;;;
      s1 <- get ;;
      cur <- of_opt (aget n (ws_n2p s1)) EKey ;;
      put (ws_set_n2p s1 (aset n (cur ++ tests) (ws_n2p s1))) ;;;
      node_send ws_nt n (CRun tests)
  end.

(* nodes of node2pending (in dict order) that are not shutting down: the fixed
   membership of nodes_up for one check_schedule call *)
Definition ws_up (s : wsstate) : list nat :=
  filter (fun n => match aget n (ws_nt s) with
                   | Some c => negb (shutting_down c) && ahas n (ws_n2c s)
                   | None => false
                   end) (akeys (ws_n2p s)).

Definition ws_len (s : wsstate) (n : nat) : nat :=
  match aget n (ws_n2p s) with Some l => length l | None => 0 end.

Definition ws_idle (s : wsstate) (up : list nat) : list nat :=
  filter (fun n => ws_len s n <? MIN_PENDING) up.

(* max(nodes_up, key=len(pending)): the first maximum *)
Fixpoint first_max (s : wsstate) (l : list nat) (best : option nat) : option nat :=
  match l with
  | [] => best
  | n :: r =>
      match best with
      | None => first_max s r (Some n)
      | Some b => if ws_len s b <? ws_len s n then first_max s r (Some n) else first_max s r best
      end
  end.

(* the distribution loop: for i, node in enumerate(idle): send len(pending)//(len(idle)-i) *)
Fixpoint ws_distribute (idle : list nat) : W unit :=
  match idle with
  | [] => ret tt
  | n :: r =>
      s <- get ;;
      let remaining := Z.of_nat (length idle) in
      ws_send_tests n (zlen (ws_pending s) / remaining)%Z ;;;
      ws_distribute r
  end.

Definition ws_check_schedule : W unit :=
  s <- get ;;
  match ws_coll s with None => ret tt | Some _ =>      (* initial distribution not done yet *)
  let up := ws_up s in
  let idle := ws_idle s up in
  match idle with
  | [] => ret tt
  | _ =>
      (match ws_pending s with
       | [] => ret tt
       | _ => ws_distribute idle
       end) ;;;
      s1 <- get ;;
      let idle1 := match ws_pending s with [] => idle | _ => ws_idle s1 up end in
      match idle1 with
      | [] => ret tt
      | _ =>
          match ws_steal s1 with
          | Some _ => ret tt
          | None =>
              let num_steal :=
                match first_max s1 up None with
                | None => 0
                | Some v => Nat.min (ws_len s1 v / 2) (ws_len s1 v - MIN_PENDING)
                end in
              match num_steal, first_max s1 up None with
              | S k, Some v =>
                  vp <- of_opt (aget v (ws_n2p s1)) EKey ;;
                  node_send ws_nt v (CSteal (py_lastn (S k) vp)) ;;;
                  s2 <- get ;;
                  put (ws_set_steal s2 (Some v))
              | _, _ => mfor idle1 (fun n => node_shutdown ws_nt ws_set_nt n)
              end
          end
      end
  end
  end.

Definition ws_add_node (n : nat) : W unit :=
  s <- get ;;
  massert (negb (ahas n (ws_n2p s))) ;;;
  put (ws_set_n2p s (aset n [] (ws_n2p s))).

Definition ws_add_node_collection (n : nat) (coll : list string) : W unit :=
  s <- get ;;
  massert (ahas n (ws_n2p s)) ;;;
  if ws_collection_is_completed s then
    match ws_coll s with
    | Some (c0 :: cr) =>
        if coll_eqb coll (c0 :: cr) then put (ws_set_n2c s (aset n coll (ws_n2c s)))
        else
          other <- of_opt (first_key (ws_n2c s)) EOther ;;
          emit (OLogDiff other n) ;;;
          node_shutdown ws_nt ws_set_nt n
    | _ => raise EAssert
    end
  else put (ws_set_n2c s (aset n coll (ws_n2c s))).

Definition ws_mark_test_complete (n : nat) (idx : nat) : W unit :=
  s <- get ;;
  cur <- of_opt (aget n (ws_n2p s)) EKey ;;
  cur' <- of_opt (remove_first idx cur) EValue ;;
  put (ws_set_n2p s (aset n cur' (ws_n2p s))) ;;;
  ws_check_schedule.

Definition ws_mark_test_pending (item : string) : W unit :=
  s <- get ;;
  coll <- of_opt (ws_coll s) EAssert ;;
  idx <- of_opt (index_of_str item coll) EValue ;;
  put (ws_set_pending s (idx :: ws_pending s)) ;;;
  ws_check_schedule.

Definition ws_remove_pending_tests_from_node (n : nat) (ixs : list nat) : W unit :=
  s <- get ;;
  massert (match ws_steal s with Some m => Nat.eqb m n | None => false end) ;;;
  put (ws_set_steal s None) ;;;
  s1 <- get ;;
  cur <- of_opt (aget n (ws_n2p s1)) EKey ;;
  put (ws_set_pending
         (ws_set_n2p s1 (aset n (filter (fun i => negb (mem_nat i ixs)) cur) (ws_n2p s1)))
         (ws_pending s1 ++ ixs)) ;;;
  ws_check_schedule.

Definition ws_remove_node (n : nat) : W (option string) :=
  s <- get ;;
  pend <- of_opt (aget n (ws_n2p s)) EKey ;;
  put (ws_set_n2p s (adel n (ws_n2p s))) ;;;
  (s0 <- get ;; if ws_collection_is_completed s0 then ret tt
                else put (ws_set_n2c s0 (adel n (ws_n2c s0)))) ;;;
  crash <- (match pend with
            | [] => ret None
            | i :: _ =>
                s1 <- get ;;
                coll <- of_opt (ws_coll s1) EAssert ;;
                c <- of_opt (nth_error coll i) EIndex ;;
                ret (Some c)
            end) ;;
  s2 <- get ;;
  put (ws_set_pending s2 (ws_pending s2 ++ tl pend)) ;;;
  s3 <- get ;;
  (match ws_steal s3 with
   | Some m => if Nat.eqb m n then put (ws_set_steal s3 None) else ret tt
   | None => ret tt
   end) ;;;
  ws_check_schedule ;;;
  ret crash.

Definition ws_same_collection : W bool :=
  s <- get ;;
  match ws_n2c s with
  | [] => raise EIndex
  | (first, col) :: others =>
      mfor others (fun p => if coll_eqb col (snd p) then ret tt else emit (OCollDiff first (fst p))) ;;;
      ret (forallb (fun p => coll_eqb col (snd p)) others)
  end.

Definition ws_schedule : W unit :=
  s <- get ;;
  massert (ws_collection_is_completed s) ;;;
  match ws_coll s with
  | Some _ => ws_check_schedule
  | None =>
      same <- ws_same_collection ;;
      if negb same then ret tt else
      s1 <- get ;;
      coll <- of_opt (match ws_n2c s1 with [] => None | (_, c) :: _ => Some c end) EOther ;;
      put (ws_set_pending (ws_set_coll s1 (Some coll)) (seq 0 (length coll))) ;;;
      match coll with
      | [] => ret tt
      | _ => ws_check_schedule
      end
  end.
