(* Ctl.v — controller-side basics shared by the scheduler and DSession models:
   the WorkerController flags (workermanage.py), command sending with its OSError
   behaviour, and the state+output+exception monad in which the Python methods are written. *)
From XV Require Import Base Worker.
Open Scope nat_scope.

(* WorkerController as seen by schedulers and DSession *)
Record nctl := {
  n_spec : nat;        (* gateway.spec (equality class of the XSpec) *)
  n_down : bool;       (* _down: set by the receiver thread on workerfinished / end marker *)
  n_sdsent : bool;     (* _shutdown_sent *)
  n_closed : bool;     (* channel.send raises OSError (worker gone and the channel knows) *)
}.

Definition shutting_down (c : nctl) : bool := n_down c || n_sdsent c.

Definition ntable := amap nctl.

(* hook calls made by DSession on the controller (what plugins and the terminal see) *)
Inductive hookcall :=
| HNodeReady (n : nat)
| HNodeDown (n : nat) (err : bool)                    (* pytest_testnodedown(node, error) *)
| HCollFinished (n : nat)                             (* pytest_xdist_node_collection_finished *)
| HLogStart (n i : nat)
| HLogFinish (n i : nat)
| HReport (n i k : nat) (oc : outcome)                (* pytest_runtest_logreport(rep), rep.node = n *)
| HCrashItem (nodeid : string) (n : nat)              (* pytest_handlecrashitem *)
| HCrashReport (nodeid : string) (n : nat)            (* the synthesized 'crashed while running' report *)
| HCollectReport (key : nat) (failed : bool)          (* pytest_collectreport forwarded from a worker *)
| HInternalError (n : nat)
| HWarning
| HSpawn (newid spec : nat)                           (* _clone_node: replacement worker started *)
| HSummary (restart_disabled : bool).                 (* _summary_report set *)

(* what a controller-side method call makes visible *)
Inductive out :=
| OHook (h : hookcall)
| OSend (n : nat) (c : cmd)                 (* a command put on worker n's channel *)
| OCollDiff (first : nat) (other : nat)     (* failed CollectReport posted by a scheduler for node [other] *)
| OLogDiff (first : nat) (other : nat).     (* collection difference only logged (late worker) *)

Section Monad.
  Variable S : Type.
  (* state, outputs so far, and either a value or the Python exception that escaped;
     the state is kept on exceptions because callers may swallow them *)
  Definition M (A : Type) := S -> S * list out * result A.
  Definition ret {A} (a : A) : M A := fun s => (s, [], Ok a).
  Definition raise {A} (e : err) : M A := fun s => (s, [], Err e).
  Definition mbind {A B} (m : M A) (f : A -> M B) : M B :=
    fun s => let '(s1, o1, r) := m s in
             match r with
             | Err e => (s1, o1, Err e)
             | Ok a => let '(s2, o2, r2) := f a s1 in (s2, o1 ++ o2, r2)
             end.
  Definition get : M S := fun s => (s, [], Ok s).
  Definition put (s : S) : M unit := fun _ => (s, [], Ok tt).
  Definition emit (o : out) : M unit := fun s => (s, [o], Ok tt).
  Definition massert (b : bool) : M unit := if b then ret tt else raise EAssert.
  Definition of_opt {A} (o : option A) (e : err) : M A :=
    match o with Some a => ret a | None => raise e end.
  (* try: / except <e>: pass *)
  Definition catch (m : M unit) (e : err) : M unit :=
    fun s => let '(s1, o1, r) := m s in
             match r with
             | Err e' => if String.eqb (err_name e') (err_name e) then (s1, o1, Ok tt) else (s1, o1, Err e')
             | Ok a => (s1, o1, Ok a)
             end.
  Fixpoint mfor {A} (l : list A) (f : A -> M unit) : M unit :=
    match l with
    | [] => ret tt
    | x :: r => mbind (f x) (fun _ => mfor r f)
    end.
End Monad.
Arguments ret {S A}. Arguments raise {S A}. Arguments mbind {S A B}. Arguments get {S}.
Arguments put {S}. Arguments emit {S}. Arguments massert {S}. Arguments of_opt {S A}.
Arguments catch {S}. Arguments mfor {S A}.

Notation "x <- m ;; k" := (mbind m (fun x => k))
  (at level 61, m at next level, k at level 200, right associativity).
Notation "m ;;; k" := (mbind m (fun _ => k))
  (at level 61, k at level 200, right associativity).

(* ---- node operations over any state that contains a node table ---- *)
Section Nodes.
  Variable S : Type.
  Variable nt_of : S -> ntable.
  Variable set_nt : S -> ntable -> S.

  Definition node_flags (n : nat) : M S nctl :=
    s <- get ;; of_opt (aget n (nt_of s)) EKey.

  Definition node_shutting_down (n : nat) : M S bool :=
    c <- node_flags n ;; ret (shutting_down c).

  (* WorkerController.sendcommand: Channel.send raises OSError on a closed channel;
     the command is then dropped (the node's errordown event follows) *)
  Definition node_send (n : nat) (c : cmd) : M S unit :=
    f <- node_flags n ;;
    if n_closed f then ret tt else emit (OSend n c).

  (* WorkerController.shutdown: at most one shutdown command per node *)
  Definition node_shutdown (n : nat) : M S unit :=
    f <- node_flags n ;;
    if n_down f || n_sdsent f then ret tt
    else
      node_send n CShutdown ;;;
      s <- get ;;
      put (set_nt s (aset n {| n_spec := n_spec f; n_down := n_down f; n_sdsent := true;
                               n_closed := n_closed f |} (nt_of s))).
End Nodes.
Arguments node_flags {S}. Arguments node_shutting_down {S}. Arguments node_send {S}.
Arguments node_shutdown {S}.

(* report.report_collection_diff: None iff the two collections are equal *)
Definition coll_eqb (a b : list string) : bool := list_eqb String.eqb a b.
