(* StatRec.v — model of looponfail.py: StatRecorder.check over a file-system snapshot
   (with _path.visit_path's filters), and RemoteControl.loop_once's failure memory (C18). *)
From XV Require Import Base.
Open Scope nat_scope.

(* a file-system snapshot; regular files carry (mtime, size) *)
Inductive fsnode :=
| FFile (name : string) (mtime size : Z)
| FDir (name : string) (children : list fsnode).

Definition fs_name (x : fsnode) : string :=
  match x with FFile n _ _ => n | FDir n _ => n end.

Definition path := list string.
Definition stat := (Z * Z)%type.

Definition starts_with_dot (s : string) : bool :=
  match s with String c _ => Ascii.eqb c "."%char | EmptyString => false end.

(* Path.suffix == ".pyc": the name ends with ".pyc" and the dot is not its first character *)
Definition is_pyc (s : string) : bool :=
  let cs := list_ascii_of_string s in
  (4 <? length cs) &&
  list_eqb Ascii.eqb (skipn (length cs - 4) cs) ["."%char; "p"%char; "y"%char; "c"%char].

(* StatRecorder.fil on a regular file / StatRecorder.rec on a directory *)
Definition fil_name (s : string) : bool := negb (starts_with_dot s) && negb (is_pyc s).
Definition rec_name (s : string) : bool := negb (starts_with_dot s).

(* visit_path(root): the watched files below a directory, os.walk order (files of a
   directory first, then its sub-directories in listing order) *)
Fixpoint visit_dir (fuel : nat) (prefix : path) (children : list fsnode) : list (path * stat) :=
  match fuel with
  | O => []
  | S f =>
      flat_map (fun x => match x with
                         | FFile n m sz => if fil_name n then [(prefix ++ [n], (m, sz))] else []
                         | FDir _ _ => []
                         end) children ++
      flat_map (fun x => match x with
                         | FDir n ch => if rec_name n then visit_dir f (prefix ++ [n]) ch else []
                         | FFile _ _ _ => []
                         end) children
  end.

Fixpoint depth (x : fsnode) : nat :=
  match x with
  | FFile _ _ _ => 1
  | FDir _ ch => S (fold_right (fun y acc => Nat.max (depth y) acc) 0 ch)
  end.

(* the sub-tree a root path names, if it is a directory *)
Fixpoint lookup (fuel : nat) (x : fsnode) (p : path) : option (list fsnode) :=
  match fuel with
  | O => None
  | S f =>
      match x, p with
      | FDir _ ch, [] => Some ch
      | FDir _ ch, q :: r =>
          match find (fun y => String.eqb (fs_name y) q) ch with
          | Some y => lookup f y r
          | None => None
          end
      | FFile _ _ _, _ => None
      end
  end.

(* all (path, stat) pairs visited for the list of roots, in order (with repetitions) *)
Definition visit_roots (fs : fsnode) (roots : list path) : list (path * stat) :=
  flat_map (fun r => match lookup (S (length r)) fs r with
                     | Some ch => visit_dir (depth fs) r ch
                     | None => []
                     end) roots.

Definition path_eqb (a b : path) : bool := list_eqb String.eqb a b.
Definition stat_eqb (a b : stat) : bool := Z.eqb (fst a) (fst b) && Z.eqb (snd a) (snd b).

Definition cache := list (path * stat).

Fixpoint cget (p : path) (c : cache) : option stat :=
  match c with
  | [] => None
  | (q, s) :: r => if path_eqb p q then Some s else cget p r
  end.
Fixpoint cdel (p : path) (c : cache) : cache :=
  match c with
  | [] => []
  | (q, s) :: r => if path_eqb p q then r else (q, s) :: cdel p r
  end.

(* the loop of StatRecorder.check over the visited paths:
   state = (old cache being emptied, new cache being filled, changed flag) *)
Fixpoint check_loop (visited : list (path * stat)) (old new : cache) (changed : bool)
  : cache * cache * bool :=
  match visited with
  | [] => (old, new, changed)
  | (p, st) :: r =>
      match cget p new with
      | Some _ => check_loop r old new changed             (* already seen in this poll *)
      | None =>
          match cget p old with
          | Some ost => check_loop r (cdel p old) (new ++ [(p, st)]) (changed || negb (stat_eqb ost st))
          | None => check_loop r old (new ++ [(p, st)]) true
          end
      end
  end.

(* StatRecorder.check: (changed, new statcache) *)
Definition check (c : cache) (fs : fsnode) (roots : list path) : bool * cache :=
  let '(old, new, changed) := check_loop (visit_roots fs roots) c [] false in
  (changed || match old with [] => false | _ => true end, new).

(* RemoteControl.loop_once: the remembered failure set *)
Definition remember (old : list string) (failures : list string) (collection_failed : bool) : list string :=
  if collection_failed then old else dedup_str [] failures.

(* ---- wire codec ---- *)
Fixpoint fs_of_sx (fuel : nat) (s : sx) : option fsnode :=
  match fuel with
  | O => None
  | S f =>
      match s with
      | SL [SS "f"; SS n; SZ m; SZ sz] => Some (FFile n m sz)
      | SL [SS "d"; SS n; SL ch] =>
          match opt_map (fs_of_sx f) ch with
          | Some ch' => Some (FDir n ch')
          | None => None
          end
      | _ => None
      end
  end%string.

Definition cache_of_sx (s : sx) : option cache :=
  match s with
  | SL l => opt_map (fun e => match e with
                              | SL [p; SZ m; SZ sz] => match un_strs p with Some p' => Some (p', (m, sz)) | None => None end
                              | _ => None end) l
  | _ => None
  end.

Definition sx_of_cache (c : cache) : sx :=
  SL (map (fun e => SL [SL (map SS (fst e)); SZ (fst (snd e)); SZ (snd (snd e))]) c).

(* a sequence of polls: each poll gives the snapshot; returns the changed flags and final cache *)
Fixpoint polls (c : cache) (roots : list path) (snaps : list fsnode) : list bool * cache :=
  match snaps with
  | [] => ([], c)
  | fs :: r => let '(ch, c') := check c fs roots in
               let '(rest, cf) := polls c' roots r in (ch :: rest, cf)
  end.

Definition run_statrec (s : sx) : sx :=
  match s with
  | SL [SL roots; SL snaps] =>
      match opt_map un_strs roots, opt_map (fs_of_sx 64) snaps with
      | Some roots', Some snaps' =>
          let '(flags, c) := polls [] roots' snaps' in
          SL [SL (map sx_bool flags); sx_of_cache c]
      | _, _ => bad_input
      end
  | _ => bad_input
  end.

Definition run_remember (s : sx) : sx :=
  match s with
  | SL [o; f; cf] =>
      match un_strs o, un_strs f, un_bool cf with
      | Some o', Some f', Some cf' => SL (map SS (remember o' f' cf'))
      | _, _, _ => bad_input
      end
  | _ => bad_input
  end.
