(* DSession.v — model of dsession.py: the controller's event handlers, loop_once,
   triggershutdown, handle_crashitem, the restart budget, and of
   WorkerController.process_from_remote (workermanage.py), which runs in the receiver thread. *)
From XV Require Import Base Worker Ctl SchedLoad SchedSteal SchedScope SchedEach Sched.
Open Scope nat_scope.

Inductive stopkind := SKNone | SKStop | SKKbd.   (* workeroutput: nothing / shouldfail|shouldstop / exitstatus 2 *)

(* what process_from_remote puts on the controller's queue *)
Inductive cevent :=
| QReady (n : nat)
| QCollFinish (n : nat) (ids : list string)
| QCollectReport (n key : nat) (failed : bool)
| QLogStart (n i : nat)
| QLogFinish (n i : nat)
| QReport (n i k : nat) (oc : outcome)
| QComplete (n i : nat) (ms : Z)
| QUnscheduled (n : nat) (ixs : list nat)
| QWarning
| QInternalError (n : nat)
| QFinished (n : nat) (sk : stopkind)
| QErrorDown (n : nat).

Record dstate := {
  d_sched : sstate;                  (* scheduler + WorkerController flags *)
  d_shuttingdown : bool;
  d_shouldstop : bool;               (* False or a reason string *)
  d_countfailures : Z;
  d_maxfail : Z;
  d_active : list nat;               (* _active_nodes *)
  d_failed_nodes : Z;                (* _failed_nodes_count *)
  d_max_restart : option Z;          (* _max_worker_restart *)
  d_collect_seen : list nat;         (* keys of _failed_collection_errors *)
  d_next_gw : nat;                   (* execnet group id counter *)
  d_requeue : nat;                   (* oracle: how many crash items a plugin still re-queues *)
}.

Definition d_set_sched d v := {| d_sched := v; d_shuttingdown := d_shuttingdown d; d_shouldstop := d_shouldstop d;
  d_countfailures := d_countfailures d; d_maxfail := d_maxfail d; d_active := d_active d;
  d_failed_nodes := d_failed_nodes d; d_max_restart := d_max_restart d; d_collect_seen := d_collect_seen d;
  d_next_gw := d_next_gw d; d_requeue := d_requeue d |}.
Definition d_set_shuttingdown d v := {| d_sched := d_sched d; d_shuttingdown := v; d_shouldstop := d_shouldstop d;
  d_countfailures := d_countfailures d; d_maxfail := d_maxfail d; d_active := d_active d;
  d_failed_nodes := d_failed_nodes d; d_max_restart := d_max_restart d; d_collect_seen := d_collect_seen d;
  d_next_gw := d_next_gw d; d_requeue := d_requeue d |}.
Definition d_set_shouldstop d v := {| d_sched := d_sched d; d_shuttingdown := d_shuttingdown d; d_shouldstop := v;
  d_countfailures := d_countfailures d; d_maxfail := d_maxfail d; d_active := d_active d;
  d_failed_nodes := d_failed_nodes d; d_max_restart := d_max_restart d; d_collect_seen := d_collect_seen d;
  d_next_gw := d_next_gw d; d_requeue := d_requeue d |}.
Definition d_set_countfailures d v := {| d_sched := d_sched d; d_shuttingdown := d_shuttingdown d;
  d_shouldstop := d_shouldstop d; d_countfailures := v; d_maxfail := d_maxfail d; d_active := d_active d;
  d_failed_nodes := d_failed_nodes d; d_max_restart := d_max_restart d; d_collect_seen := d_collect_seen d;
  d_next_gw := d_next_gw d; d_requeue := d_requeue d |}.
Definition d_set_active d v := {| d_sched := d_sched d; d_shuttingdown := d_shuttingdown d;
  d_shouldstop := d_shouldstop d; d_countfailures := d_countfailures d; d_maxfail := d_maxfail d; d_active := v;
  d_failed_nodes := d_failed_nodes d; d_max_restart := d_max_restart d; d_collect_seen := d_collect_seen d;
  d_next_gw := d_next_gw d; d_requeue := d_requeue d |}.
Definition d_set_failed_nodes d v := {| d_sched := d_sched d; d_shuttingdown := d_shuttingdown d;
  d_shouldstop := d_shouldstop d; d_countfailures := d_countfailures d; d_maxfail := d_maxfail d;
  d_active := d_active d; d_failed_nodes := v; d_max_restart := d_max_restart d;
  d_collect_seen := d_collect_seen d; d_next_gw := d_next_gw d; d_requeue := d_requeue d |}.
Definition d_set_collect_seen d v := {| d_sched := d_sched d; d_shuttingdown := d_shuttingdown d;
  d_shouldstop := d_shouldstop d; d_countfailures := d_countfailures d; d_maxfail := d_maxfail d;
  d_active := d_active d; d_failed_nodes := d_failed_nodes d; d_max_restart := d_max_restart d;
  d_collect_seen := v; d_next_gw := d_next_gw d; d_requeue := d_requeue d |}.
Definition d_set_next_gw d v := {| d_sched := d_sched d; d_shuttingdown := d_shuttingdown d;
  d_shouldstop := d_shouldstop d; d_countfailures := d_countfailures d; d_maxfail := d_maxfail d;
  d_active := d_active d; d_failed_nodes := d_failed_nodes d; d_max_restart := d_max_restart d;
  d_collect_seen := d_collect_seen d; d_next_gw := v; d_requeue := d_requeue d |}.
Definition d_set_requeue d v := {| d_sched := d_sched d; d_shuttingdown := d_shuttingdown d;
  d_shouldstop := d_shouldstop d; d_countfailures := d_countfailures d; d_maxfail := d_maxfail d;
  d_active := d_active d; d_failed_nodes := d_failed_nodes d; d_max_restart := d_max_restart d;
  d_collect_seen := d_collect_seen d; d_next_gw := d_next_gw d; d_requeue := v |}.

Definition D := M dstate.

Definition d_nt (d : dstate) : ntable := s_nt (d_sched d).
Definition d_set_nt (d : dstate) (v : ntable) : dstate := d_set_sched d (s_set_nt (d_sched d) v).

(* get_default_max_worker_restart: explicit value, else 4 * numprocesses when -n is truthy, else None *)
Definition default_max_restart (opt : option Z) (numprocesses : option Z) : option Z :=
  match opt with
  | Some v => Some v
  | None => match numprocesses with
            | Some n => if (n =? 0)%Z then None else Some (n * 4)%Z
            | None => None
            end
  end.

(* session_finished *)
Definition d_session_finished (d : dstate) : bool :=
  d_shuttingdown d && match d_active d with [] => true | _ => false end.

(* a call on the scheduler *)
Definition d_sched_op (op : sop) : D (option string) :=
  fun d => let '(st, o, r) := s_step (d_sched d) op in (d_set_sched d st, o, r).

Definition hook (h : hookcall) : D unit := emit (OHook h).

Definition d_node_shutdown (n : nat) : D unit := node_shutdown d_nt d_set_nt n.

Definition d_triggershutdown : D unit :=
  d <- get ;;
  if d_shuttingdown d then ret tt else
  put (d_set_shuttingdown d true) ;;;
  mfor (s_nodes (d_sched d)) d_node_shutdown.

(* set.remove: KeyError when absent *)
Definition d_active_remove (n : nat) : D unit :=
  d <- get ;;
  if mem_nat n (d_active d) then put (d_set_active d (filter (fun m => negb (Nat.eqb m n)) (d_active d)))
  else raise EKey.

Definition d_handlefailures (failed : bool) : D unit :=
  if negb failed then ret tt else
  d <- get ;;
  let c := (d_countfailures d + 1)%Z in
  put (d_set_countfailures d c) ;;;
  d1 <- get ;;
  if negb (d_maxfail d1 =? 0)%Z && (d_maxfail d1 <=? c)%Z && negb (d_shouldstop d1)
  then put (d_set_shouldstop d1 true) else ret tt.

Definition d_handle_crashitem (nodeid : string) (n : nat) : D unit :=
  hook (HCrashItem nodeid n) ;;;
  d <- get ;;
  (match d_requeue d with
   | S k => put (d_set_requeue d k) ;;; (_ <- d_sched_op (SPending nodeid) ;; ret tt)
   | O => ret tt
   end) ;;;
  hook (HCrashReport nodeid n).

(* _clone_node: same spec, fresh id from the group counter, new WorkerController *)
Definition d_clone_node (n : nat) : D unit :=
  d <- get ;;
  f <- of_opt (aget n (d_nt d)) EKey ;;
  let id := d_next_gw d in
  _ <- d_sched_op (SNew id (n_spec f)) ;;
  d1 <- get ;;
  put (d_set_active (d_set_next_gw d1 (S id)) (d_active d1 ++ [id])) ;;;
  hook (HSpawn id (n_spec f)).

Definition d_worker_errordown (n : nat) : D unit :=
  hook (HNodeDown n true) ;;;
  (* try: crashitem = sched.remove_node(node) / except KeyError: pass / else: handle_crashitem *)
  (fun d =>
     let '(d1, o1, r) := d_sched_op (SRemove n) d in
     match r with
     | Err EKey => (d1, o1, Ok tt)
     | Err e => (d1, o1, Err e)
     | Ok None => (d1, o1, Ok tt)
     | Ok (Some item) =>
         let '(d2, o2, r2) := d_handle_crashitem item n d1 in (d2, o1 ++ o2, r2)
     end) ;;;
  d <- get ;;
  let failed := (d_failed_nodes d + 1)%Z in
  put (d_set_failed_nodes d failed) ;;;
  (match d_max_restart d with
   | Some m =>
       if (m <? failed)%Z then hook (HSummary (m =? 0)%Z) ;;; d_triggershutdown
       else (d2 <- get ;; put (d_set_shuttingdown d2 false)) ;;; d_clone_node n
   | None => (d2 <- get ;; put (d_set_shuttingdown d2 false)) ;;; d_clone_node n
   end) ;;;
  d_active_remove n.

Definition d_worker_workerfinished (n : nat) (sk : stopkind) : D unit :=
  hook (HNodeDown n false) ;;;
  match sk with
  | SKKbd =>
      (d <- get ;; put (d_set_shouldstop d true)) ;;;
      d_triggershutdown ;;;          (* the others are told first: nothing is re-scheduled to them *)
      d_worker_errordown n
  | SKStop =>
      (d <- get ;; if d_shouldstop d then ret tt else put (d_set_shouldstop d true)) ;;;
      d_active_remove n
  | SKNone =>
      d <- get ;;
      (if mem_nat n (s_nodes (d_sched d)) then
         r <- d_sched_op (SRemove n) ;;
         massert (match r with None => true | Some s => String.eqb s "" end)
       else ret tt) ;;;
      d_active_remove n
  end.

Definition d_handle (ev : cevent) : D unit :=
  match ev with
  | QReady n =>
      hook (HNodeReady n) ;;;
      d <- get ;;
      if d_shuttingdown d then d_node_shutdown n
      else (_ <- d_sched_op (SAddNode n) ;; ret tt)
  | QFinished n sk => d_worker_workerfinished n sk
  | QInternalError n => d_active_remove n ;;; hook (HInternalError n)
  | QErrorDown n => d_worker_errordown n
  | QCollFinish n ids =>
      d <- get ;;
      if d_shuttingdown d then ret tt else
      if negb (mem_nat n (s_nodes (d_sched d))) then ret tt else     (* never handed to the scheduler *)
      hook (HCollFinished n) ;;;
      _ <- d_sched_op (SAddColl n ids) ;;
      d1 <- get ;;
      if s_collection_is_completed (d_sched d1) then (_ <- d_sched_op SSchedule ;; ret tt) else ret tt
  | QLogStart n i => hook (HLogStart n i)
  | QLogFinish n i => hook (HLogFinish n i)
  | QReport n i k oc =>
      hook (HReport n i k oc) ;;;
      d_handlefailures (match oc with Failed => true | _ => false end)
  | QComplete n i ms => (_ <- d_sched_op (SComplete n i ms) ;; ret tt)
  | QUnscheduled n ixs => (_ <- d_sched_op (SUnsched n ixs) ;; ret tt)
  | QCollectReport n key failed =>
      d <- get ;;
      if mem_nat key (d_collect_seen d) then ret tt else
      put (d_set_collect_seen d (key :: d_collect_seen d)) ;;;
      hook (HCollectReport key failed) ;;;
      d_handlefailures failed
  | QWarning => hook HWarning
  end.

(* one iteration of the while loop in pytest_runtestloop, given the event taken
   from the queue: loop_once (handler, then tests_finished => triggershutdown) followed by
   'if self.shouldstop: triggershutdown()' *)
Definition d_loop_once (ev : cevent) : D unit :=
  d_handle ev ;;;
  (d <- get ;; if s_tests_finished (d_sched d) then d_triggershutdown else ret tt) ;;;
  (d <- get ;; if d_shouldstop d then d_triggershutdown else ret tt).

(* loop_once when no active node is left: triggershutdown, RuntimeError *)
Definition d_no_active : D unit := d_triggershutdown ;;; raise ERuntimeNoWorkers.

(* ---- WorkerController.process_from_remote (receiver thread) ---- *)
Inductive upmsg :=
| UEv (e : wevent)
| UCollFinish (ids : list string)      (* collectionfinish carries the ids *)
| UFinished (sk : stopkind)
| UComplete (i : nat) (ms : Z)
| UWarning (decodable : bool)          (* warning_recorded; false: unserialize_warning_message raises *)
| UInternalError
| UBad                                  (* unknown event name *)
| UEnd.                                 (* channel end marker *)

(* returns the events queued and whether shutdown() is called (undecodable message) *)
Definition process_from_remote (n : nat) (m : upmsg) : D (list cevent) :=
  d <- get ;;
  f <- of_opt (aget n (d_nt d)) EKey ;;
  let set_down :=
    put (d_set_nt d (aset n {| n_spec := n_spec f; n_down := true; n_sdsent := n_sdsent f;
                               n_closed := n_closed f |} (d_nt d))) in
  match m with
  | UEnd => if n_down f then ret [] else set_down ;;; ret [QErrorDown n]
  | _ =>
  (* a worker that is down (finished, or written off for an undecodable message) is not heard any more *)
  if n_down f then ret [] else
  match m with
  | UEnd => ret []
  | UFinished sk => set_down ;;; ret [QFinished n sk]
  | UCollFinish ids => ret [QCollFinish n ids]
  | UComplete i ms => ret [QComplete n i ms]
  | UInternalError => ret [QInternalError n]
  | UWarning _ => ret [QWarning]         (* a warning that cannot be rebuilt is re-emitted in generic form *)
  | UBad =>
      (* shutdown(), errordown queued, and the node is marked down *)
      d_node_shutdown n ;;;
      d1 <- get ;;
      match aget n (d_nt d1) with
      | Some f1 => put (d_set_nt d1 (aset n {| n_spec := n_spec f1; n_down := true; n_sdsent := n_sdsent f1;
                                               n_closed := n_closed f1 |} (d_nt d1)))
      | None => ret tt
      end ;;;
      ret [QErrorDown n]
  | UEv e =>
      match e with
      | EReady => ret [QReady n]
      | ECollStart => ret []
      | ECollReport k fl => ret [QCollectReport n k fl]
      | ECollFinish => ret []                      (* carried by UCollFinish *)
      | ELogStart i => ret [QLogStart n i]
      | EReport i k oc => ret [QReport n i k oc]
      | ELogFinish i => ret [QLogFinish n i]
      | EComplete i => ret [QComplete n i 0%Z]
      | EUnscheduled ixs => ret [QUnscheduled n ixs]
      | EFinished s => set_down ;;; ret [QFinished n (if s then SKStop else SKNone)]
      end
  end
  end.
