(* GroupMark.v — WorkerInteractor.pytest_collection_modifyitems (remote.py): with --dist loadgroup
   the WORKER appends "@<group>" to the id of every test carrying an xdist_group mark; the
   controller's LoadGroupScheduling._split_scope (SchedScope.split_group) reads it back. *)
From XV Require Import Base SchedScope.
Open Scope string_scope.

(* mark.args[0] if len(mark.args) > 0 else mark.kwargs.get("name", "default") *)
Definition gname_of (args : list string) (kwname : option string) : string :=
  match args with
  | a :: _ => a
  | [] => match kwname with Some n => n | None => "default" end
  end.

(* mark: None = no xdist_group marker on the item *)
Definition mark_nodeid (loadgroup : bool) (nodeid : string) (mark : option (list string * option string)) : string :=
  if loadgroup then
    match mark with
    | Some (args, kw) => nodeid ++ "@" ++ gname_of args kw
    | None => nodeid
    end
  else nodeid.

(* wire: [loadgroup; nodeid; [] | [[args...]; [] | [kwname]]] -> [new nodeid; group key the controller computes] *)
Definition run_groupmark (s : sx) : sx :=
  match s with
  | SL [lg; SS nodeid; m] =>
      match un_bool lg,
            (match m with
             | SL [] => Some None
             | SL [args; kw] => match un_strs args, un_opt (fun x => match x with SS t => Some t | _ => None end) kw with
                                | Some a, Some k => Some (Some (a, k))
                                | _, _ => None
                                end
             | _ => None
             end) with
      | Some lg', Some m' => let nid := mark_nodeid lg' nodeid m' in SL [SS nid; SS (split_group nid)]
      | _, _ => bad_input
      end
  | _ => bad_input
  end.
