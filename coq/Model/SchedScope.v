(* SchedScope.v — model of scheduler/loadscope.py (LoadScopeScheduling) and its two
   subclasses loadfile.py / loadgroup.py, which differ only in _split_scope. *)
From XV Require Import Base Worker Ctl SchedLoad.
Open Scope nat_scope.

(* ---- _split_scope over strings ---- *)
(* index of the first occurrence of "::" *)
Fixpoint find_sep (s : list ascii) (i : nat) : option nat :=
  match s with
  | a :: ((b :: _) as r) =>
      if Ascii.eqb a ":"%char && Ascii.eqb b ":"%char then Some i else find_sep r (S i)
  | _ => None
  end.

(* nodeid.split("::", 1)[0] *)
Definition split_file (nodeid : string) : string :=
  let cs := list_ascii_of_string nodeid in
  match find_sep cs 0 with
  | Some i => string_of_list_ascii (firstn i cs)
  | None => nodeid
  end.

(* nodeid.rsplit("::", 1)[0]: rsplit scans right to left for non-overlapping "::",
   so for ":::" the separator found is the rightmost pair *)
Fixpoint rfind_sep_right (rev_s : list ascii) (i : nat) : option nat :=
  (* rev_s is the reversed string; returns the number of characters after the separator *)
  match rev_s with
  | a :: ((b :: _) as r) =>
      if Ascii.eqb a ":"%char && Ascii.eqb b ":"%char then Some i else rfind_sep_right r (S i)
  | _ => None
  end.

Definition split_scope (nodeid : string) : string :=
  let cs := list_ascii_of_string nodeid in
  match rfind_sep_right (rev cs) 0 with
  | Some k => string_of_list_ascii (firstn (length cs - k - 2) cs)
  | None => nodeid
  end.

(* str.rfind(c): index of the last occurrence, None for -1 *)
Fixpoint rfind_char (c : ascii) (s : list ascii) (i : nat) (best : option nat) : option nat :=
  match s with
  | [] => best
  | a :: r => rfind_char c r (S i) (if Ascii.eqb a c then Some i else best)
  end.

(* nodeid.rfind("@") > nodeid.rfind("]") ? nodeid.split("@")[-1] : nodeid *)
Definition split_group (nodeid : string) : string :=
  let cs := list_ascii_of_string nodeid in
  match rfind_char "@"%char cs 0 None with
  | None => nodeid                                   (* -1 > x is false for x >= -1 *)
  | Some ia =>
      let after := string_of_list_ascii (skipn (S ia) cs) in
      match rfind_char "]"%char cs 0 None with
      | None => after
      | Some ib => if ib <? ia then after else nodeid
      end
  end.

Inductive scope_kind := KScope | KFile | KGroup.
Definition split_of (k : scope_kind) : string -> string :=
  match k with KScope => split_scope | KFile => split_file | KGroup => split_group end.

(* ---- ordered dicts keyed by strings ---- *)
Definition unit_t := list (string * bool).            (* nodeid -> completed *)
Definition workload := list (string * unit_t).        (* scope -> work unit *)

Fixpoint sget {V} (k : string) (m : list (string * V)) : option V :=
  match m with
  | [] => None
  | (k', v) :: r => if String.eqb k k' then Some v else sget k r
  end.
Fixpoint sset {V} (k : string) (v : V) (m : list (string * V)) : list (string * V) :=
  match m with
  | [] => [(k, v)]
  | (k', v') :: r => if String.eqb k k' then (k', v) :: r else (k', v') :: sset k v r
  end.

Definition unit_pending (u : unit_t) : nat := length (filter (fun p => negb (snd p)) u).
Definition pending_of (w : workload) : nat := fold_right (fun p acc => unit_pending (snd p) + acc) 0 w.

Record scstate := {
  sc_nt : ntable;
  sc_kind : scope_kind;
  sc_numnodes : nat;
  sc_coll : option (list string);
  sc_wq : workload;                       (* workqueue (OrderedDict) *)
  sc_assigned : amap workload;            (* assigned_work *)
  sc_reg : amap (list string);            (* registered_collections *)
}.

Definition sc_set_nt s v := {| sc_nt := v; sc_kind := sc_kind s; sc_numnodes := sc_numnodes s; sc_coll := sc_coll s;
                               sc_wq := sc_wq s; sc_assigned := sc_assigned s; sc_reg := sc_reg s |}.
Definition sc_set_coll s v := {| sc_nt := sc_nt s; sc_kind := sc_kind s; sc_numnodes := sc_numnodes s; sc_coll := v;
                                 sc_wq := sc_wq s; sc_assigned := sc_assigned s; sc_reg := sc_reg s |}.
Definition sc_set_wq s v := {| sc_nt := sc_nt s; sc_kind := sc_kind s; sc_numnodes := sc_numnodes s; sc_coll := sc_coll s;
                               sc_wq := v; sc_assigned := sc_assigned s; sc_reg := sc_reg s |}.
Definition sc_set_assigned s v := {| sc_nt := sc_nt s; sc_kind := sc_kind s; sc_numnodes := sc_numnodes s;
                                     sc_coll := sc_coll s; sc_wq := sc_wq s; sc_assigned := v; sc_reg := sc_reg s |}.
Definition sc_set_reg s v := {| sc_nt := sc_nt s; sc_kind := sc_kind s; sc_numnodes := sc_numnodes s;
                                sc_coll := sc_coll s; sc_wq := sc_wq s; sc_assigned := sc_assigned s; sc_reg := v |}.

Definition sc_init (nt : ntable) (k : scope_kind) (numnodes : nat) : scstate :=
  {| sc_nt := nt; sc_kind := k; sc_numnodes := numnodes; sc_coll := None; sc_wq := []; sc_assigned := [];
     sc_reg := [] |}.

Definition C := M scstate.

Definition sc_nodes (s : scstate) : list nat := akeys (sc_assigned s).
Definition sc_collection_is_completed (s : scstate) : bool := sc_numnodes s <=? length (sc_reg s).
Definition sc_tests_finished (s : scstate) : bool :=
  sc_collection_is_completed s &&
  match sc_wq s with [] => true | _ => false end &&
  forallb (fun p => pending_of (snd p) <? 2) (sc_assigned s).
Definition sc_has_pending (s : scstate) : bool :=
  match sc_wq s with
  | _ :: _ => true
  | [] => existsb (fun p => 0 <? pending_of (snd p)) (sc_assigned s)
  end.

Definition sc_add_node (n : nat) : C unit :=
  s <- get ;;
  massert (negb (ahas n (sc_assigned s))) ;;;
  put (sc_set_assigned s (aset n [] (sc_assigned s))).

Definition sc_assign_work_unit (n : nat) : C unit :=
  s <- get ;;
  match sc_wq s with
  | [] => raise EAssert
  | (scope, u) :: wq' =>
      let cur := match aget n (sc_assigned s) with Some w => w | None => [] end in
      put (sc_set_assigned (sc_set_wq s wq') (aset n (sset scope u cur) (sc_assigned s))) ;;;
      s1 <- get ;;
      wcoll <- of_opt (aget n (sc_reg s1)) EKey ;;
      ixs <- of_opt (opt_map (fun p => index_of_str (fst p) wcoll) (filter (fun p => negb (snd p)) u)) EValue ;;
      node_send sc_nt n (CRun ixs)
  end.

(* keep assigning while the node holds fewer than two pending tests *)
Fixpoint sc_top_up (fuel : nat) (n : nat) : C unit :=
  match fuel with
  | O => ret tt
  | S f =>
      s <- get ;;
      match sc_wq s with
      | [] => ret tt
      | _ =>
          w <- of_opt (aget n (sc_assigned s)) EKey ;;
          if pending_of w <? 2 then sc_assign_work_unit n ;;; sc_top_up f n else ret tt
      end
  end.

Definition sc_reschedule (n : nat) : C unit :=
  sd <- node_shutting_down sc_nt n ;;
  if sd then ret tt else
  s <- get ;;
  match sc_wq s with
  | [] => node_shutdown sc_nt sc_set_nt n
  | _ =>
      if negb (ahas n (sc_reg s)) then ret tt else      (* no collection reported yet *)
      w <- of_opt (aget n (sc_assigned s)) EKey ;;
      if 2 <? pending_of w then ret tt
      else sc_assign_work_unit n ;;; (s1 <- get ;; sc_top_up (length (sc_wq s1)) n)
  end.

(* first not-completed nodeid of a workload, in unit order *)
Fixpoint first_undone (w : workload) : option string :=
  match w with
  | [] => None
  | (_, u) :: r =>
      match filter (fun p => negb (snd p)) u with
      | (nid, _) :: _ => Some nid
      | [] => first_undone r
      end
  end.

(* work_unit[crashitem] = True in the first unit that has a pending test *)
Fixpoint mark_crashed (w : workload) : workload :=
  match w with
  | [] => []
  | (sc, u) :: r =>
      match filter (fun p => negb (snd p)) u with
      | (nid, _) :: _ => (sc, sset nid true u) :: r
      | [] => (sc, u) :: mark_crashed r
      end
  end.

(* OrderedDict.update(workload) *)
Definition wq_update (wq add : workload) : workload :=
  fold_left (fun acc p => sset (fst p) (snd p) acc) add wq.

Definition sc_remove_node (n : nat) : C (option string) :=
  s <- get ;;
  w <- of_opt (aget n (sc_assigned s)) EKey ;;
  put (sc_set_assigned s (adel n (sc_assigned s))) ;;;
  (s0 <- get ;; if sc_collection_is_completed s0 then ret tt
                else put (sc_set_reg s0 (adel n (sc_reg s0)))) ;;;
  if pending_of w =? 0 then ret None else
  crash <- of_opt (first_undone w) EOther ;;
  s1 <- get ;;
  (* only the units that still have pending tests go back, minus the crashed test *)
  put (sc_set_wq s1 (wq_update (sc_wq s1)
                       (filter (fun p => negb (unit_pending (snd p) =? 0)) (mark_crashed w)))) ;;;
  s2 <- get ;;
  mfor (akeys (sc_assigned s2)) sc_reschedule ;;;
  ret (Some crash).

Definition sc_add_node_collection (n : nat) (coll : list string) : C unit :=
  s <- get ;;
  massert (ahas n (sc_assigned s)) ;;;
  if sc_collection_is_completed s then
    match sc_coll s with
    | Some (c0 :: cr) =>
        if coll_eqb coll (c0 :: cr) then put (sc_set_reg s (aset n coll (sc_reg s)))
        else
          other <- of_opt (first_key (sc_reg s)) EOther ;;
          emit (OLogDiff other n) ;;;
          node_shutdown sc_nt sc_set_nt n
    | _ => raise EAssert
    end
  else put (sc_set_reg s (aset n coll (sc_reg s))).

Definition sc_mark_test_complete (n : nat) (idx : nat) : C unit :=
  s <- get ;;
  wcoll <- of_opt (aget n (sc_reg s)) EKey ;;
  nodeid <- of_opt (nth_error wcoll idx) EIndex ;;
  let scope := split_of (sc_kind s) nodeid in
  w <- of_opt (aget n (sc_assigned s)) EKey ;;
  u <- of_opt (sget scope w) EKey ;;
  put (sc_set_assigned s (aset n (sset scope (sset nodeid true u) w) (sc_assigned s))) ;;;
  sc_reschedule n.

Definition sc_same_collection : C bool :=
  s <- get ;;
  match sc_reg s with
  | [] => raise EIndex
  | (first, col) :: others =>
      mfor others (fun p => if coll_eqb col (snd p) then ret tt else emit (OCollDiff first (fst p))) ;;;
      ret (forallb (fun p => coll_eqb col (snd p)) others)
  end.

(* the unsorted work queue: scope -> {nodeid: False}, insertion ordered, duplicate ids collapse *)
Definition build_units (k : scope_kind) (coll : list string) : workload :=
  fold_left (fun acc nid =>
               let scope := split_of k nid in
               let u := match sget scope acc with Some u => u | None => [] end in
               sset scope (sset nid false u) acc) coll [].

(* sorted(items, key=-len): stable insertion sort, longer units first *)
Fixpoint insert_by_len (p : string * unit_t) (l : workload) : workload :=
  match l with
  | [] => [p]
  | q :: r => if length (snd q) <=? length (snd p) then p :: l else q :: insert_by_len p r
  end.
Definition sort_units (w : workload) : workload := fold_right insert_by_len [] w.

Fixpoint sc_pop_extra (k : nat) : C unit :=
  match k with
  | O => ret tt
  | S k' =>
      s <- get ;;
      match rev (sc_assigned s) with
      | [] => raise EKey                       (* popitem on an empty dict *)
      | (n, _) :: _ =>
          put (sc_set_assigned s (removelast (sc_assigned s))) ;;;
          node_shutdown sc_nt sc_set_nt n ;;;
          sc_pop_extra k'
      end
  end.

Definition sc_schedule : C unit :=
  s <- get ;;
  massert (sc_collection_is_completed s) ;;;
  match sc_coll s with
  | Some _ => mfor (sc_nodes s) sc_reschedule
  | None =>
      same <- sc_same_collection ;;
      if negb same then ret tt else
      s1 <- get ;;
      coll <- of_opt (match sc_reg s1 with [] => None | (_, c) :: _ => Some c end) EOther ;;
      put (sc_set_coll s1 (Some coll)) ;;;
      match coll with
      | [] => ret tt
      | _ =>
          s2 <- get ;;
          put (sc_set_wq s2 (wq_update (sc_wq s2) (sort_units (build_units (sc_kind s2) coll)))) ;;;
          s3 <- get ;;
          sc_pop_extra (length (sc_nodes s3) - length (sc_wq s3)) ;;;
          s4 <- get ;;
          mfor (sc_nodes s4) sc_assign_work_unit ;;;
          s5 <- get ;;
          mfor (sc_nodes s5) sc_reschedule ;;;
          s6 <- get ;;
          match sc_wq s6 with
          | [] => mfor (sc_nodes s6) (fun n => node_shutdown sc_nt sc_set_nt n)
          | _ => ret tt
          end
      end
  end.
