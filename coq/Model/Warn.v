(* Warn.v — model of remote.serialize_warning_message / workermanage.unserialize_warning_message
   and of the fallback used by process_from_remote (C14). Importability and constructor behaviour
   on the controller are oracles (Section variables). *)
From XV Require Import Base.
Open Scope nat_scope.

(* a warning as captured in the worker *)
Inductive wmessage :=
| WStr (text : string)                                           (* warnings.warn("text", Category) kept as str *)
| WInst (modname clsname : string) (args_dumpable : bool) (args : list string) (text : string).
        (* a Warning instance: type(...).__module__/__name__, .args (execnet-dumpable or not), str(instance) *)

Record wwarning := {
  ww_message : wmessage;
  ww_category : option (string * string);      (* category.__module__, __name__ *)
  ww_filename : string;
  ww_lineno : Z;
}.

(* the dict put on the wire *)
Record wdata := {
  wd_str : string;
  wd_module : option string;
  wd_class : option string;
  wd_args : option (list string);
  wd_cat_module : option string;
  wd_cat_class : option string;
  wd_filename : string;
  wd_lineno : Z;
}.

Definition serialize (w : wwarning) : wdata :=
  let '(s, m, c, a) :=
    match ww_message w with
    | WStr t => (t, None, None, None)
    | WInst m c d a t => (t, Some m, Some c, if d then Some a else None)
    end in
  {| wd_str := s; wd_module := m; wd_class := c; wd_args := a;
     wd_cat_module := option_map fst (ww_category w); wd_cat_class := option_map snd (ww_category w);
     wd_filename := ww_filename w; wd_lineno := ww_lineno w |}.

(* what the controller ends up with *)
Inductive rmessage :=
| RStr (text : string)
| RInst (modname clsname : string) (args : list string)         (* cls applied to args rebuilt *)
| RGeneric (text : string).                                      (* Warning("<mod>.<cls>: <text>") *)

Record rwarning := {
  rw_message : rmessage;
  rw_category : option (string * string);
  rw_filename : string;
  rw_lineno : Z;
}.

Inductive ctor_result := CBuilt | CTypeError | COtherError.

Section Controller.
  (* importlib.import_module(mod) + getattr(mod, cls) on the controller *)
  Variable resolve : string -> string -> result unit.
  (* cls applied to args *)
  Variable construct : string -> string -> list string -> ctor_result.

  Definition truthy (o : option string) : bool :=
    match o with Some s => negb (String.eqb s "") | None => false end.

  Definition generic_text (m c t : string) : string := (m ++ "." ++ c ++ ": " ++ t)%string.

  (* workermanage.unserialize_warning_message *)
  Definition unserialize (d : wdata) : result rwarning :=
    do msg <-
      (if truthy (wd_module d) then
         let m := match wd_module d with Some x => x | None => "" end%string in
         let c := match wd_class d with Some x => x | None => "" end%string in
         do _ <- resolve m c ;
         match wd_args d with
         | Some a =>
             match construct m c a with
             | CBuilt => Ok (RInst m c a)
             | CTypeError => Ok (RGeneric (generic_text m c (wd_str d)))
             | COtherError => Err EOther
             end
         | None => Ok (RGeneric (generic_text m c (wd_str d)))
         end
       else Ok (RStr (wd_str d))) ;
    do cat <-
      (if truthy (wd_cat_module d) then
         let m := match wd_cat_module d with Some x => x | None => "" end%string in
         let c := match wd_cat_class d with Some x => x | None => "" end%string in
         do _ <- resolve m c ; Ok (Some (m, c))
       else Ok None) ;
    Ok {| rw_message := msg; rw_category := cat; rw_filename := wd_filename d; rw_lineno := wd_lineno d |}.

  (* workermanage._generic_warning_message: what process_from_remote falls back to *)
  Definition generic_fallback (d : wdata) : rwarning :=
    let m := match wd_module d with Some x => x | None => "" end%string in
    let c := match wd_class d with Some x => x | None => "" end%string in
    {| rw_message := if truthy (wd_module d) then RGeneric (generic_text m c (wd_str d)) else RStr (wd_str d);
       rw_category := Some ("builtins", "Warning")%string;
       rw_filename := wd_filename d; rw_lineno := wd_lineno d |}.

  (* process_from_remote's handling of a warning_recorded event: total, the worker is never written off *)
  Definition handle_warning (d : wdata) : rwarning :=
    match unserialize d with Ok r => r | Err _ => generic_fallback d end.
End Controller.

(* ---- wire codec: [msg; category; filename; lineno; resolvable list; constructor behaviour list] ---- *)
Definition opt_str (s : sx) : option (option string) := un_opt un_str s.

Definition sx_of_rmessage (m : rmessage) : sx :=
  match m with
  | RStr t => SL [SS "str"; SS t]
  | RInst m c a => SL [SS "inst"; SS m; SS c; SL (map SS a)]
  | RGeneric t => SL [SS "generic"; SS t]
  end%string.

Definition run_warn (s : sx) : sx :=
  match s with
  | SL [msg; cat; SS fname; SZ lineno; SL resolvable; SL ctors] =>
      let wm :=
        match msg with
        | SL [SS "str"; SS t] => Some (WStr t)
        | SL [SS "inst"; SS m; SS c; d; a; SS t] =>
            match un_bool d, un_strs a with
            | Some d', Some a' => Some (WInst m c d' a' t)
            | _, _ => None
            end
        | _ => None
        end%string in
      let wc := match cat with
                | SL [] => Some None
                | SL [SS m; SS c] => Some (Some (m, c))
                | _ => None
                end in
      let res := opt_map (fun e => match e with SL [SS m; SS c; SZ k] => Some (m, c, k) | _ => None end) resolvable in
      let cts := opt_map (fun e => match e with SL [SS m; SS c; SZ k] => Some (m, c, k) | _ => None end) ctors in
      match wm, wc, res, cts with
      | Some wm', Some wc', Some res', Some cts' =>
          let lookup := fun (l : list (string * string * Z)) m c =>
            match find (fun e => String.eqb (fst (fst e)) m && String.eqb (snd (fst e)) c) l with
            | Some e => Some (snd e) | None => None end in
          let resolve := fun m c => match lookup res' m c with
                                    | Some 0%Z => Ok tt
                                    | Some 1%Z => Err EAttr
                                    | _ => Err EImport
                                    end in
          let construct := fun m c (_ : list string) => match lookup cts' m c with
                                                        | Some 1%Z => CTypeError
                                                        | Some 2%Z => COtherError
                                                        | _ => CBuilt
                                                        end in
          let d := serialize {| ww_message := wm'; ww_category := wc'; ww_filename := fname; ww_lineno := lineno |} in
          let show := fun r => SL [SS "ok"; sx_of_rmessage (rw_message r);
                        match rw_category r with Some (m, c) => SL [SS m; SS c] | None => SL [] end;
                        SS (rw_filename r); SZ (rw_lineno r)] in
          SL [match unserialize resolve construct d with
              | Ok r => show r
              | Err e => SL [SS "err"; SS (err_name e)]
              end;
              show (handle_warning resolve construct d)]
      | _, _, _, _ => bad_input
      end
  | _ => bad_input
  end.
