(* SchedEach.v — model of scheduler/each.py (EachScheduling). *)
From XV Require Import Base Worker Ctl SchedLoad.
Open Scope nat_scope.

Record estate := {
  e_nt : ntable;
  e_numnodes : nat;
  e_n2c : amap (list string);        (* node2collection *)
  e_n2p : amap (list nat);           (* node2pending *)
  e_started : list nat;              (* _started *)
  e_removed : amap (list nat);       (* _removed2pending *)
  e_completed : bool;                (* collection_is_completed *)
}.

Definition e_set_nt s v := {| e_nt := v; e_numnodes := e_numnodes s; e_n2c := e_n2c s; e_n2p := e_n2p s;
                              e_started := e_started s; e_removed := e_removed s; e_completed := e_completed s |}.
Definition e_set_n2c s v := {| e_nt := e_nt s; e_numnodes := e_numnodes s; e_n2c := v; e_n2p := e_n2p s;
                               e_started := e_started s; e_removed := e_removed s; e_completed := e_completed s |}.
Definition e_set_n2p s v := {| e_nt := e_nt s; e_numnodes := e_numnodes s; e_n2c := e_n2c s; e_n2p := v;
                               e_started := e_started s; e_removed := e_removed s; e_completed := e_completed s |}.
Definition e_set_started s v := {| e_nt := e_nt s; e_numnodes := e_numnodes s; e_n2c := e_n2c s; e_n2p := e_n2p s;
                                   e_started := v; e_removed := e_removed s; e_completed := e_completed s |}.
Definition e_set_removed s v := {| e_nt := e_nt s; e_numnodes := e_numnodes s; e_n2c := e_n2c s; e_n2p := e_n2p s;
                                   e_started := e_started s; e_removed := v; e_completed := e_completed s |}.
Definition e_set_completed s v := {| e_nt := e_nt s; e_numnodes := e_numnodes s; e_n2c := e_n2c s; e_n2p := e_n2p s;
                                     e_started := e_started s; e_removed := e_removed s; e_completed := v |}.

Definition e_init (nt : ntable) (numnodes : nat) : estate :=
  {| e_nt := nt; e_numnodes := numnodes; e_n2c := []; e_n2p := []; e_started := []; e_removed := [];
     e_completed := false |}.

Definition E := M estate.

Definition e_nodes (s : estate) : list nat := akeys (e_n2p s).
Definition e_tests_finished (s : estate) : bool :=
  e_completed s &&
  match e_removed s with [] => true | _ => false end &&
  forallb (fun p => length (snd p) <? 2) (e_n2p s).
Definition e_has_pending (s : estate) : bool :=
  existsb (fun p => match snd p with [] => false | _ => true end) (e_n2p s).

Definition e_add_node (n : nat) : E unit :=
  s <- get ;;
  massert (negb (ahas n (e_n2p s))) ;;;
  put (e_set_n2p s (aset n [] (e_n2p s))).

Definition spec_of (s : estate) (n : nat) : option nat :=
  match aget n (e_nt s) with Some c => Some (n_spec c) | None => None end.

(* the loop over _removed2pending looking for a dead node with an equal spec *)
Fixpoint e_inherit (n : nat) (coll : list string) (dead : list (nat * list nat)) : E unit :=
  match dead with
  | [] => ret tt
  | (d, pend) :: r =>
      s <- get ;;
      sd <- of_opt (spec_of s d) EKey ;;
      sn <- of_opt (spec_of s n) EKey ;;
      if Nat.eqb sd sn then
        dcoll <- of_opt (aget d (e_n2c s)) EKey ;;
        if coll_eqb coll dcoll then
          put (e_set_n2c (e_set_n2p (e_set_removed s (adel d (e_removed s))) (aset n pend (e_n2p s)))
                         (aset n dcoll (e_n2c s)))
        else emit (OLogDiff d n)
      else e_inherit n coll r
  end.

Definition e_add_node_collection (n : nat) (coll : list string) : E unit :=
  s <- get ;;
  massert (ahas n (e_n2p s)) ;;;
  if negb (e_completed s) then
    put (e_set_n2p (e_set_n2c s (aset n coll (e_n2c s))) (aset n [] (e_n2p s))) ;;;
    s1 <- get ;;
    if e_numnodes s1 <=? length (e_n2c s1) then put (e_set_completed s1 true) else ret tt
  else
    e_inherit n coll (e_removed s) ;;;
    s1 <- get ;;
    pend <- of_opt (aget n (e_n2p s1)) EKey ;;
    match pend with
    | [] =>                                  (* nothing to take over: the node is not needed *)
        node_shutdown e_nt e_set_nt n ;;;
        s2 <- get ;;
        put (e_set_started s2 (e_started s2 ++ [n]))
    | _ => ret tt
    end.

Definition e_mark_test_complete (n : nat) (idx : nat) : E unit :=
  s <- get ;;
  cur <- of_opt (aget n (e_n2p s)) EKey ;;
  cur' <- of_opt (remove_first idx cur) EValue ;;
  put (e_set_n2p s (aset n cur' (e_n2p s))).

Definition e_remove_node (n : nat) : E (option string) :=
  s <- get ;;
  pend <- of_opt (aget n (e_n2p s)) EKey ;;
  put (e_set_n2p s (adel n (e_n2p s))) ;;;
  (s0 <- get ;; if e_completed s0 then ret tt else put (e_set_n2c s0 (adel n (e_n2c s0)))) ;;;
  match pend with
  | [] => ret None
  | i :: rest =>
      s1 <- get ;;
      coll <- of_opt (aget n (e_n2c s1)) EKey ;;
      crash <- of_opt (nth_error coll i) EIndex ;;
      (match rest with
       | [] => ret tt
       | _ => put (e_set_removed s1 (aset n rest (e_removed s1)))
       end) ;;;
      ret (Some crash)
  end.

Definition e_schedule_node (n : nat) : E unit :=
  s <- get ;;
  if mem_nat n (e_started s) then ret tt else
  pend <- of_opt (aget n (e_n2p s)) EKey ;;
  match pend, aget n (e_n2c s) with
  | [], None => ret tt                 (* a replacement that has not reported its collection yet *)
  | [], Some coll =>
      put (e_set_n2p s (aset n (seq 0 (length coll)) (e_n2p s))) ;;;
      node_send e_nt n CRunAll ;;;
      node_shutdown e_nt e_set_nt n ;;;
      s1 <- get ;;
      put (e_set_started s1 (e_started s1 ++ [n]))
  | _, _ =>
      node_send e_nt n (CRun pend) ;;;
      s1 <- get ;;
      put (e_set_started s1 (e_started s1 ++ [n]))
  end.

Definition e_schedule : E unit :=
  s <- get ;;
  massert (e_completed s) ;;;
  mfor (akeys (e_n2p s)) e_schedule_node.
