(* Worker.v — model of remote.py: TestQueue + WorkerInteractor (handle_command,
   steal, pytest_runtestloop, run_one_test) at lock-section granularity.
   Two threads: the receiver (execnet callback) and the main thread. *)
From XV Require Import Base.
Open Scope nat_scope.

Inductive item := Idx (i : nat) | Mark.

(* controller -> worker commands; CEnd is the channel end marker *)
Inductive cmd :=
| CRun (ixs : list nat) | CRunAll | CSteal (ixs : list nat) | CShutdown | CEnd.

(* worker -> controller events *)
(* Garbled: a report the controller cannot rebuild (deserialisation raises in the receiver thread) *)
Inductive outcome := Passed | Failed | Skipped | Garbled.
Inductive wevent :=
| EReady
| ECollStart
| ECollReport (key : nat) (failed : bool)           (* only non-passed collect reports are sent *)
| ECollFinish
| ELogStart (i : nat)
| EReport (i : nat) (k : nat) (oc : outcome)        (* k-th report of test i *)
| ELogFinish (i : nat)
| EComplete (i : nat)
| EUnscheduled (ixs : list nat)
| EFinished (stopreq : bool).                       (* workeroutput: shouldfail/shouldstop set *)

(* what the (stubbed) test execution does; quantified over in theorems *)
Record oracle := {
  reports_of : nat -> list outcome;      (* reports produced by test i, in order *)
  stops_after : nat -> bool;             (* the worker's own session asks to stop after test i *)
  ncollected : nat;                      (* len(session.items), for runtests_all *)
  coll_reports : list (nat * bool);      (* failed/skipped collect reports *)
}.

(* queue entries carry a ghost tag (the ordinal of the put) used only in statements *)
Notation qent := (nat * item)%type.

Inductive phase :=
| PBoot                                   (* before workerready *)
| PColl (rest : list (nat * bool))        (* collection running: remaining collect reports *)
| PCollStart
| PWaitFirst                              (* in the loop, first get() not done; callback is set at this step *)
| PWaitNext (cur : nat * nat)             (* holds (tag, index) of the current test, needs its successor *)
| PGot (cur : nat * nat) (nxt : qent)      (* successor taken, pytest_runtest_protocol not yet entered *)
| PRun (cur : nat * nat) (nxt : qent) (script : list wevent)  (* protocol running, events still to send *)
| PFinishing (stopreq : bool)
| PExited.

Record wst := {
  wq : list qent;                 (* TestQueue._items *)
  wflag : bool;                   (* _has_items_event *)
  wph : phase;
  wcb : bool;                     (* channel callback installed *)
  winbox : list cmd;              (* received, not yet handled commands *)
  wrpend : list item;             (* receiver: remaining puts of the current runtests command *)
  wreply : option (list nat);     (* receiver: steal done, 'unscheduled' not yet sent *)
  wntag : nat;                    (* ghost: next tag *)
  wran : list ((nat * nat) * option (nat * nat));   (* ghost: (tag,index) run, announced successor *)
  wputs : list qent;              (* ghost: every put, in order *)
  wstolen : list nat;             (* ghost: tags removed by successful steals *)
  wpopped : list qent;            (* ghost: every entry the main thread took, in order *)
}.

Definition w_init : wst :=
  {| wq := []; wflag := false; wph := PBoot; wcb := false; winbox := []; wrpend := [];
     wreply := None; wntag := 0; wran := []; wputs := []; wstolen := []; wpopped := [] |}.

Definition upd_q (w : wst) (q : list qent) : wst :=
  {| wq := q; wflag := match q with [] => false | _ => true end; wph := wph w; wcb := wcb w;
     winbox := winbox w; wrpend := wrpend w; wreply := wreply w; wntag := wntag w; wran := wran w;
     wputs := wputs w; wstolen := wstolen w; wpopped := wpopped w |}.
Definition upd_ph (w : wst) (p : phase) : wst :=
  {| wq := wq w; wflag := wflag w; wph := p; wcb := wcb w; winbox := winbox w; wrpend := wrpend w;
     wreply := wreply w; wntag := wntag w; wran := wran w; wputs := wputs w; wstolen := wstolen w; wpopped := wpopped w |}.
Definition upd_recv (w : wst) (inbox : list cmd) (rpend : list item) (reply : option (list nat)) : wst :=
  {| wq := wq w; wflag := wflag w; wph := wph w; wcb := wcb w; winbox := inbox; wrpend := rpend;
     wreply := reply; wntag := wntag w; wran := wran w; wputs := wputs w; wstolen := wstolen w; wpopped := wpopped w |}.

(* TestQueue.put under the lock *)
Definition w_put (w : wst) (it : item) : wst :=
  let e := (wntag w, it) in
  {| wq := wq w ++ [e]; wflag := true; wph := wph w; wcb := wcb w; winbox := winbox w;
     wrpend := wrpend w; wreply := wreply w; wntag := S (wntag w); wran := wran w;
     wputs := wputs w ++ [e]; wstolen := wstolen w; wpopped := wpopped w |}.

Definition ent_idx (e : qent) : option nat := match snd e with Idx i => Some i | Mark => None end.
Definition ent_in (s : list nat) (e : qent) : bool :=
  match snd e with Idx i => mem_nat i s | Mark => false end.

(* WorkerInteractor.steal: one lock section *)
Definition steal_q (q : list qent) (s : list nat) : list qent * list qent :=
  let stolen := filter (ent_in s) q in
  if Nat.eqb (length stolen) (length (dedup_nat [] s))
  then (filter (fun e => negb (ent_in s e)) q, stolen)
  else (q, []).

Fixpoint ents_idx (l : list qent) : list nat :=
  match l with
  | [] => []
  | e :: r => match ent_idx e with Some i => i :: ents_idx r | None => ents_idx r end
  end.

Definition w_steal (w : wst) (s : list nat) : wst :=
  let '(q', st) := steal_q (wq w) s in
  {| wq := q'; wflag := match q' with [] => false | _ => true end; wph := wph w; wcb := wcb w;
     winbox := winbox w; wrpend := wrpend w; wreply := Some (ents_idx st); wntag := wntag w;
     wran := wran w; wputs := wputs w; wstolen := wstolen w ++ map fst st; wpopped := wpopped w |}.

(* receiver thread: take commands from the inbox until one lock section was executed *)
Fixpoint recv_next (o : oracle) (w : wst) (inbox : list cmd) : wst :=
  match inbox with
  | [] => upd_recv w [] [] (wreply w)
  | CRun [] :: r => recv_next o w r
  | CRun (i :: ixs) :: r => upd_recv (w_put w (Idx i)) r (map Idx ixs) (wreply w)
  | CRunAll :: r =>
      match seq 0 (ncollected o) with
      | [] => recv_next o w r
      | i :: ixs => upd_recv (w_put w (Idx i)) r (map Idx ixs) (wreply w)
      end
  | CShutdown :: r | CEnd :: r => upd_recv (w_put w Mark) r [] (wreply w)
  | CSteal s :: r =>
      let w' := w_steal w s in upd_recv w' r [] (wreply w')
  end.

(* one receiver step: flush a pending reply, then one lock section (or block).
   Returns the new state and the events sent. Disabled (no change) until the
   callback is installed. *)
Definition recv_step (o : oracle) (w : wst) : wst * list wevent :=
  if negb (wcb w) then (w, []) else
  let evs := match wreply w with Some ixs => [EUnscheduled ixs] | None => [] end in
  let w0 := upd_recv w (winbox w) (wrpend w) None in
  match wrpend w0 with
  | it :: rest => (upd_recv (w_put w0 it) (winbox w0) rest None, evs)
  | [] => (recv_next o w0 (winbox w0), evs)
  end.

Definition deliver (w : wst) (c : cmd) : wst :=
  upd_recv w (winbox w ++ [c]) (wrpend w) (wreply w).

Definition script_of (o : oracle) (i : nat) : list wevent :=
  [ELogStart i] ++ map (fun p => EReport i (fst p) (snd p)) (combine (seq 0 (length (reports_of o i))) (reports_of o i))
  ++ [ELogFinish i].

Definition set_cb (w : wst) : wst :=
  {| wq := wq w; wflag := wflag w; wph := wph w; wcb := true; winbox := winbox w; wrpend := wrpend w;
     wreply := wreply w; wntag := wntag w; wran := wran w; wputs := wputs w; wstolen := wstolen w; wpopped := wpopped w |}.

Definition add_ran (w : wst) (cur : nat * nat) (nxt : qent) : wst :=
  let ann := match snd nxt with Idx j => Some (fst nxt, j) | Mark => None end in
  {| wq := wq w; wflag := wflag w; wph := wph w; wcb := wcb w; winbox := winbox w; wrpend := wrpend w;
     wreply := wreply w; wntag := wntag w; wran := wran w ++ [(cur, ann)]; wputs := wputs w;
     wstolen := wstolen w; wpopped := wpopped w |}.

Definition w_pop (w : wst) (e : qent) (q' : list qent) : wst :=
  {| wq := q'; wflag := match q' with [] => false | _ => true end; wph := wph w; wcb := wcb w;
     winbox := winbox w; wrpend := wrpend w; wreply := wreply w; wntag := wntag w; wran := wran w;
     wputs := wputs w; wstolen := wstolen w; wpopped := wpopped w ++ [e] |}.

(* one main-thread step (to its next yield point); None = blocked or exited *)
Definition main_step (o : oracle) (w : wst) : option (wst * list wevent) :=
  match wph w with
  | PBoot => Some (upd_ph w PCollStart, [EReady])
  | PCollStart => Some (upd_ph w (PColl (coll_reports o)), [ECollStart])
  | PColl ((k, f) :: rest) => Some (upd_ph w (PColl rest), [ECollReport k f])
  | PColl [] => Some (upd_ph w PWaitFirst, [ECollFinish])
  | PWaitFirst =>
      (* setcallback, then get(); the callback stays installed even when get() blocks *)
      match wq w with
      | [] => if wcb w then None else Some (set_cb w, [])
      | (t, Mark) :: q' => Some (upd_ph (w_pop (set_cb w) (t, Mark) q') (PFinishing false), [])
      | (t, Idx i) :: q' => Some (upd_ph (w_pop (set_cb w) (t, Idx i) q') (PWaitNext (t, i)), [])
      end
  | PWaitNext cur =>
      match wq w with
      | [] => None
      | nxt :: q' =>
          Some (upd_ph (w_pop w nxt q') (PGot cur nxt), [])
      end
  | PGot cur nxt =>
      (* the protocol is entered: (item, nextitem) is fixed now; first event goes out *)
      Some (upd_ph (add_ran w cur nxt) (PRun cur nxt (tl (script_of o (snd cur)))), [ELogStart (snd cur)])
  | PRun cur nxt (e :: script) => Some (upd_ph w (PRun cur nxt script), [e])
  | PRun cur nxt [] =>
      let ph' :=
        if stops_after o (snd cur) then PFinishing true
        else match snd nxt with
             | Mark => PFinishing false
             | Idx j => PWaitNext (fst nxt, j)
             end in
      Some (upd_ph w ph', [EComplete (snd cur)])
  | PFinishing s => Some (upd_ph w PExited, [EFinished s])
  | PExited => None
  end.

(* ---- operations used by the worker-level theorems and the correspondence driver ---- *)
Inductive wop := ODeliver (c : cmd) | ORecv | OMain.

Definition wstep (o : oracle) (st : wst * list wevent) (op : wop) : wst * list wevent :=
  let '(w, evs) := st in
  match op with
  | ODeliver c => (deliver w c, evs)
  | ORecv => let '(w', e) := recv_step o w in (w', evs ++ e)
  | OMain => match main_step o w with
             | Some (w', e) => (w', evs ++ e)
             | None => (w, evs)
             end
  end.

Definition wrun (o : oracle) (ops : list wop) : wst * list wevent :=
  fold_left (wstep o) ops (w_init, []).

(* ---- wire codec ---- *)
Definition cmd_of_sx (s : sx) : option cmd :=
  match s with
  | SL [SS "run"; l] => match un_nats l with Some ixs => Some (CRun ixs) | None => None end
  | SL [SS "runall"] => Some CRunAll
  | SL [SS "steal"; l] => match un_nats l with Some ixs => Some (CSteal ixs) | None => None end
  | SL [SS "shutdown"] => Some CShutdown
  | SL [SS "end"] => Some CEnd
  | _ => None
  end%string.

Definition sx_of_cmd (c : cmd) : sx :=
  match c with
  | CRun ixs => SL [SS "run"; sx_nats ixs]
  | CRunAll => SL [SS "runall"]
  | CSteal ixs => SL [SS "steal"; sx_nats ixs]
  | CShutdown => SL [SS "shutdown"]
  | CEnd => SL [SS "end"]
  end%string.

Definition wop_of_sx (s : sx) : option wop :=
  match s with
  | SS "r" => Some ORecv
  | SS "m" => Some OMain
  | SL [SS "d"; c] => match cmd_of_sx c with Some c' => Some (ODeliver c') | None => None end
  | _ => None
  end%string.

Definition z_of_outcome (oc : outcome) : Z := match oc with Passed => 0 | Failed => 1 | Skipped => 2 | Garbled => 3 end%Z.
Definition outcome_of_z (z : Z) : outcome := match z with 1 => Failed | 2 => Skipped | 3 => Garbled | _ => Passed end%Z.

Definition sx_of_wevent (e : wevent) : sx :=
  match e with
  | EReady => SL [SS "workerready"]
  | ECollStart => SL [SS "collectionstart"]
  | ECollReport k f => SL [SS "collectreport"; sx_nat k; sx_bool f]
  | ECollFinish => SL [SS "collectionfinish"]
  | ELogStart i => SL [SS "logstart"; sx_nat i]
  | EReport i k oc => SL [SS "testreport"; sx_nat i; sx_nat k; SZ (z_of_outcome oc)]
  | ELogFinish i => SL [SS "logfinish"; sx_nat i]
  | EComplete i => SL [SS "runtest_protocol_complete"; sx_nat i]
  | EUnscheduled ixs => SL [SS "unscheduled"; sx_nats ixs]
  | EFinished s => SL [SS "workerfinished"; sx_bool s]
  end%string.

(* oracle from the wire: [ncollected; [[outcomes of test i]...]; [stopping tests]; [[key;failed]...]] *)
Definition oracle_of_sx (s : sx) : option oracle :=
  match s with
  | SL [SZ n; SL reps; stops; SL crs] =>
      match opt_map (fun r => match r with SL l => opt_map un_z l | _ => None end) reps,
            un_nats stops,
            opt_map (fun r => match r with SL [k; f] =>
                                 match un_nat k, un_bool f with Some k', Some f' => Some (k', f') | _, _ => None end
                               | _ => None end) crs with
      | Some reps', Some stops', Some crs' =>
          Some {| reports_of := fun i => map outcome_of_z (nth i reps' [0%Z]);
                  stops_after := fun i => mem_nat i stops';
                  ncollected := Z.to_nat n;
                  coll_reports := crs' |}
      | _, _, _ => None
      end
  | _ => None
  end.

Definition sx_of_item (it : item) : sx := match it with Idx i => sx_nat i | Mark => SS "S" end.

(* observation after a run: queue contents, (index, announced successor) list, events, exited? *)
Definition observe_w (st : wst * list wevent) : sx :=
  let '(w, evs) := st in
  SL [SL (map (fun e => sx_of_item (snd e)) (wq w));
      sx_bool (wflag w);
      SL (map (fun r => SL [sx_nat (snd (fst r)); sx_opt (fun p => sx_nat (snd p)) (snd r)]) (wran w));
      SL (map sx_of_wevent evs);
      sx_bool (match wph w with PExited => true | _ => false end)].

Definition run_worker (s : sx) : sx :=
  match s with
  | SL [o; SL ops] =>
      match oracle_of_sx o, opt_map wop_of_sx ops with
      | Some o', Some ops' => observe_w (wrun o' ops')
      | _, _ => bad_input
      end
  | _ => bad_input
  end.

(* per-step observation list (used to localise a divergence) *)
Fixpoint wrun_trace (o : oracle) (st : wst * list wevent) (ops : list wop) : list sx :=
  match ops with
  | [] => []
  | op :: r => let st' := wstep o st op in observe_w st' :: wrun_trace o st' r
  end.

Definition run_worker_trace (s : sx) : sx :=
  match s with
  | SL [o; SL ops] =>
      match oracle_of_sx o, opt_map wop_of_sx ops with
      | Some o', Some ops' => SL (wrun_trace o' (w_init, []) ops')
      | _, _ => bad_input
      end
  | _ => bad_input
  end.
