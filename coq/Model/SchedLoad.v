(* SchedLoad.v — model of scheduler/load.py (LoadScheduling), method by method. *)
From XV Require Import Base Worker Ctl.
Open Scope nat_scope.

Record lstate := {
  l_nt : ntable;                      (* the WorkerController objects the scheduler talks to *)
  l_numnodes : nat;
  l_n2c : amap (list string);         (* node2collection *)
  l_n2p : amap (list nat);            (* node2pending *)
  l_pending : list nat;               (* pending *)
  l_coll : option (list string);      (* collection *)
  l_chunk : option Z;                 (* maxschedchunk *)
}.

Definition l_set_nt s v := {| l_nt := v; l_numnodes := l_numnodes s; l_n2c := l_n2c s; l_n2p := l_n2p s;
                              l_pending := l_pending s; l_coll := l_coll s; l_chunk := l_chunk s |}.
Definition l_set_n2c s v := {| l_nt := l_nt s; l_numnodes := l_numnodes s; l_n2c := v; l_n2p := l_n2p s;
                               l_pending := l_pending s; l_coll := l_coll s; l_chunk := l_chunk s |}.
Definition l_set_n2p s v := {| l_nt := l_nt s; l_numnodes := l_numnodes s; l_n2c := l_n2c s; l_n2p := v;
                               l_pending := l_pending s; l_coll := l_coll s; l_chunk := l_chunk s |}.
Definition l_set_pending s v := {| l_nt := l_nt s; l_numnodes := l_numnodes s; l_n2c := l_n2c s; l_n2p := l_n2p s;
                                   l_pending := v; l_coll := l_coll s; l_chunk := l_chunk s |}.
Definition l_set_coll s v := {| l_nt := l_nt s; l_numnodes := l_numnodes s; l_n2c := l_n2c s; l_n2p := l_n2p s;
                                l_pending := l_pending s; l_coll := v; l_chunk := l_chunk s |}.
Definition l_set_chunk s v := {| l_nt := l_nt s; l_numnodes := l_numnodes s; l_n2c := l_n2c s; l_n2p := l_n2p s;
                                 l_pending := l_pending s; l_coll := l_coll s; l_chunk := v |}.

Definition l_init (nt : ntable) (numnodes : nat) (chunk : option Z) : lstate :=
  {| l_nt := nt; l_numnodes := numnodes; l_n2c := []; l_n2p := []; l_pending := []; l_coll := None;
     l_chunk := chunk |}.

Definition L := M lstate.

Definition l_nodes (s : lstate) : list nat := akeys (l_n2p s).
Definition l_collection_is_completed (s : lstate) : bool := l_numnodes s <=? length (l_n2c s).
Definition l_tests_finished (s : lstate) : bool :=
  l_collection_is_completed s &&
  match l_pending s with [] => true | _ => false end &&
  forallb (fun p => length (snd p) <? 2) (l_n2p s).
Definition l_has_pending (s : lstate) : bool :=
  match l_pending s with
  | _ :: _ => true
  | [] => existsb (fun p => match snd p with [] => false | _ => true end) (l_n2p s)
  end.

Definition l_send_tests (n : nat) (num : Z) : L unit :=
  s <- get ;;
  let tests := py_take num (l_pending s) in
  match tests with
  | [] => ret tt
  | _ =>
      put (l_set_pending s (py_drop num (l_pending s))) ;;;
      s1 <- get ;;
      cur <- of_opt (aget n (l_n2p s1)) EKey ;;
      put (l_set_n2p s1 (aset n (cur ++ tests) (l_n2p s1))) ;;;
      node_send l_nt n (CRun tests)
  end.

Definition zlen {A} (l : list A) : Z := Z.of_nat (length l).

Definition l_check_schedule (n : nat) (dur_ms : Z) : L unit :=
  sd <- node_shutting_down l_nt n ;;
  if sd then ret tt else
  s <- get ;;
  match l_pending s with
  | [] => node_shutdown l_nt l_set_nt n
  | _ =>
      if negb (ahas n (l_n2c s)) then ret tt else     (* has not reported its collection yet *)
      let num_nodes := zlen (l_n2p s) in
      if (num_nodes =? 0)%Z then raise EZeroDiv else
      let per := (zlen (l_pending s) / num_nodes)%Z in
      let items_min := Z.max 2 (per / 4) in
      let items_max := Z.max 2 (per / 2) in
      node_pending <- of_opt (aget n (l_n2p s)) EKey ;;
      let np := zlen node_pending in
      if (np <? items_min)%Z then
        if (100 <=? dur_ms)%Z && (2 <=? np)%Z then ret tt
        else
          match l_chunk s with
          | None => raise EType
          | Some chunk =>
              let num_send := (items_max - np)%Z in
              let maxchunk := Z.max (2 - np) chunk in
              l_send_tests n (Z.min num_send maxchunk)
          end
      else ret tt
  end.

Definition l_add_node (n : nat) : L unit :=
  s <- get ;;
  massert (negb (ahas n (l_n2p s))) ;;;
  put (l_set_n2p s (aset n [] (l_n2p s))).

Definition first_key {V} (m : amap V) : option nat :=
  match m with [] => None | (k, _) :: _ => Some k end.

Definition l_add_node_collection (n : nat) (coll : list string) : L unit :=
  s <- get ;;
  massert (ahas n (l_n2p s)) ;;;
  if l_collection_is_completed s then
    match l_coll s with
    | Some (c0 :: cr) =>
        if coll_eqb coll (c0 :: cr) then put (l_set_n2c s (aset n coll (l_n2c s)))
        else
          other <- of_opt (first_key (l_n2c s)) EOther ;;
          emit (OLogDiff other n) ;;;
          node_shutdown l_nt l_set_nt n
    | _ => raise EAssert            (* assert self.collection *)
    end
  else put (l_set_n2c s (aset n coll (l_n2c s))).

Definition l_mark_test_complete (n : nat) (idx : nat) (dur_ms : Z) : L unit :=
  s <- get ;;
  cur <- of_opt (aget n (l_n2p s)) EKey ;;
  cur' <- of_opt (remove_first idx cur) EValue ;;
  put (l_set_n2p s (aset n cur' (l_n2p s))) ;;;
  l_check_schedule n dur_ms.

Definition l_mark_test_pending (item : string) : L unit :=
  s <- get ;;
  coll <- of_opt (l_coll s) EAssert ;;
  idx <- of_opt (index_of_str item coll) EValue ;;
  put (l_set_pending s (idx :: l_pending s)) ;;;
  s1 <- get ;;
  mfor (akeys (l_n2p s1)) (fun n => l_check_schedule n 0%Z).

Definition l_remove_node (n : nat) : L (option string) :=
  s <- get ;;
  pend <- of_opt (aget n (l_n2p s)) EKey ;;
  put (l_set_n2p s (adel n (l_n2p s))) ;;;
  (s0 <- get ;; if l_collection_is_completed s0 then ret tt
                else put (l_set_n2c s0 (adel n (l_n2c s0)))) ;;;   (* forget its collection *)
  match pend with
  | [] => ret None
  | i :: rest =>
      s1 <- get ;;
      coll <- of_opt (l_coll s1) EAssert ;;
      crash <- of_opt (nth_error coll i) EIndex ;;
      put (l_set_pending s1 (l_pending s1 ++ rest)) ;;;
      s2 <- get ;;
      mfor (akeys (l_n2p s2)) (fun m => l_check_schedule m 0%Z) ;;;
      ret (Some crash)
  end.

(* _check_nodes_have_same_collection *)
Definition l_same_collection : L bool :=
  s <- get ;;
  match l_n2c s with
  | [] => raise EIndex
  | (first, col) :: others =>
      mfor others (fun p => if coll_eqb col (snd p) then ret tt else emit (OCollDiff first (fst p))) ;;;
      ret (forallb (fun p => coll_eqb col (snd p)) others)
  end.

(* itertools.cycle(nodes), one test each *)
Fixpoint l_round_robin (fuel : nat) (all cur : list nat) : L unit :=
  match fuel with
  | O => ret tt
  | S f =>
      match cur with
      | n :: r => l_send_tests n 1%Z ;;; l_round_robin f all r
      | [] => match all with
              | [] => raise EOther        (* StopIteration from cycle([]) *)
              | n :: r => l_send_tests n 1%Z ;;; l_round_robin f all r
              end
      end
  end.

Definition l_schedule : L unit :=
  s <- get ;;
  massert (l_collection_is_completed s) ;;;
  match l_coll s with
  | Some _ => mfor (l_nodes s) (fun n => l_check_schedule n 0%Z)
  | None =>
      same <- l_same_collection ;;
      if negb same then ret tt else
      s1 <- get ;;
      coll <- of_opt (match l_n2c s1 with [] => None | (_, c) :: _ => Some c end) EOther ;;
      put (l_set_pending (l_set_coll s1 (Some coll)) (seq 0 (length coll))) ;;;
      match coll with
      | [] => ret tt
      | _ =>
          s2 <- get ;;
          let chunk := match l_chunk s2 with Some c => c | None => zlen coll end in
          put (l_set_chunk s2 (Some chunk)) ;;;
          s3 <- get ;;
          let nodes := l_nodes s3 in
          (if (zlen (l_pending s3) <? 2 * zlen nodes)%Z then
             l_round_robin (length (l_pending s3)) nodes nodes
           else
             if (zlen (l_n2p s3) =? 0)%Z then raise EZeroDiv else
             let items_per_node := (zlen coll / zlen (l_n2p s3))%Z in
             let node_chunksize := Z.max (Z.min (items_per_node / 4) chunk) 2 in
             mfor nodes (fun n => l_send_tests n node_chunksize)) ;;;
          s4 <- get ;;
          match l_pending s4 with
          | [] => mfor (l_nodes s4) (fun n => node_shutdown l_nt l_set_nt n)
          | _ => ret tt
          end
      end
  end.
