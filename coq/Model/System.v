(* System.v — the whole distributed session as one executable transition function:
   controller (DSession + scheduler + WorkerController flags), the controller's event
   queue, per-worker wires in both directions and the workers themselves.
   A schedule is a list of labels saying which component moves next. *)
From XV Require Import Base Worker Ctl SchedLoad SchedSteal SchedScope SchedEach Sched DSession.
Open Scope nat_scope.

Record config := {
  c_mode : mode;
  c_numnodes : nat;                    (* initial workers (= len(tx specs)) *)
  c_chunk : option Z;                  (* --maxschedchunk *)
  c_maxfail : Z;
  c_max_restart : option Z;            (* effective budget (after get_default_max_worker_restart) *)
  c_requeue : nat;                     (* crash items a plugin re-queues *)
  c_coll : nat -> list string;         (* what worker n collects *)
  c_oracle : nat -> oracle;            (* test behaviour on worker n *)
  c_dur : nat -> Z;                    (* duration (ms) reported for test index i *)
  c_crash_in : nat -> nat -> bool;     (* worker n dies when it enters test index i *)
  c_strict : bool;                     (* Channel.send to a dead worker raises at once *)
  c_spec : nat -> nat;                 (* spec class of initial worker n *)
}.

Inductive result_kind := RFinished | RInterrupted | RError (e : err).

Record sys := {
  y_d : dstate;
  y_evq : list cevent;
  y_down : amap (list cmd);
  y_up : amap (list upmsg);
  y_w : amap wst;
  y_dead : list nat;
  y_result : option result_kind;
}.

Definition init_nt (c : config) : ntable :=
  map (fun n => (n, {| n_spec := c_spec c n; n_down := false; n_sdsent := false; n_closed := false |}))
      (seq 0 (c_numnodes c)).

Definition sys_init (c : config) : sys :=
  {| y_d := {| d_sched := s_set_nt (s_init (c_mode c) (c_numnodes c) (c_chunk c)) (init_nt c);
               d_shuttingdown := false; d_shouldstop := false; d_countfailures := 0%Z;
               d_maxfail := c_maxfail c; d_active := seq 0 (c_numnodes c); d_failed_nodes := 0%Z;
               d_max_restart := c_max_restart c; d_collect_seen := []; d_next_gw := c_numnodes c;
               d_requeue := c_requeue c |};
     y_evq := [];
     y_down := map (fun n => (n, [])) (seq 0 (c_numnodes c));
     y_up := map (fun n => (n, [])) (seq 0 (c_numnodes c));
     y_w := map (fun n => (n, w_init)) (seq 0 (c_numnodes c));
     y_dead := [];
     y_result := None |}.

Inductive label :=
| LDeliver (n : nat)     (* transport: next command reaches worker n's process *)
| LRecvW (n : nat)       (* worker n's receiver thread: one lock section *)
| LMain (n : nat)        (* worker n's main thread: one step *)
| LRecv (n : nat)        (* controller's receiver thread: next message of worker n *)
| LCtl                   (* controller main loop: one event *)
| LCrash (n : nat).      (* worker n's process dies *)

Definition alist_get {V} (d : V) (n : nat) (m : amap V) : V :=
  match aget n m with Some v => v | None => d end.

Definition up_of_wevent (c : config) (n : nat) (e : wevent) : upmsg :=
  match e with
  | ECollFinish => UCollFinish (c_coll c n)
  | EComplete i => UComplete i (c_dur c i)
  | EReport _ _ Garbled => UBad            (* the controller cannot decode this message *)
  | _ => UEv e
  end.

(* apply the outputs of a controller step: sends go onto the wires (lost when the
   worker is gone), spawns create workers *)
Fixpoint apply_outs (s : sys) (outs : list out) : sys :=
  match outs with
  | [] => s
  | OSend n cmd :: r =>
      let s' := if mem_nat n (y_dead s) then s else
        {| y_d := y_d s; y_evq := y_evq s;
           y_down := aset n (alist_get [] n (y_down s) ++ [cmd]) (y_down s);
           y_up := y_up s; y_w := y_w s; y_dead := y_dead s; y_result := y_result s |} in
      apply_outs s' r
  | OHook (HSpawn id _) :: r =>
      apply_outs {| y_d := y_d s; y_evq := y_evq s; y_down := aset id [] (y_down s);
                    y_up := aset id [] (y_up s); y_w := aset id w_init (y_w s);
                    y_dead := y_dead s; y_result := y_result s |} r
  | _ :: r => apply_outs s r
  end.

Definition set_d (s : sys) (d : dstate) : sys :=
  {| y_d := d; y_evq := y_evq s; y_down := y_down s; y_up := y_up s; y_w := y_w s;
     y_dead := y_dead s; y_result := y_result s |}.
Definition set_result (s : sys) (r : option result_kind) : sys :=
  {| y_d := y_d s; y_evq := y_evq s; y_down := y_down s; y_up := y_up s; y_w := y_w s;
     y_dead := y_dead s; y_result := r |}.
Definition set_evq (s : sys) (q : list cevent) : sys :=
  {| y_d := y_d s; y_evq := q; y_down := y_down s; y_up := y_up s; y_w := y_w s;
     y_dead := y_dead s; y_result := y_result s |}.
Definition set_w (s : sys) (n : nat) (w : wst) : sys :=
  {| y_d := y_d s; y_evq := y_evq s; y_down := y_down s; y_up := y_up s; y_w := aset n w (y_w s);
     y_dead := y_dead s; y_result := y_result s |}.
Definition push_up (s : sys) (n : nat) (ms : list upmsg) : sys :=
  {| y_d := y_d s; y_evq := y_evq s; y_down := y_down s;
     y_up := aset n (alist_get [] n (y_up s) ++ ms) (y_up s); y_w := y_w s;
     y_dead := y_dead s; y_result := y_result s |}.

Definition crash_worker (c : config) (s : sys) (n : nat) : sys :=
  let d := y_d s in
  let d' := if c_strict c then
              match aget n (d_nt d) with
              | Some f => d_set_nt d (aset n {| n_spec := n_spec f; n_down := n_down f; n_sdsent := n_sdsent f;
                                                n_closed := true |} (d_nt d))
              | None => d
              end
            else d in
  {| y_d := d'; y_evq := y_evq s; y_down := aset n [] (y_down s);
     y_up := aset n (alist_get [] n (y_up s) ++ [UEnd]) (y_up s); y_w := y_w s;
     y_dead := n :: y_dead s; y_result := y_result s |}.

(* once the controller has seen the end marker of a dead worker the channel is closed *)
Definition close_if_dead (s : sys) (n : nat) : sys :=
  if mem_nat n (y_dead s) then
    let d := y_d s in
    match aget n (d_nt d) with
    | Some f => if n_down f then
                  set_d s (d_set_nt d (aset n {| n_spec := n_spec f; n_down := true; n_sdsent := n_sdsent f;
                                                 n_closed := true |} (d_nt d)))
                else s
    | None => s
    end
  else s.

(* does worker n's main thread die at its next step? (it enters a crashing test) *)
Definition dies_now (c : config) (n : nat) (w : wst) : bool :=
  match wph w with
  | PGot cur _ => c_crash_in c n (snd cur)
  | _ => false
  end.

(* the step function; the second component lists what became visible in this step
   (controller outputs, or worker events), None when the label is not enabled *)
Definition sys_step (c : config) (s : sys) (l : label) : option (sys * list out * list (nat * wevent)) :=
  match y_result s with
  | Some _ => None
  | None =>
  match l with
  | LDeliver n =>
      if mem_nat n (y_dead s) then None else
      match aget n (y_down s), aget n (y_w s) with
      | Some (cmd :: rest), Some w =>
          Some ({| y_d := y_d s; y_evq := y_evq s; y_down := aset n rest (y_down s); y_up := y_up s;
                   y_w := aset n (deliver w cmd) (y_w s); y_dead := y_dead s; y_result := y_result s |}, [], [])
      | _, _ => None
      end
  | LRecvW n =>
      if mem_nat n (y_dead s) then None else
      match aget n (y_w s) with
      | Some w =>
          if negb (wcb w) then None else
          let '(w', evs) := recv_step (c_oracle c n) w in
          Some (push_up (set_w s n w') n (map (up_of_wevent c n) evs), [], map (fun e => (n, e)) evs)
      | None => None
      end
  | LMain n =>
      if mem_nat n (y_dead s) then None else
      match aget n (y_w s) with
      | Some w =>
          if dies_now c n w then Some (crash_worker c s n, [], [])
          else
          match main_step (c_oracle c n) w with
          | Some (w', evs) =>
              Some (push_up (set_w s n w') n (map (up_of_wevent c n) evs), [], map (fun e => (n, e)) evs)
          | None => None
          end
      | None => None
      end
  | LCrash n =>
      if mem_nat n (y_dead s) then None else
      match aget n (y_w s) with
      | Some w => match wph w with
                  | PExited => None
                  | _ => Some (crash_worker c s n, [], [])
                  end
      | None => None
      end
  | LRecv n =>
      match aget n (y_up s) with
      | Some (m :: rest) =>
          let s1 := {| y_d := y_d s; y_evq := y_evq s; y_down := y_down s; y_up := aset n rest (y_up s);
                       y_w := y_w s; y_dead := y_dead s; y_result := y_result s |} in
          let '(d', outs, r) := process_from_remote n m (y_d s1) in
          let s2 := apply_outs (set_d s1 d') outs in
          match r with
          | Ok evs => Some (close_if_dead (set_evq s2 (y_evq s2 ++ evs)) n, outs, [])
          | Err e => Some (set_result s2 (Some (RError e)), outs, [])
          end
      | _ => None
      end
  | LCtl =>
      match d_active (y_d s) with
      | [] =>
          let '(d', outs, _) := d_no_active (y_d s) in
          Some (set_result (apply_outs (set_d s d') outs) (Some (RError ERuntimeNoWorkers)), outs, [])
      | _ =>
          match y_evq s with
          | [] => None
          | ev :: q =>
              let '(d', outs, r) := d_loop_once ev (y_d s) in
              let s1 := apply_outs (set_d (set_evq s q) d') outs in
              match r with
              | Err e => Some (set_result s1 (Some (RError e)), outs, [])
              | Ok _ =>
                  if d_session_finished d' then
                    Some (set_result s1 (Some (if d_shouldstop d' then RInterrupted else RFinished)), outs, [])
                  else
                    match d_active d' with
                    | [] =>
                        (* the while loop goes straight on: loop_once finds no active node left *)
                        let '(d2, outs2, _) := d_no_active d' in
                        Some (set_result (apply_outs (set_d s1 d2) outs2) (Some (RError ERuntimeNoWorkers)),
                              outs ++ outs2, [])
                    | _ => Some (s1, outs, [])
                    end
              end
          end
      end
  end
  end.

Definition sys_run (c : config) (ls : list label) : sys :=
  fold_left (fun s l => match sys_step c s l with Some (s', _, _) => s' | None => s end) ls (sys_init c).

(* ---- wire codec ---- *)
Definition label_of_sx (s : sx) : option label :=
  match s with
  | SL [SS "deliver"; n] => option_map LDeliver (un_nat n)
  | SL [SS "recvw"; n] => option_map LRecvW (un_nat n)
  | SL [SS "main"; n] => option_map LMain (un_nat n)
  | SL [SS "recv"; n] => option_map LRecv (un_nat n)
  | SL [SS "ctl"] => Some LCtl
  | SL [SS "crash"; n] => option_map LCrash (un_nat n)
  | _ => None
  end%string.

Definition sx_of_result (r : option result_kind) : sx :=
  match r with
  | None => SL []
  | Some RFinished => SL [SS "finished"]
  | Some RInterrupted => SL [SS "interrupted"]
  | Some (RError e) => SL [SS "error"; SS (err_name e)]
  end%string.

(* config from the wire:
   [mode; numnodes; chunk?; maxfail; max_restart?; requeue; strict;
    default collection; [[n; collection]...] (overrides);
    reports [[outcomes]...]; stops; crashers [[n;i]...] ; durations [ms...] ; specs [..]; collreports [[n;[[k;f]..]]..]] *)
Definition config_of_sx (s : sx) : option config :=
  match s with
  | SL [m; SZ nn; chunk; SZ maxfail; mr; SZ rq; strict; dcoll; SL ovr; SL reps; stops; SL crashers; durs; specs; SL crs] =>
      match mode_of_sx m, un_opt un_z chunk, un_opt un_z mr, un_bool strict, un_strs dcoll,
            opt_map (fun p => match p with SL [n; c] => match un_nat n, un_strs c with
                                                        | Some n', Some c' => Some (n', c') | _, _ => None end
                              | _ => None end) ovr,
            opt_map (fun r => match r with SL l => opt_map un_z l | _ => None end) reps,
            un_nats stops,
            opt_map (fun p => match p with SL [n; i] => match un_nat n, un_nat i with
                                                        | Some n', Some i' => Some (n', i') | _, _ => None end
                              | _ => None end) crashers,
            (match durs with SL l => opt_map un_z l | _ => None end),
            un_nats specs,
            opt_map (fun p => match p with
                              | SL [n; SL l] =>
                                  match un_nat n, opt_map (fun q => match q with SL [k; f] =>
                                             match un_nat k, un_bool f with Some k', Some f' => Some (k', f') | _, _ => None end
                                           | _ => None end) l with
                                  | Some n', Some l' => Some (n', l') | _, _ => None end
                              | _ => None end) crs
      with
      | Some m', Some chunk', Some mr', Some strict', Some dcoll', Some ovr', Some reps', Some stops',
        Some crashers', Some durs', Some specs', Some crs' =>
          let coll := fun n => match aget n ovr' with Some c => c | None => dcoll' end in
          Some {| c_mode := m'; c_numnodes := Z.to_nat nn; c_chunk := chunk'; c_maxfail := maxfail;
                  c_max_restart := mr'; c_requeue := Z.to_nat rq;
                  c_coll := coll;
                  c_oracle := fun n => {| reports_of := fun i => map outcome_of_z (nth i reps' [0%Z]);
                                          stops_after := fun i => mem_nat i stops';
                                          ncollected := length (coll n);
                                          coll_reports := match aget n crs' with Some l => l | None => [] end |};
                  c_dur := fun i => nth i durs' 0%Z;
                  c_crash_in := fun n i => existsb (fun p => Nat.eqb (fst p) n && Nat.eqb (snd p) i) crashers';
                  c_strict := strict';
                  c_spec := fun n => nth n specs' 0 |}
      | _, _, _, _, _, _, _, _, _, _, _, _ => None
      end
  | _ => None
  end.

Definition sx_sysview (s : sys) : sx :=
  SL [sx_nats (s_nodes (d_sched (y_d s)));
      sx_bool (d_shuttingdown (y_d s)); sx_bool (d_shouldstop (y_d s));
      sx_nats (d_active (y_d s)); sx_nat (length (y_evq s)); sx_of_result (y_result s)].

Fixpoint sys_trace (c : config) (s : sys) (ls : list label) : list sx :=
  match ls with
  | [] => []
  | l :: r =>
      match sys_step c s l with
      | None => SL [SS "disabled"] :: sys_trace c s r
      | Some (s', outs, wevs) =>
          SL [SL (map sx_of_out outs);
              SL (map (fun p => SL [sx_nat (fst p); sx_of_wevent (snd p)]) wevs);
              sx_sysview s'] :: sys_trace c s' r
      end
  end.

Definition run_system (s : sx) : sx :=
  match s with
  | SL [cfg; SL ls] =>
      match config_of_sx cfg, opt_map label_of_sx ls with
      | Some c, Some ls' => SL (sys_trace c (sys_init c) ls')
      | _, _ => bad_input
      end
  | _ => bad_input
  end.
