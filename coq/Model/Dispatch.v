(* Dispatch.v — single entry point used by the OCaml runner and by the in-Coq
   cross-check: component name + input value -> observation value. *)
From XV Require Import Base Options Worker Ctl Sched DSession System StatRec Rsync Warn GroupMark CtlRun CollDiff.

Definition dispatch (name : string) (input : sx) : sx :=
  if String.eqb name "options" then run_options input
  else if String.eqb name "worker_options" then run_worker_options input
  else if String.eqb name "parse_tx" then run_parse_tx input
  else if String.eqb name "py_int" then run_py_int input
  else if String.eqb name "auto_default" then run_auto_default input
  else if String.eqb name "worker" then run_worker input
  else if String.eqb name "worker_trace" then run_worker_trace input
  else if String.eqb name "sched" then run_sched input
  else if String.eqb name "split" then run_split input
  else if String.eqb name "groupmark" then run_groupmark input
  else if String.eqb name "system" then run_system input
  else if String.eqb name "ctl" then run_ctl input
  else if String.eqb name "coll_eq" then
    match input with
    | SL [a; b] => match un_strs a, un_strs b with
                   | Some a', Some b' => sx_bool (Ctl.coll_eqb a' b')
                   | _, _ => bad_input
                   end
    | _ => bad_input
    end
  else if String.eqb name "colldiff_msg" then run_colldiff input
  else if String.eqb name "statrec" then run_statrec input
  else if String.eqb name "remember" then run_remember input
  else if String.eqb name "reltoroot" then run_reltoroot input
  else if String.eqb name "fnmatch" then run_fnmatch input
  else if String.eqb name "rsync_filter" then run_rsync_filter input
  else if String.eqb name "specs" then run_specs input
  else if String.eqb name "warn" then run_warn input
  else if String.eqb name "default_budget" then
    match input with
    | SL [o; np] => match un_opt un_z o, un_opt un_z np with
                    | Some o', Some np' => sx_opt SZ (default_max_restart o' np')
                    | _, _ => bad_input
                    end
    | _ => bad_input
    end
  else SL [SS "unknown-component"].

(* used by generated cases_*.v files: indices of cases whose model output
   differs from the observation recorded on the implementation *)
Fixpoint mismatches (i : nat) (cases : list (string * sx * sx)) : list nat :=
  match cases with
  | [] => []
  | (n, inp, expected) :: r =>
      if sx_eqb (dispatch n inp) expected then mismatches (S i) r
      else i :: mismatches (S i) r
  end.
