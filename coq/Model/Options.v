(* Options.v — model of the option rules that decide distribution (C13):
   plugin.pytest_cmdline_main, plugin._is_distribution_mode, plugin.pytest_configure
   (DSession installation), workermanage.parse_tx_spec_config, remote.setup_config,
   looponfail.pytest_cmdline_main, plugin.pytest_xdist_auto_num_workers (decision part). *)
From XV Require Import Base.
Open Scope Z_scope.

Inductive dist_mode := DNo | DEach | DLoad | DLoadScope | DLoadFile | DLoadGroup | DWorksteal.
Inductive numproc := NPNone | NPNum (z : Z) | NPAuto | NPLogical.

Definition dist_eqb (a b : dist_mode) : bool :=
  match a, b with
  | DNo, DNo | DEach, DEach | DLoad, DLoad | DLoadScope, DLoadScope
  | DLoadFile, DLoadFile | DLoadGroup, DLoadGroup | DWorksteal, DWorksteal => true
  | _, _ => false
  end.

Record opts := {
  numprocesses : numproc;
  maxprocesses : option Z;
  dist : dist_mode;
  distload : bool;
  tx : list string;
  usepdb : bool;
  collectonly : bool;
  looponfail : bool;
  loadgroup : bool;          (* only written by setup_config *)
}.

(* Python truthiness of config.option.numprocesses / maxprocesses *)
Definition np_truthy (n : numproc) : bool :=
  match n with
  | NPNone => false
  | NPNum z => negb (z =? 0)
  | NPAuto | NPLogical => true
  end.
Definition optz_truthy (o : option Z) : bool :=
  match o with Some z => negb (z =? 0) | None => false end.

Definition is_distribution_mode (o : opts) : bool :=
  negb (dist_eqb (dist o) DNo) && match tx o with [] => false | _ => true end.

Definition set_dist (o : opts) d :=
  {| numprocesses := numprocesses o; maxprocesses := maxprocesses o; dist := d;
     distload := distload o; tx := tx o; usepdb := usepdb o; collectonly := collectonly o;
     looponfail := looponfail o; loadgroup := loadgroup o |}.
Definition set_np (o : opts) n :=
  {| numprocesses := n; maxprocesses := maxprocesses o; dist := dist o;
     distload := distload o; tx := tx o; usepdb := usepdb o; collectonly := collectonly o;
     looponfail := looponfail o; loadgroup := loadgroup o |}.
Definition set_tx (o : opts) t :=
  {| numprocesses := numprocesses o; maxprocesses := maxprocesses o; dist := dist o;
     distload := distload o; tx := t; usepdb := usepdb o; collectonly := collectonly o;
     looponfail := looponfail o; loadgroup := loadgroup o |}.

(* ["popen"] * n for any Python int n *)
Definition popen_list (n : Z) : list string := repeat "popen"%string (Z.to_nat n).

(* plugin.pytest_cmdline_main; [auto] is the value returned by the
   pytest_xdist_auto_num_workers hook (consulted only on the auto/logical path) *)
Definition cmdline_main (auto : Z) (o : opts) : result opts :=
  let o1 := if distload o then set_dist o DLoad else o in
  let o2 :=
    match numprocesses o1 with
    | NPAuto | NPLogical =>
        if usepdb o1 then set_dist (set_np o1 (NPNum 0)) DNo
        else set_np o1 (NPNum auto)
    | _ => o1
    end in
  let o3 :=
    if np_truthy (numprocesses o2) then
      let o' := if dist_eqb (dist o2) DNo then set_dist o2 DLoad else o2 in
      let n := match numprocesses o' with NPNum z => z | _ => 0 end in
      let n' := if optz_truthy (maxprocesses o') then
                  match maxprocesses o' with Some m => Z.min n m | None => n end
                else n in
      set_tx o' (popen_list n')
    else o2 in
  let o4 :=
    match numprocesses o3 with
    | NPNum 0 => set_tx (set_dist o3 DNo) []
    | _ => o3
    end in
  if negb (collectonly o4) && is_distribution_mode o4 && usepdb o4
  then Err EUsage else Ok o4.

(* plugin.pytest_configure: is the distributed session installed? *)
Definition installs_dsession (o : opts) : bool :=
  if collectonly o then false else is_distribution_mode o.

(* looponfail.pytest_cmdline_main: Ok true = loop-on-fail takes over *)
Definition looponfail_main (o : opts) : result bool :=
  if looponfail o then (if usepdb o then Err EUsage else Ok true) else Ok false.

(* remote.setup_config (the worker side) *)
Definition setup_config (o : opts) : opts :=
  {| numprocesses := NPNone; maxprocesses := None; dist := DNo; distload := false;
     tx := tx o; usepdb := false; collectonly := collectonly o; looponfail := false;
     loadgroup := dist_eqb (dist o) DLoadGroup |}.

(* ---- parse_tx_spec_config over strings ---- *)

Definition is_ws (c : ascii) : bool :=
  let n := nat_of_ascii c in
  ((9 <=? n) && (n <=? 13) || (n =? 32))%nat.
Definition digit_of (c : ascii) : option Z :=
  let n := nat_of_ascii c in
  if ((48 <=? n) && (n <=? 57))%nat then Some (Z.of_nat (n - 48)) else None.

Fixpoint lstrip_ws (s : list ascii) : list ascii :=
  match s with
  | c :: r => if is_ws c then lstrip_ws r else s
  | [] => []
  end.
Definition strip_ws (s : list ascii) : list ascii :=
  rev (lstrip_ws (rev (lstrip_ws s))).

(* digits with single underscores between digits; [prev_digit] tells whether
   the previous character was a digit *)
Fixpoint parse_digits (acc : Z) (prev_digit : bool) (s : list ascii) : option Z :=
  match s with
  | [] => if prev_digit then Some acc else None
  | c :: r =>
      match digit_of c with
      | Some d => parse_digits (acc * 10 + d) true r
      | None =>
          if (Ascii.eqb c "_"%char) && prev_digit then
            match r with
            | c2 :: _ => match digit_of c2 with
                         | Some _ => parse_digits acc false r
                         | None => None
                         end
            | [] => None
            end
          else None
      end
  end.

(* Python int(str) for ASCII input, base 10 *)
Definition py_int (s : string) : option Z :=
  match strip_ws (list_ascii_of_string s) with
  | [] => None
  | c :: r =>
      if Ascii.eqb c "-"%char then
        match parse_digits 0 false r with Some z => Some (- z) | None => None end
      else if Ascii.eqb c "+"%char then parse_digits 0 false r
      else parse_digits 0 false (c :: r)
  end.

Fixpoint find_star (s : list ascii) (i : nat) : option nat :=
  match s with
  | [] => None
  | c :: r => if Ascii.eqb c "*"%char then Some i else find_star r (S i)
  end.

(* one --tx value: the list of specs it expands to *)
Definition expand_tx (x : string) : list string :=
  let cs := list_ascii_of_string x in
  let (pre, post) :=
    match find_star cs 0 with
    | Some i => (firstn i cs, skipn (S i) cs)
    | None => (removelast cs, cs)          (* find = -1: x[:-1] and x[0:] *)
    end in
  match py_int (string_of_list_ascii pre) with
  | None => [x]
  | Some n => repeat (string_of_list_ascii post) (Z.to_nat n)
  end.

Definition parse_tx_spec (txs : list string) : result (list string) :=
  match flat_map expand_tx txs with
  | [] => Err EUsage
  | l => Ok l
  end.

(* auto worker count: hook result (first non-None wins), else the default
   implementation: environment variable if it parses, else CPU detection
   ([cpu] is what the detection returned, None/0 meaning "unknown") *)
Definition auto_default (env : option string) (cpu : option Z) : Z :=
  let from_cpu := match cpu with Some n => if n =? 0 then 1 else n | None => 1 end in
  match env with
  | Some s =>
      if String.eqb s "" then from_cpu
      else match py_int s with Some n => n | None => from_cpu end
  | None => from_cpu
  end.

(* ---- wire codec ---- *)
Definition dist_of_z (z : Z) : dist_mode :=
  match z with
  | 1 => DEach | 2 => DLoad | 3 => DLoadScope | 4 => DLoadFile | 5 => DLoadGroup
  | 6 => DWorksteal | _ => DNo
  end.
Definition z_of_dist (d : dist_mode) : Z :=
  match d with
  | DNo => 0 | DEach => 1 | DLoad => 2 | DLoadScope => 3 | DLoadFile => 4
  | DLoadGroup => 5 | DWorksteal => 6
  end.
Definition np_of_sx (s : sx) : option numproc :=
  match s with
  | SL [] => Some NPNone
  | SL [SZ z] => Some (NPNum z)
  | SS "auto" => Some NPAuto
  | SS "logical" => Some NPLogical
  | _ => None
  end.
Definition sx_of_np (n : numproc) : sx :=
  match n with
  | NPNone => SL [] | NPNum z => SL [SZ z] | NPAuto => SS "auto" | NPLogical => SS "logical"
  end.

Definition opts_of_sx (s : sx) : option opts :=
  match s with
  | SL [np; mp; SZ d; dl; t; pdb; co; lf] =>
      match np_of_sx np, un_opt un_z mp, un_bool dl, un_strs t, un_bool pdb, un_bool co, un_bool lf with
      | Some np', Some mp', Some dl', Some t', Some pdb', Some co', Some lf' =>
          Some {| numprocesses := np'; maxprocesses := mp'; dist := dist_of_z d; distload := dl';
                  tx := t'; usepdb := pdb'; collectonly := co'; looponfail := lf'; loadgroup := false |}
      | _, _, _, _, _, _, _ => None
      end
  | _ => None
  end.

Definition sx_of_opts (o : opts) : sx :=
  SL [sx_of_np (numprocesses o); sx_opt SZ (maxprocesses o); SZ (z_of_dist (dist o));
      sx_bool (distload o); SL (map SS (tx o)); sx_bool (usepdb o); sx_bool (collectonly o);
      sx_bool (looponfail o); sx_bool (loadgroup o)].

Definition sx_err (e : err) : sx := SL [SS "err"; SS (err_name e)].

(* run_options [auto; opts] -> result of the two cmdline_main hooks then:
     [ cmdline_main result ; installs_dsession ; is_distribution_mode ; looponfail_main ] *)
Definition run_options (s : sx) : sx :=
  match s with
  | SL [SZ auto; o] =>
      match opts_of_sx o with
      | None => bad_input
      | Some o' =>
          (* pluggy order: plugin.pytest_cmdline_main is tryfirst, then looponfail's *)
          match cmdline_main auto o' with
          | Err e => sx_err e
          | Ok o2 =>
              match looponfail_main o2 with
              | Err e => sx_err e
              | Ok true => SL [SS "looponfail"; SS "loop"]
              | Ok false => SL [SS "ok"; sx_of_opts o2; sx_bool (installs_dsession o2);
                                sx_bool (is_distribution_mode o2)]
              end
          end
      end
  | _ => bad_input
  end.

(* worker side: setup_config then the same main hooks *)
Definition run_worker_options (s : sx) : sx :=
  match s with
  | SL [SZ auto; o] =>
      match opts_of_sx o with
      | None => bad_input
      | Some o' =>
          let w := setup_config o' in
          match cmdline_main auto w with
          | Err e => sx_err e
          | Ok o2 => SL [SS "ok"; sx_of_opts o2; sx_bool (installs_dsession o2);
                         sx_bool (is_distribution_mode o2)]
          end
      end
  | _ => bad_input
  end.

Definition run_parse_tx (s : sx) : sx :=
  match un_strs s with
  | None => bad_input
  | Some l => match parse_tx_spec l with
              | Ok r => SL (map SS r)
              | Err e => sx_err e
              end
  end.

Definition run_py_int (s : sx) : sx :=
  match s with
  | SS x => sx_opt SZ (py_int x)
  | _ => bad_input
  end.

Definition run_auto_default (s : sx) : sx :=
  match s with
  | SL [e; c] =>
      match un_opt un_str e, un_opt un_z c with
      | Some e', Some c' => SZ (auto_default e' c')
      | _, _ => bad_input
      end
  | _ => bad_input
  end.
