(* Rsync.v — model of the remote-run helpers in workermanage.py (C19):
   make_reltoroot, HostRSync.filter (fnmatch patterns), NodeManager._getrsyncdirs' decision and
   the rsync()/setup() branches that depend on the spec. *)
From XV Require Import Base.
Open Scope nat_scope.

(* ---------------- strings ---------------- *)
Definition chars := list ascii.

(* str.split("::"): non-overlapping, left to right *)
Fixpoint split_sep (fuel : nat) (s acc : chars) : list chars :=
  match fuel with
  | O => [rev acc ++ s]
  | S f =>
      match s with
      | a :: ((b :: r) as t) =>
          if Ascii.eqb a ":"%char && Ascii.eqb b ":"%char then rev acc :: split_sep f r []
          else split_sep f t (a :: acc)
      | [a] => [rev (a :: acc)]
      | [] => [rev acc]
      end
  end.
Definition split2 (s : chars) : list chars := split_sep (S (length s)) s [].

Fixpoint join_sep (l : list chars) : chars :=
  match l with
  | [] => []
  | [x] => x
  | x :: r => x ++ [":"%char; ":"%char] ++ join_sep r
  end.

(* ---------------- pure paths (posix, lexical) ---------------- *)
Record ppath := { p_abs : bool; p_parts : list chars }.

Fixpoint split_slash (s acc : chars) : list chars :=
  match s with
  | [] => [rev acc]
  | a :: r => if Ascii.eqb a "/"%char then rev acc :: split_slash r [] else split_slash r (a :: acc)
  end.

Definition chars_eqb (a b : chars) : bool := list_eqb Ascii.eqb a b.

(* Path(s): drops empty and "." components, remembers a leading slash *)
Definition parse_path (s : chars) : ppath :=
  {| p_abs := match s with a :: _ => Ascii.eqb a "/"%char | [] => false end;
     p_parts := filter (fun c => negb (chars_eqb c []) && negb (chars_eqb c ["."%char])) (split_slash s []) |}.

Fixpoint join_slash (l : list chars) : chars :=
  match l with
  | [] => []
  | [x] => x
  | x :: r => x ++ ["/"%char] ++ join_slash r
  end.

(* str(Path) *)
Definition path_str (p : ppath) : chars :=
  match p_abs p, p_parts p with
  | true, parts => "/"%char :: join_slash parts
  | false, [] => ["."%char]
  | false, parts => join_slash parts
  end.

Definition path_name (p : ppath) : chars := last (p_parts p) [].

Fixpoint strip_prefix (pre l : list chars) : option (list chars) :=
  match pre, l with
  | [], _ => Some l
  | a :: pre', b :: l' => if chars_eqb a b then strip_prefix pre' l' else None
  | _ :: _, [] => None
  end.

(* fspath.relative_to(root): Some relative parts, None for ValueError *)
Definition relative_to (p root : ppath) : option (list chars) :=
  if Bool.eqb (p_abs p) (p_abs root) then strip_prefix (p_parts root) (p_parts p) else None.

Definition ppath_eqb (a b : ppath) : bool :=
  Bool.eqb (p_abs a) (p_abs b) && list_eqb chars_eqb (p_parts a) (p_parts b).

Section RelToRoot.
  (* the file system enters as an oracle: which (normalised) paths exist *)
  Variable exists_ : ppath -> bool.

  Fixpoint first_root (p : ppath) (roots : list ppath) : option (ppath * list chars) :=
    match roots with
    | [] => None
    | r :: rest => match relative_to p r with
                   | Some rel => Some (r, rel)
                   | None => first_root p rest
                   end
    end.

  (* one argument of make_reltoroot *)
  Definition reltoroot_arg (roots : list ppath) (arg : chars) : result chars :=
    match split2 arg with
    | [] => Ok arg
    | p0 :: sel =>
        let fp := parse_path p0 in
        if negb (exists_ fp) then Ok arg else
        match first_root fp roots with
        | Some (r, rel) =>
            let x := path_str {| p_abs := false; p_parts := rel |} in
            Ok (join_sep ((path_name r ++ ["/"%char] ++ x) :: sel))
        | None => Err EValue
        end
    end.

  Fixpoint make_reltoroot (roots : list ppath) (args : list chars) : result (list chars) :=
    match args with
    | [] => Ok []
    | a :: r => match reltoroot_arg roots a with
                | Err e => Err e
                | Ok a' => match make_reltoroot roots r with
                           | Err e => Err e
                           | Ok r' => Ok (a' :: r')
                           end
                end
    end.
End RelToRoot.

(* ---------------- fnmatch (the subset of fnmatch.translate that is modelled) ---------------- *)
Inductive gtok :=
| GStar | GAny | GLit (c : ascii)
| GClass (neg : bool) (items : list (ascii * ascii)).     (* inclusive ranges; a single char is (c, c) *)

Definition ale (a b : ascii) : bool := (nat_of_ascii a <=? nat_of_ascii b).

(* members of a bracket expression up to the closing ']' : returns items and the rest after ']' *)
Fixpoint class_items (fuel : nat) (s : chars) (acc : list (ascii * ascii)) : option (list (ascii * ascii) * chars) :=
  match fuel with
  | O => None
  | S f =>
      match s with
      | [] => None
      | c :: r =>
          if Ascii.eqb c "]"%char then Some (rev acc, r)
          else match r with
               | d :: (e :: r2) =>
                   if Ascii.eqb d "-"%char && negb (Ascii.eqb e "]"%char)
                   then class_items f r2 ((c, e) :: acc)
                   else class_items f r ((c, c) :: acc)
               | _ => class_items f r ((c, c) :: acc)
               end
      end
  end.

Fixpoint gparse (fuel : nat) (p : chars) : list gtok :=
  match fuel with
  | O => []
  | S f =>
      match p with
      | [] => []
      | c :: r =>
          if Ascii.eqb c "*"%char then GStar :: gparse f r
          else if Ascii.eqb c "?"%char then GAny :: gparse f r
          else if Ascii.eqb c "["%char then
            let '(neg, r1) := match r with
                              | d :: r' => if Ascii.eqb d "!"%char then (true, r') else (false, r)
                              | [] => (false, r)
                              end in
            (* a ']' right after '[' or '[!' is a literal member *)
            let '(first, r2) := match r1 with
                                | d :: r' => if Ascii.eqb d "]"%char then ([("]"%char, "]"%char)], r') else ([], r1)
                                | [] => ([], r1)
                                end in
            match class_items (S (length r2)) r2 (rev first) with
            | Some (items, rest) => GClass neg items :: gparse f rest
            | None => GLit "["%char :: gparse f r          (* no closing bracket: literal '[' *)
            end
          else GLit c :: gparse f r
      end
  end.

Definition in_class (items : list (ascii * ascii)) (c : ascii) : bool :=
  existsb (fun it => ale (fst it) c && ale c (snd it)) items.

(* whole-string match *)
Fixpoint gmatch (toks : list gtok) (s : chars) {struct toks} : bool :=
  match toks with
  | [] => match s with [] => true | _ => false end
  | GStar :: r =>
      (fix star (t : chars) : bool :=
         gmatch r t || match t with [] => false | _ :: t' => star t' end) s
  | GAny :: r => match s with [] => false | _ :: t => gmatch r t end
  | GLit c :: r => match s with [] => false | d :: t => Ascii.eqb c d && gmatch r t end
  | GClass neg items :: r =>
      match s with
      | [] => false
      | d :: t => xorb neg (in_class items d) && gmatch r t
      end
  end.

Definition fnmatch (pat s : chars) : bool := gmatch (gparse (S (length pat)) pat) s.

(* HostRSync.filter: True = transfer the entry *)
Definition rsync_filter (ignores : list chars) (p : chars) : bool :=
  let pp := parse_path p in
  negb (existsb (fun pat => fnmatch pat (path_name pp) || fnmatch pat (path_str pp)) ignores).

Definition default_ignores : list chars :=
  map list_ascii_of_string [".*"; "*.pyc"; "*.pyo"; "*~"]%string.

(* ---------------- which specs need synchronisation ---------------- *)
Record xspec := { x_popen : bool; x_chdir : bool }.
(* _getrsyncdirs returns [] at once iff every spec is a plain popen without chdir *)
Definition needs_rsync_roots (specs : list xspec) : bool :=
  existsb (fun sp => negb (x_popen sp) || x_chdir sp) specs.
(* rsync(): a real transfer happens only for non-popen specs or specs with chdir *)
Definition rsync_transfers (sp : xspec) : bool := negb (x_popen sp && negb (x_chdir sp)).
(* WorkerController.setup: are the command line arguments rewritten? *)
Definition rewrites_args (sp : xspec) : bool := negb (x_popen sp) || x_chdir sp.

(* ---------------- wire codec ---------------- *)
Definition cs (s : string) : chars := list_ascii_of_string s.
Definition sc (c : chars) : string := string_of_list_ascii c.

Definition run_reltoroot (s : sx) : sx :=
  match s with
  | SL [SL roots; SL existing; SL args] =>
      match opt_map un_str roots, opt_map un_str existing, opt_map un_str args with
      | Some roots', Some ex', Some args' =>
          let exl := map (fun x => parse_path (cs x)) ex' in
          let ex := fun p => existsb (ppath_eqb p) exl in
          match make_reltoroot ex (map (fun x => parse_path (cs x)) roots') (map cs args') with
          | Ok r => SL (map (fun x => SS (sc x)) r)
          | Err e => SL [SS "err"; SS (err_name e)]
          end
      | _, _, _ => bad_input
      end
  | _ => bad_input
  end.

Definition run_fnmatch (s : sx) : sx :=
  match s with
  | SL [SS pat; SS str] => sx_bool (fnmatch (cs pat) (cs str))
  | _ => bad_input
  end.

Definition run_rsync_filter (s : sx) : sx :=
  match s with
  | SL [SL ign; SS p] =>
      match opt_map un_str ign with
      | Some ign' => sx_bool (rsync_filter (map cs ign') (cs p))
      | None => bad_input
      end
  | _ => bad_input
  end.

Definition run_specs (s : sx) : sx :=
  match s with
  | SL l =>
      match opt_map (fun e => match e with
                              | SL [a; b] => match un_bool a, un_bool b with
                                             | Some a', Some b' => Some {| x_popen := a'; x_chdir := b' |}
                                             | _, _ => None end
                              | _ => None end) l with
      | Some specs => SL [sx_bool (needs_rsync_roots specs);
                          SL (map (fun sp => SL [sx_bool (rsync_transfers sp); sx_bool (rewrites_args sp)]) specs)]
      | None => bad_input
      end
  | _ => bad_input
  end.
