(* CtlRun.v — the controller side of System.v driven by INJECTED worker messages: the same
   transition function (LRecv / LCtl / LCrash steps of sys_step) with an extra operation that puts
   an arbitrary message on a worker's up-wire. Ties process_from_remote / d_loop_once (over which the
   controller-level theorems quantify: arbitrary event sequences) to the real DSession +
   WorkerController on histories real workers of the simulator cannot produce (keyboard-interrupt
   exits, internal_error events, undecodable messages at any point, out-of-protocol orders). *)
From XV Require Import Base Worker Ctl Sched DSession System.
Open Scope string_scope.

Definition upmsg_of_sx (c : config) (n : nat) (s : sx) : option upmsg :=
  match s with
  | SL [SS "workerready"] => Some (UEv EReady)
  | SL [SS "collectionstart"] => Some (UEv ECollStart)
  | SL [SS "collectionfinish"] => Some (UCollFinish (c_coll c n))
  | SL [SS "collectreport"; k; f] =>
      match un_nat k, un_bool f with Some k', Some f' => Some (UEv (ECollReport k' f')) | _, _ => None end
  | SL [SS "logstart"; i] => option_map (fun i' => UEv (ELogStart i')) (un_nat i)
  | SL [SS "logfinish"; i] => option_map (fun i' => UEv (ELogFinish i')) (un_nat i)
  | SL [SS "testreport"; i; k; SZ oc] =>
      match un_nat i, un_nat k with
      | Some i', Some k' => Some (up_of_wevent c n (EReport i' k' (outcome_of_z oc)))
      | _, _ => None
      end
  | SL [SS "runtest_protocol_complete"; i] => option_map (fun i' => UComplete i' (c_dur c i')) (un_nat i)
  | SL [SS "unscheduled"; ixs] => option_map (fun l => UEv (EUnscheduled l)) (un_nats ixs)
  | SL [SS "workerfinished"; SZ 0] => Some (UFinished SKNone)
  | SL [SS "workerfinished"; SZ 1] => Some (UFinished SKStop)
  | SL [SS "workerfinished"; SZ 2] => Some (UFinished SKKbd)
  | SL [SS "internal_error"] => Some UInternalError
  | SL [SS "warning_recorded"] => Some (UWarning true)
  | SL [SS "garbled"] => Some UBad
  | SL [SS "END"] => Some UEnd
  | _ => None
  end%Z.

Inductive cop := CInject (n : nat) (e : sx) | CLabel (l : label).

Definition cop_of_sx (s : sx) : option cop :=
  match s with
  | SL [SS "inject"; n; e] => option_map (fun n' => CInject n' e) (un_nat n)
  | _ => option_map CLabel (label_of_sx s)
  end.

Definition inject (s : sys) (n : nat) (m : upmsg) : sys :=
  {| y_d := y_d s; y_evq := y_evq s; y_down := y_down s;
     y_up := aset n ((alist_get [] n (y_up s) ++ [m])%list) (y_up s); y_w := y_w s;
     y_dead := y_dead s; y_result := y_result s |}.

Fixpoint ctl_trace (c : config) (s : sys) (ops : list cop) : list sx :=
  match ops with
  | [] => []
  | CInject n e :: r =>
      match y_result s, aget n (y_w s), upmsg_of_sx c n e with
      | None, Some _, Some m =>
          SL [SL []; SL [SL [sx_nat n; e]]; sx_sysview (inject s n m)] :: ctl_trace c (inject s n m) r
      | _, _, _ => SL [SS "disabled"] :: ctl_trace c s r
      end
  | CLabel l :: r =>
      match sys_step c s l with
      | None => SL [SS "disabled"] :: ctl_trace c s r
      | Some (s', outs, wevs) =>
          SL [SL (map sx_of_out outs);
              SL (map (fun p => SL [sx_nat (fst p); sx_of_wevent (snd p)]) wevs);
              sx_sysview s'] :: ctl_trace c s' r
      end
  end.

Definition run_ctl (s : sx) : sx :=
  match s with
  | SL [cfg; SL ops] =>
      match config_of_sx cfg, opt_map cop_of_sx ops with
      | Some c, Some ops' => SL (ctl_trace c (sys_init c) ops')
      | _, _ => bad_input
      end
  | _ => bad_input
  end.
