(* GroupMarkProofs.v — what the worker writes into a marked test's id is what the controller reads back *)
From XV Require Import Base SchedScope GroupMark ScopeProofs.
From Coq Require Import String Ascii List.
Import ListNotations.
Open Scope string_scope.

Lemma list_of_append a b : list_ascii_of_string (a ++ b) = (list_ascii_of_string a ++ list_ascii_of_string b)%list.
Proof. induction a as [|c a IH]; cbn; [reflexivity|]. rewrite IH. reflexivity. Qed.

Lemma string_of_list_of s : string_of_list_ascii (list_ascii_of_string s) = s.
Proof. apply string_of_list_ascii_of_string. Qed.

(* a marked test: the controller's group key is exactly the group name the worker wrote,
   whatever the test's own id looks like ('@' in a directory name, '::' or '@' inside a
   parametrisation id, ...), for group names without '@' and ']' *)
Theorem marked_key_is_group nodeid args kw :
  let g := gname_of args kw in
  ~ In at_c (list_ascii_of_string g) -> ~ In rbr (list_ascii_of_string g) ->
  split_group (mark_nodeid true nodeid (Some (args, kw))) = g.
Proof.
  intros g Ha Hb. unfold mark_nodeid. fold g.
  assert (E : (nodeid ++ "@" ++ g)%string =
              string_of_list_ascii (list_ascii_of_string nodeid ++ at_c :: list_ascii_of_string g)%list).
  { rewrite <- (string_of_list_of (nodeid ++ "@" ++ g)). f_equal. rewrite list_of_append. reflexivity. }
  rewrite E.
  rewrite (split_group_marked (list_ascii_of_string nodeid) (list_ascii_of_string g) Ha Hb).
  apply string_of_list_of.
Qed.

(* two marked tests of one group get one key: they form one work unit *)
Corollary same_group_same_key id1 id2 a1 k1 a2 k2 :
  gname_of a1 k1 = gname_of a2 k2 ->
  ~ In at_c (list_ascii_of_string (gname_of a1 k1)) -> ~ In rbr (list_ascii_of_string (gname_of a1 k1)) ->
  split_group (mark_nodeid true id1 (Some (a1, k1))) = split_group (mark_nodeid true id2 (Some (a2, k2))).
Proof.
  intros E Ha Hb. rewrite (marked_key_is_group id1 a1 k1 Ha Hb).
  rewrite E in Ha, Hb. rewrite (marked_key_is_group id2 a2 k2 Ha Hb). exact E.
Qed.

Theorem unmarked_untouched lg nodeid : mark_nodeid lg nodeid None = nodeid.
Proof. destruct lg; reflexivity. Qed.

Theorem other_modes_untouched nodeid m : mark_nodeid false nodeid m = nodeid.
Proof. reflexivity. Qed.

Theorem gname_positional_first a r kw : gname_of (a :: r) kw = a.
Proof. reflexivity. Qed.
Theorem gname_keyword n : gname_of [] (Some n) = n.
Proof. reflexivity. Qed.
Theorem gname_default : gname_of [] None = "default".
Proof. reflexivity. Qed.

Example marked_in_at_directory :
  split_group (mark_nodeid true "svc@v2/test_one.py::test_db_create" (Some (["db"], None))) = "db".
Proof. vm_compute. reflexivity. Qed.
