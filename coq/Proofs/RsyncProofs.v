(* RsyncProofs.v — unbounded theorems about Model/Rsync.v (C19):
   R1-R5 : make_reltoroot (split/join of '::', selectors, choice of the root, relative_to, parse/str)
   G1-G4 : fnmatch as a relation, the four default ignore patterns, HostRSync.filter, literal patterns. *)
From XV Require Import Base Rsync.
Open Scope nat_scope.
Open Scope list_scope.

Notation colon := ":"%char.
Notation slash := "/"%char.
Notation dot := "."%char.

(* ------------------------------------------------------------------ *)
(* generic helpers                                                     *)
(* ------------------------------------------------------------------ *)
Lemma two_step_ind (A : Type) (P : list A -> Prop) :
  P [] -> (forall a, P [a]) -> (forall a b r, P r -> P (b :: r) -> P (a :: b :: r)) -> forall s, P s.
Proof.
  intros H0 H1 H2 s.
  assert (G : P s /\ forall a, P (a :: s)).
  { induction s as [|b r IH]; [split; auto|].
    destruct IH as (Hr & Hbr). split; [apply Hbr|]. intros a. apply H2; [exact Hr|apply Hbr]. }
  exact (proj1 G).
Qed.

Lemma ascii_eqb_false_iff a b : Ascii.eqb a b = false <-> a <> b.
Proof.
  split.
  - intros H E. subst. rewrite Ascii.eqb_refl in H. discriminate.
  - intros H. destruct (Ascii.eqb a b) eqn:E; [apply Ascii.eqb_eq in E; contradiction|reflexivity].
Qed.

(* ------------------------------------------------------------------ *)
(* R1: str.split("::") and "::".join                                   *)
(* ------------------------------------------------------------------ *)

(* a fuel-free, accumulator-free description of str.split("::") *)
Definition cons_hd (a : ascii) (l : list chars) : list chars :=
  match l with h :: t => (a :: h) :: t | [] => [[a]] end.

Fixpoint splitS (s : chars) : list chars :=
  match s with
  | a :: ((b :: r) as t) =>
      if Ascii.eqb a colon && Ascii.eqb b colon then [] :: splitS r else cons_hd a (splitS t)
  | [a] => [[a]]
  | [] => [[]]
  end.

Lemma splitS_cons2 a b r :
  splitS (a :: b :: r) =
  if Ascii.eqb a colon && Ascii.eqb b colon then [] :: splitS r else cons_hd a (splitS (b :: r)).
Proof. reflexivity. Qed.

Definition app_hd (p : chars) (l : list chars) : list chars :=
  match l with h :: t => (p ++ h) :: t | [] => [p] end.

Lemma splitS_nonempty s : splitS s <> [].
Proof.
  induction s as [| a | a b r IHr IHt] using two_step_ind; try (cbn; discriminate).
  rewrite splitS_cons2.
  destruct (Ascii.eqb a colon && Ascii.eqb b colon); [discriminate|].
  destruct (splitS (b :: r)); cbn; discriminate.
Qed.

Lemma app_hd_cons_hd p a l : l <> [] -> app_hd p (cons_hd a l) = app_hd (p ++ [a]) l.
Proof. destruct l as [|h t]; [congruence|]. intros _. cbn. rewrite <- app_assoc. reflexivity. Qed.

Lemma split_sep_splitS fuel : forall s acc, length s < fuel -> split_sep fuel s acc = app_hd (rev acc) (splitS s).
Proof.
  induction fuel as [|f IH]; intros s acc Hl; [lia|].
  destruct s as [|a [|b r]].
  - cbn. rewrite app_nil_r. reflexivity.
  - cbn. reflexivity.
  - rewrite splitS_cons2. cbn [split_sep]. destruct (Ascii.eqb a colon && Ascii.eqb b colon).
    + rewrite IH by (cbn in Hl |- *; lia). cbn [rev app_hd]. rewrite app_nil_r.
      destruct (splitS r) eqn:E; [exfalso; eapply splitS_nonempty; eauto|]. reflexivity.
    + rewrite IH by (cbn in Hl |- *; lia). rewrite app_hd_cons_hd by apply splitS_nonempty. reflexivity.
Qed.

Theorem split2_splitS s : split2 s = splitS s.
Proof.
  unfold split2. rewrite split_sep_splitS by lia. cbn.
  destruct (splitS s) eqn:E; [exfalso; eapply splitS_nonempty; eauto|reflexivity].
Qed.

Lemma join_sep_cons x l : l <> [] -> join_sep (x :: l) = x ++ [colon; colon] ++ join_sep l.
Proof. destruct l; [congruence|reflexivity]. Qed.

Lemma join_sep_cons_hd a l : l <> [] -> join_sep (cons_hd a l) = a :: join_sep l.
Proof. destruct l as [|h [|h2 t]]; [congruence| |]; intros _; reflexivity. Qed.

Lemma splitS_join s : join_sep (splitS s) = s.
Proof.
  induction s as [| a | a b r IHr IHt] using two_step_ind; try reflexivity.
  rewrite splitS_cons2. destruct (Ascii.eqb a colon && Ascii.eqb b colon) eqn:E.
  - apply andb_true_iff in E. destruct E as (Ea & Eb). apply Ascii.eqb_eq in Ea, Eb. subst.
    rewrite join_sep_cons by apply splitS_nonempty. rewrite IHr. reflexivity.
  - rewrite join_sep_cons_hd by apply splitS_nonempty. rewrite IHt. reflexivity.
Qed.

(* (R1) "::".join(s.split("::")) == s *)
Theorem R1_join_split s : join_sep (split2 s) = s.
Proof. rewrite split2_splitS. apply splitS_join. Qed.

Theorem R1_split_nonempty s : split2 s <> [].
Proof. rewrite split2_splitS. apply splitS_nonempty. Qed.

(* "the string contains '::'" as a boolean and as a decomposition *)
Fixpoint has_sep (s : chars) : bool :=
  match s with
  | a :: ((b :: _) as t) => (Ascii.eqb a colon && Ascii.eqb b colon) || has_sep t
  | _ => false
  end.
Definition no_sep (s : chars) : Prop := has_sep s = false.

Lemma has_sep_cons2 a b r :
  has_sep (a :: b :: r) = (Ascii.eqb a colon && Ascii.eqb b colon) || has_sep (b :: r).
Proof. reflexivity. Qed.

Lemma has_sep_spec s : has_sep s = true <-> exists pre post, s = pre ++ [colon; colon] ++ post.
Proof.
  induction s as [|a s IH].
  - cbn. split; [discriminate|]. intros (pre & post & E). destruct pre; discriminate.
  - destruct s as [|b r].
    + cbn. split; [discriminate|]. intros (pre & post & E). destruct pre as [|x [|y pre]]; discriminate.
    + rewrite has_sep_cons2. rewrite orb_true_iff, IH. split.
      * intros [H | (pre & post & E)].
        -- apply andb_true_iff in H. destruct H as (Ea & Eb). apply Ascii.eqb_eq in Ea, Eb. subst.
           exists [], r. reflexivity.
        -- exists (a :: pre), post. rewrite E. reflexivity.
      * intros (pre & post & E). destruct pre as [|x pre].
        -- cbn in E. injection E as -> -> _. left. reflexivity.
        -- cbn in E. injection E as -> E. right. exists pre, post. exact E.
Qed.

Lemma no_sep_spec s : no_sep s <-> ~ exists pre post, s = pre ++ [colon; colon] ++ post.
Proof.
  unfold no_sep. rewrite <- has_sep_spec. destruct (has_sep s); split; congruence.
Qed.

Lemma splitS_no_sep s : no_sep s -> splitS s = [s].
Proof.
  unfold no_sep.
  induction s as [| a | a b r IHr IHt] using two_step_ind; try reflexivity.
  rewrite has_sep_cons2, splitS_cons2. intros H. apply orb_false_iff in H. destruct H as (H1 & H2).
  rewrite H1, IHt by exact H2. reflexivity.
Qed.

Theorem R1_split_no_sep s : no_sep s -> split2 s = [s].
Proof. rewrite split2_splitS. apply splitS_no_sep. Qed.

Print Assumptions R1_join_split.
Print Assumptions R1_split_nonempty.
Print Assumptions R1_split_no_sep.

(* ------------------------------------------------------------------ *)
(* R4: relative_to is prefix stripping                                 *)
(* ------------------------------------------------------------------ *)
Lemma list_eqb_spec (A : Type) (eqb : A -> A -> bool) :
  (forall x y, eqb x y = true <-> x = y) -> forall a b, list_eqb eqb a b = true <-> a = b.
Proof.
  intros He. induction a as [|x a IH]; intros [|y b]; cbn; try (split; [discriminate|discriminate]).
  - split; reflexivity.
  - rewrite andb_true_iff, He, IH. split; [intros (-> & ->); reflexivity|intros E; injection E; auto].
Qed.

Theorem chars_eqb_spec a b : chars_eqb a b = true <-> a = b.
Proof. unfold chars_eqb. apply list_eqb_spec. intros x y. apply Ascii.eqb_eq. Qed.

Lemma chars_eqb_refl a : chars_eqb a a = true.
Proof. apply chars_eqb_spec. reflexivity. Qed.

Lemma chars_eqb_false a b : chars_eqb a b = false <-> a <> b.
Proof.
  split.
  - intros H E. subst. rewrite chars_eqb_refl in H. discriminate.
  - intros H. destruct (chars_eqb a b) eqn:E; [apply chars_eqb_spec in E; contradiction|reflexivity].
Qed.

Theorem ppath_eqb_spec a b : ppath_eqb a b = true <-> a = b.
Proof.
  unfold ppath_eqb. rewrite andb_true_iff, eqb_true_iff, (list_eqb_spec _ _ chars_eqb_spec).
  destruct a, b; cbn. split; [intros (-> & ->); reflexivity|intros E; injection E; auto].
Qed.

Lemma strip_prefix_spec pre : forall l rel, strip_prefix pre l = Some rel <-> l = pre ++ rel.
Proof.
  induction pre as [|a pre IH]; intros l rel; cbn.
  - split; [intros E; injection E; auto|intros ->; reflexivity].
  - destruct l as [|b l].
    + split; discriminate.
    + destruct (chars_eqb a b) eqn:E.
      * apply chars_eqb_spec in E. subst b. rewrite IH. split; [intros ->; reflexivity|intros H; injection H; auto].
      * apply chars_eqb_false in E. split; [discriminate|]. intros H. injection H as H _. congruence.
Qed.

(* (R4) *)
Theorem R4_relative_to p r rel :
  relative_to p r = Some rel <-> p_abs p = p_abs r /\ p_parts p = p_parts r ++ rel.
Proof.
  unfold relative_to. destruct (Bool.eqb (p_abs p) (p_abs r)) eqn:E.
  - apply eqb_prop in E. rewrite strip_prefix_spec. tauto.
  - apply eqb_false_iff in E. split; [discriminate|tauto].
Qed.

Theorem R4_relative_to_none p r :
  relative_to p r = None <-> ~ exists rel, p_abs p = p_abs r /\ p_parts p = p_parts r ++ rel.
Proof.
  split.
  - intros H (rel & Hr). apply R4_relative_to in Hr. congruence.
  - intros H. destruct (relative_to p r) as [rel|] eqn:E; [|reflexivity].
    exfalso. apply H. exists rel. apply R4_relative_to. exact E.
Qed.

Theorem R4_root_itself r : relative_to r r = Some [].
Proof. apply R4_relative_to. rewrite app_nil_r. auto. Qed.

Theorem R4_root_itself_str : path_str {| p_abs := false; p_parts := [] |} = [dot].
Proof. reflexivity. Qed.

Print Assumptions chars_eqb_spec.
Print Assumptions R4_relative_to.
Print Assumptions R4_root_itself.

(* ------------------------------------------------------------------ *)
(* R3: the first matching root is chosen                               *)
(* ------------------------------------------------------------------ *)
Theorem R3_first_root p roots r rel :
  first_root p roots = Some (r, rel) <->
  exists pre post, roots = pre ++ r :: post /\ relative_to p r = Some rel /\
                   forall r', In r' pre -> relative_to p r' = None.
Proof.
  induction roots as [|r0 rest IH]; cbn.
  - split; [discriminate|]. intros (pre & post & E & _). destruct pre; discriminate.
  - destruct (relative_to p r0) as [rel0|] eqn:E0.
    + split.
      * intros H. injection H as -> ->. exists [], rest. split; [reflexivity|]. split; [exact E0|]. intros r' [].
      * intros (pre & post & E & Hr & Hn). destruct pre as [|x pre].
        -- cbn in E. injection E as -> _. rewrite Hr in E0. injection E0 as ->. reflexivity.
        -- cbn in E. injection E as -> _. rewrite (Hn x (or_introl eq_refl)) in E0. discriminate.
    + rewrite IH. split.
      * intros (pre & post & -> & Hr & Hn). exists (r0 :: pre), post. split; [reflexivity|]. split; [exact Hr|].
        intros r' [<-|H]; [exact E0|apply Hn; exact H].
      * intros (pre & post & E & Hr & Hn). destruct pre as [|x pre].
        -- cbn in E. injection E as -> _. congruence.
        -- cbn in E. injection E as -> ->. exists pre, post. split; [reflexivity|]. split; [exact Hr|].
           intros r' H. apply Hn. right. exact H.
Qed.

Theorem R3_first_root_none p roots :
  first_root p roots = None <-> forall r, In r roots -> relative_to p r = None.
Proof.
  induction roots as [|r0 rest IH]; cbn.
  - split; [intros _ r []|reflexivity].
  - destruct (relative_to p r0) eqn:E0.
    + split; [discriminate|]. intros H. rewrite (H r0 (or_introl eq_refl)) in E0. discriminate.
    + rewrite IH. split.
      * intros H r [<-|Hr]; [exact E0|apply H; exact Hr].
      * intros H r Hr. apply H. right. exact Hr.
Qed.

(* the complete formula for one argument *)
Theorem R3_reltoroot_arg_formula exists_ roots arg p0 sel :
  split2 arg = p0 :: sel -> exists_ (parse_path p0) = true ->
  forall pre r post rel,
    roots = pre ++ r :: post ->
    (forall r', In r' pre -> ~ exists x, p_abs (parse_path p0) = p_abs r' /\ p_parts (parse_path p0) = p_parts r' ++ x) ->
    p_abs (parse_path p0) = p_abs r -> p_parts (parse_path p0) = p_parts r ++ rel ->
    reltoroot_arg exists_ roots arg =
    Ok (join_sep ((path_name r ++ [slash] ++ path_str {| p_abs := false; p_parts := rel |}) :: sel)).
Proof.
  intros Hs He pre r post rel Hroots Hpre Habs Hparts.
  assert (F : first_root (parse_path p0) roots = Some (r, rel)).
  { apply R3_first_root. exists pre, post. split; [exact Hroots|]. split.
    - apply R4_relative_to. auto.
    - intros r' Hr'. apply R4_relative_to_none. apply Hpre. exact Hr'. }
  unfold reltoroot_arg. rewrite Hs, He, F. reflexivity.
Qed.

(* an argument naming a root itself becomes '<root name>/.' (selectors kept) *)
Theorem R4_root_arg exists_ roots arg p0 sel :
  split2 arg = p0 :: sel -> exists_ (parse_path p0) = true ->
  forall pre post,
    roots = pre ++ parse_path p0 :: post ->
    (forall r', In r' pre -> relative_to (parse_path p0) r' = None) ->
    reltoroot_arg exists_ roots arg = Ok (join_sep ((path_name (parse_path p0) ++ [slash; dot]) :: sel)).
Proof.
  intros Hs He pre post Hroots Hpre.
  assert (F : first_root (parse_path p0) roots = Some (parse_path p0, [])).
  { apply R3_first_root. exists pre, post. split; [exact Hroots|]. split; [apply R4_root_itself|exact Hpre]. }
  unfold reltoroot_arg. rewrite Hs, He, F. reflexivity.
Qed.

Print Assumptions R3_first_root.
Print Assumptions R3_first_root_none.
Print Assumptions R3_reltoroot_arg_formula.
Print Assumptions R4_root_arg.

(* ------------------------------------------------------------------ *)
(* G1: glob matching as a relation                                     *)
(* ------------------------------------------------------------------ *)
Inductive gm : list gtok -> chars -> Prop :=
| gm_nil : gm [] []
| gm_star0 r s : gm r s -> gm (GStar :: r) s
| gm_star1 r c s : gm (GStar :: r) s -> gm (GStar :: r) (c :: s)
| gm_any r c s : gm r s -> gm (GAny :: r) (c :: s)
| gm_lit r c s : gm r s -> gm (GLit c :: r) (c :: s)
| gm_class neg items r c s :
    xorb neg (in_class items c) = true -> gm r s -> gm (GClass neg items :: r) (c :: s).

Lemma gmatch_star r s :
  gmatch (GStar :: r) s = gmatch r s || match s with [] => false | _ :: t => gmatch (GStar :: r) t end.
Proof. destruct s; reflexivity. Qed.

Lemma gmatch_sound toks : forall s, gmatch toks s = true -> gm toks s.
Proof.
  induction toks as [|t r IH]; intros s.
  - destruct s; cbn; [constructor|discriminate].
  - destruct t as [| |c|neg items].
    + induction s as [|d s IHs]; rewrite gmatch_star; intros H.
      * rewrite orb_false_r in H. apply gm_star0. apply IH. exact H.
      * apply orb_true_iff in H. destruct H as [H|H].
        -- apply gm_star0. apply IH. exact H.
        -- apply gm_star1. apply IHs. exact H.
    + destruct s as [|d s]; cbn; [discriminate|]. intros H. constructor. apply IH. exact H.
    + destruct s as [|d s]; cbn; [discriminate|]. intros H. apply andb_true_iff in H. destruct H as (E & H).
      apply Ascii.eqb_eq in E. subst d. constructor. apply IH. exact H.
    + destruct s as [|d s]; cbn; [discriminate|]. intros H. apply andb_true_iff in H. destruct H as (E & H).
      constructor; [exact E|apply IH; exact H].
Qed.

Lemma gmatch_complete toks s : gm toks s -> gmatch toks s = true.
Proof.
  induction 1.
  - reflexivity.
  - rewrite gmatch_star, IHgm. reflexivity.
  - rewrite gmatch_star, IHgm. apply orb_true_r.
  - cbn. exact IHgm.
  - cbn. rewrite Ascii.eqb_refl, IHgm. reflexivity.
  - cbn. rewrite H, IHgm. reflexivity.
Qed.

(* (G1) *)
Theorem G1_gmatch_gm toks s : gmatch toks s = true <-> gm toks s.
Proof. split; [apply gmatch_sound|apply gmatch_complete]. Qed.

Print Assumptions G1_gmatch_gm.

(* consequences used below *)
Lemma gm_lits l s : gm (map GLit l) s <-> s = l.
Proof.
  revert s. induction l as [|c l IH]; intros s; cbn.
  - split; [intros H; inversion H; reflexivity|intros ->; constructor].
  - split.
    + intros H. inversion H; subst. f_equal. apply IH. assumption.
    + intros ->. constructor. apply IH. reflexivity.
Qed.

Lemma gm_star_split r s : gm (GStar :: r) s <-> exists pre post, s = pre ++ post /\ gm r post.
Proof.
  split.
  - intros H. remember (GStar :: r) as toks eqn:Et. induction H; try discriminate.
    + injection Et as ->. exists [], s. split; [reflexivity|assumption].
    + destruct (IHgm Et) as (pre & post & -> & Hp). exists (c :: pre), post. split; [reflexivity|].
      injection Et as ->. exact Hp.
  - intros (pre & post & -> & H). induction pre as [|c pre IH]; cbn.
    + apply gm_star0. exact H.
    + apply gm_star1. exact IH.
Qed.

Lemma gm_star_only s : gm [GStar] s.
Proof. apply gm_star_split. exists s, []. rewrite app_nil_r. split; [reflexivity|constructor]. Qed.

Lemma gm_star_lits l s : gm (GStar :: map GLit l) s <-> exists r, s = r ++ l.
Proof.
  rewrite gm_star_split. split.
  - intros (pre & post & -> & H). apply gm_lits in H. subst. exists pre. reflexivity.
  - intros (r & ->). exists r, l. split; [reflexivity|]. apply gm_lits. reflexivity.
Qed.

(* ------------------------------------------------------------------ *)
(* G2: the four default ignore patterns                                *)
(* ------------------------------------------------------------------ *)
Definition pat_dotstar := list_ascii_of_string ".*".
Definition pat_pyc := list_ascii_of_string "*.pyc".
Definition pat_pyo := list_ascii_of_string "*.pyo".
Definition pat_tilde := list_ascii_of_string "*~".

Lemma default_ignores_eq : default_ignores = [pat_dotstar; pat_pyc; pat_pyo; pat_tilde].
Proof. reflexivity. Qed.

Theorem G2_dotstar s : fnmatch pat_dotstar s = true <-> exists r, s = dot :: r.
Proof.
  unfold fnmatch. change (gparse (S (length pat_dotstar)) pat_dotstar) with [GLit dot; GStar].
  rewrite G1_gmatch_gm. split.
  - intros H. inversion H; subst. eexists. reflexivity.
  - intros (r & ->). constructor. apply gm_star_only.
Qed.

Theorem G2_pyc s : fnmatch pat_pyc s = true <-> exists r, s = r ++ [dot; "p"; "y"; "c"]%char.
Proof.
  unfold fnmatch.
  change (gparse (S (length pat_pyc)) pat_pyc) with (GStar :: map GLit [dot; "p"; "y"; "c"]%char).
  rewrite G1_gmatch_gm. apply gm_star_lits.
Qed.

Theorem G2_pyo s : fnmatch pat_pyo s = true <-> exists r, s = r ++ [dot; "p"; "y"; "o"]%char.
Proof.
  unfold fnmatch.
  change (gparse (S (length pat_pyo)) pat_pyo) with (GStar :: map GLit [dot; "p"; "y"; "o"]%char).
  rewrite G1_gmatch_gm. apply gm_star_lits.
Qed.

Theorem G2_tilde s : fnmatch pat_tilde s = true <-> exists r, s = r ++ ["~"%char].
Proof.
  unfold fnmatch.
  change (gparse (S (length pat_tilde)) pat_tilde) with (GStar :: map GLit ["~"%char]).
  rewrite G1_gmatch_gm. apply gm_star_lits.
Qed.

Print Assumptions G2_dotstar.
Print Assumptions G2_pyc.
Print Assumptions G2_pyo.
Print Assumptions G2_tilde.

(* ------------------------------------------------------------------ *)
(* G3: HostRSync.filter                                                *)
(* ------------------------------------------------------------------ *)
Theorem G3_rsync_filter ignores p :
  rsync_filter ignores p = true <->
  forall pat, In pat ignores ->
    fnmatch pat (path_name (parse_path p)) = false /\ fnmatch pat (path_str (parse_path p)) = false.
Proof.
  unfold rsync_filter. rewrite negb_true_iff. split.
  - intros H pat Hin. apply orb_false_iff.
    destruct (fnmatch pat (path_name (parse_path p)) || fnmatch pat (path_str (parse_path p))) eqn:E; [|reflexivity].
    assert (X : existsb (fun pat => fnmatch pat (path_name (parse_path p)) || fnmatch pat (path_str (parse_path p))) ignores = true).
    { apply existsb_exists. exists pat. split; [exact Hin|exact E]. }
    congruence.
  - intros H.
    destruct (existsb (fun pat => fnmatch pat (path_name (parse_path p)) || fnmatch pat (path_str (parse_path p))) ignores) eqn:E; [|reflexivity].
    apply existsb_exists in E. destruct E as (pat & Hin & E). destruct (H pat Hin) as (A & B).
    rewrite A, B in E. discriminate.
Qed.

Theorem G3_rsync_filter_excluded ignores p :
  rsync_filter ignores p = false <->
  exists pat, In pat ignores /\
    (fnmatch pat (path_name (parse_path p)) = true \/ fnmatch pat (path_str (parse_path p)) = true).
Proof.
  unfold rsync_filter. rewrite negb_false_iff, existsb_exists. split.
  - intros (pat & Hin & E). exists pat. split; [exact Hin|]. apply orb_true_iff. exact E.
  - intros (pat & Hin & E). exists pat. split; [exact Hin|]. apply orb_true_iff. exact E.
Qed.

(* the names the default ignore list rejects *)
Definition default_ignored (s : chars) : Prop :=
  (exists r, s = dot :: r) \/
  (exists r, s = r ++ [dot; "p"; "y"; "c"]%char) \/
  (exists r, s = r ++ [dot; "p"; "y"; "o"]%char) \/
  (exists r, s = r ++ ["~"%char]).

Lemma default_ignored_spec s : default_ignored s <-> exists pat, In pat default_ignores /\ fnmatch pat s = true.
Proof.
  rewrite default_ignores_eq. unfold default_ignored. rewrite <- G2_dotstar, <- G2_pyc, <- G2_pyo, <- G2_tilde. split.
  - intros [H|[H|[H|H]]]; eexists; (split; [|exact H]); cbn; auto.
  - intros (pat & Hin & H). cbn in Hin. destruct Hin as [<-|[<-|[<-|[<-|[]]]]]; auto.
Qed.

Theorem G3_default_excluded p :
  rsync_filter default_ignores p = false <->
  default_ignored (path_name (parse_path p)) \/ default_ignored (path_str (parse_path p)).
Proof.
  rewrite G3_rsync_filter_excluded, !default_ignored_spec. split.
  - intros (pat & Hin & [H|H]); [left|right]; exists pat; auto.
  - intros [(pat & Hin & H)|(pat & Hin & H)]; exists pat; auto.
Qed.

Theorem G3_default_transferred p :
  rsync_filter default_ignores p = true <->
  ~ default_ignored (path_name (parse_path p)) /\ ~ default_ignored (path_str (parse_path p)).
Proof.
  pose proof (G3_default_excluded p) as H. destruct (rsync_filter default_ignores p).
  - split; [intros _|reflexivity]. split; intros X; [assert (true = false) by (apply H; left; exact X)|assert (true = false) by (apply H; right; exact X)]; discriminate.
  - split; [discriminate|]. intros (A & B). destruct (proj1 H eq_refl); contradiction.
Qed.

Print Assumptions G3_rsync_filter.
Print Assumptions G3_default_excluded.
Print Assumptions G3_default_transferred.

(* ------------------------------------------------------------------ *)
(* G4: a pattern without metacharacters matches exactly itself         *)
(* ------------------------------------------------------------------ *)
Lemma gparse_literal fuel : forall pat,
  length pat < fuel ->
  (forall c, In c pat -> c <> "*"%char /\ c <> "?"%char /\ c <> "["%char) ->
  gparse fuel pat = map GLit pat.
Proof.
  induction fuel as [|f IH]; intros pat Hl Hc; [lia|].
  destruct pat as [|c r]; [reflexivity|].
  destruct (Hc c (or_introl eq_refl)) as (H1 & H2 & H3).
  apply ascii_eqb_false_iff in H1, H2, H3.
  cbn [gparse map]. rewrite H1, H2, H3. f_equal. apply IH.
  - cbn in Hl. lia.
  - intros d Hd. apply Hc. right. exact Hd.
Qed.

Theorem G4_literal pat s :
  (forall c, In c pat -> c <> "*"%char /\ c <> "?"%char /\ c <> "["%char) ->
  (fnmatch pat s = true <-> s = pat).
Proof.
  intros Hc. unfold fnmatch. rewrite gparse_literal by (auto; lia). rewrite G1_gmatch_gm. apply gm_lits.
Qed.

Print Assumptions G4_literal.

(* ------------------------------------------------------------------ *)
(* R2: the selectors after '::' survive the rewrite                    *)
(* ------------------------------------------------------------------ *)
Lemma has_sep_app_false x y : has_sep (x ++ y) = false -> has_sep x = false.
Proof.
  induction x as [|a x IH]; [reflexivity|].
  destruct x as [|b x]; [reflexivity|].
  cbn [app]. rewrite !has_sep_cons2. intros H. apply orb_false_iff in H. destruct H as (H1 & H2).
  rewrite H1. cbn. apply IH. exact H2.
Qed.

(* x has no '::' and does not end in ':'  ==>  x ++ "::" ++ rest is split right after x *)
Lemma splitS_app_sep x rest :
  no_sep (x ++ [colon]) -> splitS (x ++ [colon; colon] ++ rest) = x :: splitS rest.
Proof.
  unfold no_sep. induction x as [|a x IH]; intros H.
  - reflexivity.
  - destruct x as [|b x].
    + cbn in H. cbn [app]. rewrite splitS_cons2.
      rewrite orb_false_r in H. apply andb_false_iff in H.
      assert (Ea : Ascii.eqb a colon = false) by (destruct H as [H|H]; [exact H|discriminate]).
      rewrite Ea. cbn [andb]. change (colon :: colon :: rest) with ([] ++ [colon; colon] ++ rest).
      rewrite IH by reflexivity. reflexivity.
    + cbn [app] in H |- *. rewrite has_sep_cons2 in H. apply orb_false_iff in H. destruct H as (H1 & H2).
      rewrite splitS_cons2, H1. change (b :: x ++ colon :: colon :: rest) with ((b :: x) ++ [colon; colon] ++ rest).
      rewrite IH by exact H2. reflexivity.
Qed.

(* the tail of a split is itself a split (or empty) *)
Lemma splitS_tail_canon s : forall h l, splitS s = h :: l -> l = [] \/ exists rest, l = splitS rest.
Proof.
  induction s as [| a | a b r IHr IHt] using two_step_ind; intros h l.
  - cbn. intros E. injection E as _ <-. left. reflexivity.
  - cbn. intros E. injection E as _ <-. left. reflexivity.
  - rewrite splitS_cons2. destruct (Ascii.eqb a colon && Ascii.eqb b colon).
    + intros E. injection E as _ <-. right. exists r. reflexivity.
    + destruct (splitS (b :: r)) as [|h' l'] eqn:E'; cbn; intros E; injection E as _ <-.
      * left. reflexivity.
      * eapply IHt. reflexivity.
Qed.

(* the first component of a split never contains '::' *)
Lemma splitS_hd_no_sep s : forall h l, splitS s = h :: l -> no_sep h.
Proof.
  unfold no_sep.
  induction s as [| a | a b r IHr IHt] using two_step_ind; intros h l.
  - cbn. intros E. injection E as <- _. reflexivity.
  - cbn. intros E. injection E as <- _. reflexivity.
  - rewrite splitS_cons2. destruct (Ascii.eqb a colon && Ascii.eqb b colon) eqn:Eab.
    + intros E. injection E as <- _. reflexivity.
    + destruct (splitS (b :: r)) as [|h' l'] eqn:E'; [exfalso; eapply splitS_nonempty; eauto|].
      cbn. intros E. injection E as <- _.
      pose proof (IHt h' l' eq_refl) as Hh'.
      destruct h' as [|c h']; [reflexivity|]. rewrite has_sep_cons2, Hh', orb_false_r.
      (* c is the first character of b :: r's first component: it is b unless b :: r starts with '::' *)
      destruct r as [|b2 r2].
      * cbn in E'. injection E' as <- _ _. exact Eab.
      * rewrite splitS_cons2 in E'. destruct (Ascii.eqb b colon && Ascii.eqb b2 colon) eqn:E2; [discriminate|].
        destruct (splitS (b2 :: r2)); cbn in E'; injection E' as <- _ _; exact Eab.
Qed.

Theorem R2_first_component_no_sep s p0 sel : split2 s = p0 :: sel -> no_sep p0.
Proof. rewrite split2_splitS. apply splitS_hd_no_sep. Qed.

(* general form: replacing the first component by any x without '::' that does not end in ':' *)
Theorem R2_replace_first arg p0 sel x :
  split2 arg = p0 :: sel -> no_sep (x ++ [colon]) -> split2 (join_sep (x :: sel)) = x :: sel.
Proof.
  rewrite !split2_splitS. intros Hs Hx.
  destruct (splitS_tail_canon _ _ _ Hs) as [-> | (rest & ->)].
  - cbn. apply splitS_no_sep. eapply has_sep_app_false. exact Hx.
  - rewrite join_sep_cons by apply splitS_nonempty. rewrite splitS_join. apply splitS_app_sep. exact Hx.
Qed.

Lemma no_colon_no_sep x : ~ In colon x -> no_sep (x ++ [colon]).
Proof.
  unfold no_sep. induction x as [|a x IH]; intros H; [reflexivity|].
  assert (Ea : Ascii.eqb a colon = false) by (apply ascii_eqb_false_iff; intros ->; apply H; left; reflexivity).
  assert (Hx : ~ In colon x) by (intros X; apply H; right; exact X).
  destruct x as [|b x].
  - cbn. rewrite Ea. reflexivity.
  - cbn [app]. rewrite has_sep_cons2, Ea. cbn [andb orb]. apply IH. exact Hx.
Qed.

(* which characters can occur in the rewritten component *)
Lemma join_slash_chars l c : In c (join_slash l) -> c = slash \/ exists p, In p l /\ In c p.
Proof.
  induction l as [|x l IH]; [intros []|].
  destruct l as [|y l].
  - cbn. intros H. right. exists x. auto.
  - change (join_slash (x :: y :: l)) with (x ++ [slash] ++ join_slash (y :: l)).
    rewrite !in_app_iff. intros [H|[H|H]].
    + right. exists x. split; [left; reflexivity|exact H].
    + left. destruct H as [<-|[]]. reflexivity.
    + destruct (IH H) as [->|(p & Hp & Hc)]; [left; reflexivity|]. right. exists p. split; [right; exact Hp|exact Hc].
Qed.

Lemma split_slash_chars s : forall acc p c, In p (split_slash s acc) -> In c p -> In c s \/ In c acc.
Proof.
  induction s as [|a s IH]; intros acc p c; cbn [split_slash].
  - intros [<-|[]] H. right. apply in_rev. exact H.
  - destruct (Ascii.eqb a slash).
    + intros [<-|Hp] H.
      * right. apply in_rev. exact H.
      * destruct (IH [] p c Hp H) as [X|[]]. left. right. exact X.
    + intros Hp H. destruct (IH (a :: acc) p c Hp H) as [X|[<-|X]].
      * left. right. exact X.
      * left. left. reflexivity.
      * right. exact X.
Qed.

Lemma parse_path_chars s p c : In p (p_parts (parse_path s)) -> In c p -> In c s.
Proof.
  unfold parse_path. cbn [p_parts]. rewrite filter_In. intros (Hp & _) Hc.
  destruct (split_slash_chars s [] p c Hp Hc) as [X|[]]. exact X.
Qed.

Lemma first_root_In p roots r rel :
  first_root p roots = Some (r, rel) -> In r roots /\ relative_to p r = Some rel.
Proof.
  intros H. apply R3_first_root in H. destruct H as (pre & post & -> & Hr & _).
  split; [apply in_or_app; right; left; reflexivity|exact Hr].
Qed.

(* (R2) realistic case: no ':' in the path part of the argument nor in the roots' names *)
Theorem R2_selectors_preserved exists_ roots arg out :
  (forall r, In r roots -> ~ In colon (path_name r)) ->
  ~ In colon (hd [] (split2 arg)) ->
  reltoroot_arg exists_ roots arg = Ok out ->
  tl (split2 out) = tl (split2 arg).
Proof.
  intros Hroots Hp0. unfold reltoroot_arg.
  destruct (split2 arg) as [|p0 sel] eqn:Hs; [intros E; injection E as <-; rewrite Hs; reflexivity|].
  cbn [hd] in Hp0. cbv zeta.
  destruct (exists_ (parse_path p0)); cbn [negb]; [|intros E; injection E as <-; rewrite Hs; reflexivity].
  destruct (first_root (parse_path p0) roots) as [[r rel]|] eqn:F; [|discriminate].
  intros E.
  assert (E' : out = join_sep ((path_name r ++ [slash] ++ path_str {| p_abs := false; p_parts := rel |}) :: sel))
    by congruence.
  clear E. rewrite E'. clear E' out.
  apply first_root_In in F. destruct F as (Hr & Hrel). apply R4_relative_to in Hrel. destruct Hrel as (_ & Hparts).
  rewrite (R2_replace_first arg p0 sel _ Hs); [reflexivity|].
  apply no_colon_no_sep. rewrite !in_app_iff. intros [H|[H|H]].
  - exact (Hroots r Hr H).
  - destruct H as [H|[]]. discriminate H.
  - unfold path_str in H. cbn [p_abs p_parts] in H.
    assert (J : In colon (join_slash rel) -> False).
    { intros J. apply join_slash_chars in J. destruct J as [J|(p & Hp & Hc)]; [discriminate J|].
      apply Hp0. apply (parse_path_chars p0 p colon); [|exact Hc]. rewrite Hparts. apply in_or_app. right. exact Hp. }
    destruct rel as [|x rel]; [|exact (J H)]. destruct H as [H|[]]. discriminate H.
Qed.

(* and the whole result, not only its tail *)
Theorem R2_rewritten_split exists_ roots arg p0 sel r rel :
  (forall r, In r roots -> ~ In colon (path_name r)) -> ~ In colon p0 ->
  split2 arg = p0 :: sel -> exists_ (parse_path p0) = true ->
  first_root (parse_path p0) roots = Some (r, rel) ->
  exists out, reltoroot_arg exists_ roots arg = Ok out /\
    split2 out = (path_name r ++ [slash] ++ path_str {| p_abs := false; p_parts := rel |}) :: sel.
Proof.
  intros Hroots Hp0 Hs He F.
  set (x := path_name r ++ [slash] ++ path_str {| p_abs := false; p_parts := rel |}).
  assert (R : reltoroot_arg exists_ roots arg = Ok (join_sep (x :: sel))).
  { unfold reltoroot_arg. rewrite Hs, He, F. reflexivity. }
  exists (join_sep (x :: sel)). split; [exact R|].
  - pose proof (R2_selectors_preserved exists_ roots arg (join_sep (x :: sel)) Hroots) as T.
    rewrite Hs in T. specialize (T Hp0 R).
    pose proof (R1_join_split (join_sep (x :: sel))) as J.
    destruct (split2 (join_sep (x :: sel))) as [|h t] eqn:E; [exfalso; eapply R1_split_nonempty; eauto|].
    cbn [tl] in T. subst t. f_equal.
    (* heads: both joins are equal and the tails agree *)
    destruct sel as [|s1 sel].
    + cbn in J. exact J.
    + change (join_sep (h :: s1 :: sel)) with (h ++ [colon; colon] ++ join_sep (s1 :: sel)) in J.
      change (join_sep (x :: s1 :: sel)) with (x ++ [colon; colon] ++ join_sep (s1 :: sel)) in J.
      apply app_inv_tail in J. exact J.
Qed.

Print Assumptions R2_first_component_no_sep.
Print Assumptions R2_replace_first.
Print Assumptions R2_selectors_preserved.
Print Assumptions R2_rewritten_split.

(* ------------------------------------------------------------------ *)
(* R5: parse_path and path_str                                         *)
(* ------------------------------------------------------------------ *)
(* a normal path component: non-empty, not ".", no '/' *)
Definition good_part (c : chars) : Prop := c <> [] /\ c <> [dot] /\ ~ In slash c.
Definition normal_path (p : ppath) : Prop := Forall good_part (p_parts p).

Lemma split_slash_app_noslash x : forall rest acc,
  ~ In slash x -> split_slash (x ++ rest) acc = split_slash rest (rev x ++ acc).
Proof.
  induction x as [|a x IH]; intros rest acc H; [reflexivity|].
  assert (Ea : Ascii.eqb a slash = false) by (apply ascii_eqb_false_iff; intros ->; apply H; left; reflexivity).
  cbn [app split_slash]. rewrite Ea. rewrite IH by (intros X; apply H; right; exact X).
  cbn [rev]. rewrite <- app_assoc. reflexivity.
Qed.

Lemma split_slash_join parts : forall acc,
  parts <> [] -> Forall (fun c => ~ In slash c) parts ->
  split_slash (join_slash parts) acc = app_hd (rev acc) parts.
Proof.
  induction parts as [|x parts IH]; intros acc Hne Hf; [congruence|].
  inversion Hf as [|? ? Hx Hf']; subst.
  destruct parts as [|y parts].
  - cbn [join_slash app_hd]. rewrite <- (app_nil_r x) at 1. rewrite split_slash_app_noslash by exact Hx.
    cbn. rewrite rev_app_distr, rev_involutive. reflexivity.
  - change (join_slash (x :: y :: parts)) with (x ++ [slash] ++ join_slash (y :: parts)).
    rewrite split_slash_app_noslash by exact Hx. cbn [app split_slash]. rewrite Ascii.eqb_refl.
    rewrite IH by (congruence || exact Hf'). cbn [app_hd rev app].
    rewrite rev_app_distr, rev_involutive. reflexivity.
Qed.

Definition keep_part (c : chars) : bool := negb (chars_eqb c []) && negb (chars_eqb c [dot]).

Lemma keep_part_true c : keep_part c = true <-> c <> [] /\ c <> [dot].
Proof.
  unfold keep_part. rewrite andb_true_iff, !negb_true_iff, !chars_eqb_false. tauto.
Qed.

Lemma filter_all (A : Type) (f : A -> bool) l : Forall (fun x => f x = true) l -> filter f l = l.
Proof. induction 1 as [|x l Hx _ IH]; cbn; [reflexivity|]. rewrite Hx, IH. reflexivity. Qed.

(* (R5) Path(str(p)) == p for normal p *)
Theorem R5_parse_str p : normal_path p -> parse_path (path_str p) = p.
Proof.
  destruct p as [ab parts]. unfold normal_path. cbn [p_parts]. intros Hn.
  assert (Hk : Forall (fun c => keep_part c = true) parts).
  { eapply Forall_impl; [|exact Hn]. intros c (A & B & _). apply keep_part_true. auto. }
  assert (Hs : Forall (fun c => ~ In slash c) parts).
  { eapply Forall_impl; [|exact Hn]. intros c (_ & _ & C). exact C. }
  destruct parts as [|x parts].
  - destruct ab; reflexivity.
  - destruct ab.
    + unfold path_str. cbn [p_abs p_parts]. unfold parse_path. cbn [split_slash]. rewrite Ascii.eqb_refl.
      f_equal. rewrite split_slash_join by (congruence || exact Hs). cbn [rev app_hd app].
      transitivity (filter keep_part (x :: parts)); [reflexivity|]. apply filter_all. exact Hk.
    + unfold path_str. cbn [p_abs p_parts]. unfold parse_path. f_equal.
      * inversion Hn as [|? ? (Hx1 & _ & Hx3) _]; subst.
        destruct x as [|a x]; [congruence|].
        assert (Ea : Ascii.eqb a slash = false)
          by (apply ascii_eqb_false_iff; intros ->; apply Hx3; left; reflexivity).
        destruct parts; cbn; exact Ea.
      * rewrite split_slash_join by (congruence || exact Hs). cbn [rev app_hd app].
        transitivity (filter keep_part (x :: parts)); [reflexivity|]. apply filter_all. exact Hk.
Qed.

Lemma split_slash_noslash s : forall acc p, ~ In slash acc -> In p (split_slash s acc) -> ~ In slash p.
Proof.
  induction s as [|a s IH]; intros acc p Ha; cbn [split_slash].
  - intros [<-|[]] H. apply Ha. apply in_rev. exact H.
  - destruct (Ascii.eqb a slash) eqn:Ea.
    + intros [<-|Hp].
      * intros H. apply Ha. apply in_rev. exact H.
      * apply (IH [] p); [intros []|exact Hp].
    + apply ascii_eqb_false_iff in Ea. apply IH. intros [X|X]; [congruence|exact (Ha X)].
Qed.

(* Path(s) is always normal: no empty component (no '//'), no '.' component, no '/' inside a component *)
Theorem R5_parse_normal s : normal_path (parse_path s).
Proof.
  unfold normal_path, parse_path. cbn [p_parts]. apply Forall_forall. intros c Hc.
  apply filter_In in Hc. destruct Hc as (Hin & Hk).
  change (keep_part c = true) in Hk. apply keep_part_true in Hk. destruct Hk as (A & B).
  split; [exact A|]. split; [exact B|].
  apply (split_slash_noslash s [] c); [intros []|exact Hin].
Qed.

(* normalisation is idempotent: Path(str(Path(s))) == Path(s) *)
Theorem R5_parse_idempotent s : parse_path (path_str (parse_path s)) = parse_path s.
Proof. apply R5_parse_str. apply R5_parse_normal. Qed.

Print Assumptions R5_parse_str.
Print Assumptions R5_parse_normal.
Print Assumptions R5_parse_idempotent.

(* ------------------------------------------------------------------ *)
(* non-vacuity: concrete runs                                          *)
(* ------------------------------------------------------------------ *)
Open Scope string_scope.

Definition ex_roots : list ppath := map (fun x => parse_path (cs x)) ["/home/u/proj"; "/home/u/lib"].
Definition ex_existing : list ppath :=
  map (fun x => parse_path (cs x))
      ["/home/u/proj"; "/home/u/proj/tests/test_a.py"; "/home/u/lib/util"; "/etc/passwd"].
Definition ex_exists (p : ppath) : bool := existsb (ppath_eqb p) ex_existing.

(* a file under the first root, with selectors; the root itself; a directory under the second root
   (written with '//' and '/./'); a name that does not exist; an option *)
Example ex_reltoroot_ok :
  make_reltoroot ex_exists ex_roots
    (map cs ["/home/u/proj/tests/test_a.py::TestX::test_y"; "/home/u/proj"; "/home/u//lib/./util/";
             "tests/nothing.py::t"; "-v"])
  = Ok (map cs ["proj/tests/test_a.py::TestX::test_y"; "proj/."; "lib/util"; "tests/nothing.py::t"; "-v"]).
Proof. vm_compute. reflexivity. Qed.

(* an existing path outside every root is an error *)
Example ex_reltoroot_outside :
  make_reltoroot ex_exists ex_roots (map cs ["-v"; "/etc/passwd::x"]) = Err EValue.
Proof. vm_compute. reflexivity. Qed.

(* nested roots: the first one in list order wins (R3) *)
Example ex_reltoroot_first_wins :
  let roots := map (fun x => parse_path (cs x)) ["/a"; "/a/b"] in
  let roots' := map (fun x => parse_path (cs x)) ["/a/b"; "/a"] in
  reltoroot_arg (fun _ => true) roots (cs "/a/b/t.py::k") = Ok (cs "a/b/t.py::k") /\
  reltoroot_arg (fun _ => true) roots' (cs "/a/b/t.py::k") = Ok (cs "b/t.py::k").
Proof. vm_compute. split; reflexivity. Qed.

(* the hypotheses of R2 hold in the first example and its conclusion is not trivial *)
Example ex_R2_instance :
  (forall r, In r ex_roots -> ~ In colon (path_name r)) /\
  ~ In colon (hd [] (split2 (cs "/home/u/proj/tests/test_a.py::TestX::test_y"))) /\
  tl (split2 (cs "proj/tests/test_a.py::TestX::test_y")) = map cs ["TestX"; "test_y"].
Proof.
  split; [|split].
  - intros r Hr. vm_compute in Hr. destruct Hr as [<-|[<-|[]]]; vm_compute; intuition discriminate.
  - vm_compute. intuition discriminate.
  - vm_compute. reflexivity.
Qed.

(* R2 needs its hypothesis: a directory whose name ends in ':' written with a trailing '/' loses a ':'
   to the selector ("d/a:/" is normalised to "d/a:", and "d/a:" ++ "::" ++ "sel" splits as "d/a", ":sel") *)
Example ex_R2_hypothesis_needed :
  let roots := [parse_path (cs "d")] in
  let arg := cs "d/a:/::sel" in
  exists out, reltoroot_arg (fun _ => true) roots arg = Ok out /\
              out = cs "d/a:::sel" /\
              split2 arg = map cs ["d/a:/"; "sel"] /\ split2 out = map cs ["d/a"; ":sel"].
Proof. eexists. vm_compute. repeat split; reflexivity. Qed.

(* str.split("::") on strings with runs of ':' *)
Example ex_split :
  split2 (cs "a:::b") = map cs ["a"; ":b"] /\ split2 (cs "::") = map cs [""; ""] /\
  split2 (cs "a::::b") = map cs ["a"; ""; "b"] /\ split2 (cs "") = [[]] /\ split2 (cs "a:b") = [cs "a:b"].
Proof. vm_compute. repeat split; reflexivity. Qed.

(* the filter *)
Example ex_filter :
  map (rsync_filter default_ignores)
      (map cs ["pkg/a.pyc"; ".git"; "src/x.py"; "src/x.py~"; "a/b/.hidden"; "x.pyo"; "setup.cfg"; ".hidden/x.py"; "pyc"])
  = [false; false; true; false; false; false; true; false; true].
Proof. vm_compute. reflexivity. Qed.

(* both sides of G2 are inhabited *)
Example ex_fnmatch :
  map (fun ps => fnmatch (cs (fst ps)) (cs (snd ps)))
      [(".*", ".git"); (".*", "a.git"); ("*.pyc", "m.pyc"); ("*.pyc", "m.pyc.txt"); ("*~", "~"); ("*~", "~a");
       ("[!a-c]?x*", "dyx.py"); ("[!a-c]?x*", "ayx.py"); ("[]a]", "]"); ("[a", "[a"); ("a?c", "abc"); ("a?c", "ac")]
  = [true; false; true; false; true; false; true; false; true; true; true; false].
Proof. vm_compute. reflexivity. Qed.

(* parse / str *)
Example ex_paths :
  path_str (parse_path (cs "/a//b/./c/")) = cs "/a/b/c" /\ path_str (parse_path (cs "./")) = cs "." /\
  path_str (parse_path (cs "/")) = cs "/" /\ path_name (parse_path (cs "a/b.py")) = cs "b.py" /\
  relative_to (parse_path (cs "/a/b/c")) (parse_path (cs "/a")) = Some (map cs ["b"; "c"]) /\
  relative_to (parse_path (cs "/ab/c")) (parse_path (cs "/a")) = None /\
  relative_to (parse_path (cs "a/b")) (parse_path (cs "/a")) = None.
Proof. vm_compute. repeat split; reflexivity. Qed.
