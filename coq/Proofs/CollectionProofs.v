(* CollectionProofs.v — tests are dispatched BY POSITION in the collected list, so a worker
   may only be given tests if its own collection equals the reference collection.
   This file proves, for every state and every collection, that the four scheduler models
   enforce this: disagreement found by schedule() stops the run before any command is sent,
   a late (replacement) worker that disagrees is never registered and is shut down, and a
   worker without a registered collection is never sent tests. *)
From XV Require Import Base Worker Ctl SchedLoad SchedSteal SchedScope SchedEach.
From XV Require LoadProofs StealProofs ScopeProofs EachProofs.
Open Scope nat_scope.

Ltac inv H := inversion H; subst; clear H.

(* ====================================================================================== *)
(* (K1) report_collection_diff returns None exactly for equal collections                 *)
(* ====================================================================================== *)

Lemma list_eqb_string_eq : forall a b : list string, list_eqb String.eqb a b = true <-> a = b.
Proof.
  induction a as [|x a IH]; intros [|y b]; cbn [list_eqb]; split; intros H;
    try reflexivity; try discriminate.
  - apply andb_true_iff in H. destruct H as [Hx Ha].
    apply String.eqb_eq in Hx. apply IH in Ha. subst. reflexivity.
  - inv H. apply andb_true_iff. split; [apply String.eqb_refl | apply IH; reflexivity].
Qed.

Theorem K1_coll_eqb_eq : forall a b : list string, coll_eqb a b = true <-> a = b.
Proof. intros a b. unfold coll_eqb. apply list_eqb_string_eq. Qed.

Corollary K1_coll_eqb_refl : forall a, coll_eqb a a = true.
Proof. intros a. apply K1_coll_eqb_eq. reflexivity. Qed.

Corollary K1_coll_eqb_neq : forall a b : list string, coll_eqb a b = false <-> a <> b.
Proof.
  intros a b. split.
  - intros H E. apply K1_coll_eqb_eq in E. congruence.
  - intros H. destruct (coll_eqb a b) eqn:E; [|reflexivity]. apply K1_coll_eqb_eq in E. contradiction.
Qed.

Print Assumptions K1_coll_eqb_eq.

(* ====================================================================================== *)
(* The monad: equations for running a computation whose first step is known               *)
(* ====================================================================================== *)
Section MonadEq.
  Context {S : Type}.

  Lemma mbind_get {B} (f : S -> M S B) (s : S) : mbind get f s = f s s.
  Proof. unfold mbind, get. destruct (f s s) as [[s2 o2] r2]. reflexivity. Qed.

  Lemma mbind_ret {A B} (a : A) (f : A -> M S B) (s : S) : mbind (ret a) f s = f a s.
  Proof. unfold mbind, ret. destruct (f a s) as [[s2 o2] r2]. reflexivity. Qed.

  Lemma mbind_put {B} (x : S) (f : unit -> M S B) (s : S) : mbind (put x) f s = f tt x.
  Proof. unfold mbind, put. destruct (f tt x) as [[s2 o2] r2]. reflexivity. Qed.

  Lemma mbind_raise {A B} e (f : A -> M S B) (s : S) : mbind (raise e) f s = (s, [], Err e).
  Proof. reflexivity. Qed.

  Lemma mbind_ok {A B} (m : M S A) (f : A -> M S B) s s1 o1 a :
    m s = (s1, o1, Ok a) ->
    mbind m f s = (fst (fst (f a s1)), o1 ++ snd (fst (f a s1)), snd (f a s1)).
  Proof. intros H. unfold mbind. rewrite H. destruct (f a s1) as [[s2 o2] r2]. reflexivity. Qed.

  Lemma mbind_err {A B} (m : M S A) (f : A -> M S B) s s1 o1 e :
    m s = (s1, o1, Err e) -> mbind m f s = (s1, o1, Err e).
  Proof. intros H. unfold mbind. rewrite H. reflexivity. Qed.

  Lemma mbind_inv {A B} (m : M S A) (f : A -> M S B) s s' o r :
    mbind m f s = (s', o, r) ->
    (exists e, m s = (s', o, Err e) /\ r = Err e) \/
    (exists s1 o1 a o2, m s = (s1, o1, Ok a) /\ f a s1 = (s', o2, r) /\ o = o1 ++ o2).
  Proof.
    unfold mbind. destruct (m s) as [[s1 o1] [a|e]].
    - destruct (f a s1) as [[s2 o2] r2] eqn:E. intros H. inv H. right. exists s1, o1, a, o2. auto.
    - intros H. inv H. left. exists e. auto.
  Qed.
End MonadEq.

(* ====================================================================================== *)
(* A small Hoare logic: a state invariant I and a predicate Q on every output             *)
(* ====================================================================================== *)
Section Hoare.
  Context {S : Type} (I : S -> Prop) (Q : out -> Prop).

  Definition sat {A} (m : M S A) : Prop :=
    forall s s' o r, I s -> m s = (s', o, r) -> I s' /\ Forall Q o.

  Lemma sat_ret {A} (a : A) : sat (ret a).
  Proof. intros s s' o r Hi H. inv H. auto. Qed.
  Lemma sat_raise {A} e : sat (@raise S A e).
  Proof. intros s s' o r Hi H. inv H. auto. Qed.
  Lemma sat_get : sat get.
  Proof. intros s s' o r Hi H. inv H. auto. Qed.
  Lemma sat_put x : I x -> sat (put x).
  Proof. intros Hx s s' o r Hi H. inv H. auto. Qed.
  Lemma sat_emit x : Q x -> sat (emit x).
  Proof. intros Hx s s' o r Hi H. inv H. auto. Qed.
  Lemma sat_massert b : sat (massert b).
  Proof. destruct b; [apply sat_ret | apply sat_raise]. Qed.
  Lemma sat_of_opt {A} (x : option A) e : sat (of_opt x e).
  Proof. destruct x; [apply sat_ret | apply sat_raise]. Qed.

  Lemma sat_bind {A B} (m : M S A) (f : A -> M S B) :
    sat m -> (forall a, sat (f a)) -> sat (mbind m f).
  Proof.
    intros Hm Hf s s' o r Hi H. apply mbind_inv in H.
    destruct H as [(e & H & _)|(s1 & o1 & a & o2 & H1 & H2 & ->)].
    - exact (Hm _ _ _ _ Hi H).
    - destruct (Hm _ _ _ _ Hi H1) as [Hi1 Q1]. destruct (Hf a _ _ _ _ Hi1 H2) as [Hi2 Q2].
      split; [exact Hi2 | apply Forall_app; auto].
  Qed.

  (* the state read by get satisfies the invariant *)
  Lemma sat_bind_get {B} (f : S -> M S B) :
    (forall a, I a -> sat (f a)) -> sat (mbind get f).
  Proof. intros Hf s s' o r Hi H. rewrite mbind_get in H. exact (Hf s Hi _ _ _ _ Hi H). Qed.

  Lemma sat_mfor {A} (l : list A) (f : A -> M S unit) :
    (forall a, sat (f a)) -> sat (mfor l f).
  Proof.
    intros Hf. induction l as [|x l IH]; cbn [mfor]; [apply sat_ret|].
    apply sat_bind; [apply Hf | intros _; exact IH].
  Qed.

  Lemma sat_elim {A} (m : M S A) s s' o r :
    sat m -> I s -> m s = (s', o, r) -> I s' /\ Forall Q o.
  Proof. intros H Hi E. exact (H _ _ _ _ Hi E). Qed.
End Hoare.

(* decompose a function body; leaves the side conditions I x (for put) and Q o (for emit) *)
Ltac hstep :=
  match goal with
  | |- sat _ _ (ret _) => apply sat_ret
  | |- sat _ _ (raise _) => apply sat_raise
  | |- sat _ _ get => apply sat_get
  | |- sat _ _ (massert _) => apply sat_massert
  | |- sat _ _ (of_opt _ _) => apply sat_of_opt
  | |- sat _ _ (put _) => apply sat_put
  | |- sat _ _ (emit _) => apply sat_emit
  | |- sat _ _ (mfor _ _) => apply sat_mfor; intros ?
  | |- sat _ _ (mbind get _) => apply sat_bind_get; intros ? ?
  | |- sat _ _ (mbind _ _) => apply sat_bind; [|intros ?]
  | |- sat _ _ (match ?x with _ => _ end) => destruct x eqn:?
  | |- sat _ _ _ => progress cbv zeta
  end.
Ltac hoare := repeat hstep.
Ltac hnodes := unfold node_shutdown, node_send, node_shutting_down, node_flags.

(* ====================================================================================== *)
(* WorkerController.shutdown, for any state that contains a node table                    *)
(* ====================================================================================== *)
Definition sd_mark (c : nctl) : nctl :=
  {| n_spec := n_spec c; n_down := n_down c; n_sdsent := true; n_closed := n_closed c |}.

Lemma sd_mark_shutting_down c : shutting_down (sd_mark c) = true.
Proof. unfold shutting_down, sd_mark. cbn. apply orb_true_r. Qed.

Section NodeOps.
  Context {S : Type} (nt_of : S -> ntable) (set_nt : S -> ntable -> S).

  Lemma node_shutdown_eq n s :
    node_shutdown nt_of set_nt n s =
    match aget n (nt_of s) with
    | None => (s, [], Err EKey)
    | Some c =>
        if shutting_down c then (s, [], Ok tt)
        else (set_nt s (aset n (sd_mark c) (nt_of s)),
              if n_closed c then [] else [OSend n CShutdown], Ok tt)
    end.
  Proof.
    unfold node_shutdown, node_send, node_flags, mbind, get, put, of_opt, ret, raise, emit,
      shutting_down, sd_mark.
    destruct (aget n (nt_of s)) as [c|] eqn:En; [|reflexivity].
    destruct (n_down c || n_sdsent c); [reflexivity|].
    rewrite En. destruct (n_closed c); reflexivity.
  Qed.
End NodeOps.

Lemma aget_aset_same {V} n (v : V) m : aget n (aset n v m) = Some v.
Proof.
  induction m as [|[k w] m IH]; cbn.
  - rewrite Nat.eqb_refl. reflexivity.
  - destruct (Nat.eqb n k) eqn:E; cbn; rewrite E; [reflexivity | exact IH].
Qed.

Lemma aget_In {V} n (c : V) m : aget n m = Some c -> In (n, c) m.
Proof.
  induction m as [|[k w] m IH]; cbn; [discriminate|].
  destruct (Nat.eqb n k) eqn:E.
  - intros H. inv H. apply Nat.eqb_eq in E. subst. left. reflexivity.
  - intros H. right. apply IH. exact H.
Qed.

Lemma In_aset {V} n (v : V) m p : In p (aset n v m) -> In p m \/ snd p = v.
Proof.
  induction m as [|[k w] m IH]; cbn.
  - intros [<-|[]]. right. reflexivity.
  - destruct (Nat.eqb n k); cbn.
    + intros [<-|H]; [right; reflexivity | left; right; exact H].
    + intros [<-|H]; [left; left; reflexivity|]. destruct (IH H); [left; right; assumption | right; assumption].
Qed.

Lemma In_adel {V} n (m : amap V) p : In p (adel n m) -> In p m.
Proof.
  induction m as [|[k w] m IH]; cbn; [auto|].
  destruct (Nat.eqb n k); cbn; [auto|]. intros [<-|H]; auto.
Qed.

Lemma length_aset_ge {V} n (v : V) m : length m <= length (aset n v m).
Proof.
  induction m as [|[k w] m IH]; cbn; [lia|]. destruct (Nat.eqb n k); cbn; lia.
Qed.

(* ====================================================================================== *)
(* _check_nodes_have_same_collection: one failed CollectReport per disagreeing node       *)
(* ====================================================================================== *)
Definition diffs (first : nat) (col : list string) (others : amap (list string)) : list out :=
  map (fun p => OCollDiff first (fst p)) (filter (fun p => negb (coll_eqb col (snd p))) others).

Definition all_same (col : list string) (others : amap (list string)) : bool :=
  forallb (fun p => coll_eqb col (snd p)) others.

Lemma mfor_colldiff_eq {S} first col others (s : S) :
  mfor others (fun p : nat * list string =>
                 if coll_eqb col (snd p) then ret tt else emit (OCollDiff first (fst p))) s
  = (s, diffs first col others, Ok tt).
Proof.
  unfold diffs. induction others as [|p others IH]; [reflexivity|].
  cbn [mfor filter]. destruct (coll_eqb col (snd p)); cbn [negb].
  - rewrite mbind_ret. exact IH.
  - erewrite mbind_ok by reflexivity. rewrite IH. reflexivity.
Qed.

Lemma diffs_nil first col others : all_same col others = true -> diffs first col others = [].
Proof.
  unfold diffs, all_same. induction others as [|p others IH]; [reflexivity|].
  cbn. intros H. apply andb_true_iff in H. destruct H as [H1 H2]. rewrite H1. cbn. exact (IH H2).
Qed.

Lemma diffs_no_send first col others n c : ~ In (OSend n c) (diffs first col others).
Proof.
  unfold diffs. intros H. apply in_map_iff in H. destruct H as (p & E & _). discriminate.
Qed.

Lemma diffs_nonempty first col others : all_same col others = false -> diffs first col others <> [].
Proof.
  unfold diffs, all_same. induction others as [|p others IH]; [discriminate|].
  cbn. destruct (coll_eqb col (snd p)); cbn; [exact IH | discriminate].
Qed.

(* every reported node really collected something else, and every such node is reported *)
Lemma diffs_spec first col others o :
  In o (diffs first col others) <->
  exists m c, In (m, c) others /\ c <> col /\ o = OCollDiff first m.
Proof.
  unfold diffs. rewrite in_map_iff. split.
  - intros ([m c] & <- & H). apply filter_In in H. destruct H as [H1 H2]. cbn in *.
    exists m, c. split; [exact H1|]. split; [|reflexivity].
    intros ->. rewrite K1_coll_eqb_refl in H2. discriminate.
  - intros (m & c & H1 & H2 & ->). exists (m, c). split; [reflexivity|].
    apply filter_In. split; [exact H1|]. cbn.
    destruct (coll_eqb col c) eqn:E; [|reflexivity]. apply K1_coll_eqb_eq in E. congruence.
Qed.

Lemma all_same_spec col others :
  all_same col others = true <-> forall m c, In (m, c) others -> c = col.
Proof.
  unfold all_same. rewrite forallb_forall. split.
  - intros H m c Hin. specialize (H _ Hin). cbn in H. apply K1_coll_eqb_eq in H. congruence.
  - intros H [m c] Hin. cbn. apply K1_coll_eqb_eq. symmetry. eapply H. exact Hin.
Qed.

(* ====================================================================================== *)
(* LOAD                                                                                   *)
(* ====================================================================================== *)

Lemma l_same_collection_eq s first col others :
  l_n2c s = (first, col) :: others ->
  l_same_collection s = (s, diffs first col others, Ok (all_same col others)).
Proof.
  intros Hn. unfold l_same_collection. rewrite mbind_get. rewrite Hn.
  erewrite mbind_ok by apply mfor_colldiff_eq. unfold ret. cbn [fst snd]. rewrite app_nil_r.
  reflexivity.
Qed.

(* (K2) the whole effect of schedule() when the initial collections disagree *)
Theorem K2_load_schedule_disagree_eq s first col others :
  l_coll s = None -> l_collection_is_completed s = true ->
  l_n2c s = (first, col) :: others -> all_same col others = false ->
  l_schedule s = (s, diffs first col others, Ok tt).
Proof.
  intros Hc Hd Hn Hs. unfold l_schedule. rewrite mbind_get. rewrite Hd. unfold massert.
  rewrite mbind_ret. rewrite Hc.
  erewrite mbind_ok by (apply l_same_collection_eq; exact Hn).
  rewrite Hs. cbn [negb]. unfold ret. cbn [fst snd]. rewrite app_nil_r. reflexivity.
Qed.

Theorem K2_load_initial_disagreement s s' outs r first col others :
  l_schedule s = (s', outs, r) ->
  l_coll s = None -> l_collection_is_completed s = true ->
  l_n2c s = (first, col) :: others ->
  forallb (fun p => coll_eqb col (snd p)) others = false ->
  r = Ok tt /\
  (forall n c, ~ In (OSend n c) outs) /\
  l_coll s' = None /\
  (l_pending s = [] -> l_pending s' = []) /\
  s' = s /\
  outs = map (fun p => OCollDiff first (fst p))
             (filter (fun p => negb (coll_eqb col (snd p))) others) /\
  outs <> [].
Proof.
  intros H Hc Hd Hn Hs. rewrite (K2_load_schedule_disagree_eq s first col others Hc Hd Hn Hs) in H.
  inv H. split; [reflexivity|]. split; [intros n c; apply diffs_no_send|].
  split; [exact Hc|]. split; [auto|]. split; [reflexivity|]. split; [reflexivity|].
  apply diffs_nonempty. exact Hs.
Qed.
Print Assumptions K2_load_initial_disagreement.

Lemma node_shutting_down_eq {S} (nt_of : S -> ntable) n s :
  node_shutting_down nt_of n s =
  match aget n (nt_of s) with
  | None => (s, [], Err EKey)
  | Some c => (s, [], Ok (shutting_down c))
  end.
Proof.
  unfold node_shutting_down, node_flags, mbind, get, of_opt, ret, raise.
  destruct (aget n (nt_of s)); reflexivity.
Qed.

Definition is_send (o : out) : Prop := exists n c, o = OSend n c.

(* the fields that decide which collection a position refers to *)
Definition l_core (t : lstate) := (l_coll t, l_n2c t, l_numnodes t).

Section LoadFrame.
  (* any invariant that only depends on the core fields *)
  Variable I : lstate -> Prop.
  Variable Q : out -> Prop.
  Hypothesis I_core : forall t t', l_core t' = l_core t -> I t -> I t'.

  Ltac fin := try assumption; try (eapply I_core; [|eassumption]; reflexivity).

  Lemma sat_l_send_tests n num :
    (forall ixs, Q (OSend n (CRun ixs))) -> sat I Q (l_send_tests n num).
  Proof. intros HQ. unfold l_send_tests. hnodes. hoare; fin; apply HQ. Qed.

  Lemma sat_l_node_shutdown n :
    Q (OSend n CShutdown) -> sat I Q (node_shutdown l_nt l_set_nt n).
  Proof. intros HQ. hnodes. hoare; fin. Qed.

  Lemma sat_l_check_schedule n dur :
    Q (OSend n CShutdown) -> (forall ixs, Q (OSend n (CRun ixs))) ->
    sat I Q (l_check_schedule n dur).
  Proof.
    intros HQ1 HQ2. unfold l_check_schedule.
    hoare; try (apply sat_l_send_tests; assumption); try (apply sat_l_node_shutdown; assumption).
    hnodes. hoare.
  Qed.

  Lemma sat_l_round_robin fuel all cur :
    (forall n ixs, Q (OSend n (CRun ixs))) -> sat I Q (l_round_robin fuel all cur).
  Proof.
    intros HQ. revert cur. induction fuel as [|f IH]; intros cur; cbn [l_round_robin]; [apply sat_ret|].
    destruct cur as [|n r]; [destruct all as [|n r]; [apply sat_raise|]|];
      (apply sat_bind; [apply sat_l_send_tests; apply HQ | intros _; apply IH]).
  Qed.
End LoadFrame.

(* (K2') all registered collections equal: no failed CollectReport, the reference
   collection is the common one, and from here on only commands are emitted *)
Theorem K2'_load_schedule_agree s s' outs r first col others :
  l_schedule s = (s', outs, r) ->
  l_coll s = None -> l_collection_is_completed s = true ->
  l_n2c s = (first, col) :: others ->
  forallb (fun p => coll_eqb col (snd p)) others = true ->
  l_coll s' = Some col /\ l_n2c s' = l_n2c s /\ l_numnodes s' = l_numnodes s /\
  (forall a b, ~ In (OCollDiff a b) outs) /\
  Forall is_send outs.
Proof.
  intros H Hc Hd Hn Hs. unfold l_schedule in H. rewrite mbind_get in H. rewrite Hd in H.
  unfold massert in H. rewrite mbind_ret in H. rewrite Hc in H.
  erewrite mbind_ok in H by (apply l_same_collection_eq; exact Hn).
  fold (all_same col others) in Hs. rewrite Hs, (diffs_nil _ _ _ Hs) in H. cbn [negb app] in H.
  rewrite mbind_get in H. rewrite Hn in H. unfold of_opt in H. rewrite mbind_ret in H.
  rewrite mbind_put in H.
  match type of H with
  | (fst (fst (?m ?x)), _, _) = _ => destruct (m x) as [[s2 o2] r2] eqn:E
  end.
  cbn [fst snd] in H. inv H.
  apply (sat_elim (fun t => l_core t = (Some col, l_n2c s, l_numnodes s)) is_send) in E.
  - destruct E as [E1 E2]. unfold l_core in E1. inv E1.
    repeat split; try assumption; try reflexivity.
    intros a b Hin. rewrite Forall_forall in E2. destruct (E2 _ Hin) as (n & c & F). discriminate.
  - assert (HQ : forall n c, is_send (OSend n c)) by (intros n c; exists n, c; reflexivity).
    assert (HI : forall t t' : lstate, l_core t' = l_core t ->
                 l_core t = (Some col, l_n2c s, l_numnodes s) ->
                 l_core t' = (Some col, l_n2c s, l_numnodes s)) by (intros; congruence).
    hoare; try assumption;
      try (apply sat_l_round_robin; [exact HI | intros; apply HQ]);
      try (apply sat_l_send_tests; [exact HI | intros; apply HQ]);
      try (apply sat_l_node_shutdown; [exact HI | apply HQ]).
  - reflexivity.
Qed.
Print Assumptions K2'_load_schedule_agree.

(* (K5) a late (replacement) worker whose collection differs from the reference *)
Definition late_diff_result {S} (set_nt : S -> ntable -> S) (nt : ntable) (s : S) (first n : nat)
  : S * list out * result unit :=
  match aget n nt with
  | None => (s, [OLogDiff first n], Err EKey)
  | Some c =>
      if shutting_down c then (s, [OLogDiff first n], Ok tt)
      else (set_nt s (aset n (sd_mark c) nt),
            OLogDiff first n :: (if n_closed c then [] else [OSend n CShutdown]), Ok tt)
  end.

Lemma late_diff_result_spec {S} (nt_of : S -> ntable) (set_nt : S -> ntable -> S)
      (s : S) first n s' outs r :
  (forall t v, nt_of (set_nt t v) = v) ->
  late_diff_result set_nt (nt_of s) s first n = (s', outs, r) ->
  exists tail, outs = OLogDiff first n :: tail /\
    (tail = [] \/ tail = [OSend n CShutdown]) /\
    (s' = s \/ exists v, s' = set_nt s v) /\
    (forall c, aget n (nt_of s) = Some c ->
       r = Ok tt /\ exists c', aget n (nt_of s') = Some c' /\ shutting_down c' = true) /\
    (forall c, aget n (nt_of s) = Some c -> shutting_down c = false -> n_closed c = false ->
       In (OSend n CShutdown) (OLogDiff first n :: tail)).
Proof.
  intros Hset H. unfold late_diff_result in H.
  destruct (aget n (nt_of s)) as [c|] eqn:Ent.
  - destruct (shutting_down c) eqn:Esd.
    + inv H. exists []. split; [reflexivity|]. split; [auto|]. split; [auto|]. split.
      * intros c1 E. inv E. split; [reflexivity|]. exists c1. auto.
      * intros c1 E E2. inv E. congruence.
    + inv H. eexists. split; [reflexivity|].
      split; [destruct (n_closed c); auto|]. split; [right; eexists; reflexivity|]. split.
      * intros c1 E. split; [reflexivity|]. exists (sd_mark c). rewrite Hset.
        split; [apply aget_aset_same | apply sd_mark_shutting_down].
      * intros c1 E E2 E3. inv E. rewrite E3. right. left. reflexivity.
  - inv H. exists []. split; [reflexivity|]. split; [auto|]. split; [auto|].
    split; intros c1 E; discriminate.
Qed.

Lemma logdiff_tail_facts first n tail :
  tail = [] \/ tail = [OSend n CShutdown] ->
  (forall a b, ~ In (OCollDiff a b) (OLogDiff first n :: tail)) /\
  (forall m c, In (OSend m c) (OLogDiff first n :: tail) -> m = n /\ c = CShutdown).
Proof.
  intros [->| ->]; split.
  - intros a b [F|[]]. discriminate.
  - intros m c [F|[]]. discriminate.
  - intros a b [F|[F|[]]]; discriminate.
  - intros m c [F|[F|[]]]; [discriminate|]. inv F. auto.
Qed.

Lemma K5_load_late_disagree_eq n coll s c0 cr first fcol rest :
  l_collection_is_completed s = true -> l_coll s = Some (c0 :: cr) ->
  ahas n (l_n2p s) = true -> coll_eqb coll (c0 :: cr) = false ->
  l_n2c s = (first, fcol) :: rest ->
  l_add_node_collection n coll s = late_diff_result l_set_nt (l_nt s) s first n.
Proof.
  intros Hd Hc Hh Hne Hn. unfold l_add_node_collection, late_diff_result.
  rewrite mbind_get. rewrite Hh. unfold massert. rewrite mbind_ret. rewrite Hd, Hc, Hne, Hn.
  unfold first_key, of_opt. rewrite mbind_ret.
  erewrite mbind_ok by reflexivity.
  rewrite (node_shutdown_eq l_nt l_set_nt).
  destruct (aget n (l_nt s)) as [c|]; [|reflexivity].
  destruct (shutting_down c); [reflexivity|]. destruct (n_closed c); reflexivity.
Qed.

Theorem K5_load_late_disagree n coll s s' outs r c0 cr :
  l_add_node_collection n coll s = (s', outs, r) ->
  l_collection_is_completed s = true -> l_coll s = Some (c0 :: cr) ->
  ahas n (l_n2p s) = true -> coll_eqb coll (c0 :: cr) = false -> l_n2c s <> [] ->
  (* not registered; nothing but the node table changes *)
  l_n2c s' = l_n2c s /\ l_coll s' = l_coll s /\ l_n2p s' = l_n2p s /\ l_pending s' = l_pending s /\
  (* the difference is only logged *)
  (exists first, first_key (l_n2c s) = Some first /\ In (OLogDiff first n) outs) /\
  (forall a b, ~ In (OCollDiff a b) outs) /\
  (* no work is sent to anybody; the only command possible is the shutdown of n *)
  (forall m c, In (OSend m c) outs -> m = n /\ c = CShutdown) /\
  (* the node is told to shut down, or already was *)
  (forall c, aget n (l_nt s) = Some c ->
     r = Ok tt /\ exists c', aget n (l_nt s') = Some c' /\ shutting_down c' = true) /\
  (forall c, aget n (l_nt s) = Some c -> shutting_down c = false -> n_closed c = false ->
     In (OSend n CShutdown) outs).
Proof.
  intros H Hd Hc Hh Hne Hn. destruct (l_n2c s) as [|[first fcol] rest] eqn:En; [contradiction|].
  rewrite (K5_load_late_disagree_eq n coll s c0 cr first fcol rest Hd Hc Hh Hne En) in H.
  apply (late_diff_result_spec l_nt l_set_nt) in H; [|reflexivity].
  destruct H as (tail & -> & Ht & Hs & Hf).
  assert (Hfr : l_n2c s' = l_n2c s /\ l_coll s' = l_coll s /\ l_n2p s' = l_n2p s /\
                l_pending s' = l_pending s).
  { destruct Hs as [->|(v & ->)]; auto. }
  destruct Hfr as (F1 & F2 & F3 & F4). rewrite <- En.
  split; [exact F1|]. split; [exact F2|]. split; [exact F3|]. split; [exact F4|].
  split; [exists first; rewrite En; split; [reflexivity | left; reflexivity]|].
  destruct (logdiff_tail_facts first n tail Ht) as (G1 & G2).
  split; [exact G1|]. split; [exact G2|]. exact Hf.
Qed.
Print Assumptions K5_load_late_disagree.

(* ... and when it agrees it is registered, silently *)
Theorem K5_load_late_agree n coll s c0 cr :
  l_collection_is_completed s = true -> l_coll s = Some (c0 :: cr) ->
  ahas n (l_n2p s) = true -> coll_eqb coll (c0 :: cr) = true ->
  exists s', l_add_node_collection n coll s = (s', [], Ok tt) /\
             aget n (l_n2c s') = Some coll /\ coll = c0 :: cr /\ l_coll s' = l_coll s /\
             l_nt s' = l_nt s.
Proof.
  intros Hd Hc Hh He. unfold l_add_node_collection.
  rewrite mbind_get. rewrite Hh. unfold massert. rewrite mbind_ret. rewrite Hd, Hc, He.
  eexists. split; [reflexivity|]. cbn [l_set_n2c l_n2c l_coll l_nt].
  split; [apply aget_aset_same|]. split; [apply K1_coll_eqb_eq; exact He | auto].
Qed.
Print Assumptions K5_load_late_agree.

(* (K8) load: a node that has not registered a collection is never sent tests *)
Theorem K8_load_check_unregistered n dur s s' outs r :
  l_check_schedule n dur s = (s', outs, r) -> ahas n (l_n2c s) = false ->
  (outs = [] \/ (outs = [OSend n CShutdown] /\ l_pending s = [])) /\
  (forall m ixs, ~ In (OSend m (CRun ixs)) outs) /\
  l_pending s' = l_pending s /\ l_n2p s' = l_n2p s.
Proof.
  intros H Hreg. unfold l_check_schedule in H.
  pose proof (node_shutting_down_eq l_nt n s) as Esd0.
  assert (G : forall o, (o = [] \/ o = [OSend n CShutdown] /\ l_pending s = []) ->
                        forall m ixs, ~ In (OSend m (CRun ixs)) o).
  { intros o [->|[-> _]] m ixs; [intros []|]. intros [F|[]]. discriminate. }
  destruct (aget n (l_nt s)) as [c|] eqn:Ent.
  2:{ rewrite (mbind_err _ _ _ _ _ _ Esd0) in H. inv H. auto. }
  rewrite (mbind_ok _ _ _ _ _ _ Esd0) in H. cbn [app] in H.
  destruct (shutting_down c) eqn:Esd.
  { unfold ret in H. cbn in H. inv H. auto. }
  rewrite mbind_get in H. destruct (l_pending s) as [|p0 pr] eqn:Ep.
  - rewrite (node_shutdown_eq l_nt l_set_nt) in H. rewrite Ent, Esd in H.
    cbn [fst snd] in H. inv H. cbn [l_pending l_n2p l_set_nt]. rewrite Ep.
    destruct (n_closed c); auto 6.
  - rewrite Hreg in H. cbn [negb] in H. unfold ret in H. cbn [fst snd] in H. inv H. auto.
Qed.
Print Assumptions K8_load_check_unregistered.

(* ====================================================================================== *)
(* WORKSTEAL                                                                              *)
(* ====================================================================================== *)

Lemma ws_same_collection_eq s first col others :
  ws_n2c s = (first, col) :: others ->
  ws_same_collection s = (s, diffs first col others, Ok (all_same col others)).
Proof.
  intros Hn. unfold ws_same_collection. rewrite mbind_get. rewrite Hn.
  erewrite mbind_ok by apply mfor_colldiff_eq. unfold ret. cbn [fst snd]. rewrite app_nil_r.
  reflexivity.
Qed.

Theorem K3_steal_schedule_disagree_eq s first col others :
  ws_coll s = None -> ws_collection_is_completed s = true ->
  ws_n2c s = (first, col) :: others -> all_same col others = false ->
  ws_schedule s = (s, diffs first col others, Ok tt).
Proof.
  intros Hc Hd Hn Hs. unfold ws_schedule. rewrite mbind_get. rewrite Hd. unfold massert.
  rewrite mbind_ret. rewrite Hc.
  erewrite mbind_ok by (apply ws_same_collection_eq; exact Hn).
  rewrite Hs. cbn [negb]. unfold ret. cbn [fst snd]. rewrite app_nil_r. reflexivity.
Qed.

Theorem K3_steal_initial_disagreement s s' outs r first col others :
  ws_schedule s = (s', outs, r) ->
  ws_coll s = None -> ws_collection_is_completed s = true ->
  ws_n2c s = (first, col) :: others ->
  forallb (fun p => coll_eqb col (snd p)) others = false ->
  r = Ok tt /\
  (forall n c, ~ In (OSend n c) outs) /\
  ws_coll s' = None /\
  (ws_pending s = [] -> ws_pending s' = []) /\
  s' = s /\
  outs = map (fun p => OCollDiff first (fst p))
             (filter (fun p => negb (coll_eqb col (snd p))) others) /\
  outs <> [].
Proof.
  intros H Hc Hd Hn Hs. rewrite (K3_steal_schedule_disagree_eq s first col others Hc Hd Hn Hs) in H.
  inv H. split; [reflexivity|]. split; [intros n c; apply diffs_no_send|].
  split; [exact Hc|]. split; [auto|]. split; [reflexivity|]. split; [reflexivity|].
  apply diffs_nonempty. exact Hs.
Qed.
Print Assumptions K3_steal_initial_disagreement.

Definition ws_core (t : wsstate) := (ws_coll t, ws_n2c t, ws_numnodes t).

Section StealFrame.
  Variable I : wsstate -> Prop.
  Variable Q : out -> Prop.
  Hypothesis I_core : forall t t', ws_core t' = ws_core t -> I t -> I t'.
  Hypothesis HQ : forall n c, Q (OSend n c).

  Ltac fin := try assumption; try (eapply I_core; [|eassumption]; reflexivity).

  Lemma sat_ws_send_tests n num : sat I Q (ws_send_tests n num).
  Proof. unfold ws_send_tests. hnodes. hoare; fin; apply HQ. Qed.

  Lemma sat_ws_node_shutdown n : sat I Q (node_shutdown ws_nt ws_set_nt n).
  Proof. hnodes. hoare; fin; apply HQ. Qed.

  Lemma sat_ws_distribute idle : sat I Q (ws_distribute idle).
  Proof.
    induction idle as [|n r IH]; cbn [ws_distribute]; [apply sat_ret|].
    hoare; [apply sat_ws_send_tests | exact IH].
  Qed.

  Lemma sat_ws_check_schedule : sat I Q ws_check_schedule.
  Proof.
    unfold ws_check_schedule.
    hoare; fin; try apply sat_ws_distribute; try apply sat_ws_node_shutdown.
    all: hnodes; hoare; fin; apply HQ.
  Qed.
End StealFrame.

Theorem K3'_steal_schedule_agree s s' outs r first col others :
  ws_schedule s = (s', outs, r) ->
  ws_coll s = None -> ws_collection_is_completed s = true ->
  ws_n2c s = (first, col) :: others ->
  forallb (fun p => coll_eqb col (snd p)) others = true ->
  ws_coll s' = Some col /\ ws_n2c s' = ws_n2c s /\ ws_numnodes s' = ws_numnodes s /\
  (forall a b, ~ In (OCollDiff a b) outs) /\
  Forall is_send outs.
Proof.
  intros H Hc Hd Hn Hs. unfold ws_schedule in H. rewrite mbind_get in H. rewrite Hd in H.
  unfold massert in H. rewrite mbind_ret in H. rewrite Hc in H.
  erewrite mbind_ok in H by (apply ws_same_collection_eq; exact Hn).
  fold (all_same col others) in Hs. rewrite Hs, (diffs_nil _ _ _ Hs) in H. cbn [negb app] in H.
  rewrite mbind_get in H. rewrite Hn in H. unfold of_opt in H. rewrite mbind_ret in H.
  rewrite mbind_put in H.
  match type of H with
  | (fst (fst (?m ?x)), _, _) = _ => destruct (m x) as [[s2 o2] r2] eqn:E
  end.
  cbn [fst snd] in H. inv H.
  apply (sat_elim (fun t => ws_core t = (Some col, ws_n2c s, ws_numnodes s)) is_send) in E.
  - destruct E as [E1 E2]. unfold ws_core in E1. inv E1.
    repeat split; try assumption; try reflexivity.
    intros a b Hin. rewrite Forall_forall in E2. destruct (E2 _ Hin) as (n & c & F). discriminate.
  - assert (HQ : forall n c, is_send (OSend n c)) by (intros n c; exists n, c; reflexivity).
    hoare. apply sat_ws_check_schedule; [intros; congruence | exact HQ].
  - reflexivity.
Qed.
Print Assumptions K3'_steal_schedule_agree.

Lemma K6_steal_late_disagree_eq n coll s c0 cr first fcol rest :
  ws_collection_is_completed s = true -> ws_coll s = Some (c0 :: cr) ->
  ahas n (ws_n2p s) = true -> coll_eqb coll (c0 :: cr) = false ->
  ws_n2c s = (first, fcol) :: rest ->
  ws_add_node_collection n coll s = late_diff_result ws_set_nt (ws_nt s) s first n.
Proof.
  intros Hd Hc Hh Hne Hn. unfold ws_add_node_collection, late_diff_result.
  rewrite mbind_get. rewrite Hh. unfold massert. rewrite mbind_ret. rewrite Hd, Hc, Hne, Hn.
  unfold first_key, of_opt. rewrite mbind_ret.
  erewrite mbind_ok by reflexivity.
  rewrite (node_shutdown_eq ws_nt ws_set_nt).
  destruct (aget n (ws_nt s)) as [c|]; [|reflexivity].
  destruct (shutting_down c); [reflexivity|]. destruct (n_closed c); reflexivity.
Qed.

Theorem K6_steal_late_disagree n coll s s' outs r c0 cr :
  ws_add_node_collection n coll s = (s', outs, r) ->
  ws_collection_is_completed s = true -> ws_coll s = Some (c0 :: cr) ->
  ahas n (ws_n2p s) = true -> coll_eqb coll (c0 :: cr) = false -> ws_n2c s <> [] ->
  ws_n2c s' = ws_n2c s /\ ws_coll s' = ws_coll s /\ ws_n2p s' = ws_n2p s /\
  ws_pending s' = ws_pending s /\ ws_steal s' = ws_steal s /\
  (exists first, first_key (ws_n2c s) = Some first /\ In (OLogDiff first n) outs) /\
  (forall a b, ~ In (OCollDiff a b) outs) /\
  (forall m c, In (OSend m c) outs -> m = n /\ c = CShutdown) /\
  (forall c, aget n (ws_nt s) = Some c ->
     r = Ok tt /\ exists c', aget n (ws_nt s') = Some c' /\ shutting_down c' = true) /\
  (forall c, aget n (ws_nt s) = Some c -> shutting_down c = false -> n_closed c = false ->
     In (OSend n CShutdown) outs).
Proof.
  intros H Hd Hc Hh Hne Hn. destruct (ws_n2c s) as [|[first fcol] rest] eqn:En; [contradiction|].
  rewrite (K6_steal_late_disagree_eq n coll s c0 cr first fcol rest Hd Hc Hh Hne En) in H.
  apply (late_diff_result_spec ws_nt ws_set_nt) in H; [|reflexivity].
  destruct H as (tail & -> & Ht & Hs & Hf).
  assert (Hfr : ws_n2c s' = ws_n2c s /\ ws_coll s' = ws_coll s /\ ws_n2p s' = ws_n2p s /\
                ws_pending s' = ws_pending s /\ ws_steal s' = ws_steal s).
  { destruct Hs as [->|(v & ->)]; auto 6. }
  destruct Hfr as (F1 & F2 & F3 & F4 & F5). rewrite <- En.
  split; [exact F1|]. split; [exact F2|]. split; [exact F3|]. split; [exact F4|]. split; [exact F5|].
  split; [exists first; rewrite En; split; [reflexivity | left; reflexivity]|].
  destruct (logdiff_tail_facts first n tail Ht) as (G1 & G2).
  split; [exact G1|]. split; [exact G2|]. exact Hf.
Qed.
Print Assumptions K6_steal_late_disagree.

Theorem K6_steal_late_agree n coll s c0 cr :
  ws_collection_is_completed s = true -> ws_coll s = Some (c0 :: cr) ->
  ahas n (ws_n2p s) = true -> coll_eqb coll (c0 :: cr) = true ->
  exists s', ws_add_node_collection n coll s = (s', [], Ok tt) /\
             aget n (ws_n2c s') = Some coll /\ coll = c0 :: cr /\ ws_coll s' = ws_coll s /\
             ws_nt s' = ws_nt s.
Proof.
  intros Hd Hc Hh He. unfold ws_add_node_collection.
  rewrite mbind_get. rewrite Hh. unfold massert. rewrite mbind_ret. rewrite Hd, Hc, He.
  eexists. split; [reflexivity|]. cbn [ws_set_n2c ws_n2c ws_coll ws_nt].
  split; [apply aget_aset_same|]. split; [apply K1_coll_eqb_eq; exact He | auto].
Qed.
Print Assumptions K6_steal_late_agree.

(* (K8) worksteal: whatever check_schedule sends, it sends to a node with a registered collection *)
Theorem K8_steal_check_registered s s' outs r n c :
  ws_check_schedule s = (s', outs, r) ->
  In (OSend n c) outs ->
  (c = CShutdown \/ exists x, c = CRun x \/ c = CSteal x) ->
  ahas n (ws_n2c s) = true.
Proof.
  intros H Hin _. destruct (StealProofs.W4_guard_flags _ _ _ _ _ _ H Hin) as (_ & f & _ & _ & Hr).
  exact Hr.
Qed.

Corollary K8_steal_check_unregistered s s' outs r n :
  ws_check_schedule s = (s', outs, r) -> ahas n (ws_n2c s) = false ->
  forall c, ~ In (OSend n c) outs.
Proof.
  intros H Hreg c Hin. destruct (StealProofs.W4_guard_flags _ _ _ _ _ _ H Hin) as (_ & f & _ & _ & Hr).
  congruence.
Qed.
Print Assumptions K8_steal_check_registered.
Print Assumptions K8_steal_check_unregistered.

(* ====================================================================================== *)
(* LOADSCOPE / LOADFILE / LOADGROUP                                                       *)
(* ====================================================================================== *)

Lemma sc_same_collection_eq s first col others :
  sc_reg s = (first, col) :: others ->
  sc_same_collection s = (s, diffs first col others, Ok (all_same col others)).
Proof.
  intros Hn. unfold sc_same_collection. rewrite mbind_get. rewrite Hn.
  erewrite mbind_ok by apply mfor_colldiff_eq. unfold ret. cbn [fst snd]. rewrite app_nil_r.
  reflexivity.
Qed.

Theorem K4_scope_schedule_disagree_eq s first col others :
  sc_coll s = None -> sc_collection_is_completed s = true ->
  sc_reg s = (first, col) :: others -> all_same col others = false ->
  sc_schedule s = (s, diffs first col others, Ok tt).
Proof.
  intros Hc Hd Hn Hs. unfold sc_schedule. rewrite mbind_get. rewrite Hd. unfold massert.
  rewrite mbind_ret. rewrite Hc.
  erewrite mbind_ok by (apply sc_same_collection_eq; exact Hn).
  rewrite Hs. cbn [negb]. unfold ret. cbn [fst snd]. rewrite app_nil_r. reflexivity.
Qed.

Theorem K4_scope_initial_disagreement s s' outs r first col others :
  sc_schedule s = (s', outs, r) ->
  sc_coll s = None -> sc_collection_is_completed s = true ->
  sc_reg s = (first, col) :: others ->
  forallb (fun p => coll_eqb col (snd p)) others = false ->
  r = Ok tt /\
  (forall n c, ~ In (OSend n c) outs) /\
  sc_coll s' = None /\
  (sc_wq s = [] -> sc_wq s' = []) /\
  s' = s /\
  outs = map (fun p => OCollDiff first (fst p))
             (filter (fun p => negb (coll_eqb col (snd p))) others) /\
  outs <> [].
Proof.
  intros H Hc Hd Hn Hs. rewrite (K4_scope_schedule_disagree_eq s first col others Hc Hd Hn Hs) in H.
  inv H. split; [reflexivity|]. split; [intros n c; apply diffs_no_send|].
  split; [exact Hc|]. split; [auto|]. split; [reflexivity|]. split; [reflexivity|].
  apply diffs_nonempty. exact Hs.
Qed.
Print Assumptions K4_scope_initial_disagreement.

Definition sc_core (t : scstate) := (sc_coll t, sc_reg t, sc_numnodes t).

Section ScopeFrame.
  Variable I : scstate -> Prop.
  Variable Q : out -> Prop.
  Hypothesis I_core : forall t t', sc_core t' = sc_core t -> I t -> I t'.
  Hypothesis HQ : forall n c, Q (OSend n c).

  Ltac fin := try assumption; try (eapply I_core; [|eassumption]; reflexivity).

  Lemma sat_sc_node_shutdown n : sat I Q (node_shutdown sc_nt sc_set_nt n).
  Proof. hnodes. hoare; fin; apply HQ. Qed.

  Lemma sat_sc_assign_work_unit n : sat I Q (sc_assign_work_unit n).
  Proof. unfold sc_assign_work_unit. hnodes. hoare; fin; apply HQ. Qed.

  Lemma sat_sc_top_up fuel n : sat I Q (sc_top_up fuel n).
  Proof.
    induction fuel as [|f IH]; cbn [sc_top_up]; [apply sat_ret|].
    hoare; try apply sat_sc_assign_work_unit; try exact IH.
  Qed.

  Lemma sat_sc_reschedule n : sat I Q (sc_reschedule n).
  Proof.
    unfold sc_reschedule.
    hoare; try apply sat_sc_node_shutdown; try apply sat_sc_assign_work_unit; try apply sat_sc_top_up.
    hnodes. hoare.
  Qed.

  Lemma sat_sc_pop_extra k : sat I Q (sc_pop_extra k).
  Proof.
    induction k as [|k IH]; cbn [sc_pop_extra]; [apply sat_ret|].
    hoare; fin; try apply sat_sc_node_shutdown; try exact IH.
  Qed.
End ScopeFrame.

Theorem K4'_scope_schedule_agree s s' outs r first col others :
  sc_schedule s = (s', outs, r) ->
  sc_coll s = None -> sc_collection_is_completed s = true ->
  sc_reg s = (first, col) :: others ->
  forallb (fun p => coll_eqb col (snd p)) others = true ->
  sc_coll s' = Some col /\ sc_reg s' = sc_reg s /\ sc_numnodes s' = sc_numnodes s /\
  (forall a b, ~ In (OCollDiff a b) outs) /\
  Forall is_send outs.
Proof.
  intros H Hc Hd Hn Hs. unfold sc_schedule in H. rewrite mbind_get in H. rewrite Hd in H.
  unfold massert in H. rewrite mbind_ret in H. rewrite Hc in H.
  erewrite mbind_ok in H by (apply sc_same_collection_eq; exact Hn).
  fold (all_same col others) in Hs. rewrite Hs, (diffs_nil _ _ _ Hs) in H. cbn [negb app] in H.
  rewrite mbind_get in H. rewrite Hn in H. unfold of_opt in H. rewrite mbind_ret in H.
  rewrite mbind_put in H.
  match type of H with
  | (fst (fst (?m ?x)), _, _) = _ => destruct (m x) as [[s2 o2] r2] eqn:E
  end.
  cbn [fst snd] in H. inv H.
  apply (sat_elim (fun t => sc_core t = (Some col, sc_reg s, sc_numnodes s)) is_send) in E.
  - destruct E as [E1 E2]. unfold sc_core in E1. inv E1.
    repeat split; try assumption; try reflexivity.
    intros a b Hin. rewrite Forall_forall in E2. destruct (E2 _ Hin) as (n & c & F). discriminate.
  - assert (HQ : forall n c, is_send (OSend n c)) by (intros n c; exists n, c; reflexivity).
    assert (HI : forall t t' : scstate, sc_core t' = sc_core t ->
                 sc_core t = (Some col, sc_reg s, sc_numnodes s) ->
                 sc_core t' = (Some col, sc_reg s, sc_numnodes s)) by (intros; congruence).
    hoare; try assumption;
      try (apply sat_sc_pop_extra; [exact HI | exact HQ]);
      try (apply sat_sc_assign_work_unit; [exact HI | exact HQ]);
      try (apply sat_sc_reschedule; [exact HI | exact HQ]);
      try (apply sat_sc_node_shutdown; [exact HI | exact HQ]).
  - reflexivity.
Qed.
Print Assumptions K4'_scope_schedule_agree.

Lemma K7_scope_late_disagree_eq n coll s c0 cr first fcol rest :
  sc_collection_is_completed s = true -> sc_coll s = Some (c0 :: cr) ->
  ahas n (sc_assigned s) = true -> coll_eqb coll (c0 :: cr) = false ->
  sc_reg s = (first, fcol) :: rest ->
  sc_add_node_collection n coll s = late_diff_result sc_set_nt (sc_nt s) s first n.
Proof.
  intros Hd Hc Hh Hne Hn. unfold sc_add_node_collection, late_diff_result.
  rewrite mbind_get. rewrite Hh. unfold massert. rewrite mbind_ret. rewrite Hd, Hc, Hne, Hn.
  unfold first_key, of_opt. rewrite mbind_ret.
  erewrite mbind_ok by reflexivity.
  rewrite (node_shutdown_eq sc_nt sc_set_nt).
  destruct (aget n (sc_nt s)) as [c|]; [|reflexivity].
  destruct (shutting_down c); [reflexivity|]. destruct (n_closed c); reflexivity.
Qed.

Theorem K7_scope_late_disagree n coll s s' outs r c0 cr :
  sc_add_node_collection n coll s = (s', outs, r) ->
  sc_collection_is_completed s = true -> sc_coll s = Some (c0 :: cr) ->
  ahas n (sc_assigned s) = true -> coll_eqb coll (c0 :: cr) = false -> sc_reg s <> [] ->
  sc_reg s' = sc_reg s /\ sc_coll s' = sc_coll s /\ sc_assigned s' = sc_assigned s /\
  sc_wq s' = sc_wq s /\
  (exists first, first_key (sc_reg s) = Some first /\ In (OLogDiff first n) outs) /\
  (forall a b, ~ In (OCollDiff a b) outs) /\
  (forall m c, In (OSend m c) outs -> m = n /\ c = CShutdown) /\
  (forall c, aget n (sc_nt s) = Some c ->
     r = Ok tt /\ exists c', aget n (sc_nt s') = Some c' /\ shutting_down c' = true) /\
  (forall c, aget n (sc_nt s) = Some c -> shutting_down c = false -> n_closed c = false ->
     In (OSend n CShutdown) outs).
Proof.
  intros H Hd Hc Hh Hne Hn. destruct (sc_reg s) as [|[first fcol] rest] eqn:En; [contradiction|].
  rewrite (K7_scope_late_disagree_eq n coll s c0 cr first fcol rest Hd Hc Hh Hne En) in H.
  apply (late_diff_result_spec sc_nt sc_set_nt) in H; [|reflexivity].
  destruct H as (tail & -> & Ht & Hs & Hf).
  assert (Hfr : sc_reg s' = sc_reg s /\ sc_coll s' = sc_coll s /\ sc_assigned s' = sc_assigned s /\
                sc_wq s' = sc_wq s).
  { destruct Hs as [->|(v & ->)]; auto 6. }
  destruct Hfr as (F1 & F2 & F3 & F4). rewrite <- En.
  split; [exact F1|]. split; [exact F2|]. split; [exact F3|]. split; [exact F4|].
  split; [exists first; rewrite En; split; [reflexivity | left; reflexivity]|].
  destruct (logdiff_tail_facts first n tail Ht) as (G1 & G2).
  split; [exact G1|]. split; [exact G2|]. exact Hf.
Qed.
Print Assumptions K7_scope_late_disagree.

Theorem K7_scope_late_agree n coll s c0 cr :
  sc_collection_is_completed s = true -> sc_coll s = Some (c0 :: cr) ->
  ahas n (sc_assigned s) = true -> coll_eqb coll (c0 :: cr) = true ->
  exists s', sc_add_node_collection n coll s = (s', [], Ok tt) /\
             aget n (sc_reg s') = Some coll /\ coll = c0 :: cr /\ sc_coll s' = sc_coll s /\
             sc_nt s' = sc_nt s.
Proof.
  intros Hd Hc Hh He. unfold sc_add_node_collection.
  rewrite mbind_get. rewrite Hh. unfold massert. rewrite mbind_ret. rewrite Hd, Hc, He.
  eexists. split; [reflexivity|]. cbn [sc_set_reg sc_reg sc_coll sc_nt].
  split; [apply aget_aset_same|]. split; [apply K1_coll_eqb_eq; exact He | auto].
Qed.
Print Assumptions K7_scope_late_agree.

(* (K8) loadscope: a node without a registered collection is sent no work by _reschedule *)
Theorem K8_scope_reschedule_unregistered n s s' outs r :
  sc_reschedule n s = (s', outs, r) -> ahas n (sc_reg s) = false ->
  (outs = [] \/ outs = [OSend n CShutdown]) /\
  (forall m ixs, ~ In (OSend m (CRun ixs)) outs) /\
  (forall m ixs, ~ In (OSend m (CSteal ixs)) outs).
Proof.
  intros H Hreg.
  pose proof (ScopeProofs.reschedule_unregistered_only_shutdown n s s' outs r Hreg H) as G.
  split; [exact G|].
  destruct G as [->| ->]; split; intros m ixs Hin; try (destruct Hin; fail);
    destruct Hin as [F|[]]; discriminate.
Qed.
Print Assumptions K8_scope_reschedule_unregistered.

(* ====================================================================================== *)
(* (K9) INVARIANT: once the reference collection is fixed, collection is completed and    *)
(*      every registered collection equals the reference                                  *)
(* ====================================================================================== *)

(* ---- load ---- *)
Definition l_agree (s : lstate) : Prop :=
  forall ref, l_coll s = Some ref ->
    l_collection_is_completed s = true /\ forall n c, In (n, c) (l_n2c s) -> c = ref.

(* the form used by dispatch: looking a node up gives the reference collection *)
Theorem l_agree_aget s ref n c :
  l_agree s -> l_coll s = Some ref -> aget n (l_n2c s) = Some c -> c = ref.
Proof. intros H Hc Hg. destruct (H ref Hc) as [_ H2]. eapply H2. apply aget_In. exact Hg. Qed.

(* the invariant in lookup form *)
Definition agree (s : lstate) : Prop :=
  forall coll, l_coll s = Some coll -> forall n c, aget n (l_n2c s) = Some c -> c = coll.

Corollary l_agree_agree s : l_agree s -> agree s.
Proof. intros H coll Hc n c Hg. eapply l_agree_aget; eauto. Qed.

Lemma l_agree_core t t' : l_core t' = l_core t -> l_agree t -> l_agree t'.
Proof.
  unfold l_core, l_agree, l_collection_is_completed. intros E H. inv E.
  rewrite H1, H2, H3. exact H.
Qed.

Theorem l_agree_init nt numnodes chunk : l_agree (l_init nt numnodes chunk).
Proof. intros ref H. discriminate. Qed.

Ltac lfin := try assumption; try (eapply l_agree_core; [|eassumption]; reflexivity).

Lemma sat_agree_l_check_schedule n dur : sat l_agree (fun _ => True) (l_check_schedule n dur).
Proof. apply sat_l_check_schedule; auto. exact l_agree_core. Qed.

Theorem l_agree_add_node n s s' o r :
  l_add_node n s = (s', o, r) -> l_agree s -> l_agree s'.
Proof.
  intros H Hi. apply (sat_elim l_agree (fun _ => True)) in H; [tauto| |exact Hi].
  unfold l_add_node. hoare; lfin.
Qed.

(* registering a collection: before completion nothing is fixed yet; after completion only a
   collection equal to the reference (K1) is registered *)
Theorem l_agree_add_node_collection n coll s s' o r :
  l_add_node_collection n coll s = (s', o, r) -> l_agree s -> l_agree s'.
Proof.
  intros H Hi. apply (sat_elim l_agree (fun _ => True)) in H; [tauto| |exact Hi].
  unfold l_add_node_collection. hoare; try exact I;
    try (apply sat_l_node_shutdown; [exact l_agree_core | exact I]).
  - (* late, equal *)
    intros ref Hr. cbn [l_coll l_set_n2c] in Hr.
    match goal with Ha : l_agree ?a |- _ => destruct (Ha ref Hr) as [Hd Hall] end.
    match goal with Hc : l_coll _ = Some (?c0 :: ?cr) |- _ =>
      assert (ref = c0 :: cr) by congruence end. subst ref.
    split.
    + unfold l_collection_is_completed in *. cbn [l_numnodes l_n2c l_set_n2c].
      apply Nat.leb_le in Hd. apply Nat.leb_le.
      match goal with |- _ <= length (aset n coll ?m) => pose proof (length_aset_ge n coll m) end. lia.
    + cbn [l_n2c l_set_n2c]. intros m c Hin. apply In_aset in Hin. destruct Hin as [Hin|Hin].
      * eapply Hall. exact Hin.
      * cbn in Hin. subst c. apply K1_coll_eqb_eq. assumption.
  - (* before completion: the reference cannot be fixed yet *)
    intros ref Hr. cbn [l_coll l_set_n2c] in Hr.
    match goal with Ha : l_agree ?a |- _ => destruct (Ha ref Hr) as [Hd _] end. congruence.
Qed.

Theorem l_agree_check_schedule n dur s s' o r :
  l_check_schedule n dur s = (s', o, r) -> l_agree s -> l_agree s'.
Proof.
  intros H Hi. apply (sat_elim l_agree (fun _ => True)) in H; [tauto| |exact Hi].
  apply sat_agree_l_check_schedule.
Qed.

Theorem l_agree_mark_test_complete n idx dur s s' o r :
  l_mark_test_complete n idx dur s = (s', o, r) -> l_agree s -> l_agree s'.
Proof.
  intros H Hi. apply (sat_elim l_agree (fun _ => True)) in H; [tauto| |exact Hi].
  unfold l_mark_test_complete. hoare; lfin. apply sat_agree_l_check_schedule.
Qed.

Theorem l_agree_mark_test_pending item s s' o r :
  l_mark_test_pending item s = (s', o, r) -> l_agree s -> l_agree s'.
Proof.
  intros H Hi. apply (sat_elim l_agree (fun _ => True)) in H; [tauto| |exact Hi].
  unfold l_mark_test_pending. hoare; lfin. apply sat_agree_l_check_schedule.
Qed.

Theorem l_agree_remove_node n s s' o r :
  l_remove_node n s = (s', o, r) -> l_agree s -> l_agree s'.
Proof.
  intros H Hi. apply (sat_elim l_agree (fun _ => True)) in H; [tauto| |exact Hi].
  unfold l_remove_node. hoare; lfin; try apply sat_agree_l_check_schedule.
  (* forgetting a collection happens only before completion, when no reference is fixed *)
  intros ref Hr. cbn [l_coll l_set_n2c] in Hr.
  match goal with Ha : l_agree ?a, Hc : l_collection_is_completed ?a = false |- _ =>
    destruct (Ha ref Hr) as [Hd _]; congruence end.
Qed.

Lemma l_same_collection_nil s : l_n2c s = [] -> l_same_collection s = (s, [], Err EIndex).
Proof. intros Hn. unfold l_same_collection. rewrite mbind_get. rewrite Hn. reflexivity. Qed.

(* schedule(): the initial branch ESTABLISHES the invariant when all collections are equal
   (K2'), changes nothing when they differ (K2), and the rescheduling branch keeps it *)
Theorem l_agree_schedule s s' o r :
  l_schedule s = (s', o, r) -> l_agree s -> l_agree s'.
Proof.
  intros H Hi.
  destruct (l_collection_is_completed s) eqn:Hd.
  2:{ unfold l_schedule in H. rewrite mbind_get, Hd in H. unfold massert in H.
      rewrite mbind_raise in H. inv H. exact Hi. }
  destruct (l_coll s) as [ref|] eqn:Ec.
  - unfold l_schedule in H. rewrite mbind_get, Hd in H. unfold massert in H.
    rewrite mbind_ret, Ec in H.
    apply (sat_elim l_agree (fun _ => True)) in H; [tauto| |exact Hi].
    apply sat_mfor. intros m. apply sat_agree_l_check_schedule.
  - destruct (l_n2c s) as [|[first col] others] eqn:En.
    + unfold l_schedule in H. rewrite mbind_get, Hd in H. unfold massert in H.
      rewrite mbind_ret, Ec in H.
      rewrite (mbind_err _ _ _ _ _ _ (l_same_collection_nil s En)) in H. inv H. exact Hi.
    + destruct (all_same col others) eqn:Es.
      * destruct (K2'_load_schedule_agree _ _ _ _ _ _ _ H Ec Hd En Es) as (A & B & C & _).
        intros ref Hr. rewrite A in Hr. inv Hr. split.
        -- unfold l_collection_is_completed in *. rewrite B, C. exact Hd.
        -- rewrite B, En. intros n c [E|Hin]; [inv E; reflexivity|].
           eapply all_same_spec; eauto.
      * rewrite (K2_load_schedule_disagree_eq s first col others Ec Hd En Es) in H. inv H. exact Hi.
Qed.
Print Assumptions l_agree_add_node_collection.
Print Assumptions l_agree_remove_node.
Print Assumptions l_agree_mark_test_pending.
Print Assumptions l_agree_schedule.

(* ---- worksteal ---- *)
Definition ws_agree (s : wsstate) : Prop :=
  forall ref, ws_coll s = Some ref ->
    ws_collection_is_completed s = true /\ forall n c, In (n, c) (ws_n2c s) -> c = ref.

Theorem ws_agree_aget s ref n c :
  ws_agree s -> ws_coll s = Some ref -> aget n (ws_n2c s) = Some c -> c = ref.
Proof. intros H Hc Hg. destruct (H ref Hc) as [_ H2]. eapply H2. apply aget_In. exact Hg. Qed.

Lemma ws_agree_core t t' : ws_core t' = ws_core t -> ws_agree t -> ws_agree t'.
Proof.
  unfold ws_core, ws_agree, ws_collection_is_completed. intros E H. inv E.
  rewrite H1, H2, H3. exact H.
Qed.

Theorem ws_agree_init nt numnodes : ws_agree (ws_init nt numnodes).
Proof. intros ref H. discriminate. Qed.

Ltac wfin := try assumption; try (eapply ws_agree_core; [|eassumption]; reflexivity).

Lemma sat_agree_ws_check_schedule : sat ws_agree (fun _ => True) ws_check_schedule.
Proof. apply sat_ws_check_schedule; auto. exact ws_agree_core. Qed.

Theorem ws_agree_check_schedule s s' o r :
  ws_check_schedule s = (s', o, r) -> ws_agree s -> ws_agree s'.
Proof.
  intros H Hi. apply (sat_elim ws_agree (fun _ => True)) in H; [tauto| |exact Hi].
  apply sat_agree_ws_check_schedule.
Qed.

Theorem ws_agree_add_node n s s' o r :
  ws_add_node n s = (s', o, r) -> ws_agree s -> ws_agree s'.
Proof.
  intros H Hi. apply (sat_elim ws_agree (fun _ => True)) in H; [tauto| |exact Hi].
  unfold ws_add_node. hoare; wfin.
Qed.

Theorem ws_agree_add_node_collection n coll s s' o r :
  ws_add_node_collection n coll s = (s', o, r) -> ws_agree s -> ws_agree s'.
Proof.
  intros H Hi. apply (sat_elim ws_agree (fun _ => True)) in H; [tauto| |exact Hi].
  unfold ws_add_node_collection. hoare; try exact I;
    try (apply sat_ws_node_shutdown; [exact ws_agree_core | auto]).
  - intros ref Hr. cbn [ws_coll ws_set_n2c] in Hr.
    match goal with Ha : ws_agree ?a |- _ => destruct (Ha ref Hr) as [Hd Hall] end.
    match goal with Hc : ws_coll _ = Some (?c0 :: ?cr) |- _ =>
      assert (ref = c0 :: cr) by congruence end. subst ref.
    split.
    + unfold ws_collection_is_completed in *. cbn [ws_numnodes ws_n2c ws_set_n2c].
      apply Nat.leb_le in Hd. apply Nat.leb_le.
      match goal with |- _ <= length (aset n coll ?m) => pose proof (length_aset_ge n coll m) end. lia.
    + cbn [ws_n2c ws_set_n2c]. intros m c Hin. apply In_aset in Hin. destruct Hin as [Hin|Hin].
      * eapply Hall. exact Hin.
      * cbn in Hin. subst c. apply K1_coll_eqb_eq. assumption.
  - intros ref Hr. cbn [ws_coll ws_set_n2c] in Hr.
    match goal with Ha : ws_agree ?a |- _ => destruct (Ha ref Hr) as [Hd _] end. congruence.
Qed.

Theorem ws_agree_mark_test_complete n idx s s' o r :
  ws_mark_test_complete n idx s = (s', o, r) -> ws_agree s -> ws_agree s'.
Proof.
  intros H Hi. apply (sat_elim ws_agree (fun _ => True)) in H; [tauto| |exact Hi].
  unfold ws_mark_test_complete. hoare; wfin. apply sat_agree_ws_check_schedule.
Qed.

Theorem ws_agree_mark_test_pending item s s' o r :
  ws_mark_test_pending item s = (s', o, r) -> ws_agree s -> ws_agree s'.
Proof.
  intros H Hi. apply (sat_elim ws_agree (fun _ => True)) in H; [tauto| |exact Hi].
  unfold ws_mark_test_pending. hoare; wfin. apply sat_agree_ws_check_schedule.
Qed.

Theorem ws_agree_remove_pending n ixs s s' o r :
  ws_remove_pending_tests_from_node n ixs s = (s', o, r) -> ws_agree s -> ws_agree s'.
Proof.
  intros H Hi. apply (sat_elim ws_agree (fun _ => True)) in H; [tauto| |exact Hi].
  unfold ws_remove_pending_tests_from_node. hoare; wfin. apply sat_agree_ws_check_schedule.
Qed.

Theorem ws_agree_remove_node n s s' o r :
  ws_remove_node n s = (s', o, r) -> ws_agree s -> ws_agree s'.
Proof.
  intros H Hi. apply (sat_elim ws_agree (fun _ => True)) in H; [tauto| |exact Hi].
  unfold ws_remove_node. hoare; wfin; try apply sat_agree_ws_check_schedule.
  intros ref Hr. cbn [ws_coll ws_set_n2c] in Hr.
  match goal with Ha : ws_agree ?a, Hc : ws_collection_is_completed ?a = false |- _ =>
    destruct (Ha ref Hr) as [Hd _]; congruence end.
Qed.

Lemma ws_same_collection_nil s : ws_n2c s = [] -> ws_same_collection s = (s, [], Err EIndex).
Proof. intros Hn. unfold ws_same_collection. rewrite mbind_get. rewrite Hn. reflexivity. Qed.

Theorem ws_agree_schedule s s' o r :
  ws_schedule s = (s', o, r) -> ws_agree s -> ws_agree s'.
Proof.
  intros H Hi.
  destruct (ws_collection_is_completed s) eqn:Hd.
  2:{ unfold ws_schedule in H. rewrite mbind_get, Hd in H. unfold massert in H.
      rewrite mbind_raise in H. inv H. exact Hi. }
  destruct (ws_coll s) as [ref|] eqn:Ec.
  - unfold ws_schedule in H. rewrite mbind_get, Hd in H. unfold massert in H.
    rewrite mbind_ret, Ec in H.
    apply (sat_elim ws_agree (fun _ => True)) in H; [tauto| |exact Hi].
    apply sat_agree_ws_check_schedule.
  - destruct (ws_n2c s) as [|[first col] others] eqn:En.
    + unfold ws_schedule in H. rewrite mbind_get, Hd in H. unfold massert in H.
      rewrite mbind_ret, Ec in H.
      rewrite (mbind_err _ _ _ _ _ _ (ws_same_collection_nil s En)) in H. inv H. exact Hi.
    + destruct (all_same col others) eqn:Es.
      * destruct (K3'_steal_schedule_agree _ _ _ _ _ _ _ H Ec Hd En Es) as (A & B & C & _).
        intros ref Hr. rewrite A in Hr. inv Hr. split.
        -- unfold ws_collection_is_completed in *. rewrite B, C. exact Hd.
        -- rewrite B, En. intros n c [E|Hin]; [inv E; reflexivity|].
           eapply all_same_spec; eauto.
      * rewrite (K3_steal_schedule_disagree_eq s first col others Ec Hd En Es) in H. inv H. exact Hi.
Qed.
Print Assumptions ws_agree_add_node_collection.
Print Assumptions ws_agree_remove_node.
Print Assumptions ws_agree_remove_pending.
Print Assumptions ws_agree_schedule.

(* ---- loadscope family ---- *)
Definition sc_agree (s : scstate) : Prop :=
  forall ref, sc_coll s = Some ref ->
    sc_collection_is_completed s = true /\ forall n c, In (n, c) (sc_reg s) -> c = ref.

Theorem sc_agree_aget s ref n c :
  sc_agree s -> sc_coll s = Some ref -> aget n (sc_reg s) = Some c -> c = ref.
Proof. intros H Hc Hg. destruct (H ref Hc) as [_ H2]. eapply H2. apply aget_In. exact Hg. Qed.

Lemma sc_agree_core t t' : sc_core t' = sc_core t -> sc_agree t -> sc_agree t'.
Proof.
  unfold sc_core, sc_agree, sc_collection_is_completed. intros E H. inv E.
  rewrite H1, H2, H3. exact H.
Qed.

Theorem sc_agree_init nt k numnodes : sc_agree (sc_init nt k numnodes).
Proof. intros ref H. discriminate. Qed.

Ltac sfin := try assumption; try (eapply sc_agree_core; [|eassumption]; reflexivity).

Lemma sat_agree_sc_reschedule n : sat sc_agree (fun _ => True) (sc_reschedule n).
Proof. apply sat_sc_reschedule; auto. exact sc_agree_core. Qed.

Theorem sc_agree_reschedule n s s' o r :
  sc_reschedule n s = (s', o, r) -> sc_agree s -> sc_agree s'.
Proof.
  intros H Hi. apply (sat_elim sc_agree (fun _ => True)) in H; [tauto| |exact Hi].
  apply sat_agree_sc_reschedule.
Qed.

Theorem sc_agree_add_node n s s' o r :
  sc_add_node n s = (s', o, r) -> sc_agree s -> sc_agree s'.
Proof.
  intros H Hi. apply (sat_elim sc_agree (fun _ => True)) in H; [tauto| |exact Hi].
  unfold sc_add_node. hoare; sfin.
Qed.

Theorem sc_agree_add_node_collection n coll s s' o r :
  sc_add_node_collection n coll s = (s', o, r) -> sc_agree s -> sc_agree s'.
Proof.
  intros H Hi. apply (sat_elim sc_agree (fun _ => True)) in H; [tauto| |exact Hi].
  unfold sc_add_node_collection. hoare; try exact I;
    try (apply sat_sc_node_shutdown; [exact sc_agree_core | auto]).
  - intros ref Hr. cbn [sc_coll sc_set_reg] in Hr.
    match goal with Ha : sc_agree ?a |- _ => destruct (Ha ref Hr) as [Hd Hall] end.
    match goal with Hc : sc_coll _ = Some (?c0 :: ?cr) |- _ =>
      assert (ref = c0 :: cr) by congruence end. subst ref.
    split.
    + unfold sc_collection_is_completed in *. cbn [sc_numnodes sc_reg sc_set_reg].
      apply Nat.leb_le in Hd. apply Nat.leb_le.
      match goal with |- _ <= length (aset n coll ?m) => pose proof (length_aset_ge n coll m) end. lia.
    + cbn [sc_reg sc_set_reg]. intros m c Hin. apply In_aset in Hin. destruct Hin as [Hin|Hin].
      * eapply Hall. exact Hin.
      * cbn in Hin. subst c. apply K1_coll_eqb_eq. assumption.
  - intros ref Hr. cbn [sc_coll sc_set_reg] in Hr.
    match goal with Ha : sc_agree ?a |- _ => destruct (Ha ref Hr) as [Hd _] end. congruence.
Qed.

Theorem sc_agree_mark_test_complete n idx s s' o r :
  sc_mark_test_complete n idx s = (s', o, r) -> sc_agree s -> sc_agree s'.
Proof.
  intros H Hi. apply (sat_elim sc_agree (fun _ => True)) in H; [tauto| |exact Hi].
  unfold sc_mark_test_complete. hoare; sfin. apply sat_agree_sc_reschedule.
Qed.

Theorem sc_agree_remove_node n s s' o r :
  sc_remove_node n s = (s', o, r) -> sc_agree s -> sc_agree s'.
Proof.
  intros H Hi. apply (sat_elim sc_agree (fun _ => True)) in H; [tauto| |exact Hi].
  unfold sc_remove_node. hoare; sfin; try apply sat_agree_sc_reschedule.
  intros ref Hr. cbn [sc_coll sc_set_reg] in Hr.
  match goal with Ha : sc_agree ?a, Hc : sc_collection_is_completed ?a = false |- _ =>
    destruct (Ha ref Hr) as [Hd _]; congruence end.
Qed.

Lemma sc_same_collection_nil s : sc_reg s = [] -> sc_same_collection s = (s, [], Err EIndex).
Proof. intros Hn. unfold sc_same_collection. rewrite mbind_get. rewrite Hn. reflexivity. Qed.

Theorem sc_agree_schedule s s' o r :
  sc_schedule s = (s', o, r) -> sc_agree s -> sc_agree s'.
Proof.
  intros H Hi.
  destruct (sc_collection_is_completed s) eqn:Hd.
  2:{ unfold sc_schedule in H. rewrite mbind_get, Hd in H. unfold massert in H.
      rewrite mbind_raise in H. inv H. exact Hi. }
  destruct (sc_coll s) as [ref|] eqn:Ec.
  - unfold sc_schedule in H. rewrite mbind_get, Hd in H. unfold massert in H.
    rewrite mbind_ret, Ec in H.
    apply (sat_elim sc_agree (fun _ => True)) in H; [tauto| |exact Hi].
    apply sat_mfor. intros m. apply sat_agree_sc_reschedule.
  - destruct (sc_reg s) as [|[first col] others] eqn:En.
    + unfold sc_schedule in H. rewrite mbind_get, Hd in H. unfold massert in H.
      rewrite mbind_ret, Ec in H.
      rewrite (mbind_err _ _ _ _ _ _ (sc_same_collection_nil s En)) in H. inv H. exact Hi.
    + destruct (all_same col others) eqn:Es.
      * destruct (K4'_scope_schedule_agree _ _ _ _ _ _ _ H Ec Hd En Es) as (A & B & C & _).
        intros ref Hr. rewrite A in Hr. inv Hr. split.
        -- unfold sc_collection_is_completed in *. rewrite B, C. exact Hd.
        -- rewrite B, En. intros n c [E|Hin]; [inv E; reflexivity|].
           eapply all_same_spec; eauto.
      * rewrite (K4_scope_schedule_disagree_eq s first col others Ec Hd En Es) in H. inv H. exact Hi.
Qed.
Print Assumptions sc_agree_add_node_collection.
Print Assumptions sc_agree_remove_node.
Print Assumptions sc_agree_schedule.

(* ---- the invariant holds in every state reachable through the schedulers' entry points ---- *)
Definition st {S A} (x : S * list out * result A) : S := fst (fst x).

Inductive l_op :=
| LAddNode (n : nat) | LAddColl (n : nat) (coll : list string) | LComplete (n idx : nat) (dur : Z)
| LPending (item : string) | LRemove (n : nat) | LSchedule | LCheck (n : nat) (dur : Z).
Definition l_step (s : lstate) (op : l_op) : lstate :=
  match op with
  | LAddNode n => st (l_add_node n s)
  | LAddColl n coll => st (l_add_node_collection n coll s)
  | LComplete n idx dur => st (l_mark_test_complete n idx dur s)
  | LPending item => st (l_mark_test_pending item s)
  | LRemove n => st (l_remove_node n s)
  | LSchedule => st (l_schedule s)
  | LCheck n dur => st (l_check_schedule n dur s)
  end.

Lemma l_agree_step s op : l_agree s -> l_agree (l_step s op).
Proof.
  intros Hi. destruct op; cbn [l_step]; unfold st;
    match goal with |- l_agree (fst (fst ?x)) => destruct x as [[s' o] r] eqn:E end; cbn [fst].
  - eapply l_agree_add_node; eauto.
  - eapply l_agree_add_node_collection; eauto.
  - eapply l_agree_mark_test_complete; eauto.
  - eapply l_agree_mark_test_pending; eauto.
  - eapply l_agree_remove_node; eauto.
  - eapply l_agree_schedule; eauto.
  - eapply l_agree_check_schedule; eauto.
Qed.

Theorem K9_load_reachable nt numnodes chunk ops :
  l_agree (fold_left l_step ops (l_init nt numnodes chunk)).
Proof.
  assert (G : forall s, l_agree s -> l_agree (fold_left l_step ops s)).
  { induction ops as [|op ops IH]; intros s Hs; [exact Hs|]. cbn [fold_left].
    apply IH. apply l_agree_step. exact Hs. }
  apply G. apply l_agree_init.
Qed.
Corollary K9_load_reachable_agree nt numnodes chunk ops :
  agree (fold_left l_step ops (l_init nt numnodes chunk)).
Proof. apply l_agree_agree. apply K9_load_reachable. Qed.
Print Assumptions K9_load_reachable.

Inductive ws_op :=
| WAddNode (n : nat) | WAddColl (n : nat) (coll : list string) | WComplete (n idx : nat)
| WPending (item : string) | WUnscheduled (n : nat) (ixs : list nat) | WRemove (n : nat)
| WSchedule | WCheck.
Definition ws_step (s : wsstate) (op : ws_op) : wsstate :=
  match op with
  | WAddNode n => st (ws_add_node n s)
  | WAddColl n coll => st (ws_add_node_collection n coll s)
  | WComplete n idx => st (ws_mark_test_complete n idx s)
  | WPending item => st (ws_mark_test_pending item s)
  | WUnscheduled n ixs => st (ws_remove_pending_tests_from_node n ixs s)
  | WRemove n => st (ws_remove_node n s)
  | WSchedule => st (ws_schedule s)
  | WCheck => st (ws_check_schedule s)
  end.

Lemma ws_agree_step s op : ws_agree s -> ws_agree (ws_step s op).
Proof.
  intros Hi. destruct op; cbn [ws_step]; unfold st;
    match goal with |- ws_agree (fst (fst ?x)) => destruct x as [[s' o] r] eqn:E end; cbn [fst].
  - eapply ws_agree_add_node; eauto.
  - eapply ws_agree_add_node_collection; eauto.
  - eapply ws_agree_mark_test_complete; eauto.
  - eapply ws_agree_mark_test_pending; eauto.
  - eapply ws_agree_remove_pending; eauto.
  - eapply ws_agree_remove_node; eauto.
  - eapply ws_agree_schedule; eauto.
  - eapply ws_agree_check_schedule; eauto.
Qed.

Theorem K9_steal_reachable nt numnodes ops :
  ws_agree (fold_left ws_step ops (ws_init nt numnodes)).
Proof.
  assert (G : forall s, ws_agree s -> ws_agree (fold_left ws_step ops s)).
  { induction ops as [|op ops IH]; intros s Hs; [exact Hs|]. cbn [fold_left].
    apply IH. apply ws_agree_step. exact Hs. }
  apply G. apply ws_agree_init.
Qed.
Print Assumptions K9_steal_reachable.

Inductive sc_op :=
| CAddNode (n : nat) | CAddColl (n : nat) (coll : list string) | CComplete (n idx : nat)
| CRemove (n : nat) | CSchedule | CReschedule (n : nat).
Definition sc_step (s : scstate) (op : sc_op) : scstate :=
  match op with
  | CAddNode n => st (sc_add_node n s)
  | CAddColl n coll => st (sc_add_node_collection n coll s)
  | CComplete n idx => st (sc_mark_test_complete n idx s)
  | CRemove n => st (sc_remove_node n s)
  | CSchedule => st (sc_schedule s)
  | CReschedule n => st (sc_reschedule n s)
  end.

Lemma sc_agree_step s op : sc_agree s -> sc_agree (sc_step s op).
Proof.
  intros Hi. destruct op; cbn [sc_step]; unfold st;
    match goal with |- sc_agree (fst (fst ?x)) => destruct x as [[s' o] r] eqn:E end; cbn [fst].
  - eapply sc_agree_add_node; eauto.
  - eapply sc_agree_add_node_collection; eauto.
  - eapply sc_agree_mark_test_complete; eauto.
  - eapply sc_agree_remove_node; eauto.
  - eapply sc_agree_schedule; eauto.
  - eapply sc_agree_reschedule; eauto.
Qed.

Theorem K9_scope_reachable nt k numnodes ops :
  sc_agree (fold_left sc_step ops (sc_init nt k numnodes)).
Proof.
  assert (G : forall s, sc_agree s -> sc_agree (fold_left sc_step ops s)).
  { induction ops as [|op ops IH]; intros s Hs; [exact Hs|]. cbn [fold_left].
    apply IH. apply sc_agree_step. exact Hs. }
  apply G. apply sc_agree_init.
Qed.
Print Assumptions K9_scope_reachable.

(* ---- position safety: K8 + K9.  Whoever is sent test positions by a rescheduling entry point
        has registered exactly the reference collection, so position i means the same test ---- *)
Lemma ahas_aget {V} n (m : amap V) : ahas n m = true -> exists c, aget n m = Some c.
Proof. unfold ahas. destruct (aget n m) as [c|]; [eauto | discriminate]. Qed.

Theorem K11_load_positions_mean_the_same n dur s s' outs r ref ixs :
  l_check_schedule n dur s = (s', outs, r) -> l_agree s -> l_coll s = Some ref ->
  In (OSend n (CRun ixs)) outs -> aget n (l_n2c s) = Some ref.
Proof.
  intros H Hi Hc Hin. destruct (ahas n (l_n2c s)) eqn:Er.
  - destruct (ahas_aget _ _ Er) as (c & Ec). rewrite Ec. f_equal. eapply l_agree_aget; eauto.
  - destruct (K8_load_check_unregistered _ _ _ _ _ _ H Er) as (_ & G & _). destruct (G _ _ Hin).
Qed.

Theorem K11_steal_positions_mean_the_same s s' outs r ref n c :
  ws_check_schedule s = (s', outs, r) -> ws_agree s -> ws_coll s = Some ref ->
  In (OSend n c) outs -> aget n (ws_n2c s) = Some ref.
Proof.
  intros H Hi Hc Hin. destruct (ahas n (ws_n2c s)) eqn:Er.
  - destruct (ahas_aget _ _ Er) as (c1 & Ec). rewrite Ec. f_equal. eapply ws_agree_aget; eauto.
  - destruct (K8_steal_check_unregistered _ _ _ _ _ H Er _ Hin).
Qed.

Theorem K11_scope_positions_mean_the_same n s s' outs r ref m ixs :
  sc_reschedule n s = (s', outs, r) -> sc_agree s -> sc_coll s = Some ref ->
  In (OSend m (CRun ixs)) outs -> aget n (sc_reg s) = Some ref.
Proof.
  intros H Hi Hc Hin. destruct (ahas n (sc_reg s)) eqn:Er.
  - destruct (ahas_aget _ _ Er) as (c1 & Ec). rewrite Ec. f_equal. eapply sc_agree_aget; eauto.
  - destruct (K8_scope_reschedule_unregistered _ _ _ _ _ H Er) as (_ & G & _). destruct (G _ _ Hin).
Qed.
Print Assumptions K11_load_positions_mean_the_same.
Print Assumptions K11_steal_positions_mean_the_same.
Print Assumptions K11_scope_positions_mean_the_same.

(* ====================================================================================== *)
(* (K10) EACH: a replacement whose collection differs from the dead node's inherits nothing *)
(* ====================================================================================== *)

(* re-export of EachProofs.add_node_collection_diff (dead node at the head of _removed2pending) *)
Corollary K10_each_late_disagree_head n s coll d pend tl x dcoll c s' outs r :
  e_add_node_collection n coll s = (s', outs, r) ->
  e_completed s = true -> aget n (e_n2p s) = Some [] ->
  e_removed s = (d, pend) :: tl ->
  spec_of s d = Some x -> spec_of s n = Some x ->
  aget d (e_n2c s) = Some dcoll -> coll_eqb coll dcoll = false ->
  aget n (e_nt s) = Some c ->
  r = Ok tt /\
  (forall m ixs, ~ In (OSend m (CRun ixs)) outs) /\ (forall m, ~ In (OSend m CRunAll) outs) /\
  In (OLogDiff d n) outs /\
  e_n2p s' = e_n2p s /\ e_n2c s' = e_n2c s /\ e_removed s' = e_removed s /\
  (shutting_down c = false -> exists c', aget n (e_nt s') = Some c' /\ shutting_down c' = true).
Proof.
  intros H Hc Hp Hr Hsd Hsn Hdc Hne Hnt.
  destruct (EachProofs.add_node_collection_diff n s coll d pend tl x dcoll c Hc Hp Hr Hsd Hsn Hdc Hne Hnt)
    as (s1 & E & A1 & A2 & A3 & _ & A5).
  rewrite E in H. inv H. split; [reflexivity|].
  assert (Hout : forall o, In o (OLogDiff d n :: EachProofs.shutdown_outs n c) ->
                           o = OLogDiff d n \/ o = OSend n CShutdown).
  { intros o [<-|Ho]; [auto|]. unfold EachProofs.shutdown_outs in Ho.
    destruct (shutting_down c); [destruct Ho|]. destruct (n_closed c); [destruct Ho|].
    destruct Ho as [<-|[]]. auto. }
  split; [intros m ixs Hin; destruct (Hout _ Hin); discriminate|].
  split; [intros m Hin; destruct (Hout _ Hin); discriminate|].
  split; [left; reflexivity|]. split; [exact A1|]. split; [exact A2|]. split; [exact A3|].
  intros Hs. destruct (A5 Hs) as (c' & G1 & G2). exists c'. split; [exact G1|].
  unfold shutting_down. rewrite G2. apply orb_true_r.
Qed.
Print Assumptions K10_each_late_disagree_head.

(* general position: the FIRST dead node with the same spec decides; if its collection differs,
   the search stops there (nothing is inherited from later dead nodes either) *)
Lemma e_inherit_diff n s coll pre d pend tl x dcoll :
  e_removed s = pre ++ (d, pend) :: tl ->
  Forall (fun p => exists y, spec_of s (fst p) = Some y /\ y <> x) pre ->
  spec_of s d = Some x -> spec_of s n = Some x ->
  aget d (e_n2c s) = Some dcoll -> coll_eqb coll dcoll = false ->
  e_inherit n coll (e_removed s) s = (s, [OLogDiff d n], Ok tt).
Proof.
  intros Hr Hpre Hsd Hsn Hdc Hne. rewrite Hr.
  rewrite (EachProofs.e_inherit_skip n coll s x pre _ Hsn Hpre).
  cbn [e_inherit]. rewrite mbind_get. rewrite Hsd, Hsn. unfold of_opt. rewrite !mbind_ret.
  rewrite Nat.eqb_refl. rewrite Hdc. rewrite mbind_ret. rewrite Hne. reflexivity.
Qed.

Theorem K10_each_late_disagree_eq n s coll pre d pend tl x dcoll :
  e_completed s = true -> aget n (e_n2p s) = Some [] ->
  e_removed s = pre ++ (d, pend) :: tl ->
  Forall (fun p => exists y, spec_of s (fst p) = Some y /\ y <> x) pre ->
  spec_of s d = Some x -> spec_of s n = Some x ->
  aget d (e_n2c s) = Some dcoll -> coll_eqb coll dcoll = false ->
  e_add_node_collection n coll s =
  match aget n (e_nt s) with
  | None => (s, [OLogDiff d n], Err EKey)
  | Some c =>
      if shutting_down c then (e_set_started s (e_started s ++ [n]), [OLogDiff d n], Ok tt)
      else (e_set_started (e_set_nt s (aset n (sd_mark c) (e_nt s))) (e_started s ++ [n]),
            OLogDiff d n :: (if n_closed c then [] else [OSend n CShutdown]), Ok tt)
  end.
Proof.
  intros Hc Hp Hr Hpre Hsd Hsn Hdc Hne. unfold e_add_node_collection.
  rewrite mbind_get. unfold ahas. rewrite Hp. unfold massert. rewrite mbind_ret.
  rewrite Hc. cbn [negb].
  rewrite (mbind_ok _ _ _ _ _ _ (e_inherit_diff n s coll pre d pend tl x dcoll Hr Hpre Hsd Hsn Hdc Hne)).
  rewrite mbind_get. rewrite Hp. unfold of_opt. rewrite mbind_ret.
  pose proof (node_shutdown_eq e_nt e_set_nt n s) as Esd.
  destruct (aget n (e_nt s)) as [c|] eqn:Ent.
  - destruct (shutting_down c).
    + rewrite (mbind_ok _ _ _ _ _ _ Esd). rewrite mbind_get. reflexivity.
    + rewrite (mbind_ok _ _ _ _ _ _ Esd). rewrite mbind_get. cbn [fst snd put].
      destruct (n_closed c); reflexivity.
  - rewrite (mbind_err _ _ _ _ _ _ Esd). reflexivity.
Qed.

Theorem K10_each_late_disagree n s coll pre d pend tl x dcoll s' outs r :
  e_add_node_collection n coll s = (s', outs, r) ->
  e_completed s = true -> aget n (e_n2p s) = Some [] ->
  e_removed s = pre ++ (d, pend) :: tl ->
  Forall (fun p => exists y, spec_of s (fst p) = Some y /\ y <> x) pre ->
  spec_of s d = Some x -> spec_of s n = Some x ->
  aget d (e_n2c s) = Some dcoll -> coll_eqb coll dcoll = false ->
  (* nothing is inherited, the collection is not registered *)
  e_n2p s' = e_n2p s /\ e_n2c s' = e_n2c s /\ e_removed s' = e_removed s /\
  In (OLogDiff d n) outs /\
  (* no test is sent to anybody *)
  (forall m ixs, ~ In (OSend m (CRun ixs)) outs) /\ (forall m, ~ In (OSend m CRunAll) outs) /\
  (forall m c, In (OSend m c) outs -> m = n /\ c = CShutdown) /\
  (* the node is shut down (or already was) and will never be scheduled *)
  (forall c, aget n (e_nt s) = Some c ->
     r = Ok tt /\ mem_nat n (e_started s') = true /\
     exists c', aget n (e_nt s') = Some c' /\ shutting_down c' = true).
Proof.
  intros H Hc Hp Hr Hpre Hsd Hsn Hdc Hne.
  rewrite (K10_each_late_disagree_eq n s coll pre d pend tl x dcoll Hc Hp Hr Hpre Hsd Hsn Hdc Hne) in H.
  assert (Hout : forall tail, tail = [] \/ tail = [OSend n CShutdown] ->
     In (OLogDiff d n) (OLogDiff d n :: tail) /\
     (forall m ixs, ~ In (OSend m (CRun ixs)) (OLogDiff d n :: tail)) /\
     (forall m, ~ In (OSend m CRunAll) (OLogDiff d n :: tail)) /\
     (forall m c, In (OSend m c) (OLogDiff d n :: tail) -> m = n /\ c = CShutdown)).
  { intros tail Ht. destruct (logdiff_tail_facts d n tail Ht) as [_ G].
    split; [left; reflexivity|].
    split; [intros m ixs Hin; destruct (G _ _ Hin); discriminate|].
    split; [intros m Hin; destruct (G _ _ Hin); discriminate|]. exact G. }
  destruct (aget n (e_nt s)) as [c|] eqn:Ent.
  - destruct (shutting_down c) eqn:Esd.
    + inv H. cbn [e_set_started e_n2p e_n2c e_removed e_started e_nt].
      destruct (Hout [] (or_introl eq_refl)) as (G1 & G2 & G3 & G4).
      do 7 (split; [first [reflexivity | assumption]|]).
      intros c1 E. inv E. split; [reflexivity|]. split; [apply EachProofs.mem_nat_app_self|].
      exists c1. auto.
    + inv H. cbn [e_set_started e_set_nt e_n2p e_n2c e_removed e_started e_nt].
      assert (Ht : (if n_closed c then [] else [OSend n CShutdown]) = [] \/
                   (if n_closed c then [] else [OSend n CShutdown]) = [OSend n CShutdown])
        by (destruct (n_closed c); auto).
      destruct (Hout _ Ht) as (G1 & G2 & G3 & G4).
      do 7 (split; [first [reflexivity | assumption]|]).
      intros c1 E. split; [reflexivity|]. split; [apply EachProofs.mem_nat_app_self|].
      exists (sd_mark c). split; [apply aget_aset_same | apply sd_mark_shutting_down].
  - inv H. destruct (Hout [] (or_introl eq_refl)) as (G1 & G2 & G3 & G4).
    do 7 (split; [first [reflexivity | assumption]|]).
    intros c1 E. discriminate.
Qed.
Print Assumptions K10_each_late_disagree.

(* ====================================================================================== *)
(* Non-vacuity: concrete runs, built through the schedulers' own entry points             *)
(* ====================================================================================== *)
Module Examples.
Open Scope string_scope.
Definition run {S A} (m : M S A) (s : S) : S := fst (fst (m s)).
Definition up : nctl := {| n_spec := 0; n_down := false; n_sdsent := false; n_closed := false |}.
Definition nt4 : ntable := [(0, up); (1, up); (2, up); (3, up)].
Definition abc := ["t.py::a"; "t.py::b"; "t.py::c"].
Definition acb := ["t.py::a"; "t.py::c"; "t.py::b"].    (* the same tests, permuted *)

(* --- three nodes, the third collected a permuted list --- *)
Definition lx0 : lstate :=
  run (l_add_node_collection 2 acb)
   (run (l_add_node_collection 1 abc)
    (run (l_add_node_collection 0 abc)
     (run (l_add_node 2) (run (l_add_node 1) (run (l_add_node 0) (l_init nt4 3 None)))))).

Example ex_load_permuted : l_schedule lx0 = (lx0, [OCollDiff 0 2], Ok tt).
Proof. vm_compute. reflexivity. Qed.

(* the hypotheses of K2 hold for it, so K2 is not vacuous *)
Example ex_load_permuted_K2 :
  l_coll lx0 = None /\ l_collection_is_completed lx0 = true /\
  l_n2c lx0 = (0, abc) :: [(1, abc); (2, acb)] /\
  forallb (fun p => coll_eqb abc (snd p)) [(1, abc); (2, acb)] = false /\
  (forall n c, ~ In (OSend n c) (snd (fst (l_schedule lx0)))).
Proof.
  do 4 (split; [vm_compute; reflexivity|]).
  destruct (l_schedule lx0) as [[s' outs] r] eqn:E.
  assert (A : l_coll lx0 = None) by (vm_compute; reflexivity).
  assert (B : l_collection_is_completed lx0 = true) by (vm_compute; reflexivity).
  assert (C : l_n2c lx0 = (0, abc) :: [(1, abc); (2, acb)]) by (vm_compute; reflexivity).
  assert (D : forallb (fun p => coll_eqb abc (snd p)) [(1, abc); (2, acb)] = false)
    by (vm_compute; reflexivity).
  exact (proj1 (proj2 (K2_load_initial_disagreement _ _ _ _ _ _ _ E A B C D))).
Qed.

Definition wx0 : wsstate :=
  run (ws_add_node_collection 2 acb)
   (run (ws_add_node_collection 1 abc)
    (run (ws_add_node_collection 0 abc)
     (run (ws_add_node 2) (run (ws_add_node 1) (run (ws_add_node 0) (ws_init nt4 3)))))).
Example ex_steal_permuted : ws_schedule wx0 = (wx0, [OCollDiff 0 2], Ok tt).
Proof. vm_compute. reflexivity. Qed.

Definition cx0 : scstate :=
  run (sc_add_node_collection 2 acb)
   (run (sc_add_node_collection 1 abc)
    (run (sc_add_node_collection 0 abc)
     (run (sc_add_node 2) (run (sc_add_node 1) (run (sc_add_node 0) (sc_init nt4 KScope 3)))))).
Example ex_scope_permuted : sc_schedule cx0 = (cx0, [OCollDiff 0 2], Ok tt).
Proof. vm_compute. reflexivity. Qed.

(* --- two agreeing nodes start the run; node 1 dies; its replacement (node 3) collected a
       permuted list: only logged, told to shut down, not registered --- *)
Definition ly1 : lstate :=
  run l_schedule
   (run (l_add_node_collection 1 abc)
    (run (l_add_node_collection 0 abc)
     (run (l_add_node 1) (run (l_add_node 0) (l_init nt4 2 None))))).
Definition ly2 : lstate := run (l_add_node 3) (run (l_remove_node 1) ly1).

Example ex_load_started :
  l_coll ly1 = Some abc /\
  snd (fst (l_schedule (run (l_add_node_collection 1 abc)
    (run (l_add_node_collection 0 abc)
     (run (l_add_node 1) (run (l_add_node 0) (l_init nt4 2 None)))))))
  = [OSend 0 (CRun [0]); OSend 1 (CRun [1]); OSend 0 (CRun [2]);
     OSend 0 CShutdown; OSend 1 CShutdown].
Proof. split; vm_compute; reflexivity. Qed.

Example ex_load_replacement_differs :
  exists s', l_add_node_collection 3 acb ly2 = (s', [OLogDiff 0 3; OSend 3 CShutdown], Ok tt) /\
             l_n2c s' = l_n2c ly2 /\ ahas 3 (l_n2c s') = false /\
             (exists c', aget 3 (l_nt s') = Some c' /\ shutting_down c' = true).
Proof.
  eexists. split; [vm_compute; reflexivity|]. split; [vm_compute; reflexivity|].
  split; [vm_compute; reflexivity|]. eexists. split; vm_compute; reflexivity.
Qed.

(* the hypotheses of K5 hold for it *)
Example ex_load_replacement_K5 :
  l_collection_is_completed ly2 = true /\ l_coll ly2 = Some ("t.py::a" :: ["t.py::b"; "t.py::c"]) /\
  ahas 3 (l_n2p ly2) = true /\ coll_eqb acb ("t.py::a" :: ["t.py::b"; "t.py::c"]) = false /\
  l_n2c ly2 <> [].
Proof. repeat split; try (vm_compute; reflexivity). vm_compute. discriminate. Qed.

(* a replacement that agrees is registered silently *)
Example ex_load_replacement_agrees :
  exists s', l_add_node_collection 3 abc ly2 = (s', [], Ok tt) /\ aget 3 (l_n2c s') = Some abc.
Proof. eexists. split; vm_compute; reflexivity. Qed.

Definition wy1 : wsstate :=
  run ws_schedule
   (run (ws_add_node_collection 1 abc)
    (run (ws_add_node_collection 0 abc)
     (run (ws_add_node 1) (run (ws_add_node 0) (ws_init nt4 2))))).
Definition wy2 : wsstate := run (ws_add_node 3) (run (ws_remove_node 1) wy1).
Example ex_steal_replacement_differs :
  exists s', ws_add_node_collection 3 acb wy2 = (s', [OLogDiff 0 3; OSend 3 CShutdown], Ok tt) /\
             ws_n2c s' = ws_n2c wy2.
Proof. eexists. split; vm_compute; reflexivity. Qed.

Definition cy1 : scstate :=
  run sc_schedule
   (run (sc_add_node_collection 1 abc)
    (run (sc_add_node_collection 0 abc)
     (run (sc_add_node 1) (run (sc_add_node 0) (sc_init nt4 KScope 2))))).
Definition cy2 : scstate := run (sc_add_node 3) (run (sc_remove_node 1) cy1).
Example ex_scope_replacement_differs :
  exists s', sc_add_node_collection 3 acb cy2 = (s', [OLogDiff 0 3; OSend 3 CShutdown], Ok tt) /\
             sc_reg s' = sc_reg cy2.
Proof. eexists. split; vm_compute; reflexivity. Qed.
End Examples.
