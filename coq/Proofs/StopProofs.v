(* StopProofs.v — stop conditions at the controller (property C11):
     S1  the stop reason is sticky                                   (loop_once_stop_sticky)
     S2  an iteration that ends normally with the stop reason set has triggered the shutdown
     S3  the decision rule of _handlefailures (maxfail)
     S4  a worker that becomes ready during the shutdown is shut down instead of being added;
         a late collection is ignored
     S5  only test failures / failed collect reports (with maxfail reached) and workers that
         finish with shouldstop / exit status 2 set the stop reason.
   Uses the relational logic [from R s0 m] of ShutdownOnce.v. *)
From XV Require Import Base Worker Ctl SchedLoad SchedSteal SchedScope SchedEach Sched DSession NoHook
  DSessionProofs ShutdownOnce.
Open Scope nat_scope.

(* ------------------------------------------------------------------------------------------ *)
(* S3: the decision rule                                                                        *)
(* ------------------------------------------------------------------------------------------ *)
Theorem handlefailures_rule failed d d' o r :
  d_handlefailures failed d = (d', o, r) ->
  r = Ok tt /\ o = [] /\
  (d_shouldstop d' = true <->
     (d_shouldstop d = true \/
      (failed = true /\ d_maxfail d <> 0%Z /\ (d_maxfail d <= d_countfailures d + 1)%Z))) /\
  d_countfailures d' = (d_countfailures d + (if failed then 1 else 0))%Z /\
  d_maxfail d' = d_maxfail d /\ d_shuttingdown d' = d_shuttingdown d /\ d_sched d' = d_sched d /\
  d_active d' = d_active d.
Proof.
  unfold d_handlefailures. destruct failed; cbn [negb].
  2:{ unfold ret. intros H; inversion H; subst. repeat split; auto; try lia.
      intros [H1|(H1 & _)]; [exact H1|discriminate]. }
  unfold mbind, get, put, ret.
  cbn [d_maxfail d_shouldstop d_set_countfailures d_countfailures].
  destruct (negb (d_maxfail d =? 0)%Z && (d_maxfail d <=? d_countfailures d + 1)%Z && negb (d_shouldstop d)) eqn:E;
    intros H; inversion H; subst; clear H;
    cbn [d_maxfail d_shouldstop d_set_countfailures d_set_shouldstop d_countfailures d_shuttingdown d_sched d_active app].
  - apply andb_true_iff in E. destruct E as (E & E3). apply andb_true_iff in E. destruct E as (E1 & E2).
    apply negb_true_iff, Z.eqb_neq in E1. apply Z.leb_le in E2.
    repeat split; auto.
  - repeat split; auto.
    intros [H|(_ & H1 & H2)]; [exact H|].
    apply andb_false_iff in E. destruct E as [E|E].
    + apply andb_false_iff in E. destruct E as [E|E].
      * apply negb_false_iff, Z.eqb_eq in E. contradiction.
      * apply Z.leb_gt in E. lia.
    + apply negb_false_iff in E. exact E.
Qed.
Print Assumptions handlefailures_rule.

(* ------------------------------------------------------------------------------------------ *)
(* relations on controller states (outputs are irrelevant here)                                *)
(* ------------------------------------------------------------------------------------------ *)
Definition lift2 (P : dstate -> dstate -> Prop) : dstate -> dstate -> list out -> Prop :=
  fun d d' _ => P d d'.
Lemma lift2_refl (P : dstate -> dstate -> Prop) : (forall d, P d d) -> rrefl (lift2 P).
Proof. intros H d. apply H. Qed.
Lemma lift2_trans (P : dstate -> dstate -> Prop) : (forall a b c, P a b -> P b c -> P a c) -> rtrans (lift2 P).
Proof. intros H a b c o1 o2. apply H. Qed.

(* the stop reason is left alone, and a shutdown in progress stays in progress *)
Definition sd_keep (d d' : dstate) : Prop :=
  d_shouldstop d' = d_shouldstop d /\ (d_shuttingdown d = true -> d_shuttingdown d' = true).
(* the stop reason is left alone *)
Definition stop_eq (d d' : dstate) : Prop := d_shouldstop d' = d_shouldstop d.
(* the stop reason, once set, stays *)
Definition stop_mono (d d' : dstate) : Prop := d_shouldstop d = true -> d_shouldstop d' = true.

Lemma sd_keep_rrefl : rrefl (lift2 sd_keep).
Proof. apply lift2_refl. intros d. split; auto. Qed.
Lemma sd_keep_rtrans : rtrans (lift2 sd_keep).
Proof. apply lift2_trans. intros a b c (A1 & A2) (B1 & B2). split; [congruence|auto]. Qed.
Lemma stop_eq_rrefl : rrefl (lift2 stop_eq).
Proof. apply lift2_refl. intros d. reflexivity. Qed.
Lemma stop_eq_rtrans : rtrans (lift2 stop_eq).
Proof. apply lift2_trans. unfold stop_eq. intros a b c A B. congruence. Qed.
Lemma stop_mono_rrefl : rrefl (lift2 stop_mono).
Proof. apply lift2_refl. intros d H. exact H. Qed.
Lemma stop_mono_rtrans : rtrans (lift2 stop_mono).
Proof. apply lift2_trans. unfold stop_mono. intros a b c A B H. auto. Qed.
#[export] Hint Resolve sd_keep_rrefl sd_keep_rtrans stop_eq_rrefl stop_eq_rtrans stop_mono_rrefl
  stop_mono_rtrans : sdrel.

Lemma keep_eq {A} d0 (m : D A) : from (lift2 sd_keep) d0 m -> from (lift2 stop_eq) d0 m.
Proof. intros H d' o r E. exact (proj1 (H _ _ _ E)). Qed.
Lemma eq_mono {A} d0 (m : D A) : from (lift2 stop_eq) d0 m -> from (lift2 stop_mono) d0 m.
Proof. intros H d' o r E. pose proof (H _ _ _ E) as K. unfold lift2, stop_eq, stop_mono in *. congruence. Qed.

Create HintDb stdb.
Ltac st_rel := unfold lift2, sd_keep, stop_eq, stop_mono; cbn; solve [auto].
Ltac st1 :=
  first
    [ apply f_ret; rr | apply f_raise; rr | apply f_massert; rr | apply f_of_opt; rr
    | apply f_getv; rr
    | apply f_put; st_rel
    | apply f_emit; st_rel
    | apply f_mfor; [rr | rr | intros ? ?]
    | match goal with
      | |- from _ _ (mbind get _) => apply f_get
      | |- from _ _ (mbind (ret _) _) => apply f_ret_bind
      | |- from _ _ (mbind (of_opt _ _) _) => apply f_of_opt_bind; [rr | intros ? ?]
      | |- from _ _ (mbind (massert _) _) => apply f_massert_bind; [rr | intros ?]
      | |- from _ _ (mbind _ _) => apply f_bind; [rr | | intros ? ?]
      end
    | progress cbv zeta
    | match goal with
      | |- from _ _ (match ?x with _ => _ end) => destruct x eqn:?
      | |- from _ _ (let '(_, _) := ?x in _) => destruct x eqn:?
      end
    | solve [eauto with stdb]
    | apply keep_eq; solve [eauto with stdb]
    | apply eq_mono; solve [eauto with stdb]
    | apply eq_mono, keep_eq; solve [eauto with stdb] ].
Ltac st := repeat st1.

(* scheduler calls only change d_sched *)
Lemma keep_sched_op op d0 : from (lift2 sd_keep) d0 (d_sched_op op).
Proof.
  intros d' o r H. unfold d_sched_op in H.
  destruct (s_step (d_sched d0) op) as [[st o1] r1]. inversion H; subst. split; auto.
Qed.
#[export] Hint Resolve keep_sched_op : stdb.

Lemma keep_node_shutdown n d0 : from (lift2 sd_keep) d0 (d_node_shutdown n).
Proof.
  intros d' o r H. destruct (node_shutdown_frame _ _ _ _ _ _ _ H) as [->|(v & ->)]; split; auto.
Qed.
#[export] Hint Resolve keep_node_shutdown : stdb.

Lemma keep_triggershutdown d0 : from (lift2 sd_keep) d0 d_triggershutdown.
Proof. unfold d_triggershutdown. st. Qed.
#[export] Hint Resolve keep_triggershutdown : stdb.
Lemma keep_active_remove n d0 : from (lift2 sd_keep) d0 (d_active_remove n).
Proof. unfold d_active_remove. st. Qed.
#[export] Hint Resolve keep_active_remove : stdb.
Lemma keep_handle_crashitem item n d0 : from (lift2 sd_keep) d0 (d_handle_crashitem item n).
Proof. unfold d_handle_crashitem, hook. st. Qed.
#[export] Hint Resolve keep_handle_crashitem : stdb.
Lemma keep_clone n d0 : from (lift2 sd_keep) d0 (d_clone_node n).
Proof. unfold d_clone_node, hook. st. Qed.
#[export] Hint Resolve keep_clone : stdb.

Lemma f_try_block R n d0 :
  rtrans R -> (forall d, from R d (d_sched_op (SRemove n))) ->
  (forall item d, from R d (d_handle_crashitem item n)) -> from R d0 (try_block n).
Proof.
  intros Rt H1 H2 d' o r H. unfold try_block in H.
  destruct (d_sched_op (SRemove n) d0) as [[d1 o1] r1] eqn:E1.
  pose proof (H1 _ _ _ _ E1) as R1.
  destruct r1 as [[item|]|e].
  - destruct (d_handle_crashitem item n d1) as [[d2 o2] r2] eqn:E2. inversion H; subst.
    eapply Rt; [exact R1|exact (H2 _ _ _ _ _ E2)].
  - inversion H; subst. exact R1.
  - destruct e; inversion H; subst; exact R1.
Qed.
Lemma keep_try_block n d0 : from (lift2 sd_keep) d0 (try_block n).
Proof. apply f_try_block; [rr|intros; apply keep_sched_op|intros; apply keep_handle_crashitem]. Qed.
#[export] Hint Resolve keep_try_block : stdb.

(* errordown may reset shuttingdown (it does so before cloning), but never touches the stop reason *)
Lemma eq_errordown n d0 : from (lift2 stop_eq) d0 (d_worker_errordown n).
Proof. rewrite errordown_unfold. unfold hook. st. Qed.
#[export] Hint Resolve eq_errordown : stdb.

Lemma mono_handlefailures f d0 : from (lift2 stop_mono) d0 (d_handlefailures f).
Proof. unfold d_handlefailures. st. Qed.
#[export] Hint Resolve mono_handlefailures : stdb.

Lemma mono_handle ev d0 : from (lift2 stop_mono) d0 (d_handle ev).
Proof.
  destruct ev as [n|n ids|n key fl|n i|n i|n i k oc|n i ms|n ixs| |n|n sk|n]; cbn [d_handle];
    unfold hook; try (st; fail).
  unfold d_worker_workerfinished, hook. destruct sk; st.
Qed.
#[export] Hint Resolve mono_handle : stdb.

Lemma mono_loop_once ev d0 : from (lift2 stop_mono) d0 (d_loop_once ev).
Proof. unfold d_loop_once. st. Qed.

(* S1 *)
Theorem loop_once_stop_sticky ev d d' o r :
  d_loop_once ev d = (d', o, r) -> d_shouldstop d = true -> d_shouldstop d' = true.
Proof. intros H. exact (mono_loop_once ev d _ _ _ H). Qed.
Print Assumptions loop_once_stop_sticky.

Theorem handle_stop_sticky ev d d' o r :
  d_handle ev d = (d', o, r) -> d_shouldstop d = true -> d_shouldstop d' = true.
Proof. intros H. exact (mono_handle ev d _ _ _ H). Qed.

Theorem run_stop_sticky evs d d' o r :
  d_run evs d = (d', o, r) -> d_shouldstop d = true -> d_shouldstop d' = true.
Proof.
  revert d d' o r. induction evs as [|ev rest IH]; intros d d' o r H Hs; cbn [d_run] in H.
  - inversion H; subst. exact Hs.
  - destruct (d_loop_once ev d) as [[d1 o1] r1] eqn:E1.
    pose proof (loop_once_stop_sticky _ _ _ _ _ E1 Hs) as S1.
    destruct r1 as [[]|e].
    + destruct (d_run rest d1) as [[d2 o2] r2] eqn:E2. inversion H; subst. eauto.
    + inversion H; subst. exact S1.
Qed.
Print Assumptions run_stop_sticky.

(* ------------------------------------------------------------------------------------------ *)
(* S2                                                                                          *)
(* ------------------------------------------------------------------------------------------ *)
Lemma triggershutdown_spec d d' o r :
  d_triggershutdown d = (d', o, r) -> d_shuttingdown d' = true /\ d_shouldstop d' = d_shouldstop d.
Proof.
  intros H. unfold d_triggershutdown in H. unfold mbind at 1 in H. unfold get in H.
  destruct (d_shuttingdown d) eqn:Es.
  - unfold ret in H. inversion H; subst. auto.
  - unfold mbind, put in H.
    destruct (mfor (s_nodes (d_sched d)) d_node_shutdown (d_set_shuttingdown d true)) as [[d2 o2] r2] eqn:E.
    inversion H; subst.
    assert (K : from (lift2 sd_keep) (d_set_shuttingdown d true) (mfor (s_nodes (d_sched d)) d_node_shutdown)).
    { apply f_mfor; [rr|rr|]. intros n d0. apply keep_node_shutdown. }
    destruct (K _ _ _ E) as (K1 & K2). split; [apply K2; reflexivity|exact K1].
Qed.

Theorem loop_once_stop_shuts_down ev d d' o :
  d_loop_once ev d = (d', o, Ok tt) -> d_shouldstop d' = true -> d_shuttingdown d' = true.
Proof.
  unfold d_loop_once. intros H Hs.
  apply mbind_inv in H. destruct H as [(d1 & o1 & [] & oR & _ & H & ->)|(e & _ & He)]; [|discriminate].
  apply mbind_inv in H. destruct H as [(d2 & o2 & [] & oR2 & _ & H & ->)|(e & _ & He)]; [|discriminate].
  unfold mbind, get in H. destruct (d_shouldstop d2) eqn:E2.
  - destruct (d_triggershutdown d2) as [[d3 o3] r3] eqn:E3. inversion H; subst.
    exact (proj1 (triggershutdown_spec _ _ _ _ E3)).
  - unfold ret in H. inversion H; subst. congruence.
Qed.
Print Assumptions loop_once_stop_shuts_down.

(* the same even when triggershutdown itself is where the iteration failed: whenever the last
   statement of the iteration is reached with the stop reason set, shuttingdown is set *)
Theorem stop_check_spec d d' o r :
  (d0 <- get ;; if d_shouldstop d0 then d_triggershutdown else ret tt) d = (d', o, r) ->
  d_shouldstop d' = d_shouldstop d /\ (d_shouldstop d = true -> d_shuttingdown d' = true).
Proof.
  unfold mbind, get. destruct (d_shouldstop d) eqn:E.
  - destruct (d_triggershutdown d) as [[d3 o3] r3] eqn:E3. intros H; inversion H; subst.
    destruct (triggershutdown_spec _ _ _ _ E3) as (A & B). split; [congruence|auto].
  - unfold ret. intros H; inversion H; subst. split; [exact E|discriminate].
Qed.

(* ------------------------------------------------------------------------------------------ *)
(* S4: events that arrive while the session is shutting down                                   *)
(* ------------------------------------------------------------------------------------------ *)
Lemma s_nodes_set_nt st v : s_nodes (s_set_nt st v) = s_nodes st.
Proof. destruct st; reflexivity. Qed.

Theorem ready_during_shutdown n d d' o r :
  d_shuttingdown d = true -> d_handle (QReady n) d = (d', o, r) ->
  s_nodes (d_sched d') = s_nodes (d_sched d) /\
  Forall (fun x => x = OHook (HNodeReady n) \/ x = OSend n CShutdown) o /\
  d_shuttingdown d' = true /\ d_shouldstop d' = d_shouldstop d.
Proof.
  intros Hs H. cbn [d_handle] in H. unfold hook, mbind, emit, get in H. rewrite Hs in H.
  destruct (d_node_shutdown n d) as [[d2 o2] r2] eqn:E. inversion H; subst. clear H.
  destruct (node_shutdown_out _ _ _ _ _ _ _ E) as (Hd & Ho).
  assert (Hn : s_nodes (d_sched d') = s_nodes (d_sched d) /\ d_shuttingdown d' = d_shuttingdown d /\
               d_shouldstop d' = d_shouldstop d).
  { destruct Hd as [->|(v & ->)]; [auto|]. unfold d_set_nt. cbn [d_sched d_set_sched d_shuttingdown d_shouldstop].
    rewrite s_nodes_set_nt. auto. }
  destruct Hn as (N1 & N2 & N3). split; [exact N1|]. split; [|split; [congruence|exact N3]].
  constructor; [left; reflexivity|]. destruct Ho as [->| ->]; [constructor|].
  constructor; [right; reflexivity|constructor].
Qed.
Print Assumptions ready_during_shutdown.

Theorem collfinish_during_shutdown n ids d :
  d_shuttingdown d = true -> d_handle (QCollFinish n ids) d = (d, [], Ok tt).
Proof. intros Hs. cbn [d_handle]. unfold mbind, get. rewrite Hs. reflexivity. Qed.
Print Assumptions collfinish_during_shutdown.

(* ------------------------------------------------------------------------------------------ *)
(* S5: what can set the stop reason                                                            *)
(* ------------------------------------------------------------------------------------------ *)
Definition nonstop (ev : cevent) : bool :=
  match ev with
  | QReport _ _ _ Failed => false
  | QCollectReport _ _ true => false
  | QFinished _ SKStop => false
  | QFinished _ SKKbd => false
  | _ => true
  end.

Lemma eq_handlefailures_false d0 : from (lift2 stop_eq) d0 (d_handlefailures false).
Proof. unfold d_handlefailures. cbn [negb]. apply f_ret. rr. Qed.
#[export] Hint Resolve eq_handlefailures_false : stdb.

Lemma eq_handle ev d0 : nonstop ev = true -> from (lift2 stop_eq) d0 (d_handle ev).
Proof.
  destruct ev as [n|n ids|n key fl|n i|n i|n i k oc|n i ms|n ixs| |n|n sk|n]; cbn [nonstop d_handle];
    intros Hn; unfold hook; try (st; fail).
  - destruct fl; [discriminate|]. st.
  - destruct oc; try discriminate; st.
  - unfold d_worker_workerfinished, hook. destruct sk; try discriminate; st.
Qed.

Definition maxfail_reached (d : dstate) : Prop :=
  d_maxfail d <> 0%Z /\ (d_maxfail d <= d_countfailures d + 1)%Z.

Definition stop_cause (ev : cevent) (d : dstate) : Prop :=
  match ev with
  | QReport _ _ _ Failed => maxfail_reached d
  | QCollectReport _ key true => mem_nat key (d_collect_seen d) = false /\ maxfail_reached d
  | QFinished _ SKStop => True
  | QFinished _ SKKbd => True
  | _ => False
  end.

Theorem stop_only_from_causes ev d d' o r :
  d_shouldstop d = false -> d_handle ev d = (d', o, r) -> d_shouldstop d' = true -> stop_cause ev d.
Proof.
  intros H0 H H1. destruct (nonstop ev) eqn:En.
  { pose proof (eq_handle ev d En _ _ _ H) as K. unfold lift2, stop_eq in K. congruence. }
  destruct ev as [n|n ids|n key fl|n i|n i|n i k oc|n i ms|n ixs| |n|n sk|n]; try discriminate; cbn [stop_cause].
  - destruct fl; [|discriminate]. cbn [d_handle] in H. unfold mbind at 1 in H. unfold get in H.
    destruct (mem_nat key (d_collect_seen d)) eqn:Em.
    { unfold ret in H. inversion H; subst. congruence. }
    destruct (((put (d_set_collect_seen d (key :: d_collect_seen d)));;; (hook (HCollectReport key true));;;
               d_handlefailures true) d) as [[dx ox] rx] eqn:E.
    inversion H; subst dx; clear H.
    unfold mbind at 1 in E. unfold put in E. unfold mbind at 1 in E. unfold hook, emit in E.
    destruct (d_handlefailures true (d_set_collect_seen d (key :: d_collect_seen d))) as [[dy oy] ry] eqn:E2.
    inversion E; subst dy. destruct (handlefailures_rule _ _ _ _ _ E2) as (_ & _ & Hiff & _).
    apply Hiff in H1. cbn [d_shouldstop d_set_collect_seen d_maxfail d_countfailures] in H1.
    destruct H1 as [H1|(_ & A & B)]; [congruence|]. split; [reflexivity|split; assumption].
  - destruct oc; try discriminate. cbn [d_handle] in H. unfold mbind at 1 in H. unfold hook, emit in H.
    destruct (d_handlefailures true d) as [[dy oy] ry] eqn:E2. inversion H; subst dy.
    destruct (handlefailures_rule _ _ _ _ _ E2) as (_ & _ & Hiff & _).
    apply Hiff in H1. destruct H1 as [H1|(_ & A & B)]; [congruence|split; assumption].
  - destruct sk; try discriminate; exact I.
Qed.
Print Assumptions stop_only_from_causes.

(* conversely, the two worker-side causes do set it (when the handler gets that far) *)
Theorem finished_stop_sets n d d' o :
  d_handle (QFinished n SKStop) d = (d', o, Ok tt) -> d_shouldstop d' = true.
Proof.
  cbn [d_handle]. unfold d_worker_workerfinished. intros H.
  apply mbind_inv in H. destruct H as [(d1 & o1 & [] & oR & H0 & H & ->)|(e & _ & He)]; [|discriminate].
  unfold hook, emit in H0. inversion H0; subst d1 o1. clear H0.
  apply mbind_inv in H. destruct H as [(d2 & o2 & [] & oR2 & H2 & H & ->)|(e & _ & He)]; [|discriminate].
  assert (S2 : d_shouldstop d2 = true).
  { unfold mbind, get in H2. destruct (d_shouldstop d) eqn:E; unfold ret, put in H2; inversion H2; subst; auto. }
  pose proof (keep_active_remove n d2 _ _ _ H) as (K & _). congruence.
Qed.

(* ------------------------------------------------------------------------------------------ *)
(* non-vacuity                                                                                 *)
(* ------------------------------------------------------------------------------------------ *)
Definition ex_st : sstate :=
  let st0 := s_init MLoad 2 None in
  let '(st1, _, _) := s_step st0 (SNew 0 0) in
  let '(st2, _, _) := s_step st1 (SNew 1 0) in
  let '(st3, _, _) := s_step st2 (SAddNode 0) in st3.
Definition ex_d (sd : bool) (maxfail : Z) : dstate :=
  {| d_sched := ex_st; d_shuttingdown := sd; d_shouldstop := false; d_countfailures := 0; d_maxfail := maxfail;
     d_active := [0; 1]; d_failed_nodes := 0; d_max_restart := Some 4%Z; d_collect_seen := []; d_next_gw := 2;
     d_requeue := 0 |}.
Definition st_of {A} (x : dstate * list out * result A) : dstate := fst (fst x).
Definition out_of {A} (x : dstate * list out * result A) : list out := snd (fst x).
Definition res_of {A} (x : dstate * list out * result A) : result A := snd x.

(* S4: the late worker is told to shut down and is not added *)
Example ex_ready_late :
  out_of (d_handle (QReady 1) (ex_d true 0)) = [OHook (HNodeReady 1); OSend 1 CShutdown] /\
  s_nodes (d_sched (st_of (d_handle (QReady 1) (ex_d true 0)))) = [0] /\
  res_of (d_handle (QReady 1) (ex_d true 0)) = Ok tt.
Proof. vm_compute. repeat split. Qed.
(* ... whereas it is added when the session is not shutting down *)
Example ex_ready_normal :
  out_of (d_handle (QReady 1) (ex_d false 0)) = [OHook (HNodeReady 1)] /\
  s_nodes (d_sched (st_of (d_handle (QReady 1) (ex_d false 0)))) = [0; 1].
Proof. vm_compute. repeat split. Qed.
(* S1/S2/S3/S5: with --maxfail=1 the first failure sets the stop reason and triggers the shutdown *)
Example ex_maxfail_stop :
  let x := d_loop_once (QReport 0 0 0 Failed) (ex_d false 1) in
  d_shouldstop (st_of x) = true /\ d_shuttingdown (st_of x) = true /\ res_of x = Ok tt /\
  out_of x = [OHook (HReport 0 0 0 Failed); OSend 0 CShutdown].
Proof. vm_compute. repeat split. Qed.
(* with --maxfail=2 it does not *)
Example ex_maxfail_not_yet :
  let x := d_loop_once (QReport 0 0 0 Failed) (ex_d false 2) in
  d_shouldstop (st_of x) = false /\ d_shuttingdown (st_of x) = false /\ d_countfailures (st_of x) = 1%Z.
Proof. vm_compute. repeat split. Qed.
(* a passed report never sets it *)
Example ex_passed :
  d_shouldstop (st_of (d_loop_once (QReport 0 0 0 Passed) (ex_d false 1))) = false.
Proof. vm_compute. reflexivity. Qed.
(* a worker that finished with shouldstop set *)
Example ex_finished_stop :
  let x := d_loop_once (QFinished 0 SKStop) (ex_d false 0) in
  d_shouldstop (st_of x) = true /\ d_shuttingdown (st_of x) = true /\ res_of x = Ok tt.
Proof. vm_compute. repeat split. Qed.
