(* CrashTerminationEach.v -- property C02 ("the distributed session always terminates"), the termination
   half, for --dist each WITH worker failures and a FINITE restart budget (c_max_restart c = Some b).

   Measure.  measE c s = (KcE (y_d s), muXE c s), ordered lexicographically (CrashTermination.lexlt):
     KcE d  = number of (distinct) active nodes + remaining restart budget: the number of worker deaths the
              controller can still see (every errordown event removes an active node; a replacement is added
              only while the budget lasts, and uses one unit of it);
     muXE   = the potential of TerminationEach.v adapted to crashes: a dead worker's share is only what is
              left on its wire up (its queue, its wire down and its frozen state never cause a move again),
              the sum ranges over all worker processes ever started, and the controller's share prices, for
              every node, the ONE run command it can still get (as long as the node is not in `_started`)
              and the ONE shutdown command it can still get (as long as shutdown was not sent).
              The remainder of a dead node kept in `_removed2pending` needs no price of its own: by the
              scheduler invariant CrashEach.EX every remainder is an interval [a, K) of the collection, the
              command CRun [a..K) that hands it to a replacement goes to a node that was not started
              (CrashEach.FX), and an interval [a, K) costs no more than the whole collection [0, K), which is
              what the run budget of a node that was not started provides for (FX_costXE, sumf_seq_suffix).
   step_lexE / crash_each_c02_measure: in every reachable state, every enabled move that is USEFUL
   (Progress.useful) or a CRASH (LCrash n at any moment, or a main-thread step into a test with c_crash_in)
   either ends the session or makes the measure strictly smaller: KcE goes down when the controller handles
   an errordown (the only step at which muXE may go up: a replacement boots); every other useful move and
   every crash makes muXE smaller and leaves KcE alone (or smaller: workerfinished).
   crash_each_c02_terminates: from a reachable state there is no infinite schedule of useful moves and crashes.
   crash_each_c02_bounded:    from a reachable state, the runs of useful moves and crashes have bounded length
                              (from the well-founded order and finite branching).
   step_phiE / crash_each_c02_potential / crash_each_c02_bound: an EXPLICIT bound.
                              PhiE c s = muXE c s + the shares bootE g (boot sequence + one run command + one
                              shutdown) of the workers g = next id .. next id + remaining budget - 1 that may
                              still be started.  Every useful move and every crash, errordown iterations
                              included, makes PhiE strictly smaller (or ends the session), so a run of useful
                              moves and crashes from a reachable state s is at most PhiE c s + 1 long.
   crash_each_c02_maximal_run_ends (with ProgressEachCrash): a reachable state without an enabled useful
                              non-crash move has ended the session;
   crash_each_c02_maximal_urun_ends / _result: a run of useful moves and crashes that cannot be extended has ended
                              the session, as "finished", "interrupted" or RuntimeError("no active workers").
   For c_max_restart c = None the statements are FALSE (example ecx_unbounded_restarts), as for --dist load.
   Hypotheses of the measure / termination theorems: c_mode c = MEach, no_garbled c, 0 < c_numnodes c,
     forall n, ncollected (c_oracle c n) = length (c_coll c n), c_requeue c = 0, c_max_restart c = Some b.
     Nothing else: any schedule, any c_crash_in, c_strict, any spec classes, and the workers MAY collect
     different lists.  The maximal-run theorem needs the hypotheses of
     ProgressEachCrash.c02_each_crash_no_deadlock_useful on top (all collections equal, no empty id). *)
From XV Require Import Base Worker Ctl SchedLoad SchedSteal SchedScope SchedEach Sched DSession System
  NoHook DSessionProofs WorkerProofs LoadProofs FifoProofs ExactlyOnce Coupling CrashCoupling CrashTheorems
  EachSystem CrashEach CrashEachTheorems.
From XV Require Progress Termination TerminationEach CrashProgress CrashTermination ProgressEachCrash.
From Coq Require Import Permutation.
Open Scope nat_scope.
Import Termination.
Import Progress.
Import TerminationEach.
Import CrashTermination.

(* ====================================================================================== *)
(* A. counting                                                                             *)
(* ====================================================================================== *)
Lemma sumf_strict_one (f g : nat -> nat) l n0 :
  In n0 l -> (forall x, In x l -> g x <= f x) -> g n0 + 1 <= f n0 -> sumf g l + 1 <= sumf f l.
Proof.
  induction l as [|a l IH]; [intros []|]. intros Hin Hle Hn0. rewrite !sumf_cons.
  assert (Hl : sumf g l <= sumf f l) by (apply sumf_le_in; intros x Hx; apply Hle; right; exact Hx).
  pose proof (Hle a (or_introl eq_refl)) as Ha.
  destruct Hin as [->|Hin]; [lia|].
  assert (sumf g l + 1 <= sumf f l) by (apply IH; auto; intros x Hx; apply Hle; right; exact Hx). lia.
Qed.

Lemma sumf_seq_suffix (g : nat -> nat) a K : sumf g (seq a (K - a)) <= sumf g (seq 0 K).
Proof.
  destruct (Nat.le_gt_cases a K) as [H|H].
  - replace K with (a + (K - a)) at 2 by lia. rewrite seq_app, sumf_app. cbn. lia.
  - replace (K - a) with 0 by lia. cbn. lia.
Qed.

Lemma sumf_seq_le (f : nat -> nat) a n m : n <= m -> sumf f (seq a n) <= sumf f (seq a m).
Proof. intros H. replace m with (n + (m - n)) by lia. rewrite seq_app, sumf_app. lia. Qed.

Lemma sumf_seq_S' (f : nat -> nat) g : sumf f (seq 0 (S g)) = sumf f (seq 0 g) + f g.
Proof. rewrite seq_S, sumf_app, sumf_cons, sumf_nil. cbn. lia. Qed.

(* ====================================================================================== *)
(* B. the measure                                                                          *)
(* ====================================================================================== *)
Section MuXE.
Variable c : config.

(* ---- the worker: the commands of each mode with crashes are CRunAll, CRun pend and CShutdown ---- *)
Lemma recv_next_potX n inbox : forall w,
  Forall ecmd inbox ->
  let w' := recv_next (c_oracle c n) w inbox in
  sumf (qcost c n) (wq w') + sumf (rcost c n) (wrpend w') + sumf (cmdcostE c n) (winbox w') +
    (match inbox with [] => 0 | _ => 1 end) <= sumf (qcost c n) (wq w) + sumf (cmdcostE c n) inbox.
Proof.
  induction inbox as [|cm r IH]; intros w G; cbv zeta.
  - cbn [recv_next upd_recv wq wrpend winbox]. rewrite !sumf_nil. lia.
  - inversion G as [|c' r' Gc Gr]; subst. destruct cm as [ixs| |s| |]; try contradiction.
    + destruct ixs as [|i ixs].
      * cbn [recv_next]. rewrite sumf_cons. unfold cmdcostE at 2. cbn [citems map]. rewrite sumf_nil.
        specialize (IH w Gr). cbv zeta in IH. destruct r; lia.
      * cbn [recv_next upd_recv w_put wq wrpend winbox]. rewrite sumf_app, !sumf_cons, sumf_nil.
        unfold cmdcostE at 2. cbn [citems map]. rewrite sumf_cons.
        unfold qcost at 2, rcost at 2. cbn [snd icost]. lia.
    + cbn [recv_next]. rewrite sumf_cons. unfold cmdcostE at 2. cbn [citems]. fold (KE c n).
      destruct (seq 0 (KE c n)) as [|i ixs] eqn:Es.
      * specialize (IH w Gr). cbv zeta in IH. cbn [map]. rewrite sumf_nil. destruct r; lia.
      * cbn [upd_recv w_put wq wrpend winbox map]. rewrite sumf_app, !sumf_cons, sumf_nil.
        unfold qcost at 2, rcost at 2. cbn [snd icost]. lia.
    + cbn [recv_next upd_recv w_put wq wrpend winbox]. rewrite sumf_app, !sumf_cons, !sumf_nil.
      unfold cmdcostE at 2. cbn [citems]. rewrite sumf_cons, sumf_nil. unfold qcost at 2, rcost. cbn [snd icost]. lia.
Qed.

Lemma recv_step_potX n w :
  Forall ecmd (winbox w) -> wreply w = None -> recv_busy w = true ->
  wpotE c n (fst (recv_step (c_oracle c n) w)) + 1 <= wpotE c n w.
Proof.
  intros G Hr Hb. unfold recv_busy in Hb. apply andb_true_iff in Hb. destruct Hb as (Ecb & Hb).
  apply negb_true_iff in Hb.
  destruct (recv_step_cb (c_oracle c n) w) as (Ep & Ec). unfold wpotE. rewrite (phpot_ext c n _ _ Ep Ec).
  unfold recv_step. rewrite Ecb. cbn [negb]. rewrite Hr. cbn [upd_recv wrpend winbox].
  destruct (wrpend w) as [|it rest] eqn:Erp; cbn [fst].
  - pose proof (recv_next_potX n (winbox w) (upd_recv w (winbox w) [] None) G) as X. cbv zeta in X.
    cbn [upd_recv wq] in X. rewrite Hr in Hb. destruct (winbox w) as [|cm r]; [discriminate|].
    rewrite sumf_nil. lia.
  - cbn [upd_recv w_put wq wrpend winbox]. rewrite sumf_app, !sumf_cons, sumf_nil. unfold qcost at 2, rcost at 2.
    cbn [snd]. lia.
Qed.

(* a worker that has not exited can still make at least three moves' worth *)
Lemma wpotE_alive n w : wph w <> PExited -> 3 <= wpotE c n w.
Proof.
  intros H. unfold wpotE, phpot. destruct (wph w); try lia; try contradiction.
Qed.

(* ---- the shares ---- *)
(* a dead worker never moves again and nothing reaches it: only its wire up counts *)
Definition nodepotXE (s : sys) (n : nat) : nat :=
  2 * length (alist_get [] n (y_up s)) +
  (if mem_nat n (y_dead s) then 0
   else dcostE c n (alist_get [] n (y_down s)) + match aget n (y_w s) with Some w => wpotE c n w | None => 0 end).

(* what the controller may still send to a node: one run command (all of the collection, or a remainder
   [a, K) of it) as long as the node is not in `_started`, one shutdown as long as none was sent *)
Definition runbE (n : nat) : nat := dcostE c n [CRunAll].
Definition sdbE (n : nat) : nat := dcostE c n [CShutdown].
Definition sdtermXE (n : nat) (st : bool) (f : nctl) : nat :=
  (if st then 0 else runbE n) + (if n_sdsent f then 0 else sdbE n).
Definition sdnXE (es : estate) (n : nat) : nat :=
  match aget n (e_nt es) with Some f => sdtermXE n (stb es n) f | None => 0 end.
Definition ctlpotXE (d : dstate) : nat :=
  match d_sched d with StE es => sumf (sdnXE es) (seq 0 (d_next_gw d)) | _ => 0 end.

Definition muXE (s : sys) : nat :=
  ctlpotXE (y_d s) + length (y_evq s) + sumf (nodepotXE s) (seq 0 (d_next_gw (y_d s))).

(* the number of deaths the controller can still see *)
Definition actn (d : dstate) (n : nat) : nat := if mem_nat n (d_active d) then 1 else 0.
Definition KcE (d : dstate) : nat := sumf (actn d) (seq 0 (d_next_gw d)) + Rem d.
Definition measE (s : sys) : nat * nat := (KcE (y_d s), muXE s).

(* ---- what the controller sends to a node is covered by the node's budget ---- *)
Lemma run_cost_le n cm a :
  is_run cm -> citems (KE c n) cm = map Idx (seq a (KE c n - a)) -> dcostE c n [cm] <= runbE n.
Proof.
  intros _ Hc. unfold runbE, dcostE. rewrite !sumf_cons, !sumf_nil. unfold cmdcostE. rewrite Hc.
  cbn [citems]. fold (KE c n). rewrite !sumf_map.
  pose proof (sumf_seq_suffix (fun x => rcost c n (Idx x)) a (KE c n)). lia.
Qed.

Lemma FX_costXE n st st' f cs f' :
  FX (KE c n) st st' f cs f' -> dcostE c n cs + sdtermXE n st' f' <= sdtermXE n st f.
Proof.
  intros R. destruct R as [st st' f Hm|st st' f Hm Hs|f cm a Hs Hr Hc|f cm a Hs Hr Hc]; unfold sdtermXE, sdm; cbn [n_sdsent]; rewrite ?Hs.
  - unfold dcostE at 1. rewrite sumf_nil. destruct st; [rewrite (Hm eq_refl); lia|destruct st'; lia].
  - fold (sdbE n). destruct st; [rewrite (Hm eq_refl); lia|destruct st'; lia].
  - pose proof (run_cost_le n cm a Hr Hc). lia.
  - pose proof (run_cost_le n cm a Hr Hc) as Z. unfold sdbE. unfold dcostE in *. rewrite !sumf_cons, !sumf_nil in *. lia.
Qed.

End MuXE.

(* ====================================================================================== *)
(* C. every useful move and every crash makes the measure smaller                          *)
(* ====================================================================================== *)
Lemma loop_quietE ev d d' o r :
  death_event ev = false -> d_loop_once ev d = (d', o, r) -> same_budget d d' /\ count is_spawn o = 0.
Proof.
  intros Hd H. unfold d_loop_once in H.
  assert (Q : DSessionProofs.quiet (d_handle ev ;;;
                     (d0 <- get ;; if s_tests_finished (d_sched d0) then d_triggershutdown else ret tt) ;;;
                     (d0 <- get ;; if d_shouldstop d0 then d_triggershutdown else ret tt))).
  { apply (dspec_bind _ _ same_budget_trans); [apply quiet_handle; exact Hd|intros _].
    apply (dspec_bind _ _ same_budget_trans); [intros d0; qs; apply quiet_triggershutdown|].
    intros _ d0. qs. apply quiet_triggershutdown. }
  destruct (quiet_counts _ _ _ _ _ Q H) as (A & B & _). split; assumption.
Qed.

Section StepXE.
Variable c : config.
Notation N := (c_numnodes c).
Notation X0 := (c_coll c).
Hypothesis Hng : no_garbled c.
Hypothesis Hpos : 0 < N.
Hypothesis Hcoh : forall n, ncollected (c_oracle c n) = length (c_coll c n).
Hypothesis Hrq : c_requeue c = 0.

Lemma d_nt_E d es : d_sched d = StE es -> d_nt d = e_nt es.
Proof. intros E. unfold d_nt. rewrite E. reflexivity. Qed.

(* a change of a node's flags that leaves "told to shut down" alone does not touch the measure *)
Lemma ctl_flagsE d es n f g :
  d_sched d = StE es -> aget n (e_nt es) = Some f -> n_sdsent g = n_sdsent f ->
  ctlpotXE c (d_set_nt d (aset n g (d_nt d))) = ctlpotXE c d.
Proof.
  intros Els Ef Hs. unfold ctlpotXE. rewrite (d_set_nt_schedE d es n g Els), Els.
  change (d_next_gw (d_set_nt d (aset n g (d_nt d)))) with (d_next_gw d).
  apply sumf_ext_in. intros k _. unfold sdnXE. rewrite aget_upd_flagE.
  destruct (Nat.eqb k n) eqn:E; [|reflexivity]. apply Nat.eqb_eq in E. subst k. rewrite Ef.
  unfold sdtermXE, stb. cbn [upd_flagE e_set_nt e_started]. rewrite Hs. reflexivity.
Qed.

(* only node n0's share changes *)
Lemma mu_node_stepXE s s' n0 k :
  y_d s' = y_d s -> y_evq s' = y_evq s -> n0 < d_next_gw (y_d s) ->
  (forall n, n <> n0 -> nodepotXE c s' n = nodepotXE c s n) ->
  nodepotXE c s' n0 + k <= nodepotXE c s n0 -> muXE c s' + k <= muXE c s.
Proof.
  intros Ed Eq HnN Hoth Hn0. unfold muXE. rewrite Ed, Eq.
  set (G := d_next_gw (y_d s)) in *.
  pose proof (sumf_change_one (nodepotXE c s) (nodepotXE c s') (seq 0 G) n0 (seq_NoDup G 0)) as X.
  assert (Hin : In n0 (seq 0 G)) by (apply in_seq; lia).
  specialize (X Hin (fun n _ Hn => Hoth n Hn)). lia.
Qed.

(* ---- a worker process dies ---- *)
Lemma muXE_crash s n0 w0 :
  XE c s -> mem_nat n0 (y_dead s) = false -> aget n0 (y_w s) = Some w0 -> wph w0 <> PExited ->
  muXE c (crash_worker c s n0) + 1 <= muXE c s /\ KcE (y_d (crash_worker c s n0)) = KcE (y_d s) /\
  d_next_gw (y_d (crash_worker c s n0)) = d_next_gw (y_d s) /\ Rem (y_d (crash_worker c s n0)) = Rem (y_d s).
Proof.
  intros X Hd Ew Hph. pose proof X as [Lo Hi (es & DJd & NIs) Eq Eu Ea Er Edead Efin].
  pose proof DJd as ([Els J _ _ _ _ _ _ _] & _).
  pose proof (worker_ltX c s n0 w0 X Ew) as HnG.
  destruct (aget n0 (e_nt es)) as [f0|] eqn:Ef0; [|exfalso; apply (proj2 (ex_ntk _ _ _ _ J n0) HnG); exact Ef0].
  set (s' := crash_worker c s n0).
  assert (CT : ctlpotXE c (y_d s') = ctlpotXE c (y_d s) /\ d_next_gw (y_d s') = d_next_gw (y_d s) /\
               KcE (y_d s') = KcE (y_d s) /\ Rem (y_d s') = Rem (y_d s)).
  { unfold s', crash_worker. cbn [y_d]. destruct (c_strict c); [|auto].
    rewrite (d_nt_E _ _ Els), Ef0. split; [|split; [|split]; reflexivity].
    rewrite <- (d_nt_E _ _ Els). apply (ctl_flagsE _ es n0 f0); auto. }
  destruct CT as (CT & EG & EK & ER). split; [|split; [exact EK|split; [exact EG|exact ER]]].
  unfold muXE. rewrite CT, EG. change (y_evq s') with (y_evq s).
  set (G := d_next_gw (y_d s)) in *.
  pose proof (sumf_change_one (nodepotXE c s) (nodepotXE c s') (seq 0 G) n0 (seq_NoDup G 0)) as Z.
  assert (Hin : In n0 (seq 0 G)) by (apply in_seq; lia).
  assert (Hoth : forall n, In n (seq 0 G) -> n <> n0 -> nodepotXE c s' n = nodepotXE c s n).
  { intros n _ Hn. unfold nodepotXE, s', crash_worker. cbn [y_up y_down y_w y_dead].
    rewrite mem_nat_cons. apply Nat.eqb_neq in Hn. rewrite Hn. cbn [orb]. apply Nat.eqb_neq in Hn.
    rewrite !alist_get_aset_neq by exact Hn. reflexivity. }
  specialize (Z Hin Hoth).
  assert (Hn0 : nodepotXE c s' n0 + 1 <= nodepotXE c s n0).
  { unfold nodepotXE, s', crash_worker. cbn [y_up y_down y_w y_dead].
    rewrite mem_nat_cons, Nat.eqb_refl, Hd, Ew. cbn [orb]. rewrite alist_get_aset_eq, app_length. cbn [length].
    pose proof (wpotE_alive c n0 w0 Hph). lia. }
  lia.
Qed.

(* ---- closing the channel of a dead worker changes nothing ---- *)
Lemma muXE_close s n : XE c s -> muXE c (close_if_dead s n) = muXE c s /\ KcE (y_d (close_if_dead s n)) = KcE (y_d s) /\
  d_next_gw (y_d (close_if_dead s n)) = d_next_gw (y_d s) /\ Rem (y_d (close_if_dead s n)) = Rem (y_d s).
Proof.
  intros X. pose proof X as [_ _ (es & DJd & _) _ _ _ _ _ _]. pose proof DJd as ([Els J _ _ _ _ _ _ _] & _).
  unfold close_if_dead. destruct (mem_nat n (y_dead s)) eqn:Hd; [|auto].
  destruct (aget n (d_nt (y_d s))) as [f|] eqn:Ef; [|auto].
  destruct (n_down f) eqn:Edn; [|auto].
  rewrite (d_nt_E _ _ Els) in Ef.
  split; [|split; [|split]; reflexivity].
  set (fc := {| n_spec := n_spec f; n_down := true; n_sdsent := n_sdsent f; n_closed := true |}).
  unfold muXE. cbn [set_d y_d y_evq y_up y_down y_w y_dead].
  rewrite (ctl_flagsE (y_d s) es n f fc Els Ef eq_refl). reflexivity.
Qed.

(* ---- LCtl, any event: the potential goes down, except that a replacement worker brings its share ---- *)
(* what a worker that is started later adds: its boot sequence, one run command, one shutdown *)
Definition bootE (g : nat) : nat := wpotE c g w_init + runbE c g + sdbE c g.

Lemma muXE_ctl_gen s ev q d' outs rr :
  XE c s -> y_result s = None -> y_evq s = ev :: q ->
  d_loop_once ev (y_d s) = (d', outs, Ok tt) ->
  let s' := set_result (apply_outs (set_d (set_evq s q) d') outs) rr in
  (d_next_gw d' = d_next_gw (y_d s) /\ muXE c s' + 1 <= muXE c s) \/
  (d_next_gw d' = S (d_next_gw (y_d s)) /\ muXE c s' + 1 <= muXE c s + bootE (d_next_gw (y_d s))).
Proof.
  intros X Eres Eevq El. cbv zeta. pose proof X as [Lo Hi (es & DJd & NIs) Eq Eu Ea Er Edead Efin].
  specialize (Ea Eres).
  pose proof (pre_from_invX c s es ev q X DJd NIs Eevq) as Hpre.
  destruct (loop_once_okX N X0 Hpos ev _ es d' outs _ DJd Hpre El) as (_ & es' & vo & Eo & E & DJ2 & _).
  pose proof DJ2 as ([Els' J' _ _ _ _ _ _ _] & _).
  pose proof DJd as ([Els J _ Act _ _ _ _ _] & _).
  set (G := d_next_gw (y_d s)) in *.
  assert (HOOK : forall h, In (OHook h) outs <-> In (OHook h) vo).
  { intros h. rewrite Eo. apply (In_vfilter_hook N X0). }
  assert (SPID : forall id sp, In (OHook (HSpawn id sp)) outs -> id = G /\ d_next_gw d' = S G).
  { intros id sp Hin. apply HOOK in Hin. exact (hx_sp _ _ _ _ _ _ _ _ E id sp Hin). }
  assert (OUTG : forall m, G <= m -> cmds_to m outs = []).
  { intros m Hm. rewrite Eo, cmds_to_vfilter, (hx_out _ _ _ _ _ _ _ _ E m Hm). destruct (closedb (e_nt es) m); reflexivity. }
  set (sA := set_d (set_evq s q) d').
  destruct (apply_outs_frame outs sA) as (F1 & F2 & F3). cbn [sA set_d set_evq y_evq y_d y_dead] in F1, F2, F3.
  assert (UP : forall k, alist_get [] k (y_up (apply_outs sA outs)) = alist_get [] k (y_up s)).
  { intros k. rewrite apply_outs_up; [reflexivity|]. intros id sp Hin. destruct (SPID _ _ Hin) as (-> & _).
    cbn [sA set_d set_evq y_up]. apply (Hi G). lia. }
  assert (DOWN : forall k, alist_get [] k (y_down (apply_outs sA outs)) =
            if mem_nat k (y_dead s) then alist_get [] k (y_down s) else alist_get [] k (y_down s) ++ cmds_to k outs).
  { intros k. rewrite apply_outs_down; [reflexivity|]. intros id sp Hin. destruct (SPID _ _ Hin) as (-> & _).
    split; [apply OUTG; lia|]. cbn [sA set_d set_evq y_down]. apply (Hi G). lia. }
  assert (WOLD : forall k, k < G -> aget k (y_w (apply_outs sA outs)) = aget k (y_w s)).
  { intros k Hk. rewrite apply_outs_w_none; [reflexivity|]. intros sp Hin. destruct (SPID _ _ Hin) as (-> & _). lia. }
  set (s1 := apply_outs sA outs) in *.
  (* the nodes' shares *)
  set (extra := fun k => if mem_nat k (y_dead s) then 0 else dcostE c k (cmds_to k outs)).
  assert (Enode : forall k, k < G -> nodepotXE c (set_result s1 rr) k = nodepotXE c s k + extra k).
  { intros k Hk. unfold nodepotXE, extra. cbn [set_result y_up y_down y_w y_dead]. rewrite F3, UP, DOWN, (WOLD k Hk).
    destruct (mem_nat k (y_dead s)); [lia|]. unfold dcostE. rewrite sumf_app. lia. }
  (* per node: the commands sent are paid for by the node's budget *)
  assert (Hnode : forall k, In k (seq 0 G) -> extra k + sdnXE c es' k <= sdnXE c es k).
  { intros k Hk. apply in_seq in Hk. assert (HkG : k < G) by lia.
    destruct (aget k (e_nt es)) as [f|] eqn:Ef; [|exfalso; apply (proj2 (ex_ntk _ _ _ _ J k) HkG); exact Ef].
    pose proof (hx_fx _ _ _ _ _ _ _ _ E k HkG) as R. rewrite Ef in R.
    destruct (aget k (e_nt es')) as [f'|] eqn:Ef'; [|destruct R]. cbn [FXo] in R.
    rewrite <- (Hcoh k) in R. fold (KE c k) in R.
    pose proof (FX_costXE c k _ _ _ _ _ R) as Z.
    unfold sdnXE. rewrite Ef, Ef'.
    assert (CM : cmds_to k outs = if closedb (e_nt es) k then [] else cmds_to k vo) by (rewrite Eo; apply cmds_to_vfilter).
    unfold extra. rewrite CM. destruct (mem_nat k (y_dead s)); [lia|].
    destruct (closedb (e_nt es) k); [unfold dcostE at 1; rewrite sumf_nil; lia|lia]. }
  assert (Hsum : sumf extra (seq 0 G) + sumf (sdnXE c es') (seq 0 G) <= sumf (sdnXE c es) (seq 0 G)).
  { rewrite <- sumf_add. apply sumf_le_in. exact Hnode. }
  assert (EnodeS : sumf (nodepotXE c (set_result s1 rr)) (seq 0 G) = sumf (nodepotXE c s) (seq 0 G) + sumf extra (seq 0 G)).
  { rewrite <- sumf_add. apply sumf_ext_in. intros k Hk. apply Enode. apply in_seq in Hk. lia. }
  destruct (hx_gw _ _ _ _ _ _ _ _ E) as [Fg|(Fg & (fg & Efg & (Hfs & _)) & _ & _ & _ & Hnst)]; fold G in Fg; [left|right];
    (split; [exact Fg|]).
  - unfold muXE. cbn [set_result y_d y_evq]. rewrite F1, F2, Fg. fold G. rewrite EnodeS.
    unfold ctlpotXE. rewrite Els', Els, Eevq, Fg. fold G. cbn [length]. lia.
  - fold G in Efg, Hnst.
    assert (SPW : aget G (y_w s1) = Some w_init).
    { apply apply_outs_spawned. right. destruct (hx_spx _ _ _ _ _ _ _ _ E Fg) as (sp & Hin). fold G in Hin.
      exists sp. apply HOOK. exact Hin. }
    assert (NDG : mem_nat G (y_dead s) = false).
    { apply mem_nat_false. intros Hin. pose proof (Edead G Hin). fold G in H. lia. }
    assert (EG : nodepotXE c (set_result s1 rr) G = wpotE c G w_init).
    { unfold nodepotXE. cbn [set_result y_up y_down y_w y_dead]. rewrite F3, UP, DOWN, NDG, SPW, (OUTG G (le_n G)).
      destruct (Hi G (le_n G)) as (_ & U0 & D0). rewrite U0, D0. unfold dcostE. cbn. lia. }
    assert (ESD : sdnXE c es' G = runbE c G + sdbE c G).
    { unfold sdnXE. rewrite Efg. unfold sdtermXE, stb. rewrite (proj2 (mem_nat_false _ _) Hnst), Hfs. reflexivity. }
    unfold muXE. cbn [set_result y_d y_evq]. rewrite F1, F2, Fg. fold G. rewrite !sumf_seq_S', EnodeS, EG.
    unfold ctlpotXE. rewrite Els', Els, Eevq, Fg. fold G. rewrite sumf_seq_S', ESD. unfold bootE. cbn [length]. lia.
Qed.

(* ---- LCtl, any event but errordown: the potential goes down, the number of deaths to come does not go up ---- *)
Lemma muXE_ctl s ev q d' outs rr :
  XE c s -> y_result s = None -> y_evq s = ev :: q -> (forall n, ev <> QErrorDown n) ->
  d_loop_once ev (y_d s) = (d', outs, Ok tt) ->
  let s' := set_result (apply_outs (set_d (set_evq s q) d') outs) rr in
  muXE c s' + 1 <= muXE c s /\ KcE (y_d s') <= KcE (y_d s).
Proof.
  intros X Eres Eevq Hne El. cbv zeta. pose proof X as [Lo Hi (es & DJd & NIs) Eq Eu Ea Er Edead Efin].
  pose proof (pre_from_invX c s es ev q X DJd NIs Eevq) as Hpre.
  destruct (loop_once_okX N X0 Hpos ev _ es d' outs _ DJd Hpre El) as (_ & es' & vo & Eo & E & DJ2 & _).
  assert (Hdeath : death_event ev = false).
  { destruct ev as [| | | | | | | | | |n sk|n]; try reflexivity.
    - destruct sk; try reflexivity. cbn in Hpre. contradiction.
    - exfalso. exact (Hne n eq_refl). }
  destruct (loop_quietE _ _ _ _ _ Hdeath El) as ((Ffl & Fm & Fg) & NSP0).
  split.
  - destruct (muXE_ctl_gen s ev q d' outs rr X Eres Eevq El) as [(_ & A)|(A & _)]; [exact A|lia].
  - destruct (apply_outs_frame outs (set_d (set_evq s q) d')) as (_ & F2 & _). cbn [set_d y_d] in F2.
    cbn [set_result y_d]. rewrite F2. unfold KcE, Rem. rewrite Fg, Ffl, Fm.
    set (G := d_next_gw (y_d s)) in *.
    assert (Z : sumf (actn d') (seq 0 G) <= sumf (actn (y_d s)) (seq 0 G)); [|lia].
    apply sumf_le_in. intros k Hk. unfold actn.
    destruct (mem_nat k (d_active d')) eqn:E1; [|destruct (mem_nat k (d_active (y_d s))); lia].
    apply mem_nat_In in E1. destruct (hx_actb _ _ _ _ _ _ _ _ E k E1) as [A|(A & B)].
    + apply mem_nat_In in A. rewrite A. lia.
    + fold G in B. lia.
Qed.

(* ---- LCtl, errordown: the number of deaths the session can still see goes down ---- *)
Lemma KcE_errordown s n q d' outs :
  XE c s -> y_result s = None -> y_evq s = QErrorDown n :: q -> d_max_restart (y_d s) <> None ->
  d_loop_once (QErrorDown n) (y_d s) = (d', outs, Ok tt) -> KcE d' < KcE (y_d s).
Proof.
  intros X Eres Eevq Hmr El. pose proof X as [Lo Hi (es & DJd & NIs) Eq Eu Ea Er Edead Efin].
  pose proof (pre_from_invX c s es _ q X DJd NIs Eevq) as Hpre0. pose proof Hpre0 as Hpre. cbn [PREx] in Hpre.
  destruct (loop_once_okX N X0 Hpos _ _ es d' outs _ DJd Hpre0 El) as (_ & es' & vo & Eo & E & DJ2 & _).
  pose proof DJd as ([Els J _ Act _ _ _ _ _] & _).
  pose proof (Act n Hpre) as HnG.
  destruct (hx_err _ _ _ _ _ _ _ _ E n eq_refl) as (_ & Hna').
  destruct (loop_once_step _ _ _ _ _ El) as (Fm & Ffl & _ & SP).
  set (G := d_next_gw (y_d s)) in *.
  assert (OLD : forall k, k < G -> actn d' k <= actn (y_d s) k).
  { intros k Hk. unfold actn. destruct (mem_nat k (d_active d')) eqn:E1; [|destruct (mem_nat k (d_active (y_d s))); lia].
    apply mem_nat_In in E1. destruct (hx_actb _ _ _ _ _ _ _ _ E k E1) as [A|(A & B)].
    - apply mem_nat_In in A. rewrite A. lia.
    - fold G in A. lia. }
  assert (STRICT : sumf (actn d') (seq 0 G) + 1 <= sumf (actn (y_d s)) (seq 0 G)).
  { apply (sumf_strict_one _ _ _ n).
    - apply in_seq. lia.
    - intros k Hk. apply OLD. apply in_seq in Hk. lia.
    - unfold actn. rewrite (proj2 (mem_nat_false _ _) Hna'), (proj2 (mem_nat_In _ _) Hpre). lia. }
  destruct (d_max_restart (y_d s)) as [m0|] eqn:Emr; [|contradiction].
  unfold KcE, Rem. rewrite Fm, Emr. fold G.
  destruct SP as [(_ & G0)|(_ & G1 & BA & F1 & _)].
  - rewrite G0. fold G. lia.
  - rewrite G1. fold G. rewrite sumf_seq_S'. unfold budget_allows in BA. rewrite Emr in BA.
    apply negb_true_iff, Z.ltb_ge in BA. rewrite F1.
    assert (actn d' G <= 1) by (unfold actn; destruct (mem_nat G (d_active d')); lia). lia.
Qed.

(* ---- every useful move and every crash ---- *)
(* ulabel (useful or a crash label) and the lexicographic order lexlt are those of CrashTermination.v *)
(* everything but the controller's main loop: the potential goes down, the controller's counters stay *)
Lemma step_coreE s l s' o w :
  XE c s -> ulabel s l -> sys_step c s l = Some (s', o, w) -> l <> LCtl ->
  muXE c s' + 1 <= muXE c s /\ KcE (y_d s') = KcE (y_d s) /\
  d_next_gw (y_d s') = d_next_gw (y_d s) /\ Rem (y_d s') = Rem (y_d s).
Proof.
  intros X Hu H Hnc. pose proof X as [Lo Hi (es & DJd & NIs) Eq Eu Ea Er Edead Efin].
  pose proof DJd as ([Els J _ _ _ _ _ _ _] & _).
  assert (SAME_D : forall s2, y_d s2 = y_d s -> muXE c s2 + 1 <= muXE c s ->
            muXE c s2 + 1 <= muXE c s /\ KcE (y_d s2) = KcE (y_d s) /\
            d_next_gw (y_d s2) = d_next_gw (y_d s) /\ Rem (y_d s2) = Rem (y_d s)).
  { intros s2 Ed Hm. rewrite Ed. auto. }
  unfold sys_step in H. destruct (y_result s) eqn:Eres; [discriminate|].
  destruct l as [n0|n0|n0|n0| |n0].
  - (* LDeliver *)
    destruct (mem_nat n0 (y_dead s)) eqn:Hd; [discriminate|].
    destruct (aget n0 (y_down s)) as [[|cmd rest]|] eqn:Ed; try discriminate.
    destruct (aget n0 (y_w s)) as [w0|] eqn:Ew; try discriminate.
    inv H. pose proof (worker_ltX c s n0 w0 X Ew) as HnG.
    apply SAME_D; [reflexivity|].
    apply (mu_node_stepXE _ _ n0); auto.
    + intros n Hn. unfold nodepotXE. cbn [y_up y_down y_w y_dead]. rewrite alist_get_aset_neq, aget_aset_neq by exact Hn. reflexivity.
    + unfold nodepotXE. cbn [y_up y_down y_w y_dead]. rewrite Hd, alist_get_aset_eq, aget_aset_eq, Ew, (alist_get_some [] _ _ _ Ed).
      rewrite deliver_potE. unfold dcostE. rewrite sumf_cons. lia.
  - (* LRecvW *)
    destruct (mem_nat n0 (y_dead s)) eqn:Hd; [discriminate|].
    destruct (aget n0 (y_w s)) as [w0|] eqn:Ew; try discriminate.
    destruct Hu as [Hu|(k & F)]; [|discriminate]. cbn [useful] in Hu. rewrite Ew in Hu.
    destruct (negb (wcb w0)); [discriminate|].
    destruct (recv_step (c_oracle c n0) w0) as [w' evs] eqn:Es. inv H.
    pose proof (worker_ltX c s n0 w0 X Ew) as HnG.
    destruct (NIs n0 w0 Ew) as (Iw & NGw & D). rewrite Hd in D. destruct D as [D1 _ _ _ _].
    destruct (NEX_recv X0 (c_oracle c n0) _ _ _ _ _ _ _ (Hcoh n0) D1) as (Ev & _). rewrite Es in Ev. cbn [snd] in Ev. subst evs.
    pose proof (recv_step_potX c n0 w0 (proj1 (nx_cmds _ _ _ _ _ _ _ _ D1)) (proj1 (nx_wx _ _ _ _ _ _ _ _ D1)) Hu) as Z.
    rewrite Es in Z. cbn [fst] in Z.
    apply SAME_D; [reflexivity|].
    apply (mu_node_stepXE _ _ n0); auto.
    + intros n Hn. unfold nodepotXE. cbn [push_up set_w y_up y_down y_w y_dead].
      rewrite alist_get_aset_neq, aget_aset_neq by exact Hn. reflexivity.
    + unfold nodepotXE. cbn [push_up set_w y_up y_down y_w y_dead map]. rewrite Hd, alist_get_aset_eq, aget_aset_eq, Ew, app_nil_r. lia.
  - (* LMain *)
    destruct (mem_nat n0 (y_dead s)) eqn:Hd; [discriminate|].
    destruct (aget n0 (y_w s)) as [w0|] eqn:Ew; try discriminate.
    destruct (dies_now c n0 w0) eqn:Edie.
    + inv H.
      assert (Hph : wph w0 <> PExited) by (unfold dies_now in Edie; destruct (wph w0); discriminate).
      exact (muXE_crash s n0 w0 X Hd Ew Hph).
    + destruct (main_step (c_oracle c n0) w0) as [[w' evs]|] eqn:Es; [|discriminate]. inv H.
      pose proof (worker_ltX c s n0 w0 X Ew) as HnG.
      pose proof (main_step_potE c n0 w0 w' evs Es) as Z.
      apply SAME_D; [reflexivity|].
      apply (mu_node_stepXE _ _ n0); auto.
      * intros n Hn. unfold nodepotXE. cbn [push_up set_w y_up y_down y_w y_dead].
        rewrite alist_get_aset_neq, aget_aset_neq by exact Hn. reflexivity.
      * unfold nodepotXE. cbn [push_up set_w y_up y_down y_w y_dead]. rewrite Hd, alist_get_aset_eq, aget_aset_eq, Ew, app_length, map_length. lia.
  - (* LRecv *)
    destruct (aget n0 (y_up s)) as [[|m rest]|] eqn:Eup; try discriminate.
    cbn [y_d] in H.
    destruct (process_from_remote n0 m (y_d s)) as [[d' outs] r] eqn:Ep.
    destruct (step_recvX c Hpos Hrq s n0 m rest d' outs r X Eup Ep) as (-> & evs & -> & X2 & _).
    rewrite Eres in X2. cbn [apply_outs] in H. inv H.
    pose proof (Eu n0) as En. rewrite (alist_get_some [] _ _ _ Eup) in En. inversion En as [|m1 r1 Gm Gr]; subst.
    assert (Hm : m <> UBad) by (intros ->; exact Gm).
    pose proof (pfr_len' c Hpos _ _ _ _ _ _ Hm Ep) as Hlen.
    match goal with |- context [close_if_dead ?S2 n0] => set (s2 := S2) in * end.
    destruct (muXE_close s2 n0 X2) as (M1 & M2 & M3 & M4). rewrite M1, M2, M3, M4.
    assert (HnG : n0 < d_next_gw (y_d s)).
    { destruct (Nat.lt_ge_cases n0 (d_next_gw (y_d s))) as [Hl|Hl]; [exact Hl|].
      destruct (Hi n0 Hl) as (_ & F & _). rewrite (alist_get_some [] _ _ _ Eup) in F. discriminate. }
    assert (FLD : ctlpotXE c d' = ctlpotXE c (y_d s) /\ d_next_gw d' = d_next_gw (y_d s) /\ KcE d' = KcE (y_d s) /\
                  Rem d' = Rem (y_d s)).
    { destruct (CrashProgress.pfr_shape' _ _ _ _ _ _ Hm Ep) as [->|(f & Ef & ->)]; [auto|].
      rewrite (d_nt_E _ _ Els) in Ef. split; [|split; [|split]; reflexivity].
      apply (ctl_flagsE _ es n0 f); auto. }
    destruct FLD as (CT & EG & EK & ER).
    cbn [s2 set_evq set_d y_d]. split; [|auto].
    unfold muXE. cbn [s2 set_evq set_d y_d y_evq]. rewrite CT, EG, app_length.
    set (G := d_next_gw (y_d s)) in *.
    pose proof (sumf_change_one (nodepotXE c s) (nodepotXE c s2) (seq 0 G) n0 (seq_NoDup G 0)) as Z.
    assert (Hin : In n0 (seq 0 G)) by (apply in_seq; lia).
    assert (Hoth : forall n, In n (seq 0 G) -> n <> n0 -> nodepotXE c s2 n = nodepotXE c s n).
    { intros n _ Hn. unfold nodepotXE, s2. cbn [set_evq set_d y_up y_down y_w y_dead]. rewrite alist_get_aset_neq by exact Hn. reflexivity. }
    specialize (Z Hin Hoth).
    assert (Hn0 : nodepotXE c s2 n0 + 2 = nodepotXE c s n0).
    { unfold nodepotXE, s2. cbn [set_evq set_d y_up y_down y_w y_dead]. rewrite alist_get_aset_eq, (alist_get_some [] _ _ _ Eup). cbn [length]. lia. }
    lia.
  - contradiction.
  - (* LCrash *)
    destruct (mem_nat n0 (y_dead s)) eqn:Hd; [discriminate|].
    destruct (aget n0 (y_w s)) as [w0|] eqn:Ew; try discriminate.
    assert (Hph : wph w0 <> PExited) by (intros F; rewrite F in H; discriminate).
    assert (E : s' = crash_worker c s n0) by (destruct (wph w0); try discriminate; inv H; reflexivity).
    subst s'. exact (muXE_crash s n0 w0 X Hd Ew Hph).
Qed.

(* the shape of a step of the controller's main loop in a state that satisfies the invariant *)
Lemma step_ctl_shapeE s s' o w :
  XE c s -> sys_step c s LCtl = Some (s', o, w) ->
  y_result s' <> None \/
  exists ev q d' outs, y_result s = None /\ y_evq s = ev :: q /\ d_loop_once ev (y_d s) = (d', outs, Ok tt) /\
    s' = set_result (apply_outs (set_d (set_evq s q) d') outs) None.
Proof.
  intros X H. pose proof X as [Lo Hi (es & DJd & NIs) Eq Eu Ea Er Edead Efin].
  unfold sys_step in H. destruct (y_result s) eqn:Eres; [discriminate|].
  specialize (Ea eq_refl).
  destruct (d_active (y_d s)) as [|a0 ar] eqn:Eact; [contradiction|].
  destruct (y_evq s) as [|ev q] eqn:Eevq; [discriminate|].
  destruct (d_loop_once ev (y_d s)) as [[d' outs] r] eqn:El.
  destruct (step_ctl_coreX c Hpos Hrq s ev q d' outs r X Eres Eevq El) as (-> & _).
  destruct (d_session_finished d').
  - inv H. left. cbn. destruct (d_shouldstop d'); discriminate.
  - destruct (d_active d') as [|b0 br].
    + left. destruct (d_no_active d') as [[d2 o2] r2]. inv H. cbn. discriminate.
    + assert (Er1 : y_result (apply_outs (set_d (set_evq s q) d') outs) = None).
      { rewrite apply_outs_result. cbn. exact Eres. }
      inv H. right. exists ev, q, d', o. split; [first [reflexivity|exact Eres]|]. split; [first [reflexivity|exact Eevq]|]. split; [exact El|].
      symmetry. apply set_result_same'. exact Er1.
Qed.

Theorem step_lexE s l s' o w :
  XE c s -> d_max_restart (y_d s) <> None -> ulabel s l -> sys_step c s l = Some (s', o, w) ->
  y_result s' <> None \/ lexlt (measE c s') (measE c s).
Proof.
  intros X Hmr Hu H.
  destruct (label_eq_ctl l) as [->|Hnc].
  - destruct (step_ctl_shapeE s s' o w X H) as [Hr|(ev & q & d' & outs & Eres & Eevq & El & ->)]; [left; exact Hr|right].
    assert (DEC : (exists n, ev = QErrorDown n) \/ (forall n, ev <> QErrorDown n)).
    { destruct ev; try (right; intros ? F; discriminate). left. eexists. reflexivity. }
    destruct DEC as [(n & ->)|Hne].
    + pose proof (KcE_errordown s n q d' outs X Eres Eevq Hmr El) as A.
      destruct (apply_outs_frame outs (set_d (set_evq s q) d')) as (_ & F2 & _). cbn [set_d y_d] in F2.
      unfold measE. cbn [set_result y_d fst snd]. rewrite F2. left. cbn. exact A.
    + destruct (muXE_ctl s ev q d' outs None X Eres Eevq Hne El) as (A & B). cbv zeta in A, B.
      right. unfold measE. cbn [fst snd]. lia.
  - destruct (step_coreE s l s' o w X Hu H Hnc) as (A & B & _). right. right. unfold measE. cbn [fst snd]. lia.
Qed.

(* ---- an explicit potential: the replacements that may still be started are paid in advance ---- *)
Definition PhiE (s : sys) : nat := muXE c s + sumf bootE (seq (d_next_gw (y_d s)) (Rem (y_d s))).

Theorem step_phiE s l s' o w :
  XE c s -> d_max_restart (y_d s) <> None -> ulabel s l -> sys_step c s l = Some (s', o, w) ->
  y_result s' <> None \/ PhiE s' + 1 <= PhiE s.
Proof.
  intros X Hmr Hu H.
  destruct (label_eq_ctl l) as [->|Hnc].
  - destruct (step_ctl_shapeE s s' o w X H) as [Hr|(ev & q & d' & outs & Eres & Eevq & El & ->)]; [left; exact Hr|right].
    destruct (apply_outs_frame outs (set_d (set_evq s q) d')) as (_ & F2 & _). cbn [set_d y_d] in F2.
    unfold PhiE. cbn [set_result y_d]. rewrite F2.
    destruct (loop_once_step _ _ _ _ _ El) as (Fm & Ffl & _ & SP).
    destruct (d_max_restart (y_d s)) as [m0|] eqn:Emr; [|contradiction].
    set (G := d_next_gw (y_d s)) in *.
    destruct (muXE_ctl_gen s ev q d' outs None X Eres Eevq El) as [(Fg & A)|(Fg & A)]; cbv zeta in A; fold G in Fg, A; rewrite Fg.
    + assert (HR : Rem d' <= Rem (y_d s)) by (unfold Rem; rewrite Fm, Emr; lia).
      pose proof (sumf_seq_le bootE G _ _ HR). lia.
    + destruct SP as [(_ & G0)|(_ & G1 & BA & F1 & _)]; [fold G in G0; lia|].
      unfold budget_allows in BA. rewrite Emr in BA. apply negb_true_iff, Z.ltb_ge in BA.
      assert (HR : Rem (y_d s) = S (Rem d')) by (unfold Rem; rewrite Fm, Emr, F1; lia).
      rewrite HR. cbn [seq]. rewrite sumf_cons. lia.
  - destruct (step_coreE s l s' o w X Hu H Hnc) as (A & _ & B & C0). right. unfold PhiE. rewrite B, C0. lia.
Qed.

End StepXE.

(* ====================================================================================== *)
(* D. the theorems                                                                         *)
(* ====================================================================================== *)
(* st_after, inf_run, urun, cands, ulabel_dec, urun_ended, lexlt_wf, restart_frame are those of CrashTermination.v
   (they do not depend on the mode) *)
Lemma run_from_app c a : forall b s, run_from c s (a ++ b) = run_from c (run_from c s a) b.
Proof. intros b s. unfold run_from. apply fold_left_app. Qed.

Lemma urun_snoc c ls l : forall s,
  urun c s ls -> ulabel (run_from c s ls) l -> sys_step c (run_from c s ls) l <> None -> urun c s (ls ++ [l]).
Proof.
  induction ls as [|x r IH]; intros s H Hu He; cbn [app urun run_from fold_left] in *.
  - split; [exact Hu|]. destruct (sys_step c s l) as [[[s' o] w]|]; [exact I|congruence].
  - destruct H as (A & H). split; [exact A|].
    destruct (sys_step c s x) as [[[s' o] w]|]; [|destruct H]. apply IH; assumption.
Qed.

Section MainTE.
  Variable c : config.
  Hypothesis Hmode : c_mode c = MEach.
  Hypothesis Hnogarbled : no_garbled c.
  Hypothesis Hnodes : 0 < c_numnodes c.
  (* what `runtests_all` enumerates on a worker is the collection it reported (replacements included) *)
  Hypothesis Hcoh : forall n, ncollected (c_oracle c n) = length (c_coll c n).
  (* no plugin re-queues crash items (EachScheduling.mark_test_pending raises NotImplementedError) *)
  Hypothesis Hrq : c_requeue c = 0.
  Variable b : Z.
  Hypothesis Hbudget : c_max_restart c = Some b.

  Lemma errst_ended s : ErrStX c s -> y_result s <> None.
  Proof. intros (R & _). rewrite R. discriminate. Qed.

  Lemma no_inf_run_fromE s :
    XE c s -> d_max_restart (y_d s) <> None -> forall f, ~ inf_run c s f.
  Proof.
    intros X Hm. pose proof (lexlt_wf (measE c s)) as A. remember (measE c s) as m eqn:Em.
    revert s X Hm Em. induction A as [m _ IH]. intros s X Hm -> f Hf.
    destruct (Hf 0) as (Hu & He). cbn [st_after] in Hu, He.
    destruct (sys_step c s (f 0)) as [[[s' o] w]|] eqn:E; [|congruence].
    pose proof (inf_run_tail c s f s' o w E Hf) as Hf'.
    assert (DEAD : y_result s' <> None -> False).
    { intros Hr. destruct (Hf' 0) as (_ & He'). cbn [st_after] in He'. apply He'.
      unfold sys_step. destruct (y_result s'); [reflexivity|contradiction]. }
    destruct (step_lexE c Hnodes Hcoh Hrq s (f 0) s' o w X Hm Hu E) as [Hr|Hlt]; [exact (DEAD Hr)|].
    pose proof (step_max_restart c s (f 0) s' o w E) as Hm'.
    destruct (step_xe c Hnogarbled Hnodes Hcoh Hrq s (f 0) s' o w X E) as [X'|R].
    - apply (IH (measE c s') Hlt s' X' ltac:(congruence) eq_refl _ Hf').
    - apply DEAD. apply errst_ended. exact R.
  Qed.

  (* the lexicographic measure decreases along every useful move and every crash of a reachable state *)
  Theorem crash_each_c02_measure : forall ls l s' o w,
    ulabel (sys_run c ls) l -> sys_step c (sys_run c ls) l = Some (s', o, w) ->
    y_result s' <> None \/ lexlt (measE c s') (measE c (sys_run c ls)).
  Proof.
    intros ls l s' o w Hu E. set (s := sys_run c ls) in *.
    assert (Hr : y_result s = None) by (unfold sys_step in E; destruct (y_result s); [discriminate|reflexivity]).
    destruct (xe_run c Hmode Hnogarbled Hnodes Hcoh Hrq ls) as [X|R]; [|exfalso; exact (errst_ended _ R Hr)].
    fold s in X.
    assert (Hm : d_max_restart (y_d s) <> None).
    { pose proof (restart_frame c ls) as F. fold s in F. rewrite F, Hbudget. discriminate. }
    exact (step_lexE c Hnodes Hcoh Hrq s l s' o w X Hm Hu E).
  Qed.

  (* C02 for --dist each with worker failures, termination: from a reachable state there is no infinite
     schedule of useful moves and crashes *)
  Theorem crash_each_c02_terminates : forall ls f, ~ inf_run c (sys_run c ls) f.
  Proof.
    intros ls f. destruct (xe_run c Hmode Hnogarbled Hnodes Hcoh Hrq ls) as [X|R].
    - apply no_inf_run_fromE; [exact X|]. rewrite (restart_frame c ls), Hbudget. discriminate.
    - intros Hf. destruct (Hf 0) as (_ & He). cbn [st_after] in He. apply He.
      unfold sys_step. pose proof (errst_ended _ R) as Hr. destruct (y_result (sys_run c ls)); [reflexivity|contradiction].
  Qed.

  Corollary crash_each_c02_terminates_init : forall f, ~ inf_run c (sys_init c) f.
  Proof. exact (crash_each_c02_terminates []). Qed.

  (* ---- a bound on the length of every run of useful moves and crashes ---- *)
  Lemma enabled_in_candsE s l : XE c s -> sys_step c s l <> None -> In l (cands s).
  Proof.
    intros X H. pose proof X as [_ Hi _ _ _ _ _ _ _].
    assert (W : forall n w0, aget n (y_w s) = Some w0 -> In n (seq 0 (d_next_gw (y_d s)))).
    { intros n w0 Ew. apply in_seq. pose proof (worker_ltX c s n w0 X Ew). lia. }
    assert (IN : forall n (l0 : label), In n (seq 0 (d_next_gw (y_d s))) ->
               In l0 [LDeliver n; LRecvW n; LMain n; LRecv n; LCrash n] -> In l0 (cands s)).
    { intros n l0 Hn Hl. right. apply in_flat_map. exists n. split; assumption. }
    unfold sys_step in H. destruct (y_result s); [congruence|].
    destruct l as [n|n|n|n| |n].
    - destruct (mem_nat n (y_dead s)); [congruence|].
      destruct (aget n (y_down s)) as [[|cm rest]|]; try congruence.
      destruct (aget n (y_w s)) as [w0|] eqn:Ew; [|congruence]. eapply IN; [eapply W; eauto|cbn; auto].
    - destruct (mem_nat n (y_dead s)); [congruence|].
      destruct (aget n (y_w s)) as [w0|] eqn:Ew; [|congruence]. eapply IN; [eapply W; eauto|cbn; auto].
    - destruct (mem_nat n (y_dead s)); [congruence|].
      destruct (aget n (y_w s)) as [w0|] eqn:Ew; [|congruence]. eapply IN; [eapply W; eauto|cbn; auto].
    - destruct (aget n (y_up s)) as [[|m rest]|] eqn:Eu; try congruence.
      eapply IN; [|cbn; auto 10]. apply in_seq.
      destruct (Nat.lt_ge_cases n (d_next_gw (y_d s))) as [Hl|Hl]; [lia|].
      destruct (Hi n Hl) as (_ & F & _). rewrite (alist_get_some [] _ _ _ Eu) in F. discriminate.
    - left. reflexivity.
    - destruct (mem_nat n (y_dead s)); [congruence|].
      destruct (aget n (y_w s)) as [w0|] eqn:Ew; [|congruence]. eapply IN; [eapply W; eauto|cbn; auto 10].
  Qed.

  Lemma bounded_fromE s :
    XE c s -> d_max_restart (y_d s) <> None -> exists B, forall ls, urun c s ls -> length ls <= B.
  Proof.
    intros X Hm. pose proof (lexlt_wf (measE c s)) as A. remember (measE c s) as m eqn:Em.
    revert s X Hm Em. induction A as [m _ IH]. intros s X Hm ->.
    assert (SUCC : forall l s' o w, sys_step c s l = Some (s', o, w) -> ulabel s l ->
               exists B, forall r, urun c s' r -> length r <= B).
    { intros l s' o w E Hu.
      destruct (step_lexE c Hnodes Hcoh Hrq s l s' o w X Hm Hu E) as [Hr|Hlt].
      - exists 0. intros r. apply (urun_ended c Hnodes). exact Hr.
      - pose proof (step_max_restart c s l s' o w E) as Hm'.
        destruct (step_xe c Hnogarbled Hnodes Hcoh Hrq s l s' o w X E) as [X'|R].
        + apply (IH (measE c s') Hlt s' X' ltac:(congruence) eq_refl).
        + exists 0. intros r. apply (urun_ended c Hnodes). apply errst_ended. exact R. }
    assert (ALL : forall cs, exists B, forall l, In l cs -> forall s' o w r,
               sys_step c s l = Some (s', o, w) -> ulabel s l -> urun c s' r -> length r <= B).
    { induction cs as [|l cs IHcs]; [exists 0; intros l []|].
      destruct IHcs as (B1 & HB1).
      destruct (sys_step c s l) as [[[s' o] w]|] eqn:E.
      - destruct (ulabel_dec s l) as [Hu|Hnu].
        + destruct (SUCC l s' o w E Hu) as (B2 & HB2). exists (Nat.max B1 B2).
          intros l0 [<-|Hin] s0 o0 w0 r E0 Hu0 Hr.
          * rewrite E in E0. inv E0. specialize (HB2 r Hr). lia.
          * specialize (HB1 l0 Hin s0 o0 w0 r E0 Hu0 Hr). lia.
        + exists B1. intros l0 [<-|Hin] s0 o0 w0 r E0 Hu0 Hr; [contradiction|eapply HB1; eauto].
      - exists B1. intros l0 [<-|Hin] s0 o0 w0 r E0 Hu0 Hr; [congruence|eapply HB1; eauto]. }
    destruct (ALL (cands s)) as (B & HB). exists (S B). intros [|l r] H; [cbn; lia|].
    cbn [urun] in H. destruct H as (Hu & H).
    destruct (sys_step c s l) as [[[s' o] w]|] eqn:E; [|destruct H].
    assert (Hin : In l (cands s)) by (apply enabled_in_candsE; [exact X|congruence]).
    specialize (HB l Hin s' o w r E Hu H). cbn [length]. lia.
  Qed.

  (* C02 with worker failures, termination (bounded form): from every reachable state the runs made of useful
     moves and crashes have bounded length *)
  Theorem crash_each_c02_bounded : forall ls0, exists B, forall ls, urun c (sys_run c ls0) ls -> length ls <= B.
  Proof.
    intros ls0. destruct (xe_run c Hmode Hnogarbled Hnodes Hcoh Hrq ls0) as [X|R].
    - apply bounded_fromE; [exact X|]. rewrite (restart_frame c ls0), Hbudget. discriminate.
    - exists 0. intros ls. apply (urun_ended c Hnodes). apply errst_ended. exact R.
  Qed.

  (* ---- an explicit bound ---- *)
  (* the potential PhiE (muXE + the shares of the replacements that may still be started) decreases along every
     useful move and every crash of a reachable state *)
  Theorem crash_each_c02_potential : forall ls l s' o w,
    ulabel (sys_run c ls) l -> sys_step c (sys_run c ls) l = Some (s', o, w) ->
    y_result s' <> None \/ PhiE c s' + 1 <= PhiE c (sys_run c ls).
  Proof.
    intros ls l s' o w Hu E. set (s := sys_run c ls) in *.
    assert (Hr : y_result s = None) by (unfold sys_step in E; destruct (y_result s); [discriminate|reflexivity]).
    destruct (xe_run c Hmode Hnogarbled Hnodes Hcoh Hrq ls) as [X|R]; [|exfalso; exact (errst_ended _ R Hr)].
    fold s in X.
    assert (Hm : d_max_restart (y_d s) <> None).
    { pose proof (restart_frame c ls) as F. fold s in F. rewrite F, Hbudget. discriminate. }
    exact (step_phiE c Hnodes Hcoh Hrq s l s' o w X Hm Hu E).
  Qed.

  Lemma urun_bound_fromE ls : forall s,
    XE c s -> d_max_restart (y_d s) <> None -> urun c s ls -> length ls <= PhiE c s + 1.
  Proof.
    induction ls as [|l r IH]; intros s X Hm H; [cbn; lia|]. cbn [urun] in H. destruct H as (Hu & H).
    destruct (sys_step c s l) as [[[s' o] w]|] eqn:E; [|destruct H].
    destruct (step_phiE c Hnodes Hcoh Hrq s l s' o w X Hm Hu E) as [Hr|Hlt].
    - pose proof (urun_ended c Hnodes s' r Hr H). cbn [length]. lia.
    - pose proof (step_max_restart c s l s' o w E) as Hm'.
      destruct (step_xe c Hnogarbled Hnodes Hcoh Hrq s l s' o w X E) as [X'|R].
      + specialize (IH s' X' ltac:(congruence) H). cbn [length]. lia.
      + pose proof (urun_ended c Hnodes s' r (errst_ended _ R) H). cbn [length]. lia.
  Qed.

  (* C02 with worker failures, termination (explicit bound): a run of useful moves and crashes from a reachable
     state s is at most PhiE c s + 1 long *)
  Theorem crash_each_c02_bound : forall ls0 ls,
    urun c (sys_run c ls0) ls -> length ls <= PhiE c (sys_run c ls0) + 1.
  Proof.
    intros ls0 ls H. destruct (xe_run c Hmode Hnogarbled Hnodes Hcoh Hrq ls0) as [X|R].
    - apply urun_bound_fromE; [exact X| |exact H]. rewrite (restart_frame c ls0), Hbudget. discriminate.
    - pose proof (urun_ended c Hnodes _ ls (errst_ended _ R) H). lia.
  Qed.

  Corollary crash_each_c02_bound_init : forall ls, urun c (sys_init c) ls -> length ls <= PhiE c (sys_init c) + 1.
  Proof. intros ls H. exact (crash_each_c02_bound [] ls H). Qed.

  (* ---- maximal runs: needs "no stand-off", i.e. the hypotheses of ProgressEachCrash.v ---- *)
  Hypothesis Hsame : forall n, c_coll c n = c_coll c 0.
  Hypothesis Hids : ~ In ""%string (c_coll c 0).

  Lemma Hcoh0 : forall n, ncollected (c_oracle c n) = length (c_coll c 0).
  Proof. intros n. rewrite Hcoh, Hsame. reflexivity. Qed.

  (* a reachable state in which no useful non-crash move is enabled has ended the session *)
  Theorem crash_each_c02_maximal_run_ends : forall ls,
    (forall l, no_crash_label l -> useful (sys_run c ls) l = true -> sys_step c (sys_run c ls) l = None) ->
    y_result (sys_run c ls) <> None.
  Proof.
    intros ls Hmax Hres.
    destruct (ProgressEachCrash.c02_each_crash_no_deadlock_useful c Hmode Hnogarbled Hsame Hcoh0 Hids Hnodes ls Hres)
      as (l & A & B0 & C0).
    apply C0. apply Hmax; assumption.
  Qed.

  (* a run of useful moves and crashes (from any reachable state) that cannot be extended has ended the session *)
  Theorem crash_each_c02_maximal_urun_ends : forall ls0 ls,
    urun c (sys_run c ls0) ls -> (forall l, ~ urun c (sys_run c ls0) (ls ++ [l])) ->
    y_result (sys_run c (ls0 ++ ls)) <> None.
  Proof.
    intros ls0 ls H Hmax.
    assert (E : sys_run c (ls0 ++ ls) = run_from c (sys_run c ls0) ls).
    { rewrite !sys_run_from. apply run_from_app. }
    apply crash_each_c02_maximal_run_ends. intros l Hl Hu.
    destruct (sys_step c (sys_run c (ls0 ++ ls)) l) eqn:Es; [|reflexivity]. exfalso.
    apply (Hmax l). apply urun_snoc; [exact H|rewrite <- E; left; exact Hu|rewrite <- E, Es; discriminate].
  Qed.

  Corollary crash_each_c02_maximal_urun_ends_init : forall ls,
    urun c (sys_init c) ls -> (forall l, ~ urun c (sys_init c) (ls ++ [l])) -> y_result (sys_run c ls) <> None.
  Proof. intros ls H Hmax. exact (crash_each_c02_maximal_urun_ends [] ls H Hmax). Qed.

  (* ... and it has ended as "finished", "interrupted" or with the documented RuntimeError("no active workers") *)
  Corollary crash_each_c02_maximal_urun_result : forall ls0 ls,
    urun c (sys_run c ls0) ls -> (forall l, ~ urun c (sys_run c ls0) (ls ++ [l])) ->
    let r := y_result (sys_run c (ls0 ++ ls)) in
    r = Some RFinished \/ r = Some RInterrupted \/ r = Some (RError ERuntimeNoWorkers).
  Proof.
    intros ls0 ls H Hmax. cbv zeta. pose proof (crash_each_c02_maximal_urun_ends ls0 ls H Hmax) as Hne.
    pose proof (crash_each_c17 c (ls0 ++ ls) Hmode Hnogarbled Hnodes Hcoh Hrq) as C17.
    destruct (y_result (sys_run c (ls0 ++ ls))) as [[| |e]|]; auto; [|contradiction].
    right. right. rewrite (C17 e eq_refl). reflexivity.
  Qed.
End MainTE.

Check step_lexE.
Print Assumptions step_lexE.
Check crash_each_c02_measure.
Print Assumptions crash_each_c02_measure.
Check crash_each_c02_terminates.
Print Assumptions crash_each_c02_terminates.
Check crash_each_c02_bounded.
Print Assumptions crash_each_c02_bounded.
Check step_phiE.
Print Assumptions step_phiE.
Check crash_each_c02_potential.
Print Assumptions crash_each_c02_potential.
Check crash_each_c02_bound.
Print Assumptions crash_each_c02_bound.
Check crash_each_c02_bound_init.
Check crash_each_c02_maximal_run_ends.
Print Assumptions crash_each_c02_maximal_run_ends.
Check crash_each_c02_maximal_urun_ends.
Print Assumptions crash_each_c02_maximal_urun_ends.
Check crash_each_c02_maximal_urun_result.
Print Assumptions crash_each_c02_maximal_urun_result.

(* ====================================================================================== *)
(* Non-vacuity                                                                             *)
(* ====================================================================================== *)
Import ProgressEach. Import ProgressEachCrash.
Definition is_crashb (l : label) : bool := match l with LCrash _ => true | _ => false end.
Fixpoint urunb (c : config) (s : sys) (ls : list label) : bool :=
  match ls with
  | [] => true
  | l :: r => (useful s l || is_crashb l) &&
              match sys_step c s l with Some (s', _, _) => urunb c s' r | None => false end
  end.
Lemma urunb_ok c ls : forall s, urunb c s ls = true -> urun c s ls.
Proof.
  induction ls as [|l r IH]; intros s H; [exact I|]. cbn [urunb] in H. apply andb_true_iff in H. destruct H as (A & H).
  cbn [urun]. split.
  - apply orb_true_iff in A. destruct A as [A|A]; [left; exact A|right]. destruct l; try discriminate. eexists. reflexivity.
  - destruct (sys_step c s l) as [[[s' o] w]|]; [apply IH; exact H|discriminate].
Qed.
(* keep, from a candidate schedule, the moves that are enabled and useful or crashes *)
Fixpoint ufilter (c : config) (s : sys) (ls : list label) : list label :=
  match ls with
  | [] => []
  | l :: r =>
      if useful s l || is_crashb l then
        match sys_step c s l with Some (s', _, _) => l :: ufilter c s' r | None => ufilter c s r end
      else ufilter c s r
  end.
Definition lexltb (a b : nat * nat) : bool := (fst a <? fst b) || ((fst a <=? fst b) && (snd a <? snd b)).
(* along the schedule, every step ends the session or makes both measures smaller *)
Fixpoint decr_trace (c : config) (s : sys) (ls : list label) : bool :=
  match ls with
  | [] => true
  | l :: r => match sys_step c s l with
              | Some (s', _, _) =>
                  (match y_result s' with Some _ => true | None => false end ||
                   (lexltb (measE c s') (measE c s) && (PhiE c s' + 1 <=? PhiE c s))) && decr_trace c s' r
              | None => false
              end
  end.
Fixpoint meas_trace (c : config) (s : sys) (ls : list label) : list (nat * nat * nat) :=
  match ls with
  | [] => [(measE c s, PhiE c s)]
  | l :: r => (measE c s, PhiE c s) :: match sys_step c s l with Some (s', _, _) => meas_trace c s' r | None => [] end
  end.

(* (a) ProgressEachCrash.ecp_cfg: two workers, both die on entering test 0, budget 4, all collect [a; b; c];
   replacement 2 is killed from outside on top of that.  The useful moves and crashes of the fair schedule:
   123 moves (one of them LCrash 2), the session ends as "finished" with three dead workers; the measure
   starts at (6, 122) (2 active nodes + budget 4), the explicit potential at 366 *)
Definition ecx_ls : list label :=
  ufilter ecp_cfg (sys_init ecp_cfg)
    (ecp_sched ++ c01_rep 60 (each_round4 ++ [LMain 4; LRecvW 4; LDeliver 4; LRecv 4])).
Example ecx_run :
  measE ecp_cfg (sys_init ecp_cfg) = (6, 122) /\ PhiE ecp_cfg (sys_init ecp_cfg) = 366 /\
  length ecx_ls = 123 /\ filter is_crashb ecx_ls = [LCrash 2] /\
  urun ecp_cfg (sys_init ecp_cfg) ecx_ls /\
  y_result (sys_run ecp_cfg ecx_ls) = Some RFinished /\ y_dead (sys_run ecp_cfg ecx_ls) = [2; 1; 0] /\
  decr_trace ecp_cfg (sys_init ecp_cfg) ecx_ls = true.
Proof.
  split; [vm_compute; reflexivity|]. split; [vm_compute; reflexivity|]. split; [vm_compute; reflexivity|].
  split; [vm_compute; reflexivity|]. split; [apply urunb_ok; vm_compute; reflexivity|].
  split; [vm_compute; reflexivity|]. split; vm_compute; reflexivity.
Qed.
(* (number of deaths to come, potential, explicit potential) around the three errordown iterations of that run:
   the potential jumps up when a replacement boots, the first component goes down, the explicit potential goes
   down by one *)
Example ecx_trace :
  let tr := meas_trace ecp_cfg (sys_init ecp_cfg) ecx_ls in
  firstn 6 (skipn 34 tr) = [(6, 4, 248); (6, 3, 247); (6, 2, 246); (5, 62, 245); (5, 61, 244); (5, 60, 243)] /\
  firstn 3 (skipn 39 tr) = [(5, 60, 243); (4, 120, 242); (4, 119, 241)] /\
  firstn 3 (skipn 55 tr) = [(4, 58, 180); (4, 57, 179); (3, 117, 178)] /\
  last tr (0, 0, 0) = (1, 4, 65).
Proof. vm_compute. repeat split. Qed.

Lemma ecx_hyps :
  c_mode ecp_cfg = MEach /\ no_garbled ecp_cfg /\ 0 < c_numnodes ecp_cfg /\
  (forall n, ncollected (c_oracle ecp_cfg n) = length (c_coll ecp_cfg n)) /\
  c_requeue ecp_cfg = 0 /\ c_max_restart ecp_cfg = Some 4%Z /\
  (forall n, c_coll ecp_cfg n = c_coll ecp_cfg 0) /\ ~ In ""%string (c_coll ecp_cfg 0).
Proof.
  destruct ecp_hyps as (H1 & H2 & H3 & H4 & H5 & H6).
  split; [exact H1|]. split; [exact H2|]. split; [exact H6|]. split; [intros n; reflexivity|].
  split; [reflexivity|]. split; [reflexivity|]. split; [exact H3|exact H5].
Qed.

(* the theorems apply to that session: the bound, and "a maximal run has ended" *)
Example ecx_theorems_apply :
  length ecx_ls <= PhiE ecp_cfg (sys_init ecp_cfg) + 1 /\
  (forall f, ~ inf_run ecp_cfg (sys_init ecp_cfg) f) /\
  ((forall l, ~ urun ecp_cfg (sys_init ecp_cfg) (ecx_ls ++ [l])) -> y_result (sys_run ecp_cfg ecx_ls) <> None).
Proof.
  destruct ecx_hyps as (H1 & H2 & H3 & H4 & H5 & H6 & H7 & H8).
  assert (HU : urun ecp_cfg (sys_init ecp_cfg) ecx_ls) by (apply urunb_ok; vm_compute; reflexivity).
  split; [|split].
  - exact (crash_each_c02_bound_init ecp_cfg H1 H2 H3 H4 H5 _ H6 _ HU).
  - exact (crash_each_c02_terminates_init ecp_cfg H1 H2 H3 H4 H5 _ H6).
  - exact (crash_each_c02_maximal_urun_ends_init ecp_cfg H1 H2 H3 H4 H7 H8 ecx_ls HU).
Qed.
Print Assumptions ecx_theorems_apply.

(* (b) the measure and the bound do NOT need equal collections: ProgressEach.each_stuck_cfg (replacement 3
   collects a permutation; the recorded stand-off).  The 79 useful moves of the fair schedule lead to the
   stuck state: the session has not ended, no useful move is enabled (each_stuck_witness), the measure went
   down all the way, from (6, 122) to (3, 19).  Termination holds; what fails there is progress (the
   maximal-run theorem needs all collections equal) *)
Definition stk_ls : list label := ufilter each_stuck_cfg (sys_init each_stuck_cfg) (c01_rep 30 each_round4).
Example stk_run :
  let s := sys_run each_stuck_cfg stk_ls in
  length stk_ls = 79 /\ urun each_stuck_cfg (sys_init each_stuck_cfg) stk_ls /\ y_result s = None /\
  es_moves each_stuck_cfg 6 s = [] /\
  decr_trace each_stuck_cfg (sys_init each_stuck_cfg) stk_ls = true /\
  measE each_stuck_cfg (sys_init each_stuck_cfg) = (6, 122) /\ measE each_stuck_cfg s = (3, 19) /\
  PhiE each_stuck_cfg (sys_init each_stuck_cfg) = 366 /\ PhiE each_stuck_cfg s = 141.
Proof.
  cbv zeta. split; [vm_compute; reflexivity|]. split; [apply urunb_ok; vm_compute; reflexivity|].
  repeat split; vm_compute; reflexivity.
Qed.
Example stk_theorems_apply :
  (forall ls, urun each_stuck_cfg (sys_init each_stuck_cfg) ls -> length ls <= 367) /\
  (forall ls0 f, ~ inf_run each_stuck_cfg (sys_run each_stuck_cfg ls0) f).
Proof.
  assert (H1 : c_mode each_stuck_cfg = MEach) by reflexivity.
  assert (H2 : no_garbled each_stuck_cfg) by (intros n i H; cbn in H; destruct H as [H|[]]; discriminate).
  assert (H3 : 0 < c_numnodes each_stuck_cfg) by (cbn; lia).
  assert (H4 : forall n, ncollected (c_oracle each_stuck_cfg n) = length (c_coll each_stuck_cfg n))
    by (intros n; cbn; destruct (Nat.eqb n 3); reflexivity).
  assert (H5 : c_requeue each_stuck_cfg = 0) by reflexivity.
  assert (H6 : c_max_restart each_stuck_cfg = Some 4%Z) by reflexivity.
  split.
  - intros ls H. pose proof (crash_each_c02_bound_init each_stuck_cfg H1 H2 H3 H4 H5 _ H6 ls H) as Z.
    replace (PhiE each_stuck_cfg (sys_init each_stuck_cfg)) with 366 in Z by (vm_compute; reflexivity). lia.
  - exact (crash_each_c02_terminates each_stuck_cfg H1 H2 H3 H4 H5 _ H6).
Qed.
Print Assumptions stk_theorems_apply.

(* (c) WITHOUT a restart budget (c_max_restart = None) every dead worker is replaced: one worker, and ten times
   in a row the (replacement) worker is killed before it boots, its end marker is read and its errordown
   handled.  Every one of these 30 moves is useful or a crash; the session has not ended, the group counter is
   at 11, KcE never moved: this can go on for ever -- termination needs the finite budget (as for --dist load:
   CrashTermination.crt_ex_unbounded_restarts) *)
Open Scope string_scope.
Definition ecx_cfg_none : config :=
  {| c_mode := MEach; c_numnodes := 1; c_chunk := None; c_maxfail := 0%Z; c_max_restart := None;
     c_requeue := 0; c_coll := fun _ => ["a"; "b"]; c_oracle := fun _ => each_oracle 2 [];
     c_dur := fun _ => 0%Z; c_crash_in := fun _ _ => false; c_strict := false; c_spec := fun _ => 0 |}.
Close Scope string_scope.
Example ecx_unbounded_restarts :
  let ls := flat_map crt_kill_round (seq 0 10) in
  let s := sys_run ecx_cfg_none ls in
  urun ecx_cfg_none (sys_init ecx_cfg_none) ls /\
  y_result s = None /\ d_next_gw (y_d s) = 11 /\ length (y_dead s) = 10 /\ d_active (y_d s) = [10] /\
  KcE (y_d s) = KcE (y_d (sys_init ecx_cfg_none)).
Proof. cbv zeta. split; [apply urunb_ok; vm_compute; reflexivity|]. vm_compute. repeat split. Qed.
