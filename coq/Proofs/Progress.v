(* Progress.v -- property C02, the no-stand-off half: a --dist load session without worker failure
   cannot get stuck.

   In every reachable state of Model/System.v in which the session has not ended, some component
   can make a USEFUL move: a command is delivered, a worker's receiver thread has something to
   unpack, a worker's main thread is not blocked, the controller's receiver thread has a message to
   read, or the controller's main loop has an event to handle (theorem c02_no_deadlock_useful; the
   plain enabledness statement c02_no_deadlock is a corollary).  "Useful" matters because the
   model lets the receiver thread of a worker take an idle turn (LRecvW with nothing to do does not
   change the state): plain enabledness would be nearly trivial.

   Organisation: part A worker-level facts; part B what one controller iteration guarantees beyond
   Coupling.LEFF (who is registered, who was told to shut down, who holds >= 2 tests; no empty run
   command is ever sent); part C the progress invariant PInv and its preservation; part D quiescent
   states are impossible; part E the theorems (and idle_turn_changes_nothing: the moves excluded by
   "useful" change nothing) and examples.  Termination.v builds on this file: a measure that every
   useful move decreases. *)
From XV Require Import Base Worker Ctl SchedLoad SchedSteal SchedScope SchedEach Sched DSession System
  NoHook DSessionProofs WorkerProofs LoadProofs FifoProofs ExactlyOnce Coupling Completeness.
From XV Require LivenessLaws.
From Coq Require Import Permutation.
Open Scope nat_scope.

(* ====================================================================================== *)
(* A. worker-level facts                                                                   *)
(* ====================================================================================== *)

(* once the main thread is past its first get() the channel callback is installed *)
Definition CB (w : wst) : Prop :=
  match wph w with
  | PWaitNext _ | PGot _ _ | PRun _ _ _ | PFinishing _ | PExited => wcb w = true
  | _ => True
  end.

Lemma CB_init : CB w_init.
Proof. exact I. Qed.

Lemma CB_deliver w c : CB w -> CB (deliver w c).
Proof. unfold CB, deliver. cbn [upd_recv wph wcb]. auto. Qed.

Lemma recv_next_cb o inbox : forall w,
  wph (recv_next o w inbox) = wph w /\ wcb (recv_next o w inbox) = wcb w.
Proof.
  induction inbox as [|c r IH]; intros w; [split; reflexivity|].
  destruct c as [ixs| |s| |]; cbn [recv_next].
  - destruct ixs as [|i ixs]; [apply IH|split; reflexivity].
  - destruct (seq 0 (ncollected o)) as [|i ixs]; [apply IH|split; reflexivity].
  - unfold w_steal. destruct (steal_q (wq w) s) as [q' st]. split; reflexivity.
  - split; reflexivity.
  - split; reflexivity.
Qed.

Lemma recv_step_cb o w :
  wph (fst (recv_step o w)) = wph w /\ wcb (fst (recv_step o w)) = wcb w.
Proof.
  unfold recv_step. destruct (negb (wcb w)); [split; reflexivity|].
  cbn [upd_recv wrpend winbox]. destruct (wrpend w) as [|it rest]; cbn [fst].
  - destruct (recv_next_cb o (winbox w) (upd_recv w (winbox w) [] None)) as (A & B). rewrite A, B. split; reflexivity.
  - split; reflexivity.
Qed.

Lemma CB_recv o w : CB w -> CB (fst (recv_step o w)).
Proof. unfold CB. destruct (recv_step_cb o w) as (-> & ->). auto. Qed.

Lemma CB_main o w w' evs : CB w -> main_step o w = Some (w', evs) -> CB w'.
Proof.
  intros C H. unfold CB in *. ms_cases H; wproj; rewrite ?P in C; rewrite ?P; auto.
  destruct (stops_after o (snd cur)); [exact C|]. destruct (snd nxt); exact C.
Qed.

(* ====================================================================================== *)
(* B. one controller iteration: the facts needed for progress                              *)
(* ====================================================================================== *)
Lemma in_akeys_adel_neq {V} n m (mp : amap V) : In m (akeys mp) -> m <> n -> In m (akeys (adel n mp)).
Proof.
  induction mp as [|[k v] mp IH]; cbn; [tauto|]. intros [->|Hm] Hne.
  - destruct (Nat.eqb n m) eqn:E; [apply Nat.eqb_eq in E; congruence|left; reflexivity].
  - destruct (Nat.eqb n k); [exact Hm|right; apply IH; assumption].
Qed.

(* ---- the controller never sends an empty run command ---- *)
Definition Q_ne (o : out) : Prop := match o with OSend _ (CRun []) => False | _ => True end.
Definition ne_cmd (cm : cmd) : Prop := match cm with CRun [] => False | _ => True end.

Lemma ne_cmds_to m outs : Forall Q_ne outs -> Forall ne_cmd (cmds_to m outs).
Proof.
  induction 1 as [|x outs Hx _ IH]; [constructor|]. cbn [cmds_to flat_map]. apply Forall_app. split; [|exact IH].
  destruct x as [h|k cm| |]; cbn; try constructor. destruct (Nat.eqb k m); constructor; [|constructor].
  destruct cm as [[|i ixs]| | | |]; cbn in *; auto.
Qed.

Section NeNodes.
  Context {S : Type} (nt_of : S -> ntable) (set_nt : S -> ntable -> S).
  Lemma ne_node_flags n : allout Q_ne (node_flags nt_of n).
  Proof. unfold node_flags. ao Q_ne. Qed.
  Lemma ne_node_sd n : allout Q_ne (node_shutting_down nt_of n).
  Proof. unfold node_shutting_down. ao Q_ne; apply ne_node_flags. Qed.
  Lemma ne_node_send_run n ixs : ixs <> [] -> allout Q_ne (node_send nt_of n (CRun ixs)).
  Proof. intros H. destruct ixs as [|i ixs]; [congruence|]. unfold node_send. ao Q_ne; apply ne_node_flags. Qed.
  Lemma ne_node_send_sd n : allout Q_ne (node_send nt_of n CShutdown).
  Proof. unfold node_send. ao Q_ne; apply ne_node_flags. Qed.
  Lemma ne_node_shutdown n : allout Q_ne (node_shutdown nt_of set_nt n).
  Proof. unfold node_shutdown. ao Q_ne; try apply ne_node_flags; try apply ne_node_send_sd. Qed.
End NeNodes.

Ltac nel := ao Q_ne; try apply ne_node_flags; try apply ne_node_sd; try (apply ne_node_send_run; discriminate);
            try apply ne_node_send_sd; try apply ne_node_shutdown.

Lemma ne_l_send_tests n num : allout Q_ne (l_send_tests n num).
Proof. unfold l_send_tests. nel. Qed.
Lemma ne_l_check_schedule n d : allout Q_ne (l_check_schedule n d).
Proof. unfold l_check_schedule. nel; apply ne_l_send_tests. Qed.
Lemma ne_l_round_robin fuel all cur : allout Q_ne (l_round_robin fuel all cur).
Proof.
  revert cur. induction fuel as [|f IH]; intros cur; cbn [l_round_robin]; [apply ao_ret|].
  destruct cur as [|n r]; [destruct all as [|n r]; [apply ao_raise|]|];
    (apply ao_bind; [apply ne_l_send_tests | intros _; apply IH]).
Qed.
Lemma ne_l_same : allout Q_ne l_same_collection.
Proof. unfold l_same_collection. nel. Qed.
Lemma ne_l_schedule : allout Q_ne l_schedule.
Proof.
  unfold l_schedule. nel; try apply ne_l_check_schedule; try apply ne_l_same;
    try apply ne_l_round_robin; try apply ne_l_send_tests.
Qed.
Lemma ne_l_complete n i d : allout Q_ne (l_mark_test_complete n i d).
Proof. unfold l_mark_test_complete. nel; try apply ne_l_check_schedule. Qed.
Lemma ne_triggershutdown : allout Q_ne d_triggershutdown.
Proof. unfold d_triggershutdown, d_node_shutdown. nel. Qed.
Lemma ne_loop_rest : allout Q_ne loop_rest.
Proof. unfold loop_rest. nel; apply ne_triggershutdown. Qed.

Ltac dprj := cbn [d_sched d_shuttingdown d_shouldstop d_active d_countfailures d_maxfail d_failed_nodes
  d_max_restart d_collect_seen d_next_gw d_requeue d_set_sched d_set_active d_set_shouldstop
  d_set_shuttingdown d_set_countfailures d_set_collect_seen d_with].

Section CtlX.
Variable N : nat.
Variable collf : nat -> list string.

(* while the pool is not empty every registered node that is up holds at least two tests *)
Definition Two (ls : lstate) : Prop :=
  l_coll ls <> None -> l_pending ls <> [] ->
  forall m f, In m (l_nodes ls) -> aget m (l_nt ls) = Some f -> n_down f = false -> 2 <= length (bk ls m).

Record XEFF (ev : cevent) (d : dstate) (ls : lstate) (d1 : dstate) (ls1 : lstate) (o1 : list out) : Prop := {
  xe_act_sub : forall m, In m (d_active d1) -> In m (d_active d);
  xe_act_fin : forall m b, ev_sig ev = Some (m, SgFin b) -> ~ In m (d_active d1);
  xe_nodes_keep : forall m, In m (l_nodes ls) -> In m (l_nodes ls1) \/ exists b, ev_sig ev = Some (m, SgFin b);
  xe_ready : forall n, ev = QReady n ->
             if d_shuttingdown d then LivenessLaws.sd_in (l_nt ls1) n else In n (l_nodes ls1);
  xe_nodes_sd : d_shuttingdown d = true -> forall m, In m (l_nodes ls1) -> In m (l_nodes ls);
  xe_cf : forall n ids, ev = QCollFinish n ids -> d_shuttingdown d = false -> In n (l_nodes ls) ->
          In n (akeys (l_n2c ls1));
  xe_n2c_keep : d_shuttingdown d = false -> forall m, In m (akeys (l_n2c ls)) -> In m (akeys (l_n2c ls1));
  xe_two : d_shuttingdown d1 = false -> Two ls -> (forall n, ev = QReady n -> l_coll ls = None) -> Two ls1;
  xe_ne : forall m, Forall ne_cmd (cmds_to m o1);
  xe_coll : forall coll, l_coll ls1 = Some coll ->
            l_coll ls = Some coll \/ exists k others, l_n2c ls1 = (k, coll) :: others;
}.

Lemma x_same ev d ls d1 o1 :
  same_ctl d d1 -> d_sched d = StL ls -> (forall m, cmds_to m o1 = []) ->
  (forall m b, ev_sig ev <> Some (m, SgFin b)) -> (forall n, ev <> QReady n) ->
  (forall n ids, ev = QCollFinish n ids -> d_shuttingdown d = false -> In n (l_nodes ls) -> False) ->
  forall ls1, d_sched d1 = StL ls1 -> XEFF ev d ls d1 ls1 o1.
Proof.
  intros (S1 & S2 & S3 & S4) Els Hq Hf Hr Hc ls1 E1.
  assert (ls1 = ls) by congruence. subst ls1. constructor.
  - intros m Hm. rewrite <- S3. exact Hm.
  - intros m b E. exfalso. exact (Hf _ _ E).
  - auto.
  - intros n E. exfalso. exact (Hr _ E).
  - auto.
  - intros n ids E A B. exfalso. exact (Hc _ _ E A B).
  - auto.
  - auto.
  - intros m. rewrite Hq. constructor.
  - auto.
Qed.

(* ---- workerready ---- *)
Lemma handle_ready_x n d ls d1 o1 r :
  DJ N collf d ls -> LI ls -> PRE N collf (QReady n) d ls ->
  d_handle (QReady n) d = (d1, o1, r) -> forall ls1, d_sched d1 = StL ls1 -> XEFF (QReady n) d ls d1 ls1 o1.
Proof.
  intros (J0 & Jss) I (HnN & Hpre) H ls1 E1. pose proof J0 as [Els J Jb Jp Jg]. pose proof I as (Ho & _).
  cbn [d_handle] in H. unfold hook in H. rewrite mbind_emit, mbind_get in H.
  destruct (d_shuttingdown d) eqn:Esd.
  - rewrite (d_node_shutdown_lift n d ls Els) in H.
    destruct (node_shutdown l_nt l_set_nt n ls) as [[ls2 o2] r2] eqn:En. cbn [liftD] in H. inv H.
    cbn in E1. inv E1.
    assert (Hk : aget n (l_nt ls) <> None) by (apply (lj_ntk _ _ _ J); exact HnN).
    destruct (node_shutdown_TR0 _ _ _ _ _ Ho Hk En) as (-> & T & P & B).
    pose proof (LivenessLaws.g_node_shutdown_post lstate l_nt l_set_nt (fun _ _ => eq_refl) _ _ _ _ En) as (A1 & _).
    constructor.
    + intros m Hm. exact Hm.
    + intros m b E. discriminate.
    + intros m Hm. left. unfold l_nodes in *. rewrite B. exact Hm.
    + intros n' E. inv E. rewrite Esd. exact A1.
    + intros _ m Hm. unfold l_nodes in *. rewrite B in Hm. exact Hm.
    + intros n' ids E. discriminate.
    + intros F. congruence.
    + cbn. rewrite Esd. discriminate.
    + intros m. apply ne_cmds_to. constructor; [exact Logic.I|]. exact (ne_node_shutdown l_nt l_set_nt n _ _ _ _ En).
    + intros coll Hc. left. destruct (tr_keeps _ _ _ T) as (Kc & _). rewrite <- Kc. exact Hc.
  - destruct (Hpre eq_refl) as (Hnew & Hina).
    assert (Ea : aget n (l_n2p ls) = None) by (apply aget_none_keys; exact Hnew).
    unfold mbind at 1 in H. rewrite (sched_op_run _ d ls Els) in H. cbn [s_step] in H.
    unfold l_add_node, massert, ahas in H. rewrite mbind_get in H. rewrite Ea in H. cbn [negb] in H.
    rewrite mbind_ret in H. unfold put, lift, no_str, ret in H. inv H.
    cbn in E1. inv E1.
    set (ls1 := l_set_n2p ls (aset n [] (l_n2p ls))).
    assert (Ek : l_nodes ls1 = l_nodes ls ++ [n]) by (apply akeys_aset_new; exact Ea).
    constructor.
    + intros m Hm. exact Hm.
    + intros m b E. discriminate.
    + intros m Hm. left. rewrite Ek. apply in_or_app. left. exact Hm.
    + intros n' E. inv E. rewrite Esd, Ek. apply in_or_app. right. left. reflexivity.
    + intros F. congruence.
    + intros n' ids E. discriminate.
    + intros _ m Hm. exact Hm.
    + intros _ _ Hc Hcoll. exfalso. apply Hcoll. exact (Hc n eq_refl).
    + intros m. cbn. constructor.
    + intros coll Hc. left. exact Hc.
Qed.

(* ---- runtest_protocol_complete ---- *)
Lemma handle_complete_x n i ms d ls d1 o1 r :
  DJ N collf d ls -> LI ls -> PRE N collf (QComplete n i ms) d ls ->
  d_handle (QComplete n i ms) d = (d1, o1, r) ->
  forall ls1, DJ0 N collf d1 ls1 -> XEFF (QComplete n i ms) d ls d1 ls1 o1.
Proof.
  intros (J0 & Jss) I (rest & Hb) H ls1 J1. pose proof J0 as [Els J Jb Jp Jg]. pose proof I as (Ho & _ & I3).
  cbn [d_handle] in H. unfold mbind at 1 in H. rewrite (sched_op_run _ d ls Els) in H. cbn [s_step] in H.
  destruct (l_mark_test_complete n i ms ls) as [[ls2 o2] r2] eqn:Em. cbn [lift] in H.
  assert (Hin : In n (l_nodes ls)) by (apply aget_In_keys; congruence).
  assert (Hk : aget n (l_nt ls) <> None) by exact (nodes_known N collf ls J n Hin).
  pose proof (l_mark_test_complete_cases _ _ _ _ _ _ _ Em) as Cs.
  destruct (mark_complete_TR _ _ _ _ _ _ _ _ Ho Hk Hb (lj_chunk _ _ _ J) Em) as (-> & T & SDP).
  unfold no_str, ret in H. inv H.
  assert (ls1 = ls2) by (pose proof (dj_sched _ _ _ _ J1) as E; cbn in E; congruence). subst ls2.
  set (ls0 := l_set_n2p ls (aset n rest (l_n2p ls))) in *.
  destruct (tr_keeps _ _ _ T) as (Kc & Kn & Km & Kch & Kk). destruct (tr_pend _ _ _ T) as (moved & Emv).
  assert (Kk0 : akeys (l_n2p ls0) = akeys (l_n2p ls)) by (eapply akeys_aset_has; eauto).
  assert (Hcs : l_check_schedule n ms ls0 = (ls1, o2, Ok tt)).
  { destruct Cs as [(F & _)|[(cur & Ec & Er & _)|(cur & cur' & Ec & Er & Hcs)]]; [congruence| |].
    - rewrite Hb in Ec. inv Ec. cbn in Er. rewrite Nat.eqb_refl in Er. discriminate.
    - rewrite Hb in Ec. inv Ec. cbn in Er. rewrite Nat.eqb_refl in Er. inv Er. exact Hcs. }
  constructor.
  - intros m Hm. exact Hm.
  - intros m b E. discriminate.
  - intros m Hm. left. unfold l_nodes in *. rewrite Kk, Kk0. exact Hm.
  - intros n' E. discriminate.
  - intros _ m Hm. unfold l_nodes in *. rewrite Kk, Kk0 in Hm. exact Hm.
  - intros n' ids E. discriminate.
  - intros _ m Hm. rewrite Kn. exact Hm.
  - cbn [d_shuttingdown d_set_sched]. intros Hsd1 HT _ Hcoll Hpend m f1 Hm Ef1 Hdn.
    assert (Hcoll0 : l_coll ls <> None) by (rewrite Kc in Hcoll; exact Hcoll).
    assert (Hpend0 : l_pending ls <> []).
    { change (l_pending ls) with (l_pending ls0). rewrite Emv. intros F. apply app_eq_nil in F. tauto. }
    assert (Hm0 : In m (l_nodes ls)) by (unfold l_nodes in *; rewrite Kk, Kk0 in Hm; exact Hm).
    destruct (NRo_open _ _ _ _ (tr_nt _ _ _ T m) Ef1) as (f & Ef & R).
    change (aget m (l_nt ls0)) with (aget m (l_nt ls)) in Ef.
    destruct (NR_fields _ _ _ R) as (_ & Bd & _ & Dsd & _).
    destruct (Nat.eq_dec m n) as [->|Hmn].
    + assert (Hsdf : n_sdsent f = false).
      { destruct (n_sdsent f) eqn:E; [|reflexivity]. destruct (Jp Hsd1 n f Ef E) as (_ & P0). contradiction. }
      assert (Hsh : shutting_down f = false).
      { unfold shutting_down. rewrite Hsdf, <- Bd, Hdn. reflexivity. }
      assert (HnN : n < N) by (apply (lj_nodes _ _ _ J); exact Hin).
      assert (Hc2 : ahas n (l_n2c ls0) = true).
      { unfold ahas. destruct (aget n (l_n2c ls0)) eqn:E; [reflexivity|]. exfalso.
        apply aget_none_keys in E. pose proof (completed_pigeon N collf ls n J HnN E) as F.
        rewrite (lj_cc _ _ _ J Hcoll0) in F. discriminate. }
      assert (Eb0 : aget n (l_n2p ls0) = Some rest) by (unfold ls0; cbn [l_n2p l_set_n2p]; apply aget_aset_eq).
      destruct (LivenessLaws.V1_load_check_schedule_gen n ms ls0 ls1 o2 f rest Hcs Ef Hsh Hc2 Eb0)
        as [(c' & Ec' & Hsd')|[(book' & Eb' & Hl)|Hp]].
      * rewrite Ef1 in Ec'. inv Ec'. unfold shutting_down in Hsd'. rewrite Hdn in Hsd'. cbn in Hsd'.
        destruct (dj_p _ _ _ _ J1 Hsd1 n c' Ef1 Hsd') as (_ & P1). contradiction.
      * unfold bk, alist_get. rewrite Eb'. exact Hl.
      * contradiction.
    + rewrite (tr_bk _ _ _ T m), app_length.
      assert (E0 : bk ls0 m = bk ls m) by (unfold bk, ls0; cbn [l_n2p l_set_n2p]; apply alist_get_aset_neq; exact Hmn).
      rewrite E0. rewrite Bd in Hdn. specialize (HT Hcoll0 Hpend0 m f Hm0 Ef Hdn). lia.
  - intros m. rewrite ?app_nil_r. apply ne_cmds_to. exact (ne_l_complete n i ms _ _ _ _ Em).
  - intros coll Hc. left. rewrite Kc in Hc. exact Hc.
Qed.

(* ---- workerfinished ---- *)
Lemma handle_finished_x n sk d ls d1 o1 r :
  DJ N collf d ls -> LI ls -> PRE N collf (QFinished n sk) d ls ->
  d_handle (QFinished n sk) d = (d1, o1, r) ->
  forall ls1, d_sched d1 = StL ls1 -> XEFF (QFinished n sk) d ls d1 ls1 o1.
Proof.
  intros (J0 & Jss) I Hpre H ls1 E1. pose proof J0 as [Els J Jb Jp Jg]. pose proof I as (Ho & _ & I3).
  cbn [d_handle] in H. unfold d_worker_workerfinished, hook in H. rewrite mbind_emit in H.
  destruct sk; cbn [PRE] in Hpre; [| |contradiction].
  - destruct Hpre as (Hina & Hbook & (f & Ef & Hsd)).
    rewrite mbind_get in H. rewrite Els in H. cbn [s_nodes] in H.
    assert (STEP : exists ls2,
      ((if mem_nat n (l_nodes ls)
        then r0 <- d_sched_op (SRemove n);; massert match r0 with Some s0 => (s0 =? "")%string | None => true end
        else ret tt) d) = (d_set_sched d (StL ls2), [], Ok tt) /\
      l_nt ls2 = l_nt ls /\ l_pending ls2 = l_pending ls /\ l_coll ls2 = l_coll ls /\
      (forall m, bk ls2 m = bk ls m) /\
      (forall m, In m (l_nodes ls2) -> In m (l_nodes ls)) /\
      (forall m, In m (l_nodes ls) -> m <> n -> In m (l_nodes ls2)) /\
      (l_collection_is_completed ls = true -> l_n2c ls2 = l_n2c ls)).
    { destruct (mem_nat n (l_nodes ls)) eqn:Em.
      - apply mem_nat_In in Em. specialize (Hbook Em).
        exists (rm_state n ls). destruct (rm_state_fields n ls) as (Fp & Fq & Fc & Fn & Fch & Fm).
        split.
        { unfold mbind. rewrite (sched_op_run _ d ls Els). cbn [s_step].
          destruct (l_remove_node n ls) as [[ls3 o3] r3] eqn:Er. apply l_remove_node_cases in Er.
          destruct Er as [(F & _)|[(_ & -> & -> & ->)|(i0 & rest0 & F & _)]]; try congruence.
          cbn [lift]. reflexivity. }
        split; [exact Fn|]. split; [exact Fq|]. split; [exact Fc|].
        split.
        { intros m. unfold bk. rewrite Fp. destruct (Nat.eq_dec m n) as [->|Hm].
          - rewrite (alist_get_none [] n _ (aget_adel_eq n _ (lj_wf _ _ _ J))).
            unfold alist_get. rewrite Hbook. reflexivity.
          - unfold alist_get. rewrite aget_adel_neq by exact Hm. reflexivity. }
        split.
        { intros m Hm. unfold l_nodes in *. rewrite Fp in Hm. eapply adel_keys_incl; eauto. }
        split.
        { intros m Hm Hne. unfold l_nodes in *. rewrite Fp. apply in_akeys_adel_neq; assumption. }
        intros C. rewrite rm_state_n2c, C. reflexivity.
      - apply mem_nat_false in Em. exists ls. split; [rewrite d_set_sched_same by exact Els; reflexivity|].
        repeat split; auto. }
    destruct STEP as (ls2 & Erun & Fn & Fq & Fc & Fbk & Fsub & Fkeep & Fn2c).
    unfold mbind at 1 in H. rewrite Erun in H.
    rewrite (active_remove_run n (d_set_sched d (StL ls2)) Hina) in H. inv H.
    cbn in E1. inv E1. constructor.
    + intros m Hm. cbn [d_active d_set_active d_set_sched] in Hm. apply in_filter_neq in Hm. tauto.
    + intros m b E. cbn in E. inv E. cbn [d_active d_set_active d_set_sched]. intros Hm. apply in_filter_neq in Hm. tauto.
    + intros m Hm. destruct (Nat.eq_dec m n) as [->|Hne]; [right; exists false; reflexivity|left; apply Fkeep; assumption].
    + intros n' E. discriminate.
    + intros _ m Hm. apply Fsub. exact Hm.
    + intros n' ids E. discriminate.
    + intros Hs m Hm. destruct (Jp Hs n f Ef Hsd) as (C & _). rewrite (Fn2c C). exact Hm.
    + intros _ HT _ Hcoll Hpend m f1 Hm Ef1 Hdn. rewrite Fbk. rewrite Fn in Ef1. rewrite Fc in Hcoll. rewrite Fq in Hpend.
      exact (HT Hcoll Hpend m f1 (Fsub m Hm) Ef1 Hdn).
    + intros m. cbn. constructor.
    + intros coll Hc. left. rewrite Fc in Hc. exact Hc.
  - assert (STEP : exists d2, (d0 <- get;; (if d_shouldstop d0 then ret tt else put (d_set_shouldstop d0 true))) d = (d2, [], Ok tt) /\
              d_sched d2 = d_sched d /\ d_shuttingdown d2 = d_shuttingdown d /\ d_active d2 = d_active d /\ d_shouldstop d2 = true).
    { rewrite mbind_get. destruct (d_shouldstop d) eqn:Ess.
      - exists d. auto.
      - eexists. split; [reflexivity|]. auto. }
    destruct STEP as (d2 & Erun & S1 & S2 & S3 & S4).
    unfold mbind at 1 in H. rewrite Erun in H.
    assert (Hina : In n (d_active d2)) by (rewrite S3; exact Hpre).
    rewrite (active_remove_run n d2 Hina) in H. inv H.
    cbn [d_sched d_set_active] in E1. assert (ls1 = ls) by congruence. subst ls1. constructor.
    + intros m Hm. cbn [d_active d_set_active] in Hm. apply in_filter_neq in Hm. rewrite <- S3. tauto.
    + intros m b E. cbn in E. inv E. cbn [d_active d_set_active]. intros Hm. apply in_filter_neq in Hm. tauto.
    + auto.
    + intros n' E. discriminate.
    + auto.
    + intros n' ids E. discriminate.
    + auto.
    + auto.
    + intros m. cbn. constructor.
    + auto.
Qed.

(* ---- collectionfinish ---- *)
Lemma handle_collfinish_x n ids d ls d1 o1 r :
  DJ N collf d ls -> LI ls -> PRE N collf (QCollFinish n ids) d ls ->
  d_handle (QCollFinish n ids) d = (d1, o1, r) ->
  forall ls1, d_sched d1 = StL ls1 -> XEFF (QCollFinish n ids) d ls d1 ls1 o1.
Proof.
  intros DJd I (HnN & Hnew & Hids) H ls1 E1. pose proof DJd as (J0 & Jss). pose proof J0 as [Els J Jb Jp Jg].
  pose proof I as (Ho & _ & I3).
  assert (SAME : forall x, (d, @nil out, x) = (d1, o1, r) ->
                 (d_shuttingdown d = false -> In n (l_nodes ls) -> False) ->
                 XEFF (QCollFinish n ids) d ls d1 ls1 o1).
  { intros x E Hno. inv E. apply x_same.
    - unfold same_ctl. auto.
    - exact Els.
    - intros m. reflexivity.
    - intros m b E. discriminate.
    - intros n' E. discriminate.
    - intros n' ids' E A B. inv E. exact (Hno A B).
    - exact E1. }
  cbn [d_handle] in H. rewrite mbind_get in H.
  destruct (d_shuttingdown d) eqn:Esd; [eapply SAME; [exact H|discriminate]|].
  rewrite Els in H. cbn [s_nodes] in H.
  destruct (mem_nat n (l_nodes ls)) eqn:Em; cbn [negb] in H.
  2:{ eapply SAME; [exact H|]. intros _ Hin. apply mem_nat_false in Em. contradiction. }
  clear SAME. apply mem_nat_In in Em.
  assert (Hp : aget n (l_n2p ls) <> None) by (apply aget_In_keys; exact Em).
  assert (Hc : l_collection_is_completed ls = false) by (eapply completed_pigeon; eauto).
  assert (Ecoll : l_coll ls = None).
  { destruct (l_coll ls) eqn:E; [|reflexivity]. rewrite (lj_cc _ _ _ J) in Hc; [discriminate|]. rewrite E. discriminate. }
  destruct (I3 Ecoll) as (Ep0 & Eb0).
  assert (NOSD : forall m f, aget m (l_nt ls) = Some f -> n_sdsent f = false).
  { intros m f Ef. destruct (n_sdsent f) eqn:E; [|reflexivity].
    destruct (Jp eq_refl m f Ef E) as (C & _). congruence. }
  unfold hook in H. rewrite mbind_emit in H. unfold mbind at 1 in H.
  rewrite (sched_op_run _ d ls Els) in H. cbn [s_step] in H. rewrite (add_coll_run n ids ls Hp Hc) in H.
  cbn [lift] in H. set (lsa := l_set_n2c ls (aset n ids (l_n2c ls))) in *.
  rewrite mbind_get in H. cbn [d_sched d_set_sched s_collection_is_completed app] in H.
  assert (Kn : In n (akeys (l_n2c lsa))).
  { unfold lsa. cbn [l_n2c l_set_n2c]. eapply aget_some_in. apply aget_aset_eq. }
  assert (Kkeep : forall m, In m (akeys (l_n2c ls)) -> In m (akeys (l_n2c lsa))).
  { intros m Hm. unfold lsa. cbn [l_n2c l_set_n2c]. apply akeys_aset_incl. exact Hm. }
  destruct (l_collection_is_completed lsa) eqn:Eca.
  - unfold mbind at 1 in H. rewrite (sched_op_run _ (d_set_sched d (StL lsa)) lsa eq_refl) in H. cbn [s_step] in H.
    destruct (l_schedule lsa) as [[ls2 o2] r2] eqn:Es. cbn [lift] in H.
    assert (Hready : forall m, In m (l_nodes lsa) -> node_ready lsa m).
    { intros m Hm. split; [apply aget_In_keys; exact Hm|].
      destruct (aget m (l_nt ls)) as [f|] eqn:Ef.
      - exists f. split; [exact Ef|]. eapply NOSD; eauto.
      - exfalso. exact (nodes_known N collf ls J m Hm Ef). }
    assert (Hn2c : l_n2c lsa <> []).
    { unfold lsa. cbn [l_n2c l_set_n2c]. destruct (l_n2c ls) as [|[k v] rr]; cbn; [discriminate|].
      destruct (Nat.eqb n k); discriminate. }
    assert (Hnodes : l_nodes lsa <> []) by (intros F; change (l_nodes lsa) with (l_nodes ls) in F; rewrite F in Em; destruct Em).
    destruct (schedule_first_TR lsa ls2 o2 r2 Ho Ecoll Ep0 Eca Hn2c Hnodes Hready Es)
      as (-> & Tnt & Tbk & Tk & Tn2c & Tnum & Tch & Tsdp & _ & Tcoll).
    unfold no_str, ret in H. inv H. cbn in E1. inv E1.
    constructor.
    + intros m Hm. exact Hm.
    + intros m b E. discriminate.
    + intros m Hm. left. unfold l_nodes in *. rewrite Tk. exact Hm.
    + intros n' E. discriminate.
    + intros F. congruence.
    + intros n' ids' E _ _. inv E. rewrite Tn2c. exact Kn.
    + intros _ m Hm. rewrite Tn2c. apply Kkeep. exact Hm.
    + intros _ _ _ Hcoll Hpend m f1 Hm Ef1 Hdn.
      destruct (l_coll ls1) as [coll|] eqn:Ec1; [|congruence].
      destruct (LivenessLaws.l_schedule_first lsa ls1 o2 coll Es Ecoll Ec1) as (_ & [(_ & ->)|(_ & [(_ & Htwo)|(F & _)])]).
      * exfalso. apply Hpend. reflexivity.
      * destruct (Htwo m Hm) as (book & Eb & Hl). unfold bk, alist_get. rewrite Eb. exact Hl.
      * contradiction.
    + intros m. apply ne_cmds_to. constructor; [exact Logic.I|]. rewrite ?app_nil_r. exact (ne_l_schedule _ _ _ _ Es).
    + intros coll Hcl. right.
      destruct (l_schedule_first lsa ls1 o2 Es Ecoll Ep0 Eb0 Ho) as (_ & En2 & [(-> & _)|(k & coll' & others & E2 & Ec' & _)]).
      * exfalso. change (l_coll lsa) with (l_coll ls) in Hcl. congruence.
      * exists k, others. rewrite Tn2c, E2. congruence.
  - unfold ret in H. inv H. cbn in E1. inv E1. constructor.
    + intros m Hm. exact Hm.
    + intros m b E. discriminate.
    + intros m Hm. left. exact Hm.
    + intros n' E. discriminate.
    + intros F. congruence.
    + intros n' ids' E _ _. inv E. exact Kn.
    + intros _ m Hm. apply Kkeep. exact Hm.
    + intros _ _ _ Hcoll. exfalso. apply Hcoll. exact Ecoll.
    + intros m. cbn. constructor.
    + intros coll Hcl. left. exact Hcl.
Qed.

Theorem handle_x ev d ls d1 o1 r :
  DJ N collf d ls -> LI ls -> d_active d <> [] -> PRE N collf ev d ls ->
  d_handle ev d = (d1, o1, r) ->
  forall ls1, DJ0 N collf d1 ls1 -> XEFF ev d ls d1 ls1 o1.
Proof.
  intros DJd I Hact Hpre H ls1 J1. pose proof (dj_sched _ _ _ _ J1) as E1.
  assert (QUIET : match ev with
                  | QLogStart _ _ | QLogFinish _ _ | QWarning | QReport _ _ _ _ | QCollectReport _ _ _ => True
                  | _ => False end -> XEFF ev d ls d1 ls1 o1).
  { intros Hq. destruct (handle_quiet ev d d1 o1 r Hq H) as (-> & S & C).
    apply x_same.
    - exact S.
    - destruct DJd as ([Els _ _ _ _] & _). exact Els.
    - exact C.
    - destruct ev; try contradiction; intros m b E; discriminate.
    - destruct ev; try contradiction; intros n' E; discriminate.
    - destruct ev; try contradiction; intros n' ids' E; discriminate.
    - exact E1. }
  destruct ev; try (apply QUIET; exact Logic.I); try (cbn in Hpre; contradiction).
  - eapply handle_ready_x; eauto.
  - eapply handle_collfinish_x; eauto.
  - eapply handle_complete_x; eauto.
  - eapply handle_finished_x; eauto.
Qed.

(* ---- the end of the iteration ---- *)
Lemma NRo_sd_in a cs b :
  NRo a cs b -> (exists f, a = Some f /\ shutting_down f = true) -> exists f', b = Some f' /\ shutting_down f' = true.
Proof.
  intros R (f & -> & Hs). destruct b as [f'|]; [|destruct R]. cbn in R. exists f'. split; [reflexivity|].
  destruct (NR_fields _ _ _ R) as (_ & Bd & _ & Dsd & _). unfold shutting_down in *. rewrite Bd.
  apply orb_true_iff in Hs. destruct Hs as [Hs|Hs]; [rewrite Hs; reflexivity|].
  assert (X : n_sdsent f' = true) by (apply Dsd; left; exact Hs). rewrite X. apply orb_true_r.
Qed.

Lemma loop_rest_sd d ls d' o :
  d_sched d = StL ls -> loop_rest d = (d', o, Ok tt) -> forall ls', d_sched d' = StL ls' ->
  d_shuttingdown d = false -> d_shuttingdown d' = true ->
  forall m, In m (l_nodes ls) -> LivenessLaws.sd_in (l_nt ls') m.
Proof.
  intros Els H ls' E' Hsd Hsd' m Hm. unfold loop_rest in H.
  apply LoadProofs.mbind_inv in H.
  destruct H as [(e & _ & F)|(d2 & o3 & [] & o4 & Hmid & H & ->)]; [discriminate|].
  apply LoadProofs.mbind_inv in Hmid.
  destruct Hmid as [(e & _ & F)|(t1 & p1 & a & p2 & Hg & Hmid & ->)]; [discriminate|].
  unfold get in Hg. injection Hg as <- <- <-.
  apply LoadProofs.mbind_inv in H.
  destruct H as [(e & _ & F)|(t2 & p3 & a2 & p4 & Hg & H & ->)]; [discriminate|].
  unfold get in Hg. injection Hg as <- <- <-.
  assert (NT : d_nt d' = l_nt ls') by (unfold d_nt; rewrite E'; reflexivity).
  assert (Hm0 : In m (s_nodes (d_sched d))) by (rewrite Els; exact Hm).
  destruct (s_tests_finished (d_sched d)) eqn:Efin.
  - apply LivenessLaws.d_triggershutdown_spec in Hmid.
    destruct Hmid as (A & _ & Ball & _).
    pose proof (Ball Hsd m Hm0) as X.
    destruct (d_shouldstop d2) eqn:Estop.
    + apply LivenessLaws.d_triggershutdown_spec in H. destruct H as (_ & Hsame & _).
      destruct (Hsame A) as (-> & _). rewrite <- NT. exact X.
    + unfold ret in H. inv H. rewrite <- NT. exact X.
  - unfold ret in Hmid. inv Hmid.
    destruct (d_shouldstop d2) eqn:Estop.
    + apply LivenessLaws.d_triggershutdown_spec in H. destruct H as (_ & _ & Ball & _).
      rewrite <- NT. exact (Ball Hsd m Hm0).
    + unfold ret in H. inv H. congruence.
Qed.

Record LXEFF (ev : cevent) (d : dstate) (ls : lstate) (d' : dstate) (ls' : lstate) (o : list out) : Prop := {
  lx_act_sub : forall m, In m (d_active d') -> In m (d_active d);
  lx_act_fin : forall m b, ev_sig ev = Some (m, SgFin b) -> ~ In m (d_active d');
  lx_nodes_keep : forall m, In m (l_nodes ls) -> In m (l_nodes ls') \/ exists b, ev_sig ev = Some (m, SgFin b);
  lx_ready : forall n, ev = QReady n -> In n (l_nodes ls') \/ LivenessLaws.sd_in (l_nt ls') n;
  lx_cf : forall n ids, ev = QCollFinish n ids -> d_shuttingdown d' = false -> In n (l_nodes ls) ->
          In n (akeys (l_n2c ls'));
  lx_n2c_keep : d_shuttingdown d' = false -> forall m, In m (akeys (l_n2c ls)) -> In m (akeys (l_n2c ls'));
  lx_two : d_shuttingdown d' = false -> Two ls -> (forall n, ev = QReady n -> l_coll ls = None) -> Two ls';
  lx_tf : d_shuttingdown d' = false -> l_tests_finished ls' = false;
  lx_sd : d_shuttingdown d' = true ->
          (d_shuttingdown d = true -> forall m, In m (l_nodes ls) -> LivenessLaws.sd_in (l_nt ls) m) ->
          forall m, In m (l_nodes ls') -> LivenessLaws.sd_in (l_nt ls') m;
  lx_ne : forall m, Forall ne_cmd (cmds_to m o);
  lx_coll : forall coll, l_coll ls' = Some coll ->
            l_coll ls = Some coll \/ exists k others, l_n2c ls' = (k, coll) :: others;
}.

Theorem loop_x ev d ls d' o r :
  DJ N collf d ls -> LI ls -> d_active d <> [] -> PRE N collf ev d ls ->
  d_loop_once ev d = (d', o, r) -> forall ls', d_sched d' = StL ls' -> LXEFF ev d ls d' ls' o.
Proof.
  intros DJd I Hact Hpre H ls' E'. rewrite loop_once_unfold in H.
  apply LoadProofs.mbind_inv in H. destruct H as [(e & H1 & ->)|(d1 & o1 & a & o2 & H1 & H2 & ->)].
  { destruct (handle_eff N collf _ _ _ _ _ _ DJd I Hact Hpre H1) as (F & _). discriminate. }
  destruct (handle_eff N collf _ _ _ _ _ _ DJd I Hact Hpre H1) as (_ & ls1 & E1).
  pose proof (he_dj _ _ _ _ _ _ _ _ E1) as J1.
  pose proof (handle_x _ _ _ _ _ _ DJd I Hact Hpre H1 ls1 J1) as X1.
  assert (Ho1 : all_open (l_nt ls1)).
  { intros m f' Ef'. destruct (NRo_open _ _ _ _ (he_nt _ _ _ _ _ _ _ _ E1 m) Ef') as (f & Ef & R).
    destruct (NR_fields _ _ _ R) as (_ & _ & C & _). rewrite C. destruct I as (Ho & _). eapply Ho; eauto. }
  pose proof H2 as H2'.
  destruct (loop_rest_eff N collf _ _ _ _ _ J1 Ho1 H2) as (-> & ls2 & -> & T & P & B & Same).
  cbn in E'. inv E'.
  pose proof (he_sd _ _ _ _ _ _ _ _ E1) as Hsd1.
  assert (SDF : d_shuttingdown d1 || l_tests_finished ls1 || d_shouldstop d1 = false ->
                d_shuttingdown d1 = false /\ l_tests_finished ls1 = false /\ ls' = ls1).
  { intros E. destruct (Same E) as (-> & _). apply orb_false_iff in E. destruct E as (E & E3).
    apply orb_false_iff in E. destruct E as (E1' & E2). auto. }
  assert (Knodes : l_nodes ls' = l_nodes ls1) by (unfold l_nodes; rewrite B; reflexivity).
  assert (SDM : forall m, LivenessLaws.sd_in (l_nt ls1) m -> LivenessLaws.sd_in (l_nt ls') m).
  { intros m Hm. exact (NRo_sd_in _ _ _ (tr_nt _ _ _ T m) Hm). }
  constructor; dprj.
  - apply (xe_act_sub _ _ _ _ _ _ X1).
  - apply (xe_act_fin _ _ _ _ _ _ X1).
  - intros m Hm. rewrite Knodes. apply (xe_nodes_keep _ _ _ _ _ _ X1). exact Hm.
  - intros n E. pose proof (xe_ready _ _ _ _ _ _ X1 n E) as X. destruct (d_shuttingdown d).
    + right. apply SDM. exact X.
    + left. rewrite Knodes. exact X.
  - intros n ids E Hsd Hin. destruct (SDF Hsd) as (A & _ & ->). rewrite Hsd1 in A.
    exact (xe_cf _ _ _ _ _ _ X1 n ids E A Hin).
  - intros Hsd m Hm. destruct (SDF Hsd) as (A & _ & ->). rewrite Hsd1 in A.
    exact (xe_n2c_keep _ _ _ _ _ _ X1 A m Hm).
  - intros Hsd HT Hr. destruct (SDF Hsd) as (A & _ & ->). exact (xe_two _ _ _ _ _ _ X1 A HT Hr).
  - intros Hsd. destruct (SDF Hsd) as (_ & A & ->). exact A.
  - intros Hsd Hold m Hm. rewrite Knodes in Hm. destruct (d_shuttingdown d1) eqn:Esd1.
    + apply SDM. symmetry in Hsd1.
      apply (NRo_sd_in _ _ _ (he_nt _ _ _ _ _ _ _ _ E1 m)). apply (Hold Hsd1).
      apply (xe_nodes_sd _ _ _ _ _ _ X1 Hsd1). exact Hm.
    + eapply (loop_rest_sd d1 ls1); eauto. apply (dj_sched _ _ _ _ J1).
  - intros m. rewrite cmds_to_app. apply Forall_app. split; [apply (xe_ne _ _ _ _ _ _ X1)|].
    apply ne_cmds_to. exact (ne_loop_rest _ _ _ _ H2').
  - intros coll Hcl. destruct (tr_keeps _ _ _ T) as (Kc & Kn & _). rewrite Kc in Hcl. rewrite Kn.
    exact (xe_coll _ _ _ _ _ _ X1 coll Hcl).
Qed.

End CtlX.

(* ====================================================================================== *)
(* C. the progress invariant                                                               *)
(* ====================================================================================== *)

(* ---- small facts on signals ---- *)
Lemma ev_sigs_for_in n ev g : In g (ev_sigs_for n ev) -> ev_sig ev = Some (n, g).
Proof.
  unfold ev_sigs_for. destruct (ev_sig ev) as [[m h]|]; [|intros []].
  destruct (Nat.eqb m n) eqn:E; [|intros []]. apply Nat.eqb_eq in E. intros [<-|[]]. subst. reflexivity.
Qed.

Lemma ev_sig_ready ev n : ev_sig ev = Some (n, SgReady) -> ev = QReady n.
Proof. destruct ev; cbn; intros E; try discriminate; inv E; try reflexivity. Qed.

Lemma ev_sig_cf ev n : ev_sig ev = Some (n, SgCF) -> exists ids, ev = QCollFinish n ids.
Proof. destruct ev; cbn; intros E; try discriminate; inv E. eexists. reflexivity. Qed.

Lemma ev_sigs_for_self n ev g : ev_sig ev = Some (n, g) -> ev_sigs_for n ev = [g].
Proof. intros E. unfold ev_sigs_for. rewrite E, Nat.eqb_refl. reflexivity. Qed.

(* ---- the main thread's step, seen from the signals ---- *)
Lemma main_step_cf o w w' evs :
  main_step o w = Some (w', evs) -> 2 <= prank (wph w') ->
  2 <= prank (wph w) \/ In SgCF (flat_map we_sig evs).
Proof.
  intros H. ms_cases H; wproj; rewrite ?P; cbn [prank flat_map we_sig app In]; intros Hr; try lia; auto.
Qed.

Lemma main_step_boot o w w' evs :
  WX w -> main_step o w = Some (w', evs) ->
  (wph w = PBoot -> In SgReady (flat_map we_sig evs)) /\
  (In SgReady (flat_map we_sig evs) -> wph w = PBoot) /\ wph w' <> PBoot.
Proof.
  intros (_ & X2) H. ms_cases H; wproj; rewrite ?P; cbn [flat_map we_sig app In];
    (split; [|split]); try discriminate; try tauto; auto;
    try (intros [F|[]]; discriminate F).
  - destruct (stops_after o (snd cur)); [discriminate|]. destruct (snd nxt); discriminate.
  - inversion X2 as [|e' sc' He Hsc]; subst. destruct (rep_ev_sig e He) as (Es & _). rewrite Es. intros [].
Qed.

Lemma main_step_exit o w w' evs :
  main_step o w = Some (w', evs) -> wph w' = PExited -> exists b, In (SgFin b) (flat_map we_sig evs).
Proof.
  intros H E. assert (F : finished_ph (wph w')) by (left; exact E).
  destruct (main_step_phase_fin _ _ _ _ H F) as [(b & _ & _ & Es)|(b & Ep & _)].
  - exists b. rewrite Es. left. reflexivity.
  - congruence.
Qed.

(* ---- the controller's receiver thread only ever raises the down flag ---- *)
Lemma pfr_shape n m d d' o r :
  ok_up m -> process_from_remote n m d = (d', o, r) ->
  d' = d \/ exists f, aget n (d_nt d) = Some f /\ d' = d_set_nt d (aset n (down_flag f) (d_nt d)).
Proof.
  intros Hm H.
  unfold process_from_remote, mbind, get, of_opt, ret, raise in H. cbn beta iota zeta in H.
  destruct (aget n (d_nt d)) as [f|] eqn:Ef; cbn beta iota zeta in H.
  2:{ inv H. left. reflexivity. }
  destruct (n_down f) eqn:Edn.
  { assert (H' : (d, @nil out, Ok (@nil cevent)) = (d', o, r)).
    { destruct m as [e|ids|sk|i ms|dec| | |]; exact H. }
    inv H'. left. reflexivity. }
  destruct m as [e|ids|sk|i ms|dec| | |]; cbn [ok_up] in Hm; try contradiction.
  - destruct e; unfold put in H; cbn beta iota zeta in H; try (inv H; left; reflexivity).
    inv H. right. exists f. split; reflexivity.
  - inv H. left. reflexivity.
  - inv H. left. reflexivity.
Qed.

Definition FlagsUp (ls ls' : lstate) : Prop :=
  forall k, match aget k (l_nt ls), aget k (l_nt ls') with
            | Some f, Some f' => n_sdsent f' = n_sdsent f /\ (n_down f = true -> n_down f' = true)
            | None, None => True
            | _, _ => False
            end.

Lemma pfr_flags n m d d' o r ls ls' :
  ok_up m -> process_from_remote n m d = (d', o, r) -> d_sched d = StL ls -> d_sched d' = StL ls' ->
  FlagsUp ls ls'.
Proof.
  intros Hm H Els Els' k.
  assert (Ent : d_nt d = l_nt ls) by (unfold d_nt; rewrite Els; reflexivity).
  destruct (pfr_shape _ _ _ _ _ _ Hm H) as [->|(f & Ef & ->)].
  - assert (ls' = ls) by congruence. subst ls'. destruct (aget k (l_nt ls)); auto.
  - rewrite d_sched_set_nt, Els in Els'. cbn [s_set_nt] in Els'. inv Els'. cbn [l_nt l_set_nt].
    rewrite Ent in *. rewrite LoadProofs.aget_aset. destruct (Nat.eqb k n) eqn:E.
    + apply Nat.eqb_eq in E. subst k. rewrite Ef. cbn. auto.
    + destruct (aget k (l_nt ls)); auto.
Qed.

Lemma flagsup_sd_in ls ls' m : FlagsUp ls ls' -> LivenessLaws.sd_in (l_nt ls) m -> LivenessLaws.sd_in (l_nt ls') m.
Proof.
  intros F (f & Ef & Hs). specialize (F m). rewrite Ef in F.
  destruct (aget m (l_nt ls')) as [f'|] eqn:Ef'; [|destruct F]. destruct F as (A & B).
  exists f'. split; [exact Ef'|]. unfold shutting_down in *. rewrite A.
  destruct (n_down f); [rewrite (B eq_refl); reflexivity|]. cbn in Hs. rewrite Hs. apply orb_true_r.
Qed.

Lemma phase_eq_dec_boot (p : phase) : p = PBoot \/ p <> PBoot.
Proof. destruct p; [left; reflexivity|right; discriminate..]. Qed.

Section SysP.
Variable c : config.
Notation N := (c_numnodes c).
Hypothesis Hnc : forall n i, c_crash_in c n i = false.
Hypothesis Hng : no_garbled c.
Hypothesis Hne : forall k, ~ In ""%string (c_coll c k).

Record PN (act : list nat) (sd : bool) (ls : lstate) (n : nat) (L : list sig) (dn : list cmd) (w : wst) : Prop := {
  (* a worker that has booted: its "ready" is in flight, or it is registered, or it was told to shut down *)
  pn_ready : In n act -> wph w <> PBoot -> wph w <> PExited ->
             In SgReady L \/ In n (l_nodes ls) \/ (exists f, aget n (l_nt ls) = Some f /\ n_sdsent f = true);
  (* a worker that has collected: its collection is in flight or recorded *)
  pn_cf : sd = false -> In n act -> 2 <= prank (wph w) -> wph w <> PExited ->
          In SgCF L \/ In n (akeys (l_n2c ls));
  pn_nr : In n (akeys (l_n2c ls)) -> ~ In SgReady L;
  (* a worker that has exited: its "finished" is in flight, or the controller has dropped the node *)
  pn_fin : wph w = PExited -> In n act -> exists b, In (SgFin b) L;
  (* a node that was told to shut down: the marker is in its command stream *)
  pn_mark : forall f, aget n (l_nt ls) = Some f -> n_sdsent f = true ->
            In Mark (wstream w ++ flat_map cmd_items dn);
  pn_cb : CB w;
}.

Record PC (d : dstate) (ls : lstate) : Prop := {
  pc_tf : d_shuttingdown d = false -> l_tests_finished ls = false;
  pc_two : d_shuttingdown d = false -> Two ls;
  pc_sd : d_shuttingdown d = true -> forall m, In m (l_nodes ls) -> LivenessLaws.sd_in (l_nt ls) m;
  pc_act : forall m, In m (d_active d) -> m < N;
}.

Definition PInv (s : sys) : Prop :=
  exists ls, d_sched (y_d s) = StL ls /\ PC (y_d s) ls /\
    forall n w, aget n (y_w s) = Some w ->
      PN (d_active (y_d s)) (d_shuttingdown (y_d s)) ls n (sigs s n) (alist_get [] n (y_down s)) w.

Lemma PInv_set_result s r : PInv s -> PInv (set_result s r).
Proof. intros H. exact H. Qed.

(* ---- worker steps ---- *)
Lemma PN_deliver act sd ls n L cm rest w : PN act sd ls n L (cm :: rest) w -> PN act sd ls n L rest (deliver w cm).
Proof.
  intros [A B C D E F]. destruct (deliver_owed w cm) as (_ & Es & Ep & _).
  constructor; rewrite ?Ep; auto.
  intros f Ef Hs. specialize (E f Ef Hs). rewrite Es, <- app_assoc. exact E.
Qed.

Lemma PN_recv o act sd ls n L dn w :
  Forall good_cmd (winbox w) -> wreply w = None -> PN act sd ls n L dn w -> PN act sd ls n L dn (fst (recv_step o w)).
Proof.
  intros G Hr [A B C D E F]. destruct (recv_step_owed o w G Hr) as (_ & _ & Es & Ep & _).
  constructor; rewrite ?Ep; auto.
  - rewrite Es. exact E.
  - apply CB_recv. exact F.
Qed.

Lemma PN_main o sd ls act ss n L dn w w' evs :
  NI ls act ss n L dn w -> PN act sd ls n L dn w -> main_step o w = Some (w', evs) ->
  PN act sd ls n (L ++ flat_map we_sig evs) dn w'.
Proof.
  intros X [A B C D E F] H.
  destruct (main_step_frame _ _ _ _ H) as (_ & _ & _ & Estr).
  destruct (main_step_boot _ _ _ _ (ni_wx _ _ _ _ _ _ _ X) H) as (Bt1 & Bt2 & Bt3).
  pose proof (main_step_not_exited _ _ _ _ H) as Hne0.
  constructor.
  - intros Hact _ _. destruct (phase_eq_dec_boot (wph w)) as [Eb|Eb].
    + left. apply in_or_app. right. apply Bt1. exact Eb.
    + destruct (A Hact Eb Hne0) as [X1|X1]; [left; apply in_or_app; left; exact X1|right; exact X1].
  - intros Hsd Hact Hr _. destruct (main_step_cf _ _ _ _ H Hr) as [Hr0|Hin].
    + destruct (B Hsd Hact Hr0 Hne0) as [X1|X1]; [left; apply in_or_app; left; exact X1|right; exact X1].
    + left. apply in_or_app. right. exact Hin.
  - intros Hin Hi. apply in_app_or in Hi. destruct Hi as [Hi|Hi]; [exact (C Hin Hi)|].
    apply Bt2 in Hi. destruct (ni_n2c _ _ _ _ _ _ _ X Hin) as (_ & Hr). rewrite Hi in Hr. cbn in Hr. lia.
  - intros Hex _. destruct (main_step_exit _ _ _ _ H Hex) as (b & Hb). exists b. apply in_or_app. right. exact Hb.
  - intros f Ef Hs. rewrite Estr. exact (E f Ef Hs).
  - eapply CB_main; eauto.
Qed.

(* ---- the controller's receiver thread ---- *)
Lemma PN_flags act sd ls ls' n L dn w :
  FlagsUp ls ls' -> l_n2p ls' = l_n2p ls -> l_n2c ls' = l_n2c ls ->
  PN act sd ls n L dn w -> PN act sd ls' n L dn w.
Proof.
  intros FU Ep Ec [A B C D E F]. constructor; auto.
  - intros H1 H2 H3. destruct (A H1 H2 H3) as [X|[X|(f & Ef & Hs)]]; [left; exact X|right; left|right; right].
    + unfold l_nodes. rewrite Ep. exact X.
    + specialize (FU n). rewrite Ef in FU. destruct (aget n (l_nt ls')) as [f'|] eqn:Ef'; [|destruct FU].
      exists f'. split; [reflexivity|]. destruct FU as (X & _). congruence.
  - rewrite Ec. exact B.
  - rewrite Ec. exact C.
  - intros f' Ef' Hs. specialize (FU n). rewrite Ef' in FU. destruct (aget n (l_nt ls)) as [f|] eqn:Ef; [|destruct FU].
    destruct FU as (X & _). apply (E f eq_refl). congruence.
Qed.

Lemma Two_flags ls ls' :
  FlagsUp ls ls' -> l_n2p ls' = l_n2p ls -> l_pending ls' = l_pending ls -> l_coll ls' = l_coll ls ->
  Two ls -> Two ls'.
Proof.
  intros FU Ep Eq Ec HT Hc Hp m f' Hm Ef' Hdn. rewrite Ec in Hc. rewrite Eq in Hp.
  unfold l_nodes, bk in *. rewrite Ep in *.
  specialize (FU m). rewrite Ef' in FU. destruct (aget m (l_nt ls)) as [f|] eqn:Ef; [|destruct FU].
  destruct FU as (_ & X). apply (HT Hc Hp m f Hm Ef).
  destruct (n_down f); [rewrite (X eq_refl) in Hdn; discriminate|reflexivity].
Qed.

(* ---- one iteration of the controller loop, seen from node n ---- *)
Lemma PN_ctl ev d ls d' ls' o n L' dn w :
  LEFF N (c_coll c) ev d ls d' ls' o -> LXEFF ev d ls d' ls' o ->
  DJ N (c_coll c) d ls ->
  NI ls (d_active d) (d_shouldstop d) n (ev_sigs_for n ev ++ L') dn w ->
  (forall f', aget n (l_nt ls') = Some f' -> n_down f' = true -> wph w = PExited) ->
  PN (d_active d) (d_shuttingdown d) ls n (ev_sigs_for n ev ++ L') dn w ->
  PN (d_active d') (d_shuttingdown d') ls' n L' (dn ++ cmds_to n o) w.
Proof.
  intros LE LX (J0 & Jss) X Hdown [A B C D E F]. pose proof J0 as [Els J Jb Jp Jg].
  pose proof (ni_chan _ _ _ _ _ _ _ X) as Ch.
  destruct (ni_flags _ _ _ _ _ _ _ X) as (f0 & Ef0 & _).
  assert (HnN : n < N) by (apply (lj_ntk _ _ _ J); congruence).
  assert (Hsub : forall g, In g L' -> In g (ev_sigs_for n ev ++ L')) by (intros g Hg; apply in_or_app; right; exact Hg).
  assert (SDd : d_shuttingdown d' = false -> d_shuttingdown d = false).
  { intros Hs. destruct (d_shuttingdown d) eqn:Esd; [|reflexivity]. rewrite (le_sd _ _ _ _ _ _ _ _ LE Esd) in Hs. discriminate. }
  constructor.
  - intros Hact Hnb Hnx. pose proof (lx_act_sub _ _ _ _ _ _ LX n Hact) as Hact0.
    destruct (A Hact0 Hnb Hnx) as [Hi|[Hi|(f & Ef & Hs)]].
    + apply in_app_or in Hi. destruct Hi as [Hi|Hi]; [|left; exact Hi].
      apply ev_sigs_for_in, ev_sig_ready in Hi.
      destruct (lx_ready _ _ _ _ _ _ LX n Hi) as [Y|(f' & Ef' & Hs')]; [right; left; exact Y|].
      right. right. exists f'. split; [exact Ef'|]. unfold shutting_down in Hs'.
      destruct (n_down f') eqn:Edn; [exfalso; exact (Hnx (Hdown f' Ef' Edn))|exact Hs'].
    + destruct (lx_nodes_keep _ _ _ _ _ _ LX n Hi) as [Y|(b & Hev)]; [right; left; exact Y|].
      exfalso. exact (lx_act_fin _ _ _ _ _ _ LX n b Hev Hact).
    + right. right. pose proof (le_nt _ _ _ _ _ _ _ _ LE n) as R. rewrite Ef in R.
      destruct (aget n (l_nt ls')) as [f'|] eqn:Ef'; [|destruct R]. cbn in R.
      exists f'. split; [reflexivity|]. destruct (NR_fields _ _ _ R) as (_ & _ & _ & Dsd & _). apply Dsd. left. exact Hs.
  - intros Hsd' Hact Hr Hnx. pose proof (lx_act_sub _ _ _ _ _ _ LX n Hact) as Hact0. pose proof (SDd Hsd') as Hsd.
    destruct (B Hsd Hact0 Hr Hnx) as [Hi|Hi].
    + apply in_app_or in Hi. destruct Hi as [Hi|Hi]; [|left; exact Hi].
      right. apply ev_sigs_for_in in Hi. pose proof Hi as Hev. apply ev_sig_cf in Hi. destruct Hi as (ids & ->).
      apply (lx_cf _ _ _ _ _ _ LX n ids eq_refl Hsd').
      rewrite (ev_sigs_for_self _ _ _ Hev) in *. cbn [app] in *.
      assert (Hnb : wph w <> PBoot) by (intros Eb; rewrite Eb in Hr; cbn in Hr; lia).
      assert (Hnc2 : ~ In n (akeys (l_n2c ls))).
      { intros Hin. destruct (ni_n2c _ _ _ _ _ _ _ X Hin) as (Y & _). apply Y. left. reflexivity. }
      destruct (A Hact0 Hnb Hnx) as [[Y|Y]|[Y|(f & Ef & Hs)]].
      * discriminate.
      * exfalso. destruct (chan_ok_head _ _ _ Ch) as (_ & Fa). rewrite Forall_forall in Fa.
        specialize (Fa _ Y). unfold prec in Fa. cbn in Fa. lia.
      * exact Y.
      * exfalso. destruct (Jp Hsd n f Ef Hs) as (Cc & _).
        rewrite (completed_pigeon N (c_coll c) ls n J HnN Hnc2) in Cc. discriminate.
    + right. exact (lx_n2c_keep _ _ _ _ _ _ LX Hsd' n Hi).
  - intros Hin Hi. destruct (le_n2c _ _ _ _ _ _ _ _ LE n Hin) as [Hold|Hev].
    + apply (C Hold). apply Hsub. exact Hi.
    + rewrite (ev_sigs_for_self _ _ _ Hev) in Ch. cbn [app] in Ch.
      destruct (chan_ok_head _ _ _ Ch) as (_ & Fa). rewrite Forall_forall in Fa.
      specialize (Fa _ Hi). unfold prec in Fa. cbn in Fa. lia.
  - intros Hex Hact. pose proof (lx_act_sub _ _ _ _ _ _ LX n Hact) as Hact0.
    destruct (D Hex Hact0) as (b & Hi). apply in_app_or in Hi. destruct Hi as [Hi|Hi]; [|exists b; exact Hi].
    exfalso. apply ev_sigs_for_in in Hi. exact (lx_act_fin _ _ _ _ _ _ LX n b Hi Hact).
  - intros f' Ef' Hs. pose proof (le_nt _ _ _ _ _ _ _ _ LE n) as R. rewrite Ef', Ef0 in R. cbn in R.
    destruct (NR_fields _ _ _ R) as (_ & _ & _ & Dsd & _). apply Dsd in Hs.
    rewrite flat_map_app, app_assoc. apply in_or_app. destruct Hs as [Hs|Hs].
    + left. exact (E f0 Ef0 Hs).
    + right. apply in_flat_map. exists CShutdown. split; [exact Hs|left; reflexivity].
  - exact F.
Qed.

Lemma PInv_init : c_mode c = MLoad -> 0 < N -> PInv (sys_init c).
Proof.
  intros Hm Hpos. unfold PInv. cbn [sys_init y_d d_sched]. rewrite Hm. cbn [s_init s_set_nt].
  eexists. split; [reflexivity|]. split.
  - constructor; cbn [d_shuttingdown].
    + intros _. unfold l_tests_finished, l_collection_is_completed. cbn [l_set_nt l_init l_numnodes l_n2c length].
      destruct N; [lia|]. reflexivity.
    + intros _ Hc. exfalso. apply Hc. reflexivity.
    + discriminate.
    + cbn [d_active]. intros m Hin. apply in_seq in Hin. lia.
  - intros n w Ew. cbn [sys_init y_w] in Ew. apply aget_map_const in Ew. subst w.
    constructor; cbn [w_init wph prank].
    + intros _ Fb. exfalso. apply Fb. reflexivity.
    + intros _ _ Fb. lia.
    + cbn. intros [].
    + discriminate.
    + intros f Ef Hs. cbn [l_set_nt l_nt l_init] in Ef. rewrite (aget_init_nt_sd c n f Ef) in Hs. discriminate.
    + exact CB_init.
Qed.

Lemma pinv_push s n0 w0 w' evs ls :
  d_sched (y_d s) = StL ls -> PC (y_d s) ls ->
  (forall n w, aget n (y_w s) = Some w ->
     PN (d_active (y_d s)) (d_shuttingdown (y_d s)) ls n (sigs s n) (alist_get [] n (y_down s)) w) ->
  aget n0 (y_w s) = Some w0 ->
  PN (d_active (y_d s)) (d_shuttingdown (y_d s)) ls n0 (sigs s n0 ++ flat_map we_sig evs) (alist_get [] n0 (y_down s)) w' ->
  PInv (push_up (set_w s n0 w') n0 (map (up_of_wevent c n0) evs)).
Proof.
  intros Els PCd PNs Ew X.
  set (s' := push_up (set_w s n0 w') n0 (map (up_of_wevent c n0) evs)).
  assert (Sg : forall n, sigs s' n = if Nat.eqb n n0 then sigs s n0 ++ flat_map we_sig evs else sigs s n).
  { intros n. unfold sigs, s'. cbn [push_up set_w y_evq y_up]. destruct (Nat.eqb n n0) eqn:E.
    - apply Nat.eqb_eq in E. subst n. rewrite alist_get_aset_eq, flat_map_app, up_sigs_of_wevents, app_assoc. reflexivity.
    - apply Nat.eqb_neq in E. rewrite alist_get_aset_neq by exact E. reflexivity. }
  exists ls. split; [exact Els|]. split; [exact PCd|].
  intros n w Hw. rewrite Sg. unfold s' in Hw |- *. cbn [push_up set_w y_w y_d y_down] in Hw |- *.
  destruct (Nat.eqb n n0) eqn:E.
  - apply Nat.eqb_eq in E. subst n. rewrite aget_aset_eq in Hw. inv Hw. exact X.
  - apply Nat.eqb_neq in E. rewrite aget_aset_neq in Hw by exact E. apply PNs. exact Hw.
Qed.

(* ---- the one-step lemma ---- *)
Lemma step_pinv s l s' o w :
  no_crash_label l -> CInv c s -> PInv s -> sys_step c s l = Some (s', o, w) -> PInv s'.
Proof.
  intros Hl CI (lsp & Elsp & PCd & PNs) H.
  pose proof (step_cinv c Hnc Hng Hne s l s' o w Hl CI H) as CI'.
  pose proof CI as [Inv Ek (ls & DJd & NIs) Eq Eu Edn Ea Er Epm Efn Edw].
  pose proof Inv as [A B (ls0 & Els0 & I & T) D E F G NG].
  pose proof DJd as (J0 & Jss). pose proof J0 as [Els J Jb Jp Jg].
  assert (ls0 = ls) by congruence. subst ls0. assert (lsp = ls) by congruence. subst lsp.
  unfold sys_step in H. destruct (y_result s) eqn:Eres; [discriminate|].
  destruct l as [n0|n0|n0|n0| |n0]; [| | | | |contradiction].
  - (* LDeliver *)
    replace (mem_nat n0 (y_dead s)) with false in H by (rewrite A; reflexivity).
    destruct (aget n0 (y_down s)) as [[|cmd rest]|] eqn:Ed; try discriminate.
    destruct (aget n0 (y_w s)) as [w0|] eqn:Ew; try discriminate.
    fin3 H s' o w.
    exists ls. split; [exact Els|]. split; [exact PCd|].
    intros n w Hw. unfold sigs. cbn [y_d y_down y_evq y_up y_w] in *. fold (sigs s n).
    destruct (Nat.eq_dec n n0) as [->|Hn].
    + rewrite aget_aset_eq in Hw. inv Hw. rewrite alist_get_aset_eq.
      apply PN_deliver. pose proof (PNs n0 w0 Ew) as X. rewrite (alist_get_some [] _ _ _ Ed) in X. exact X.
    + rewrite aget_aset_neq in Hw by exact Hn. rewrite alist_get_aset_neq by exact Hn. apply PNs. exact Hw.
  - (* LRecvW *)
    replace (mem_nat n0 (y_dead s)) with false in H by (rewrite A; reflexivity).
    destruct (aget n0 (y_w s)) as [w0|] eqn:Ew; try discriminate.
    destruct (negb (wcb w0)); [discriminate|].
    destruct (recv_step (c_oracle c n0) w0) as [w' evs] eqn:Es. fin3 H s' o w.
    destruct (G _ _ Ew) as (Iw & Gw).
    destruct (NI_recv (c_oracle c n0) _ _ _ _ _ _ _ Gw (NIs n0 w0 Ew)) as (Ev & _). rewrite Es in Ev. cbn [snd] in Ev.
    subst evs.
    apply pinv_push with (w0 := w0) (ls := ls); auto.
    cbn [flat_map]. rewrite app_nil_r.
    pose proof (PN_recv (c_oracle c n0) _ _ _ _ _ _ _ Gw (proj1 (ni_wx _ _ _ _ _ _ _ (NIs n0 w0 Ew))) (PNs n0 w0 Ew)) as X.
    rewrite Es in X. exact X.
  - (* LMain *)
    replace (mem_nat n0 (y_dead s)) with false in H by (rewrite A; reflexivity).
    destruct (aget n0 (y_w s)) as [w0|] eqn:Ew; try discriminate.
    assert (Hd : dies_now c n0 w0 = false).
    { unfold dies_now. destruct (wph w0); auto. }
    rewrite Hd in H.
    destruct (main_step (c_oracle c n0) w0) as [[w' evs]|] eqn:Es; [|discriminate]. fin3 H s' o w.
    apply pinv_push with (w0 := w0) (ls := ls); auto.
    eapply PN_main; [exact (NIs n0 w0 Ew)|exact (PNs n0 w0 Ew)|exact Es].
  - (* LRecv *)
    destruct (aget n0 (y_up s)) as [[|m rest]|] eqn:Eup; try discriminate.
    cbn [y_d] in H.
    destruct (process_from_remote n0 m (y_d s)) as [[d' outs] r] eqn:Ep.
    pose proof (E n0) as En. rewrite (alist_get_some [] _ _ _ Eup) in En.
    inversion En as [|m1 r1 Gm Gr]; subst.
    destruct (Eu n0) as (Eu1 & Eu2). rewrite (alist_get_some [] _ _ _ Eup) in Eu1, Eu2.
    inversion Eu1 as [|m2 r2 Gm3 Gr3]; subst.
    assert (HnN : n0 < N).
    { destruct (Nat.lt_ge_cases n0 N) as [X|X]; [exact X|]. specialize (Eu2 X). discriminate. }
    destruct (aget n0 (l_nt ls)) as [f|] eqn:Ef.
    2:{ exfalso. apply (proj2 (lj_ntk _ _ _ J n0)); [exact HnN|exact Ef]. }
    destruct (worker_known c s n0 Ek HnN) as (wn & Ewn).
    assert (Hdn : n_down f = true -> up_sig m = []).
    { intros Hd. destruct (Edw ls n0 f wn Els Ef Hd Ewn) as (X & _).
      rewrite (alist_get_some [] _ _ _ Eup) in X. cbn [flat_map] in X. apply app_eq_nil in X. tauto. }
    destruct (pfr_eff c _ _ _ _ _ _ _ _ Els Ef Gm Gm3 HnN Hdn Ep)
      as (-> & evs & ls' & -> & Els' & Hsig & Hok3 & S1 & S2 & S3 & P1 & P2 & P3 & P4 & P5 & P6 & P7 & P8 & P9).
    pose proof (pfr_flags _ _ _ _ _ _ _ _ Gm Ep Els Els') as FU.
    cbn [apply_outs] in H. unfold close_if_dead in H. cbn [set_evq set_d y_dead] in H.
    replace (mem_nat n0 (y_dead s)) with false in H by (rewrite A; reflexivity).
    fin3 H s' o w.
    exists ls'. cbn [set_evq set_d y_d y_evq y_down y_up y_w y_dead y_result]. split; [exact Els'|].
    destruct PCd as [Ptf Ptwo Psd Pact]. split.
    + constructor; rewrite ?S1, ?S3; [| | |exact Pact].
      * intros Hs. rewrite <- (Ptf Hs). unfold l_tests_finished, l_collection_is_completed.
        rewrite P6, P2, P3, P1. reflexivity.
      * intros Hs. apply (Two_flags ls ls' FU P1 P3 P4). exact (Ptwo Hs).
      * intros Hs m0 Hm0. apply (flagsup_sd_in ls ls' m0 FU). apply (Psd Hs).
        unfold l_nodes in *. rewrite P1 in Hm0. exact Hm0.
    + intros n w Hw. unfold sigs. cbn [set_evq set_d y_d y_down y_evq y_up].
      assert (Esg : evq_sigs n (y_evq s ++ evs) ++ flat_map up_sig (alist_get [] n (aset n0 rest (y_up s))) = sigs s n).
      { unfold sigs. rewrite evq_sigs_app, Hsig. destruct (Nat.eqb n0 n) eqn:E0.
        - apply Nat.eqb_eq in E0. subst n. rewrite alist_get_aset_eq, (alist_get_some [] _ _ _ Eup).
          cbn [flat_map]. rewrite <- app_assoc. reflexivity.
        - apply Nat.eqb_neq in E0. rewrite alist_get_aset_neq by congruence. rewrite app_nil_r. reflexivity. }
      rewrite Esg, S1, S3. apply (PN_flags _ _ ls ls' _ _ _ _ FU P1 P2). apply PNs. exact Hw.
  - (* LCtl *)
    specialize (Ea eq_refl).
    destruct (d_active (y_d s)) as [|a0 ar] eqn:Eact; [contradiction|].
    destruct (y_evq s) as [|ev q] eqn:Eevq; [discriminate|].
    inversion D as [|ev1 q1 Gev Gq]; subst. inversion Eq as [|ev2 q2 Gev3 Gq3]; subst.
    destruct (d_loop_once ev (y_d s)) as [[d' outs] r] eqn:El.
    assert (Hpre : PRE N (c_coll c) ev (y_d s) ls).
    { eapply pre_from_inv; eauto. }
    assert (Hact : d_active (y_d s) <> []) by (rewrite Eact; discriminate).
    destruct (loop_once_ok N (c_coll c) ev (y_d s) ls d' outs r DJd I Hact Hpre El) as (-> & ls' & LE).
    destruct (ok_loop_once ev (y_d s) Gev _ _ _ El ls Els I) as (ls2 & Els2 & _ & HLT & Go).
    assert (Els' : d_sched d' = StL ls').
    { destruct (le_dj _ _ _ _ _ _ _ _ LE) as ([E1 _ _ _ _] & _). exact E1. }
    pose proof (loop_x N (c_coll c) ev (y_d s) ls d' outs (Ok tt) DJd I Hact Hpre El ls' Els') as LX.
    set (s1 := apply_outs (set_d (set_evq s q) d') outs) in *.
    assert (Hd1 : y_dead (set_d (set_evq s q) d') = []) by (cbn; exact A).
    destruct (apply_outs_eff outs _ Hd1 Go) as (A1 & A2 & A3 & A4 & A5 & A6 & A7).
    cbn [set_d set_evq y_d y_evq y_up y_w y_dead y_result y_down] in A1, A2, A3, A4, A5, A6, A7.
    fold s1 in A1, A2, A3, A4, A5, A6, A7.
    (* the successor state is s1 up to the result *)
    assert (S' : exists rr, s' = set_result s1 rr).
    { destruct (d_session_finished d') eqn:Efin.
      - fin3 H s' o w. eexists. reflexivity.
      - destruct (d_active d') as [|b0 br] eqn:Eact'.
        + exfalso. pose proof (le_fin _ _ _ _ _ _ _ _ LE) as Hf. rewrite Eact' in Hf. specialize (Hf eq_refl).
          unfold d_session_finished in Efin. rewrite Hf, Eact' in Efin. discriminate.
        + fin3 H s' o w. exists (y_result s1). symmetry. apply set_result_same. reflexivity. }
    destruct S' as (rr & ->).
    assert (CI1 : forall ls1 n f w, d_sched (y_d s1) = StL ls1 -> aget n (l_nt ls1) = Some f -> n_down f = true ->
                  aget n (y_w s1) = Some w -> wph w = PExited).
    { intros ls1 n1 f1 w1 X1 X2 X3 X4. exact (proj2 (ci_dn _ _ CI' ls1 n1 f1 w1 X1 X2 X3 X4)). }
    apply PInv_set_result.
    exists ls'. rewrite A1. split; [exact Els'|]. destruct PCd as [Ptf Ptwo Psd Pact]. split.
    + constructor.
      * exact (lx_tf _ _ _ _ _ _ LX).
      * intros Hs. apply (lx_two _ _ _ _ _ _ LX Hs).
        -- apply Ptwo. destruct (d_shuttingdown (y_d s)) eqn:Esd; [|reflexivity].
           rewrite (le_sd _ _ _ _ _ _ _ _ LE Esd) in Hs. discriminate.
        -- intros n -> . destruct Gev3 as (_ & HnN). cbn in HnN.
           destruct (worker_known c s n Ek HnN) as (wn & Ewn).
           pose proof (pn_nr _ _ _ _ _ _ _ (PNs n wn Ewn)) as Hnr.
           rewrite (sigs_head s _ q n Eevq) in Hnr. rewrite (ev_sigs_for_self n (QReady n) SgReady eq_refl) in Hnr.
           destruct (l_coll ls) eqn:Ecl; [|reflexivity]. exfalso.
           assert (Hni : ~ In n (akeys (l_n2c ls))) by (intros Hin; apply (Hnr Hin); left; reflexivity).
           pose proof (completed_pigeon N (c_coll c) ls n J HnN Hni) as Fc.
           rewrite (lj_cc _ _ _ J) in Fc; [discriminate|congruence].
      * intros Hs. apply (lx_sd _ _ _ _ _ _ LX Hs). exact Psd.
      * intros m Hm. apply Pact. exact (lx_act_sub _ _ _ _ _ _ LX m Hm).
    + intros n w1 Hw. rewrite A4 in Hw. rewrite A7.
      assert (Es : sigs s1 n = evq_sigs n q ++ flat_map up_sig (alist_get [] n (y_up s))).
      { unfold sigs. rewrite A2, A3. reflexivity. }
      rewrite Es. eapply PN_ctl; [exact LE|exact LX|exact DJd| | |].
      * rewrite <- (sigs_head s ev q n Eevq). apply NIs. exact Hw.
      * intros f' Ef' Hdn'. apply (CI1 ls' n f' w1); auto; [rewrite A1; exact Els'|rewrite A4; exact Hw].
      * rewrite <- (sigs_head s ev q n Eevq). rewrite Eact. apply PNs. exact Hw.
Qed.

Lemma pinv_run ls :
  c_mode c = MLoad -> 0 < N -> Forall no_crash_label ls -> CInv c (sys_run c ls) /\ PInv (sys_run c ls).
Proof.
  intros Hm Hpos Hls. unfold sys_run.
  assert (G : forall s, CInv c s /\ PInv s ->
     let s' := fold_left (fun s l => match sys_step c s l with Some (s', _, _) => s' | None => s end) ls s in
     CInv c s' /\ PInv s').
  { induction Hls as [|l ls Hl Hls IH]; intros s Hs; cbn [fold_left]; [exact Hs|].
    apply IH. destruct (sys_step c s l) as [[[s' o] w]|] eqn:E; [|exact Hs].
    destruct Hs as (H1 & H2). split; [eapply (step_cinv c Hnc Hng Hne); eauto|eapply step_pinv; eauto]. }
  apply G. split; [apply CInv_init; assumption|apply PInv_init; assumption].
Qed.

(* ====================================================================================== *)
(* D. quiescent states cannot occur while the session is running                           *)
(* ====================================================================================== *)

(* the receiver thread of a worker has something to do *)
Definition recv_busy (w : wst) : bool :=
  wcb w && negb (match wrpend w, winbox w, wreply w with [], [], None => true | _, _, _ => false end).

(* a useful move: anything but a crash or an idle turn of a worker's receiver thread *)
Definition useful (s : sys) (l : label) : bool :=
  match l with
  | LRecvW n => match aget n (y_w s) with Some w => recv_busy w | None => false end
  | LCrash _ => false
  | _ => true
  end.

(* a useful enabled move of node n's side (wire down, wire up, receiver thread, main thread), if any *)
Definition nl_w (n : nat) (w : wst) : option label :=
  if recv_busy w then Some (LRecvW n)
  else match main_step (c_oracle c n) w with Some _ => Some (LMain n) | None => None end.
Definition nl_up (s : sys) (n : nat) (w : wst) : option label :=
  match aget n (y_up s) with Some (_ :: _) => Some (LRecv n) | _ => nl_w n w end.
Definition nl_down (s : sys) (n : nat) (w : wst) : option label :=
  match aget n (y_down s) with Some (_ :: _) => Some (LDeliver n) | _ => nl_up s n w end.
Definition node_label (s : sys) (n : nat) : option label :=
  match aget n (y_w s) with Some w => nl_down s n w | None => None end.

Definition Good_label (s : sys) (l : label) : Prop :=
  no_crash_label l /\ useful s l = true /\ sys_step c s l <> None.

Lemma nl_w_ok s n w l :
  y_dead s = [] -> y_result s = None -> aget n (y_w s) = Some w -> nl_w n w = Some l -> Good_label s l.
Proof.
  intros Hd Hr Ew H. unfold nl_w in H. destruct (recv_busy w) eqn:Eb.
  - inv H. split; [exact Logic.I|]. split; [cbn; rewrite Ew; exact Eb|].
    unfold sys_step. rewrite Hr, Hd. cbn [mem_nat existsb]. rewrite Ew.
    unfold recv_busy in Eb. apply andb_true_iff in Eb. destruct Eb as (Ecb & _). rewrite Ecb. cbn [negb].
    destruct (recv_step (c_oracle c n) w). discriminate.
  - destruct (main_step (c_oracle c n) w) as [[w' evs]|] eqn:Em; [|discriminate]. inv H.
    split; [exact Logic.I|]. split; [reflexivity|].
    unfold sys_step. rewrite Hr, Hd. cbn [mem_nat existsb]. rewrite Ew.
    assert (Hdn : dies_now c n w = false) by (unfold dies_now; destruct (wph w); auto).
    rewrite Hdn, Em. discriminate.
Qed.

Lemma nl_up_ok s n w l :
  y_dead s = [] -> y_result s = None -> aget n (y_w s) = Some w -> nl_up s n w = Some l -> Good_label s l.
Proof.
  intros Hd Hr Ew H. unfold nl_up in H.
  assert (UP : forall m rest, aget n (y_up s) = Some (m :: rest) -> Good_label s (LRecv n)).
  { intros m rest Eu. split; [exact Logic.I|]. split; [reflexivity|].
    unfold sys_step. rewrite Hr, Eu. cbn [y_d].
    destruct (process_from_remote n m (y_d s)) as [[d' outs] r]. destruct r; discriminate. }
  destruct (aget n (y_up s)) as [[|m rest]|] eqn:Eu.
  - eapply nl_w_ok; eauto.
  - inv H. eapply UP; eauto.
  - eapply nl_w_ok; eauto.
Qed.

Lemma nl_down_ok s n w l :
  y_dead s = [] -> y_result s = None -> aget n (y_w s) = Some w -> nl_down s n w = Some l -> Good_label s l.
Proof.
  intros Hd Hr Ew H. unfold nl_down in H.
  destruct (aget n (y_down s)) as [[|cm rest]|] eqn:Ed.
  - eapply nl_up_ok; eauto.
  - inv H. split; [exact Logic.I|]. split; [reflexivity|].
    unfold sys_step. rewrite Hr, Hd. cbn [mem_nat existsb]. rewrite Ed, Ew. discriminate.
  - eapply nl_up_ok; eauto.
Qed.

Lemma node_label_ok s n l :
  y_dead s = [] -> y_result s = None -> node_label s n = Some l -> Good_label s l.
Proof.
  intros Hd Hr H. unfold node_label in H. destruct (aget n (y_w s)) as [w|] eqn:Ew; [|discriminate].
  eapply nl_down_ok; eauto.
Qed.

Definition quiet (s : sys) (n : nat) (w : wst) : Prop :=
  alist_get [] n (y_down s) = [] /\ alist_get [] n (y_up s) = [] /\
  recv_busy w = false /\ main_step (c_oracle c n) w = None.

Lemma node_label_none s n w : node_label s n = None -> aget n (y_w s) = Some w -> quiet s n w.
Proof.
  intros H Ew. unfold node_label in H. rewrite Ew in H. unfold nl_down, nl_up, nl_w, quiet, alist_get in *.
  destruct (aget n (y_down s)) as [[|cm rest]|]; try discriminate;
  destruct (aget n (y_up s)) as [[|m rest']|]; try discriminate;
  destruct (recv_busy w); try discriminate;
  destruct (main_step (c_oracle c n) w); try discriminate; auto.
Qed.

Fixpoint find_label (s : sys) (ns : list nat) : option label :=
  match ns with
  | [] => None
  | n :: r => match node_label s n with Some l => Some l | None => find_label s r end
  end.

Lemma find_label_some s ns l : find_label s ns = Some l -> exists n, node_label s n = Some l.
Proof.
  induction ns as [|n r IH]; cbn; [discriminate|].
  destruct (node_label s n) eqn:E; [intros H; inv H; eauto|exact IH].
Qed.

Lemma find_label_none s ns : find_label s ns = None -> forall n, In n ns -> node_label s n = None.
Proof.
  induction ns as [|k r IH]; cbn; [intros _ n []|].
  destruct (node_label s k) eqn:E; [discriminate|]. intros H n [<-|Hn]; [exact E|apply IH; assumption].
Qed.

(* ---- small list facts ---- *)
Lemma forallb_false_ex {A} (f : A -> bool) l : forallb f l = false -> exists x, In x l /\ f x = false.
Proof.
  induction l as [|a l IH]; cbn; [discriminate|]. destruct (f a) eqn:E.
  - cbn. intros H. destruct (IH H) as (x & Hx & Fx). exists x. auto.
  - intros _. exists a. auto.
Qed.

Lemma in_nodup_aget {V} (m : amap V) k v : NoDup (akeys m) -> In (k, v) m -> aget k m = Some v.
Proof.
  induction m as [|[k' v'] m IH]; cbn; [intros _ []|]. intros ND [E|Hin].
  - inv E. rewrite Nat.eqb_refl. reflexivity.
  - inv ND. destruct (Nat.eqb k k') eqn:E.
    + apply Nat.eqb_eq in E. subst k'. exfalso. apply H1. unfold akeys. change k with (fst (k, v)). apply in_map. exact Hin.
    + apply IH; assumption.
Qed.

Lemma markpopped_in_stream w : markpopped w -> In Mark (wstream w).
Proof.
  intros (pre & t & Ep). unfold wstream. rewrite Ep, map_app. apply in_or_app. left. apply in_or_app. right. left. reflexivity.
Qed.

(* ---- the argument ---- *)
Lemma quiescent_false s :
  CInv c s -> PInv s -> y_result s = None -> y_evq s = [] ->
  (forall n w, aget n (y_w s) = Some w -> quiet s n w) -> False.
Proof.
  intros CI (lsp & Elsp & PCd & PNs) Hres Hevq HQ.
  pose proof CI as [Inv Ek (ls & DJd & NIs) Eq Eu Edn Ea Er Epm Efn Edw].
  pose proof Inv as [A B (ls0 & Els0 & I & T) D E F G NG].
  pose proof DJd as (J0 & Jss). pose proof J0 as [Els J Jb Jp Jg].
  assert (ls0 = ls) by congruence. subst ls0. assert (lsp = ls) by congruence. subst lsp.
  destruct PCd as [Ptf Ptwo Psd Pact].
  assert (SG : forall n w, aget n (y_w s) = Some w -> sigs s n = []).
  { intros n w Hw. destruct (HQ n w Hw) as (_ & Hu & _). unfold sigs. rewrite Hevq, Hu. reflexivity. }
  (* an active node: its worker waits at an empty queue, was not told to shut down, holds <= 1 test *)
  assert (ACT : forall n, In n (d_active (y_d s)) -> exists w f, aget n (y_w s) = Some w /\ aget n (l_nt ls) = Some f /\
            wph w <> PExited /\ 2 <= prank (wph w) /\ n_sdsent f = false /\ n_down f = false /\
            length (bk ls n) <= 1 /\ In n (l_nodes ls)).
  { intros n Hact. pose proof (Pact n Hact) as HnN. destruct (worker_known c s n Ek HnN) as (w & Ew).
    pose proof (NIs n w Ew) as X. unfold NInv in X. pose proof (PNs n w Ew) as Y. rewrite (SG n w Ew) in X, Y.
    destruct (HQ n w Ew) as (Hd & Hu & Hb & Hm). rewrite Hd in X, Y.
    destruct (ni_flags _ _ _ _ _ _ _ X) as (f & Ef & Mk). exists w, f. split; [exact Ew|]. split; [exact Ef|].
    assert (Hnx : wph w <> PExited).
    { intros Ex. destruct (pn_fin _ _ _ _ _ _ _ Y Ex Hact) as (b & []). }
    apply LivenessLaws.V6_main_step_blocked in Hm.
    destruct (G n w Ew) as (Iw & _). pose proof (inv_phase w Iw) as PI. unfold phase_inv in PI.
    assert (BL : wq w = [] /\ wcb w = true /\ 2 <= prank (wph w) /\ wph w <> PBoot /\
                 ~ In Mark (map snd (wpopped w)) /\ length (owed_main w) <= 1).
    { destruct Hm as [(Ep & Eq0 & Ecb)|[(cur & Ep & Eq0)|Ep]]; [| |contradiction].
      - rewrite Ep in PI. destruct PI as (Epop & _). rewrite Epop. unfold owed_main. rewrite Ep. cbn.
        repeat split; auto; try lia; try discriminate.
      - pose proof (pn_cb _ _ _ _ _ _ _ Y) as Cb. unfold CB in Cb. rewrite Ep in Cb, PI.
        destruct PI as (pre & Epop & Hnm & _). unfold owed_main. rewrite Ep, Epop. cbn [prank length].
        repeat split; auto; try lia; try discriminate.
        intros Hin. apply in_map_iff in Hin. destruct Hin as (e & Ee & Hin). apply in_app_or in Hin.
        destruct Hin as [Hin|[<-|[]]].
        + specialize (Hnm e Hin). unfold is_idx in Hnm. rewrite Ee in Hnm. discriminate.
        + discriminate Ee. }
    destruct BL as (Eq0 & Ecb & Hr & Hnb & Hnm & Hom).
    unfold recv_busy in Hb. rewrite Ecb in Hb. cbn [andb] in Hb. apply negb_false_iff in Hb.
    destruct (wrpend w) eqn:Erp; [|discriminate]. destruct (winbox w) eqn:Eib; [|discriminate].
    assert (Estr : wstream w ++ flat_map cmd_items [] = map snd (wpopped w)).
    { unfold wstream. rewrite Eq0, Erp, Eib. cbn. rewrite !app_nil_r. reflexivity. }
    assert (Hsf : n_sdsent f = false).
    { destruct (n_sdsent f) eqn:Es; [|reflexivity]. exfalso. apply Hnm. rewrite <- Estr.
      exact (pn_mark _ _ _ _ _ _ _ Y f Ef Es). }
    assert (Hdf : n_down f = false).
    { destruct (n_down f) eqn:Ed0; [|reflexivity]. exfalso. apply Hnx. exact (proj2 (Edw ls n f w Els Ef Ed0 Ew)). }
    split; [exact Hnx|]. split; [exact Hr|]. split; [exact Hsf|]. split; [exact Hdf|]. split.
    - rewrite (ni_coupled _ _ _ _ _ _ _ X). cbn [completes flat_map app]. unfold owed_w. rewrite Eq0, Erp, Eib.
      cbn. rewrite !app_nil_r. exact Hom.
    - destruct (pn_ready _ _ _ _ _ _ _ Y Hact Hnb Hnx) as [[]|[Hin|(f1 & Ef1 & Hs1)]]; [exact Hin|]. congruence. }
  assert (Hact0 : exists a, In a (d_active (y_d s))).
  { destruct (d_active (y_d s)) as [|a ar] eqn:Eact; [exfalso; exact (Ea Hres eq_refl)|]. exists a. left. reflexivity. }
  destruct Hact0 as (a & Hacta).
  destruct (ACT a Hacta) as (wa & fa & Ewa & Efa & Hnxa & Hra & Hsfa & Hdfa & Hbka & Hina).
  destruct (d_shuttingdown (y_d s)) eqn:Esd.
  - (* shutting down: the registered node a was told to shut down, or is down *)
    destruct (Psd eq_refl a Hina) as (f' & Ef' & Hs'). rewrite Efa in Ef'. inv Ef'.
    unfold shutting_down in Hs'. rewrite Hsfa, Hdfa in Hs'. discriminate.
  - assert (Hss : d_shouldstop (y_d s) = false).
    { destruct (d_shouldstop (y_d s)) eqn:E1; [|reflexivity]. specialize (Jss eq_refl). discriminate. }
    (* every worker has reported its collection *)
    assert (Hcomp : l_collection_is_completed ls = true).
    { destruct (l_collection_is_completed ls) eqn:Ec; [reflexivity|]. exfalso.
      assert (ALL : forall n, n < N -> In n (akeys (l_n2c ls))).
      { intros n HnN. destruct (worker_known c s n Ek HnN) as (w & Ew).
        destruct (in_dec Nat.eq_dec n (d_active (y_d s))) as [Hact|Hna].
        - destruct (ACT n Hact) as (w' & f & Ew' & Ef & Hnx & Hr & _). rewrite Ew in Ew'. inv Ew'.
          pose proof (PNs n w' Ew) as Y. rewrite (SG n w' Ew) in Y.
          destruct (pn_cf _ _ _ _ _ _ _ Y eq_refl Hact Hr Hnx) as [[]|Hin]. exact Hin.
        - exfalso. pose proof (NIs n w Ew) as X. unfold NInv in X. rewrite (SG n w Ew) in X.
          destruct (ni_act _ _ _ _ _ _ _ X Hna) as (_ & Ex).
          destruct (ni_flags _ _ _ _ _ _ _ X) as (f & Ef & (M1 & M2)).
          destruct (ni_fx _ _ _ _ _ _ _ X (or_introl Ex)) as [MP|[Fp|[[]|Fss]]]; [|congruence|congruence].
          destruct (n_sdsent f) eqn:Es.
          + destruct (Jp eq_refl n f Ef Es) as (Cc & _). congruence.
          + specialize (M2 eq_refl). apply nomark_not_in in M2. apply M2. apply in_or_app. left.
            apply markpopped_in_stream. exact MP. }
      assert (Hinc : incl (seq 0 N) (akeys (l_n2c ls))) by (intros n Hn; apply in_seq in Hn; apply ALL; lia).
      pose proof (NoDup_incl_length (seq_NoDup N 0) Hinc) as Hlen. rewrite seq_length, akeys_length in Hlen.
      unfold l_collection_is_completed in Ec. rewrite (lj_num _ _ _ J) in Ec. apply Nat.leb_gt in Ec. lia. }
    pose proof (Ptf eq_refl) as Htf. unfold l_tests_finished in Htf. rewrite Hcomp in Htf. cbn [andb] in Htf.
    destruct (l_pending ls) as [|p0 pr] eqn:Epend.
    + (* the pool is empty: somebody holds >= 2 tests *)
      cbn [andb] in Htf. destruct (forallb_false_ex _ _ Htf) as ([k b] & Hin & Hf). cbn [snd] in Hf.
      apply Nat.ltb_ge in Hf.
      assert (Hk : In k (l_nodes ls)).
      { unfold l_nodes, akeys. change k with (fst (k, b)). apply in_map. exact Hin. }
      pose proof (Jb eq_refl Hss k Hk) as Hka.
      destruct (ACT k Hka) as (_ & _ & _ & _ & _ & _ & _ & _ & Hbk & _).
      unfold bk, alist_get in Hbk. rewrite (in_nodup_aget _ _ _ (lj_wf _ _ _ J) Hin) in Hbk. lia.
    + (* the pool is not empty: every registered node holds >= 2 tests *)
      assert (Hcoll : l_coll ls <> None).
      { intros Ec. destruct I as (_ & _ & I3). destruct (I3 Ec) as (P0 & _). congruence. }
      assert (Hpne : l_pending ls <> []) by (rewrite Epend; discriminate).
      pose proof (Ptwo eq_refl Hcoll Hpne a fa Hina Efa Hdfa). lia.
Qed.

(* in every state satisfying the invariants in which the session has not ended, a useful move exists *)
Theorem progress s :
  CInv c s -> PInv s -> y_result s = None -> exists l, Good_label s l.
Proof.
  intros CI PI Hres. pose proof (si_dead _ (ci_sinv _ _ CI)) as Hd.
  destruct (y_evq s) as [|ev q] eqn:Eevq.
  - destruct (find_label s (seq 0 N)) as [l|] eqn:Ef.
    + destruct (find_label_some _ _ _ Ef) as (n & Hn). exists l. eapply node_label_ok; eauto.
    + exfalso. apply (quiescent_false s CI PI Hres Eevq). intros n w Ew.
      apply node_label_none; [|exact Ew]. apply (find_label_none _ _ Ef). apply in_seq.
      pose proof (worker_lt c s n w (ci_keys _ _ CI) Ew). lia.
  - exists LCtl. split; [exact Logic.I|]. split; [reflexivity|].
    unfold sys_step. rewrite Hres, Eevq.
    destruct (d_active (y_d s)).
    + destruct (d_no_active (y_d s)) as [[d' outs] r]. discriminate.
    + destruct (d_loop_once ev (y_d s)) as [[d' outs] r]. destruct r; [|discriminate].
      destruct (d_session_finished d'); [discriminate|].
      destruct (d_active d'); [|discriminate].
      destruct (d_no_active d') as [[d2 outs2] r2]. discriminate.
Qed.

End SysP.

(* ====================================================================================== *)
(* E. the theorems                                                                         *)
(* ====================================================================================== *)
Section Main.
  Variable c : config.
  Variable ls : list label.
  Hypothesis Hmode : c_mode c = MLoad.
  Hypothesis Hnocrash : forall n i, c_crash_in c n i = false.
  Hypothesis Hnogarbled : no_garbled c.
  Hypothesis Hids : forall n, ~ In ""%string (c_coll c n).
  Hypothesis Hsched : Forall no_crash_label ls.
  Hypothesis Hnodes : 0 < c_numnodes c.

  Theorem run_pinv : PInv c (sys_run c ls).
  Proof. exact (proj2 (pinv_run c Hnocrash Hnogarbled Hids ls Hmode Hnodes Hsched)). Qed.

  (* C02, no stand-off: while the session has not ended, some component can make a useful move
     (not a crash, not an idle turn of a worker's receiver thread) *)
  Theorem c02_no_deadlock_useful :
    y_result (sys_run c ls) = None ->
    exists l, no_crash_label l /\ useful (sys_run c ls) l = true /\ sys_step c (sys_run c ls) l <> None.
  Proof.
    intros Hres. destruct (pinv_run c Hnocrash Hnogarbled Hids ls Hmode Hnodes Hsched) as (CI & PI).
    exact (progress c Hnocrash _ CI PI Hres).
  Qed.

  Theorem c02_no_deadlock :
    y_result (sys_run c ls) = None ->
    exists l, no_crash_label l /\ sys_step c (sys_run c ls) l <> None.
  Proof.
    intros Hres. destruct (c02_no_deadlock_useful Hres) as (l & A & _ & B). exists l. split; assumption.
  Qed.
End Main.

(* the moves excluded by [useful] really are idle: an enabled non-crash move that is not useful is a
   turn of a worker's receiver thread that changes nothing any component can observe *)
Lemma recv_idle_same o w :
  wcb w = true -> wrpend w = [] -> winbox w = [] -> wreply w = None -> recv_step o w = (w, []).
Proof.
  intros A B C D. unfold recv_step. rewrite A. cbn [negb]. rewrite D. cbn [upd_recv wrpend]. rewrite B.
  cbn [upd_recv winbox]. rewrite C. cbn [recv_next upd_recv wreply].
  destruct w; cbn in *; subst; reflexivity.
Qed.

Theorem idle_turn_changes_nothing c s l s' o w :
  no_crash_label l -> useful s l = false -> sys_step c s l = Some (s', o, w) ->
  exists n, l = LRecvW n /\ o = [] /\ w = [] /\
    y_d s' = y_d s /\ y_evq s' = y_evq s /\ y_down s' = y_down s /\ y_dead s' = y_dead s /\
    y_result s' = y_result s /\
    (forall k, aget k (y_w s') = aget k (y_w s)) /\
    (forall k, alist_get [] k (y_up s') = alist_get [] k (y_up s)).
Proof.
  intros Hl Hu H. destruct l as [n|n|n|n| |n]; try discriminate; [|contradiction].
  exists n. split; [reflexivity|]. cbn [useful] in Hu. unfold sys_step in H.
  destruct (y_result s) eqn:Eres; [discriminate|]. destruct (mem_nat n (y_dead s)); [discriminate|].
  destruct (aget n (y_w s)) as [w0|] eqn:Ew; [|discriminate].
  destruct (wcb w0) eqn:Ecb; cbn [negb] in H; [|discriminate].
  unfold recv_busy in Hu. rewrite Ecb in Hu. cbn [andb] in Hu. apply negb_false_iff in Hu.
  destruct (wrpend w0) eqn:E1; [|discriminate]. destruct (winbox w0) eqn:E2; [|discriminate].
  destruct (wreply w0) eqn:E3; [discriminate|].
  rewrite (recv_idle_same (c_oracle c n) w0 Ecb E1 E2 E3) in H. inv H.
  cbn [map push_up set_w y_d y_evq y_down y_dead y_result y_w y_up]. repeat (split; [first [reflexivity|exact Eres]|]). split.
  - intros k. destruct (Nat.eq_dec k n) as [->|Hk]; [rewrite aget_aset_eq; symmetry; exact Ew|apply aget_aset_neq; exact Hk].
  - intros k. destruct (Nat.eq_dec k n) as [->|Hk]; [rewrite alist_get_aset_eq; apply app_nil_r|apply alist_get_aset_neq; exact Hk].
Qed.

Print Assumptions c02_no_deadlock_useful.
Print Assumptions c02_no_deadlock.
Check c02_no_deadlock_useful.
Check c02_no_deadlock.
Check progress.
Check step_pinv.
Check idle_turn_changes_nothing.
Print Assumptions idle_turn_changes_nothing.

(* ====================================================================================== *)
(* Non-vacuity: concrete states, evaluated                                                 *)
(* ====================================================================================== *)
Definition prog_cand (c : config) : list label :=
  LCtl :: flat_map (fun n => [LDeliver n; LRecvW n; LMain n; LRecv n]) (seq 0 (c_numnodes c)).
Definition prog_enabled (c : config) (s : sys) (l : label) : bool :=
  match sys_step c s l with Some _ => true | None => false end.
(* the useful enabled moves, and the enabled moves that are not useful (idle receiver turns) *)
Definition prog_moves (c : config) (s : sys) : list label :=
  filter (fun l => useful s l && prog_enabled c s l) (prog_cand c).
Definition prog_idle (c : config) (s : sys) : list label :=
  filter (fun l => negb (useful s l) && prog_enabled c s l) (prog_cand c).

(* (a) the mid-run state of Completeness.cpl_ex_mid (2 workers, 40 tests): five useful moves *)
Example prog_ex_mid :
  let c := cpl_cfg 2 40 (cpl_names 40) in
  let s := sys_run c cpl_mid in
  y_result s = None /\ prog_moves c s = [LCtl; LRecvW 0; LMain 0; LRecv 0; LDeliver 1] /\ prog_idle c s = [LRecvW 1].
Proof. vm_compute. repeat split. Qed.

(* (b) the state closest to a stand-off (2 workers, 5 tests, c01_cfg): both workers have run their
   first test and wait at an empty queue for the successor of the test they hold (tests 1 and 3); all
   wires are empty; the last test (4) is in the pool.  The only useful move is the controller's: it
   holds the two completions on its queue.  The receiver threads of both workers can take a turn, but
   such a turn changes nothing. *)
Definition prog_standoff : list label :=
  c01_dist ++ [LDeliver 0; LRecvW 0; LRecvW 0] ++ c01_rep 7 [LMain 0] ++
  [LDeliver 1; LRecvW 1; LRecvW 1] ++ c01_rep 7 [LMain 1] ++ c01_rep 5 [LRecv 0] ++ c01_rep 5 [LRecv 1].
Example prog_ex_standoff :
  let s := sys_run c01_cfg prog_standoff in
  y_result s = None /\
  map (fun p => (fst p, wph (snd p), wq (snd p))) (y_w s) = [(0, PWaitNext (1, 1), []); (1, PWaitNext (1, 3), [])] /\
  pool s = [4] /\
  prog_moves c01_cfg s = [LCtl] /\ prog_idle c01_cfg s = [LRecvW 0; LRecvW 1] /\
  sys_step c01_cfg s (LRecvW 0) = Some (s, [], []).
Proof. vm_compute. repeat split. Qed.

(* the theorem applies to that state (and yields a useful move, which can only be LCtl) *)
Example prog_ex_theorem_applies :
  let s := sys_run c01_cfg prog_standoff in
  exists l, no_crash_label l /\ useful s l = true /\ sys_step c01_cfg s l <> None.
Proof.
  cbv zeta. apply c02_no_deadlock_useful.
  - reflexivity.
  - reflexivity.
  - intros n i H. cbn in H. destruct H as [H|[]]. discriminate.
  - intros n H. cbn in H. repeat (destruct H as [H|H]; [discriminate|]). exact H.
  - vm_compute. repeat constructor.
  - cbn. lia.
  - vm_compute. reflexivity.
Qed.
Print Assumptions prog_ex_theorem_applies.
