(* EachSystem.v -- C08: with --dist each every worker runs every test of its own collection
   exactly once, in collection order.

   System-level statements over Model/System.v for c_mode c = MEach, for every configuration and
   every schedule without worker failure (c_crash_in constantly false, no LCrash label, no
   undecodable report), with at least one worker and a coherent test oracle
   (ncollected (c_oracle c n) = length (c_coll c n): what `runtests_all` enumerates on worker n is
   the collection worker n reported).  The workers may collect DIFFERENT lists.

   (1) each_started_prefix   : in every reachable state the indices worker n has started are a
                               prefix of 0 .. len(collection of n) - 1;
   (2) each_finished_all_run : if the session ends as "finished", every worker has started exactly
                               0 .. len(collection of n) - 1;
   (3) each_controller_never_raises;
   (4) each_coupling         : the book of node n (node2pending[n]) is, in order, what worker n
                               still owes (completions in flight ++ tests taken ++ queue ++ ...).

   Organisation: part A association lists; part B one worker; part C the each scheduler;
   part D the controller (DSession) handlers; part E the system invariant; part F the theorems and
   the evaluated examples. *)
From XV Require Import Base Worker Ctl SchedLoad SchedSteal SchedScope SchedEach Sched DSession System
  NoHook DSessionProofs WorkerProofs LoadProofs FifoProofs ExactlyOnce Coupling.
From Coq Require Import Permutation.
Open Scope nat_scope.

(* ====================================================================================== *)
(* Part A: association lists                                                               *)
(* ====================================================================================== *)
Lemma ea_get_set {V} k n (v : V) m : aget k (aset n v m) = if Nat.eqb k n then Some v else aget k m.
Proof.
  induction m as [|[k' v'] m IH]; cbn.
  - destruct (Nat.eqb k n); reflexivity.
  - destruct (Nat.eqb n k') eqn:E; cbn.
    + apply Nat.eqb_eq in E. subst k'. destruct (Nat.eqb k n); reflexivity.
    + rewrite IH. destruct (Nat.eqb k k') eqn:E2; [|reflexivity].
      apply Nat.eqb_eq in E2. subst k'. rewrite Nat.eqb_sym, E. reflexivity.
Qed.

Lemma ea_get_set_eq {V} n (v : V) m : aget n (aset n v m) = Some v.
Proof. rewrite ea_get_set, Nat.eqb_refl. reflexivity. Qed.

Lemma ea_get_set_neq {V} k n (v : V) m : k <> n -> aget k (aset n v m) = aget k m.
Proof. intros H. rewrite ea_get_set. apply Nat.eqb_neq in H. rewrite H. reflexivity. Qed.

Lemma ea_keys_get {V} n (m : amap V) : In n (akeys m) <-> aget n m <> None.
Proof.
  induction m as [|[k v] m IH]; cbn.
  - split; [tauto|congruence].
  - destruct (Nat.eqb n k) eqn:E.
    + apply Nat.eqb_eq in E. subst k. split; [discriminate|auto].
    + apply Nat.eqb_neq in E. rewrite <- IH. split; [intros [H|H]; [congruence|exact H]|auto].
Qed.

Lemma ea_get_none {V} n (m : amap V) : aget n m = None <-> ~ In n (akeys m).
Proof. rewrite ea_keys_get. destruct (aget n m); split; intros H; try congruence; try tauto. exfalso. apply H. discriminate. Qed.

Lemma ea_keys_set {V} n (v : V) m k : In k (akeys (aset n v m)) <-> k = n \/ In k (akeys m).
Proof.
  rewrite !ea_keys_get, ea_get_set. destruct (Nat.eqb k n) eqn:E.
  - apply Nat.eqb_eq in E. split; [auto|discriminate].
  - apply Nat.eqb_neq in E. split; [auto|intros [H|H]; [contradiction|exact H]].
Qed.

Lemma ea_keys_set_in {V} n (v : V) m : In n (akeys m) -> akeys (aset n v m) = akeys m.
Proof.
  unfold akeys. induction m as [|[k' v'] r IH]; cbn; [intros []|].
  intros H. destruct (Nat.eqb n k') eqn:E; cbn; [reflexivity|].
  f_equal. apply IH. destruct H as [H|H]; [|exact H]. apply Nat.eqb_neq in E. congruence.
Qed.

Lemma ea_keys_set_new {V} n (v : V) m : ~ In n (akeys m) -> akeys (aset n v m) = akeys m ++ [n].
Proof.
  unfold akeys. induction m as [|[k' v'] r IH]; cbn; [reflexivity|].
  intros H. destruct (Nat.eqb n k') eqn:E; cbn.
  - apply Nat.eqb_eq in E. exfalso. apply H. left. congruence.
  - f_equal. apply IH. intros F. apply H. right. exact F.
Qed.

Lemma ea_keys_set_nodup {V} n (v : V) m : NoDup (akeys m) -> NoDup (akeys (aset n v m)).
Proof.
  intros ND. destruct (in_dec Nat.eq_dec n (akeys m)) as [Hin|Hni].
  - rewrite ea_keys_set_in by exact Hin. exact ND.
  - rewrite ea_keys_set_new by exact Hni.
    apply Permutation_NoDup with (l := n :: akeys m).
    + apply Permutation_cons_append.
    + constructor; assumption.
Qed.

Lemma ea_get_del_neq {V} k n (m : amap V) : k <> n -> aget k (adel n m) = aget k m.
Proof.
  intros Hk. induction m as [|[k' v'] m IH]; cbn; [reflexivity|].
  destruct (Nat.eqb n k') eqn:E; cbn.
  - apply Nat.eqb_eq in E. subst k'. apply Nat.eqb_neq in Hk. rewrite Hk. reflexivity.
  - rewrite IH. reflexivity.
Qed.

Lemma ea_keys_del {V} n (m : amap V) k : In k (akeys (adel n m)) -> In k (akeys m).
Proof.
  unfold akeys. induction m as [|[k' v'] m IH]; cbn; [auto|].
  destruct (Nat.eqb n k'); cbn; [auto|]. intros [H|H]; auto.
Qed.

Lemma ea_keys_del_not {V} n (m : amap V) : NoDup (akeys m) -> ~ In n (akeys (adel n m)).
Proof.
  unfold akeys. induction m as [|[k' v'] m IH]; cbn; intros ND; [tauto|].
  inversion ND as [|x l Hn ND']; subst. destruct (Nat.eqb n k') eqn:E; cbn.
  - apply Nat.eqb_eq in E. subst k'. exact Hn.
  - apply Nat.eqb_neq in E. intros [H|H]; [congruence|]. exact (IH ND' H).
Qed.

Lemma ea_keys_del_nodup {V} n (m : amap V) : NoDup (akeys m) -> NoDup (akeys (adel n m)).
Proof.
  unfold akeys. induction m as [|[k' v'] m IH]; cbn; intros ND; [constructor|].
  inversion ND as [|x l Hn ND']; subst. destruct (Nat.eqb n k'); cbn; [exact ND'|].
  constructor; [|apply IH; exact ND']. intros H. apply Hn. apply (ea_keys_del n m k'). exact H.
Qed.

Lemma ea_get_del_eq {V} n (m : amap V) : NoDup (akeys m) -> aget n (adel n m) = None.
Proof. intros ND. apply ea_get_none. apply ea_keys_del_not. exact ND. Qed.

Lemma ea_in_del {V} n (m : amap V) x : In x (adel n m) -> In x m.
Proof.
  induction m as [|[k' v'] m IH]; cbn; [auto|].
  destruct (Nat.eqb n k'); [auto|]. intros [H|H]; auto.
Qed.

Lemma ea_in_set {V} n (v : V) m k x : In (k, x) (aset n v m) -> (k = n /\ x = v) \/ In (k, x) m.
Proof.
  induction m as [|[k' v'] m IH]; cbn.
  - intros [E|[]]. inversion E. auto.
  - destruct (Nat.eqb n k') eqn:E.
    + apply Nat.eqb_eq in E. subst k'. intros [H|H]; [inversion H; auto|auto].
    + intros [H|H]; [auto|]. destruct (IH H); auto.
Qed.

Lemma ea_length_del {V} n (m : amap V) : length (adel n m) <= length m.
Proof. induction m as [|[k v] m IH]; cbn; [lia|]. destruct (Nat.eqb n k); cbn; lia. Qed.

Lemma ea_keys_length {V} (m : amap V) : length (akeys m) = length m.
Proof. unfold akeys. apply map_length. Qed.

Lemma ea_aget_in {V} n (m : amap V) v : aget n m = Some v -> In (n, v) m.
Proof.
  induction m as [|[k x] m IH]; cbn; [discriminate|].
  destruct (Nat.eqb n k) eqn:E; [|auto]. apply Nat.eqb_eq in E. subst k. intros H. inversion H. auto.
Qed.

Lemma ea_alist_get_some {V} (dflt : V) n m v : aget n m = Some v -> alist_get dflt n m = v.
Proof. intros H. unfold alist_get. rewrite H. reflexivity. Qed.
Lemma ea_alist_get_none {V} (dflt : V) n m : aget n m = None -> alist_get dflt n m = dflt.
Proof. intros H. unfold alist_get. rewrite H. reflexivity. Qed.
Lemma ea_alist_get_set_eq {V} (dflt : V) n v m : alist_get dflt n (aset n v m) = v.
Proof. unfold alist_get. rewrite ea_get_set_eq. reflexivity. Qed.
Lemma ea_alist_get_set_neq {V} (dflt : V) k n v m : k <> n -> alist_get dflt k (aset n v m) = alist_get dflt k m.
Proof. intros H. unfold alist_get. rewrite ea_get_set_neq by exact H. reflexivity. Qed.

(* ====================================================================================== *)
(* Part B: one worker in each mode                                                         *)
(* ====================================================================================== *)
(* the items a command stands for; K = len(session.items) of the worker *)
Definition citems (K : nat) (c : cmd) : list item :=
  match c with
  | CRun l => map Idx l
  | CRunAll => map Idx (seq 0 K)
  | CShutdown | CEnd => [Mark]
  | CSteal _ => []
  end.
(* the commands that occur in each mode without worker failure *)
Definition each_cmd (c : cmd) : Prop := match c with CRunAll | CShutdown => True | _ => False end.

(* what the worker has received and its main thread has not yet taken, in order *)
Definition wrest (K : nat) (w : wst) : list item :=
  map snd (wq w) ++ wrpend w ++ flat_map (citems K) (winbox w).
(* everything the worker has received so far, in order *)
Definition wstr (K : nat) (w : wst) : list item := map snd (wpopped w) ++ wrest K w.
(* the indices the controller's book still holds for this worker *)
Definition owedE (K : nat) (w : wst) : list nat := owed_main w ++ item_inds (wrest K w).

Definition ran_idx (w : wst) : list nat := map (fun r => snd (fst r)) (wran w).

Lemma deliver_each K w c :
  wrest K (deliver w c) = wrest K w ++ citems K c /\ wph (deliver w c) = wph w /\
  wpopped (deliver w c) = wpopped w /\ wreply (deliver w c) = wreply w /\ wran (deliver w c) = wran w /\
  winbox (deliver w c) = winbox w ++ [c].
Proof.
  unfold wrest, deliver. cbn [upd_recv wq wrpend winbox wpopped wph wreply wran].
  rewrite flat_map_app. cbn [flat_map]. rewrite app_nil_r, <- !app_assoc. repeat split; reflexivity.
Qed.

Lemma recv_next_each o inbox : forall w,
  Forall each_cmd inbox ->
  let w' := recv_next o w inbox in
  wph w' = wph w /\ wpopped w' = wpopped w /\ wreply w' = wreply w /\ wcb w' = wcb w /\ wran w' = wran w /\
  Forall each_cmd (winbox w') /\
  map snd (wq w') ++ wrpend w' ++ flat_map (citems (ncollected o)) (winbox w') =
    map snd (wq w) ++ flat_map (citems (ncollected o)) inbox.
Proof.
  induction inbox as [|c r IH]; intros w G; cbv zeta.
  - cbn. rewrite !app_nil_r. repeat split; try reflexivity. constructor.
  - inversion G as [|c' r' Gc Gr]; subst. destruct c as [ixs| |s| |]; try contradiction.
    + cbn [recv_next flat_map citems].
      destruct (seq 0 (ncollected o)) as [|i ixs] eqn:Es.
      * cbn [map app]. exact (IH w Gr).
      * cbn [upd_recv w_put wph wpopped wreply wcb wq wrpend winbox wran].
        rewrite map_app. cbn [map snd app]. rewrite <- !app_assoc. cbn [app].
        repeat split; try reflexivity. exact Gr.
    + cbn [recv_next upd_recv w_put wph wpopped wreply wcb wq wrpend winbox wran flat_map citems].
      rewrite map_app. cbn [map snd app]. rewrite <- !app_assoc. cbn [app].
      repeat split; try reflexivity. exact Gr.
Qed.

(* the receiver thread moves items towards the queue; nothing is emitted in each mode *)
Lemma recv_step_each o w :
  Forall each_cmd (winbox w) -> wreply w = None ->
  let w' := fst (recv_step o w) in
  snd (recv_step o w) = [] /\ wrest (ncollected o) w' = wrest (ncollected o) w /\
  wph w' = wph w /\ wpopped w' = wpopped w /\ wreply w' = None /\ wran w' = wran w /\
  Forall each_cmd (winbox w').
Proof.
  intros G Hr. cbv zeta. unfold recv_step. destruct (negb (wcb w)); [cbn; auto 10|].
  rewrite Hr. cbn [upd_recv wrpend winbox].
  destruct (wrpend w) as [|it rest] eqn:Er; cbn [fst snd].
  - destruct (recv_next_each o (winbox w) (upd_recv w (winbox w) [] None) G) as (A & B & C & _ & D & E & F).
    cbn [upd_recv wph wpopped wreply wq wran] in A, B, C, D, F.
    split; [reflexivity|]. split; [|auto 10].
    unfold wrest. rewrite F, Er. reflexivity.
  - split; [reflexivity|]. split; [|cbn [upd_recv w_put wph wpopped wreply wran winbox]; auto 10].
    unfold wrest. cbn [upd_recv w_put wq wrpend winbox]. rewrite Er, map_app.
    cbn [map snd app]. rewrite <- !app_assoc. reflexivity.
Qed.

Lemma main_step_frame_e K o w w' evs : main_step o w = Some (w', evs) ->
  wrpend w' = wrpend w /\ winbox w' = winbox w /\ wreply w' = wreply w /\ wstr K w' = wstr K w.
Proof.
  intros H. ms_cases H; unfold wstr, wrest; wproj; try rewrite Q; repeat split; try reflexivity;
    rewrite map_app; cbn [map app]; rewrite <- app_assoc; reflexivity.
Qed.

(* what the worker owes before = what it reports as complete ++ what it owes afterwards *)
Lemma main_step_owedE K o w w' evs :
  WInv w -> WX w -> main_step o w = Some (w', evs) ->
  owedE K w = completes (flat_map we_sig evs) ++ owedE K w'.
Proof.
  intros I X H. pose proof (main_step_owed _ _ _ _ I X H) as E.
  destruct (main_step_frame_e K _ _ _ _ H) as (E1 & E2 & _ & _).
  unfold owedE, wrest. rewrite E1, E2, !item_inds_app, <- !ents_idx_items.
  rewrite (app_assoc (owed_main w)), E, <- !app_assoc. reflexivity.
Qed.

(* ---- the shapes of a worker's item stream in each mode ---- *)
Definition full (K : nat) : list item := map Idx (seq 0 K) ++ [Mark].

(* sd: shutdown sent; ss: the session has a stop request; comp: all collections are in *)
Definition stream_ok (comp ss sd : bool) (K : nat) (S : list item) : Prop :=
  (sd = false /\ S = []) \/ (sd = true /\ S = [Mark] /\ ss = true) \/ (sd = true /\ S = full K /\ comp = true).

Lemma stream_ok_mono comp ss sd K S comp' ss' :
  (comp = true -> comp' = true) -> (ss = true -> ss' = true) ->
  stream_ok comp ss sd K S -> stream_ok comp' ss' sd K S.
Proof. intros H1 H2 [H|[(A & B & C)|(A & B & C)]]; [left; exact H|right; left; auto|right; right; auto]. Qed.

Lemma item_inds_full K : item_inds (full K) = seq 0 K.
Proof. unfold full. rewrite item_inds_app, item_inds_map_idx. cbn. apply app_nil_r. Qed.

(* (B1) safety for one worker: whatever prefix of one of the three streams it has received, the
   tests it has started are an initial segment of its collection *)
Lemma stream_prefix_safe comp ss sd K w X :
  WInv w -> stream_ok comp ss sd K (wstr K w ++ X) ->
  exists rest, seq 0 K = ran_idx w ++ rest.
Proof.
  intros I Hs. destruct (started_prefix_popped w I) as (more & Em). fold (ran_idx w) in Em.
  assert (Ei : item_inds (wstr K w ++ X) = ran_idx w ++ (more ++ item_inds (wrest K w) ++ item_inds X)).
  { unfold wstr. rewrite !item_inds_app, <- ents_idx_items, Em, <- !app_assoc. reflexivity. }
  destruct Hs as [(_ & E)|[(_ & E & _)|(_ & E & _)]]; rewrite E in Ei.
  - cbn in Ei. symmetry in Ei. apply app_eq_nil in Ei. destruct Ei as (-> & _). exists (seq 0 K). reflexivity.
  - cbn in Ei. symmetry in Ei. apply app_eq_nil in Ei. destruct Ei as (-> & _). exists (seq 0 K). reflexivity.
  - rewrite item_inds_full in Ei. eexists. exact Ei.
Qed.

Lemma no_mark_nomark (l : list qent) : no_mark l -> nomark (map snd l) = true.
Proof.
  induction l as [|[t it] l IH]; intros H; [reflexivity|]. cbn [map snd nomark forallb].
  assert (Ha : is_idx (t, it) = true) by (apply H; left; reflexivity).
  unfold is_idx in Ha. cbn in Ha. destruct it; [|discriminate]. cbn.
  apply IH. intros e He. apply H. right. exact He.
Qed.

Lemma nomark_split A : forall B Y, nomark A = true -> nomark B = true ->
  A ++ Mark :: Y = B ++ [Mark] -> A = B /\ Y = [].
Proof.
  induction A as [|a A IH]; intros B Y HA HB E.
  - destruct B as [|b B]; cbn in E.
    + inversion E. auto.
    + inversion E; subst. cbn in HB. discriminate.
  - destruct B as [|b B]; cbn in E.
    + inversion E; subst. cbn in HA. discriminate.
    + inversion E; subst. cbn in HA, HB. apply andb_true_iff in HA. apply andb_true_iff in HB.
      destruct (IH B Y (proj2 HA) (proj2 HB) H1) as (-> & ->). auto.
Qed.

(* (B2) completeness for one worker: once it has exited on the shutdown marker of the full
   stream, it has started exactly its collection *)
Lemma exited_full_all_run K w X :
  WInv w -> wph w = PExited -> markpopped w -> wstr K w ++ X = full K ->
  ran_idx w = seq 0 K.
Proof.
  intros I Hp (pre & t & Ep) Es.
  pose proof (inv_phase w I) as E. unfold phase_inv in E. rewrite Hp in E.
  destruct E as (pre0 & lst & Ep0 & Hn & Eran).
  rewrite Ep in Ep0. apply app_inj_tail in Ep0. destruct Ep0 as (<- & <-).
  unfold wstr in Es. rewrite Ep, map_app in Es. cbn [map snd] in Es. rewrite <- !app_assoc in Es. cbn [app] in Es.
  unfold full in Es.
  destruct (nomark_split _ _ _ (no_mark_nomark _ Hn) (nomark_map_idx _) Es) as (Epre & _).
  unfold ran_idx. rewrite Eran, Ep, <- ents_idx_map_ent, pairs_ents by exact Hn.
  rewrite ents_idx_items, Epre. apply item_inds_map_idx.
Qed.

(* ====================================================================================== *)
(* Part C: the each scheduler                                                              *)
(* ====================================================================================== *)
Definition bkE (es : estate) (n : nat) : list nat := alist_get [] n (e_n2p es).
Definition sdm (f : nctl) : nctl :=
  {| n_spec := n_spec f; n_down := n_down f; n_sdsent := true; n_closed := n_closed f |}.

(* the flags of a node and the commands put on its channel by one controller step *)
Inductive FR : nctl -> list cmd -> nctl -> Prop :=
| FR_same f : FR f [] f
| FR_sd f : n_sdsent f = false -> n_down f = false -> FR f [CShutdown] (sdm f)
| FR_run f : n_sdsent f = false -> n_down f = false -> FR f [CRunAll; CShutdown] (sdm f).

Definition FRo (a : option nctl) (cs : list cmd) (b : option nctl) : Prop :=
  match a, b with
  | Some f, Some f' => FR f cs f'
  | None, None => cs = []
  | _, _ => False
  end.

Lemma FR_trans f a f1 b f2 : FR f a f1 -> FR f1 b f2 -> FR f (a ++ b) f2.
Proof.
  intros H1 H2. destruct H1.
  - exact H2.
  - inversion H2; subst; try (cbn in *; discriminate). cbn. constructor; assumption.
  - inversion H2; subst; try (cbn in *; discriminate). cbn. constructor; assumption.
Qed.

Lemma FRo_refl a : FRo a [] a.
Proof. destruct a; cbn; [constructor|reflexivity]. Qed.

Lemma FRo_trans a c1 b c2 c : FRo a c1 b -> FRo b c2 c -> FRo a (c1 ++ c2) c.
Proof.
  destruct a, b, c; cbn; try tauto.
  - apply FR_trans.
  - intros -> ->. reflexivity.
Qed.

Lemma FR_fields f cs f' : FR f cs f' ->
  n_spec f' = n_spec f /\ n_down f' = n_down f /\ n_closed f' = n_closed f /\
  (n_sdsent f = true -> cs = [] /\ f' = f) /\ (n_sdsent f' = false -> cs = [] /\ f' = f) /\
  (n_sdsent f' = true <-> n_sdsent f = true \/ cs <> []) /\ Forall each_cmd cs.
Proof.
  intros H. destruct H; cbn.
  - repeat split; auto. intros [X|X]; [exact X|contradiction].
  - repeat split; auto; try congruence; try discriminate. intros _. right. discriminate.
    repeat constructor.
  - repeat split; auto; try congruence; try discriminate. intros _. right. discriminate.
    repeat constructor.
Qed.

Lemma FRo_keys a cs b : FRo a cs b -> (b <> None <-> a <> None).
Proof. destruct a, b; cbn; try tauto; intros _; split; intros; discriminate. Qed.

Lemma FRo_open a cs b f' : FRo a cs b -> b = Some f' -> exists f, a = Some f /\ FR f cs f'.
Proof. intros H ->. destruct a as [f|]; [exists f; auto|destruct H]. Qed.

Lemma cmds_to_cons_other n x o : cmd_to n x = [] -> cmds_to n (x :: o) = cmds_to n o.
Proof. intros H. unfold cmds_to. cbn [flat_map]. rewrite H. reflexivity. Qed.

Lemma cmds_to_send_eq n c : cmds_to n [OSend n c] = [c].
Proof. unfold cmds_to. cbn. rewrite Nat.eqb_refl. reflexivity. Qed.
Lemma cmds_to_send_neq n m c : m <> n -> cmds_to m [OSend n c] = [].
Proof. intros H. unfold cmds_to. cbn. apply Nat.eqb_neq in H. rewrite Nat.eqb_sym, H. reflexivity. Qed.

(* ---- node.shutdown() ---- *)
Lemma e_node_shutdown_run n es f :
  aget n (e_nt es) = Some f -> n_closed f = false ->
  node_shutdown e_nt e_set_nt n es =
    if n_down f || n_sdsent f then (es, [], Ok tt)
    else (e_set_nt es (aset n (sdm f) (e_nt es)), [OSend n CShutdown], Ok tt).
Proof.
  intros Ef Hc. unfold node_shutdown, node_send, node_flags, mbind, get, put, of_opt, ret, emit.
  rewrite Ef. cbn. destruct (n_down f || n_sdsent f); [reflexivity|]. cbn. rewrite Ef. cbn. rewrite Hc. cbn.
  unfold sdm. rewrite Hc. reflexivity.
Qed.

(* ---- the scheduler calls, computed under their preconditions ---- *)
Lemma e_add_node_run n es :
  aget n (e_n2p es) = None -> e_add_node n es = (e_set_n2p es (aset n [] (e_n2p es)), [], Ok tt).
Proof. intros H. unfold e_add_node, mbind, get, put, massert, ahas, ret. rewrite H. reflexivity. Qed.

Definition es_addcoll (n : nat) (coll : list string) (es : estate) : estate :=
  let es1 := e_set_n2p (e_set_n2c es (aset n coll (e_n2c es))) (aset n [] (e_n2p es)) in
  if e_numnodes es1 <=? length (e_n2c es1) then e_set_completed es1 true else es1.

Lemma e_add_coll_run n coll es :
  aget n (e_n2p es) <> None -> e_completed es = false ->
  e_add_node_collection n coll es = (es_addcoll n coll es, [], Ok tt).
Proof.
  intros Hp Hc. unfold e_add_node_collection, es_addcoll, mbind, get, put, massert, ahas, ret.
  destruct (aget n (e_n2p es)); [|congruence]. cbn. rewrite Hc. cbn.
  destruct (e_numnodes es <=? length (aset n coll (e_n2c es))); reflexivity.
Qed.

Lemma e_complete_run n i rest es :
  aget n (e_n2p es) = Some (i :: rest) ->
  e_mark_test_complete n i es = (e_set_n2p es (aset n rest (e_n2p es)), [], Ok tt).
Proof.
  intros H. unfold e_mark_test_complete, mbind, get, put, of_opt, ret. rewrite H. cbn.
  rewrite Nat.eqb_refl. reflexivity.
Qed.

Definition es_remove (n : nat) (es : estate) : estate :=
  let s0 := e_set_n2p es (adel n (e_n2p es)) in
  if e_completed es then s0 else e_set_n2c s0 (adel n (e_n2c es)).

Lemma e_remove_idle_run n es :
  aget n (e_n2p es) = Some [] -> e_remove_node n es = (es_remove n es, [], Ok None).
Proof.
  intros H. unfold e_remove_node, es_remove, mbind, get, put, of_opt, ret. rewrite H. cbn.
  destruct (e_completed es); reflexivity.
Qed.

Definition es_sched1 (n : nat) (coll : list string) (f : nctl) (es : estate) : estate :=
  e_set_started
    (e_set_nt (e_set_n2p es (aset n (seq 0 (length coll)) (e_n2p es))) (aset n (sdm f) (e_nt es)))
    (e_started es ++ [n]).

Lemma e_schedule_node_run n es coll f :
  mem_nat n (e_started es) = false -> aget n (e_n2p es) = Some [] -> aget n (e_n2c es) = Some coll ->
  aget n (e_nt es) = Some f -> n_down f = false -> n_sdsent f = false -> n_closed f = false ->
  e_schedule_node n es = (es_sched1 n coll f es, [OSend n CRunAll; OSend n CShutdown], Ok tt).
Proof.
  intros Hst Hp Hc Hnt Hd Hs Hcl.
  unfold e_schedule_node, es_sched1, node_shutdown, node_send, node_flags, mbind, get, put, of_opt, ret, emit.
  rewrite Hst, Hp. cbn. rewrite Hc. cbn. rewrite Hnt. cbn. rewrite Hcl. cbn. rewrite Hnt. cbn.
  rewrite Hd, Hs. cbn. rewrite Hnt. cbn. rewrite Hcl. cbn. unfold sdm. rewrite Hcl, Hd. reflexivity.
Qed.

(* ---- schedule(): every node gets "run everything" followed by "shutdown" ---- *)
Section Sweep.
Variable collf : nat -> list string.

Definition sched_ready (es : estate) (n : nat) : Prop :=
  mem_nat n (e_started es) = false /\ aget n (e_n2p es) = Some [] /\ aget n (e_n2c es) = Some (collf n) /\
  exists f, aget n (e_nt es) = Some f /\ n_down f = false /\ n_sdsent f = false /\ n_closed f = false.

Definition run_outs (l : list nat) : list out := flat_map (fun n => [OSend n CRunAll; OSend n CShutdown]) l.

Record SW (es es' : estate) (l : list nat) : Prop := {
  sw_keep : e_n2c es' = e_n2c es /\ e_removed es' = e_removed es /\ e_completed es' = e_completed es /\
            e_numnodes es' = e_numnodes es;
  sw_keys : akeys (e_n2p es') = akeys (e_n2p es);
  sw_in : forall m, In m l -> aget m (e_n2p es') = Some (seq 0 (length (collf m))) /\
            exists f, aget m (e_nt es) = Some f /\ aget m (e_nt es') = Some (sdm f) /\
                      n_sdsent f = false /\ n_down f = false;
  sw_out : forall m, ~ In m l -> aget m (e_n2p es') = aget m (e_n2p es) /\ aget m (e_nt es') = aget m (e_nt es);
}.

Lemma sched_sweep l : forall es,
  NoDup l -> (forall n, In n l -> sched_ready es n) ->
  exists es', mfor l e_schedule_node es = (es', run_outs l, Ok tt) /\ SW es es' l.
Proof.
  induction l as [|n l IH]; intros es ND Hr.
  - exists es. split; [reflexivity|]. constructor; auto. intros m [].
  - inversion ND as [|x xs Hni ND']; subst.
    destruct (Hr n (or_introl eq_refl)) as (Hst & Hp & Hc & f & Ef & Hd & Hs & Hcl).
    pose proof (e_schedule_node_run n es (collf n) f Hst Hp Hc Ef Hd Hs Hcl) as Erun.
    set (es1 := es_sched1 n (collf n) f es) in *.
    assert (Hr1 : forall m, In m l -> sched_ready es1 m).
    { intros m Hm. assert (Hmn : m <> n) by (intros ->; contradiction).
      destruct (Hr m (or_intror Hm)) as (Hst' & Hp' & Hc' & f' & Ef' & X).
      unfold sched_ready, es1, es_sched1. cbn [e_started e_set_started e_n2p e_set_n2p e_set_nt e_n2c e_nt].
      split.
      { apply mem_nat_false. intros Hi. apply in_app_or in Hi. destruct Hi as [Hi|[Hi|[]]].
        - apply mem_nat_false in Hst'. contradiction.
        - congruence. }
      split; [rewrite ea_get_set_neq by exact Hmn; exact Hp'|]. split; [exact Hc'|].
      exists f'. rewrite ea_get_set_neq by exact Hmn. auto. }
    destruct (IH es1 ND' Hr1) as (es' & Em & [Sk Sks Sin Sout]).
    exists es'. split.
    { cbn [mfor]. unfold mbind. rewrite Erun, Em. reflexivity. }
    assert (Kn : In n (akeys (e_n2p es))) by (apply ea_keys_get; congruence).
    constructor.
    + destruct Sk as (A & B & C & D). unfold es1, es_sched1 in A, B, C, D. cbn in A, B, C, D. auto.
    + rewrite Sks. unfold es1, es_sched1. cbn [e_n2p e_set_started e_set_nt e_set_n2p]. apply ea_keys_set_in. exact Kn.
    + intros m [<-|Hm].
      * destruct (Sout n Hni) as (S1 & S2). rewrite S1, S2. unfold es1, es_sched1.
        cbn [e_n2p e_nt e_set_started e_set_nt e_set_n2p]. rewrite !ea_get_set_eq.
        split; [reflexivity|]. exists f. auto.
      * assert (Hmn : m <> n) by (intros ->; contradiction).
        destruct (Sin m Hm) as (S1 & f' & S2 & S3 & S4). split; [exact S1|]. exists f'.
        unfold es1, es_sched1 in S2. cbn [e_nt e_set_started e_set_nt e_set_n2p] in S2.
        rewrite ea_get_set_neq in S2 by exact Hmn. auto.
    + intros m Hm. assert (Hmn : m <> n) by (intros ->; apply Hm; left; reflexivity).
      assert (Hml : ~ In m l) by (intros X; apply Hm; right; exact X).
      destruct (Sout m Hml) as (S1 & S2). rewrite S1, S2. unfold es1, es_sched1.
      cbn [e_n2p e_nt e_set_started e_set_nt e_set_n2p]. rewrite !ea_get_set_neq by exact Hmn. auto.
Qed.

Lemma cmds_to_run_outs_in m l : NoDup l -> In m l -> cmds_to m (run_outs l) = [CRunAll; CShutdown].
Proof.
  induction l as [|n l IH]; intros ND Hin; [destruct Hin|].
  inversion ND as [|x xs Hni ND']; subst. unfold run_outs, cmds_to in *. cbn [flat_map cmd_to app].
  destruct Hin as [->|Hin].
  - rewrite Nat.eqb_refl. cbn [app]. f_equal. f_equal.
    clear -Hni. induction l as [|k l IH]; [reflexivity|]. cbn [flat_map cmd_to app].
    assert (Hk : Nat.eqb k m = false) by (apply Nat.eqb_neq; intros ->; apply Hni; left; reflexivity).
    rewrite Hk. cbn [app]. apply IH. intros X. apply Hni. right. exact X.
  - assert (Hk : Nat.eqb n m = false) by (apply Nat.eqb_neq; intros ->; contradiction).
    rewrite Hk. cbn [app]. apply IH; assumption.
Qed.

Lemma cmds_to_run_outs_out m l : ~ In m l -> cmds_to m (run_outs l) = [].
Proof.
  induction l as [|k l IH]; intros Hni; [reflexivity|]. unfold run_outs, cmds_to in *. cbn [flat_map cmd_to app].
  assert (Hk : Nat.eqb k m = false) by (apply Nat.eqb_neq; intros ->; apply Hni; left; reflexivity).
  rewrite Hk. cbn [app]. apply IH. intros X. apply Hni. right. exact X.
Qed.

Lemma run_outs_nospawn l : Forall (fun x => is_spawn x = false) (run_outs l).
Proof. induction l as [|k l IH]; cbn; repeat constructor. exact IH. Qed.

Lemma e_schedule_run es : e_completed es = true -> e_schedule es = mfor (akeys (e_n2p es)) e_schedule_node es.
Proof.
  intros H. unfold e_schedule, mbind, get, massert, ret. rewrite H.
  destruct (mfor (akeys (e_n2p es)) e_schedule_node es) as [[a b] c]. reflexivity.
Qed.
End Sweep.

(* ---- shutdown sweeps: triggershutdown ---- *)
Definition FRso (a : option nctl) (cs : list cmd) (b : option nctl) : Prop :=
  FRo a cs b /\ cs <> [CRunAll; CShutdown].

Lemma FRso_refl a : FRso a [] a.
Proof. split; [apply FRo_refl|discriminate]. Qed.

Lemma FRso_trans a c1 b c2 c : FRso a c1 b -> FRso b c2 c -> FRso a (c1 ++ c2) c.
Proof.
  intros (H1 & N1) (H2 & N2). split; [eapply FRo_trans; eauto|].
  destruct a as [f|], b as [f1|]; cbn in H1; try contradiction.
  - destruct H1; cbn [app]; [exact N2|discriminate|contradiction].
  - subst c1. exact N2.
Qed.

Lemma FRso_cases a cs b : FRso a cs b -> cs = [] \/ cs = [CShutdown].
Proof.
  intros (H & Nr). destruct a as [f|], b as [f'|]; cbn in H; try contradiction; [|left; exact H].
  destruct H; [left; reflexivity|right; reflexivity|contradiction].
Qed.

Definition ekeep (es es' : estate) : Prop :=
  e_n2p es' = e_n2p es /\ e_n2c es' = e_n2c es /\ e_started es' = e_started es /\
  e_removed es' = e_removed es /\ e_completed es' = e_completed es /\ e_numnodes es' = e_numnodes es.

Record SD (es es' : estate) (o : list out) : Prop := {
  sd_nt : forall m, FRso (aget m (e_nt es)) (cmds_to m o) (aget m (e_nt es'));
  sd_keep : ekeep es es';
  sd_nosp : Forall (fun x => is_spawn x = false) o;
}.

Lemma SD_refl es : SD es es [].
Proof. constructor; [intros m; apply FRso_refl|unfold ekeep; auto 10|constructor]. Qed.

Lemma SD_trans a b c o1 o2 : SD a b o1 -> SD b c o2 -> SD a c (o1 ++ o2).
Proof.
  intros [A1 A2 A3] [B1 B2 B3]. constructor.
  - intros m. rewrite cmds_to_app. eapply FRso_trans; eauto.
  - unfold ekeep in *. destruct A2 as (a1 & a2 & a3 & a4 & a5 & a6), B2 as (b1 & b2 & b3 & b4 & b5 & b6).
    repeat split; congruence.
  - apply Forall_app. split; assumption.
Qed.

(* every known node: channel open, and down only after shutdown was sent *)
Definition ntok (es : estate) : Prop :=
  forall n f, aget n (e_nt es) = Some f -> n_closed f = false /\ (n_down f = true -> n_sdsent f = true).

Lemma SD_ntok es es' o : SD es es' o -> ntok es -> ntok es'.
Proof.
  intros [A _ _] H n f' Ef'. destruct (A n) as (R & _).
  destruct (FRo_open _ _ _ _ R Ef') as (f & Ef & R').
  destruct (FR_fields _ _ _ R') as (_ & Fd & Fc & _ & _ & Fs & _). destruct (H n f Ef) as (H1 & H2).
  split; [congruence|]. intros Hd. apply Fs. left. apply H2. congruence.
Qed.

Lemma node_shutdown_SD n es :
  aget n (e_nt es) <> None -> ntok es ->
  exists es' o, node_shutdown e_nt e_set_nt n es = (es', o, Ok tt) /\ SD es es' o /\
    (exists f', aget n (e_nt es') = Some f' /\ n_sdsent f' = true) /\
    (forall m, cmds_to m o <> [] -> m = n /\ exists f, aget m (e_nt es) = Some f /\ n_sdsent f = false).
Proof.
  intros Hk Hok. destruct (aget n (e_nt es)) as [f|] eqn:Ef; [|congruence]. destruct (Hok n f Ef) as (Hc & Hd).
  rewrite (e_node_shutdown_run n es f Ef Hc).
  destruct (n_down f || n_sdsent f) eqn:E.
  - exists es, []. split; [reflexivity|]. split; [apply SD_refl|]. split.
    + exists f. split; [exact Ef|]. destruct (n_down f); [apply Hd; reflexivity|exact E].
    + intros m F. exfalso. apply F. reflexivity.
  - apply orb_false_iff in E. destruct E as (E1 & E2).
    eexists. eexists. split; [reflexivity|]. split; [|split].
    + constructor.
      * intros m. cbn [e_nt e_set_nt]. destruct (Nat.eq_dec m n) as [->|Hm].
        -- rewrite cmds_to_send_eq, ea_get_set_eq, Ef. split; [cbn; constructor; assumption|discriminate].
        -- rewrite cmds_to_send_neq by exact Hm. rewrite ea_get_set_neq by exact Hm. apply FRso_refl.
      * unfold ekeep. cbn. auto 10.
      * repeat constructor.
    + cbn [e_nt e_set_nt]. rewrite ea_get_set_eq. eexists. split; reflexivity.
    + intros m Hm. destruct (Nat.eq_dec m n) as [->|Hmn].
      * split; [reflexivity|]. exists f. auto.
      * rewrite cmds_to_send_neq in Hm by exact Hmn. contradiction.
Qed.

Lemma shutdown_sweep l : forall es,
  (forall n, In n l -> aget n (e_nt es) <> None) -> ntok es ->
  exists es' o, mfor l (fun n => node_shutdown e_nt e_set_nt n) es = (es', o, Ok tt) /\ SD es es' o /\
    (forall m, In m l -> exists f', aget m (e_nt es') = Some f' /\ n_sdsent f' = true) /\
    (forall m, cmds_to m o <> [] -> In m l /\ exists f, aget m (e_nt es) = Some f /\ n_sdsent f = false).
Proof.
  induction l as [|n l IH]; intros es Hk Hok.
  - exists es, []. split; [reflexivity|]. split; [apply SD_refl|]. split; [intros m []|].
    intros m F. exfalso. apply F. reflexivity.
  - destruct (node_shutdown_SD n es (Hk n (or_introl eq_refl)) Hok) as (es1 & o1 & E1 & S1 & (f1 & Ef1 & Hs1) & C1).
    assert (Hk1 : forall m, In m l -> aget m (e_nt es1) <> None).
    { intros m Hm. destruct (sd_nt _ _ _ S1 m) as (R & _). apply (FRo_keys _ _ _ R). apply Hk. right. exact Hm. }
    destruct (IH es1 Hk1 (SD_ntok _ _ _ S1 Hok)) as (es2 & o2 & E2 & S2 & A2 & C2).
    exists es2, (o1 ++ o2). split.
    { cbn [mfor]. unfold mbind. rewrite E1, E2. reflexivity. }
    split; [eapply SD_trans; eauto|]. split.
    + intros m [<-|Hm]; [|apply A2; exact Hm].
      destruct (sd_nt _ _ _ S2 n) as (R & _). rewrite Ef1 in R.
      destruct (aget n (e_nt es2)) as [f2|]; [|destruct R]. cbn in R.
      exists f2. split; [reflexivity|]. destruct (FR_fields _ _ _ R) as (_ & _ & _ & _ & _ & Fs & _).
      apply Fs. left. exact Hs1.
    + intros m Hm. rewrite cmds_to_app in Hm.
      destruct (cmds_to m o1) as [|c1 r1] eqn:Eo1.
      * cbn [app] in Hm. destruct (C2 m Hm) as (Hin & f & Ef & Hs). split; [right; exact Hin|].
        destruct (sd_nt _ _ _ S1 m) as (R & _). rewrite Eo1, Ef in R.
        destruct (aget m (e_nt es)) as [f0|]; [|destruct R]. cbn in R. inversion R; subst. exists f. auto.
      * assert (X : cmds_to m o1 <> []) by (rewrite Eo1; discriminate).
        destruct (C1 m X) as (-> & Y). split; [left; reflexivity|exact Y].
Qed.

(* ====================================================================================== *)
(* Part D: the controller (DSession) in each mode                                          *)
(* ====================================================================================== *)
Definition liftE {A} (d : dstate) (x : estate * list out * result A) : dstate * list out * result A :=
  let '(es', o, r) := x in (d_set_sched d (StE es'), o, r).

Lemma d_node_shutdown_liftE n d es :
  d_sched d = StE es -> d_node_shutdown n d = liftE d (node_shutdown e_nt e_set_nt n es).
Proof.
  intros Els. destruct d as [sch sd ss cf mf act fn mr cs gw rq]. cbn in Els. subst sch.
  unfold d_node_shutdown, node_shutdown, node_send, node_flags, mbind, get, put, of_opt, ret, raise, emit, liftE,
    d_nt, d_set_nt, d_set_sched.
  cbn [d_sched s_nt s_set_nt d_shuttingdown d_shouldstop d_countfailures d_maxfail d_active d_failed_nodes
       d_max_restart d_collect_seen d_next_gw d_requeue].
  destruct (aget n (e_nt es)) as [c|] eqn:En; [|reflexivity].
  destruct (n_down c || n_sdsent c); [reflexivity|].
  cbn [d_sched s_nt s_set_nt]. rewrite En.
  destruct (n_closed c); reflexivity.
Qed.

Lemma mfor_liftE {A} (f : A -> D unit) (g : A -> E unit) l :
  (forall x d es, d_sched d = StE es -> f x d = liftE d (g x es)) ->
  forall d es, d_sched d = StE es -> mfor l f d = liftE d (mfor l g es).
Proof.
  intros Hfg. induction l as [|x l IH]; intros d es Els.
  - cbn. unfold ret. rewrite d_set_sched_same by exact Els. reflexivity.
  - cbn [mfor]. unfold mbind. rewrite (Hfg x d es Els).
    destruct (g x es) as [[es1 o1] [a|e]]; cbn [liftE]; [|reflexivity].
    rewrite (IH (d_set_sched d (StE es1)) es1 eq_refl).
    destruct (mfor l g es1) as [[es2 o2] r2]. cbn [liftE]. reflexivity.
Qed.

Definition d_withE (d : dstate) (sd : bool) (es : estate) : dstate :=
  d_set_sched (d_set_shuttingdown d sd) (StE es).

Lemma d_withE_same d es : d_sched d = StE es -> d_withE d (d_shuttingdown d) es = d.
Proof. destruct d; cbn; intros ->; reflexivity. Qed.

Lemma sched_op_runE op d es :
  d_sched d = StE es ->
  d_sched_op op d = let '(st, o, r) := s_step (StE es) op in (d_set_sched d st, o, r).
Proof. intros Els. unfold d_sched_op. rewrite Els. reflexivity. Qed.

Lemma e_tests_finished_completed es : e_tests_finished es = true -> e_completed es = true.
Proof. unfold e_tests_finished. intros H. apply andb_true_iff in H. destruct H as (H & _). apply andb_true_iff in H. tauto. Qed.

(* triggershutdown: every scheduled node is shut down once; nothing else changes *)
Lemma trigger_effE d es d' o r :
  d_sched d = StE es -> (forall n, In n (e_nodes es) -> aget n (e_nt es) <> None) -> ntok es ->
  d_triggershutdown d = (d', o, r) ->
  r = Ok tt /\ exists es', d' = d_withE d true es' /\ SD es es' o /\
    (d_shuttingdown d = true -> es' = es /\ o = []) /\
    (forall m, cmds_to m o <> [] -> In m (e_nodes es) /\ exists f, aget m (e_nt es) = Some f /\ n_sdsent f = false).
Proof.
  intros Els Hk Hok H. unfold d_triggershutdown in H. unfold mbind at 1, get in H.
  destruct (d_shuttingdown d) eqn:Esd.
  - unfold ret in H. injection H as <- <- <-. split; [reflexivity|]. exists es.
    split. { rewrite <- Esd. symmetry. apply d_withE_same. exact Els. }
    split; [apply SD_refl|]. split; [auto|]. intros m F. exfalso. apply F. reflexivity.
  - unfold mbind, put in H.
    rewrite (mfor_liftE d_node_shutdown (fun n => node_shutdown e_nt e_set_nt n) _ d_node_shutdown_liftE
               (d_set_shuttingdown d true) es) in H by exact Els.
    rewrite Els in H. cbn [s_nodes] in H.
    destruct (shutdown_sweep (e_nodes es) es Hk Hok) as (es2 & o2 & Em & S & _ & C).
    rewrite Em in H. cbn [liftE app] in H. inv H.
    split; [reflexivity|]. exists es2. split; [reflexivity|]. split; [exact S|]. split; [discriminate|exact C].
Qed.

(* the end of a loop iteration *)
Lemma loop_rest_effE d es d' o r :
  d_sched d = StE es -> (forall n, In n (e_nodes es) -> aget n (e_nt es) <> None) -> ntok es ->
  (e_completed es = true -> forall n, In n (e_nodes es) -> exists f, aget n (e_nt es) = Some f /\ n_sdsent f = true) ->
  loop_rest d = (d', o, r) ->
  r = Ok tt /\ exists es',
    d' = d_withE d (d_shuttingdown d || e_tests_finished es || d_shouldstop d) es' /\ SD es es' o /\
    (forall m, cmds_to m o <> [] -> d_shouldstop d = true) /\
    (d_shuttingdown d' = false -> es' = es /\ o = []).
Proof.
  intros Els Hk Hok Hc H. unfold loop_rest in H.
  apply LoadProofs.mbind_inv in H. destruct H as [(e & H1 & ->)|(d1 & o1 & a & o2 & H1 & H2 & ->)].
  - exfalso. unfold mbind at 1, get in H1. rewrite Els in H1. cbn [s_tests_finished] in H1.
    destruct (e_tests_finished es).
    + destruct (d_triggershutdown d) as [[dx ox] rx] eqn:Et.
      destruct (trigger_effE _ _ _ _ _ Els Hk Hok Et) as (-> & _). inv H1.
    + unfold ret in H1. inv H1.
  - unfold mbind at 1, get in H1. rewrite Els in H1. cbn [s_tests_finished] in H1.
    unfold mbind at 1, get in H2.
    destruct (e_tests_finished es) eqn:Etf.
    + destruct (d_triggershutdown d) as [[dx ox] rx] eqn:Et.
      destruct (trigger_effE _ _ _ _ _ Els Hk Hok Et) as (-> & es1 & -> & S1 & N1 & C1). inv H1.
      assert (Z : forall b : bool, (if b then d_triggershutdown else ret tt) (d_withE d true es1)
                  = (d_withE d true es1, [], Ok tt)).
      { intros [|]; [|reflexivity]. unfold d_triggershutdown, mbind, get. reflexivity. }
      rewrite Z in H2. inv H2. rewrite app_nil_r, orb_true_r. cbn [orb].
      split; [reflexivity|]. exists es1. split; [reflexivity|]. split; [exact S1|]. split; [|cbn; discriminate].
      intros m Hm. exfalso. destruct (C1 m Hm) as (Hin & f & Ef & Hs).
      destruct (Hc (e_tests_finished_completed _ Etf) m Hin) as (f0 & Ef0 & Hs0). congruence.
    + unfold ret in H1. inv H1. cbn [app]. rewrite orb_false_r.
      destruct (d_shouldstop d1) eqn:Ess.
      * destruct (d_triggershutdown d1) as [[dx ox] rx] eqn:Et.
        destruct (trigger_effE _ _ _ _ _ Els Hk Hok Et) as (-> & es1 & -> & S1 & N1 & C1). inv H2.
        rewrite orb_true_r. split; [reflexivity|]. exists es1.
        split; [reflexivity|]. split; [exact S1|]. split; [auto|cbn; discriminate].
      * unfold ret in H2. inv H2. rewrite orb_false_r. split; [reflexivity|]. exists es.
        split; [symmetry; apply d_withE_same; exact Els|].
        split; [apply SD_refl|]. split; [|auto]. intros m F. exfalso. apply F. reflexivity.
Qed.

Lemma FRo_fwd a cs b f : FRo a cs b -> a = Some f -> exists f', b = Some f' /\ FR f cs f'.
Proof. intros H ->. destruct b as [f'|]; [exists f'; auto|destruct H]. Qed.

Section CtlE.
Variable N : nat.
Variable collf : nat -> list string.      (* what worker n collects *)

(* the indices a command adds to the book of node m *)
Definition cinds (m : nat) (c : cmd) : list nat := item_inds (citems (length (collf m)) c).

Lemma cinds_sd_only m a cs b : FRso a cs b -> flat_map (cinds m) cs = [].
Proof. intros H. destruct (FRso_cases _ _ _ H) as [->| ->]; reflexivity. Qed.

Lemma cinds_run m : flat_map (cinds m) [CRunAll; CShutdown] = seq 0 (length (collf m)).
Proof. unfold cinds. cbn [flat_map citems]. rewrite item_inds_map_idx. cbn. rewrite !app_nil_r. reflexivity. Qed.

(* ---- the scheduler's own invariant ---- *)
Record EJs (es : estate) : Prop := {
  ej_num : e_numnodes es = N;
  ej_ntk : forall n, aget n (e_nt es) <> None <-> n < N;
  ej_ok : ntok es;
  ej_nodes : forall n, In n (e_nodes es) -> n < N;
  ej_wf : NoDup (e_nodes es);
  ej_n2c : forall n, In n (akeys (e_n2c es)) -> n < N;
  ej_n2cnd : NoDup (akeys (e_n2c es));
  ej_ids : forall k ids, In (k, ids) (e_n2c es) -> ids = collf k;
  ej_rm : e_removed es = [];
  ej_cc : e_completed es = (N <=? length (e_n2c es));
  ej_st : e_completed es = false -> e_started es = [];
  ej_bk0 : e_completed es = false -> forall n, bkE es n = [];
  ej_c : e_completed es = true -> forall n, In n (e_nodes es) ->
         exists f, aget n (e_nt es) = Some f /\ n_sdsent f = true;
}.

Record EJ0 (d : dstate) (es : estate) : Prop := {
  ej_sched : d_sched d = StE es;
  ej_s : EJs es;
  ej_b : d_shuttingdown d = false -> d_shouldstop d = false -> incl (e_nodes es) (d_active d);
  ej_p : d_shuttingdown d = false -> forall n f, aget n (e_nt es) = Some f -> n_sdsent f = true ->
         e_completed es = true;
  ej_g : d_shuttingdown d = true -> d_shouldstop d = true \/ e_completed es = true;
}.
Definition EJ (d : dstate) (es : estate) : Prop :=
  EJ0 d es /\ (d_shouldstop d = true -> d_shuttingdown d = true).

Lemma completed_pigeonE es n :
  EJs es -> n < N -> ~ In n (akeys (e_n2c es)) -> e_completed es = false.
Proof.
  intros J Hn Hni. rewrite (ej_cc _ J). apply Nat.leb_gt.
  assert (ND : NoDup (n :: akeys (e_n2c es))) by (constructor; [exact Hni|apply (ej_n2cnd _ J)]).
  assert (Hi : incl (n :: akeys (e_n2c es)) (seq 0 N)).
  { intros m [<-|Hm]; apply in_seq; [lia|]. pose proof (ej_n2c _ J m Hm). lia. }
  pose proof (NoDup_incl_length ND Hi) as L. cbn [length] in L. rewrite seq_length, ea_keys_length in L. lia.
Qed.

Lemma completed_allE es n : EJs es -> e_completed es = true -> n < N -> In n (akeys (e_n2c es)).
Proof.
  intros J C Hn. destruct (in_dec Nat.eq_dec n (akeys (e_n2c es))) as [H|H]; [exact H|].
  rewrite (completed_pigeonE es n J Hn H) in C. discriminate.
Qed.

Lemma nodes_knownE es : EJs es -> forall n, In n (e_nodes es) -> aget n (e_nt es) <> None.
Proof. intros J n Hn. apply (ej_ntk _ J). apply (ej_nodes _ J). exact Hn. Qed.

Lemma EJs_SD es es' o : EJs es -> SD es es' o -> EJs es'.
Proof.
  intros J S. pose proof S as [Snt (K1 & K2 & K3 & K4 & K5 & K6) _].
  constructor; unfold e_nodes, bkE; rewrite ?K1, ?K2, ?K3, ?K4, ?K5, ?K6.
  - apply J.
  - intros n. destruct (Snt n) as (R & _). rewrite (FRo_keys _ _ _ R). apply J.
  - eapply SD_ntok; [exact S|apply J].
  - apply J.
  - apply J.
  - apply J.
  - apply J.
  - apply J.
  - apply J.
  - apply J.
  - apply J.
  - apply (ej_bk0 _ J).
  - intros C n Hn. destruct (ej_c _ J C n Hn) as (f & Ef & Hs). destruct (Snt n) as (R & _).
    destruct (FRo_fwd _ _ _ _ R Ef) as (f' & Ef' & R'). exists f'. split; [exact Ef'|].
    destruct (FR_fields _ _ _ R') as (_ & _ & _ & _ & _ & Fs & _). apply Fs. left. exact Hs.
Qed.

(* ---- preconditions and effects of the handlers ---- *)
Record HEFFe (ev : cevent) (d : dstate) (es : estate) (d1 : dstate) (es1 : estate) (o1 : list out) : Prop := {
  he_dj : EJ0 d1 es1;
  he_nt : forall m, FRo (aget m (e_nt es)) (cmds_to m o1) (aget m (e_nt es1));
  he_sdo : forall m, cmds_to m o1 = [CShutdown] -> d_shouldstop d1 = true;
  he_run : forall m, cmds_to m o1 = [CRunAll; CShutdown] -> e_completed es1 = true;
  he_bk : forall m, bkE es1 m = bookmid ev m (bkE es m) ++ flat_map (cinds m) (cmds_to m o1);
  he_nodes : forall m, In m (e_nodes es1) -> In m (e_nodes es) \/ ev_sig ev = Some (m, SgReady);
  he_n2c : forall m, In m (akeys (e_n2c es1)) -> In m (akeys (e_n2c es)) \/ ev_sig ev = Some (m, SgCF);
  he_act : forall m, In m (d_active d) -> In m (d_active d1) \/ exists b, ev_sig ev = Some (m, SgFin b);
  he_fin : d_active d1 = [] ->
           d_shuttingdown d1 = true \/ e_tests_finished es1 = true \/ d_shouldstop d1 = true;
  he_sd : d_shuttingdown d1 = d_shuttingdown d;
  he_ss : d_shouldstop d = true -> d_shouldstop d1 = true;
  he_stop : forall m, ev_sig ev = Some (m, SgFin true) -> d_shouldstop d1 = true;
  he_comp : e_completed es = true -> e_completed es1 = true;
}.

Definition PREe (ev : cevent) (d : dstate) (es : estate) : Prop :=
  match ev with
  | QReady n => n < N /\ ~ In n (akeys (e_n2c es)) /\
                (d_shuttingdown d = false -> ~ In n (e_nodes es) /\ In n (d_active d))
  | QCollFinish n ids => n < N /\ ~ In n (akeys (e_n2c es)) /\ ids = collf n
  | QComplete n i _ => exists rest, aget n (e_n2p es) = Some (i :: rest)
  | QFinished n SKNone => In n (d_active d) /\ (In n (e_nodes es) -> aget n (e_n2p es) = Some []) /\
                          (exists f, aget n (e_nt es) = Some f /\ n_sdsent f = true)
  | QFinished n SKStop => In n (d_active d)
  | QFinished _ SKKbd | QUnscheduled _ _ | QInternalError _ | QErrorDown _ => False
  | _ => True
  end.

Lemma heff_sameE ev d es d1 o1 :
  EJ d es -> d_active d <> [] -> same_ctl d d1 -> (forall m, cmds_to m o1 = []) ->
  (forall m b, bookmid ev m b = b) -> (forall m b, ev_sig ev <> Some (m, SgFin b)) ->
  HEFFe ev d es d1 es o1.
Proof.
  intros ([Els J Jb Jp Jg] & Jss) Hact (S1 & S2 & S3 & S4) Hc Hb Hf. constructor.
  - constructor.
    + rewrite S1. exact Els.
    + exact J.
    + rewrite S2, S3. intros Hsd Hss. apply Jb; [exact Hsd|].
      destruct (d_shouldstop d) eqn:E; [|reflexivity]. rewrite (S4 eq_refl) in Hss. discriminate.
    + rewrite S2. exact Jp.
    + rewrite S2. intros Hsd. destruct (Jg Hsd) as [X|X]; [left; apply S4; exact X|right; exact X].
  - intros m. rewrite Hc. apply FRo_refl.
  - intros m. rewrite Hc. discriminate.
  - intros m. rewrite Hc. discriminate.
  - intros m. rewrite Hc, Hb. cbn. rewrite app_nil_r. reflexivity.
  - auto.
  - auto.
  - intros m Hm. left. rewrite S3. exact Hm.
  - rewrite S3. intros F. contradiction.
  - exact S2.
  - exact S4.
  - intros m E. exfalso. exact (Hf _ _ E).
  - auto.
Qed.

(* ---- workerready ---- *)
Lemma handle_readyE n d es d1 o1 r :
  EJ d es -> d_active d <> [] -> PREe (QReady n) d es ->
  d_handle (QReady n) d = (d1, o1, r) -> r = Ok tt /\ exists es1, HEFFe (QReady n) d es d1 es1 o1.
Proof.
  intros (J0 & Jss) Hact (HnN & Hnc & Hpre) H. pose proof J0 as [Els J Jb Jp Jg].
  assert (Hcomp : e_completed es = false) by (eapply completed_pigeonE; eauto).
  cbn [d_handle] in H. unfold hook in H. rewrite mbind_emit, mbind_get in H.
  destruct (d_shuttingdown d) eqn:Esd.
  - (* already shutting down: the node is told to shut down and is not scheduled *)
    rewrite (d_node_shutdown_liftE n d es Els) in H.
    assert (Hk : aget n (e_nt es) <> None) by (apply (ej_ntk _ J); exact HnN).
    destruct (node_shutdown_SD n es Hk (ej_ok _ J)) as (es1 & o2 & En & S & _ & C).
    rewrite En in H. cbn [liftE] in H. inv H.
    split; [reflexivity|]. exists es1.
    assert (CC : forall m, cmds_to m (OHook (HNodeReady n) :: o2) = cmds_to m o2) by reflexivity.
    destruct (sd_keep _ _ _ S) as (K1 & K2 & K3 & K4 & K5 & K6).
    constructor.
    + constructor.
      * reflexivity.
      * eapply EJs_SD; eauto.
      * cbn. rewrite Esd. discriminate.
      * cbn. rewrite Esd. discriminate.
      * cbn. rewrite K5. intros _. exact (Jg eq_refl).
    + intros m. rewrite CC. apply (sd_nt _ _ _ S m).
    + intros m _. cbn. destruct (Jg eq_refl) as [X|X]; [exact X|congruence].
    + intros m E. rewrite CC in E. destruct (sd_nt _ _ _ S m) as (_ & F). contradiction.
    + intros m. rewrite CC. cbn [bookmid]. rewrite (cinds_sd_only m _ _ _ (sd_nt _ _ _ S m)), app_nil_r.
      unfold bkE. rewrite K1. reflexivity.
    + intros m Hm. left. unfold e_nodes in *. rewrite K1 in Hm. exact Hm.
    + intros m Hm. left. rewrite K2 in Hm. exact Hm.
    + intros m Hm. left. exact Hm.
    + cbn. intros F. contradiction.
    + reflexivity.
    + cbn. auto.
    + intros m E. discriminate.
    + rewrite K5. auto.
  - (* the node joins the scheduler with an empty book *)
    destruct (Hpre eq_refl) as (Hnew & Hina).
    assert (Ea : aget n (e_n2p es) = None) by (apply ea_get_none; exact Hnew).
    unfold mbind at 1 in H. rewrite (sched_op_runE _ d es Els) in H. cbn [s_step] in H.
    rewrite (e_add_node_run n es Ea) in H. cbn [lift] in H. unfold no_str, ret in H. inv H.
    split; [reflexivity|]. set (es1 := e_set_n2p es (aset n [] (e_n2p es))). exists es1.
    assert (Ek : forall m, In m (e_nodes es1) <-> m = n \/ In m (e_nodes es)).
    { intros m. unfold e_nodes, es1. cbn [e_n2p e_set_n2p]. apply ea_keys_set. }
    assert (Ebk : forall m, bkE es1 m = bkE es m).
    { intros m. unfold bkE, es1. cbn [e_n2p e_set_n2p]. destruct (Nat.eq_dec m n) as [->|Hm].
      - rewrite ea_alist_get_set_eq. symmetry. apply ea_alist_get_none. exact Ea.
      - apply ea_alist_get_set_neq. exact Hm. }
    constructor.
    + constructor.
      * reflexivity.
      * constructor; try exact (ej_num _ J); try exact (ej_ntk _ J); try exact (ej_ok _ J); try exact (ej_n2c _ J);
          try exact (ej_n2cnd _ J); try exact (ej_ids _ J); try exact (ej_rm _ J); try exact (ej_cc _ J);
          try exact (ej_st _ J).
        -- intros m Hm. apply Ek in Hm. destruct Hm as [->|Hm]; [exact HnN|apply (ej_nodes _ J); exact Hm].
        -- unfold e_nodes, es1. cbn [e_n2p e_set_n2p]. apply ea_keys_set_nodup. apply J.
        -- intros C m. rewrite Ebk. apply (ej_bk0 _ J). exact C.
        -- intros C. change (e_completed es1) with (e_completed es) in C. congruence.
      * cbn. intros _ Hss m Hm. apply Ek in Hm.
        destruct Hm as [->|Hm]; [exact Hina|apply (Jb eq_refl Hss); exact Hm].
      * cbn. intros _. exact (Jp eq_refl).
      * cbn. rewrite Esd. discriminate.
    + intros m. apply FRo_refl.
    + intros m E. discriminate.
    + intros m E. discriminate.
    + intros m. cbn. rewrite app_nil_r. apply Ebk.
    + intros m Hm. apply Ek in Hm. destruct Hm as [->|Hm]; [right; reflexivity|left; exact Hm].
    + intros m Hm. left. exact Hm.
    + intros m Hm. left. exact Hm.
    + cbn. intros F. contradiction.
    + reflexivity.
    + cbn. auto.
    + intros m E. discriminate.
    + auto.
Qed.

Ltac dprojE := cbn [d_sched d_shuttingdown d_shouldstop d_active d_countfailures d_maxfail d_failed_nodes
  d_max_restart d_collect_seen d_next_gw d_requeue d_set_sched d_set_active d_set_shouldstop
  d_set_shuttingdown d_set_countfailures d_set_collect_seen d_withE].

Lemma pigeon_all (l : list nat) M :
  NoDup l -> (forall m, In m l -> m < M) -> M <= length l -> forall m, m < M -> In m l.
Proof.
  intros ND Hlt Hlen m Hm.
  assert (Hi : incl (seq 0 M) l).
  { apply (NoDup_length_incl ND); [rewrite seq_length; exact Hlen|].
    intros k Hk. apply in_seq. specialize (Hlt k Hk). lia. }
  apply Hi. apply in_seq. lia.
Qed.

(* ---- collectionfinish ---- *)
Lemma handle_collfinishE n ids d es d1 o1 r :
  EJ d es -> d_active d <> [] -> PREe (QCollFinish n ids) d es ->
  d_handle (QCollFinish n ids) d = (d1, o1, r) ->
  r = Ok tt /\ exists es1, HEFFe (QCollFinish n ids) d es d1 es1 o1.
Proof.
  intros DJd Hact (HnN & Hnew & Hids) H. pose proof DJd as (J0 & Jss). pose proof J0 as [Els J Jb Jp Jg].
  assert (SAME : forall x, (d, @nil out, x) = (d1, o1, r) -> x = Ok tt ->
                 r = Ok tt /\ exists es1, HEFFe (QCollFinish n ids) d es d1 es1 o1).
  { intros x E Ex. inv E. split; [reflexivity|]. exists es. apply heff_sameE; auto.
    - unfold same_ctl. auto.
    - intros m b E. discriminate. }
  cbn [d_handle] in H. rewrite mbind_get in H.
  destruct (d_shuttingdown d) eqn:Esd; [eapply SAME; [exact H|reflexivity]|].
  rewrite Els in H. cbn [s_nodes] in H.
  destruct (mem_nat n (e_nodes es)) eqn:Em; cbn [negb] in H; [|eapply SAME; [exact H|reflexivity]].
  clear SAME. apply mem_nat_In in Em.
  assert (Hp : aget n (e_n2p es) <> None) by (apply ea_keys_get; exact Em).
  assert (Hc : e_completed es = false) by (eapply completed_pigeonE; eauto).
  assert (NOSD : forall m f, aget m (e_nt es) = Some f -> n_sdsent f = false /\ n_down f = false /\ n_closed f = false).
  { intros m f Ef. destruct (ej_ok _ J m f Ef) as (O1 & O2).
    assert (X : n_sdsent f = false).
    { destruct (n_sdsent f) eqn:E; [|reflexivity]. rewrite (Jp eq_refl m f Ef E) in Hc. discriminate. }
    split; [exact X|]. split; [|exact O1]. destruct (n_down f); [|reflexivity]. rewrite O2 in X by reflexivity. discriminate. }
  unfold hook in H. rewrite mbind_emit in H. unfold mbind at 1 in H.
  rewrite (sched_op_runE _ d es Els) in H. cbn [s_step] in H. rewrite (e_add_coll_run n ids es Hp Hc) in H.
  cbn [lift] in H.
  set (esa := e_set_n2p (e_set_n2c es (aset n ids (e_n2c es))) (aset n [] (e_n2p es))) in *.
  change (es_addcoll n ids es) with (if e_numnodes esa <=? length (e_n2c esa) then e_set_completed esa true else esa) in H.
  assert (Ekeys : akeys (e_n2p esa) = e_nodes es).
  { unfold esa, e_nodes. cbn [e_n2p e_set_n2p]. apply ea_keys_set_in. exact Em. }
  assert (Ebk : forall m, bkE esa m = bkE es m).
  { intros m. unfold bkE, esa. cbn [e_n2p e_set_n2p]. destruct (Nat.eq_dec m n) as [->|Hm].
    - rewrite ea_alist_get_set_eq. symmetry. apply (ej_bk0 _ J Hc).
    - apply ea_alist_get_set_neq. exact Hm. }
  assert (IDS : forall k x, In (k, x) (e_n2c esa) -> x = collf k).
  { intros k x Hin. unfold esa in Hin. cbn [e_n2c e_set_n2p e_set_n2c] in Hin. apply ea_in_set in Hin.
    destruct Hin as [(-> & ->)|Hin]; [exact Hids|]. apply (ej_ids _ J). exact Hin. }
  assert (N2Ck : forall m, In m (akeys (e_n2c esa)) -> m < N).
  { intros m Hm. unfold esa in Hm. cbn [e_n2c e_set_n2p e_set_n2c] in Hm. apply ea_keys_set in Hm.
    destruct Hm as [->|Hm]; [exact HnN|apply (ej_n2c _ J); exact Hm]. }
  assert (N2Cnd : NoDup (akeys (e_n2c esa))).
  { unfold esa. cbn [e_n2c e_set_n2p e_set_n2c]. apply ea_keys_set_nodup. apply J. }
  assert (N2C : forall m, In m (akeys (e_n2c esa)) -> In m (akeys (e_n2c es)) \/ ev_sig (QCollFinish n ids) = Some (m, SgCF)).
  { intros m Hm. unfold esa in Hm. cbn [e_n2c e_set_n2p e_set_n2c] in Hm. apply ea_keys_set in Hm.
    destruct Hm as [->|Hm]; [right; reflexivity|left; exact Hm]. }
  assert (Enum : e_numnodes esa = N) by exact (ej_num _ J).
  destruct (e_numnodes esa <=? length (e_n2c esa)) eqn:Eca.
  - (* the last collection: schedule() *)
    set (esc := e_set_completed esa true) in *.
    rewrite mbind_get in H. cbn [d_sched d_set_sched s_collection_is_completed app] in H.
    change (e_completed esc) with true in H. cbv iota in H.
    unfold mbind at 1 in H. rewrite (sched_op_runE _ (d_set_sched d (StE esc)) esc eq_refl) in H. cbn [s_step] in H.
    rewrite (e_schedule_run esc eq_refl) in H.
    assert (Hall : forall m, m < N -> In m (akeys (e_n2c esa))).
    { apply pigeon_all; [exact N2Cnd|exact N2Ck|]. rewrite ea_keys_length. apply Nat.leb_le. rewrite <- Enum. exact Eca. }
    assert (Hready : forall m, In m (akeys (e_n2p esc)) -> sched_ready collf esc m).
    { intros m Hm. change (akeys (e_n2p esc)) with (akeys (e_n2p esa)) in Hm. rewrite Ekeys in Hm.
      pose proof (ej_nodes _ J m Hm) as HmN.
      split.
      { change (e_started esc) with (e_started es). rewrite (ej_st _ J Hc). reflexivity. }
      split.
      { change (e_n2p esc) with (aset n [] (e_n2p es)). destruct (Nat.eq_dec m n) as [->|Hmn].
        - apply ea_get_set_eq.
        - rewrite ea_get_set_neq by exact Hmn. pose proof (ej_bk0 _ J Hc m) as B. unfold bkE, alist_get in B.
          apply ea_keys_get in Hm. destruct (aget m (e_n2p es)); [congruence|contradiction]. }
      split.
      { change (e_n2c esc) with (e_n2c esa). pose proof (Hall m HmN) as X. apply ea_keys_get in X.
        destruct (aget m (e_n2c esa)) as [x|] eqn:Ex; [|contradiction].
        apply ea_aget_in in Ex. rewrite (IDS m x Ex). reflexivity. }
      change (e_nt esc) with (e_nt es).
      destruct (aget m (e_nt es)) as [f|] eqn:Ef.
      - exists f. destruct (NOSD m f Ef) as (A & B & C). auto.
      - exfalso. apply (proj2 (ej_ntk _ J m)); assumption. }
    assert (NDl : NoDup (akeys (e_n2p esc))).
    { change (akeys (e_n2p esc)) with (akeys (e_n2p esa)). rewrite Ekeys. apply J. }
    destruct (sched_sweep collf (akeys (e_n2p esc)) esc NDl Hready) as (es' & Esw & [Sk Sks Sin Sout]).
    rewrite Esw in H. cbn [lift] in H. unfold no_str, ret in H. inv H.
    change (akeys (e_n2p esc)) with (akeys (e_n2p esa)) in *. rewrite Ekeys in *.
    destruct Sk as (Kc & Kr & Kcomp & Kn).
    change (e_n2c esc) with (e_n2c esa) in Kc. change (e_removed esc) with (e_removed es) in Kr.
    change (e_completed esc) with true in Kcomp. change (e_numnodes esc) with (e_numnodes esa) in Kn.
    change (e_n2p esc) with (e_n2p esa) in Sout. change (e_nt esc) with (e_nt es) in Sout, Sin.
    assert (CC : forall m, cmds_to m (OHook (HCollFinished n) :: run_outs (akeys (aset n [] (e_n2p es))) ++ []) = cmds_to m (run_outs (e_nodes es))).
    { intros m. change (akeys (aset n [] (e_n2p es))) with (akeys (e_n2p esa)). rewrite Ekeys, app_nil_r. reflexivity. }
    assert (Cin : forall m, In m (e_nodes es) -> cmds_to m (run_outs (e_nodes es)) = [CRunAll; CShutdown]).
    { intros m Hm. apply cmds_to_run_outs_in; [apply J|exact Hm]. }
    assert (Cout : forall m, ~ In m (e_nodes es) -> cmds_to m (run_outs (e_nodes es)) = []).
    { intros m Hm. apply cmds_to_run_outs_out. exact Hm. }
    split; [reflexivity|]. exists es'. constructor.
    + constructor.
      * reflexivity.
      * constructor.
        -- rewrite Kn. exact Enum.
        -- intros m. destruct (in_dec Nat.eq_dec m (e_nodes es)) as [Hin|Hni].
           ++ destruct (Sin m Hin) as (_ & f & Ef & Ef' & _). rewrite Ef'. split; [intros _|discriminate].
              apply (ej_nodes _ J). exact Hin.
           ++ destruct (Sout m Hni) as (_ & E). rewrite E. apply J.
        -- intros m f' Ef'. destruct (in_dec Nat.eq_dec m (e_nodes es)) as [Hin|Hni].
           ++ destruct (Sin m Hin) as (_ & f & Ef & Ef2 & _). rewrite Ef2 in Ef'. inv Ef'.
              destruct (ej_ok _ J m f Ef) as (O1 & _). cbn. auto.
           ++ destruct (Sout m Hni) as (_ & E). rewrite E in Ef'. apply (ej_ok _ J m f' Ef').
        -- unfold e_nodes. rewrite Sks. exact (ej_nodes _ J).
        -- unfold e_nodes. rewrite Sks. exact (ej_wf _ J).
        -- rewrite Kc. exact N2Ck.
        -- rewrite Kc. exact N2Cnd.
        -- rewrite Kc. exact IDS.
        -- rewrite Kr. apply J.
        -- rewrite Kcomp, Kc, <- Enum. symmetry. exact Eca.
        -- rewrite Kcomp. discriminate.
        -- rewrite Kcomp. discriminate.
        -- intros _ m Hm. unfold e_nodes in Hm. rewrite Sks in Hm.
           destruct (Sin m Hm) as (_ & f & _ & Ef' & _). exists (sdm f). split; [exact Ef'|reflexivity].
      * cbn. unfold e_nodes. rewrite Sks. intros _. exact (Jb eq_refl).
      * cbn. intros _ m f _ _. exact Kcomp.
      * cbn. rewrite Esd. discriminate.
    + intros m. rewrite CC. destruct (in_dec Nat.eq_dec m (e_nodes es)) as [Hin|Hni].
      * rewrite (Cin m Hin). destruct (Sin m Hin) as (_ & f & Ef & Ef' & Hs & Hd). rewrite Ef, Ef'. cbn.
        constructor; assumption.
      * rewrite (Cout m Hni). destruct (Sout m Hni) as (_ & E). rewrite E. apply FRo_refl.
    + intros m E. rewrite CC in E. destruct (in_dec Nat.eq_dec m (e_nodes es)) as [Hin|Hni].
      * rewrite (Cin m Hin) in E. discriminate.
      * rewrite (Cout m Hni) in E. discriminate.
    + intros m _. exact Kcomp.
    + intros m. rewrite CC. cbn [bookmid]. destruct (in_dec Nat.eq_dec m (e_nodes es)) as [Hin|Hni].
      * rewrite (Cin m Hin), cinds_run, (ej_bk0 _ J Hc m). cbn [app].
        destruct (Sin m Hin) as (E & _). unfold bkE, alist_get. rewrite E. reflexivity.
      * rewrite (Cout m Hni). cbn. rewrite app_nil_r. destruct (Sout m Hni) as (E & _).
        rewrite <- Ebk. unfold bkE, alist_get. rewrite E. reflexivity.
    + intros m Hm. left. unfold e_nodes in Hm. rewrite Sks in Hm. exact Hm.
    + intros m Hm. rewrite Kc in Hm. apply N2C. exact Hm.
    + intros m Hm. left. exact Hm.
    + cbn. intros F. contradiction.
    + reflexivity.
    + cbn. auto.
    + intros m E. discriminate.
    + intros _. exact Kcomp.
  - (* not the last one *)
    rewrite mbind_get in H. cbn [d_sched d_set_sched s_collection_is_completed app] in H.
    change (e_completed esa) with (e_completed es) in H. rewrite Hc in H. unfold ret in H. inv H.
    split; [reflexivity|]. exists esa. constructor.
    + constructor; [reflexivity| |dprojE; intros _; unfold e_nodes; rewrite Ekeys; exact (Jb eq_refl)| |dprojE; rewrite Esd; discriminate].
      * constructor; try exact (ej_num _ J); try exact (ej_ntk _ J); try exact (ej_ok _ J); try exact (ej_rm _ J);
          try exact (ej_st _ J); try exact N2Ck; try exact N2Cnd; try exact IDS.
        -- unfold e_nodes. rewrite Ekeys. exact (ej_nodes _ J).
        -- unfold e_nodes. rewrite Ekeys. exact (ej_wf _ J).
        -- change (e_completed esa) with (e_completed es). rewrite Hc, <- Enum. symmetry. exact Eca.
        -- intros _ m. rewrite Ebk. apply (ej_bk0 _ J Hc).
        -- change (e_completed esa) with (e_completed es). congruence.
      * cbn. intros _ m f Ef Hs. destruct (NOSD m f Ef) as (X & _). congruence.
    + intros m. apply FRo_refl.
    + intros m E. discriminate.
    + intros m E. discriminate.
    + intros m. cbn. rewrite app_nil_r. apply Ebk.
    + intros m Hm. left. unfold e_nodes in Hm. rewrite Ekeys in Hm. exact Hm.
    + exact N2C.
    + intros m Hm. left. exact Hm.
    + cbn. intros F. contradiction.
    + reflexivity.
    + cbn. auto.
    + intros m E. discriminate.
    + change (e_completed esa) with (e_completed es). auto.
Qed.

(* ---- runtest_protocol_complete ---- *)
Lemma handle_completeE n i ms d es d1 o1 r :
  EJ d es -> d_active d <> [] -> PREe (QComplete n i ms) d es ->
  d_handle (QComplete n i ms) d = (d1, o1, r) ->
  r = Ok tt /\ exists es1, HEFFe (QComplete n i ms) d es d1 es1 o1.
Proof.
  intros (J0 & Jss) Hact (rest & Hb) H. pose proof J0 as [Els J Jb Jp Jg].
  cbn [d_handle] in H. unfold mbind at 1 in H. rewrite (sched_op_runE _ d es Els) in H. cbn [s_step] in H.
  rewrite (e_complete_run n i rest es Hb) in H. cbn [lift] in H. unfold no_str, ret in H. inv H.
  set (es1 := e_set_n2p es (aset n rest (e_n2p es))).
  assert (Hin : In n (e_nodes es)) by (apply ea_keys_get; congruence).
  assert (Ekeys : e_nodes es1 = e_nodes es).
  { unfold e_nodes, es1. cbn [e_n2p e_set_n2p]. apply ea_keys_set_in. exact Hin. }
  assert (Hcomp : e_completed es = true).
  { destruct (e_completed es) eqn:C; [reflexivity|]. pose proof (ej_bk0 _ J C n) as B.
    unfold bkE, alist_get in B. rewrite Hb in B. discriminate. }
  split; [reflexivity|]. exists es1. constructor.
  - constructor.
    + reflexivity.
    + constructor; try exact (ej_num _ J); try exact (ej_ntk _ J); try exact (ej_ok _ J); try exact (ej_n2c _ J);
        try exact (ej_n2cnd _ J); try exact (ej_ids _ J); try exact (ej_rm _ J); try exact (ej_cc _ J).
      * rewrite Ekeys. exact (ej_nodes _ J).
      * rewrite Ekeys. exact (ej_wf _ J).
      * change (e_completed es1) with (e_completed es). congruence.
      * change (e_completed es1) with (e_completed es). congruence.
      * rewrite Ekeys. exact (ej_c _ J).
    + dprojE. rewrite Ekeys. exact Jb.
    + dprojE. exact Jp.
    + dprojE. exact Jg.
  - intros m. apply FRo_refl.
  - intros m E. discriminate.
  - intros m E. discriminate.
  - intros m. cbn [cmds_to flat_map app]. rewrite app_nil_r. unfold bkE, es1. cbn [e_n2p e_set_n2p bookmid].
    destruct (Nat.eqb m n) eqn:E.
    + apply Nat.eqb_eq in E. subst m. rewrite ea_alist_get_set_eq. unfold alist_get. rewrite Hb. reflexivity.
    + apply Nat.eqb_neq in E. apply ea_alist_get_set_neq. exact E.
  - intros m Hm. left. rewrite Ekeys in Hm. exact Hm.
  - intros m Hm. left. exact Hm.
  - intros m Hm. left. exact Hm.
  - dprojE. intros F. contradiction.
  - reflexivity.
  - dprojE. auto.
  - intros m E. discriminate.
  - auto.
Qed.

(* ---- workerfinished ---- *)
Lemma handle_finishedE n sk d es d1 o1 r :
  EJ d es -> d_active d <> [] -> PREe (QFinished n sk) d es ->
  d_handle (QFinished n sk) d = (d1, o1, r) ->
  r = Ok tt /\ exists es1, HEFFe (QFinished n sk) d es d1 es1 o1.
Proof.
  intros (J0 & Jss) Hact Hpre H. pose proof J0 as [Els J Jb Jp Jg].
  cbn [d_handle] in H. unfold d_worker_workerfinished, hook in H. rewrite mbind_emit in H.
  destruct sk; cbn [PREe] in Hpre; [| |contradiction].
  - (* no stop request: the node leaves the scheduler with an empty book *)
    destruct Hpre as (Hina & Hbook & (f & Ef & Hsd)).
    rewrite mbind_get in H. rewrite Els in H. cbn [s_nodes] in H.
    assert (STEP : exists es1,
      ((if mem_nat n (e_nodes es)
        then r0 <- d_sched_op (SRemove n);; massert match r0 with Some s0 => (s0 =? "")%string | None => true end
        else ret tt) d) = (d_set_sched d (StE es1), [], Ok tt) /\
      e_nt es1 = e_nt es /\ e_numnodes es1 = e_numnodes es /\ e_removed es1 = e_removed es /\
      e_started es1 = e_started es /\ e_completed es1 = e_completed es /\
      (forall m, bkE es1 m = bkE es m) /\
      (forall m, In m (e_nodes es1) -> In m (e_nodes es) /\ m <> n) /\ NoDup (e_nodes es1) /\
      (forall m, In m (akeys (e_n2c es1)) -> In m (akeys (e_n2c es))) /\ NoDup (akeys (e_n2c es1)) /\
      (forall x, In x (e_n2c es1) -> In x (e_n2c es)) /\
      (e_completed es = true -> e_n2c es1 = e_n2c es) /\ length (e_n2c es1) <= length (e_n2c es)).
    { destruct (mem_nat n (e_nodes es)) eqn:Em.
      - apply mem_nat_In in Em. specialize (Hbook Em).
        exists (es_remove n es). split.
        { unfold mbind. rewrite (sched_op_runE _ d es Els). cbn [s_step].
          rewrite (e_remove_idle_run n es Hbook). cbn [lift]. reflexivity. }
        unfold es_remove. cbv zeta.
        assert (BK : forall m, alist_get [] m (adel n (e_n2p es)) = bkE es m).
        { intros m. unfold bkE. destruct (Nat.eq_dec m n) as [->|Hm].
          - rewrite (ea_alist_get_none [] n _ (ea_get_del_eq n _ (ej_wf _ J))).
            unfold alist_get. rewrite Hbook. reflexivity.
          - unfold alist_get. rewrite ea_get_del_neq by exact Hm. reflexivity. }
        assert (ND : forall m, In m (akeys (adel n (e_n2p es))) -> In m (e_nodes es) /\ m <> n).
        { intros m Hm. split; [eapply ea_keys_del; eauto|]. intros ->. exact (ea_keys_del_not _ _ (ej_wf _ J) Hm). }
        destruct (e_completed es) eqn:C;
          cbn [e_nt e_numnodes e_removed e_started e_completed e_n2p e_n2c e_set_n2p e_set_n2c e_nodes bkE];
          (split; [reflexivity|]); (split; [reflexivity|]); (split; [reflexivity|]); (split; [reflexivity|]);
          (split; [first [reflexivity|exact C]|]); (split; [exact BK|]); (split; [exact ND|]);
          (split; [apply ea_keys_del_nodup; apply J|]).
        + split; [auto|]. split; [apply J|]. split; [auto|]. split; [auto|]. lia.
        + split; [apply ea_keys_del|]. split; [apply ea_keys_del_nodup; apply J|].
          split; [apply ea_in_del|]. split; [discriminate|]. apply ea_length_del.
      - apply mem_nat_false in Em. exists es. split; [rewrite d_set_sched_same by exact Els; reflexivity|].
        repeat split; auto; try apply J. intros ->. contradiction. }
    destruct STEP as (es1 & Erun & Fn & Fm & Frm & Fst & Fcomp & Fbk & Fnodes & Fwf & Fn2c & Fn2cnd & Fent & Fcback & Flen).
    unfold mbind at 1 in H. rewrite Erun in H.
    rewrite (active_remove_run n (d_set_sched d (StE es1)) Hina) in H. inv H.
    split; [reflexivity|]. exists es1.
    assert (HB : d_shuttingdown d = false -> d_shouldstop d = false ->
                 incl (e_nodes es1) (filter (fun m => negb (Nat.eqb m n)) (d_active d))).
    { intros Hs1 Hs2 m Hm. destruct (Fnodes m Hm) as (Hm1 & Hm2). apply in_filter_neq. split; [|exact Hm2].
      apply (Jb Hs1 Hs2). exact Hm1. }
    constructor.
    + constructor.
      * reflexivity.
      * constructor.
        -- rewrite Fm. apply J.
        -- rewrite Fn. apply J.
        -- unfold ntok. rewrite Fn. apply J.
        -- intros m Hm. apply (ej_nodes _ J). apply Fnodes. exact Hm.
        -- exact Fwf.
        -- intros m Hm. apply (ej_n2c _ J). apply Fn2c. exact Hm.
        -- exact Fn2cnd.
        -- intros k ids Hin. apply (ej_ids _ J). apply Fent. exact Hin.
        -- rewrite Frm. apply J.
        -- pose proof (ej_cc _ J) as X. rewrite Fcomp. destruct (e_completed es) eqn:C.
           ++ rewrite (Fcback eq_refl). exact X.
           ++ symmetry in X. apply Nat.leb_gt in X. symmetry. apply Nat.leb_gt. lia.
        -- rewrite Fcomp, Fst. apply J.
        -- rewrite Fcomp. intros C m. rewrite Fbk. apply (ej_bk0 _ J C).
        -- rewrite Fcomp, Fn. intros C m Hm. apply (ej_c _ J C). apply Fnodes. exact Hm.
      * dprojE. exact HB.
      * dprojE. rewrite Fn, Fcomp. exact Jp.
      * dprojE. rewrite Fcomp. exact Jg.
    + intros m. rewrite Fn. apply FRo_refl.
    + intros m E. discriminate.
    + intros m E. discriminate.
    + intros m. cbn. rewrite app_nil_r. apply Fbk.
    + intros m Hm. left. apply Fnodes. exact Hm.
    + intros m Hm. left. apply Fn2c. exact Hm.
    + intros m Hm. dprojE. destruct (Nat.eq_dec m n) as [->|Hne]; [right; eexists; reflexivity|].
      left. apply in_filter_neq. split; assumption.
    + dprojE. intros Hempty. destruct (d_shuttingdown d) eqn:Esd; [left; reflexivity|].
      destruct (d_shouldstop d) eqn:Ess; [right; right; reflexivity|]. right. left.
      pose proof (Jp eq_refl n f Ef Hsd) as C.
      specialize (HB eq_refl eq_refl). rewrite Hempty in HB.
      assert (En : e_n2p es1 = []).
      { destruct (e_n2p es1) as [|[k v] rest] eqn:E; [reflexivity|]. exfalso.
        apply (HB k). unfold e_nodes. rewrite E. left. reflexivity. }
      unfold e_tests_finished. rewrite Fcomp, C, Frm, (ej_rm _ J), En. reflexivity.
    + reflexivity.
    + dprojE. auto.
    + intros m E. discriminate.
    + rewrite Fcomp. auto.
  - (* stop request *)
    assert (STEP : exists d2, (d0 <- get;; (if d_shouldstop d0 then ret tt else put (d_set_shouldstop d0 true))) d = (d2, [], Ok tt) /\
              d_sched d2 = d_sched d /\ d_shuttingdown d2 = d_shuttingdown d /\ d_active d2 = d_active d /\ d_shouldstop d2 = true).
    { rewrite mbind_get. destruct (d_shouldstop d) eqn:Ess.
      - exists d. auto.
      - eexists. split; [reflexivity|]. auto. }
    destruct STEP as (d2 & Erun & S1 & S2 & S3 & S4).
    unfold mbind at 1 in H. rewrite Erun in H.
    assert (Hina : In n (d_active d2)) by (rewrite S3; exact Hpre).
    rewrite (active_remove_run n d2 Hina) in H. inv H.
    split; [reflexivity|]. exists es. constructor.
    + constructor.
      * dprojE. rewrite S1. exact Els.
      * exact J.
      * dprojE. rewrite S4. discriminate.
      * dprojE. rewrite S2. exact Jp.
      * dprojE. intros _. left. exact S4.
    + intros m. apply FRo_refl.
    + intros m E. discriminate.
    + intros m E. discriminate.
    + intros m. cbn. rewrite app_nil_r. reflexivity.
    + auto.
    + auto.
    + intros m Hm. dprojE. destruct (Nat.eq_dec m n) as [->|Hne]; [right; eexists; reflexivity|].
      left. apply in_filter_neq. rewrite S3. split; assumption.
    + dprojE. intros _. right. right. exact S4.
    + dprojE. exact S2.
    + dprojE. intros _. exact S4.
    + intros m _. dprojE. exact S4.
    + auto.
Qed.

Theorem handle_effE ev d es d1 o1 r :
  EJ d es -> d_active d <> [] -> PREe ev d es ->
  d_handle ev d = (d1, o1, r) -> r = Ok tt /\ exists es1, HEFFe ev d es d1 es1 o1.
Proof.
  intros DJd Hact Hpre H.
  assert (QUIET : match ev with
                  | QLogStart _ _ | QLogFinish _ _ | QWarning | QReport _ _ _ _ | QCollectReport _ _ _ => True
                  | _ => False end -> r = Ok tt /\ exists es1, HEFFe ev d es d1 es1 o1).
  { intros Hq. destruct (handle_quiet ev d d1 o1 r Hq H) as (-> & S & C). split; [reflexivity|]. exists es.
    apply heff_sameE; auto; destruct ev; try contradiction; try reflexivity; intros m b E; discriminate. }
  destruct ev; try (apply QUIET; exact Logic.I); try (cbn in Hpre; contradiction).
  - eapply handle_readyE; eauto.
  - eapply handle_collfinishE; eauto.
  - eapply handle_completeE; eauto.
  - eapply handle_finishedE; eauto.
Qed.

Lemma FRo_cases a cs b : FRo a cs b -> cs = [] \/ cs = [CShutdown] \/ cs = [CRunAll; CShutdown].
Proof.
  destruct a as [f|], b as [f'|]; cbn; try contradiction; [|auto].
  intros H. destruct H; auto.
Qed.

Record LEFFe (ev : cevent) (d : dstate) (es : estate) (d' : dstate) (es' : estate) (o : list out) : Prop := {
  le_dj : EJ d' es';
  le_nt : forall m, FRo (aget m (e_nt es)) (cmds_to m o) (aget m (e_nt es'));
  le_sdo : forall m, cmds_to m o = [CShutdown] -> d_shouldstop d' = true;
  le_run : forall m, cmds_to m o = [CRunAll; CShutdown] -> e_completed es' = true;
  le_bk : forall m, bkE es' m = bookmid ev m (bkE es m) ++ flat_map (cinds m) (cmds_to m o);
  le_nodes : forall m, In m (e_nodes es') -> In m (e_nodes es) \/ ev_sig ev = Some (m, SgReady);
  le_n2c : forall m, In m (akeys (e_n2c es')) -> In m (akeys (e_n2c es)) \/ ev_sig ev = Some (m, SgCF);
  le_act : forall m, In m (d_active d) -> In m (d_active d') \/ exists b, ev_sig ev = Some (m, SgFin b);
  le_fin : d_active d' = [] -> d_shuttingdown d' = true;
  le_ss : d_shouldstop d = true -> d_shouldstop d' = true;
  le_stop : forall m, ev_sig ev = Some (m, SgFin true) -> d_shouldstop d' = true;
  le_sd : d_shuttingdown d = true -> d_shuttingdown d' = true;
  le_comp : e_completed es = true -> e_completed es' = true;
}.

(* one iteration of the controller loop never raises, and its effect *)
Theorem loop_once_okE ev d es d' o r :
  EJ d es -> d_active d <> [] -> PREe ev d es ->
  d_loop_once ev d = (d', o, r) -> r = Ok tt /\ exists es', LEFFe ev d es d' es' o.
Proof.
  intros DJd Hact Hpre H. rewrite loop_once_unfold in H.
  apply LoadProofs.mbind_inv in H. destruct H as [(e & H1 & ->)|(d1 & o1 & a & o2 & H1 & H2 & ->)].
  { destruct (handle_effE _ _ _ _ _ _ DJd Hact Hpre H1) as (F & _). discriminate. }
  destruct (handle_effE _ _ _ _ _ _ DJd Hact Hpre H1) as (_ & es1 & E1).
  pose proof (he_dj _ _ _ _ _ _ E1) as J1. pose proof J1 as [Els1 Js1 Jb1 Jp1 Jg1].
  destruct (loop_rest_effE _ _ _ _ _ Els1 (nodes_knownE _ Js1) (ej_ok _ Js1) (ej_c _ Js1) H2)
    as (-> & es2 & -> & S & Cs & Same).
  split; [reflexivity|]. exists es2.
  destruct (sd_keep _ _ _ S) as (K1 & K2 & K3 & K4 & K5 & K6).
  assert (SD0 : d_shuttingdown d1 || e_tests_finished es1 || d_shouldstop d1 = false ->
               d_shuttingdown d1 = false /\ d_shouldstop d1 = false /\ es2 = es1 /\ o2 = []).
  { intros E. destruct (Same E) as (-> & ->). apply orb_false_iff in E. destruct E as (E & E3).
    apply orb_false_iff in E. destruct E as (E1' & E2). auto. }
  constructor.
  - split.
    + constructor.
      * reflexivity.
      * eapply EJs_SD; eauto.
      * dprojE. intros Hsd Hss. destruct (SD0 Hsd) as (A & B' & -> & _). apply (Jb1 A B').
      * dprojE. intros Hsd. destruct (SD0 Hsd) as (A & _ & -> & _). apply (Jp1 A).
      * dprojE. intros Hsd. destruct (d_shouldstop d1) eqn:Ess; [left; reflexivity|right].
        rewrite K5. destruct (d_shuttingdown d1) eqn:Esd1.
        -- destruct (Jg1 eq_refl) as [F|X]; [congruence|exact X].
        -- rewrite orb_false_r in Hsd. cbn [orb] in Hsd. apply e_tests_finished_completed. exact Hsd.
    + dprojE. intros Hss. rewrite Hss. apply orb_true_r.
  - intros m. rewrite cmds_to_app. eapply FRo_trans; [apply (he_nt _ _ _ _ _ _ E1)|apply (sd_nt _ _ _ S m)].
  - intros m E. dprojE. rewrite cmds_to_app in E.
    destruct (FRso_cases _ _ _ (sd_nt _ _ _ S m)) as [E2|E2].
    + rewrite E2, app_nil_r in E. exact (he_sdo _ _ _ _ _ _ E1 m E).
    + apply (Cs m). rewrite E2. discriminate.
  - intros m E. rewrite K5. rewrite cmds_to_app in E.
    destruct (FRso_cases _ _ _ (sd_nt _ _ _ S m)) as [E2|E2].
    + rewrite E2, app_nil_r in E. exact (he_run _ _ _ _ _ _ E1 m E).
    + exfalso. rewrite E2 in E.
      destruct (FRo_cases _ _ _ (he_nt _ _ _ _ _ _ E1 m)) as [X|[X|X]]; rewrite X in E; discriminate.
  - intros m. rewrite cmds_to_app, flat_map_app, (cinds_sd_only m _ _ _ (sd_nt _ _ _ S m)), app_nil_r.
    unfold bkE at 1. rewrite K1. apply (he_bk _ _ _ _ _ _ E1 m).
  - intros m Hm. apply (he_nodes _ _ _ _ _ _ E1). unfold e_nodes in *. rewrite K1 in Hm. exact Hm.
  - intros m Hm. apply (he_n2c _ _ _ _ _ _ E1). rewrite K2 in Hm. exact Hm.
  - intros m Hm. exact (he_act _ _ _ _ _ _ E1 m Hm).
  - dprojE. intros Hempty. destruct (he_fin _ _ _ _ _ _ E1 Hempty) as [X|[X|X]]; rewrite X; rewrite ?orb_true_r, ?orb_true_l; reflexivity.
  - dprojE. apply (he_ss _ _ _ _ _ _ E1).
  - dprojE. apply (he_stop _ _ _ _ _ _ E1).
  - dprojE. intros Hsd. rewrite (he_sd _ _ _ _ _ _ E1), Hsd. reflexivity.
  - rewrite K5. apply (he_comp _ _ _ _ _ _ E1).
Qed.

End CtlE.

(* ====================================================================================== *)
(* Part E: the system invariant                                                            *)
(* ====================================================================================== *)

(* ---- E.1 the per-node invariant, over the components it depends on ---- *)
Lemma mark_tail A : forall B Y, nomark B = true -> A ++ Mark :: Y = B ++ [Mark] -> Y = [].
Proof.
  induction A as [|a A IH]; intros B Y HB E.
  - destruct B as [|b B]; cbn in E; [inversion E; reflexivity|].
    inversion E; subst. cbn in HB. discriminate.
  - destruct B as [|b B]; cbn in E.
    + inversion E as [[E1 E2]]. destruct A; discriminate.
    + inversion E; subst. cbn in HB. apply andb_true_iff in HB. eapply IH; [exact (proj2 HB)|eassumption].
Qed.

Lemma chan_ok_cf_head' k L : chan_ok k (SgCF :: L) -> ~ In SgReady L /\ ~ In SgCF L /\ 2 <= k.
Proof.
  intros H. destruct (chan_ok_cf_head _ _ H) as (A & B). split; [|auto].
  destruct (chan_ok_head _ _ _ H) as (_ & F). intros Hin. rewrite Forall_forall in F. specialize (F _ Hin).
  unfold prec in F. cbn in F. lia.
Qed.

Section NodeInv.
Variable collf : nat -> list string.
Notation Kf n := (length (collf n)).

Lemma cinds_items n dn : flat_map (cinds collf n) dn = item_inds (flat_map (citems (Kf n)) dn).
Proof.
  induction dn as [|c dn IH]; [reflexivity|]. cbn [flat_map]. rewrite item_inds_app, <- IH. reflexivity.
Qed.

Record NEI (es : estate) (act : list nat) (ss : bool) (n : nat) (L : list sig) (dn : list cmd) (w : wst) : Prop := {
  ne_flags : exists f, aget n (e_nt es) = Some f /\
             stream_ok (e_completed es) ss (n_sdsent f) (Kf n) (wstr (Kf n) w ++ flat_map (citems (Kf n)) dn);
  ne_coupled : bkE es n = completes L ++ owedE (Kf n) w ++ flat_map (cinds collf n) dn;
  ne_chan : chan_ok (prank (wph w)) L;
  ne_nodes : In n (e_nodes es) -> ~ In SgReady L /\ wph w <> PBoot;
  ne_n2c : In n (akeys (e_n2c es)) -> ~ In SgReady L /\ ~ In SgCF L /\ 2 <= prank (wph w);
  ne_act : ~ In n act -> L = [] /\ wph w = PExited;
  ne_fm : In (SgFin false) L \/ wph w = PFinishing false -> markpopped w;
  ne_wx : WX w;
  (* a worker that left its loop took the shutdown marker, unless a stop request is on record *)
  ne_fx : finished_ph (wph w) ->
          markpopped w \/ wph w = PFinishing true \/ In (SgFin true) L \/ ss = true;
  ne_cmds : Forall each_cmd (winbox w) /\ Forall each_cmd dn;
}.

Lemma NEI_deliver es act ss n L c rest w :
  NEI es act ss n L (c :: rest) w -> NEI es act ss n L rest (deliver w c).
Proof.
  intros [(f & Ef & Mk) Cp Ch Nd Nc Ac Fm Wx Fx (G1 & G2)].
  destruct (deliver_each (Kf n) w c) as (Er & Ep & Epop & Erep & _ & Einb).
  inversion G2 as [|c' r' Gc Gr]; subst.
  constructor; rewrite ?Ep.
  - exists f. split; [exact Ef|]. unfold wstr in *. rewrite Epop, Er, <- !app_assoc. cbn [flat_map] in Mk.
    rewrite <- !app_assoc in Mk. exact Mk.
  - rewrite Cp. unfold owedE. rewrite Er, item_inds_app, (owed_main_ext w _ Ep Epop), <- !app_assoc. reflexivity.
  - exact Ch.
  - exact Nd.
  - exact Nc.
  - exact Ac.
  - unfold markpopped in *. rewrite Epop. exact Fm.
  - destruct Wx as (X1 & X2). split; [rewrite Erep; exact X1|rewrite Ep; exact X2].
  - unfold markpopped in *. rewrite Epop. exact Fx.
  - split; [|exact Gr]. rewrite Einb. apply Forall_app. split; [exact G1|constructor; [exact Gc|constructor]].
Qed.

Lemma NEI_recv o es act ss n L dn w :
  ncollected o = Kf n -> NEI es act ss n L dn w ->
  snd (recv_step o w) = [] /\ NEI es act ss n L dn (fst (recv_step o w)).
Proof.
  intros HK [(f & Ef & Mk) Cp Ch Nd Nc Ac Fm (X1 & X2) Fx (G1 & G2)].
  destruct (recv_step_each o w G1 X1) as (Ev & Er & Ep & Epop & Erep & _ & Ginb). rewrite HK in Er.
  split; [exact Ev|]. constructor; rewrite ?Ep.
  - exists f. split; [exact Ef|]. unfold wstr in *. rewrite Epop, Er. exact Mk.
  - rewrite Cp. unfold owedE. rewrite Er, (owed_main_ext w _ Ep Epop). reflexivity.
  - exact Ch.
  - exact Nd.
  - exact Nc.
  - exact Ac.
  - unfold markpopped in *. rewrite Epop. exact Fm.
  - split; [exact Erep|rewrite Ep; exact X2].
  - unfold markpopped in *. rewrite Epop. exact Fx.
  - split; [exact Ginb|exact G2].
Qed.

Lemma NEI_main o es act ss n L dn w w' evs :
  WInv w -> NEI es act ss n L dn w -> main_step o w = Some (w', evs) ->
  NEI es act ss n (L ++ flat_map we_sig evs) dn w' /\ Forall ok_wev evs.
Proof.
  intros I [(f & Ef & Mk) Cp Ch Nd Nc Ac Fm Wx Fx (G1 & G2)] H.
  destruct (main_step_frame_e (Kf n) _ _ _ _ H) as (Erp & Einb & Erep & Estr).
  pose proof (main_step_owedE (Kf n) _ _ _ _ I Wx H) as Eow.
  destruct (main_step_rank _ _ _ _ Wx H) as (Hok & Hrank).
  pose proof (main_step_not_exited _ _ _ _ H) as Hne.
  split; [|exact Hok].
  assert (Hmono : prank (wph w) <= prank (wph w')) by (destruct Hrank as [(_ & X)|(g & _ & _ & _ & X)]; exact X).
  assert (Hold : forall g, In g L -> srank g < 3).
  { intros g Hg. pose proof (chan_ok_in _ _ _ Ch Hg) as Hp.
    destruct (Nat.lt_ge_cases (srank g) 3) as [X|X]; [exact X|]. exfalso.
    pose proof (srank_le3 g). unfold prec in Hp. assert (Hp4 : 4 <= prank (wph w)) by lia.
    apply prank_4 in Hp4. contradiction. }
  assert (Hnew : forall g, In g (flat_map we_sig evs) -> srank g = prank (wph w)).
  { intros g Hg. destruct Hrank as [(E0 & _)|(g0 & E0 & Eg & _)]; rewrite E0 in Hg; [destruct Hg|].
    destruct Hg as [<-|[]]. exact Eg. }
  constructor.
  - exists f. split; [exact Ef|]. rewrite Estr. exact Mk.
  - rewrite Cp, completes_app, Eow, <- !app_assoc. reflexivity.
  - destruct Hrank as [(-> & X)|(g & -> & Eg & Hp & X)].
    + rewrite app_nil_r. eapply chan_ok_mono; eauto.
    + eapply chan_ok_snoc; eauto. rewrite <- Eg. exact Hp.
  - intros Hin. destruct (Nd Hin) as (Nr & Nb). split.
    + intros Hi. apply in_app_or in Hi. destruct Hi as [Hi|Hi]; [exact (Nr Hi)|].
      apply Hnew in Hi. cbn in Hi. symmetry in Hi. apply prank_0 in Hi. contradiction.
    + intros E. rewrite E in Hmono. cbn in Hmono. assert (E0 : prank (wph w) = 0) by lia.
      apply prank_0 in E0. contradiction.
  - intros Hin. destruct (Nc Hin) as (Nr & Ncf & Nb). split; [|split; [|lia]].
    + intros Hi. apply in_app_or in Hi. destruct Hi as [Hi|Hi]; [exact (Nr Hi)|].
      apply Hnew in Hi. cbn in Hi. lia.
    + intros Hi. apply in_app_or in Hi. destruct Hi as [Hi|Hi]; [exact (Ncf Hi)|].
      apply Hnew in Hi. cbn in Hi. lia.
  - intros Hn. destruct (Ac Hn) as (_ & E). contradiction.
  - intros [Hi|Hp].
    + apply in_app_or in Hi. destruct Hi as [Hi|Hi].
      * specialize (Hold _ Hi). cbn in Hold. lia.
      * pose proof (main_step_emits_fin _ _ _ _ _ Wx H Hi) as Ep.
        unfold markpopped in *. rewrite (main_step_in_fin _ _ _ _ _ H Ep). apply Fm. right. exact Ep.
    + eapply main_step_enter_fin; eauto. intros E.
      rewrite (main_step_from_fin _ _ _ _ _ H E) in Hp. discriminate.
  - eapply main_step_WX; eauto.
  - intros Hfin. destruct (main_step_phase_fin _ _ _ _ H Hfin) as [(b & Ep & Ep' & Hsig)|(b & Ep' & Hnf)].
    + assert (Hfin0 : finished_ph (wph w)) by (right; exists b; exact Ep).
      destruct b.
      * right. right. left. apply in_or_app. right. rewrite Hsig. left. reflexivity.
      * destruct (Fx Hfin0) as [X|[X|[X|X]]].
        -- left. unfold markpopped in *. rewrite (main_step_in_fin _ _ _ _ _ H Ep). exact X.
        -- congruence.
        -- right. right. left. apply in_or_app. left. exact X.
        -- right. right. right. exact X.
    + destruct b; [right; left; exact Ep'|]. left.
      eapply main_step_enter_fin; eauto. intros E. apply Hnf. right. exists false. exact E.
  - rewrite Einb. split; assumption.
Qed.

(* the controller's receiver thread only touches the down flag *)
Lemma NEI_flags_ext es es' act ss n L dn w :
  (forall f, aget n (e_nt es) = Some f -> exists f', aget n (e_nt es') = Some f' /\ n_sdsent f' = n_sdsent f) ->
  e_n2p es' = e_n2p es -> e_n2c es' = e_n2c es -> e_completed es' = e_completed es ->
  NEI es act ss n L dn w -> NEI es' act ss n L dn w.
Proof.
  intros Hf Ep Ec Ecomp [(f & Ef & Mk) Cp Ch Nd Nc Ac Fm Wx Fx G]. constructor; auto.
  - destruct (Hf f Ef) as (f' & Ef' & Es). exists f'. rewrite Es, Ecomp. auto.
  - unfold bkE in *. rewrite Ep. exact Cp.
  - unfold e_nodes. rewrite Ep. exact Nd.
  - rewrite Ec. exact Nc.
Qed.

(* one iteration of the controller loop, seen from node n *)
Lemma NEI_ctl N ev d es d' es' o n L' dn w :
  LEFFe N collf ev d es d' es' o ->
  NEI es (d_active d) (d_shouldstop d) n (ev_sigs_for n ev ++ L') dn w ->
  NEI es' (d_active d') (d_shouldstop d') n L' (dn ++ cmds_to n o) w.
Proof.
  intros E [(f & Ef & Mk) Cp Ch Nd Nc Ac Fm Wx Fx (G1 & G2)].
  assert (Hsub : forall g, In g L' -> In g (ev_sigs_for n ev ++ L')) by (intros g Hg; apply in_or_app; right; exact Hg).
  assert (Ch' : chan_ok (prank (wph w)) L').
  { unfold ev_sigs_for in Ch. destruct (ev_sig ev) as [[m g]|]; [|exact Ch].
    destruct (Nat.eqb m n); [|exact Ch]. eapply chan_ok_tail. exact Ch. }
  pose proof (le_nt _ _ _ _ _ _ _ _ E n) as R.
  destruct (FRo_fwd _ _ _ _ R Ef) as (f' & Ef' & R').
  constructor.
  - exists f'. split; [exact Ef'|]. rewrite flat_map_app, app_assoc.
    assert (M0 : stream_ok (e_completed es') (d_shouldstop d') (n_sdsent f) (Kf n)
                   (wstr (Kf n) w ++ flat_map (citems (Kf n)) dn)).
    { eapply stream_ok_mono; [apply (le_comp _ _ _ _ _ _ _ _ E)|apply (le_ss _ _ _ _ _ _ _ _ E)|exact Mk]. }
    remember (cmds_to n o) as cs eqn:Ecs.
    assert (Hsdo : cs = [CShutdown] -> d_shouldstop d' = true) by (rewrite Ecs; apply (le_sdo _ _ _ _ _ _ _ _ E n)).
    assert (Hrun : cs = [CRunAll; CShutdown] -> e_completed es' = true) by (rewrite Ecs; apply (le_run _ _ _ _ _ _ _ _ E n)).
    clear Ecs R Ef Ef'. destruct R' as [f0|f0 Hs Hd|f0 Hs Hd].
    + change (flat_map (citems (Kf n)) []) with (@nil item). rewrite app_nil_r. exact M0.
    + destruct M0 as [(_ & E0)|[(F & _)|(F & _)]]; try congruence. rewrite E0. cbn.
      right. left. split; [reflexivity|]. split; [reflexivity|]. apply Hsdo. reflexivity.
    + destruct M0 as [(_ & E0)|[(F & _)|(F & _)]]; try congruence. rewrite E0. cbn [app flat_map citems].
      rewrite ?app_nil_r. right. right. split; [reflexivity|]. split; [reflexivity|]. apply Hrun. reflexivity.
  - rewrite (le_bk _ _ _ _ _ _ _ _ E n), flat_map_app.
    rewrite Cp, bookmid_sigs, <- !app_assoc. reflexivity.
  - exact Ch'.
  - intros Hin. destruct (le_nodes _ _ _ _ _ _ _ _ E n Hin) as [Hold|Hev].
    + destruct (Nd Hold) as (A & B). split; [|exact B]. intros Hi. apply A. apply Hsub. exact Hi.
    + unfold ev_sigs_for in Ch. rewrite Hev, Nat.eqb_refl in Ch. cbn [app] in Ch.
      destruct (chan_ok_ready_head _ _ Ch) as (A & B). split; [exact A|].
      intros Ep. rewrite Ep in B. cbn in B. lia.
  - intros Hin. destruct (le_n2c _ _ _ _ _ _ _ _ E n Hin) as [Hold|Hev].
    + destruct (Nc Hold) as (A & B & C). split; [|split; [|exact C]]; intros Hi; [apply A|apply B]; apply Hsub; exact Hi.
    + unfold ev_sigs_for in Ch. rewrite Hev, Nat.eqb_refl in Ch. cbn [app] in Ch.
      exact (chan_ok_cf_head' _ _ Ch).
  - intros Hn. destruct (in_dec Nat.eq_dec n (d_active d)) as [Hin|Hni].
    + destruct (le_act _ _ _ _ _ _ _ _ E n Hin) as [X|(b & Hev)]; [contradiction|].
      unfold ev_sigs_for in Ch. rewrite Hev, Nat.eqb_refl in Ch. cbn [app] in Ch.
      destruct (chan_ok_fin_head _ _ _ Ch) as (A & B). split; [exact A|apply prank_4; exact B].
    + destruct (Ac Hni) as (A & B). split; [|exact B]. apply app_eq_nil in A. tauto.
  - intros [Hi|Hp]; apply Fm; [left; apply Hsub; exact Hi|right; exact Hp].
  - exact Wx.
  - intros Hfin. destruct (Fx Hfin) as [X|[X|[X|X]]].
    + left. exact X.
    + right. left. exact X.
    + apply in_app_or in X. destruct X as [X|X].
      * right. right. right. unfold ev_sigs_for in X. destruct (ev_sig ev) as [[m g]|] eqn:Eg; [|destruct X].
        destruct (Nat.eqb m n) eqn:Emn; [|destruct X]. destruct X as [->|[]].
        apply (le_stop _ _ _ _ _ _ _ _ E m). exact Eg.
      * right. right. left. exact X.
    + right. right. right. apply (le_ss _ _ _ _ _ _ _ _ E). exact X.
  - split; [exact G1|]. apply Forall_app. split; [exact G2|].
    destruct (FR_fields _ _ _ R') as (_ & _ & _ & _ & _ & _ & X). exact X.
Qed.

(* when the worker's "finished" (without stop request) is next, its book is empty *)
Lemma NEI_finished_empty es act ss n L dn w :
  NEI es act ss n (SgFin false :: L) dn w ->
  bkE es n = [] /\ exists f, aget n (e_nt es) = Some f /\ n_sdsent f = true.
Proof.
  intros [(f & Ef & Mk) Cp Ch Nd Nc Ac Fm Wx Fx G].
  destruct (chan_ok_fin_head _ _ _ Ch) as (-> & Hk). apply prank_4 in Hk.
  destruct (Fm (or_introl (or_introl eq_refl))) as (pre & t & Ep).
  unfold wstr in Mk. rewrite Ep, map_app in Mk. cbn [map snd] in Mk.
  rewrite <- !app_assoc in Mk. cbn [app] in Mk.
  assert (Y : wrest (Kf n) w ++ flat_map (citems (Kf n)) dn = [] /\ n_sdsent f = true).
  { destruct Mk as [(_ & E0)|[(Hs & E0 & _)|(Hs & E0 & _)]].
    - destruct (map snd pre); discriminate.
    - split; [|exact Hs]. apply (mark_tail (map snd pre) [] _ eq_refl E0).
    - split; [|exact Hs]. apply (mark_tail (map snd pre) (map Idx (seq 0 (Kf n))) _ (nomark_map_idx _) E0). }
  destruct Y as (Y & Hs). apply app_eq_nil in Y. destruct Y as (Y1 & Y2).
  split; [|exists f; auto].
  rewrite Cp, cinds_items, Y2. unfold owedE, owed_main. rewrite Hk, Ep, last_last, Y1. reflexivity.
Qed.
End NodeInv.

(* ---- E.2 applying the controller's outputs; no replacement worker is ever spawned ---- *)
Lemma apply_outs_each outs : forall s,
  y_dead s = [] -> Forall (fun x => is_spawn x = false) outs ->
  y_d (apply_outs s outs) = y_d s /\ y_evq (apply_outs s outs) = y_evq s /\
  y_up (apply_outs s outs) = y_up s /\ y_w (apply_outs s outs) = y_w s /\
  y_dead (apply_outs s outs) = y_dead s /\ y_result (apply_outs s outs) = y_result s /\
  forall k, alist_get [] k (y_down (apply_outs s outs)) = alist_get [] k (y_down s) ++ cmds_to k outs.
Proof.
  induction outs as [|x outs IH]; intros s Hd Hg.
  - cbn. repeat split; auto. intros k. rewrite app_nil_r. reflexivity.
  - inversion Hg as [|x' r' Gx Gr]; subst.
    destruct x as [h|n cm| |].
    + destruct h; try (cbn [apply_outs]; destruct (IH s Hd Gr) as (A1 & A2 & A3 & A4 & A5 & A6 & A7);
                       repeat split; auto; fail).
      cbn in Gx. discriminate.
    + cbn [apply_outs]. replace (mem_nat n (y_dead s)) with false by (rewrite Hd; reflexivity).
      set (s1 := {| y_d := y_d s; y_evq := y_evq s;
                    y_down := aset n (alist_get [] n (y_down s) ++ [cm]) (y_down s);
                    y_up := y_up s; y_w := y_w s; y_dead := y_dead s; y_result := y_result s |}).
      destruct (IH s1 Hd Gr) as (A1 & A2 & A3 & A4 & A5 & A6 & A7).
      repeat split; auto. intros k. rewrite A7. subst s1. cbn [y_down cmds_to flat_map cmd_to].
      destruct (Nat.eqb n k) eqn:E.
      * apply Nat.eqb_eq in E. subst k. rewrite ea_alist_get_set_eq, <- app_assoc. reflexivity.
      * apply Nat.eqb_neq in E. rewrite ea_alist_get_set_neq by congruence. reflexivity.
    + cbn [apply_outs]. destruct (IH s Hd Gr) as (A1 & A2 & A3 & A4 & A5 & A6 & A7). repeat split; auto.
    + cbn [apply_outs]. destruct (IH s Hd Gr) as (A1 & A2 & A3 & A4 & A5 & A6 & A7). repeat split; auto.
Qed.

Lemma loop_once_nospawnE ev d d' o r :
  death_event ev = false -> d_loop_once ev d = (d', o, r) -> Forall (fun x => is_spawn x = false) o.
Proof.
  intros Hev H. unfold d_loop_once in H.
  assert (Q : DSessionProofs.quiet (d_handle ev ;;;
                     (d0 <- get ;; if s_tests_finished (d_sched d0) then d_triggershutdown else ret tt) ;;;
                     (d0 <- get ;; if d_shouldstop d0 then d_triggershutdown else ret tt))).
  { apply (dspec_bind _ _ same_budget_trans); [apply quiet_handle; exact Hev|intros _].
    apply (dspec_bind _ _ same_budget_trans); [intros d0; qs; apply quiet_triggershutdown|].
    intros _ d0. qs. apply quiet_triggershutdown. }
  destruct (Q _ _ _ _ H) as (_ & F). eapply Forall_impl; [|exact F]. intros x (X & _). exact X.
Qed.

(* ---- E.3 the system invariant ---- *)
Definition dflag (f : nctl) : nctl :=
  {| n_spec := n_spec f; n_down := true; n_sdsent := n_sdsent f; n_closed := n_closed f |}.

Section SysE.
Variable c : config.
Notation N := (c_numnodes c).
Hypothesis Hnc : forall n i, c_crash_in c n i = false.
Hypothesis Hng : no_garbled c.
(* what `runtests_all` enumerates on worker n is the collection worker n reported *)
Hypothesis Hcoh : forall n, n < N -> ncollected (c_oracle c n) = length (c_coll c n).

Definition ok_evE (ev : cevent) : Prop :=
  match ev with
  | QUnscheduled _ _ | QInternalError _ | QErrorDown _ | QFinished _ SKKbd => False
  | QCollFinish n ids => ids = c_coll c n
  | _ => True
  end /\
  match ev_sig ev with Some (m, _) => m < N | None => True end.
Definition ok_upE (n : nat) (m : upmsg) : Prop :=
  match m with
  | UEv e => ok_wev e
  | UCollFinish ids => ids = c_coll c n
  | UComplete _ _ => True
  | _ => False
  end.

Lemma ok_evE_not_death ev : ok_evE ev -> death_event ev = false.
Proof. intros (H & _). destruct ev as [| | | | | | | | | |n sk|]; cbn in *; try tauto. destruct sk; tauto. Qed.

Definition NEv (s : sys) (es : estate) (n : nat) (w : wst) : Prop :=
  NEI (c_coll c) es (d_active (y_d s)) (d_shouldstop (y_d s)) n (sigs s n) (alist_get [] n (y_down s)) w.

Notation EJc := (EJ N (c_coll c)).
Notation LEFFc := (LEFFe N (c_coll c)).

Record EInv (s : sys) : Prop := {
  ei_dead : y_dead s = [];
  ei_keys : akeys (y_w s) = seq 0 N;
  ei_dj : exists es, EJc (y_d s) es /\ forall n w, aget n (y_w s) = Some w -> NEv s es n w;
  ei_w : forall n w, aget n (y_w s) = Some w -> WInv w /\ nogarb w;
  ei_evq : Forall ok_evE (y_evq s);
  ei_up : forall n, Forall (ok_upE n) (alist_get [] n (y_up s)) /\ (N <= n -> alist_get [] n (y_up s) = []);
  ei_down : forall n, N <= n -> alist_get [] n (y_down s) = [];
  ei_act : y_result s = None -> d_active (y_d s) <> [];
  ei_res : forall e, y_result s <> Some (RError e);
  (* "finished" is only ever reported by a session that is shutting down without a stop request *)
  ei_fin : y_result s = Some RFinished ->
           d_session_finished (y_d s) = true /\ d_shouldstop (y_d s) = false;
  (* a node whose "finished" the receiver thread has read (marked down, not heard any more) has
     exited, and no signal of it is left on its wire: nothing the books depend on is ever dropped *)
  ei_dn : forall es n f w, d_sched (y_d s) = StE es -> aget n (e_nt es) = Some f -> n_down f = true ->
          aget n (y_w s) = Some w ->
          flat_map up_sig (alist_get [] n (y_up s)) = [] /\ wph w = PExited;
}.

(* the controller's receiver thread: never raises for a known node; queues the signal it read *)
Lemma pfr_effE n m d es f d' o r :
  d_sched d = StE es -> aget n (e_nt es) = Some f -> ok_upE n m -> n < N ->
  (n_down f = true -> up_sig m = []) ->
  process_from_remote n m d = (d', o, r) ->
  o = [] /\ exists evs es', r = Ok evs /\ d_sched d' = StE es' /\
    (forall k, evq_sigs k evs = if Nat.eqb n k then up_sig m else []) /\
    Forall ok_evE evs /\
    d_shuttingdown d' = d_shuttingdown d /\ d_shouldstop d' = d_shouldstop d /\ d_active d' = d_active d /\
    (es' = es \/
     ((exists b, m = UEv (EFinished b)) /\ n_down f = false /\ es' = e_set_nt es (aset n (dflag f) (e_nt es)))).
Proof.
  intros Els Ef Hm HnN Hdn H.
  assert (Ent : d_nt d = e_nt es) by (unfold d_nt; rewrite Els; reflexivity).
  unfold process_from_remote in H. rewrite mbind_get, Ent, Ef in H. cbn [of_opt] in H. rewrite mbind_ret in H.
  assert (SAME : forall evs, (d, @nil out, Ok evs) = (d', o, r) ->
            (forall k, evq_sigs k evs = if Nat.eqb n k then up_sig m else []) -> Forall ok_evE evs ->
            o = [] /\ exists evs es', r = Ok evs /\ d_sched d' = StE es' /\
            (forall k, evq_sigs k evs = if Nat.eqb n k then up_sig m else []) /\
            Forall ok_evE evs /\
            d_shuttingdown d' = d_shuttingdown d /\ d_shouldstop d' = d_shouldstop d /\ d_active d' = d_active d /\
            (es' = es \/
             ((exists b, m = UEv (EFinished b)) /\ n_down f = false /\ es' = e_set_nt es (aset n (dflag f) (e_nt es))))).
  { intros evs E Hs Ho. inv E. split; [reflexivity|]. exists evs, es.
    repeat (split; [first [reflexivity|assumption]|]). left. reflexivity. }
  assert (DOWN : forall evs, (d_set_nt d (aset n (dflag f) (e_nt es)), @nil out, Ok evs) = (d', o, r) ->
            (exists b, m = UEv (EFinished b)) -> n_down f = false ->
            (forall k, evq_sigs k evs = if Nat.eqb n k then up_sig m else []) -> Forall ok_evE evs ->
            o = [] /\ exists evs es', r = Ok evs /\ d_sched d' = StE es' /\
            (forall k, evq_sigs k evs = if Nat.eqb n k then up_sig m else []) /\
            Forall ok_evE evs /\
            d_shuttingdown d' = d_shuttingdown d /\ d_shouldstop d' = d_shouldstop d /\ d_active d' = d_active d /\
            (es' = es \/
             ((exists b, m = UEv (EFinished b)) /\ n_down f = false /\ es' = e_set_nt es (aset n (dflag f) (e_nt es))))).
  { intros evs E Hfin Hd0 Hs Ho. inv E. split; [reflexivity|]. exists evs, (e_set_nt es (aset n (dflag f) (e_nt es))).
    split; [reflexivity|]. split; [unfold d_set_nt; rewrite Els; reflexivity|].
    split; [exact Hs|]. split; [exact Ho|]. repeat (split; [reflexivity|]). right. auto. }
  assert (SG : forall (g : sig) k, (if Nat.eqb n k then [g] else []) ++ [] = if Nat.eqb n k then [g] else []).
  { intros g k. destruct (Nat.eqb n k); reflexivity. }
  assert (SN : forall k, @nil sig = if Nat.eqb n k then [] else []) by (intros k; destruct (Nat.eqb n k); reflexivity).
  assert (OK1 : forall ev, match ev with QUnscheduled _ _ | QInternalError _ | QErrorDown _ | QFinished _ SKKbd => False
                                       | QCollFinish n0 ids0 => ids0 = c_coll c n0 | _ => True end ->
                match ev_sig ev with Some (m0, _) => m0 < N | None => True end -> Forall ok_evE [ev]).
  { intros ev A B. constructor; [split; assumption|constructor]. }
  destruct (n_down f) eqn:Edn.
  { (* a node that is down is not heard any more; no signal of it is in flight then *)
    assert (H' : (d, @nil out, Ok (@nil cevent)) = (d', o, r)).
    { destruct m as [e|ids|sk|i ms|dec| | |]; exact H. }
    eapply SAME; [exact H'| |constructor].
    intros k. rewrite (Hdn eq_refl). destruct (Nat.eqb n k); reflexivity. }
  destruct m as [e|ids|sk|i ms|dec| | |]; cbn [ok_upE] in Hm; try contradiction.
  - destruct e as [| |ck cf| |li|ri rk roc|fi|ci|ux|stopreq]; cbn [ok_wev] in Hm; try contradiction; unfold ret in H.
    + eapply SAME; [exact H| |apply OK1; cbn; auto]. intros k0. cbn. apply SG.
    + eapply SAME; [exact H| |constructor]. intros k0. cbn. apply SN.
    + eapply SAME; [exact H| |apply OK1; cbn; auto]. intros k0. cbn. apply SN.
    + eapply SAME; [exact H| |constructor]. intros k0. cbn. apply SN.
    + eapply SAME; [exact H| |apply OK1; cbn; auto]. intros k0. cbn. apply SN.
    + eapply SAME; [exact H| |apply OK1; cbn; auto]. intros k0. cbn. apply SN.
    + eapply SAME; [exact H| |apply OK1; cbn; auto]. intros k0. cbn. apply SN.
    + eapply SAME; [exact H| |apply OK1; cbn; auto]. intros k0. cbn. apply SG.
    + rewrite mbind_put in H. unfold ret in H.
      eapply DOWN; [exact H|eexists; reflexivity|reflexivity| |apply OK1; [destruct stopreq; exact Logic.I|cbn; auto]].
      intros k0. cbn. destruct stopreq; apply SG.
  - unfold ret in H. eapply SAME; [exact H| |apply OK1; cbn; auto]. intros k0. cbn. apply SG.
  - unfold ret in H. eapply SAME; [exact H| |apply OK1; cbn; auto]. intros k0. cbn. apply SG.
Qed.

Lemma worker_knownE s n : akeys (y_w s) = seq 0 N -> n < N -> exists w, aget n (y_w s) = Some w.
Proof.
  intros Ek Hn. destruct (aget n (y_w s)) as [w|] eqn:E; [eauto|]. exfalso.
  apply ea_get_none in E. apply E. rewrite Ek. apply in_seq. lia.
Qed.

Lemma worker_ltE s n w : akeys (y_w s) = seq 0 N -> aget n (y_w s) = Some w -> n < N.
Proof. intros Ek E. assert (X : In n (akeys (y_w s))) by (apply ea_keys_get; congruence). rewrite Ek in X. apply in_seq in X. lia. Qed.

Lemma up_ok_of_wevent n e : ok_wev e -> is_garbled e = false -> ok_upE n (up_of_wevent c n e).
Proof. intros H1 H2. destruct e; cbn in *; auto. destruct oc; cbn; auto. discriminate. Qed.

(* ---- a worker step that pushes events onto its wire ---- *)
Lemma einv_push s n0 w0 w' evs :
  EInv s -> aget n0 (y_w s) = Some w0 -> WInv w' -> nogarb w' ->
  (forall es, d_sched (y_d s) = StE es -> NEv s es n0 w0 ->
     NEI (c_coll c) es (d_active (y_d s)) (d_shouldstop (y_d s)) n0 (sigs s n0 ++ flat_map we_sig evs)
        (alist_get [] n0 (y_down s)) w') ->
  Forall ok_wev evs -> Forall (fun e => is_garbled e = false) evs ->
  (wph w0 = PExited -> wph w' = PExited /\ flat_map we_sig evs = []) ->
  EInv (push_up (set_w s n0 w') n0 (map (up_of_wevent c n0) evs)).
Proof.
  intros [Ed Ek (es & DJd & NIs) Ew Eq Eu Edn Ea Er Efin Edw] Ew0 Iw' NGw' Hni Hok Hng' Hex.
  set (s' := push_up (set_w s n0 w') n0 (map (up_of_wevent c n0) evs)).
  assert (HnN : n0 < N) by (eapply worker_ltE; eauto).
  assert (Kin : In n0 (akeys (y_w s))) by (apply ea_keys_get; congruence).
  assert (Sg : forall n, sigs s' n = if Nat.eqb n n0 then sigs s n0 ++ flat_map we_sig evs else sigs s n).
  { intros n. unfold sigs, s'. cbn [push_up set_w y_evq y_up]. destruct (Nat.eqb n n0) eqn:E.
    - apply Nat.eqb_eq in E. subst n. rewrite ea_alist_get_set_eq, flat_map_app, up_sigs_of_wevents, app_assoc. reflexivity.
    - apply Nat.eqb_neq in E. rewrite ea_alist_get_set_neq by exact E. reflexivity. }
  constructor.
  - exact Ed.
  - unfold s'. cbn [push_up set_w y_w]. rewrite ea_keys_set_in; [exact Ek|exact Kin].
  - exists es. split; [exact DJd|]. intros n w Hw. unfold NEv. rewrite Sg.
    unfold s' in Hw |- *. cbn [push_up set_w y_w y_d y_down] in Hw |- *.
    destruct (Nat.eqb n n0) eqn:E.
    + apply Nat.eqb_eq in E. subst n. rewrite ea_get_set_eq in Hw. inv Hw. apply Hni; [apply DJd|]. apply NIs. exact Ew0.
    + apply Nat.eqb_neq in E. rewrite ea_get_set_neq in Hw by exact E. apply NIs. exact Hw.
  - intros n w Hw. unfold s' in Hw. cbn [push_up set_w y_w] in Hw. destruct (Nat.eq_dec n n0) as [->|Hn].
    + rewrite ea_get_set_eq in Hw. inv Hw. auto.
    + rewrite ea_get_set_neq in Hw by exact Hn. apply (Ew n w). exact Hw.
  - exact Eq.
  - intros n. unfold s'. cbn [push_up set_w y_up]. destruct (Nat.eq_dec n n0) as [->|Hn].
    + rewrite ea_alist_get_set_eq. split; [|intros; lia].
      apply Forall_app. split; [apply Eu|]. apply Forall_forall. intros m Hm. apply in_map_iff in Hm.
      destruct Hm as (e & <- & He). rewrite Forall_forall in Hok, Hng'. apply up_ok_of_wevent; auto.
    + rewrite ea_alist_get_set_neq by exact Hn. apply Eu.
  - exact Edn.
  - exact Ea.
  - exact Er.
  - exact Efin.
  - intros es1 n f w Els1 Ef Hd Hw. unfold s' in Hw, Els1 |- *. cbn [push_up set_w y_w y_d y_up] in Hw, Els1 |- *.
    destruct (Nat.eq_dec n n0) as [->|Hn].
    + rewrite ea_get_set_eq in Hw. inv Hw. destruct (Edw es1 n0 f w0 Els1 Ef Hd Ew0) as (X1 & X2).
      destruct (Hex X2) as (Y1 & Y2). split; [|exact Y1].
      rewrite ea_alist_get_set_eq, flat_map_app, up_sigs_of_wevents, X1, Y2. reflexivity.
    + rewrite ea_get_set_neq in Hw by exact Hn. rewrite ea_alist_get_set_neq by exact Hn.
      exact (Edw es1 n f w Els1 Ef Hd Hw).
Qed.

(* ---- the preconditions of the handlers follow from the invariant ---- *)
Lemma bkE_cons es n i rest : bkE es n = i :: rest -> aget n (e_n2p es) = Some (i :: rest).
Proof. unfold bkE, alist_get. destruct (aget n (e_n2p es)); intros E; [congruence|discriminate]. Qed.

Lemma pre_from_invE s es ev q :
  akeys (y_w s) = seq 0 N -> EJc (y_d s) es ->
  (forall n w, aget n (y_w s) = Some w -> NEv s es n w) ->
  y_evq s = ev :: q -> ok_evE ev -> PREe N (c_coll c) ev (y_d s) es.
Proof.
  intros Ek DJd NIs Eq (Hok3 & Hnode).
  assert (NODE : forall n g, ev_sig ev = Some (n, g) ->
            exists w L, aget n (y_w s) = Some w /\
              NEI (c_coll c) es (d_active (y_d s)) (d_shouldstop (y_d s)) n (g :: L) (alist_get [] n (y_down s)) w).
  { intros n g Eg. rewrite Eg in Hnode. destruct (worker_knownE s n Ek Hnode) as (w & Ew).
    exists w. eexists. split; [exact Ew|]. pose proof (NIs n w Ew) as X. unfold NEv in X.
    rewrite (sigs_head s ev q n Eq) in X. unfold ev_sigs_for in X. rewrite Eg, Nat.eqb_refl in X. exact X. }
  assert (ACT : forall n g, ev_sig ev = Some (n, g) -> In n (d_active (y_d s))).
  { intros n g Eg. destruct (NODE n g Eg) as (w & L & _ & X).
    destruct (in_dec Nat.eq_dec n (d_active (y_d s))) as [Hin|Hni]; [exact Hin|].
    destruct (ne_act _ _ _ _ _ _ _ _ X Hni) as (F & _). discriminate. }
  destruct ev as [n|n ids|n key fl|n i|n i|n i k oc|n i ms|n ixs| |n|n sk|n]; cbn [PREe]; cbn in Hok3; try contradiction; auto.
  - (* ready *)
    destruct (NODE n SgReady eq_refl) as (w & L & Ew & X). cbn in Hnode. split; [exact Hnode|]. split.
    + intros Hin. destruct (ne_n2c _ _ _ _ _ _ _ _ X Hin) as (F & _). apply F. left. reflexivity.
    + intros _. split; [|exact (ACT n SgReady eq_refl)].
      intros Hin. destruct (ne_nodes _ _ _ _ _ _ _ _ X Hin) as (F & _). apply F. left. reflexivity.
  - (* collectionfinish *)
    destruct (NODE n SgCF eq_refl) as (w & L & Ew & X). cbn in Hnode. split; [exact Hnode|].
    split; [|exact Hok3].
    intros Hin. destruct (ne_n2c _ _ _ _ _ _ _ _ X Hin) as (_ & F & _). apply F. left. reflexivity.
  - (* complete *)
    destruct (NODE n (SgComp i) eq_refl) as (w & L & Ew & X).
    pose proof (ne_coupled _ _ _ _ _ _ _ _ X) as Cp. cbn [completes flat_map app] in Cp.
    eexists. apply bkE_cons. exact Cp.
  - (* finished *)
    destruct sk; try contradiction.
    + destruct (NODE n (SgFin false) eq_refl) as (w & L & Ew & X).
      destruct (NEI_finished_empty _ _ _ _ _ _ _ _ X) as (Eb & Hf).
      split; [exact (ACT n _ eq_refl)|]. split; [|exact Hf].
      intros Hin. apply ea_keys_get in Hin. unfold bkE, alist_get in Eb.
      destruct (aget n (e_n2p es)) as [b|]; [congruence|contradiction].
    + exact (ACT n _ eq_refl).
Qed.

(* ---- one iteration of the controller loop ---- *)
Lemma ctl_coreE s ev q d' outs es es' rr :
  EInv s -> y_evq s = ev :: q -> EJc (y_d s) es ->
  (forall n w, aget n (y_w s) = Some w -> NEv s es n w) ->
  LEFFc ev (y_d s) es d' es' outs -> Forall (fun x => is_spawn x = false) outs ->
  (forall e, rr <> Some (RError e)) -> (rr = None -> d_active d' <> []) ->
  (rr = Some RFinished -> d_session_finished d' = true /\ d_shouldstop d' = false) ->
  EInv (set_result (apply_outs (set_d (set_evq s q) d') outs) rr).
Proof.
  intros [Ed Ek _ Ew Eq Eu Edn Ea Er _ Edw] Eevq DJd NIs LE Go Hrr Hact Hfin.
  assert (Hd : y_dead (set_d (set_evq s q) d') = []) by (cbn; exact Ed).
  destruct (apply_outs_each outs _ Hd Go) as (A1 & A2 & A3 & A4 & A5 & A6 & A7).
  cbn [set_d set_evq y_d y_evq y_up y_w y_dead y_result y_down] in A1, A2, A3, A4, A5, A6, A7.
  pose proof DJd as ([Els J _ _ _] & _).
  pose proof (le_dj _ _ _ _ _ _ _ _ LE) as ([Els' J' _ _ _] & _).
  constructor; cbn [set_result y_d y_evq y_up y_w y_dead y_result y_down].
  - rewrite A5. exact Ed.
  - rewrite A4. exact Ek.
  - exists es'. rewrite A1, A4. split; [apply (le_dj _ _ _ _ _ _ _ _ LE)|].
    intros n w Hw. unfold NEv. cbn [set_result y_d y_down]. rewrite A1, A7.
    assert (Es : sigs (set_result (apply_outs (set_d (set_evq s q) d') outs) rr) n
                 = evq_sigs n q ++ flat_map up_sig (alist_get [] n (y_up s))).
    { unfold sigs. cbn [set_result y_evq y_up]. rewrite A2, A3. reflexivity. }
    rewrite Es. eapply NEI_ctl; [exact LE|]. rewrite <- (sigs_head s ev q n Eevq). apply NIs. exact Hw.
  - rewrite A4. exact Ew.
  - rewrite A2. rewrite Eevq in Eq. inversion Eq; assumption.
  - rewrite A3. exact Eu.
  - intros n Hn. rewrite A7, (Edn n Hn). cbn [app].
    pose proof (le_nt _ _ _ _ _ _ _ _ LE n) as R.
    destruct (aget n (e_nt es)) as [f|] eqn:Ef.
    + exfalso. assert (X : n < N) by (apply (ej_ntk _ _ _ J n); congruence). lia.
    + destruct (aget n (e_nt es')); [destruct R|exact R].
  - rewrite A1. exact Hact.
  - exact Hrr.
  - rewrite A1. exact Hfin.
  - intros es1 n f' w Els1 Ef' Hdw Hw. rewrite A1 in Els1. rewrite A4 in Hw. rewrite A3.
    assert (es1 = es') by congruence. subst es1.
    destruct (FRo_open _ _ _ _ (le_nt _ _ _ _ _ _ _ _ LE n) Ef') as (f & Ef & R).
    destruct (FR_fields _ _ _ R) as (_ & B & _).
    apply (Edw es n f w Els Ef); [congruence|exact Hw].
Qed.

(* ---- the initial state ---- *)
Lemma EInv_init : c_mode c = MEach -> 0 < N -> EInv (sys_init c).
Proof.
  intros Hm Hpos. constructor.
  - reflexivity.
  - cbn [sys_init y_w]. apply (akeys_map_seq (fun _ => w_init)).
  - cbn [sys_init y_d d_sched]. rewrite Hm. cbn [s_init s_set_nt].
    eexists. split.
    + split.
      * constructor; [reflexivity| | | |].
        -- constructor; cbn [e_set_nt e_init e_numnodes e_nt e_nodes e_n2p e_n2c e_started e_removed e_completed akeys map].
           ++ reflexivity.
           ++ apply aget_init_nt.
           ++ intros n f Ef. split; [exact (init_nt_open c n f Ef)|].
              intros Hd. rewrite (aget_init_nt_dn c n f Ef) in Hd. discriminate.
           ++ intros n [].
           ++ constructor.
           ++ intros n [].
           ++ constructor.
           ++ intros k ids [].
           ++ reflexivity.
           ++ cbn [length]. symmetry. apply Nat.leb_gt. exact Hpos.
           ++ reflexivity.
           ++ intros _ n. reflexivity.
           ++ discriminate.
        -- cbn. intros _ _ n [].
        -- cbn [e_set_nt e_init e_nt]. intros _ n f Ef Hs. rewrite (aget_init_nt_sd c n f Ef) in Hs. discriminate.
        -- cbn. discriminate.
      * cbn. discriminate.
    + intros n w Ew. cbn [sys_init y_w] in Ew.
      assert (Hk : In n (akeys (map (fun n => (n, w_init)) (seq 0 N)))) by (apply ea_keys_get; congruence).
      rewrite (akeys_map_seq (fun _ => w_init)) in Hk. apply in_seq in Hk.
      apply aget_map_const in Ew. subst w.
      assert (Esg : sigs (sys_init c) n = []).
      { unfold sigs. cbn [sys_init y_evq y_up]. rewrite alist_get_map_nil. reflexivity. }
      unfold NEv. rewrite Esg. cbn [sys_init y_down y_d d_active d_shouldstop]. rewrite alist_get_map_nil.
      constructor; cbn [e_set_nt e_init e_nt e_nodes e_n2p e_n2c e_completed akeys map w_init wph prank winbox].
      * destruct (aget n (init_nt c)) as [f|] eqn:Ef.
        -- exists f. split; [reflexivity|]. left. split; [exact (aget_init_nt_sd c n f Ef)|reflexivity].
        -- exfalso. apply (proj2 (aget_init_nt c n)); [lia|exact Ef].
      * reflexivity.
      * apply chan_ok_nil.
      * intros [].
      * intros [].
      * intros F. exfalso. apply F. apply in_seq. lia.
      * intros [[]|F]; discriminate.
      * apply WX_init.
      * intros [F|(b & F)]; discriminate.
      * split; constructor.
  - intros n w Ew. cbn [sys_init y_w] in Ew. apply aget_map_const in Ew. subst w. split; [apply winv_init|exact I].
  - constructor.
  - intros n. cbn [sys_init y_up]. rewrite alist_get_map_nil. split; [constructor|reflexivity].
  - intros n _. cbn [sys_init y_down]. apply alist_get_map_nil.
  - intros _. cbn [sys_init y_d d_active]. destruct N; [lia|]. cbn. discriminate.
  - intros e. cbn. discriminate.
  - cbn. discriminate.
  - intros es n f w Els Ef Hd _. cbn [sys_init y_d d_sched] in Els. rewrite Hm in Els. cbn [s_init s_set_nt] in Els.
    inv Els. cbn [e_set_nt e_nt] in Ef. rewrite (aget_init_nt_dn c n f Ef) in Hd. discriminate.
Qed.

Lemma exited_sdsent comp ss sd K w X :
  WInv w -> wph w = PExited -> stream_ok comp ss sd K (wstr K w ++ X) -> sd = true.
Proof.
  intros I Hp [(_ & E)|[(E & _)|(E & _)]]; try exact E. exfalso.
  pose proof (inv_phase w I) as P. unfold phase_inv in P. rewrite Hp in P.
  destruct P as (pre & lst & Ep & _). unfold wstr in E. rewrite Ep, map_app in E.
  destruct (map snd pre); discriminate.
Qed.

(* the receiver thread marks a node down *)
Lemma EJ_dflag d d' es n f :
  EJc d es -> aget n (e_nt es) = Some f -> n_sdsent f = true ->
  d_sched d' = StE (e_set_nt es (aset n (dflag f) (e_nt es))) ->
  d_shuttingdown d' = d_shuttingdown d -> d_shouldstop d' = d_shouldstop d -> d_active d' = d_active d ->
  EJc d' (e_set_nt es (aset n (dflag f) (e_nt es))).
Proof.
  intros ([Els J Jb Jp Jg] & Jss) Ef Hs Els' S1 S2 S3.
  assert (HnN : n < N) by (apply (ej_ntk _ _ _ J n); congruence).
  split; [|rewrite S1, S2; exact Jss]. constructor.
  - exact Els'.
  - constructor; cbn [e_set_nt e_numnodes e_nt e_nodes e_n2p e_n2c e_started e_removed e_completed]; try apply J.
    + intros k. rewrite ea_get_set. destruct (Nat.eqb k n) eqn:E; [|apply J].
      apply Nat.eqb_eq in E. subst k. split; [auto|discriminate].
    + unfold ntok. cbn [e_set_nt e_nt]. intros k g. rewrite ea_get_set. destruct (Nat.eqb k n) eqn:E; [|apply (ej_ok _ _ _ J)].
      intros X. inv X. cbn. split; [apply (ej_ok _ _ _ J n f Ef)|auto].
    + intros C k Hk. rewrite ea_get_set. destruct (Nat.eqb k n) eqn:E; [|apply (ej_c _ _ _ J C k Hk)].
      eexists. split; [reflexivity|exact Hs].
  - rewrite S1, S2, S3. exact Jb.
  - rewrite S1. cbn [e_set_nt e_nt e_completed]. intros Hsd k g. rewrite ea_get_set.
    destruct (Nat.eqb k n) eqn:E; [|apply (Jp Hsd k g)].
    intros X _. inv X. exact (Jp Hsd n f Ef Hs).
  - rewrite S1, S2. exact Jg.
Qed.

Lemma EJ_same d d' es :
  EJc d es -> d_sched d' = StE es ->
  d_shuttingdown d' = d_shuttingdown d -> d_shouldstop d' = d_shouldstop d -> d_active d' = d_active d ->
  EJc d' es.
Proof.
  intros ([Els J Jb Jp Jg] & Jss) Els' S1 S2 S3. split; [|rewrite S1, S2; exact Jss].
  constructor; [exact Els'|exact J|rewrite S1, S2, S3; exact Jb|rewrite S1; exact Jp|rewrite S1, S2; exact Jg].
Qed.

(* ---- the one-step lemma ---- *)
Lemma step_einv s l s' o w :
  no_crash_label l -> EInv s -> sys_step c s l = Some (s', o, w) -> EInv s'.
Proof.
  intros Hl EI H.
  pose proof EI as [Ed Ek (es & DJd & NIs) Ew Eq Eu Edn Ea Er Efn Edw].
  pose proof DJd as (J0 & Jss). pose proof J0 as [Els J Jb Jp Jg].
  unfold sys_step in H. destruct (y_result s) eqn:Eres; [discriminate|].
  destruct l as [n0|n0|n0|n0| |n0]; [| | | | |contradiction].
  - (* LDeliver *)
    replace (mem_nat n0 (y_dead s)) with false in H by (rewrite Ed; reflexivity).
    destruct (aget n0 (y_down s)) as [[|cmd rest]|] eqn:Edw0; try discriminate.
    destruct (aget n0 (y_w s)) as [w0|] eqn:Ew0; try discriminate.
    fin3 H s' o w.
    assert (Kin : In n0 (akeys (y_w s))) by (apply ea_keys_get; congruence).
    constructor; cbn [y_d y_evq y_down y_up y_w y_dead y_result].
    + exact Ed.
    + rewrite ea_keys_set_in; [exact Ek|exact Kin].
    + exists es. split; [exact DJd|]. intros n w Hw. unfold NEv, sigs.
      cbn [y_d y_down y_evq y_up]. fold (sigs s n).
      destruct (Nat.eq_dec n n0) as [->|Hn].
      * rewrite ea_get_set_eq in Hw. inv Hw. rewrite ea_alist_get_set_eq.
        apply NEI_deliver. pose proof (NIs n0 w0 Ew0) as X. unfold NEv in X.
        rewrite (ea_alist_get_some [] _ _ _ Edw0) in X. exact X.
      * rewrite ea_get_set_neq in Hw by exact Hn. rewrite ea_alist_get_set_neq by exact Hn. apply NIs. exact Hw.
    + intros n w Hw. destruct (Nat.eq_dec n n0) as [->|Hn].
      * rewrite ea_get_set_eq in Hw. inv Hw. destruct (Ew n0 w0 Ew0) as (I1 & I2).
        split; [apply upd_recv_inv; exact I1|]. apply (nogarb_ph _ w0); [reflexivity|exact I2].
      * rewrite ea_get_set_neq in Hw by exact Hn. apply (Ew n w Hw).
    + exact Eq.
    + exact Eu.
    + intros k Hk. destruct (Nat.eq_dec k n0) as [->|Hkn].
      * exfalso. pose proof (worker_ltE s n0 w0 Ek Ew0). lia.
      * rewrite ea_alist_get_set_neq by exact Hkn. apply Edn. exact Hk.
    + exact Ea.
    + intros e. rewrite ?Eres. discriminate.
    + rewrite ?Eres. discriminate.
    + intros es1 n f w Els1 Ef Hd Hw. destruct (Nat.eq_dec n n0) as [->|Hn].
      * rewrite ea_get_set_eq in Hw. inv Hw. destruct (Edw es1 n0 f w0 Els1 Ef Hd Ew0) as (X1 & X2).
        split; [exact X1|]. exact X2.
      * rewrite ea_get_set_neq in Hw by exact Hn. exact (Edw es1 n f w Els1 Ef Hd Hw).
  - (* LRecvW *)
    replace (mem_nat n0 (y_dead s)) with false in H by (rewrite Ed; reflexivity).
    destruct (aget n0 (y_w s)) as [w0|] eqn:Ew0; try discriminate.
    destruct (negb (wcb w0)); [discriminate|].
    destruct (recv_step (c_oracle c n0) w0) as [w' evs] eqn:Es. fin3 H s' o w.
    destruct (Ew _ _ Ew0) as (Iw & NG).
    assert (HnN : n0 < N) by (eapply worker_ltE; eauto).
    destruct (NEI_recv (c_coll c) (c_oracle c n0) _ _ _ _ _ _ _ (Hcoh n0 HnN) (NIs n0 w0 Ew0)) as (Ev & X).
    rewrite Es in Ev, X. cbn [fst snd] in Ev, X. subst evs.
    apply einv_push with (w0 := w0); auto.
    + pose proof (recv_step_inv (c_oracle c n0) w0 Iw) as Y. rewrite Es in Y. exact Y.
    + destruct (recv_step_nogarb _ _ _ _ Es NG) as (Y & _). exact Y.
    + intros es1 Els1 X1. cbn [flat_map]. rewrite app_nil_r.
      assert (es1 = es) by congruence. subst es1. exact X.
    + intros Hex. split; [|reflexivity]. rewrite (proj1 (recv_step_facts _ _ _ _ Es)). exact Hex.
  - (* LMain *)
    replace (mem_nat n0 (y_dead s)) with false in H by (rewrite Ed; reflexivity).
    destruct (aget n0 (y_w s)) as [w0|] eqn:Ew0; try discriminate.
    assert (Hd : dies_now c n0 w0 = false).
    { unfold dies_now. destruct (wph w0); auto. }
    rewrite Hd in H.
    destruct (main_step (c_oracle c n0) w0) as [[w' evs]|] eqn:Es; [|discriminate]. fin3 H s' o w.
    destruct (Ew _ _ Ew0) as (Iw & NG).
    destruct (NEI_main (c_coll c) _ _ _ _ _ _ _ _ _ _ Iw (NIs n0 w0 Ew0) Es) as (X & Hok).
    destruct (main_step_nogarb _ _ _ _ (Hng n0) Es NG) as (NGw & NGe).
    apply einv_push with (w0 := w0); auto.
    + eapply main_step_inv; eauto.
    + intros es1 Els1 X1. assert (es1 = es) by congruence. subst es1. exact X.
    + intros Hex. exfalso. exact (main_step_not_exited _ _ _ _ Es Hex).
  - (* LRecv *)
    destruct (aget n0 (y_up s)) as [[|m rest]|] eqn:Eup; try discriminate.
    cbn [y_d] in H.
    destruct (process_from_remote n0 m (y_d s)) as [[d' outs] r] eqn:Ep.
    destruct (Eu n0) as (Eu1 & Eu2). rewrite (ea_alist_get_some [] _ _ _ Eup) in Eu1, Eu2.
    inversion Eu1 as [|m2 r2 Gm3 Gr3]; subst.
    assert (HnN : n0 < N).
    { destruct (Nat.lt_ge_cases n0 N) as [X|X]; [exact X|]. specialize (Eu2 X). discriminate. }
    destruct (aget n0 (e_nt es)) as [f|] eqn:Ef.
    2:{ exfalso. apply (proj2 (ej_ntk _ _ _ J n0)); [exact HnN|exact Ef]. }
    destruct (worker_knownE s n0 Ek HnN) as (wn & Ewn).
    assert (Hdn : n_down f = true -> up_sig m = []).
    { intros Hd. destruct (Edw es n0 f wn Els Ef Hd Ewn) as (X & _).
      rewrite (ea_alist_get_some [] _ _ _ Eup) in X. cbn [flat_map] in X. apply app_eq_nil in X. tauto. }
    destruct (pfr_effE _ _ _ _ _ _ _ _ Els Ef Gm3 HnN Hdn Ep)
      as (-> & evs & es' & -> & Els' & Hsig & Hok3 & S1 & S2 & S3 & Hes).
    cbn [apply_outs] in H. unfold close_if_dead in H. cbn [set_evq set_d y_dead] in H.
    replace (mem_nat n0 (y_dead s)) with false in H by (rewrite Ed; reflexivity).
    fin3 H s' o w.
    assert (CASE : EJc d' es' /\
      (forall k g, aget k (e_nt es) = Some g -> exists g', aget k (e_nt es') = Some g' /\ n_sdsent g' = n_sdsent g) /\
      e_n2p es' = e_n2p es /\ e_n2c es' = e_n2c es /\ e_completed es' = e_completed es /\
      (forall k g', aget k (e_nt es') = Some g' -> n_down g' = true ->
         (exists g, aget k (e_nt es) = Some g /\ n_down g = true) \/ (k = n0 /\ exists b, m = UEv (EFinished b)))).
    { destruct Hes as [->|((b & ->) & Hd0 & ->)].
      - split; [eapply EJ_same; eauto|]. split; [intros k g Eg; exists g; auto|].
        split; [reflexivity|]. split; [reflexivity|]. split; [reflexivity|].
        intros k g' Eg' Hd. left. exists g'. auto.
      - assert (Hs : n_sdsent f = true).
        { pose proof (NIs n0 wn Ewn) as X. pose proof (ne_chan _ _ _ _ _ _ _ _ X) as Ch. unfold sigs in Ch.
          rewrite (ea_alist_get_some [] _ _ _ Eup) in Ch. cbn [flat_map up_sig we_sig app] in Ch.
          destruct (chan_ok_fin_mid _ _ _ _ Ch) as (_ & Y). apply prank_4 in Y.
          destruct (ne_flags _ _ _ _ _ _ _ _ X) as (f1 & Ef1 & Mk). assert (f1 = f) by congruence. subst f1.
          eapply exited_sdsent; [exact (proj1 (Ew n0 wn Ewn))|exact Y|exact Mk]. }
        split; [eapply EJ_dflag; eauto|].
        cbn [e_set_nt e_nt e_n2p e_n2c e_completed].
        split.
        { intros k g Eg. rewrite ea_get_set. destruct (Nat.eqb k n0) eqn:E; [|exists g; auto].
          apply Nat.eqb_eq in E. subst k. assert (g = f) by congruence. subst g. eexists. split; reflexivity. }
        split; [reflexivity|]. split; [reflexivity|]. split; [reflexivity|].
        intros k g'. rewrite ea_get_set. destruct (Nat.eqb k n0) eqn:E.
        + apply Nat.eqb_eq in E. intros _ _. right. split; [exact E|]. exists b. reflexivity.
        + intros Eg' Hd. left. exists g'. auto. }
    destruct CASE as (DJ' & FL & P1 & P2 & P3 & DN).
    constructor; cbn [set_evq set_d y_d y_evq y_down y_up y_w y_dead y_result].
    + exact Ed.
    + exact Ek.
    + exists es'. split; [exact DJ'|].
      intros n w Hw. unfold NEv, sigs. cbn [set_evq set_d y_d y_down y_evq y_up]. rewrite S3, S2.
      assert (Esg : evq_sigs n (y_evq s ++ evs) ++ flat_map up_sig (alist_get [] n (aset n0 rest (y_up s))) = sigs s n).
      { unfold sigs. rewrite evq_sigs_app, Hsig. destruct (Nat.eqb n0 n) eqn:E0.
        - apply Nat.eqb_eq in E0. subst n. rewrite ea_alist_get_set_eq, (ea_alist_get_some [] _ _ _ Eup).
          cbn [flat_map]. rewrite <- app_assoc. reflexivity.
        - apply Nat.eqb_neq in E0. rewrite ea_alist_get_set_neq by congruence. rewrite app_nil_r. reflexivity. }
      rewrite Esg. apply (NEI_flags_ext (c_coll c) es es'); [intros g Eg; apply FL; exact Eg|exact P1|exact P2|exact P3|].
      apply NIs. exact Hw.
    + exact Ew.
    + apply Forall_app. split; [exact Eq|exact Hok3].
    + intros k. destruct (Nat.eq_dec k n0) as [->|Hk].
      * rewrite ea_alist_get_set_eq. split; [exact Gr3|intros; lia].
      * rewrite ea_alist_get_set_neq by exact Hk. apply Eu.
    + exact Edn.
    + rewrite S3. exact Ea.
    + intros e. rewrite ?Eres. discriminate.
    + rewrite ?Eres. discriminate.
    + intros es1 n f' w Els1 Ef' Hd Hw. assert (es1 = es') by congruence. subst es1.
      destruct (DN n f' Ef' Hd) as [(g & Eg & Hdg)|(-> & (b & ->))].
      * destruct (Edw es n g w Els Eg Hdg Hw) as (X & Y). split; [|exact Y].
        destruct (Nat.eq_dec n n0) as [->|Hn].
        -- rewrite ea_alist_get_set_eq. rewrite (ea_alist_get_some [] _ _ _ Eup) in X. cbn [flat_map] in X.
           apply app_eq_nil in X. tauto.
        -- rewrite ea_alist_get_set_neq by exact Hn. exact X.
      * rewrite ea_alist_get_set_eq. assert (w = wn) by congruence. subst w.
        pose proof (ne_chan _ _ _ _ _ _ _ _ (NIs n0 wn Ewn)) as Ch. unfold sigs in Ch.
        rewrite (ea_alist_get_some [] _ _ _ Eup) in Ch. cbn [flat_map up_sig we_sig app] in Ch.
        destruct (chan_ok_fin_mid _ _ _ _ Ch) as (X & Y). split; [exact X|apply prank_4; exact Y].
  - (* LCtl *)
    specialize (Ea eq_refl).
    destruct (d_active (y_d s)) as [|a0 ar] eqn:Eact; [contradiction|].
    destruct (y_evq s) as [|ev q] eqn:Eevq; [discriminate|].
    inversion Eq as [|ev2 q2 Gev3 Gq3]; subst.
    destruct (d_loop_once ev (y_d s)) as [[d' outs] r] eqn:El.
    assert (Hpre : PREe N (c_coll c) ev (y_d s) es).
    { eapply pre_from_invE; eauto. }
    assert (Hact : d_active (y_d s) <> []) by (rewrite Eact; discriminate).
    destruct (loop_once_okE N (c_coll c) ev (y_d s) es d' outs r DJd Hact Hpre El) as (-> & es' & LE).
    pose proof (loop_once_nospawnE _ _ _ _ _ (ok_evE_not_death _ Gev3) El) as Go.
    set (s1 := apply_outs (set_d (set_evq s q) d') outs) in *.
    assert (CORE : forall rr, (forall e, rr <> Some (RError e)) ->
                   (rr = None -> d_active d' <> []) ->
                   (rr = Some RFinished -> d_session_finished d' = true /\ d_shouldstop d' = false) ->
                   EInv (set_result s1 rr)).
    { intros rr Hr Ha Hf. unfold s1. eapply ctl_coreE; eauto. }
    destruct (d_session_finished d') eqn:Efin.
    + fin3 H s' o w. apply CORE.
      * intros e. destruct (d_shouldstop d'); discriminate.
      * destruct (d_shouldstop d'); discriminate.
      * destruct (d_shouldstop d'); [discriminate|]. intros _. split; reflexivity.
    + destruct (d_active d') as [|b0 br] eqn:Eact'.
      * exfalso. pose proof (le_fin _ _ _ _ _ _ _ _ LE) as Hf. rewrite Eact' in Hf. specialize (Hf eq_refl).
        unfold d_session_finished in Efin. rewrite Hf, Eact' in Efin. discriminate.
      * fin3 H s' o w.
        assert (Er1 : y_result s1 = None).
        { unfold s1. destruct (apply_outs_each outs (set_d (set_evq s q) d')) as (_ & _ & _ & _ & _ & R & _); [exact Ed|exact Go|].
          rewrite R. cbn. exact Eres. }
        rewrite <- (set_result_same s1 None Er1). apply CORE.
        -- intros e. discriminate.
        -- intros _. discriminate.
        -- discriminate.
Qed.

(* ---- every schedule ---- *)
Lemma einv_run ls :
  c_mode c = MEach -> 0 < N -> Forall no_crash_label ls -> EInv (sys_run c ls).
Proof.
  intros Hm Hpos Hls. unfold sys_run.
  assert (G : forall s, EInv s ->
     EInv (fold_left (fun s l => match sys_step c s l with Some (s', _, _) => s' | None => s end) ls s)).
  { induction Hls as [|l ls Hl Hls IH]; intros s Hs; cbn [fold_left]; [exact Hs|].
    apply IH. destruct (sys_step c s l) as [[[s' o] w]|] eqn:E; [|exact Hs].
    eapply step_einv; eauto. }
  apply G. apply EInv_init; assumption.
Qed.

End SysE.

(* ====================================================================================== *)
(* Part F: C08 -- the theorems                                                             *)
(*                                                                                          *)
(* Hypotheses: each mode; no worker failure (c_crash_in constantly false, no LCrash label,   *)
(* no undecodable report: no_garbled c); at least one worker; and                            *)
(*  (H-coh) the test oracle of worker n enumerates as many items as worker n reported:       *)
(*        forall n, n < c_numnodes c -> ncollected (c_oracle c n) = length (c_coll c n).     *)
(*     Reason: CRunAll makes the worker queue range(len(session.items)) = 0..ncollected-1,   *)
(*     while the controller books range(len(reported collection)).  The two numbers are two  *)
(*     fields of the configuration record; config_of_sx always builds them equal.  When they *)
(*     differ, safety (1) and never-raises (3) are both false: see each_ex_incoherent_*.     *)
(* NOT needed: that the workers agree on their collections; that no test id is empty; any    *)
(* condition on stop requests / --maxfail (a stop request makes the session end as            *)
(* "interrupted", which (2) does not speak about; (1) and (3) hold all the same).            *)
(* ====================================================================================== *)
Lemma ea_in_aget {V} n (v : V) m : NoDup (akeys m) -> In (n, v) m -> aget n m = Some v.
Proof.
  induction m as [|[k x] m IH]; intros ND Hin; [destruct Hin|].
  cbn [akeys map fst] in ND. inversion ND as [|k' l' Hn ND']; subst. cbn [aget].
  destruct Hin as [E|Hin].
  - inversion E; subst. rewrite Nat.eqb_refl. reflexivity.
  - destruct (Nat.eqb n k) eqn:Enk.
    + apply Nat.eqb_eq in Enk. subst k. exfalso. apply Hn. unfold akeys.
      change n with (fst (n, v)). apply in_map. exact Hin.
    + apply IH; assumption.
Qed.

Definition each_book (s : sys) (n : nat) : list nat :=
  match d_sched (y_d s) with StE es => alist_get [] n (e_n2p es) | _ => [] end.
Definition each_owed (c : config) (s : sys) (n : nat) : list nat :=
  completes (sigs s n) ++
  match aget n (y_w s) with Some w => owedE (length (c_coll c n)) w | None => [] end ++
  flat_map (cinds (c_coll c) n) (alist_get [] n (y_down s)).

Section EachMain.
  Variable c : config.
  Variable ls : list label.
  Hypothesis Hmode : c_mode c = MEach.
  Hypothesis Hnocrash : forall n i, c_crash_in c n i = false.
  Hypothesis Hnogarbled : no_garbled c.
  Hypothesis Hcoh : forall n, n < c_numnodes c -> ncollected (c_oracle c n) = length (c_coll c n).
  Hypothesis Hsched : Forall no_crash_label ls.
  Hypothesis Hnodes : 0 < c_numnodes c.

  Let s := sys_run c ls.

  Lemma run_einv : EInv c s.
  Proof. apply einv_run; assumption. Qed.

  (* (3) the controller never raises *)
  Theorem each_controller_never_raises : forall e, y_result s <> Some (RError e).
  Proof. exact (ei_res _ _ run_einv). Qed.

  (* the workers are exactly the initial ones: nothing is ever respawned *)
  Theorem each_workers : akeys (y_w s) = seq 0 (c_numnodes c).
  Proof. exact (ei_keys _ _ run_einv). Qed.

  (* (1) safety, every reachable state: the tests worker n has started are an initial segment of
     0 .. len(collection of n) - 1 -- its own tests, in collection order, none twice, none skipped *)
  Theorem each_started_prefix : forall n w,
    aget n (y_w s) = Some w ->
    exists rest, seq 0 (length (c_coll c n)) = map (fun r => snd (fst r)) (wran w) ++ rest.
  Proof.
    intros n w Hw. destruct run_einv as [_ _ (es & _ & NIs) Ew _ _ _ _ _ _ _].
    destruct (ne_flags _ _ _ _ _ _ _ _ (NIs n w Hw)) as (f & _ & Mk).
    exact (stream_prefix_safe _ _ _ _ _ _ (proj1 (Ew n w Hw)) Mk).
  Qed.

  Corollary each_started_prefix_in : forall n w,
    In (n, w) (y_w s) ->
    exists rest, seq 0 (length (c_coll c n)) = map (fun r => snd (fst r)) (wran w) ++ rest.
  Proof.
    intros n w Hin. apply each_started_prefix. apply ea_in_aget; [|exact Hin].
    rewrite each_workers. apply seq_NoDup.
  Qed.

  (* hence: no test twice, and only collected tests *)
  Corollary each_started_at_most_once : forall n w,
    aget n (y_w s) = Some w ->
    NoDup (map (fun r => snd (fst r)) (wran w)) /\
    forall i, In i (map (fun r => snd (fst r)) (wran w)) -> i < length (c_coll c n).
  Proof.
    intros n w Hw. destruct (each_started_prefix n w Hw) as (rest & E). split.
    - apply (nodup_app_l _ rest). rewrite <- E. apply seq_NoDup.
    - intros i Hi. assert (X : In i (seq 0 (length (c_coll c n)))) by (rewrite E; apply in_or_app; left; exact Hi).
      apply in_seq in X. lia.
  Qed.

  (* (2) completeness at the end: when the session ends as "finished", every initial worker has
     started exactly 0 .. len(its collection) - 1 *)
  Theorem each_finished_all_run :
    y_result s = Some RFinished ->
    forall n, n < c_numnodes c ->
    exists w, aget n (y_w s) = Some w /\
              map (fun r => snd (fst r)) (wran w) = seq 0 (length (c_coll c n)).
  Proof.
    intros Hfin n Hn. destruct run_einv as [_ Ek (es & _ & NIs) Ew _ _ _ _ _ Efn _].
    destruct (Efn Hfin) as (Hsf & Hss).
    unfold d_session_finished in Hsf. apply andb_true_iff in Hsf. destruct Hsf as (_ & Hact).
    assert (Eact : d_active (y_d s) = []) by (destruct (d_active (y_d s)); [reflexivity|discriminate]).
    destruct (worker_knownE c s n Ek Hn) as (w & Hw). exists w. split; [exact Hw|].
    pose proof (NIs n w Hw) as X. unfold NEv in X. rewrite Eact, Hss in X.
    destruct (ne_act _ _ _ _ _ _ _ _ X (fun F => F)) as (EL & Hp). rewrite EL in X.
    destruct (Ew n w Hw) as (Iw & _).
    assert (MP : markpopped w).
    { destruct (ne_fx _ _ _ _ _ _ _ _ X (or_introl Hp)) as [M|[M|[M|M]]]; [exact M|congruence|destruct M|discriminate]. }
    destruct (ne_flags _ _ _ _ _ _ _ _ X) as (f & _ & Mk).
    destruct Mk as [(_ & E)|[(_ & _ & E)|(_ & E & _)]].
    - exfalso. destruct MP as (pre & t & Ep). unfold wstr in E. rewrite Ep, map_app in E.
      destruct (map snd pre); discriminate.
    - discriminate.
    - exact (exited_full_all_run _ _ _ Iw Hp MP E).
  Qed.

  (* (4) the book coupling of the each scheduler: node2pending[n] is, in order, the completions
     in flight ++ what the worker's main thread holds ++ its queue ++ the rest of the command being
     unpacked ++ its inbox ++ the commands on its wire *)
  Theorem each_coupling : forall n, n < c_numnodes c -> each_book s n = each_owed c s n.
  Proof.
    intros n Hn. destruct run_einv as [_ Ek (es & DJd & NIs) _ _ _ _ _ _ _ _].
    destruct DJd as (J0 & _). pose proof (ej_sched _ _ _ _ J0) as Els.
    destruct (worker_knownE c s n Ek Hn) as (w & Hw).
    unfold each_book, each_owed. rewrite Els, Hw. exact (ne_coupled _ _ _ _ _ _ _ _ (NIs n w Hw)).
  Qed.
End EachMain.

Print Assumptions each_started_prefix.
Print Assumptions each_finished_all_run.
Print Assumptions each_controller_never_raises.
Print Assumptions each_coupling.
Check each_started_prefix.
Check each_started_prefix_in.
Check each_started_at_most_once.
Check each_finished_all_run.
Check each_controller_never_raises.
Check each_workers.
Check each_coupling.

(* ====================================================================================== *)
(* Non-vacuity and the necessity of the side conditions: concrete sessions, evaluated      *)
(* ====================================================================================== *)
Open Scope string_scope.
Definition each_oracle (k : nat) (stops : list nat) : oracle :=
  {| reports_of := fun _ => [Passed]; stops_after := fun i => mem_nat i stops; ncollected := k; coll_reports := [] |}.
Definition each_cfg_gen (nodes : nat) (coll : nat -> list string) (orc : nat -> oracle) : config :=
  {| c_mode := MEach; c_numnodes := nodes; c_chunk := None; c_maxfail := 0%Z; c_max_restart := Some 4%Z;
     c_requeue := 0; c_coll := coll; c_oracle := orc;
     c_dur := fun _ => 0%Z; c_crash_in := fun _ _ => false; c_strict := false; c_spec := fun _ => 0 |}.
(* the workers collect DIFFERENT lists: worker 1 four tests, every other worker three *)
Definition coll34 (n : nat) : list string := if Nat.eqb n 1 then ["a"; "b"; "c"; "d"] else ["x"; "y"; "z"].
Definition each_cfg : config := each_cfg_gen 2 coll34 (fun n => each_oracle (length (coll34 n)) []).

Definition each_round : list label :=
  [LMain 0; LMain 0; LMain 1; LRecvW 0; LDeliver 0; LRecv 0; LCtl; LMain 0; LRecv 1; LRecvW 1; LDeliver 1;
   LRecv 0; LCtl].
Definition each_full : list label := c01_rep 40 each_round.
(* per worker: (id, indices started, phase); session result *)
Definition each_view (s : sys) :=
  (map (fun p => (fst p, ran_idx (snd p), wph (snd p))) (y_w s), y_result s).
(* the parts of the coupling for node n: book; completes on the controller's queue, on the wire up;
   started, held by the main thread, queued, rest of the command being unpacked, inbox; wire down *)
Definition each_parts (s : sys) (n : nat) :=
  (each_book s n,
   (completes (evq_sigs n (y_evq s)), completes (flat_map up_sig (alist_get [] n (y_up s)))),
   match aget n (y_w s) with
   | Some w => (ran_idx w, owed_main w, ents_idx (wq w), item_inds (wrpend w), winbox w)
   | None => ([], [], [], [], []) end,
   alist_get [] n (y_down s)).

(* (a) a complete session: "finished"; worker 0 ran its 3 tests, worker 1 its 4, each in order *)
Example each_ex_finished :
  let s := sys_run each_cfg each_full in
  y_result s = Some RFinished /\
  each_view s = ([(0, [0; 1; 2], PExited); (1, [0; 1; 2; 3], PExited)], Some RFinished).
Proof. vm_compute. split; reflexivity. Qed.

(* (b) a mid-run state: both collections are in and schedule() has run.  Worker 0's two commands are
   still on its wire; worker 1 has started tests 0 and 1: the completion of 0 is on the controller's
   queue, that of 1 on the wire, 2 is held by the main thread (it waits for its successor), 3 is
   still being unpacked by the receiver thread, the shutdown command is still on the wire down *)
Definition each_dist : list label :=
  (c01_rep 4 [LMain 0] ++ c01_rep 4 [LMain 1] ++ c01_rep 3 [LRecv 0] ++ c01_rep 3 [LRecv 1] ++ c01_rep 4 [LCtl])%list.
Definition each_mid : list label :=
  (each_dist ++ [LDeliver 1; LMain 1] ++ c01_rep 3 [LRecvW 1] ++ c01_rep 6 [LMain 1] ++ c01_rep 4 [LRecv 1] ++
   c01_rep 5 [LMain 1] ++ c01_rep 3 [LCtl])%list.
Example each_ex_mid :
  let s := sys_run each_cfg each_mid in
  each_parts s 0 = ([0; 1; 2], ([], []), ([], [], [], [], []), [CRunAll; CShutdown]) /\
  each_parts s 1 = ([0; 1; 2; 3], ([0], [1]), ([0; 1], [2], [], [3], []), [CShutdown]) /\
  y_result s = None.
Proof. vm_compute. repeat split. Qed.

(* the hypotheses of the theorems hold of these sessions, so the theorems are not vacuous *)
Lemma each_cfg_hyps :
  c_mode each_cfg = MEach /\ (forall n i, c_crash_in each_cfg n i = false) /\ no_garbled each_cfg /\
  (forall n, n < c_numnodes each_cfg -> ncollected (c_oracle each_cfg n) = length (c_coll each_cfg n)) /\
  0 < c_numnodes each_cfg.
Proof.
  split; [reflexivity|]. split; [reflexivity|]. split.
  - intros n i H. cbn in H. destruct H as [H|[]]. discriminate.
  - split; [intros n _; reflexivity|cbn; lia].
Qed.

Example each_ex_theorems_apply :
  let s := sys_run each_cfg each_full in
  (forall e, y_result s <> Some (RError e)) /\
  (forall n w, aget n (y_w s) = Some w ->
     exists rest, seq 0 (length (c_coll each_cfg n)) = (map (fun r => snd (fst r)) (wran w) ++ rest)%list) /\
  (forall n, n < 2 -> exists w, aget n (y_w s) = Some w /\
     map (fun r => snd (fst r)) (wran w) = seq 0 (length (c_coll each_cfg n))) /\
  (forall n, n < 2 -> each_book s n = each_owed each_cfg s n).
Proof.
  cbv zeta. destruct each_cfg_hyps as (H1 & H2 & H3 & H4 & H5).
  assert (H6 : Forall no_crash_label each_full) by (vm_compute; repeat constructor).
  split; [apply each_controller_never_raises; assumption|].
  split; [apply each_started_prefix; assumption|].
  split; [exact (each_finished_all_run each_cfg each_full H1 H2 H3 H4 H6 H5 (proj1 each_ex_finished))|].
  exact (each_coupling each_cfg each_full H1 H2 H3 H4 H6 H5).
Qed.
Print Assumptions each_ex_theorems_apply.

Example each_ex_theorems_apply_mid :
  let s := sys_run each_cfg each_mid in
  (forall e, y_result s <> Some (RError e)) /\
  (forall n w, aget n (y_w s) = Some w ->
     exists rest, seq 0 (length (c_coll each_cfg n)) = (map (fun r => snd (fst r)) (wran w) ++ rest)%list) /\
  (forall n, n < 2 -> each_book s n = each_owed each_cfg s n).
Proof.
  cbv zeta. destruct each_cfg_hyps as (H1 & H2 & H3 & H4 & H5).
  assert (H6 : Forall no_crash_label each_mid) by (vm_compute; repeat constructor).
  split; [apply each_controller_never_raises; assumption|].
  split; [apply each_started_prefix; assumption|].
  exact (each_coupling each_cfg each_mid H1 H2 H3 H4 H6 H5).
Qed.

(* (c) why (H-coh) is there.  Worker 0 reports 3 tests but its `runtests_all` enumerates 5: it starts
   the indices 3 and 4, which are not in its collection, and the completion of 3 makes
   mark_test_complete raise ValueError (the index is not in node2pending) *)
Example each_ex_incoherent_more :
  each_view (sys_run (each_cfg_gen 2 coll34 (fun n => each_oracle (if Nat.eqb n 0 then 5 else 4) [])) each_full) =
  ([(0, [0; 1; 2; 3; 4], PExited); (1, [0; 1], PGot (2, 2) (3, Idx 3))], Some (RError EValue)).
Proof. vm_compute. reflexivity. Qed.
(* ... and when it enumerates only 2, test 2 is never run and `assert not crashitem` fails when the
   worker's "finished" is handled with index 2 still in its book *)
Example each_ex_incoherent_less :
  each_view (sys_run (each_cfg_gen 2 coll34 (fun n => each_oracle (if Nat.eqb n 0 then 2 else 4) [])) each_full) =
  ([(0, [0; 1], PExited); (1, [0], PGot (1, 1) (2, Idx 2))], Some (RError EAssert)).
Proof. vm_compute. reflexivity. Qed.

(* (d) a stop request (worker 1's own session asks to stop after test 1): no exception, the session
   ends as "interrupted", worker 1 has started only a prefix of its collection -- (1) and (3) hold,
   (2) does not apply *)
Example each_ex_stop :
  each_view (sys_run (each_cfg_gen 2 coll34 (fun n => each_oracle (length (coll34 n)) (if Nat.eqb n 1 then [1] else [])))
                     each_full) =
  ([(0, [0; 1; 2], PExited); (1, [0; 1], PExited)], Some RInterrupted).
Proof. vm_compute. reflexivity. Qed.

(* (e) the side condition of "the controller never raises": with no worker at all the very first
   turn of the controller loop ends the session with RuntimeError("no active workers") *)
Example each_ex_no_workers :
  y_result (sys_run (each_cfg_gen 0 coll34 (fun n => each_oracle (length (coll34 n)) [])) [LCtl]) =
  Some (RError ERuntimeNoWorkers).
Proof. vm_compute. reflexivity. Qed.

(* (f) why no_garbled is there: an undecodable report of worker 0 (test 1) makes the receiver thread
   write worker 0 off, although it lives on and finishes its whole collection; the replacement
   worker 2 is handed the rest of its book, [2], and runs test 2 A SECOND TIME.  The session still ends
   as "finished".  (The started list of worker 2 is not an initial segment of its collection.) *)
Definition each_garb_oracle (n : nat) : oracle :=
  {| reports_of := fun i => if Nat.eqb n 0 && Nat.eqb i 1 then [Garbled] else [Passed];
     stops_after := fun _ => false; ncollected := length (coll34 n); coll_reports := [] |}.
Definition each_round3 : list label :=
  (each_round ++ [LMain 2; LRecvW 2; LDeliver 2; LRecv 2; LCtl])%list.
Example each_ex_garbled :
  each_view (sys_run (each_cfg_gen 2 coll34 each_garb_oracle) (c01_rep 60 each_round3)) =
  ([(0, [0; 1; 2], PExited); (1, [0; 1; 2; 3], PExited); (2, [2], PExited)], Some RFinished).
Proof. vm_compute. reflexivity. Qed.
Close Scope string_scope.

Print Assumptions loop_once_okE.
Print Assumptions step_einv.
Print Assumptions einv_run.
Check loop_once_okE.
Check step_einv.
Check einv_run.
