(* CrashTerminationScope.v -- property C02 ("the distributed session always terminates"), the termination half,
   for the scope family of schedulers (--dist loadscope / loadfile / loadgroup: mode [MScope kind]) WITH worker
   failures and a FINITE restart budget (c_max_restart c = Some b).  The architecture is that of
   CrashTermination.v (--dist load); the no-stand-off half is CrashProgressScope.v.

   Measure.  measS c s = (Kx (y_d s), muxS c s), ordered lexicographically (CrashTermination.lexlt):
     Kx d   = number of active nodes + remaining restart budget (CrashTermination.Kx): the number of worker
              deaths the controller can still see;
     muxS   = the potential of TerminationScope.muS adapted to crashes the way CrashTermination.mux adapts mu:
              * the work queue is priced test by test: every not-completed test of a unit in the queue costs
                CrashTermination.pcostx c W i = 4 + the cost of running it on ANY worker id that can ever exist
                (W = Wd d = group counter + remaining budget); as long as the scheduler has fixed no collection
                the queue is priced as every worker's whole collection (prepoolx) -- so the measure does not
                depend on the collection the invariant XInvC is stated for;
              * the shutdown command every worker process is still to be sent (TerminationScope.sdnS);
              * the controller's event queue; per worker process ever started CrashTermination.nodepotx (wire up,
                and for a live worker its wire down and its state; a dead worker never moves again).
   step_lexS / scope_crash_c02_measure: in every reachable state, every enabled move that is USEFUL
   (Progress.useful) or a CRASH (LCrash n at any moment, or a main-thread step into a test with c_crash_in)
   either ends the session or makes the measure strictly smaller: Kx goes down when the controller handles an
   errordown (the only step at which muxS may go up: the dead node's units return to the work queue, a
   replacement boots); every other useful move and every crash makes muxS smaller and leaves Kx alone (or
   smaller: workerfinished).
   scope_crash_c02_terminates   from a reachable state there is no infinite schedule of useful moves and crashes.
   scope_crash_c02_bounded      from a reachable state the runs of useful moves and crashes have bounded length
                                (well-founded order + finite branching).
   scope_crash_c02_bound        (part E) an EXPLICIT bound: PhiS c s = muxS c s + Kx * (weight of all not-completed
                                tests, queue and books) + boot costs of the workers that may still be started;
                                every useful move and every crash makes PhiS strictly smaller (step_phiS), so a run
                                of useful moves and crashes from a reachable state s is at most PhiS c s + 1 long.
   scope_crash_c02_maximal_run_ends (from CrashProgressScope): a run that cannot be extended by a useful non-crash
                                move has ended the session.
   Hypotheses: c_mode c = MScope kind, no_garbled c, 0 < c_numnodes c, c_requeue c = 0 (the scope schedulers do
   not implement mark_test_pending), c_max_restart c = Some b.  Nothing else: any schedule, any c_crash_in,
   c_strict, stop requests, --maxfail, ANY collections (the workers, replacements included, need not agree).
   For c_max_restart c = None the statement is false (example cts_ex_unbounded_restarts, the recorded C10 finding).

   What is new below CrashScope.HEFFx (the exact effect of one controller turn):
     part A  the scope scheduler and the controller never send an EMPTY run command -- every unit in the work
             queue has a test left to run (invariant WQP: units are queued with all tests pending, and come back
             from a removed node only when a test is left) -- proved by a small Hoare logic (sfrom/sspec) through
             every scheduler operation, every handler, every label; needed because a command costs two moves
             (wire, receiver thread) that its tests pay for;
     part B  what a turn sends (virtually) is paid for by the work queue: pure arithmetic from the token
             conservation hx_tok / hx_tok0 and the books hx_bk of HEFFx (pool_step);
     part C  the measure; crash, channel closing, controller turns (muxS_ctl, loop_KS);
     part D  step_lexS and the theorems;  part E  the explicit bound;  then examples. *)
From XV Require Import Base Worker Ctl SchedLoad SchedSteal SchedScope SchedEach Sched DSession System
  NoHook DSessionProofs WorkerProofs LoadProofs FifoProofs ExactlyOnce ScopeProofs Coupling ScopeSystem
  ScopeCoupling CrashCoupling CrashTheorems CrashTokens CrashScope CrashScopeTheorems CrashProgressScope.
From XV Require LivenessLaws Progress Termination CrashProgress CrashTermination TerminationScope.
From Coq Require Import Permutation.
Open Scope nat_scope.
Import Termination.
Import Progress.
Import DSessionProofs.
Import CrashTermination.

(* ###################################### part A ###################################### *)
(* ====================================================================================== *)
(* A.1 a small logic: a state predicate kept, every output satisfies Q                     *)
(* ====================================================================================== *)
Section SLogic.
  Context {S : Type}.
  Variable P : S -> Prop.
  Variable Q : out -> Prop.

  Definition sfrom {A} (s0 : S) (m : M S A) : Prop :=
    forall s' o r, m s0 = (s', o, r) -> P s' /\ Forall Q o.
  Definition sspec {A} (m : M S A) : Prop := forall s0, P s0 -> sfrom s0 m.

  Lemma sf_ret {A} s0 (a : A) : P s0 -> sfrom s0 (ret a).
  Proof. intros H s' o r E. inversion E; subst. split; [exact H|constructor]. Qed.
  Lemma sf_raise {A} s0 e : P s0 -> sfrom s0 (@raise S A e).
  Proof. intros H s' o r E. inversion E; subst. split; [exact H|constructor]. Qed.
  Lemma sf_massert s0 b : P s0 -> sfrom s0 (@massert S b).
  Proof. destruct b; [apply sf_ret|apply sf_raise]. Qed.
  Lemma sf_of_opt {A} s0 (x : option A) e : P s0 -> sfrom s0 (@of_opt S A x e).
  Proof. destruct x; [apply sf_ret|apply sf_raise]. Qed.
  Lemma sf_emit s0 x : P s0 -> Q x -> sfrom s0 (@emit S x).
  Proof. intros H Hx s' o r E. inversion E; subst. split; [exact H|constructor; [exact Hx|constructor]]. Qed.
  Lemma sf_put s0 s1 : P s1 -> sfrom s0 (put s1).
  Proof. intros H s' o r E. inversion E; subst. split; [exact H|constructor]. Qed.
  Lemma sf_bind {A B} s0 (m : M S A) (f : A -> M S B) :
    sfrom s0 m -> (forall a s1, P s1 -> sfrom s1 (f a)) -> sfrom s0 (mbind m f).
  Proof.
    intros Hm Hf s' o r E. unfold mbind in E.
    destruct (m s0) as [[s1 o1] r1] eqn:E1. destruct (Hm _ _ _ E1) as (P1 & Q1).
    destruct r1 as [a|e].
    - destruct (f a s1) as [[s2 o2] r2] eqn:E2. destruct (Hf a s1 P1 _ _ _ E2) as (P2 & Q2).
      inversion E; subst. split; [exact P2|apply Forall_app; auto].
    - inversion E; subst. auto.
  Qed.
  Lemma sf_get {B} s0 (k : S -> M S B) : sfrom s0 (k s0) -> sfrom s0 (mbind get k).
  Proof.
    intros Hk s' o r E. unfold mbind, get in E.
    destruct (k s0 s0) as [[s2 o2] r2] eqn:E2. inversion E; subst. apply (Hk _ _ _ E2).
  Qed.
  Lemma sf_ret_bind {A B} s0 (a : A) (k : A -> M S B) : sfrom s0 (k a) -> sfrom s0 (mbind (ret a) k).
  Proof.
    intros Hk s' o r E. unfold mbind, ret in E.
    destruct (k a s0) as [[s2 o2] r2] eqn:E2. inversion E; subst. apply (Hk _ _ _ E2).
  Qed.
  Lemma sf_raise_bind {A B} s0 e (k : A -> M S B) : P s0 -> sfrom s0 (mbind (raise e) k).
  Proof. intros H s' o r E. inversion E; subst. split; [exact H|constructor]. Qed.
  Lemma sf_mfor {A} (l : list A) (f : A -> M S unit) : (forall a, sspec (f a)) -> sspec (mfor l f).
  Proof.
    intros Hf. induction l as [|x l IH]; intros s0 H0; cbn [mfor]; [apply sf_ret; exact H0|].
    apply sf_bind; [apply Hf; exact H0|intros _ s1 H1; apply IH; exact H1].
  Qed.
End SLogic.

(* goal-directed decomposition; the hypothesis that P holds of the current state is kept in the context *)
Ltac sl1 :=
  first
    [ apply sf_ret; assumption | apply sf_raise; assumption | apply sf_massert; assumption
    | apply sf_of_opt; assumption
    | match goal with |- sfrom _ _ _ (mbind get _) => apply sf_get end
    | match goal with |- sfrom _ _ _ (mbind _ _) => apply sf_bind; [|intros ? ? ?] end
    | progress cbv zeta
    | match goal with
      | H : sspec _ _ ?m |- sfrom _ _ _ ?m => apply H; assumption
      | |- sfrom _ _ _ (match ?x with _ => _ end) => destruct x eqn:?
      | |- sfrom _ _ _ (if ?x then _ else _) => destruct x eqn:?
      end ].
Ltac sls := repeat sl1.

(* node operations over any state whose predicate does not look at the node table *)
Section SNodes.
  Context {S : Type} (nt_of : S -> ntable) (set_nt : S -> ntable -> S).
  Variable P : S -> Prop.
  Hypothesis P_nt : forall s v, P s -> P (set_nt s v).
  Notation sq := (sspec P Q_ne).

  Lemma sq_node_flags n : sq (node_flags nt_of n).
  Proof. intros s0 H0. unfold node_flags. sls. Qed.
  Lemma sq_node_sd n : sq (node_shutting_down nt_of n).
  Proof. intros s0 H0. unfold node_shutting_down. pose proof (sq_node_flags n). sls. Qed.
  Lemma sq_node_send_sd n : sq (node_send nt_of n CShutdown).
  Proof. intros s0 H0. unfold node_send. pose proof (sq_node_flags n). sls. apply sf_emit; [assumption|exact I]. Qed.
  Lemma sq_node_send_run n ixs : ixs <> [] -> sq (node_send nt_of n (CRun ixs)).
  Proof.
    intros Hne s0 H0. unfold node_send. pose proof (sq_node_flags n). sls.
    apply sf_emit; [assumption|]. destruct ixs; [congruence|exact I].
  Qed.
  Lemma sq_node_shutdown n : sq (node_shutdown nt_of set_nt n).
  Proof.
    intros s0 H0. unfold node_shutdown. pose proof (sq_node_flags n). pose proof (sq_node_send_sd n). sls.
    apply sf_put. apply P_nt. assumption.
  Qed.
End SNodes.

(* ====================================================================================== *)
(* A.2 the scope scheduler never sends an empty run command                                *)
(* ====================================================================================== *)
(* every unit in the work queue still has a test to run *)
Definition WQP (cs : scstate) : Prop := Forall (fun p => unit_pending (snd p) <> 0) (sc_wq cs).

Lemma WQP_same_wq cs cs' : sc_wq cs' = sc_wq cs -> WQP cs -> WQP cs'.
Proof. unfold WQP. intros ->. auto. Qed.

Lemma WQP_set_nt cs v : WQP cs -> WQP (sc_set_nt cs v).
Proof. apply WQP_same_wq. reflexivity. Qed.

Lemma opt_map_nil {A B} (f : A -> option B) l : opt_map f l = Some [] -> l = [].
Proof.
  destruct l as [|a l]; [reflexivity|]. cbn [opt_map]. destruct (f a); [|discriminate].
  destruct (opt_map f l); discriminate.
Qed.

Lemma Forall_sset {V} (R : string * V -> Prop) k v (m : list (string * V)) :
  (forall k', R (k', v)) -> Forall R m -> Forall R (sset k v m).
Proof.
  intros Hv. induction 1 as [|[k0 v0] m H0 Hm IH]; cbn [sset].
  - constructor; [apply Hv|constructor].
  - destruct (String.eqb k k0); constructor; auto.
Qed.

Lemma Forall_wq_update (R : string * unit_t -> Prop) add : forall wq,
  (forall k k' v, R (k, v) -> R (k', v)) -> Forall R wq -> Forall R add -> Forall R (wq_update wq add).
Proof.
  unfold wq_update. induction add as [|[k v] add IH]; intros wq Hk Hwq Hadd; cbn [fold_left]; [exact Hwq|].
  inversion Hadd as [|x l Hx Hl]; subst. apply IH; [exact Hk| |exact Hl].
  cbn [fst snd]. apply Forall_sset; [|exact Hwq]. intros k'. exact (Hk _ _ _ Hx).
Qed.

Lemma sset_not_nil {V} k (v : V) m : sset k v m <> [].
Proof. destruct m as [|[k0 v0] m]; cbn; [discriminate|]. destruct (String.eqb k k0); discriminate. Qed.

Lemma all_false_pending u : all_false u -> unit_pending u = length u.
Proof.
  unfold unit_pending. induction 1 as [|[x b] u Hx _ IH]; [reflexivity|]. cbn in Hx. subst b. cbn. rewrite IH. reflexivity.
Qed.

Lemma build_units_pending k coll :
  Forall (fun p => unit_pending (snd p) <> 0) (build_units k coll).
Proof.
  rewrite build_units_fold.
  assert (G : forall l acc, Forall (fun p : string * unit_t => snd p <> [] /\ all_false (snd p)) acc ->
              Forall (fun p : string * unit_t => snd p <> [] /\ all_false (snd p)) (fold_left (upd_units k) l acc)).
  { induction l as [|nid l IH]; intros acc Hacc; cbn [fold_left]; [exact Hacc|]. apply IH.
    unfold upd_units. cbv zeta. apply Forall_sset; [|exact Hacc]. intros k'. cbn [snd].
    split; [apply sset_not_nil|]. apply sset_false_all_false.
    destruct (sget (split_of k nid) acc) as [u|] eqn:Eg; [|constructor].
    apply sget_in in Eg. rewrite Forall_forall in Hacc. exact (proj2 (Hacc _ Eg)). }
  eapply Forall_impl; [|apply (G coll []); constructor].
  intros [sc u] (Hne & Hf). cbn [snd] in *. rewrite (all_false_pending u Hf). destruct u; [congruence|cbn; lia].
Qed.

Lemma sort_units_forall (R : string * unit_t -> Prop) w : Forall R w -> Forall R (sort_units w).
Proof.
  intros H. rewrite Forall_forall in *. intros p Hp. apply H.
  eapply Permutation_in; [apply Permutation_sym, sort_units_perm|exact Hp].
Qed.

Notation sqc := (sspec WQP Q_ne).
Notation sfc := (sfrom WQP Q_ne).

Lemma sq_sc_node_shutdown n : sqc (node_shutdown sc_nt sc_set_nt n).
Proof. apply sq_node_shutdown. intros s v. apply WQP_set_nt. Qed.
Lemma sq_sc_node_sd n : sqc (node_shutting_down sc_nt n).
Proof. apply sq_node_sd. Qed.

Lemma sq_assign n : sqc (sc_assign_work_unit n).
Proof.
  intros s0 H0. unfold sc_assign_work_unit. apply sf_get.
  destruct (sc_wq s0) as [|[scope u] wq'] eqn:Ewq; [apply sf_raise; exact H0|].
  assert (Hu : unit_pending u <> 0 /\ Forall (fun p => unit_pending (snd p) <> 0) wq').
  { unfold WQP in H0. rewrite Ewq in H0. inversion H0; subst. auto. }
  destruct Hu as (Hu & Hwq').
  apply sf_bind; [apply sf_put; exact Hwq'|]. intros _ s1 H1. apply sf_get.
  destruct (aget n (sc_reg s1)) as [wcoll|]; cbn [of_opt]; [apply sf_ret_bind|apply sf_raise_bind; exact H1].
  destruct (opt_map (fun p => index_of_str (fst p) wcoll) (filter (fun p => negb (snd p)) u)) as [ixs|] eqn:Eo;
    cbn [of_opt]; [apply sf_ret_bind|apply sf_raise_bind; exact H1].
  apply sq_node_send_run; [|exact H1]. intros ->. apply opt_map_nil in Eo.
  unfold unit_pending in Hu. rewrite Eo in Hu. apply Hu. reflexivity.
Qed.

Lemma sq_top_up fuel n : sqc (sc_top_up fuel n).
Proof.
  induction fuel as [|f IH]; intros s0 H0; cbn [sc_top_up]; [apply sf_ret; exact H0|].
  pose proof (sq_assign n). sls.
Qed.

Lemma sq_reschedule n : sqc (sc_reschedule n).
Proof.
  intros s0 H0. unfold sc_reschedule. pose proof (sq_sc_node_sd n). pose proof (sq_sc_node_shutdown n).
  pose proof (sq_assign n). sls. apply sq_top_up. assumption.
Qed.

Lemma sq_mfor_resched l : sqc (mfor l sc_reschedule).
Proof. apply sf_mfor. apply sq_reschedule. Qed.

Lemma sq_remove n : sqc (sc_remove_node n).
Proof.
  intros s0 H0. unfold sc_remove_node. apply sf_get.
  destruct (aget n (sc_assigned s0)) as [w|]; cbn [of_opt]; [apply sf_ret_bind|apply sf_raise_bind; exact H0].
  apply sf_bind; [apply sf_put; exact H0|]. intros _ s1 H1.
  apply sf_bind.
  { apply sf_get. destruct (sc_collection_is_completed s1); [apply sf_ret; exact H1|apply sf_put; exact H1]. }
  intros _ s2 H2. destruct (pending_of w =? 0); [apply sf_ret; exact H2|].
  apply sf_bind; [apply sf_of_opt; exact H2|]. intros crash s3 H3. apply sf_get.
  apply sf_bind.
  { apply sf_put. unfold WQP. cbn [sc_set_wq sc_wq]. apply Forall_wq_update; [auto|exact H3|].
    apply Forall_forall. intros p Hp. apply filter_In in Hp. destruct Hp as (_ & Hp).
    intros F. rewrite F in Hp. discriminate. }
  intros _ s4 H4. apply sf_get.
  apply sf_bind; [apply sq_mfor_resched; exact H4|]. intros _ s5 H5. apply sf_ret. exact H5.
Qed.

Lemma sq_add_node n : sqc (sc_add_node n).
Proof. intros s0 H0. unfold sc_add_node. sls. Qed.

Lemma sq_add_coll n coll : sqc (sc_add_node_collection n coll).
Proof.
  intros s0 H0. unfold sc_add_node_collection. pose proof (sq_sc_node_shutdown n). sls;
    try (apply sf_put; assumption); try (apply sf_emit; [assumption|exact I]).
Qed.

Lemma sq_complete n idx : sqc (sc_mark_test_complete n idx).
Proof.
  intros s0 H0. unfold sc_mark_test_complete. pose proof (sq_reschedule n). sls; try (apply sf_put; assumption).
Qed.

Lemma sq_same_collection : sqc sc_same_collection.
Proof.
  intros s0 H0. unfold sc_same_collection. apply sf_get.
  destruct (sc_reg s0) as [|[first col] others]; [apply sf_raise; exact H0|].
  apply sf_bind; [|intros _ s1 H1; apply sf_ret; exact H1].
  apply sf_mfor; [|exact H0].
  intros q s1 H1. destruct (coll_eqb col (snd q)); [apply sf_ret; exact H1|apply sf_emit; [exact H1|exact I]].
Qed.

Lemma sq_pop_extra k : sqc (sc_pop_extra k).
Proof.
  induction k as [|k IH]; intros s0 H0; cbn [sc_pop_extra]; [apply sf_ret; exact H0|].
  apply sf_get. destruct (rev (sc_assigned s0)) as [|[n w] r]; [apply sf_raise; exact H0|].
  apply sf_bind; [apply sf_put; exact H0|]. intros _ s1 H1.
  apply sf_bind; [apply sq_sc_node_shutdown; exact H1|]. intros _ s2 H2. apply IH. exact H2.
Qed.

Lemma sq_schedule : sqc sc_schedule.
Proof.
  intros s0 H0. unfold sc_schedule. apply sf_get.
  apply sf_bind; [apply sf_massert; exact H0|]. intros _ s1 H1.
  destruct (sc_coll s0); [apply sq_mfor_resched; exact H1|].
  apply sf_bind; [apply sq_same_collection; exact H1|]. intros same s2 H2.
  destruct (negb same); [apply sf_ret; exact H2|]. apply sf_get.
  apply sf_bind; [apply sf_of_opt; exact H2|]. intros coll s3 H3.
  apply sf_bind; [apply sf_put; exact H2|]. intros _ s4 H4.
  destruct coll as [|c0 cr]; [apply sf_ret; exact H4|]. apply sf_get.
  apply sf_bind.
  { apply sf_put. unfold WQP. cbn [sc_set_wq sc_wq]. apply Forall_wq_update; [auto|exact H4|].
    apply sort_units_forall. apply build_units_pending. }
  intros _ s5 H5. apply sf_get.
  apply sf_bind; [apply sq_pop_extra; exact H5|]. intros _ s6 H6. apply sf_get.
  apply sf_bind; [apply (sf_mfor WQP Q_ne); [apply sq_assign|exact H6]|]. intros _ s7 H7. apply sf_get.
  apply sf_bind; [apply sq_mfor_resched; exact H7|]. intros _ s8 H8. apply sf_get.
  destruct (sc_wq s8); [|apply sf_ret; exact H8].
  apply (sf_mfor WQP Q_ne); [|exact H8]. intros m. apply sq_sc_node_shutdown.
Qed.

(* ====================================================================================== *)
(* A.3 ... nor does the controller; the work queue keeps holding units with work only       *)
(* ====================================================================================== *)
Definition WQPd (d : dstate) : Prop := exists cs, d_sched d = StC cs /\ WQP cs.
Notation sqd := (sspec WQPd Q_ne).
Notation sfd := (sfrom WQPd Q_ne).

Lemma WQPd_set_nt d v : WQPd d -> WQPd (d_set_nt d v).
Proof.
  intros (cs & E & H). exists (sc_set_nt cs v). split; [|apply WQP_set_nt; exact H].
  unfold d_set_nt. rewrite E. reflexivity.
Qed.

Lemma lift_sq {A B} (m : M scstate A) (f : A -> B) cs st o r :
  sqc m -> WQP cs -> lift StC f (m cs) = (st, o, r) -> (exists cs', st = StC cs' /\ WQP cs') /\ Forall Q_ne o.
Proof.
  intros Hm Hw H. destruct (m cs) as [[cs' o'] r'] eqn:E. destruct (Hm cs Hw _ _ _ E) as (P1 & Q1).
  cbn [lift] in H. inversion H; subst. split; [eauto|exact Q1].
Qed.

Lemma sq_sched_op op : sqd (d_sched_op op).
Proof.
  intros d (cs & Els & Hw) d' o r H. unfold d_sched_op in H. rewrite Els in H.
  assert (G : forall st o1 r1, s_step (StC cs) op = (st, o1, r1) -> (exists cs', st = StC cs' /\ WQP cs') /\ Forall Q_ne o1).
  { intros st o1 r1 E. destruct op; cbn [s_step s_set_nt s_nt] in E.
    - inversion E; subst. split; [|constructor]. eexists. split; [reflexivity|]. exact Hw.
    - eapply lift_sq; [apply sq_add_node|exact Hw|exact E].
    - eapply lift_sq; [apply sq_add_coll|exact Hw|exact E].
    - eapply lift_sq; [apply sq_schedule|exact Hw|exact E].
    - eapply lift_sq; [apply sq_complete|exact Hw|exact E].
    - inversion E; subst. split; [eauto|constructor].
    - inversion E; subst. split; [eauto|constructor].
    - eapply lift_sq; [apply sq_remove|exact Hw|exact E].
    - destruct (aget n (sc_nt cs)); inversion E; subst; (split; [|constructor]); [eauto|].
      eexists. split; [reflexivity|]. exact Hw.
    - eapply lift_sq; [apply sq_sc_node_shutdown|exact Hw|exact E]. }
  destruct (s_step (StC cs) op) as [[st o1] r1] eqn:E. destruct (G _ _ _ eq_refl) as ((cs' & -> & Hw') & Q1).
  inversion H; subst. split; [|exact Q1]. exists cs'. split; [reflexivity|exact Hw'].
Qed.

Lemma sq_d_node_shutdown n : sqd (d_node_shutdown n).
Proof. unfold d_node_shutdown. apply sq_node_shutdown. intros s v. apply WQPd_set_nt. Qed.

Lemma sq_hook h : sqd (hook h).
Proof. intros d H. unfold hook. apply sf_emit; [exact H|exact I]. Qed.

Lemma sq_triggershutdown : sqd d_triggershutdown.
Proof.
  intros d H. unfold d_triggershutdown. sls. apply sf_mfor; [|assumption]. intros n. apply sq_d_node_shutdown.
Qed.

Lemma sq_active_remove n : sqd (d_active_remove n).
Proof. intros d H. unfold d_active_remove. sls. Qed.

Lemma sq_handlefailures f : sqd (d_handlefailures f).
Proof. intros d H. unfold d_handlefailures. sls. Qed.

Lemma sq_handle_crashitem item n : sqd (d_handle_crashitem item n).
Proof.
  intros d H. unfold d_handle_crashitem. pose proof (sq_hook (HCrashItem item n)). pose proof (sq_hook (HCrashReport item n)).
  pose proof (sq_sched_op (SPending item)). sls.
Qed.

Lemma sq_clone_node n : sqd (d_clone_node n).
Proof.
  intros d H. unfold d_clone_node. apply sf_get.
  destruct (aget n (d_nt d)) as [f|]; cbn [of_opt]; [apply sf_ret_bind|apply sf_raise_bind; exact H].
  pose proof (sq_sched_op (SNew (d_next_gw d) (n_spec f))). pose proof (sq_hook (HSpawn (d_next_gw d) (n_spec f))). sls.
Qed.

Lemma sq_try_block n : sqd (try_block n).
Proof.
  intros d H d' o r E. unfold try_block in E.
  destruct (d_sched_op (SRemove n) d) as [[d1 o1] r1] eqn:E1. destruct (sq_sched_op _ d H _ _ _ E1) as (P1 & Q1).
  destruct r1 as [[item|]|e].
  - destruct (d_handle_crashitem item n d1) as [[d2 o2] r2] eqn:E2.
    destruct (sq_handle_crashitem _ _ d1 P1 _ _ _ E2) as (P2 & Q2). inversion E; subst.
    split; [exact P2|apply Forall_app; auto].
  - inversion E; subst. auto.
  - destruct e; inversion E; subst; auto.
Qed.

Lemma sq_errordown n : sqd (d_worker_errordown n).
Proof.
  intros d H. rewrite errordown_unfold.
  pose proof (sq_hook (HNodeDown n true)). pose proof (sq_try_block n). pose proof sq_triggershutdown.
  pose proof (sq_clone_node n). pose proof (sq_active_remove n). sls; apply sq_hook; assumption.
Qed.

Lemma sq_workerfinished n sk : sqd (d_worker_workerfinished n sk).
Proof.
  intros d H. unfold d_worker_workerfinished.
  pose proof (sq_hook (HNodeDown n false)). pose proof sq_triggershutdown. pose proof (sq_errordown n).
  pose proof (sq_active_remove n). pose proof (sq_sched_op (SRemove n)). sls.
Qed.

Lemma sq_handle ev : sqd (d_handle ev).
Proof.
  intros d H. destruct ev as [n|n ids|n key fl|n i|n i|n i k oc|n i ms|n ixs| |n|n sk|n]; cbn [d_handle];
    try (apply sq_hook; exact H).
  - pose proof (sq_hook (HNodeReady n)). pose proof (sq_d_node_shutdown n). pose proof (sq_sched_op (SAddNode n)). sls.
  - pose proof (sq_hook (HCollFinished n)). pose proof (sq_sched_op (SAddColl n ids)). pose proof (sq_sched_op SSchedule). sls.
  - pose proof (sq_hook (HCollectReport key fl)). pose proof (sq_handlefailures fl). sls.
  - pose proof (sq_hook (HReport n i k oc)). pose proof (sq_handlefailures (match oc with Failed => true | _ => false end)). sls.
  - pose proof (sq_sched_op (SComplete n i ms)). sls.
  - pose proof (sq_sched_op (SUnsched n ixs)). sls.
  - pose proof (sq_active_remove n). pose proof (sq_hook (HInternalError n)). sls.
  - apply sq_workerfinished. exact H.
  - apply sq_errordown. exact H.
Qed.

Lemma sq_loop_once ev : sqd (d_loop_once ev).
Proof.
  intros d H. unfold d_loop_once. pose proof (sq_handle ev). pose proof sq_triggershutdown. sls.
Qed.

Lemma sq_no_active : sqd d_no_active.
Proof. intros d H. unfold d_no_active. pose proof sq_triggershutdown. sls. Qed.

Lemma sq_pfr n m : sqd (process_from_remote n m).
Proof.
  intros d H. unfold process_from_remote. apply sf_get.
  destruct (aget n (d_nt d)) as [f|]; cbn [of_opt]; [apply sf_ret_bind|apply sf_raise_bind; exact H].
  pose proof (sq_d_node_shutdown n).
  assert (SD : forall v s0, WQPd s0 -> sfd s0 (put (d_set_nt d v))).
  { intros v s0 _. apply sf_put. apply WQPd_set_nt. exact H. }
  cbv zeta. destruct m as [e|ids|sk|i ms|dec| | |]; sls; try (apply SD; assumption).
  all: try (apply sf_put; apply WQPd_set_nt; assumption).
Qed.

(* ====================================================================================== *)
(* A.4 ... in every reachable state of the system                                          *)
(* ====================================================================================== *)
Lemma crash_worker_wqp c s n : WQPd (y_d s) -> WQPd (y_d (crash_worker c s n)).
Proof.
  intros H. unfold crash_worker. cbn [y_d]. destruct (c_strict c); [|exact H].
  destruct (aget n (d_nt (y_d s))); [apply WQPd_set_nt; exact H|exact H].
Qed.

Lemma close_if_dead_wqp s n : WQPd (y_d s) -> WQPd (y_d (close_if_dead s n)).
Proof.
  intros H. unfold close_if_dead. destruct (mem_nat n (y_dead s)); [|exact H].
  destruct (aget n (d_nt (y_d s))) as [f|]; [|exact H]. destruct (n_down f); [|exact H].
  cbn [set_d y_d]. apply WQPd_set_nt. exact H.
Qed.

Lemma step_wqp c s l s' o w : WQPd (y_d s) -> sys_step c s l = Some (s', o, w) -> WQPd (y_d s').
Proof.
  intros H E. unfold sys_step in E. destruct (y_result s); [discriminate|].
  destruct l as [n0|n0|n0|n0| |n0].
  - destruct (mem_nat n0 (y_dead s)); [discriminate|].
    destruct (aget n0 (y_down s)) as [[|cmd rest]|]; try discriminate.
    destruct (aget n0 (y_w s)); try discriminate. injection E as <- <- <-. exact H.
  - destruct (mem_nat n0 (y_dead s)); [discriminate|].
    destruct (aget n0 (y_w s)) as [w0|]; try discriminate.
    destruct (negb (wcb w0)); [discriminate|].
    destruct (recv_step (c_oracle c n0) w0). injection E as <- <- <-. exact H.
  - destruct (mem_nat n0 (y_dead s)); [discriminate|].
    destruct (aget n0 (y_w s)) as [w0|]; try discriminate.
    destruct (dies_now c n0 w0); [injection E as <- <- <-; apply crash_worker_wqp; exact H|].
    destruct (main_step (c_oracle c n0) w0) as [[w' evs]|]; [|discriminate]. injection E as <- <- <-. exact H.
  - destruct (aget n0 (y_up s)) as [[|m rest]|]; try discriminate. cbn [y_d] in E.
    destruct (process_from_remote n0 m (y_d s)) as [[d' outs] r] eqn:Ep.
    destruct (sq_pfr n0 m _ H _ _ _ Ep) as (P1 & _).
    destruct r as [evs|e].
    + injection E as <- <- <-. apply close_if_dead_wqp. cbn [set_evq y_d].
      match goal with |- WQPd (y_d (apply_outs ?S outs)) => destruct (apply_outs_frame outs S) as (_ & F2 & _); rewrite F2 end.
      exact P1.
    + injection E as <- <- <-. cbn [set_result y_d].
      match goal with |- WQPd (y_d (apply_outs ?S outs)) => destruct (apply_outs_frame outs S) as (_ & F2 & _); rewrite F2 end.
      exact P1.
  - destruct (d_active (y_d s)).
    + destruct (d_no_active (y_d s)) as [[d' outs] r] eqn:En. injection E as <- <- <-. cbn [set_result y_d].
      destruct (apply_outs_frame outs (set_d s d')) as (_ & F2 & _). rewrite F2. cbn [set_d y_d].
      exact (proj1 (sq_no_active _ H _ _ _ En)).
    + destruct (y_evq s) as [|ev q]; [discriminate|].
      destruct (d_loop_once ev (y_d s)) as [[d' outs] r] eqn:El.
      destruct (sq_loop_once ev _ H _ _ _ El) as (P1 & _).
      destruct (apply_outs_frame outs (set_d (set_evq s q) d')) as (_ & F2 & _). cbn [set_d y_d] in F2.
      destruct r as [[]|e]; [|injection E as <- <- <-; cbn [set_result y_d]; rewrite F2; exact P1].
      destruct (d_session_finished d'); [injection E as <- <- <-; cbn [set_result y_d]; rewrite F2; exact P1|].
      destruct (d_active d'); [|injection E as <- <- <-; rewrite F2; exact P1].
      destruct (d_no_active d') as [[d2 o2] r2] eqn:En. injection E as <- <- <-. cbn [set_result y_d].
      destruct (apply_outs_frame o2 (set_d (apply_outs (set_d (set_evq s q) d') outs) d2)) as (_ & G2 & _).
      rewrite G2. cbn [set_d y_d]. exact (proj1 (sq_no_active _ P1 _ _ _ En)).
  - destruct (mem_nat n0 (y_dead s)); [discriminate|].
    destruct (aget n0 (y_w s)) as [w0|]; try discriminate.
    destruct (wph w0); try discriminate; injection E as <- <- <-; apply crash_worker_wqp; exact H.
Qed.

Lemma wqp_init c kind : c_mode c = MScope kind -> WQPd (y_d (sys_init c)).
Proof.
  intros Hm. unfold sys_init. cbn [y_d d_sched]. rewrite Hm. cbn [s_init s_set_nt].
  eexists. split; [reflexivity|]. constructor.
Qed.

Lemma wqp_run c kind ls : c_mode c = MScope kind -> WQPd (y_d (sys_run c ls)).
Proof.
  intros Hm. unfold sys_run.
  assert (G : forall s, WQPd (y_d s) ->
     WQPd (y_d (fold_left (fun s l => match sys_step c s l with Some (s', _, _) => s' | None => s end) ls s))).
  { induction ls as [|l ls IH]; intros s Hs; cbn [fold_left]; [exact Hs|].
    apply IH. destruct (sys_step c s l) as [[[s' o] w]|] eqn:E; [|exact Hs]. eapply step_wqp; eauto. }
  apply G. eapply wqp_init; eauto.
Qed.

(* ###################################### part B ###################################### *)
(* ====================================================================================== *)
(* B.1 sums over supports                                                                  *)
(* ====================================================================================== *)
Lemma sumf_filter_split {A} (g : A -> nat) (p : A -> bool) l :
  sumf g l = sumf g (filter p l) + sumf g (filter (fun x => negb (p x)) l).
Proof.
  induction l as [|a l IH]; [reflexivity|]. cbn [filter]. rewrite sumf_cons, IH.
  destruct (p a); cbn [negb]; rewrite sumf_cons; lia.
Qed.

Lemma sumf_zero {A} (g : A -> nat) l : (forall x, In x l -> g x = 0) -> sumf g l = 0.
Proof.
  induction l as [|a l IH]; intros H; [reflexivity|]. rewrite sumf_cons, (H a (or_introl eq_refl)), IH; [reflexivity|].
  intros x Hx. apply H. right. exact Hx.
Qed.

(* g vanishes outside l *)
Lemma sumf_support (g : nat -> nat) l L :
  NoDup l -> NoDup L -> incl l L -> (forall x, In x L -> ~ In x l -> g x = 0) -> sumf g l = sumf g L.
Proof.
  intros NDl NDL Hi Hz. rewrite (sumf_filter_split g (fun x => mem_nat x l) L).
  rewrite (sumf_zero g (filter (fun x => negb (mem_nat x l)) L)).
  2:{ intros x Hx. apply filter_In in Hx. destruct Hx as (HxL & Hn). apply Hz; [exact HxL|].
      intros F. apply mem_nat_In in F. rewrite F in Hn. discriminate. }
  rewrite Nat.add_0_r. apply sumf_perm. apply NoDup_Permutation; [exact NDl|apply NoDup_filter; exact NDL|].
  intros x. rewrite filter_In. split.
  - intros Hx. split; [apply Hi; exact Hx|apply mem_nat_In; exact Hx].
  - intros (_ & Hx). apply mem_nat_In. exact Hx.
Qed.

Lemma sumf_nodup_incl (g : nat -> nat) l : forall L, NoDup l -> incl l L -> sumf g l <= sumf g L.
Proof.
  induction l as [|a l IH]; intros L ND Hi; [cbn; lia|].
  inversion ND as [|a' l' Hna ND']; subst.
  assert (HaL : In a L) by (apply Hi; left; reflexivity).
  destruct (in_split _ _ HaL) as (L1 & L2 & ->).
  assert (Hi' : incl l (L1 ++ L2)).
  { intros x Hx. assert (Hx' : In x (L1 ++ a :: L2)) by (apply Hi; right; exact Hx).
    apply in_app_or in Hx'. apply in_or_app. destruct Hx' as [Hx'|[<-|Hx']]; [left; exact Hx'|contradiction|right; exact Hx']. }
  specialize (IH _ ND' Hi'). rewrite sumf_cons, !sumf_app, sumf_cons in *. lia.
Qed.

(* ====================================================================================== *)
(* B.2 the potential of the work queue; what a controller turn sends is paid for by it      *)
(* ====================================================================================== *)
Section CostsS.
Variable c : config.
Variable kind : scope_kind.
Notation N := (c_numnodes c).
Notation X0 := (c_coll c).
Hypothesis Hpos : 0 < N.

(* a not-completed test of a unit in the work queue is priced as a test in the pool of --dist load: it may go
   to any worker that can ever exist (ids below W), in a command of its own (CrashTermination.pcostx); as long
   as the scheduler has fixed no collection the queue is priced as every worker's whole collection *)
Definition poolpotC (W : nat) (cs : scstate) : nat :=
  match sc_coll cs with
  | None => prepoolx c W
  | Some cl => sumf (pcostx c W) (bookw cl (sc_wq cs))
  end.

Section Pool.
Variable coll0 : list string.
Notation SJxc := (SJx kind coll0 X0 N).
Notation DJxc := (DJx kind coll0 X0 N).
Notation HEFFxc := (HEFFx kind coll0 X0 N).
Notation PRExc := (PREx coll0 X0).
Notation bookn := (bookn coll0).
Notation bookw := (bookw coll0).
Notation tokx := (tokx coll0).
Notation evtokx := (evtokx coll0).

Lemma bookn_outside cs k : ~ In k (sc_nodes cs) -> bookn cs k = [].
Proof.
  intros H. unfold ScopeCoupling.bookn. apply aget_none_keys in H. unfold sc_nodes in H. rewrite H. reflexivity.
Qed.

Lemma tok_split G cs (f : nat -> nat) :
  SJxc G cs ->
  sumf f (tokx cs) = sumf f (bookw (sc_wq cs)) + sumf (fun k => sumf f (bookn cs k)) (seq 0 G).
Proof.
  intros J. unfold CrashScope.tokx. rewrite sumf_app. f_equal.
  rewrite (books_by_nodes coll0 cs (sx_wf _ _ _ _ _ _ J)), sumf_flat_map.
  apply sumf_support; [exact (sx_wf _ _ _ _ _ _ J)|apply seq_NoDup| |].
  - intros k Hk. apply in_seq. pose proof (sx_nodes _ _ _ _ _ _ J k Hk). lia.
  - intros k _ Hn. rewrite (bookn_outside cs k Hn). reflexivity.
Qed.

Lemma mid_sum G ev d cs (f : nat -> nat) :
  SJxc G cs -> PRExc ev d cs -> (forall n, ev <> QErrorDown n) ->
  sumf (fun k => sumf f (bookmid' ev k (bookn cs k))) (seq 0 G) + sumf f (evtokx ev cs) =
  sumf (fun k => sumf f (bookn cs k)) (seq 0 G).
Proof.
  intros J Hpre Hne.
  assert (SAME : (forall k b, bookmid' ev k b = b) -> evtokx ev cs = [] ->
            sumf (fun k => sumf f (bookmid' ev k (bookn cs k))) (seq 0 G) + sumf f (evtokx ev cs) =
            sumf (fun k => sumf f (bookn cs k)) (seq 0 G)).
  { intros Hm He. rewrite He, sumf_nil, Nat.add_0_r. apply sumf_ext_in. intros k _. rewrite Hm. reflexivity. }
  destruct ev as [n|n ids|n key fl|n i|n i|n i k0 oc|n i ms|n ixs| |n|n sk|n];
    try (apply SAME; [intros; reflexivity|reflexivity]).
  2:{ exfalso. exact (Hne n eq_refl). }
  cbn [PREx] in Hpre. destruct Hpre as (rest & Hb).
  assert (HnG : n < G).
  { apply (sx_nodes _ _ _ _ _ _ J). destruct (in_dec Nat.eq_dec n (sc_nodes cs)) as [Hin|Hni]; [exact Hin|].
    rewrite (bookn_outside cs n Hni) in Hb. discriminate. }
  cbn [CrashScope.evtokx bookmid'].
  pose proof (sumf_change_one (fun k => sumf f (bookn cs k))
                (fun k => sumf f (if Nat.eqb k n then tl (bookn cs k) else bookn cs k)) (seq 0 G) n (seq_NoDup G 0)) as Z.
  assert (Hin : In n (seq 0 G)) by (apply in_seq; lia).
  assert (Hoth : forall k, In k (seq 0 G) -> k <> n ->
            sumf f (if Nat.eqb k n then tl (bookn cs k) else bookn cs k) = sumf f (bookn cs k)).
  { intros k _ Hk. apply Nat.eqb_neq in Hk. rewrite Hk. reflexivity. }
  specialize (Z Hin Hoth). cbv beta in Z. rewrite Nat.eqb_refl, Hb in Z. cbn [tl] in Z. rewrite !sumf_cons, sumf_nil in *. lia.
Qed.

(* every test of the collection, priced; bounded by what was provided before the collection was fixed *)
Lemma allx_le W k : k < W -> coll0 = X0 k ->
  sumf (pcostx c W) (bookw (UL kind coll0)) <= prepoolx c W.
Proof.
  intros HkW E.
  assert (H1 : sumf (pcostx c W) (bookw (UL kind coll0)) <= sumf (pcostx c W) (seq 0 (length coll0))).
  { apply sumf_nodup_incl; [exact (ALLX_nodup kind coll0)|].
    intros i Hi. change (bookw (UL kind coll0)) with (ALLX kind coll0) in Hi. rewrite ALLX_blocks in Hi.
    apply in_concat in Hi. destruct Hi as (b & Hb & Hi). unfold blocks in Hb. apply in_map_iff in Hb.
    destruct Hb as (p & <- & Hp). apply in_seq. pose proof (block_key kind coll0 p i Hp Hi). lia. }
  unfold prepoolx. rewrite E in H1.
  pose proof (sumf_in_le (fun n0 => sumf (pcostx c W) (seq 0 (length (X0 n0)))) (seq 0 W) k) as H2.
  cbv beta in H2. assert (Hin : In k (seq 0 W)) by (apply in_seq; lia). specialize (H2 Hin). rewrite E. lia.
Qed.

Lemma fixed_coll_source G cs : SJxc G cs -> sc_coll cs <> None -> exists k, k < G /\ coll0 = X0 k.
Proof.
  intros J Hc. destruct (sc_coll cs) as [cl|] eqn:Ec; [|contradiction].
  destruct (sx_coll _ _ _ _ _ _ J cl Ec) as (_ & Hcomp & Hall).
  unfold sc_collection_is_completed in Hcomp. rewrite (sx_num _ _ _ _ _ _ J) in Hcomp. apply Nat.leb_le in Hcomp.
  destruct (sc_reg cs) as [|[k cl'] rg] eqn:Er; [cbn in Hcomp; lia|].
  assert (Hin : In (k, cl') (sc_reg cs)) by (rewrite Er; left; reflexivity).
  destruct (sx_reg _ _ _ _ _ _ J k cl' Hin) as (E1 & HkG). exists k. split; [exact HkG|].
  rewrite <- (Hall k cl' (or_introl eq_refl)). exact E1.
Qed.

(* what one controller turn (any event but errordown) sends, virtually, is paid for by the work queue *)
Lemma pool_step ev d cs d' cs' vo W :
  DJxc d cs -> PRExc ev d cs -> (forall n, ev <> QErrorDown n) ->
  HEFFxc ev d cs d' cs' vo -> d_next_gw d' = d_next_gw d -> d_next_gw d <= W ->
  sumf (fun k => sumf (pcostx c W) (flat_map cmd_inds (cmds_to k vo))) (seq 0 (d_next_gw d)) + poolpotC W cs' <=
  poolpotC W cs.
Proof.
  intros DJd Hpre Hne E EG HW. set (G := d_next_gw d) in *. set (f := pcostx c W).
  pose proof (dx_sj _ _ _ _ _ _ (proj1 DJd)) as J. fold G in J.
  pose proof (dx_sj _ _ _ _ _ _ (hx_dj _ _ _ _ _ _ _ _ _ _ E)) as J'. rewrite EG in J'.
  pose proof (tok_split G cs f J) as T. pose proof (tok_split G cs' f J') as T'.
  pose proof (mid_sum G ev d cs f J Hpre Hne) as MS.
  assert (BK : sumf (fun k => sumf f (bookn cs' k)) (seq 0 G) =
               sumf (fun k => sumf f (bookmid' ev k (bookn cs k))) (seq 0 G) +
               sumf (fun k => sumf f (flat_map cmd_inds (cmds_to k vo))) (seq 0 G)).
  { rewrite <- sumf_add. apply sumf_ext_in. intros k _. rewrite (hx_bk _ _ _ _ _ _ _ _ _ _ E k), sumf_app. reflexivity. }
  unfold poolpotC. destruct (sc_coll cs) as [cl|] eqn:Ec.
  - destruct (sx_coll _ _ _ _ _ _ J cl Ec) as (-> & _).
    destruct (hx_tok _ _ _ _ _ _ _ _ _ _ E) as (Ec' & Pm); [rewrite Ec; discriminate|].
    rewrite Ec', Ec. pose proof (sumf_perm f _ _ Pm) as SP. rewrite sumf_app in SP. fold f. lia.
  - destruct (hx_tok0 _ _ _ _ _ _ _ _ _ _ E Ec) as [(Ec' & Et)|(Ec' & Pm)]; rewrite Ec'.
    + rewrite Et, sumf_nil in T'. fold f. lia.
    + destruct (fixed_coll_source G cs' J') as (k & HkG & Ek); [rewrite Ec'; discriminate|].
      pose proof (allx_le W k ltac:(lia) Ek) as AL. pose proof (sumf_perm f _ _ Pm) as SP. fold f in AL |- *. lia.
Qed.
End Pool.
End CostsS.

(* ###################################### part C ###################################### *)
(* ====================================================================================== *)
(* C. the measure and its decrease along every useful move and every crash                 *)
(* ====================================================================================== *)
Lemma quiet_loop_once ev : death_event ev = false -> quiet (d_loop_once ev).
Proof.
  intros Hd. unfold d_loop_once. apply (dspec_bind _ _ same_budget_trans); [apply quiet_handle; exact Hd|].
  intros _. apply (dspec_bind _ _ same_budget_trans).
  - intros d0. qs. apply quiet_triggershutdown.
  - intros _ d0. qs. apply quiet_triggershutdown.
Qed.

Section MuXS.
Variable c : config.
Variable kind : scope_kind.
Notation N := (c_numnodes c).
Notation X0 := (c_coll c).
Hypothesis Hmode : c_mode c = MScope kind.
Hypothesis Hng : no_garbled c.
Hypothesis Hpos : 0 < N.
Hypothesis Hrq : c_requeue c = 0.

Notation sdnS := TerminationScope.sdnS.
Notation sdnS_some := TerminationScope.sdnS_some.

(* the controller's share: the work queue, and the shutdown command every worker process is still to be sent *)
Definition ctlpotC (d : dstate) : nat :=
  match d_sched d with
  | StC cs => poolpotC c (Wd d) cs + sumf (sdnS cs) (seq 0 (d_next_gw d))
  | _ => 0
  end.
(* CrashTermination.nodepotx: a dead worker's share is what is left on its wire up *)
Definition muxS (s : sys) : nat :=
  ctlpotC (y_d s) + length (y_evq s) + sumf (nodepotx c s) (seq 0 (d_next_gw (y_d s))).
Definition measS (s : sys) : nat * nat := (Kx (y_d s), muxS s).

Lemma ctlpotC_flags d d' cs cs' :
  d_sched d = StC cs -> d_sched d' = StC cs' -> sc_coll cs' = sc_coll cs -> sc_wq cs' = sc_wq cs ->
  (forall n, option_map n_sdsent (aget n (sc_nt cs')) = option_map n_sdsent (aget n (sc_nt cs))) ->
  d_next_gw d' = d_next_gw d -> d_failed_nodes d' = d_failed_nodes d -> d_max_restart d' = d_max_restart d ->
  ctlpotC d' = ctlpotC d.
Proof.
  intros E E' Ec Ep Ef Eg Efl Em. unfold ctlpotC, Wd, Rem, poolpotC. rewrite E, E', Ec, Ep, Eg, Efl, Em.
  f_equal. apply sumf_ext_in. intros n _. unfold TerminationScope.sdnS. rewrite Ef. reflexivity.
Qed.

Lemma upd_flagc_sdsent cs n f f' k :
  aget n (sc_nt cs) = Some f -> n_sdsent f' = n_sdsent f ->
  option_map n_sdsent (aget k (sc_nt (upd_flagc cs n f'))) = option_map n_sdsent (aget k (sc_nt cs)).
Proof.
  intros Ef Hs. rewrite aget_upd_flagc. destruct (Nat.eqb k n) eqn:E; [|reflexivity].
  apply Nat.eqb_eq in E. subst k. rewrite Ef. cbn. f_equal. exact Hs.
Qed.

Lemma ctlpotC_upd d cs n f f' :
  d_sched d = StC cs -> aget n (sc_nt cs) = Some f -> n_sdsent f' = n_sdsent f ->
  ctlpotC (d_set_nt d (aset n f' (d_nt d))) = ctlpotC d.
Proof.
  intros Els Ef Hs. apply (ctlpotC_flags _ _ cs (upd_flagc cs n f')); try reflexivity; auto.
  - apply d_set_nt_schedc. exact Els.
  - intros k. apply (upd_flagc_sdsent cs n f); auto.
Qed.

Lemma muS_node_stepx s s' n0 k :
  y_d s' = y_d s -> y_evq s' = y_evq s -> n0 < d_next_gw (y_d s) ->
  (forall n, n <> n0 -> nodepotx c s' n = nodepotx c s n) ->
  nodepotx c s' n0 + k <= nodepotx c s n0 -> muxS s' + k <= muxS s.
Proof.
  intros Ed Eq HnN Hoth Hn0. unfold muxS. rewrite Ed, Eq.
  set (G := d_next_gw (y_d s)) in *.
  pose proof (sumf_change_one (nodepotx c s) (nodepotx c s') (seq 0 G) n0 (seq_NoDup G 0)) as X.
  assert (Hin : In n0 (seq 0 G)) by (apply in_seq; lia).
  specialize (X Hin (fun n _ Hn => Hoth n Hn)). lia.
Qed.

Section Fixed.
Variable coll0 : list string.
Notation XInvCc := (XInvC c kind coll0).
Notation SJxc := (SJx kind coll0 X0 N).
Notation DJxc := (DJx kind coll0 X0 N).

(* ---- a worker process dies ---- *)
Lemma muxS_crash s n0 w0 :
  XInvCc s -> mem_nat n0 (y_dead s) = false -> aget n0 (y_w s) = Some w0 -> wph w0 <> PExited ->
  muxS (crash_worker c s n0) + 1 <= muxS s /\ Kx (y_d (crash_worker c s n0)) = Kx (y_d s) /\
  d_max_restart (y_d (crash_worker c s n0)) = d_max_restart (y_d s).
Proof.
  intros X Hd Ew Hph. pose proof X as [Lo Hi (cs & DJd & NIs) Eq Eu Ea Er Edead].
  destruct (dj_els c kind coll0 _ _ DJd) as (Els & J).
  pose proof (worker_ltx c kind coll0 s n0 w0 X Ew) as HnG.
  destruct (aget n0 (sc_nt cs)) as [f0|] eqn:Ef0; [|exfalso; apply (proj2 (sx_ntk _ _ _ _ _ _ J n0) HnG); exact Ef0].
  set (s' := crash_worker c s n0).
  assert (CT : ctlpotC (y_d s') = ctlpotC (y_d s) /\ d_next_gw (y_d s') = d_next_gw (y_d s) /\
               Kx (y_d s') = Kx (y_d s) /\ d_max_restart (y_d s') = d_max_restart (y_d s)).
  { unfold s', crash_worker. cbn [y_d]. destruct (c_strict c); [|auto].
    rewrite (d_nt_c _ _ Els), Ef0.
    split; [|split; [reflexivity|split; reflexivity]].
    rewrite <- (d_nt_c _ _ Els). apply (ctlpotC_upd _ cs n0 f0); auto. }
  destruct CT as (CT & EG & EK & EM). split; [|split; [exact EK|exact EM]].
  unfold muxS. rewrite CT, EG. change (y_evq s') with (y_evq s).
  set (G := d_next_gw (y_d s)) in *.
  pose proof (sumf_change_one (nodepotx c s) (nodepotx c s') (seq 0 G) n0 (seq_NoDup G 0)) as Z.
  assert (Hin : In n0 (seq 0 G)) by (apply in_seq; lia).
  assert (Hoth : forall n, In n (seq 0 G) -> n <> n0 -> nodepotx c s' n = nodepotx c s n).
  { intros n _ Hn. unfold nodepotx, s', crash_worker. cbn [y_up y_down y_w y_dead].
    rewrite mem_nat_cons. apply Nat.eqb_neq in Hn. rewrite Hn. cbn [orb]. apply Nat.eqb_neq in Hn.
    rewrite !alist_get_aset_neq by exact Hn. reflexivity. }
  specialize (Z Hin Hoth).
  assert (Hn0 : nodepotx c s' n0 + 1 <= nodepotx c s n0).
  { unfold nodepotx, s', crash_worker. cbn [y_up y_down y_w y_dead].
    rewrite mem_nat_cons, Nat.eqb_refl, Hd, Ew. cbn [orb]. rewrite alist_get_aset_eq, app_length. cbn [length].
    pose proof (wpot_alive c Hpos n0 w0 Hph). lia. }
  lia.
Qed.

(* ---- closing the channel of a dead worker changes nothing ---- *)
Lemma muxS_close s n : XInvCc s -> muxS (close_if_dead s n) = muxS s /\ Kx (y_d (close_if_dead s n)) = Kx (y_d s) /\
  d_max_restart (y_d (close_if_dead s n)) = d_max_restart (y_d s).
Proof.
  intros X. pose proof X as [_ _ (cs & DJd & _) _ _ _ _ _]. destruct (dj_els c kind coll0 _ _ DJd) as (Els & J).
  unfold close_if_dead. destruct (mem_nat n (y_dead s)) eqn:Hd; [|auto].
  destruct (aget n (d_nt (y_d s))) as [f|] eqn:Ef; [|auto].
  destruct (n_down f) eqn:Edn; [|auto].
  rewrite (d_nt_c _ _ Els) in Ef.
  set (fc := {| n_spec := n_spec f; n_down := true; n_sdsent := n_sdsent f; n_closed := true |}).
  split; [|split; reflexivity].
  unfold muxS. cbn [set_d y_d y_evq].
  rewrite (ctlpotC_upd (y_d s) cs n f fc Els Ef eq_refl). reflexivity.
Qed.

(* ---- LCtl, any event but errordown: the potential goes down ---- *)
Lemma muxS_ctl s ev q d' outs rr :
  XInvCc s -> FIRSTx c coll0 s -> WQPd (y_d s) -> y_result s = None -> y_evq s = ev :: q ->
  (forall n, ev <> QErrorDown n) -> d_loop_once ev (y_d s) = (d', outs, Ok tt) ->
  let s' := set_result (apply_outs (set_d (set_evq s q) d') outs) rr in
  muxS s' + 1 <= muxS s /\ Kx (y_d s') <= Kx (y_d s) /\ d_max_restart (y_d s') = d_max_restart (y_d s).
Proof.
  intros X HF HW0 Eres Eevq Hne El. cbv zeta. pose proof X as [Lo Hi (cs & DJd & NIs) Eq Eu Ea Er Edead].
  specialize (Ea Eres).
  pose proof (pre_from_invx c kind coll0 s cs ev q X DJd NIs Eevq) as Hpre.
  destruct (dj_els c kind coll0 _ _ DJd) as (Els & J).
  pose proof (first_of_FIRSTx c coll0 s cs ev q HF Eevq Els) as Hfirst.
  destruct (loop_once_okx kind coll0 X0 N Hpos ev _ cs d' outs _ DJd Ea Hpre Hfirst El) as (_ & cs' & vo & Eo & E & DJ2 & _ & _).
  destruct (dj_els c kind coll0 _ _ DJ2) as (Els' & J').
  assert (Hdeath : death_event ev = false).
  { destruct ev as [n|n ids|n key fl|n i|n i|n i k0 oc|n i ms|n ixs| |n|n sk|n]; try reflexivity.
    - destruct sk; try reflexivity. cbn in Hpre. contradiction.
    - exfalso. exact (Hne n eq_refl). }
  destruct (quiet_counts _ _ _ _ _ (quiet_loop_once ev Hdeath) El) as ((Ffl & Fm & Fg) & C0 & _).
  pose proof (proj2 (sq_loop_once ev _ HW0 _ _ _ El)) as NE.
  set (G := d_next_gw (y_d s)) in *.
  set (W := Wd (y_d s)).
  assert (HW : G <= W) by (unfold W, Wd; fold G; lia).
  pose proof (pool_step c kind Hpos coll0 ev _ cs d' cs' vo W DJd Hpre Hne E Fg HW) as PLx. fold G in PLx.
  assert (Fa : length (d_active d') <= length (d_active (y_d s))).
  { apply NoDup_incl_length; [exact (proj1 (dx_act _ _ _ _ _ _ (proj1 DJ2)))|].
    intros m Hm. destruct (hx_actb _ _ _ _ _ _ _ _ _ _ E m Hm) as [Y|(_ & Y)]; [exact Y|]. fold G in Y. lia. }
  assert (NOSP : forall id sp, ~ In (OHook (HSpawn id sp)) outs).
  { intros id sp Hin. pose proof (count_zero_notin _ _ _ C0 Hin) as F. discriminate. }
  assert (OUTG : forall m, G <= m -> cmds_to m outs = []).
  { intros m Hm. rewrite Eo, cmds_to_vfilter, (hx_out _ _ _ _ _ _ _ _ _ _ E m Hm). destruct (closedb (sc_nt cs) m); reflexivity. }
  set (sA := set_d (set_evq s q) d').
  destruct (apply_outs_frame outs sA) as (F1 & F2 & F3). cbn [sA set_d set_evq y_evq y_d y_dead] in F1, F2, F3.
  assert (UP : forall k, alist_get [] k (y_up (apply_outs sA outs)) = alist_get [] k (y_up s)).
  { intros k. rewrite apply_outs_up; [reflexivity|]. intros id sp Hin. exfalso. exact (NOSP _ _ Hin). }
  assert (DOWN : forall k, alist_get [] k (y_down (apply_outs sA outs)) =
            if mem_nat k (y_dead s) then alist_get [] k (y_down s) else alist_get [] k (y_down s) ++ cmds_to k outs).
  { intros k. rewrite apply_outs_down; [reflexivity|]. intros id sp Hin. exfalso. exact (NOSP _ _ Hin). }
  assert (WOLD : forall k, aget k (y_w (apply_outs sA outs)) = aget k (y_w s)).
  { intros k. rewrite apply_outs_w_none; [reflexivity|]. intros sp Hin. exact (NOSP _ _ Hin). }
  set (s1 := apply_outs sA outs) in *.
  assert (EW : Wd d' = W) by (unfold W, Wd, Rem; rewrite Fg, Ffl, Fm; reflexivity).
  split; [|split].
  2:{ cbn [set_result y_d]. rewrite F2. unfold Kx, Rem. rewrite Ffl, Fm. lia. }
  2:{ cbn [set_result y_d]. rewrite F2. exact Fm. }
  (* the nodes' shares *)
  set (extra := fun k => if mem_nat k (y_dead s) then 0 else dcost c k (cmds_to k outs)).
  assert (Enode : forall k, nodepotx c (set_result s1 rr) k = nodepotx c s k + extra k).
  { intros k. unfold nodepotx, extra. cbn [set_result y_up y_down y_w y_dead]. rewrite F3, UP, DOWN, WOLD.
    destruct (mem_nat k (y_dead s)); [lia|]. unfold dcost. rewrite sumf_app. lia. }
  (* per node: commands and the shutdown budget *)
  assert (Hnode : forall k, In k (seq 0 G) ->
            extra k + sdnS cs' k <= sdnS cs k + sumf (pcostx c W) (flat_map cmd_inds (cmds_to k vo))).
  { intros k Hk. apply in_seq in Hk. assert (HkG : k < G) by lia.
    destruct (aget k (sc_nt cs)) as [f|] eqn:Ef; [|exfalso; apply (proj2 (sx_ntk _ _ _ _ _ _ J k) HkG); exact Ef].
    pose proof (hx_nt _ _ _ _ _ _ _ _ _ _ E k HkG) as R. rewrite Ef in R.
    destruct (aget k (sc_nt cs')) as [f'|] eqn:Ef'; [|destruct R]. cbn in R.
    rewrite (sdnS_some cs k f Ef), (sdnS_some cs' k f' Ef').
    assert (CM : cmds_to k outs = if closedb (sc_nt cs) k then [] else cmds_to k vo) by (rewrite Eo; apply cmds_to_vfilter).
    destruct (closedb (sc_nt cs) k) eqn:Ecl.
    - unfold extra. rewrite CM. unfold dcost. rewrite !sumf_nil.
      destruct (NR_fields _ _ _ R) as (_ & _ & _ & Dsd & _).
      assert (Z : sdterm f' <= sdterm f).
      { unfold sdterm. destruct (n_sdsent f) eqn:Es; [|destruct (n_sdsent f'); unfold SDC; lia].
        rewrite (proj2 Dsd (or_introl eq_refl)). lia. }
      destruct (mem_nat k (y_dead s)); lia.
    - assert (NEk : Forall ne_cmd (cmds_to k outs)) by (apply ne_cmds_to; exact NE).
      rewrite CM in NEk.
      pose proof (NR_costx c Hpos W k f _ f' ltac:(lia) R NEk) as Z.
      unfold extra. rewrite CM. destruct (mem_nat k (y_dead s)); lia. }
  assert (Hsum : sumf extra (seq 0 G) + sumf (sdnS cs') (seq 0 G) <=
                 sumf (sdnS cs) (seq 0 G) +
                 sumf (fun k => sumf (pcostx c W) (flat_map cmd_inds (cmds_to k vo))) (seq 0 G)).
  { rewrite <- !sumf_add. apply sumf_le_in. exact Hnode. }
  unfold muxS. cbn [set_result y_d y_evq]. rewrite F1, F2, Fg. fold G.
  rewrite (sumf_ext_in (nodepotx c (set_result s1 rr)) (fun k => nodepotx c s k + extra k) _ (fun k _ => Enode k)).
  rewrite sumf_add. unfold ctlpotC. rewrite Els', Els, Eevq, Fg, EW. fold G W. cbn [length]. lia.
Qed.

(* ---- LCtl, errordown: the number of deaths the session can still see goes down ---- *)
Lemma loop_KS s n q d' outs :
  XInvCc s -> FIRSTx c coll0 s -> y_result s = None -> y_evq s = QErrorDown n :: q ->
  d_max_restart (y_d s) <> None -> d_loop_once (QErrorDown n) (y_d s) = (d', outs, Ok tt) ->
  Kx d' < Kx (y_d s) /\ d_max_restart d' = d_max_restart (y_d s).
Proof.
  intros X HF Eres Eevq Hmr El. pose proof X as [Lo Hi (cs & DJd & NIs) Eq Eu Ea Er Edead].
  specialize (Ea Eres).
  pose proof (pre_from_invx c kind coll0 s cs _ q X DJd NIs Eevq) as Hpre.
  destruct (dj_els c kind coll0 _ _ DJd) as (Els & J).
  pose proof (first_of_FIRSTx c coll0 s cs _ q HF Eevq Els) as Hfirst.
  destruct (loop_once_okx kind coll0 X0 N Hpos _ _ cs d' outs _ DJd Ea Hpre Hfirst El) as (_ & cs' & vo & Eo & E & DJ2 & _ & _).
  cbn [PREx] in Hpre.
  destruct (hx_err _ _ _ _ _ _ _ _ _ _ E n eq_refl) as (_ & Hnot).
  pose proof (proj1 (dx_act _ _ _ _ _ _ (proj1 DJ2))) as ND'.
  pose proof (loop_once_step _ _ _ _ _ El) as (SM & SF & _ & SP).
  split; [|exact SM].
  set (G := d_next_gw (y_d s)) in *.
  pose proof (filter_neq_lt c Hpos n (d_active (y_d s)) Hpre) as Hlt.
  destruct (d_max_restart (y_d s)) as [m0|] eqn:Emr; [|contradiction].
  unfold Kx, Rem. rewrite SM, Emr.
  destruct SP as [(_ & G0)|(_ & G1 & BA & F1 & _)].
  - assert (Hl : length (d_active d') <= length (filter (fun m => negb (Nat.eqb m n)) (d_active (y_d s)))).
    { apply NoDup_incl_length; [exact ND'|]. intros m Hm. apply filter_In.
      destruct (hx_actb _ _ _ _ _ _ _ _ _ _ E m Hm) as [Y|(_ & Y)]; [|fold G in Y; lia].
      split; [exact Y|]. apply Bool.negb_true_iff, Nat.eqb_neq. intros ->. contradiction. }
    lia.
  - assert (Hl : length (d_active d') <= length (filter (fun m => negb (Nat.eqb m n)) (d_active (y_d s)) ++ [G])).
    { apply NoDup_incl_length; [exact ND'|]. intros m Hm. apply in_or_app.
      destruct (hx_actb _ _ _ _ _ _ _ _ _ _ E m Hm) as [Y|(Y & _)]; [left|right; left; symmetry; exact Y].
      apply filter_In. split; [exact Y|]. apply Bool.negb_true_iff, Nat.eqb_neq. intros ->. contradiction. }
    rewrite app_length in Hl. cbn [length] in Hl.
    unfold budget_allows in BA. rewrite Emr in BA. apply Bool.negb_true_iff, Z.ltb_ge in BA. rewrite F1. lia.
Qed.

End Fixed.
End MuXS.

(* ###################################### part D ###################################### *)
(* ====================================================================================== *)
(* D. every useful move and every crash; the theorems                                      *)
(* ====================================================================================== *)
Section StepS.
Variable c : config.
Variable kind : scope_kind.
Notation N := (c_numnodes c).
Notation X0 := (c_coll c).
Hypothesis Hmode : c_mode c = MScope kind.
Hypothesis Hng : no_garbled c.
Hypothesis Hpos : 0 < N.
Hypothesis Hrq : c_requeue c = 0.

(* the invariant of the reachable states that have not ended: XInvC for SOME collection (it may be re-chosen as
   long as the scheduler has fixed none), and the work queue holds units with work only *)
Definition TInv (s : sys) : Prop := (exists coll0, XInvC c kind coll0 s) /\ WQPd (y_d s).

Theorem step_lexS s l s' o w :
  TInv s -> d_max_restart (y_d s) <> None -> ulabel s l -> sys_step c s l = Some (s', o, w) ->
  y_result s' <> None \/
  (d_max_restart (y_d s') = d_max_restart (y_d s) /\ lexlt (measS c s') (measS c s)).
Proof.
  intros ((coll0a & Xa) & HW0) Hmr Hu H.
  destruct (pickx_ok c kind coll0a s Xa) as (X & HF). set (coll0 := pickx c coll0a s) in *.
  pose proof X as [Lo Hi (cs & DJd & NIs) Eq Eu Ea Er Edead].
  destruct (dj_els c kind coll0 _ _ DJd) as (Els & J).
  assert (SAME_D : forall s2 k, y_d s2 = y_d s -> muxS c s2 + k <= muxS c s -> 0 < k ->
            d_max_restart (y_d s2) = d_max_restart (y_d s) /\ lexlt (measS c s2) (measS c s)).
  { intros s2 k Ed Hm Hk. rewrite Ed. split; [reflexivity|]. right. unfold measS. cbn [fst snd]. rewrite Ed. lia. }
  unfold sys_step in H. destruct (y_result s) eqn:Eres; [discriminate|].
  destruct l as [n0|n0|n0|n0| |n0].
  - (* LDeliver *)
    destruct (mem_nat n0 (y_dead s)) eqn:Hd; [discriminate|].
    destruct (aget n0 (y_down s)) as [[|cmd rest]|] eqn:Ed; try discriminate.
    destruct (aget n0 (y_w s)) as [w0|] eqn:Ew; try discriminate.
    inv H. right. pose proof (worker_ltx c kind coll0 s n0 w0 X Ew) as HnG.
    apply (SAME_D _ 1); [reflexivity| |lia].
    apply (muS_node_stepx c Hpos Hrq _ _ n0); auto.
    + intros n Hn. unfold nodepotx. cbn [y_up y_down y_w y_dead]. rewrite alist_get_aset_neq, aget_aset_neq by exact Hn. reflexivity.
    + unfold nodepotx. cbn [y_up y_down y_w y_dead]. rewrite Hd, alist_get_aset_eq, aget_aset_eq, Ew, (alist_get_some [] _ _ _ Ed).
      rewrite deliver_pot. unfold dcost. rewrite sumf_cons. lia.
  - (* LRecvW *)
    destruct (mem_nat n0 (y_dead s)) eqn:Hd; [discriminate|].
    destruct (aget n0 (y_w s)) as [w0|] eqn:Ew; try discriminate.
    destruct Hu as [Hu|(k & F)]; [|discriminate]. cbn [useful] in Hu. rewrite Ew in Hu.
    destruct (negb (wcb w0)); [discriminate|].
    destruct (recv_step (c_oracle c n0) w0) as [w' evs] eqn:Es. inv H. right.
    pose proof (worker_ltx c kind coll0 s n0 w0 X Ew) as HnG.
    destruct (NIs n0 w0 Ew) as (Iw & Gw & NGw & D). rewrite Hd in D. destruct D as [D1 _ _ _ _ _].
    destruct (NI_recv (c_oracle c n0) _ _ _ _ _ _ _ Gw D1) as (Ev & _). rewrite Es in Ev. cbn [snd] in Ev. subst evs.
    pose proof (recv_step_pot c (c_oracle c n0) n0 w0 Gw (proj1 (ni_wx _ _ _ _ _ _ _ D1)) Hu) as Z. rewrite Es in Z. cbn [fst] in Z.
    apply (SAME_D _ 1); [reflexivity| |lia].
    apply (muS_node_stepx c Hpos Hrq _ _ n0); auto.
    + intros n Hn. unfold nodepotx. cbn [push_up set_w y_up y_down y_w y_dead].
      rewrite alist_get_aset_neq, aget_aset_neq by exact Hn. reflexivity.
    + unfold nodepotx. cbn [push_up set_w y_up y_down y_w y_dead map]. rewrite Hd, alist_get_aset_eq, aget_aset_eq, Ew, app_nil_r. lia.
  - (* LMain *)
    destruct (mem_nat n0 (y_dead s)) eqn:Hd; [discriminate|].
    destruct (aget n0 (y_w s)) as [w0|] eqn:Ew; try discriminate.
    destruct (dies_now c n0 w0) eqn:Edie.
    + inv H. right.
      assert (Hph : wph w0 <> PExited) by (unfold dies_now in Edie; destruct (wph w0); discriminate).
      destruct (muxS_crash c kind Hpos Hrq coll0 s n0 w0 X Hd Ew Hph) as (A & B & C0). split; [exact C0|]. right. unfold measS. cbn [fst snd]. lia.
    + destruct (main_step (c_oracle c n0) w0) as [[w' evs]|] eqn:Es; [|discriminate]. inv H. right.
      pose proof (worker_ltx c kind coll0 s n0 w0 X Ew) as HnG.
      pose proof (main_step_pot c n0 w0 w' evs Es) as Z.
      apply (SAME_D _ 1); [reflexivity| |lia].
      apply (muS_node_stepx c Hpos Hrq _ _ n0); auto.
      * intros n Hn. unfold nodepotx. cbn [push_up set_w y_up y_down y_w y_dead].
        rewrite alist_get_aset_neq, aget_aset_neq by exact Hn. reflexivity.
      * unfold nodepotx. cbn [push_up set_w y_up y_down y_w y_dead]. rewrite Hd, alist_get_aset_eq, aget_aset_eq, Ew, app_length, map_length. lia.
  - (* LRecv *)
    destruct (aget n0 (y_up s)) as [[|m rest]|] eqn:Eup; try discriminate.
    cbn [y_d] in H.
    destruct (process_from_remote n0 m (y_d s)) as [[d' outs] r] eqn:Ep.
    destruct (step_recvx c kind coll0 Hpos Hrq s n0 m rest d' outs r X Eup Ep) as (-> & evs & -> & X2 & _ & _).
    rewrite Eres in X2. cbn [apply_outs] in H. inv H. right.
    pose proof (Eu n0) as En. rewrite (alist_get_some [] _ _ _ Eup) in En. inversion En as [|m1 r1 Gm Gr]; subst.
    assert (Hm : m <> UBad) by (intros ->; exact Gm).
    pose proof (pfr_len' c Hpos _ _ _ _ _ _ Hm Ep) as Hlen.
    match goal with |- context [close_if_dead ?S2 n0] => set (s2 := S2) in * end.
    destruct (muxS_close c kind coll0 s2 n0 X2) as (M1 & M2 & M3). unfold measS, lexlt. cbn [fst snd]. rewrite M1, M2, M3.
    assert (HnG : n0 < d_next_gw (y_d s)).
    { destruct (Nat.lt_ge_cases n0 (d_next_gw (y_d s))) as [Hl|Hl]; [exact Hl|].
      destruct (Hi n0 Hl) as (_ & F & _). rewrite (alist_get_some [] _ _ _ Eup) in F. discriminate. }
    assert (FLD : ctlpotC c d' = ctlpotC c (y_d s) /\ d_next_gw d' = d_next_gw (y_d s) /\ Kx d' = Kx (y_d s) /\
                  d_max_restart d' = d_max_restart (y_d s)).
    { destruct (CrashProgress.pfr_shape' _ _ _ _ _ _ Hm Ep) as [->|(f & Ef & ->)]; [auto|].
      split; [|split; [reflexivity|split; reflexivity]].
      apply (ctlpotC_upd c _ cs n0 f); auto. rewrite <- (d_nt_c _ _ Els). exact Ef. }
    destruct FLD as (CT & EG & EK & EM).
    cbn [s2 set_evq set_d y_d]. split; [exact EM|]. right. split; [lia|].
    unfold muxS. cbn [s2 set_evq set_d y_d y_evq]. rewrite CT, EG, app_length.
    set (G := d_next_gw (y_d s)) in *.
    pose proof (sumf_change_one (nodepotx c s) (nodepotx c s2) (seq 0 G) n0 (seq_NoDup G 0)) as Z.
    assert (Hin : In n0 (seq 0 G)) by (apply in_seq; lia).
    assert (Hoth : forall n, In n (seq 0 G) -> n <> n0 -> nodepotx c s2 n = nodepotx c s n).
    { intros n _ Hn. unfold nodepotx, s2. cbn [set_evq set_d y_up y_down y_w y_dead]. rewrite alist_get_aset_neq by exact Hn. reflexivity. }
    specialize (Z Hin Hoth).
    assert (Hn0 : nodepotx c s2 n0 + 2 = nodepotx c s n0).
    { unfold nodepotx, s2. cbn [set_evq set_d y_up y_down y_w y_dead]. rewrite alist_get_aset_eq, (alist_get_some [] _ _ _ Eup). cbn [length]. lia. }
    lia.
  - (* LCtl *)
    specialize (Ea eq_refl).
    destruct (d_active (y_d s)) as [|a0 ar] eqn:Eact; [contradiction|].
    destruct (y_evq s) as [|ev q] eqn:Eevq; [discriminate|].
    destruct (d_loop_once ev (y_d s)) as [[d' outs] r] eqn:El.
    destruct (step_ctl_corex_g c kind coll0 Hpos Hrq s ev q d' outs r X HF Eres Eevq El) as (-> & _ & _).
    assert (CORE : forall rr,
      let s1 := set_result (apply_outs (set_d (set_evq s q) d') outs) rr in
      d_max_restart (y_d s1) = d_max_restart (y_d s) /\ lexlt (measS c s1) (measS c s)).
    { intros rr. cbv zeta.
      assert (DEC : (exists n, ev = QErrorDown n) \/ (forall n, ev <> QErrorDown n)).
      { destruct ev; try (right; intros ? F; discriminate). left. eexists. reflexivity. }
      destruct DEC as [(n & ->)|Hne].
      - destruct (loop_KS c kind Hpos Hrq coll0 s n q d' outs X HF Eres Eevq Hmr El) as (A & B).
        destruct (apply_outs_frame outs (set_d (set_evq s q) d')) as (_ & F2 & _). cbn [set_d y_d] in F2.
        unfold measS. cbn [set_result y_d fst snd]. rewrite F2. split; [exact B|]. left. cbn. exact A.
      - destruct (muxS_ctl c kind Hpos Hrq coll0 s ev q d' outs rr X HF HW0 Eres Eevq Hne El) as (A & B & C0). cbv zeta in A, B, C0.
        split; [exact C0|]. right. unfold measS. cbn [fst snd]. lia. }
    destruct (d_session_finished d').
    + inv H. left. cbn. destruct (d_shouldstop d'); discriminate.
    + destruct (d_active d') as [|b0 br].
      * left. destruct (d_no_active d') as [[d2 o2] r2]. inv H. cbn. discriminate.
      * assert (Er1 : y_result (apply_outs (set_d (set_evq s q) d') outs) = None).
        { rewrite apply_outs_result. cbn. exact Eres. }
        rewrite <- (set_result_same' _ None Er1) in H. inv H. right. apply CORE.
  - (* LCrash *)
    destruct (mem_nat n0 (y_dead s)) eqn:Hd; [discriminate|].
    destruct (aget n0 (y_w s)) as [w0|] eqn:Ew; try discriminate.
    assert (Hph : wph w0 <> PExited) by (intros F; rewrite F in H; discriminate).
    assert (E : s' = crash_worker c s n0) by (destruct (wph w0); try discriminate; inv H; reflexivity).
    subst s'. right. destruct (muxS_crash c kind Hpos Hrq coll0 s n0 w0 X Hd Ew Hph) as (A & B & C0).
    split; [exact C0|]. right. unfold measS. cbn [fst snd]. lia.
Qed.

(* the invariant is kept by every step, or the session has ended *)
Lemma step_tinv s l s' o w : TInv s -> sys_step c s l = Some (s', o, w) -> TInv s' \/ y_result s' <> None.
Proof.
  intros ((coll0a & Xa) & HW0) H. destruct (pickx_ok c kind coll0a s Xa) as (X & HF).
  destruct (step_xinvc_g c kind _ Hng Hpos Hrq s l s' o w X HF H) as [X'|(R & _)].
  - left. split; [eauto|]. eapply step_wqp; eauto.
  - right. rewrite R. discriminate.
Qed.

Lemma tinv_run ls : TInv (sys_run c ls) \/ y_result (sys_run c ls) <> None.
Proof.
  destruct (xinvc_run_g c kind Hmode Hng Hpos Hrq ls) as [X|(coll0 & R & _)].
  - left. split; [exact X|]. eapply wqp_run; eauto.
  - right. rewrite R. discriminate.
Qed.

Lemma enabled_in_candsS s l : TInv s -> sys_step c s l <> None -> In l (cands s).
Proof.
  intros ((coll0 & X) & _) H. pose proof X as [_ Hi _ _ _ _ _ _].
  assert (W : forall n w0, aget n (y_w s) = Some w0 -> In n (seq 0 (d_next_gw (y_d s)))).
  { intros n w0 Ew. apply in_seq. pose proof (worker_ltx c kind coll0 s n w0 X Ew). lia. }
  assert (IN : forall n (l0 : label), In n (seq 0 (d_next_gw (y_d s))) ->
             In l0 [LDeliver n; LRecvW n; LMain n; LRecv n; LCrash n] -> In l0 (cands s)).
  { intros n l0 Hn Hl. right. apply in_flat_map. exists n. split; assumption. }
  unfold sys_step in H. destruct (y_result s); [congruence|].
  destruct l as [n|n|n|n| |n].
  - destruct (mem_nat n (y_dead s)); [congruence|].
    destruct (aget n (y_down s)) as [[|cm rest]|]; try congruence.
    destruct (aget n (y_w s)) as [w0|] eqn:Ew; [|congruence]. eapply IN; [eapply W; eauto|cbn; auto].
  - destruct (mem_nat n (y_dead s)); [congruence|].
    destruct (aget n (y_w s)) as [w0|] eqn:Ew; [|congruence]. eapply IN; [eapply W; eauto|cbn; auto].
  - destruct (mem_nat n (y_dead s)); [congruence|].
    destruct (aget n (y_w s)) as [w0|] eqn:Ew; [|congruence]. eapply IN; [eapply W; eauto|cbn; auto].
  - destruct (aget n (y_up s)) as [[|m rest]|] eqn:Eu; try congruence.
    eapply IN; [|cbn; auto 10]. apply in_seq.
    destruct (Nat.lt_ge_cases n (d_next_gw (y_d s))) as [Hl|Hl]; [lia|].
    destruct (Hi n Hl) as (_ & F & _). rewrite (alist_get_some [] _ _ _ Eu) in F. discriminate.
  - left. reflexivity.
  - destruct (mem_nat n (y_dead s)); [congruence|].
    destruct (aget n (y_w s)) as [w0|] eqn:Ew; [|congruence]. eapply IN; [eapply W; eauto|cbn; auto 10].
Qed.
End StepS.

Section MainTS.
  Variable c : config.
  Variable kind : scope_kind.
  Hypothesis Hmode : c_mode c = MScope kind.
  Hypothesis Hnogarbled : no_garbled c.
  Hypothesis Hnodes : 0 < c_numnodes c.
  Hypothesis Hrequeue : c_requeue c = 0.
  Variable b : Z.
  Hypothesis Hbudget : c_max_restart c = Some b.

  Notation TInvc := (TInv c kind).
  (* CrashTermination.st_after / inf_run / urun / cands / ulabel / lexlt are those of --dist load *)

  Lemma no_inf_run_fromS s :
    TInvc s -> d_max_restart (y_d s) <> None -> forall f, ~ inf_run c s f.
  Proof.
    intros X Hm. pose proof (lexlt_wf (measS c s)) as A. remember (measS c s) as m eqn:Em.
    revert s X Hm Em. induction A as [m _ IH]. intros s X Hm -> f Hf.
    destruct (Hf 0) as (Hu & He). cbn [st_after] in Hu, He.
    destruct (sys_step c s (f 0)) as [[[s' o] w]|] eqn:E; [|congruence].
    pose proof (inf_run_tail c s f s' o w E Hf) as Hf'.
    assert (DEAD : y_result s' <> None -> False).
    { intros Hr. destruct (Hf' 0) as (_ & He'). cbn [st_after] in He'. apply He'.
      unfold sys_step. destruct (y_result s'); [reflexivity|contradiction]. }
    destruct (step_lexS c kind Hnodes Hrequeue s (f 0) s' o w X Hm Hu E) as [Hr|(Hm' & Hlt)]; [exact (DEAD Hr)|].
    destruct (step_tinv c kind Hnogarbled Hnodes Hrequeue s (f 0) s' o w X E) as [X'|R].
    - apply (IH (measS c s') Hlt s' X' ltac:(congruence) eq_refl _ Hf').
    - exact (DEAD R).
  Qed.

  (* C02 with worker failures, scope family: the lexicographic measure decreases along every useful move and
     every crash of a reachable state (or the session has ended) *)
  Theorem scope_crash_c02_measure : forall ls l s' o w,
    ulabel (sys_run c ls) l -> sys_step c (sys_run c ls) l = Some (s', o, w) ->
    y_result s' <> None \/ lexlt (measS c s') (measS c (sys_run c ls)).
  Proof.
    intros ls l s' o w Hu E. set (s := sys_run c ls) in *.
    assert (Hr : y_result s = None) by (unfold sys_step in E; destruct (y_result s); [discriminate|reflexivity]).
    destruct (tinv_run c kind Hmode Hnogarbled Hnodes Hrequeue ls) as [X|R]; [|contradiction].
    fold s in X.
    assert (Hm : d_max_restart (y_d s) <> None).
    { pose proof (restart_frame c ls) as F. fold s in F. rewrite F, Hbudget. discriminate. }
    destruct (step_lexS c kind Hnodes Hrequeue s l s' o w X Hm Hu E) as [A|(_ & A)]; [left; exact A|right; exact A].
  Qed.

  (* termination: from a reachable state there is no infinite schedule of useful moves and crashes *)
  Theorem scope_crash_c02_terminates : forall ls f, ~ inf_run c (sys_run c ls) f.
  Proof.
    intros ls f. destruct (tinv_run c kind Hmode Hnogarbled Hnodes Hrequeue ls) as [X|R].
    - apply no_inf_run_fromS; [exact X|]. rewrite (restart_frame c ls), Hbudget. discriminate.
    - intros Hf. destruct (Hf 0) as (_ & He). cbn [st_after] in He. apply He.
      unfold sys_step. destruct (y_result (sys_run c ls)); [reflexivity|contradiction].
  Qed.

  Lemma bounded_fromS s :
    TInvc s -> d_max_restart (y_d s) <> None -> exists B, forall ls, urun c s ls -> length ls <= B.
  Proof.
    intros X Hm. pose proof (lexlt_wf (measS c s)) as A. remember (measS c s) as m eqn:Em.
    revert s X Hm Em. induction A as [m _ IH]. intros s X Hm ->.
    assert (SUCC : forall l s' o w, sys_step c s l = Some (s', o, w) -> ulabel s l ->
               exists B, forall r, urun c s' r -> length r <= B).
    { intros l s' o w E Hu.
      destruct (step_lexS c kind Hnodes Hrequeue s l s' o w X Hm Hu E) as [Hr|(Hm' & Hlt)].
      - exists 0. intros r. apply (urun_ended c Hnodes). exact Hr.
      - destruct (step_tinv c kind Hnogarbled Hnodes Hrequeue s l s' o w X E) as [X'|R].
        + apply (IH (measS c s') Hlt s' X' ltac:(congruence) eq_refl).
        + exists 0. intros r. apply (urun_ended c Hnodes). exact R. }
    assert (ALL : forall cs, exists B, forall l, In l cs -> forall s' o w r,
               sys_step c s l = Some (s', o, w) -> ulabel s l -> urun c s' r -> length r <= B).
    { induction cs as [|l cs IHcs]; [exists 0; intros l []|].
      destruct IHcs as (B1 & HB1).
      destruct (sys_step c s l) as [[[s' o] w]|] eqn:E.
      - destruct (ulabel_dec s l) as [Hu|Hnu].
        + destruct (SUCC l s' o w E Hu) as (B2 & HB2). exists (Nat.max B1 B2).
          intros l0 [<-|Hin] s0 o0 w0 r E0 Hu0 Hr.
          * rewrite E in E0. inv E0. specialize (HB2 r Hr). lia.
          * specialize (HB1 l0 Hin s0 o0 w0 r E0 Hu0 Hr). lia.
        + exists B1. intros l0 [<-|Hin] s0 o0 w0 r E0 Hu0 Hr; [contradiction|eapply HB1; eauto].
      - exists B1. intros l0 [<-|Hin] s0 o0 w0 r E0 Hu0 Hr; [congruence|eapply HB1; eauto]. }
    destruct (ALL (cands s)) as (B & HB). exists (S B). intros [|l r] H; [cbn; lia|].
    cbn [urun] in H. destruct H as (Hu & H).
    destruct (sys_step c s l) as [[[s' o] w]|] eqn:E; [|destruct H].
    assert (Hin : In l (cands s)) by (apply (enabled_in_candsS c kind Hnodes Hrequeue); [exact X|congruence]).
    specialize (HB l Hin s' o w r E Hu H). cbn [length]. lia.
  Qed.

  (* termination, bounded form: from every reachable state the runs made of useful moves and crashes have
     bounded length *)
  Theorem scope_crash_c02_bounded : forall ls0, exists B, forall ls, urun c (sys_run c ls0) ls -> length ls <= B.
  Proof.
    intros ls0. destruct (tinv_run c kind Hmode Hnogarbled Hnodes Hrequeue ls0) as [X|R].
    - apply bounded_fromS; [exact X|]. rewrite (restart_frame c ls0), Hbudget. discriminate.
    - exists 0. intros ls. apply (urun_ended c Hnodes). exact R.
  Qed.

  (* ... and a run that cannot be extended by a useful non-crash move has ended the session *)
  Theorem scope_crash_c02_maximal_run_ends : forall ls,
    (forall l, no_crash_label l -> useful (sys_run c ls) l = true -> sys_step c (sys_run c ls) l = None) ->
    y_result (sys_run c ls) <> None.
  Proof.
    intros ls Hmax Hres.
    destruct (scope_crash_c02_no_deadlock_useful c ls kind Hmode Hnogarbled Hnodes Hrequeue Hres) as (l & A & B0 & C0).
    apply C0. apply Hmax; assumption.
  Qed.
End MainTS.

Check step_lexS.
Print Assumptions step_lexS.
Check scope_crash_c02_measure.
Print Assumptions scope_crash_c02_measure.
Check scope_crash_c02_terminates.
Print Assumptions scope_crash_c02_terminates.
Check scope_crash_c02_bounded.
Print Assumptions scope_crash_c02_bounded.
Check scope_crash_c02_maximal_run_ends.
Print Assumptions scope_crash_c02_maximal_run_ends.

(* ###################################### part E ###################################### *)
(* ====================================================================================== *)
(* E. an explicit bound                                                                    *)
(* ====================================================================================== *)
Section BoundS.
Variable c : config.
Variable kind : scope_kind.
Notation N := (c_numnodes c).
Notation X0 := (c_coll c).
Hypothesis Hmode : c_mode c = MScope kind.
Hypothesis Hng : no_garbled c.
Hypothesis Hpos : 0 < N.
Hypothesis Hrq : c_requeue c = 0.

Notation Pw W := (sumf (pcostx c W)).
Notation sdnS := TerminationScope.sdnS.
Notation sdnS_some := TerminationScope.sdnS_some.

(* all the not-completed tests the scheduler holds, in the work queue and in the books *)
Definition tokpotC (W : nat) (cs : scstate) : nat :=
  match sc_coll cs with None => prepoolx c W | Some cl => Pw W (tokx cl cs) end.
(* the potential an errordown may create: every one of the Kx deaths still possible may return all tests to the
   work queue; every replacement that may still be started boots and is to be told to shut down *)
Definition ExS (d : dstate) : nat :=
  match d_sched d with
  | StC cs => Kx d * tokpotC (Wd d) cs + sumf (bootc c) (seq (d_next_gw d) (Rem d))
  | _ => 0
  end.
Definition PhiS (s : sys) : nat := muxS c s + ExS (y_d s).

Lemma poolpotC_mono W' W cs : W' <= W -> poolpotC c W' cs <= poolpotC c W cs.
Proof. intros H. unfold poolpotC. destruct (sc_coll cs); [apply (Pw_mono c Hpos)|apply (prepoolx_mono c Hpos)]; exact H. Qed.
Lemma tokpotC_mono W' W cs : W' <= W -> tokpotC W' cs <= tokpotC W cs.
Proof. intros H. unfold tokpotC. destruct (sc_coll cs); [apply (Pw_mono c Hpos)|apply (prepoolx_mono c Hpos)]; exact H. Qed.

Lemma ExS_upd d cs n f' :
  d_sched d = StC cs ->
  ExS (d_set_nt d (aset n f' (d_nt d))) = ExS d /\ Kx (d_set_nt d (aset n f' (d_nt d))) = Kx d.
Proof.
  intros Els. split; [|reflexivity]. unfold ExS. rewrite (d_set_nt_schedc d cs n f' Els), Els. reflexivity.
Qed.

Section FixedB.
Variable coll0 : list string.
Notation XInvCc := (XInvC c kind coll0).
Notation SJxc := (SJx kind coll0 X0 N).
Notation DJxc := (DJx kind coll0 X0 N).
Notation HEFFxc := (HEFFx kind coll0 X0 N).
Notation PRExc := (PREx coll0 X0).

(* the tokens never gain weight *)
Lemma tokpot_stepS ev d cs d' cs' vo W :
  HEFFxc ev d cs d' cs' vo -> SJxc (d_next_gw d) cs -> d_next_gw d' <= W ->
  tokpotC W cs' <= tokpotC W cs.
Proof.
  intros E J HW. pose proof (dx_sj _ _ _ _ _ _ (hx_dj _ _ _ _ _ _ _ _ _ _ E)) as J'.
  unfold tokpotC. destruct (sc_coll cs) as [cl|] eqn:Ec.
  - destruct (sx_coll _ _ _ _ _ _ J cl Ec) as (-> & _).
    destruct (hx_tok _ _ _ _ _ _ _ _ _ _ E) as (Ec' & Pm); [rewrite Ec; discriminate|].
    rewrite Ec', Ec. pose proof (sumf_perm (pcostx c W) _ _ Pm) as SP. rewrite sumf_app in SP. lia.
  - destruct (hx_tok0 _ _ _ _ _ _ _ _ _ _ E Ec) as [(Ec' & Et)|(Ec' & Pm)]; rewrite Ec'; [lia|].
    destruct (fixed_coll_source c kind Hpos coll0 _ cs' J') as (k & HkG & Ek); [rewrite Ec'; discriminate|].
    pose proof (allx_le c kind Hpos coll0 W k ltac:(lia) Ek) as AL. rewrite (sumf_perm (pcostx c W) _ _ Pm). exact AL.
Qed.

(* what a controller turn (ANY event) sends, virtually, and what it leaves in the work queue is covered by the tokens *)
Lemma pool_any ev d cs d' cs' vo W :
  HEFFxc ev d cs d' cs' vo -> SJxc (d_next_gw d) cs -> d_next_gw d <= d_next_gw d' -> d_next_gw d' <= W ->
  poolpotC c W cs' + sumf (fun k => Pw W (flat_map cmd_inds (cmds_to k vo))) (seq 0 (d_next_gw d)) <= tokpotC W cs.
Proof.
  intros E J HG HW. pose proof (dx_sj _ _ _ _ _ _ (hx_dj _ _ _ _ _ _ _ _ _ _ E)) as J'.
  set (G := d_next_gw d) in *. set (G' := d_next_gw d') in *. set (f := pcostx c W).
  assert (SENT : sumf (fun k => sumf f (flat_map cmd_inds (cmds_to k vo))) (seq 0 G) <=
                 sumf (fun k => sumf f (bookn coll0 cs' k)) (seq 0 G')).
  { rewrite (seq_split0 c Hpos G G' HG), sumf_app.
    assert (Z : sumf (fun k => sumf f (flat_map cmd_inds (cmds_to k vo))) (seq 0 G) <=
                sumf (fun k => sumf f (bookn coll0 cs' k)) (seq 0 G)).
    { apply sumf_le_in. intros k _. rewrite (hx_bk _ _ _ _ _ _ _ _ _ _ E k), sumf_app. lia. }
    lia. }
  pose proof (tok_split c kind Hpos coll0 G' cs' f J') as T'.
  assert (COV : sc_coll cs' = Some coll0 ->
            poolpotC c W cs' + sumf (fun k => sumf f (flat_map cmd_inds (cmds_to k vo))) (seq 0 G) <= sumf f (tokx coll0 cs')).
  { intros Ec'. unfold poolpotC. rewrite Ec'. fold f. lia. }
  pose proof (tokpot_stepS ev d cs d' cs' vo W E J HW) as TS. unfold tokpotC in TS |- *.
  destruct (sc_coll cs) as [cl|] eqn:Ec.
  - destruct (sx_coll _ _ _ _ _ _ J cl Ec) as (-> & _).
    destruct (hx_tok _ _ _ _ _ _ _ _ _ _ E) as (Ec' & _); [rewrite Ec; discriminate|].
    rewrite Ec in Ec'. rewrite Ec' in TS. specialize (COV Ec'). fold f in TS |- *. lia.
  - destruct (hx_tok0 _ _ _ _ _ _ _ _ _ _ E Ec) as [(Ec' & Et)|(Ec' & Pm)].
    + rewrite Et, sumf_nil in T'. unfold poolpotC. rewrite Ec'. fold f. lia.
    + rewrite Ec' in TS. specialize (COV Ec'). fold f in TS |- *. lia.
Qed.

(* the facts about one controller turn *)
Lemma ctl_setup s ev q d' outs :
  XInvCc s -> FIRSTx c coll0 s -> y_result s = None -> y_evq s = ev :: q ->
  d_loop_once ev (y_d s) = (d', outs, Ok tt) ->
  exists cs cs' vo, DJxc (y_d s) cs /\ PRExc ev (y_d s) cs /\ outs = vfilter (sc_nt cs) vo /\
    HEFFxc ev (y_d s) cs d' cs' vo /\ DJxc d' cs'.
Proof.
  intros X HF Eres Eevq El. pose proof X as [Lo Hi (cs & DJd & NIs) Eq Eu Ea Er Edead].
  specialize (Ea Eres).
  pose proof (pre_from_invx c kind coll0 s cs ev q X DJd NIs Eevq) as Hpre.
  destruct (dj_els c kind coll0 _ _ DJd) as (Els & J).
  pose proof (first_of_FIRSTx c coll0 s cs ev q HF Eevq Els) as Hfirst.
  destruct (loop_once_okx kind coll0 X0 N Hpos ev _ cs d' outs _ DJd Ea Hpre Hfirst El) as (_ & cs' & vo & Eo & E & DJ2 & _ & _).
  exists cs, cs', vo. auto.
Qed.

(* ---- LCtl, any event but errordown ---- *)
Lemma phiS_ctl s ev q d' outs rr :
  XInvCc s -> FIRSTx c coll0 s -> WQPd (y_d s) -> y_result s = None -> y_evq s = ev :: q ->
  (forall n, ev <> QErrorDown n) -> d_loop_once ev (y_d s) = (d', outs, Ok tt) ->
  let s' := set_result (apply_outs (set_d (set_evq s q) d') outs) rr in
  PhiS s' + 1 <= PhiS s.
Proof.
  intros X HF HW0 Eres Eevq Hne El. cbv zeta.
  destruct (muxS_ctl c kind Hpos Hrq coll0 s ev q d' outs rr X HF HW0 Eres Eevq Hne El) as (A & B & C0). cbv zeta in A, B, C0.
  destruct (ctl_setup s ev q d' outs X HF Eres Eevq El) as (cs & cs' & vo & DJd & Hpre & Eo & E & DJ2).
  destruct (dj_els c kind coll0 _ _ DJd) as (Els & J). destruct (dj_els c kind coll0 _ _ DJ2) as (Els' & J').
  assert (Hdeath : death_event ev = false).
  { destruct ev as [n|n ids|n key fl|n i|n i|n i k0 oc|n i ms|n ixs| |n|n sk|n]; try reflexivity.
    - destruct sk; try reflexivity. cbn in Hpre. contradiction.
    - exfalso. exact (Hne n eq_refl). }
  destruct (quiet_counts _ _ _ _ _ (quiet_loop_once ev Hdeath) El) as ((Ffl & Fm & Fg) & _ & _).
  destruct (apply_outs_frame outs (set_d (set_evq s q) d')) as (_ & F2 & _). cbn [set_d y_d] in F2.
  cbn [set_result y_d] in B. rewrite F2 in B.
  assert (EW : Wd d' = Wd (y_d s)) by (unfold Wd, Rem; rewrite Fg, Ffl, Fm; reflexivity).
  assert (ER : Rem d' = Rem (y_d s)) by (unfold Rem; rewrite Ffl, Fm; reflexivity).
  assert (HW : d_next_gw d' <= Wd (y_d s)) by (rewrite Fg; unfold Wd; lia).
  pose proof (tokpot_stepS ev _ cs d' cs' vo _ E J HW) as TS.
  unfold PhiS. cbn [set_result y_d]. rewrite F2. unfold ExS. rewrite Els', Els, EW, ER, Fg.
  pose proof (Nat.mul_le_mono _ _ _ _ B TS). lia.
Qed.

(* ---- LCtl, errordown ---- *)
Lemma phiS_err s n q d' outs rr :
  XInvCc s -> FIRSTx c coll0 s -> WQPd (y_d s) -> y_result s = None -> y_evq s = QErrorDown n :: q ->
  d_max_restart (y_d s) <> None -> d_loop_once (QErrorDown n) (y_d s) = (d', outs, Ok tt) ->
  let s' := set_result (apply_outs (set_d (set_evq s q) d') outs) rr in
  PhiS s' + 1 <= PhiS s.
Proof.
  intros X HF HW0 Eres Eevq Hmr El. cbv zeta.
  destruct (loop_KS c kind Hpos Hrq coll0 s n q d' outs X HF Eres Eevq Hmr El) as (KS & SM).
  destruct (ctl_setup s _ q d' outs X HF Eres Eevq El) as (cs & cs' & vo & DJd & Hpre & Eo & E & DJ2).
  destruct (dj_els c kind coll0 _ _ DJd) as (Els & J). destruct (dj_els c kind coll0 _ _ DJ2) as (Els' & J').
  pose proof X as [Lo Hi _ Eq Eu _ _ Edead].
  pose proof (proj2 (sq_loop_once _ _ HW0 _ _ _ El)) as NE.
  pose proof (loop_once_step _ _ _ _ _ El) as (_ & SF & _ & SP).
  set (G := d_next_gw (y_d s)) in *.
  set (W := Wd (y_d s)).
  destruct (d_max_restart (y_d s)) as [m0|] eqn:Emr; [|contradiction].
  (* spawned or not *)
  assert (SPW : (d_next_gw d' = G /\ (forall id sp, ~ In (OHook (HSpawn id sp)) outs) /\ Rem d' <= Rem (y_d s)) \/
                (d_next_gw d' = S G /\ (exists sp, In (OHook (HSpawn G sp)) outs) /\
                 (forall id sp, In (OHook (HSpawn id sp)) outs -> id = G) /\ Rem (y_d s) = S (Rem d'))).
  { unfold Rem. rewrite SM, Emr. destruct SP as [(C0 & G0)|(C1 & G1 & BA & F1 & sp & SPx)].
    - left. split; [exact G0|]. split; [|lia]. intros id sp Hin. pose proof (count_zero_notin _ _ _ C0 Hin) as F. discriminate.
    - right. split; [exact G1|]. split; [|split].
      + destruct (count_pos_in _ _ C1) as (x & Hx & Fx). exists sp. rewrite <- (SPx x Hx Fx). exact Hx.
      + intros id sp' Hin. specialize (SPx _ Hin eq_refl). inv SPx. reflexivity.
      + unfold budget_allows in BA. rewrite Emr in BA. apply Bool.negb_true_iff, Z.ltb_ge in BA. rewrite F1. lia. }
  assert (GW : G <= d_next_gw d') by (destruct SPW as [(A & _)|(A & _)]; lia).
  assert (HW' : d_next_gw d' <= W /\ Wd d' <= W).
  { unfold W, Wd. fold G. destruct SPW as [(A & _ & B)|(A & _ & _ & B)]; rewrite A; lia. }
  destruct HW' as (HGW & HWW).
  assert (SPID : forall id sp, In (OHook (HSpawn id sp)) outs -> id = G /\ d_next_gw d' = S G).
  { intros id sp Hin. destruct SPW as [(_ & F & _)|(A & _ & B & _)]; [exfalso; exact (F _ _ Hin)|]. split; [eapply B; eauto|exact A]. }
  assert (OUTG : forall m, G <= m -> cmds_to m outs = []).
  { intros m Hm. rewrite Eo, cmds_to_vfilter, (hx_out _ _ _ _ _ _ _ _ _ _ E m Hm). destruct (closedb (sc_nt cs) m); reflexivity. }
  set (sA := set_d (set_evq s q) d').
  destruct (apply_outs_frame outs sA) as (F1 & F2 & F3). cbn [sA set_d set_evq y_evq y_d y_dead] in F1, F2, F3.
  assert (UP : forall k, alist_get [] k (y_up (apply_outs sA outs)) = alist_get [] k (y_up s)).
  { intros k. rewrite apply_outs_up; [reflexivity|]. intros id sp Hin. destruct (SPID _ _ Hin) as (-> & _).
    cbn [sA set_d set_evq y_up]. apply (Hi G). lia. }
  assert (DOWN : forall k, alist_get [] k (y_down (apply_outs sA outs)) =
            if mem_nat k (y_dead s) then alist_get [] k (y_down s) else alist_get [] k (y_down s) ++ cmds_to k outs).
  { intros k. rewrite apply_outs_down; [reflexivity|]. intros id sp Hin. destruct (SPID _ _ Hin) as (-> & _).
    split; [apply OUTG; lia|]. cbn [sA set_d set_evq y_down]. apply (Hi G). lia. }
  assert (WOLD : forall k, k < G -> aget k (y_w (apply_outs sA outs)) = aget k (y_w s)).
  { intros k Hk. rewrite apply_outs_w_none; [reflexivity|]. intros sp Hin. destruct (SPID _ _ Hin) as (-> & _). lia. }
  set (s1 := apply_outs sA outs) in *.
  (* the old nodes' shares *)
  set (extra := fun k => if mem_nat k (y_dead s) then 0 else dcost c k (cmds_to k outs)).
  assert (Enode : forall k, k < G -> nodepotx c (set_result s1 rr) k = nodepotx c s k + extra k).
  { intros k Hk. unfold nodepotx, extra. cbn [set_result y_up y_down y_w y_dead]. rewrite F3, UP, DOWN, (WOLD k Hk).
    destruct (mem_nat k (y_dead s)); [lia|]. unfold dcost. rewrite sumf_app. lia. }
  assert (Hnode : forall k, In k (seq 0 G) ->
            extra k + sdnS cs' k <= sdnS cs k + Pw W (flat_map cmd_inds (cmds_to k vo))).
  { intros k Hk. apply in_seq in Hk. assert (HkG : k < G) by lia.
    destruct (aget k (sc_nt cs)) as [f|] eqn:Ef; [|exfalso; apply (proj2 (sx_ntk _ _ _ _ _ _ J k) HkG); exact Ef].
    pose proof (hx_nt _ _ _ _ _ _ _ _ _ _ E k HkG) as R. rewrite Ef in R.
    destruct (aget k (sc_nt cs')) as [f'|] eqn:Ef'; [|destruct R]. cbn in R.
    rewrite (sdnS_some cs k f Ef), (sdnS_some cs' k f' Ef').
    assert (CM : cmds_to k outs = if closedb (sc_nt cs) k then [] else cmds_to k vo) by (rewrite Eo; apply cmds_to_vfilter).
    destruct (closedb (sc_nt cs) k) eqn:Ecl.
    - unfold extra. rewrite CM. unfold dcost. rewrite !sumf_nil.
      destruct (NR_fields _ _ _ R) as (_ & _ & _ & Dsd & _).
      assert (Z : sdterm f' <= sdterm f).
      { unfold sdterm. destruct (n_sdsent f) eqn:Es; [|destruct (n_sdsent f'); unfold SDC; lia].
        rewrite (proj2 Dsd (or_introl eq_refl)). lia. }
      destruct (mem_nat k (y_dead s)); lia.
    - assert (NEk : Forall ne_cmd (cmds_to k outs)) by (apply ne_cmds_to; exact NE).
      rewrite CM in NEk.
      pose proof (NR_costx c Hpos W k f _ f' ltac:(unfold W, Wd; fold G; lia) R NEk) as Z.
      unfold extra. rewrite CM. destruct (mem_nat k (y_dead s)); lia. }
  assert (Hsum : sumf extra (seq 0 G) + sumf (sdnS cs') (seq 0 G) <=
                 sumf (sdnS cs) (seq 0 G) + sumf (fun k => Pw W (flat_map cmd_inds (cmds_to k vo))) (seq 0 G)).
  { rewrite <- !sumf_add. apply sumf_le_in. exact Hnode. }
  assert (Eold : sumf (nodepotx c (set_result s1 rr)) (seq 0 G) = sumf (nodepotx c s) (seq 0 G) + sumf extra (seq 0 G)).
  { rewrite <- sumf_add. apply sumf_ext_in. intros k Hk. apply Enode. apply in_seq in Hk. lia. }
  pose proof (pool_any _ _ cs d' cs' vo W E J GW HGW) as POOL. fold G in POOL.
  pose proof (tokpot_stepS _ _ cs d' cs' vo W E J HGW) as TOK.
  pose proof (poolpotC_mono (Wd d') W cs' HWW) as PM. pose proof (tokpotC_mono (Wd d') W cs' HWW) as TM.
  assert (KT : Kx d' * tokpotC (Wd d') cs' + tokpotC W cs <= Kx (y_d s) * tokpotC W cs).
  { assert (K1 : Kx d' <= Kx (y_d s) - 1) by lia.
    pose proof (Nat.mul_le_mono _ _ _ _ K1 (Nat.le_trans _ _ _ TM TOK)) as Z.
    assert (K2 : Kx (y_d s) * tokpotC W cs = (Kx (y_d s) - 1) * tokpotC W cs + tokpotC W cs).
    { replace (Kx (y_d s)) with (S (Kx (y_d s) - 1)) at 1 by lia. cbn [Nat.mul]. lia. }
    lia. }
  unfold PhiS, muxS. cbn [set_result y_d y_evq]. rewrite F1, F2. unfold ctlpotC, ExS. rewrite Els', Els, Eevq. fold G W.
  cbn [length].
  destruct SPW as [(A & Fno & RM)|(A & (spx & Hin) & _ & RM)]; rewrite A.
  - (* the budget is used up: no replacement *)
    rewrite Eold.
    assert (BT : sumf (bootc c) (seq G (Rem d')) <= sumf (bootc c) (seq G (Rem (y_d s)))).
    { replace (Rem (y_d s)) with (Rem d' + (Rem (y_d s) - Rem d')) by lia. rewrite seq_app, sumf_app. lia. }
    lia.
  - (* a replacement worker boots *)
    rewrite seq_S, !sumf_app, Eold. cbn [Nat.add]. rewrite !sumf_cons, !sumf_nil.
    assert (NG : nodepotx c (set_result s1 rr) G = wpot c G w_init).
    { unfold nodepotx. cbn [set_result y_up y_down y_w y_dead]. rewrite F3, UP, DOWN.
      assert (HdG : mem_nat G (y_dead s) = false).
      { apply mem_nat_false. intros Hin'. specialize (Edead _ Hin'). fold G in Edead. lia. }
      rewrite HdG. destruct (Hi G (le_n G)) as (_ & UG & DG). rewrite UG, DG, (OUTG G (le_n G)).
      unfold s1. rewrite (apply_outs_spawned outs sA G) by (right; eauto). unfold dcost. cbn. lia. }
    assert (SG : sdnS cs' G <= SDC).
    { unfold TerminationScope.sdnS. destruct (option_map n_sdsent (aget G (sc_nt cs'))) as [[|]|]; unfold SDC; lia. }
    rewrite NG, RM. cbn [seq]. rewrite sumf_cons. unfold bootc at 2. lia.
Qed.
End FixedB.

(* every label but LCtl leaves the controller's part of the potential alone *)
Lemma nonctl_frameS coll0 s l s' o w :
  XInvC c kind coll0 s -> l <> LCtl -> sys_step c s l = Some (s', o, w) -> ExS (y_d s') = ExS (y_d s).
Proof.
  intros X Hl H. pose proof X as [_ _ (cs & DJd & _) _ Eu _ _ _]. destruct (dj_els c kind coll0 _ _ DJd) as (Els & _).
  unfold sys_step in H. destruct (y_result s) eqn:Eres; [discriminate|].
  assert (CR : forall n, ExS (y_d (crash_worker c s n)) = ExS (y_d s)).
  { intros n. unfold crash_worker. cbn [y_d]. destruct (c_strict c); [|auto].
    destruct (aget n (d_nt (y_d s))); [|auto]. apply (ExS_upd _ cs). exact Els. }
  destruct l as [n0|n0|n0|n0| |n0]; [| | | |contradiction|].
  - destruct (mem_nat n0 (y_dead s)); [discriminate|].
    destruct (aget n0 (y_down s)) as [[|cmd rest]|]; try discriminate.
    destruct (aget n0 (y_w s)); try discriminate. injection H as <- <- <-. auto.
  - destruct (mem_nat n0 (y_dead s)); [discriminate|].
    destruct (aget n0 (y_w s)) as [w0|]; try discriminate.
    destruct (negb (wcb w0)); [discriminate|].
    destruct (recv_step (c_oracle c n0) w0). injection H as <- <- <-. auto.
  - destruct (mem_nat n0 (y_dead s)); [discriminate|].
    destruct (aget n0 (y_w s)) as [w0|]; try discriminate.
    destruct (dies_now c n0 w0); [injection H as <- <- <-; apply CR|].
    destruct (main_step (c_oracle c n0) w0) as [[w' evs]|]; [|discriminate]. injection H as <- <- <-. auto.
  - destruct (aget n0 (y_up s)) as [[|m rest]|] eqn:Eup; try discriminate. cbn [y_d] in H.
    destruct (process_from_remote n0 m (y_d s)) as [[d' outs] r] eqn:Ep.
    destruct (step_recvx c kind coll0 Hpos Hrq s n0 m rest d' outs r X Eup Ep) as (-> & evs & -> & X2 & _ & _).
    cbn [apply_outs] in H. injection H as <- <- <-.
    pose proof (Eu n0) as En. rewrite (alist_get_some [] _ _ _ Eup) in En. inversion En as [|m1 r1 Gm Gr]; subst.
    assert (Hm : m <> UBad) by (intros ->; exact Gm).
    match goal with |- context [close_if_dead ?S2 n0] => set (s2 := S2) in * end.
    assert (A2 : ExS (y_d s2) = ExS (y_d s)).
    { cbn [s2 set_evq set_d y_d]. destruct (CrashProgress.pfr_shape' _ _ _ _ _ _ Hm Ep) as [->|(f & Ef & ->)]; [auto|].
      apply (ExS_upd _ cs). exact Els. }
    assert (A3 : ExS (y_d (close_if_dead s2 n0)) = ExS (y_d s2)).
    { pose proof X2 as [_ _ (cs2 & DJ2 & _) _ _ _ _ _]. destruct (dj_els c kind coll0 _ _ DJ2) as (Els2 & _).
      unfold close_if_dead. destruct (mem_nat n0 (y_dead s2)); [|auto].
      destruct (aget n0 (d_nt (y_d s2))) as [f|]; [|auto]. destruct (n_down f); [|auto].
      cbn [set_d y_d]. apply (ExS_upd _ cs2). exact Els2. }
    congruence.
  - destruct (mem_nat n0 (y_dead s)); [discriminate|].
    destruct (aget n0 (y_w s)) as [w0|]; try discriminate.
    destruct (wph w0); try discriminate; injection H as <- <- <-; apply CR.
Qed.

(* ---- every useful move and every crash makes PhiS smaller ---- *)
Theorem step_phiS s l s' o w :
  TInv c kind s -> d_max_restart (y_d s) <> None -> ulabel s l -> sys_step c s l = Some (s', o, w) ->
  y_result s' <> None \/ (d_max_restart (y_d s') = d_max_restart (y_d s) /\ PhiS s' + 1 <= PhiS s).
Proof.
  intros T Hmr Hu H. destruct (label_eq_ctl l) as [->|Hl].
  - destruct T as ((coll0a & Xa) & HW0).
    destruct (pickx_ok c kind coll0a s Xa) as (X & HF). set (coll0 := pickx c coll0a s) in *.
    pose proof X as [_ _ _ _ _ Ea _ _].
    pose proof (step_max_restart c s LCtl s' o w H) as SMR.
    unfold sys_step in H. destruct (y_result s) eqn:Eres; [discriminate|]. specialize (Ea eq_refl).
    destruct (d_active (y_d s)) as [|a0 ar] eqn:Eact; [contradiction|].
    destruct (y_evq s) as [|ev q] eqn:Eevq; [discriminate|].
    destruct (d_loop_once ev (y_d s)) as [[d' outs] r] eqn:El.
    destruct (step_ctl_corex_g c kind coll0 Hpos Hrq s ev q d' outs r X HF Eres Eevq El) as (-> & _ & _).
    assert (CORE : forall rr, PhiS (set_result (apply_outs (set_d (set_evq s q) d') outs) rr) + 1 <= PhiS s).
    { intros rr.
      assert (DEC : (exists n, ev = QErrorDown n) \/ (forall n, ev <> QErrorDown n)).
      { destruct ev; try (right; intros ? F; discriminate). left. eexists. reflexivity. }
      destruct DEC as [(n & ->)|Hne].
      - exact (phiS_err coll0 s n q d' outs rr X HF HW0 Eres Eevq Hmr El).
      - exact (phiS_ctl coll0 s ev q d' outs rr X HF HW0 Eres Eevq Hne El). }
    destruct (d_session_finished d').
    + inv H. left. cbn. destruct (d_shouldstop d'); discriminate.
    + destruct (d_active d') as [|b0 br].
      * left. destruct (d_no_active d') as [[d2 o2] r2]. inv H. cbn. discriminate.
      * assert (Er1 : y_result (apply_outs (set_d (set_evq s q) d') outs) = None).
        { rewrite apply_outs_result. cbn. exact Eres. }
        rewrite <- (set_result_same' _ None Er1) in H. inv H. right. split; [exact SMR|apply CORE].
  - destruct (step_lexS c kind Hpos Hrq s l s' o w T Hmr Hu H) as [A|(A & B)]; [left; exact A|right].
    split; [exact A|]. destruct T as ((coll0 & X) & _).
    pose proof (nonctl_frameS coll0 s l s' o w X Hl H) as FE.
    (* a label other than LCtl never touches Kx: the potential itself went down *)
    assert (KE : Kx (y_d s') = Kx (y_d s)).
    { pose proof X as [_ _ (cs & DJd & _) _ Eu _ _ _]. destruct (dj_els c kind coll0 _ _ DJd) as (Els & _).
      clear B FE. unfold sys_step in H. destruct (y_result s) eqn:Eres; [discriminate|].
      assert (CR : forall n, Kx (y_d (crash_worker c s n)) = Kx (y_d s)).
      { intros n. unfold crash_worker. cbn [y_d]. destruct (c_strict c); [|auto]. destruct (aget n (d_nt (y_d s))); reflexivity. }
      destruct l as [n0|n0|n0|n0| |n0]; [| | | |contradiction|].
      - destruct (mem_nat n0 (y_dead s)); [discriminate|].
        destruct (aget n0 (y_down s)) as [[|cmd rest]|]; try discriminate.
        destruct (aget n0 (y_w s)); try discriminate. injection H as <- <- <-. auto.
      - destruct (mem_nat n0 (y_dead s)); [discriminate|].
        destruct (aget n0 (y_w s)) as [w0|]; try discriminate.
        destruct (negb (wcb w0)); [discriminate|].
        destruct (recv_step (c_oracle c n0) w0). injection H as <- <- <-. auto.
      - destruct (mem_nat n0 (y_dead s)); [discriminate|].
        destruct (aget n0 (y_w s)) as [w0|]; try discriminate.
        destruct (dies_now c n0 w0); [injection H as <- <- <-; apply CR|].
        destruct (main_step (c_oracle c n0) w0) as [[w' evs]|]; [|discriminate]. injection H as <- <- <-. auto.
      - destruct (aget n0 (y_up s)) as [[|m rest]|] eqn:Eup; try discriminate. cbn [y_d] in H.
        destruct (process_from_remote n0 m (y_d s)) as [[d' outs] r] eqn:Ep.
        destruct (step_recvx c kind coll0 Hpos Hrq s n0 m rest d' outs r X Eup Ep) as (-> & evs & -> & X2 & _ & _).
        rewrite Eres in X2. cbn [apply_outs] in H. injection H as <- <- <-.
        pose proof (Eu n0) as En. rewrite (alist_get_some [] _ _ _ Eup) in En. inversion En as [|m1 r1 Gm Gr]; subst.
        assert (Hm : m <> UBad) by (intros ->; exact Gm).
        match goal with |- context [close_if_dead ?S2 n0] => set (s2 := S2) in * end.
        rewrite (proj1 (proj2 (muxS_close c kind coll0 s2 n0 X2))). cbn [s2 set_evq set_d y_d].
        destruct (CrashProgress.pfr_shape' _ _ _ _ _ _ Hm Ep) as [->|(f & Ef & ->)]; reflexivity.
      - destruct (mem_nat n0 (y_dead s)); [discriminate|].
        destruct (aget n0 (y_w s)) as [w0|]; try discriminate.
        destruct (wph w0); try discriminate; injection H as <- <- <-; apply CR. }
    unfold PhiS. rewrite FE. destruct B as [B|(_ & B)]; unfold measS in B; cbn [fst snd] in B; lia.
Qed.
End BoundS.

Section MainBS.
  Variable c : config.
  Variable kind : scope_kind.
  Hypothesis Hmode : c_mode c = MScope kind.
  Hypothesis Hnogarbled : no_garbled c.
  Hypothesis Hnodes : 0 < c_numnodes c.
  Hypothesis Hrequeue : c_requeue c = 0.
  Variable b : Z.
  Hypothesis Hbudget : c_max_restart c = Some b.

  Lemma urun_boundS : forall ls s,
    TInv c kind s -> d_max_restart (y_d s) <> None -> urun c s ls -> length ls <= S (PhiS c s).
  Proof.
    induction ls as [|l r IH]; intros s X Hm H; [cbn; lia|].
    cbn [urun] in H. destruct H as (Hu & H).
    destruct (sys_step c s l) as [[[s' o] w]|] eqn:E; [|destruct H].
    destruct (step_phiS c kind Hnodes Hrequeue s l s' o w X Hm Hu E) as [Hres|(Hm' & Hlt)].
    - pose proof (urun_ended c Hnodes s' r Hres H). cbn [length]. lia.
    - destruct (step_tinv c kind Hnogarbled Hnodes Hrequeue s l s' o w X E) as [X'|R].
      + assert (Hm2 : d_max_restart (y_d s') <> None) by congruence.
        specialize (IH s' X' Hm2 H). cbn [length]. lia.
      + pose proof (urun_ended c Hnodes s' r R H). cbn [length]. lia.
  Qed.

  (* C02 with worker failures, scope family, termination with an EXPLICIT bound: from a reachable state s a run
     of useful moves and crashes is at most PhiS c s + 1 long *)
  Theorem scope_crash_c02_bound : forall ls0 ls,
    urun c (sys_run c ls0) ls -> length ls <= S (PhiS c (sys_run c ls0)).
  Proof.
    intros ls0 ls H. destruct (tinv_run c kind Hmode Hnogarbled Hnodes Hrequeue ls0) as [X|R].
    - apply urun_boundS; auto. rewrite (restart_frame c ls0), Hbudget. discriminate.
    - pose proof (urun_ended c Hnodes _ ls R H). lia.
  Qed.

  Corollary scope_crash_c02_bound_init : forall ls, urun c (sys_init c) ls -> length ls <= S (PhiS c (sys_init c)).
  Proof. intros ls H. exact (scope_crash_c02_bound [] ls H). Qed.
End MainBS.

Check step_phiS.
Print Assumptions step_phiS.
Check scope_crash_c02_bound.
Print Assumptions scope_crash_c02_bound.
Check scope_crash_c02_bound_init.

(* ====================================================================================== *)
(* Non-vacuity: concrete sessions with crashes, evaluated                                  *)
(* ====================================================================================== *)
Fixpoint measS_trace (c : config) (s : sys) (ls : list label) : list (nat * nat) :=
  match ls with
  | [] => [measS c s]
  | l :: r => measS c s :: match sys_step c s l with Some (s', _, _) => measS_trace c s' r | None => [] end
  end.
(* every move of the schedule is enabled and is useful or a crash *)
Fixpoint urunb (c : config) (s : sys) (ls : list label) : bool :=
  match ls with
  | [] => true
  | l :: r => (useful s l || match l with LCrash _ => true | _ => false end) &&
              match sys_step c s l with Some (s', _, _) => urunb c s' r | None => false end
  end.
Lemma urunb_ok c ls : forall s, urunb c s ls = true -> urun c s ls.
Proof.
  induction ls as [|l r IH]; intros s H; [exact I|]. cbn [urunb urun] in *.
  apply andb_prop in H. destruct H as (H1 & H2). split.
  - apply Bool.orb_prop in H1. destruct H1 as [H1|H1]; [left; exact H1|right]. destruct l; try discriminate. eexists. reflexivity.
  - destruct (sys_step c s l) as [[[s' o] w]|]; [apply IH; exact H2|discriminate].
Qed.

(* (a) the session of CrashProgressScope.cps_ex_greedy_two_crashes (--dist loadfile, 2 workers, files a b c, 8
   tests, budget 4; worker 0 dies entering test 4, worker 1 is killed before move 60): 149 moves, every one of
   them useful or a crash, "finished".  The measure starts at (6, 3682) -- 2 active nodes + 4 restarts; 3682 is
   mostly the price of the not yet fixed collection -- and decreases lexicographically along the whole run.
   The potential goes UP exactly at the two controller turns that handle an errordown (the dead node's units
   return to the work queue, a replacement boots), where the first component goes down *)
Example cts_ex_trace :
  let c := csx_cfg csx_crash04 in
  let ls := crp_greedy c (sys_init c) 3000 0 [(60, 1)] in
  let tr := measS_trace c (sys_init c) ls in
  measS c (sys_init c) = (6, 3682) /\ length ls = 149 /\ urunb c (sys_init c) ls = true /\
  y_result (sys_run c ls) = Some RFinished /\ y_dead (sys_run c ls) = [1; 0] /\
  decreasing tr = true /\
  filter (fun p => Nat.ltb (snd (fst p)) (snd (snd p))) (combine tr (tl tr)) =
    [((6, 132), (5, 300)); ((5, 26), (4, 270))].
Proof. vm_compute. repeat split. Qed.

(* (b) strict channels, three workers, a worker entering test 5 dies, five workers (replacements included) are
   killed from outside: the budget (3) is used up by the fourth death, the session still ends, the measure
   decreases *)
Definition cts_cfg_strict : config :=
  {| c_mode := MScope KFile; c_numnodes := 3; c_chunk := None; c_maxfail := 0%Z; c_max_restart := Some 3%Z;
     c_requeue := 0; c_coll := fun _ => csx_coll; c_oracle := fun _ => csx_oracle 8;
     c_dur := fun _ => 0%Z; c_crash_in := fun _ i => Nat.eqb i 5; c_strict := true; c_spec := fun _ => 0 |}.
Example cts_ex_strict :
  let c := cts_cfg_strict in
  let ls := crp_greedy c (sys_init c) 3000 0 [(30, 1); (45, 0); (70, 2); (100, 3); (120, 4)] in
  urunb c (sys_init c) ls = true /\ y_result (sys_run c ls) = Some RFinished /\
  y_dead (sys_run c ls) = [4; 3; 2; 0; 1] /\ d_next_gw (y_d (sys_run c ls)) = 6 /\
  measS c (sys_init c) = (6, 3699) /\ decreasing (measS_trace c (sys_init c) ls) = true.
Proof. vm_compute. repeat split. Qed.

(* (c) a replacement worker that collects a different list (CrashScopeTheorems.csx_cfg_diff): no hypothesis on
   the collections is needed; the run ends with the documented RuntimeError("no active workers") *)
Example cts_ex_diff :
  let c := csx_cfg_diff in
  let ls := crp_greedy c (sys_init c) 3000 0 [] in
  urunb c (sys_init c) ls = true /\ y_result (sys_run c ls) = Some (RError ERuntimeNoWorkers) /\
  decreasing (measS_trace c (sys_init c) ls) = true.
Proof. vm_compute. repeat split. Qed.

(* (d) the theorems instantiated: at the state of CrashProgressScope.cps_ex_after_crash (both workers dead, both
   still active for the controller, file c queued) and for whole runs of (a) *)
Example cts_ex_theorems_apply :
  let c := csx_cfg csx_crash04 in
  (forall f, ~ inf_run c (sys_run c cps_after_crash) f) /\
  (exists B, forall ls, urun c (sys_run c cps_after_crash) ls -> length ls <= B) /\
  (exists B, forall ls, urun c (sys_init c) ls -> length ls <= B) /\
  urun c (sys_init c) (crp_greedy c (sys_init c) 3000 0 [(60, 1)]).
Proof.
  cbv zeta. destruct (csx_hyps csx_crash04) as (H1 & H2 & H3 & _ & H5). split; [|split; [|split]].
  - intros f. apply (scope_crash_c02_terminates _ KFile H1 H2 H3 H5 4%Z eq_refl).
  - apply (scope_crash_c02_bounded _ KFile H1 H2 H3 H5 4%Z eq_refl).
  - apply (scope_crash_c02_bounded _ KFile H1 H2 H3 H5 4%Z eq_refl []).
  - apply urunb_ok. vm_compute. reflexivity.
Qed.
Print Assumptions cts_ex_theorems_apply.

(* (e) WITHOUT a restart budget (c_max_restart = None: a --tx-only run) every dead worker is replaced: one
   worker, and ten times in a row the (replacement) worker is killed before it boots, its end marker is read
   and its errordown handled.  The session has not ended, the group counter is at 11, Kx never moved: this can
   go on for ever -- termination needs the finite budget (the recorded C10 finding, here for --dist loadfile) *)
Definition cts_cfg_none : config :=
  {| c_mode := MScope KFile; c_numnodes := 1; c_chunk := None; c_maxfail := 0%Z; c_max_restart := None;
     c_requeue := 0; c_coll := fun _ => csx_coll; c_oracle := fun _ => csx_oracle 8;
     c_dur := fun _ => 0%Z; c_crash_in := fun _ _ => false; c_strict := false; c_spec := fun _ => 0 |}.
Example cts_ex_unbounded_restarts :
  let s := sys_run cts_cfg_none (flat_map crt_kill_round (seq 0 10)) in
  y_result s = None /\ d_next_gw (y_d s) = 11 /\ length (y_dead s) = 10 /\ d_active (y_d s) = [10] /\
  Kx (y_d s) = Kx (y_d (sys_init cts_cfg_none)).
Proof. vm_compute. repeat split. Qed.

(* (f) the explicit bound: for the session of (a) PhiS starts at 25 638 (the run takes 149 moves) and goes down
   with every move of the run, the two errordown turns included; every run of useful moves and crashes from the
   initial state is at most 25 639 long *)
Fixpoint phiS_trace (c : config) (s : sys) (ls : list label) : list nat :=
  match ls with
  | [] => [PhiS c s]
  | l :: r => PhiS c s :: match sys_step c s l with Some (s', _, _) => phiS_trace c s' r | None => [] end
  end.
Example cts_ex_phi :
  let c := csx_cfg csx_crash04 in
  let ls := crp_greedy c (sys_init c) 3000 0 [(60, 1)] in
  PhiS c (sys_init c) = (25 * 1000 + 638) /\ muxS c (sys_init c) = 3682 /\ length ls = 149 /\
  strictly_dec (phiS_trace c (sys_init c) ls) = true /\
  (forall ls', urun c (sys_init c) ls' -> length ls' <= S (25 * 1000 + 638)).
Proof.
  cbv zeta. split; [vm_compute; reflexivity|]. split; [vm_compute; reflexivity|]. split; [vm_compute; reflexivity|].
  split; [vm_compute; reflexivity|].
  intros ls' H. destruct (csx_hyps csx_crash04) as (H1 & H2 & H3 & _ & H5).
  pose proof (scope_crash_c02_bound_init _ KFile H1 H2 H3 H5 4%Z eq_refl ls' H) as Z.
  assert (E : S (PhiS (csx_cfg csx_crash04) (sys_init (csx_cfg csx_crash04))) = S (25 * 1000 + 638)) by (vm_compute; reflexivity).
  rewrite E in Z. exact Z.
Qed.
Print Assumptions cts_ex_phi.
