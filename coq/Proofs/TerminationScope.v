(* TerminationScope.v -- property C02, the termination half, for the scope family of schedulers
   (--dist loadscope / loadfile / loadgroup: mode [MScope kind]) without worker failure: a measure
   that strictly decreases along every useful move.

   muS c kind s adds up, for everything that still has to happen, the number of moves it can still
   cause.  The shares of the wires, the workers and the controller's event queue are those of
   Termination.v (nodepot: commands on a wire or in an inbox, queued items, the rest of the protocol
   of the running test, messages on a wire up); the controller's share is, for every work unit still
   in the (virtual) work queue, the cost of sending it as one command to any worker and of running
   its tests there (bcost), plus the shutdown command each node is still to be sent.  Every useful
   enabled non-crash move (Progress.useful: not an idle turn of a worker's receiver thread) makes muS
   strictly smaller (step_muS), hence a schedule of useful moves from the initial state is at most
   muS c kind (sys_init c) long (c02s_terminates), and a schedule of useful moves that cannot be
   extended has ended the session (c02s_maximal_run_ends, with ProgressScope.c02s_no_deadlock_useful). *)
From XV Require Import Base Worker Ctl SchedLoad SchedSteal SchedScope SchedEach Sched DSession System
  NoHook DSessionProofs WorkerProofs LoadProofs FifoProofs ExactlyOnce Coupling Completeness Progress Termination
  ScopeProofs ScopeSystem ScopeCoupling ProgressScope.
From XV Require LivenessLaws.
From Coq Require Import Permutation.
Open Scope nat_scope.

Lemma sumf_subl {A} (f : A -> nat) a b : subl a b -> sumf f a <= sumf f b.
Proof. intros (x & Hx). rewrite <- (sumf_perm f _ _ Hx), sumf_app. lia. Qed.

(* the blocks of the run commands in a list of commands *)
Definition runs (cs : list cmd) : list (list nat) :=
  flat_map (fun cm => match cm with CRun ixs => [ixs] | _ => [] end) cs.

Lemma runs_cmds_to n outs : runs (cmds_to n outs) = blocks_to n outs.
Proof.
  induction outs as [|x outs IH]; [reflexivity|].
  unfold cmds_to, blocks_to, runs in *. cbn [flat_map]. rewrite flat_map_app, IH. f_equal.
  destruct x as [h|m cm| |]; try reflexivity. cbn [cmd_to block_to].
  destruct cm; destruct (Nat.eqb m n); reflexivity.
Qed.

(* ====================================================================================== *)
(* the measure                                                                             *)
(* ====================================================================================== *)
Section MuS.
Variable c : config.
Variable kind : scope_kind.
Notation N := (c_numnodes c).
Notation coll0 := (c_coll c 0).

(* a test of a unit in the work queue: it may be run by any worker *)
Definition tcost (i : nat) : nat := 2 + sumf (fun n => Tst c n i) (seq 0 N).
(* a unit: one command (one hop on the wire, one turn of the receiver thread) and its tests *)
Definition bcost (b : list nat) : nat := 2 + sumf tcost b.
Definition poolpotS (cs : scstate) : nat := sumf bcost (map (ixs_of coll0) (vpool kind coll0 cs)).
Definition sdnS (cs : scstate) (n : nat) : nat :=
  match option_map n_sdsent (aget n (sc_nt cs)) with Some false => SDC | _ => 0 end.
Definition ctlpotS (d : dstate) : nat :=
  match d_sched d with StC cs => poolpotS cs + sumf (sdnS cs) (seq 0 N) | _ => 0 end.

Definition muS (s : sys) : nat :=
  ctlpotS (y_d s) + length (y_evq s) + sumf (nodepot c s) (seq 0 N).

Lemma run_cost_leS n ixs : n < N -> 2 + sumf (rcost c n) (map Idx ixs) <= bcost ixs.
Proof.
  intros HnN. unfold bcost.
  assert (G : sumf (rcost c n) (map Idx ixs) <= sumf tcost ixs).
  { induction ixs as [|i l IH]; [cbn; lia|]. cbn [map]. rewrite !sumf_cons. unfold rcost at 1, tcost at 1.
    cbn [icost]. pose proof (Tst_le_sum c n i HnN). lia. }
  lia.
Qed.

Lemma NR_costS n f cs f' :
  n < N -> NR f cs f' -> dcost c n cs + sdterm f' <= sdterm f + sumf bcost (runs cs).
Proof.
  intros HnN R. induction R as [f|f ixs cs f' Hs R IH|f cs f' Hs R IH].
  - unfold dcost. cbn [runs flat_map]. rewrite !sumf_nil. lia.
  - unfold dcost in *. rewrite sumf_cons.
    unfold runs in *. cbn [flat_map app]. rewrite sumf_cons. unfold cmdcost at 1. cbn [cmd_items].
    pose proof (run_cost_leS n ixs HnN). lia.
  - destruct (NR_sdsent_true _ _ _ R eq_refl) as (-> & ->). unfold dcost. rewrite sumf_cons, sumf_nil.
    unfold cmdcost. cbn [cmd_items runs flat_map app]. rewrite sumf_cons, !sumf_nil.
    unfold rcost, sdterm, SDC. cbn. rewrite Hs. lia.
Qed.

Lemma sdnS_some cs n f : aget n (sc_nt cs) = Some f -> sdnS cs n = sdterm f.
Proof. intros E. unfold sdnS, sdterm. rewrite E. cbn. destruct (n_sdsent f); reflexivity. Qed.
End MuS.

(* ====================================================================================== *)
(* every useful move makes the measure smaller                                             *)
(* ====================================================================================== *)
Section StepMuS.
Variable c : config.
Variable kind : scope_kind.
Notation N := (c_numnodes c).
Notation coll0 := (c_coll c 0).
Hypothesis Hnc : forall n i, c_crash_in c n i = false.
Hypothesis Hng : no_garbled c.
Hypothesis Hne : ~ In ""%string coll0.
Hypothesis Hsame : forall n, c_coll c n = coll0.
Hypothesis Hpos : 0 < N.

(* only node n0's share changes *)
Lemma muS_node_step s s' n0 k :
  y_d s' = y_d s -> y_evq s' = y_evq s -> n0 < N ->
  (forall n, n <> n0 -> nodepot c s' n = nodepot c s n) ->
  nodepot c s' n0 + k <= nodepot c s n0 -> muS c kind s' + k <= muS c kind s.
Proof.
  intros Ed Eq HnN Hoth Hn0. unfold muS. rewrite Ed, Eq.
  pose proof (sumf_change_one (nodepot c s) (nodepot c s') (seq 0 N) n0 (seq_NoDup N 0)) as X.
  assert (Hin : In n0 (seq 0 N)) by (apply in_seq; lia).
  specialize (X Hin (fun n _ Hn => Hoth n Hn)). lia.
Qed.

Lemma ok_up'_ok_up m : ok_up' coll0 m -> ok_up m.
Proof. destruct m; cbn; auto. intros ->. exact Hne. Qed.

Theorem step_muS s l s' o w :
  no_crash_label l -> useful s l = true -> XInv c kind s -> sys_step c s l = Some (s', o, w) ->
  muS c kind s' + 1 <= muS c kind s.
Proof.
  intros Hl Hu XI H.
  pose proof XI as [Inv Ek (cs & DJd & NIs) Eq Eu Edn Ea Er Epm Efn Edw].
  pose proof Inv as [A B (cs0 & Bk & Ecs0 & I & St & T) D E F G NG].
  pose proof DJd as (J0 & Jss). pose proof J0 as [Els J Jb Jp Jg Jc].
  assert (cs0 = cs) by congruence. subst cs0.
  unfold sys_step in H. destruct (y_result s) eqn:Eres; [discriminate|].
  destruct l as [n0|n0|n0|n0| |n0]; [| | | | |contradiction].
  - (* LDeliver *)
    replace (mem_nat n0 (y_dead s)) with false in H by (rewrite A; reflexivity).
    destruct (aget n0 (y_down s)) as [[|cmd rest]|] eqn:Ed; try discriminate.
    destruct (aget n0 (y_w s)) as [w0|] eqn:Ew; try discriminate.
    fin3 H s' o w. pose proof (worker_lt c s n0 w0 Ek Ew) as HnN.
    apply (muS_node_step _ _ n0); auto.
    + intros n Hn. unfold nodepot. cbn [y_up y_down y_w]. rewrite alist_get_aset_neq, aget_aset_neq by exact Hn. reflexivity.
    + unfold nodepot. cbn [y_up y_down y_w]. rewrite alist_get_aset_eq, aget_aset_eq, Ew, (alist_get_some [] _ _ _ Ed).
      rewrite deliver_pot. unfold dcost. rewrite sumf_cons. lia.
  - (* LRecvW *)
    replace (mem_nat n0 (y_dead s)) with false in H by (rewrite A; reflexivity).
    destruct (aget n0 (y_w s)) as [w0|] eqn:Ew; try discriminate.
    cbn [useful] in Hu. rewrite Ew in Hu.
    destruct (negb (wcb w0)); [discriminate|].
    destruct (recv_step (c_oracle c n0) w0) as [w' evs] eqn:Es. fin3 H s' o w.
    pose proof (worker_lt c s n0 w0 Ek Ew) as HnN.
    destruct (G _ _ Ew) as (Iw & Gw).
    pose proof (proj1 (ni_wx _ _ _ _ _ _ _ (NIs n0 w0 Ew))) as Hrep.
    destruct (NI_recv (c_oracle c n0) _ _ _ _ _ _ _ Gw (NIs n0 w0 Ew)) as (Ev & _). rewrite Es in Ev. cbn [snd] in Ev.
    subst evs.
    pose proof (recv_step_pot c (c_oracle c n0) n0 w0 Gw Hrep Hu) as X. rewrite Es in X. cbn [fst] in X.
    apply (muS_node_step _ _ n0); auto.
    + intros n Hn. apply nodepot_push_other. exact Hn.
    + rewrite nodepot_push. unfold nodepot. rewrite Ew. cbn [map length]. lia.
  - (* LMain *)
    replace (mem_nat n0 (y_dead s)) with false in H by (rewrite A; reflexivity).
    destruct (aget n0 (y_w s)) as [w0|] eqn:Ew; try discriminate.
    assert (Hd : dies_now c n0 w0 = false).
    { unfold dies_now. destruct (wph w0); auto. }
    rewrite Hd in H.
    destruct (main_step (c_oracle c n0) w0) as [[w' evs]|] eqn:Es; [|discriminate]. fin3 H s' o w.
    pose proof (worker_lt c s n0 w0 Ek Ew) as HnN.
    pose proof (main_step_pot c n0 w0 w' evs Es) as X.
    apply (muS_node_step _ _ n0); auto.
    + intros n Hn. apply nodepot_push_other. exact Hn.
    + rewrite nodepot_push. unfold nodepot. rewrite Ew, map_length. lia.
  - (* LRecv *)
    destruct (aget n0 (y_up s)) as [[|m rest]|] eqn:Eup; try discriminate.
    cbn [y_d] in H.
    destruct (process_from_remote n0 m (y_d s)) as [[d' outs] r] eqn:Ep.
    pose proof (E n0) as En. rewrite (alist_get_some [] _ _ _ Eup) in En.
    inversion En as [|m1 r1 Gm Gr]; subst.
    destruct (Eu n0) as (Eu1 & Eu2). rewrite (alist_get_some [] _ _ _ Eup) in Eu1, Eu2.
    inversion Eu1 as [|m2 r2 Gm3 Gr3]; subst.
    assert (HnN : n0 < N).
    { destruct (Nat.lt_ge_cases n0 N) as [X|X]; [exact X|]. specialize (Eu2 X). discriminate. }
    destruct (aget n0 (sc_nt cs)) as [f|] eqn:Ef.
    2:{ exfalso. apply (proj2 (sj_ntk _ _ _ _ J n0)); [exact HnN|exact Ef]. }
    destruct (worker_known c s n0 Ek HnN) as (wn & Ewn).
    assert (Hdn : n_down f = true -> up_sig m = []).
    { intros Hd. destruct (Edw cs n0 f wn Els Ef Hd Ewn) as (X & _).
      rewrite (alist_get_some [] _ _ _ Eup) in X. cbn [flat_map] in X. apply app_eq_nil in X. tauto. }
    destruct (pfr_effc c _ _ _ _ _ _ _ _ Els Ef Gm Gm3 HnN Hdn Ep)
      as (-> & evs & cs' & -> & Els' & Hsig & Hok3 & S1 & S2 & S3 & Hcs').
    pose proof (pfr_len _ _ _ _ _ _ (ok_up'_ok_up _ Gm) Ep) as Hlen.
    cbn [apply_outs] in H. unfold close_if_dead in H. cbn [set_evq set_d y_dead] in H.
    replace (mem_nat n0 (y_dead s)) with false in H by (rewrite A; reflexivity).
    fin3 H s' o w.
    match goal with |- muS c kind ?x + 1 <= _ => set (s2 := x) end.
    assert (E1 : y_d s2 = d') by reflexivity. assert (E2 : y_evq s2 = y_evq s ++ evs) by reflexivity.
    unfold muS. rewrite E1, E2, app_length.
    assert (Ec : ctlpotS c kind d' = ctlpotS c kind (y_d s)).
    { unfold ctlpotS. rewrite Els', Els. destruct Hcs' as [->|(-> & _)]; [reflexivity|]. f_equal.
      apply sumf_ext_in. intros k _. unfold sdnS. cbn [sc_set_nt sc_nt]. rewrite LoadProofs.aget_aset.
      destruct (Nat.eqb k n0) eqn:E0; [|reflexivity]. apply Nat.eqb_eq in E0. subst k. rewrite Ef. reflexivity. }
    rewrite Ec.
    pose proof (sumf_change_one (nodepot c s) (nodepot c s2) (seq 0 N) n0 (seq_NoDup N 0)) as X.
    assert (Hin : In n0 (seq 0 N)) by (apply in_seq; lia).
    assert (Hoth : forall n, In n (seq 0 N) -> n <> n0 -> nodepot c s2 n = nodepot c s n).
    { intros n _ Hn. unfold nodepot, s2. cbn [set_evq set_d y_up y_down y_w]. rewrite alist_get_aset_neq by exact Hn. reflexivity. }
    specialize (X Hin Hoth).
    assert (Hn0 : nodepot c s2 n0 + 2 = nodepot c s n0).
    { unfold nodepot, s2. cbn [set_evq set_d y_up y_down y_w]. rewrite alist_get_aset_eq, (alist_get_some [] _ _ _ Eup). cbn [length]. lia. }
    lia.
  - (* LCtl *)
    specialize (Ea eq_refl).
    destruct (d_active (y_d s)) as [|a0 ar] eqn:Eact; [contradiction|].
    destruct (y_evq s) as [|ev q] eqn:Eevq; [discriminate|].
    inversion D as [|ev1 q1 Gev Gq]; subst. inversion Eq as [|ev2 q2 Gev3 Gq3]; subst.
    destruct (d_loop_once ev (y_d s)) as [[d' outs] r] eqn:El.
    assert (Hpre : PRE coll0 N ev (y_d s) cs).
    { eapply pre_from_invc; eauto. }
    assert (Hact : d_active (y_d s) <> []) by (rewrite Eact; discriminate).
    destruct (loop_once_okc kind coll0 Hne N Hpos ev (y_d s) cs d' outs r DJd Hact Hpre El) as (-> & cs' & LE).
    destruct (dok_loop_once kind coll0 Hne ev (y_d s) Gev _ _ _ El cs Els I) as (cs2 & Els2 & _ & HCT).
    assert (Els' : d_sched d' = StC cs').
    { destruct (le_dj _ _ _ _ _ _ _ _ _ LE) as ([E1 _ _ _ _ _] & _). exact E1. }
    assert (cs2 = cs') by congruence. subst cs2.
    pose proof HCT as (us & EV1 & EV2 & Go).
    set (s1 := apply_outs (set_d (set_evq s q) d') outs) in *.
    assert (Hd1 : y_dead (set_d (set_evq s q) d') = []) by (cbn; exact A).
    destruct (apply_outs_eff outs _ Hd1 Go) as (A1 & A2 & A3 & A4 & A5 & A6 & A7).
    cbn [set_d set_evq y_d y_evq y_up y_w y_dead y_result y_down] in A1, A2, A3, A4, A5, A6, A7.
    fold s1 in A1, A2, A3, A4, A5, A6, A7.
    assert (S' : exists rr, s' = set_result s1 rr).
    { destruct (d_session_finished d') eqn:Efin.
      - fin3 H s' o w. eexists. reflexivity.
      - destruct (d_active d') as [|b0 br] eqn:Eact'.
        + exfalso. pose proof (le_fin _ _ _ _ _ _ _ _ _ LE) as Hf. rewrite Eact' in Hf. specialize (Hf eq_refl).
          unfold d_session_finished in Efin. rewrite Hf, Eact' in Efin. discriminate.
        + fin3 H s' o w. exists (y_result s1). symmetry. apply set_result_same. reflexivity. }
    destruct S' as (rr & ->).
    assert (Emu : muS c kind (set_result s1 rr) = muS c kind s1) by reflexivity. rewrite Emu. clear Emu.
    (* the nodes' shares: what was sent is added to the wires down *)
    assert (Enode : forall n, nodepot c s1 n = nodepot c s n + dcost c n (cmds_to n outs)).
    { intros n. unfold nodepot. rewrite A3, A4, A7. unfold dcost. rewrite sumf_app. lia. }
    (* per node: commands and the shutdown budget *)
    assert (Hnode : forall n, In n (seq 0 N) ->
              dcost c n (cmds_to n outs) + sdnS cs' n <= sdnS cs n + sumf (bcost c) (blocks_to n outs)).
    { intros n Hn. apply in_seq in Hn. assert (HnN : n < N) by lia.
      destruct (aget n (sc_nt cs)) as [f|] eqn:Ef.
      2:{ exfalso. apply (proj2 (sj_ntk _ _ _ _ J n)); [exact HnN|exact Ef]. }
      pose proof (le_nt _ _ _ _ _ _ _ _ _ LE n) as R. rewrite Ef in R.
      destruct (aget n (sc_nt cs')) as [f'|] eqn:Ef'; [|destruct R]. cbn in R.
      rewrite (sdnS_some cs n f Ef), (sdnS_some cs' n f' Ef'), <- runs_cmds_to.
      exact (NR_costS c n f _ f' HnN R). }
    assert (Hsum : sumf (fun n => dcost c n (cmds_to n outs)) (seq 0 N) + sumf (sdnS cs') (seq 0 N) <=
                   sumf (sdnS cs) (seq 0 N) + sumf (bcost c) (cruns outs)).
    { pose proof (sumf_subl (bcost c) _ _ (blocks_to_sub outs (seq 0 N) (seq_NoDup N 0))) as Hs.
      rewrite sumf_flat_map in Hs.
      assert (Hle : sumf (fun x => dcost c x (cmds_to x outs) + sdnS cs' x) (seq 0 N) <=
                    sumf (fun x => sdnS cs x + sumf (bcost c) (blocks_to x outs)) (seq 0 N))
        by (apply sumf_le_in; exact Hnode).
      rewrite !sumf_add in Hle. lia. }
    (* the work queue *)
    assert (Hpool : sumf (bcost c) (cruns outs) + poolpotS c kind cs' = poolpotS c kind cs).
    { unfold poolpotS. rewrite EV1, map_app, sumf_app, EV2. reflexivity. }
    unfold muS. rewrite A1, A2. cbn [length].
    rewrite (sumf_ext_in (nodepot c s1) (fun n => nodepot c s n + dcost c n (cmds_to n outs)) _ (fun n _ => Enode n)).
    rewrite sumf_add. unfold ctlpotS. rewrite Els', Els, Eevq. cbn [length]. lia.
Qed.

End StepMuS.

(* ====================================================================================== *)
(* the theorems                                                                            *)
(* ====================================================================================== *)
(* Termination.useful_run: a schedule in which every move is enabled, useful and not a crash *)
Section MainTS.
  Variable c : config.
  Variable kind : scope_kind.
  Hypothesis Hmode : c_mode c = MScope kind.
  Hypothesis Hnocrash : forall n i, c_crash_in c n i = false.
  Hypothesis Hnogarbled : no_garbled c.
  Hypothesis Hids : forall n, ~ In ""%string (c_coll c n).
  Hypothesis Hsame : forall n, c_coll c n = c_coll c 0.
  Hypothesis Hnodes : 0 < c_numnodes c.

  Lemma useful_run_boundS ls : forall s, XInv c kind s -> useful_run c s ls -> length ls <= muS c kind s.
  Proof.
    induction ls as [|l r IH]; intros s XI H; [cbn; lia|]. cbn [useful_run] in H. destruct H as (A & B & H).
    destruct (sys_step c s l) as [[[s' o] w]|] eqn:E; [|destruct H].
    pose proof (step_muS c kind Hnocrash (Hids 0) Hnodes s l s' o w A B XI E) as X.
    pose proof (step_xinv c kind Hnocrash Hnogarbled (Hids 0) Hsame Hnodes s l s' o w A XI E) as XI'.
    specialize (IH s' XI' H). cbn [length]. lia.
  Qed.

  (* C02, termination: a schedule of useful moves is at most muS c kind (sys_init c) long *)
  Theorem c02s_terminates : forall ls, useful_run c (sys_init c) ls -> length ls <= muS c kind (sys_init c).
  Proof.
    intros ls H. apply useful_run_boundS; [|exact H].
    apply (XInv_init c kind Hnodes). exact Hmode.
  Qed.

  Corollary c02s_terminates_bound : exists B, forall ls, useful_run c (sys_init c) ls -> length ls <= B.
  Proof. exists (muS c kind (sys_init c)). exact c02s_terminates. Qed.

  (* ... and a schedule of useful moves that cannot be extended by a useful move has ended the session *)
  Theorem c02s_maximal_run_ends : forall ls,
    useful_run c (sys_init c) ls -> (forall l, ~ useful_run c (sys_init c) (ls ++ [l])) ->
    y_result (sys_run c ls) <> None.
  Proof.
    intros ls H Hmax Hres.
    pose proof (useful_run_nocrash c ls _ H) as Hnc.
    destruct (c02s_no_deadlock_useful c ls kind Hmode Hnocrash Hnogarbled Hids Hsame Hnc Hnodes Hres) as (l & A & B & C).
    apply (Hmax l). apply useful_run_snoc; auto.
  Qed.
End MainTS.

Print Assumptions step_muS.
Print Assumptions c02s_terminates.
Print Assumptions c02s_maximal_run_ends.
Check step_muS.
Check c02s_terminates.
Check c02s_terminates_bound.
Check c02s_maximal_run_ends.

(* ====================================================================================== *)
(* Non-vacuity                                                                             *)
(* ====================================================================================== *)
(* Termination.greedy: the scheduler that always takes the first useful move.  For the 2-worker,
   6-file configuration ProgressScope.ps_cfg the bound is 202; the greedy schedule ends the session as
   "finished" after 120 moves, every one of them useful *)
Example terms_ex_ps :
  let ls := greedy ps_cfg (sys_init ps_cfg) 1000 in
  muS ps_cfg KFile (sys_init ps_cfg) = 202 /\ length ls = 120 /\
  useful_run ps_cfg (sys_init ps_cfg) ls /\ y_result (sys_run ps_cfg ls) = Some RFinished.
Proof.
  cbv zeta. split; [vm_compute; reflexivity|]. split; [vm_compute; reflexivity|].
  split; [apply useful_runb_ok; vm_compute; reflexivity|vm_compute; reflexivity].
Qed.

(* the measure along that schedule: it starts at the bound and goes down with every move *)
Fixpoint muS_trace (c : config) (k : scope_kind) (s : sys) (ls : list label) : list nat :=
  match ls with
  | [] => [muS c k s]
  | l :: r => muS c k s :: match sys_step c s l with Some (s', _, _) => muS_trace c k s' r | None => [] end
  end.
Fixpoint decreasing (l : list nat) : bool :=
  match l with
  | a :: ((b :: _) as r) => (b <? a) && decreasing r
  | _ => true
  end.
Example terms_ex_trace :
  let tr := muS_trace ps_cfg KFile (sys_init ps_cfg) (greedy ps_cfg (sys_init ps_cfg) 1000) in
  firstn 8 tr = [202; 201; 200; 199; 198; 197; 196; 194] /\ decreasing tr = true /\ length tr = 121.
Proof. vm_compute. repeat split. Qed.

(* the theorems apply to that configuration: every schedule of useful moves is at most 202 long, and
   the greedy schedule, which cannot be extended, has ended the session *)
Example terms_ex_theorems_apply :
  (forall ls, useful_run ps_cfg (sys_init ps_cfg) ls -> length ls <= 202) /\
  y_result (sys_run ps_cfg (greedy ps_cfg (sys_init ps_cfg) 1000)) <> None.
Proof.
  destruct (c06_hyps KFile ps_coll [] ps_coll_ids (Forall_nil _)) as (H1 & H2 & H3 & H4 & H5 & _).
  assert (Hn : 0 < c_numnodes ps_cfg) by (cbn; lia).
  split.
  - intros ls H. pose proof (c02s_terminates ps_cfg KFile H1 H2 H3 H4 H5 Hn ls H) as X.
    replace (muS ps_cfg KFile (sys_init ps_cfg)) with 202 in X by (vm_compute; reflexivity). exact X.
  - apply (c02s_maximal_run_ends ps_cfg KFile H1 H2 H3 H4 H5 Hn).
    + apply useful_runb_ok. vm_compute. reflexivity.
    + intros l Hl.
      (* the session has ended after the greedy schedule, so no move is enabled *)
      assert (Hres : y_result (sys_run ps_cfg (greedy ps_cfg (sys_init ps_cfg) 1000)) = Some RFinished)
        by (vm_compute; reflexivity).
      revert Hl. generalize (greedy ps_cfg (sys_init ps_cfg) 1000) Hres. intros g Hg.
      rewrite sys_run_from in Hg. revert Hg. generalize (sys_init ps_cfg).
      induction g as [|x g IH]; intros s0 Hg Hl; cbn [app useful_run run_from fold_left] in *.
      * destruct Hl as (_ & _ & Hl). unfold sys_step in Hl. rewrite Hg in Hl. exact Hl.
      * destruct Hl as (_ & _ & Hl). destruct (sys_step ps_cfg s0 x) as [[[s1 o1] w1]|]; [|exact Hl].
        exact (IH s1 Hg Hl).
Qed.
Print Assumptions terms_ex_theorems_apply.
