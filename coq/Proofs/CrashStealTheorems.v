(* CrashStealTheorems.v -- part D of the crash coupling proof for --dist worksteal: the system invariant XW
   of Model/System.v WITH worker crashes (LCrash at any moment, c_crash_in) and replacement workers,
   proved for EVERY label, and the theorems derived from it (properties C17, C03, C07).

   Hypotheses of the theorems: c_mode c = MSteal, no_garbled c, 0 < c_numnodes c, and rq_ok c: c_requeue c = 0
   or duplicate-free collections (example (g) at the end of the file shows that rq_ok cannot be dropped:
   with duplicate test ids and a plugin that re-queues crash items the controller raises ValueError).
   Nothing else: any schedule, any c_crash_in, any restart budget, c_strict, --maxfail, stop requests of
   the workers' own sessions (stops_after), and any collections.

     steal_crash_coupling_invariant  the book coupling for alive nodes (exact -- as a multiset and in order --
                                     for every node whose own session has not stopped: unstopped c s n; a
                                     sub-multiset statement otherwise, see CompletenessSteal.v, examples cst_ex_stop),
                                     dead nodes awaiting their errordown (what is still in flight from them
                                     is in their book; in order: completions ++ what the dead worker held
                                     ++ lost) and handled ones (no book)
     steal_crash_c17                 the only exception the controller can end with is "no active workers"
     steal_crash_no_active_workers_needs_different_collection / steal_crash_controller_never_raises
                                     ... and not even that one when all workers collect the same list
     steal_crash_report_names_running_test   C03 (a)
     steal_crash_one_request / steal_crash_at_most_one_request / steal_crash_marker_registered   C07
   and non-vacuity examples (the victim of a withdrawal request dies before / while / after answering;
   a reachable "no active workers"; stop requests and crashes together; the ValueError of (g)).

   NOT proved here: C03 (b), NoDup (started s) in runs with crashes and c_requeue c = 0.  It needs one more
   invariant: in the book of a node the indices its main thread has taken precede the indices it has
   withdrawn for a reply that the controller has not processed yet (so that the crash item is the test the
   dead worker was running, and not a withdrawn index in front of it).  See the report. *)
From XV Require Import Base Worker Ctl SchedLoad SchedSteal SchedScope SchedEach Sched DSession System
  NoHook DSessionProofs WorkerProofs StealProofs LoadProofs FifoProofs ExactlyOnce Coupling ExactlyOnceSteal
  CouplingSteal CompletenessSteal CrashCoupling CrashTheorems CrashSteal.
From Coq Require Import Permutation.
Open Scope nat_scope.

(* ====================================================================================== *)
(* D.1 one controller iteration seen from one node                                          *)
(* ====================================================================================== *)
(* an alive node: NIW_ctl of CouplingSteal.v with the facts it uses as explicit hypotheses *)
Lemma NIW_ctlx ev ws ws' act act' n L' dn w vo :
  NRWo (aget n (ws_nt ws)) (cmds_to n vo) (aget n (ws_nt ws')) ->
  bkw ws' n = bookmidw ev n (bkw ws n) ++ flat_map cmd_inds (cmds_to n vo) ->
  cnt (ws_steal ws) n + nstc (cmds_to n vo) = cnt (ws_steal ws') n + unsev ev n ->
  (In n (ws_nodes ws') -> In n (ws_nodes ws) \/ ev_xsig ev = Some (n, XReady)) ->
  (In n (akeys (ws_n2c ws')) -> In n (akeys (ws_n2c ws)) \/ ev_xsig ev = Some (n, XCF)) ->
  (In n act -> In n act' \/ exists b, ev_xsig ev = Some (n, XFin b)) ->
  NoDup (bkw ws n) -> NoDup (bkw ws' n) ->
  NIW ws act n (ev_xsigs_for n ev ++ L') dn w ->
  NIW ws' act' n L' (dn ++ cmds_to n vo) w.
Proof.
  intros HNT HBK HST HNODES HN2C HACT ND ND' [(f & Ef & Mk) Cp Ch Nd Nc Ac Fx Ns Wx Cb St Nbk Ord].
  assert (Hsub : forall g, In g L' -> In g (ev_xsigs_for n ev ++ L')) by (intros g Hg; apply in_or_app; right; exact Hg).
  assert (Ch' : xchan_ok (prank (wph w)) L').
  { unfold ev_xsigs_for in Ch. destruct (ev_xsig ev) as [[m g]|]; [|exact Ch].
    destruct (Nat.eqb m n); [|exact Ch]. eapply xchan_ok_tail. exact Ch. }
  constructor.
  - pose proof HNT as Rr. rewrite Ef in Rr.
    destruct (aget n (ws_nt ws')) as [f'|] eqn:Ef'; [|destruct Rr]. cbn in Rr.
    exists f'. split; [reflexivity|]. rewrite flat_map_app, app_assoc. eapply NRW_mark_okb; eauto.
  - rewrite HBK, flat_map_app.
    assert (P1 : Permutation (bkw ws n)
              (xcompletes (ev_xsigs_for n ev ++ L') ++ (owed_w w ++ flat_map cmd_inds dn) ++
               xbacks (ev_xsigs_for n ev ++ L') ++ R w)) by (rewrite Cp; permc).
    pose proof (bookmid_perm ev n _ L' _ _ ND P1) as P2. rewrite P2. permc.
  - exact Ch'.
  - intros Hin. destruct (HNODES Hin) as [Hold|Hev].
    + destruct (Nd Hold) as (A & B). split; [|exact B]. intros Hi. apply A. apply Hsub. exact Hi.
    + unfold ev_xsigs_for in Ch. rewrite Hev, Nat.eqb_refl in Ch. cbn [app] in Ch.
      destruct (xchan_ok_ready_head _ _ Ch) as (A & B). split; [exact A|].
      intros Ep. rewrite Ep in B. cbn in B. lia.
  - intros Hin. destruct (HN2C Hin) as [Hold|Hev].
    + destruct (Nc Hold) as (A & B). split; [|exact B]. intros Hi. apply A. apply Hsub. exact Hi.
    + unfold ev_xsigs_for in Ch. rewrite Hev, Nat.eqb_refl in Ch. cbn [app] in Ch.
      exact (xchan_ok_cf_head _ _ Ch).
  - intros Hn. destruct (in_dec Nat.eq_dec n act) as [Hin|Hni].
    + destruct (HACT Hin) as [X|(b & Hev)]; [contradiction|].
      unfold ev_xsigs_for in Ch. rewrite Hev, Nat.eqb_refl in Ch. cbn [app] in Ch.
      destruct (xchan_ok_fin_head _ _ _ Ch) as (A & B). split; [exact A|apply prank_4; exact B].
    + destruct (Ac Hni) as (A & B). split; [|exact B]. apply app_eq_nil in A. tauto.
  - exact Fx.
  - exact Ns.
  - exact Wx.
  - exact Cb.
  - rewrite nuns_app, nuns_ev in St. rewrite nstc_app. lia.
  - exact ND'.
  - assert (P1 : Permutation (bkw ws n)
              (xcompletes (ev_xsigs_for n ev ++ L') ++ (owed_w w ++ flat_map cmd_inds dn) ++
               xbacks (ev_xsigs_for n ev ++ L') ++ R w)) by (rewrite Cp; permc).
    pose proof (bookmid_perm ev n _ L' _ _ ND P1) as P2.
    pose proof ND' as ND2. rewrite HBK, P2 in ND2.
    rewrite HBK, filter_app, flat_map_app.
    set (T := flat_map cmd_inds (cmds_to n vo)) in *.
    assert (DT : forall i, In i T -> ~ In i (xbacks L' ++ R w)).
    { intros i H1 H2.
      assert (N3 : NoDup ((xbacks L' ++ R w) ++ T)).
      { eapply sub_nodup; [|exact ND2]. exists (xcompletes L' ++ owed_w w ++ flat_map cmd_inds dn). permc. }
      exact (WorkerProofs.nodup_app_disj _ _ i N3 H2 H1). }
    rewrite (filter_notin_id _ _ DT).
    assert (O1 : filter (notin (xbacks (ev_xsigs_for n ev ++ L') ++ R w)) (bkw ws n) =
                 xcompletes (ev_xsigs_for n ev ++ L') ++ (owed_w w ++ flat_map cmd_inds dn)) by exact Ord.
    rewrite (bookmid_ord ev n _ L' _ _ ND O1), <- !app_assoc. reflexivity.
Qed.

(* a worker whose own session has stopped: NIWS_ctl of CouplingSteal.v with explicit hypotheses *)
Lemma NIWS_ctlx o ev ws ws' act act' n L' dn w vo :
  NRWo (aget n (ws_nt ws)) (cmds_to n vo) (aget n (ws_nt ws')) ->
  bkw ws' n = bookmidw ev n (bkw ws n) ++ flat_map cmd_inds (cmds_to n vo) ->
  cnt (ws_steal ws) n + nstc (cmds_to n vo) = cnt (ws_steal ws') n + unsev ev n ->
  (In n (ws_nodes ws') -> In n (ws_nodes ws) \/ ev_xsig ev = Some (n, XReady)) ->
  (In n (akeys (ws_n2c ws')) -> In n (akeys (ws_n2c ws)) \/ ev_xsig ev = Some (n, XCF)) ->
  (In n act -> In n act' \/ exists b, ev_xsig ev = Some (n, XFin b)) ->
  NoDup (bkw ws' n) ->
  NIWS o ws act n (ev_xsigs_for n ev ++ L') dn w ->
  NIWS o ws' act' n L' (dn ++ cmds_to n vo) w.
Proof.
  intros HNT HBK HST HNODES HN2C HACT ND' [(f & Ef & Mk) Sb Ch Nd Nc Ac Ph Nf St Nbk Ev].
  assert (Hsub : forall g, In g L' -> In g (ev_xsigs_for n ev ++ L')) by (intros g Hg; apply in_or_app; right; exact Hg).
  assert (Ch' : xchan_ok (prank (wph w)) L').
  { unfold ev_xsigs_for in Ch. destruct (ev_xsig ev) as [[m g]|]; [|exact Ch].
    destruct (Nat.eqb m n); [|exact Ch]. eapply xchan_ok_tail. exact Ch. }
  constructor.
  - pose proof HNT as Rr. rewrite Ef in Rr.
    destruct (aget n (ws_nt ws')) as [f'|] eqn:Ef'; [|destruct Rr]. cbn in Rr.
    exists f'. split; [reflexivity|]. rewrite flat_map_app, app_assoc. eapply NRW_mark_okb; eauto.
  - rewrite HBK, flat_map_app.
    assert (P1 : sub (xcompletes (ev_xsigs_for n ev ++ L') ++ (owed_w w ++ flat_map cmd_inds dn) ++
                      xbacks (ev_xsigs_for n ev ++ L') ++ R w) (bkw ws n)).
    { eapply sub_trans; [|exact Sb]. apply sub_perm. permc. }
    pose proof (bookmid_sub ev n _ L' _ _ Nbk P1) as P2.
    eapply sub_trans; [|apply sub_app; [exact P2|apply sub_refl]]. apply sub_perm. permc.
  - exact Ch'.
  - intros Hin. destruct (HNODES Hin) as [Hold|Hev].
    + intros Hi. apply (Nd Hold). apply Hsub. exact Hi.
    + unfold ev_xsigs_for in Ch. rewrite Hev, Nat.eqb_refl in Ch. cbn [app] in Ch.
      exact (proj1 (xchan_ok_ready_head _ _ Ch)).
  - intros Hin. destruct (HN2C Hin) as [Hold|Hev].
    + intros Hi. apply (Nc Hold). apply Hsub. exact Hi.
    + unfold ev_xsigs_for in Ch. rewrite Hev, Nat.eqb_refl in Ch. cbn [app] in Ch.
      exact (proj1 (xchan_ok_cf_head _ _ Ch)).
  - intros Hn. destruct (in_dec Nat.eq_dec n act) as [Hin|Hni].
    + destruct (HACT Hin) as [X|(b & Hev)]; [contradiction|].
      unfold ev_xsigs_for in Ch. rewrite Hev, Nat.eqb_refl in Ch. cbn [app] in Ch.
      destruct (xchan_ok_fin_head _ _ _ Ch) as (A & B). split; [exact A|apply prank_4; exact B].
    + destruct (Ac Hni) as (A & B). split; [|exact B]. apply app_eq_nil in A. tauto.
  - exact Ph.
  - intros Hi. apply Nf. apply Hsub. exact Hi.
  - rewrite nuns_app, nuns_ev in St. rewrite nstc_app. lia.
  - exact ND'.
  - exact Ev.
Qed.

(* a dead node: what does not depend on how far its end marker has travelled *)
Record NDX (ws : wsstate) (n : nat) (L : list xsig) (w : wst) : Prop := {
  dx_chan : xchan_ok (prank (wph w)) L;
  dx_nodes : In n (ws_nodes ws) -> ~ In XReady L;
  dx_ph : wph w <> PExited;
}.

(* the book of a dead node whose errordown is still to come: everything that is still in flight from
   it -- completions and withdrawn indices on their way back -- is in its book; a withdrawal reply is in
   flight only if the marker is on the node; and (unless the worker's own session had stopped, st = true)
   in order, the book with the indices on their way back / withdrawn-but-never-sent struck out is
   completions in flight ++ what the dead worker held ++ lost *)
Definition NDXcpl (st : bool) (ws : wsstate) (n : nat) (L : list xsig) (w : wst) : Prop :=
  sub (xcompletes L ++ xbacks L) (bkw ws n) /\ nuns L <= cnt (ws_steal ws) n /\
  (st = false -> exists lost, filter (notin (xbacks L ++ R w)) (bkw ws n) = xcompletes L ++ owed_w w ++ lost).

Lemma NDX_of_NIW ws act n L dn w : NIW ws act n L dn w -> wph w <> PExited -> NDX ws n L w.
Proof.
  intros [Fl Cp Ch Nd Nc Ac Fx Ns Wx Cb St Nbk Ord] Hp. constructor; [assumption| |assumption].
  intros Hin. exact (proj1 (Nd Hin)).
Qed.

Lemma NDXcpl_of_NIW ws act n L dn w : NIW ws act n L dn w -> NDXcpl false ws n L w.
Proof.
  intros X. split; [|split].
  - pose proof (nw_coupled _ _ _ _ _ _ X) as Cp. exists (owed_w w ++ flat_map cmd_inds dn ++ R w).
    rewrite Cp. permc.
  - pose proof (nw_steal _ _ _ _ _ _ X). lia.
  - intros _. exists (flat_map cmd_inds dn). exact (nw_ord _ _ _ _ _ _ X).
Qed.

Lemma NDX_of_NIWS o ws act n L dn w : NIWS o ws act n L dn w -> wph w <> PExited -> NDX ws n L w.
Proof.
  intros [Fl Sb Ch Nd Nc Ac Ph Nf St Nbk Ev] Hp. constructor; assumption.
Qed.

Lemma NDXcpl_of_NIWS o ws act n L dn w : NIWS o ws act n L dn w -> NDXcpl true ws n L w.
Proof.
  intros X. split; [|split].
  - eapply sub_trans; [|exact (sw_sub _ _ _ _ _ _ _ X)]. exists (owed_w w ++ flat_map cmd_inds dn ++ R w). permc.
  - pose proof (sw_stle _ _ _ _ _ _ _ X). lia.
  - discriminate.
Qed.

Lemma NDX_nofin ws n L w b : NDX ws n L w -> ~ In (XFin b) L.
Proof.
  intros [Ch _ Hp] Hin. pose proof (xchan_ok_in _ _ _ Ch Hin) as P. cbn in P. unfold prec in P.
  assert (H4 : 4 <= prank (wph w)) by lia. apply prank_4 in H4. contradiction.
Qed.

Lemma NDX_ctl ev ws ws' n L' w :
  (In n (ws_nodes ws') -> In n (ws_nodes ws) \/ ev_xsig ev = Some (n, XReady)) ->
  NDX ws n (ev_xsigs_for n ev ++ L') w -> NDX ws' n L' w.
Proof.
  intros HNODES [Ch Nd Hp].
  assert (Hsub : forall g, In g L' -> In g (ev_xsigs_for n ev ++ L')) by (intros g Hg; apply in_or_app; right; exact Hg).
  assert (Ch' : xchan_ok (prank (wph w)) L').
  { unfold ev_xsigs_for in Ch. destruct (ev_xsig ev) as [[m g]|]; [|exact Ch].
    destruct (Nat.eqb m n); [|exact Ch]. eapply xchan_ok_tail. exact Ch. }
  constructor.
  - exact Ch'.
  - intros Hin. destruct (HNODES Hin) as [Hold|Hev].
    + intros Hi. apply (Nd Hold). apply Hsub. exact Hi.
    + unfold ev_xsigs_for in Ch. rewrite Hev, Nat.eqb_refl in Ch. cbn [app] in Ch.
      exact (proj1 (xchan_ok_ready_head _ _ Ch)).
  - exact Hp.
Qed.

Lemma NDXcpl_ctl st ev ws ws' n L' x k w :
  NoDup (bkw ws n) ->
  bkw ws' n = bookmidw ev n (bkw ws n) ++ x ->
  cnt (ws_steal ws) n + k = cnt (ws_steal ws') n + unsev ev n ->
  NDXcpl st ws n (ev_xsigs_for n ev ++ L') w -> NDXcpl st ws' n L' w.
Proof.
  intros ND HBK HST (Sb & St & Ord). split; [|split].
  - rewrite HBK.
    assert (P1 : sub (xcompletes (ev_xsigs_for n ev ++ L') ++ [] ++ xbacks (ev_xsigs_for n ev ++ L') ++ []) (bkw ws n)).
    { eapply sub_trans; [|exact Sb]. apply sub_perm. rewrite !app_nil_r. reflexivity. }
    pose proof (bookmid_sub ev n _ L' _ _ ND P1) as P2. cbn [app] in P2. rewrite app_nil_r in P2.
    eapply sub_trans; [exact P2|apply sub_app_l].
  - rewrite nuns_app, nuns_ev in St. lia.
  - intros Hst. destruct (Ord Hst) as (lost & Ord1).
    exists (lost ++ filter (notin (xbacks L' ++ R w)) x). rewrite HBK, filter_app.
    assert (O1 : filter (notin (xbacks (ev_xsigs_for n ev ++ L') ++ R w)) (bkw ws n) =
                 xcompletes (ev_xsigs_for n ev ++ L') ++ (owed_w w ++ lost)) by exact Ord1.
    rewrite (bookmid_ord ev n _ L' _ _ ND O1), <- !app_assoc. reflexivity.
Qed.

Lemma NDX_ext ws ws' n L w : ws_n2p ws' = ws_n2p ws -> NDX ws n L w -> NDX ws' n L w.
Proof. intros Ep [Ch Nd Hp]. constructor; auto. unfold ws_nodes. rewrite Ep. exact Nd. Qed.

Lemma NDXcpl_ext st ws ws' n L w :
  ws_n2p ws' = ws_n2p ws -> ws_steal ws' = ws_steal ws -> NDXcpl st ws n L w -> NDXcpl st ws' n L w.
Proof. intros Ep Es (A & B & C). unfold NDXcpl, bkw in *. rewrite Ep, Es. auto. Qed.

(* ====================================================================================== *)
(* D.2 the receiver thread of the controller                                               *)
(* ====================================================================================== *)
Definition ok_upw (collf : nat -> list string) (n : nat) (m : upmsg) : Prop :=
  match m with UEv _ => True | UCollFinish ids => ids = collf n | UComplete _ _ | UEnd => True | _ => False end.

Definition ev_nodew (ev : cevent) : option nat :=
  match ev with
  | QReady n | QCollFinish n _ | QComplete n _ _ | QUnscheduled n _ | QFinished n _ | QErrorDown n => Some n
  | _ => None
  end.

Definition ok_evw (X0 : nat -> list string) (G : nat) (ev : cevent) : Prop :=
  match ev with
  | QInternalError _ | QFinished _ SKKbd => False
  | QCollFinish n ids => ids = X0 n
  | _ => True
  end /\
  match ev_nodew ev with Some m => m < G | None => True end.

Definition upd_flagw (ws : wsstate) (n : nat) (f' : nctl) : wsstate := ws_set_nt ws (aset n f' (ws_nt ws)).

Lemma d_set_nt_schedw d ws n f' :
  d_sched d = StW ws -> d_sched (d_set_nt d (aset n f' (d_nt d))) = StW (upd_flagw ws n f').
Proof. intros E. unfold d_set_nt, d_nt. rewrite E. reflexivity. Qed.

Lemma aget_upd_flagw ws n f' m :
  aget m (ws_nt (upd_flagw ws n f')) = if Nat.eqb m n then Some f' else aget m (ws_nt ws).
Proof. unfold upd_flagw. cbn [ws_nt ws_set_nt]. apply LoadProofs.aget_aset. Qed.

(* changing the flags of a node does not concern the controller's invariant *)
Lemma DJX_flag N X0 d ws n f f' :
  DJX N X0 d ws -> aget n (ws_nt ws) = Some f -> n_sdsent f' = n_sdsent f ->
  DJX N X0 (d_set_nt d (aset n f' (d_nt d))) (upd_flagw ws n f').
Proof.
  intros ([Els J AL RQ JB K2] & K) Ef Hsd.
  assert (KEY : forall m, aget m (ws_nt (upd_flagw ws n f')) <> None <-> aget m (ws_nt ws) <> None).
  { intros m. rewrite aget_upd_flagw. destruct (Nat.eqb m n) eqn:E; [|reflexivity].
    apply Nat.eqb_eq in E. subst m. rewrite Ef. split; intros; discriminate. }
  unfold d_set_nt. split; [|exact K].
  constructor; cbn [d_set_sched d_sched d_next_gw d_active d_requeue d_shouldstop d_shuttingdown].
  - unfold d_nt. rewrite Els. reflexivity.
  - destruct J as [A1 A2 A3 A4 A5 A6 A7 A8 A9 A10 A11 A12 A13]. constructor; auto.
    intros m. rewrite KEY. apply A2.
  - exact AL.
  - exact RQ.
  - exact JB.
  - intros HS H1 H2. destruct (K2 HS H1 H2) as [(k & g & Hk & Eg & Hg)|X]; [left|right; exact X].
    destruct (Nat.eq_dec k n) as [->|Hne].
    + exists n, f'. split; [exact Hk|]. split; [rewrite aget_upd_flagw, Nat.eqb_refl; reflexivity|]. congruence.
    + exists k, g. split; [exact Hk|]. split; [|exact Hg]. rewrite aget_upd_flagw. apply Nat.eqb_neq in Hne. rewrite Hne. exact Eg.
Qed.

(* process_from_remote for a known node: never raises; a node that is down is not heard any more;
   otherwise it queues the signal it read; the end marker of a node that is not down yet queues its
   errordown *)
Lemma pfr_effx X0 G n m d ws f d' o r :
  d_sched d = StW ws -> aget n (ws_nt ws) = Some f -> ok_upw X0 n m -> n < G ->
  process_from_remote n m d = (d', o, r) ->
  o = [] /\ exists evs, r = Ok evs /\
    (d' = d \/ (d' = d_set_nt d (aset n (down_flag' f) (d_nt d)) /\ n_down f = false /\
                (m = UEnd \/ exists b, m = UEv (EFinished b)))) /\
    (n_down f = true -> evs = [] /\ d' = d) /\
    (n_down f = false -> forall k, evq_xsigs k evs = if Nat.eqb n k then up_xsig m else []) /\
    Forall (ok_evw X0 G) evs /\
    (m = UEnd -> n_down f = false -> evs = [QErrorDown n] /\ d' <> d) /\
    (m <> UEnd \/ n_down f = true -> forall k, no_errd k evs).
Proof.
  intros Els Ef Hm HnG H.
  assert (Ent : d_nt d = ws_nt ws) by (unfold d_nt; rewrite Els; reflexivity).
  unfold process_from_remote in H. rewrite mbind_get, Ent, Ef in H. cbn [of_opt] in H. rewrite mbind_ret in H.
  assert (SG : forall (g : xsig) k, (if Nat.eqb n k then [g] else []) ++ [] = if Nat.eqb n k then [g] else []).
  { intros g k. destruct (Nat.eqb n k); reflexivity. }
  assert (SN : forall k, @nil xsig = if Nat.eqb n k then [] else []) by (intros k; destruct (Nat.eqb n k); reflexivity).
  destruct (n_down f) eqn:Edn.
  { (* a node that is down is not heard any more *)
    assert (H' : (d, @nil out, Ok (@nil cevent)) = (d', o, r)).
    { destruct m as [e|ids|sk|i ms|dec| | |]; exact H. }
    inv H'. split; [reflexivity|]. exists []. split; [reflexivity|]. split; [left; reflexivity|].
    split; [auto|]. split; [discriminate|]. split; [constructor|]. split; [discriminate|].
    intros _ k. apply no_errd_nil. }
  assert (SAMEQ : forall evs, (d, @nil out, Ok evs) = (d', o, r) -> m <> UEnd ->
            (forall k, evq_xsigs k evs = if Nat.eqb n k then up_xsig m else []) -> Forall (ok_evw X0 G) evs ->
            (forall k, no_errd k evs) ->
            o = [] /\ exists evs, r = Ok evs /\
            (d' = d \/ (d' = d_set_nt d (aset n (down_flag' f) (d_nt d)) /\ false = false /\
                        (m = UEnd \/ exists b, m = UEv (EFinished b)))) /\
            (false = true -> evs = [] /\ d' = d) /\
            (false = false -> forall k, evq_xsigs k evs = if Nat.eqb n k then up_xsig m else []) /\
            Forall (ok_evw X0 G) evs /\
            (m = UEnd -> false = false -> evs = [QErrorDown n] /\ d' <> d) /\
            (m <> UEnd \/ false = true -> forall k, no_errd k evs)).
  { intros evs E Hne Hs Ho Hq. inv E. split; [reflexivity|]. exists evs.
    split; [reflexivity|]. split; [left; reflexivity|]. split; [discriminate|]. split; [intros _; exact Hs|]. split; [exact Ho|].
    split; [|intros _; exact Hq]. intros E1. contradiction. }
  assert (NEQ : d_set_nt d (aset n (down_flag' f) (d_nt d)) <> d).
  { intros F. assert (X : aget n (d_nt (d_set_nt d (aset n (down_flag' f) (d_nt d)))) = Some (down_flag' f)).
    { rewrite d_nt_set. apply FifoProofs.aget_aset_eq. }
    rewrite F, Ent, Ef in X. injection X as X. apply (f_equal n_down) in X. cbn in X. congruence. }
  assert (OK1 : forall ev, match ev with QInternalError _ | QFinished _ SKKbd => False
                                       | QCollFinish n0 ids0 => ids0 = X0 n0 | _ => True end ->
                match ev_nodew ev with Some m0 => m0 < G | None => True end -> Forall (ok_evw X0 G) [ev]).
  { intros ev A B. constructor; [split; assumption|constructor]. }
  assert (NE1 : forall ev, (forall k, is_errd k ev = false) -> forall k, no_errd k [ev]).
  { intros ev Hev k e [<-|[]]. apply Hev. }
  destruct m as [e|ids|sk|i ms|dec| | |]; cbn [ok_upw] in Hm; try contradiction.
  - destruct e as [| |ck cf| |li|ri rk roc|fi|ci|ux|stopreq]; unfold ret in H.
    + eapply SAMEQ; [exact H|discriminate| |apply OK1; cbn; auto|apply NE1; reflexivity]. intros k0. cbn. apply SG.
    + eapply SAMEQ; [exact H|discriminate| |constructor|intros k; apply no_errd_nil]. intros k0. cbn. apply SN.
    + eapply SAMEQ; [exact H|discriminate| |apply OK1; cbn; auto|apply NE1; reflexivity]. intros k0. cbn. apply SN.
    + eapply SAMEQ; [exact H|discriminate| |constructor|intros k; apply no_errd_nil]. intros k0. cbn. apply SN.
    + eapply SAMEQ; [exact H|discriminate| |apply OK1; cbn; auto|apply NE1; reflexivity]. intros k0. cbn. apply SN.
    + eapply SAMEQ; [exact H|discriminate| |apply OK1; cbn; auto|apply NE1; reflexivity]. intros k0. cbn. apply SN.
    + eapply SAMEQ; [exact H|discriminate| |apply OK1; cbn; auto|apply NE1; reflexivity]. intros k0. cbn. apply SN.
    + eapply SAMEQ; [exact H|discriminate| |apply OK1; cbn; auto|apply NE1; reflexivity]. intros k0. cbn. apply SG.
    + eapply SAMEQ; [exact H|discriminate| |apply OK1; cbn; auto|apply NE1; reflexivity]. intros k0. cbn. apply SG.
    + rewrite mbind_put in H. unfold ret in H. inv H. split; [reflexivity|]. eexists. split; [reflexivity|].
      split. { right. rewrite Ent. split; [reflexivity|]. split; [reflexivity|]. right. eexists. reflexivity. }
      split; [discriminate|].
      split. { intros _ k0. cbn. destruct stopreq; apply SG. }
      split. { apply OK1; [destruct stopreq; exact I|exact HnG]. }
      split; [intros F; discriminate|]. intros _. apply NE1. reflexivity.
  - unfold ret in H. eapply SAMEQ; [exact H|discriminate| |apply OK1; cbn; auto|apply NE1; reflexivity]. intros k0. cbn. apply SG.
  - unfold ret in H. eapply SAMEQ; [exact H|discriminate| |apply OK1; cbn; auto|apply NE1; reflexivity]. intros k0. cbn. apply SG.
  - (* the end marker *)
    rewrite mbind_put in H. unfold ret in H. inv H. split; [reflexivity|]. eexists. split; [reflexivity|].
    split. { right. rewrite Ent. split; [reflexivity|]. split; [reflexivity|]. left. reflexivity. }
    split; [discriminate|].
    split. { intros _ k0. cbn. apply SN. }
    split. { apply OK1; [exact I|exact HnG]. }
    split; [|intros [F|F]; [contradiction|discriminate]]. intros _ _. split; [reflexivity|]. rewrite <- Ent. exact NEQ.
Qed.

(* ====================================================================================== *)
(* D.3 the system invariant                                                                *)
(* ====================================================================================== *)
(* how far the end marker of a dead worker has travelled (st: its own session had stopped) *)
Inductive DeadStW (st : bool) (s : sys) (ws : wsstate) (n : nat) (w : wst) : Prop :=
| DW_wire pre f :                       (* still on the wire: the worker is heard until it is read *)
    alist_get [] n (y_up s) = pre ++ [UEnd] -> no_end pre ->
    aget n (ws_nt ws) = Some f -> n_down f = false ->
    no_errd n (y_evq s) -> In n (d_active (y_d s)) ->
    NDXcpl st ws n (xsigs s n) w -> DeadStW st s ws n w
| DW_queue q1 q2 :                      (* read: errordown is queued, behind every other event of the node *)
    alist_get [] n (y_up s) = [] ->
    y_evq s = q1 ++ QErrorDown n :: q2 -> evq_xsigs n q2 = [] -> no_errd n q1 -> no_errd n q2 ->
    In n (d_active (y_d s)) ->
    NDXcpl st ws n (xsigs s n) w -> DeadStW st s ws n w
| DW_done :                             (* errordown handled: the node is gone from the controller *)
    alist_get [] n (y_up s) = [] -> no_errd n (y_evq s) -> evq_xsigs n (y_evq s) = [] ->
    ~ In n (d_active (y_d s)) -> ~ In n (ws_nodes ws) -> DeadStW st s ws n w.

(* an alive worker whose own session has not stopped *)
Record ALX (s : sys) (ws : wsstate) (n : nat) (w : wst) : Prop := {
  ax_ni : NIW ws (d_active (y_d s)) n (xsigs s n) (alist_get [] n (y_down s)) w;
  ax_dn : Forall good_cmd_ws (alist_get [] n (y_down s));
  ax_noend : no_end (alist_get [] n (y_up s));
  ax_noerr : no_errd n (y_evq s);
  ax_open : closedb (ws_nt ws) n = false;
  ax_down : forall f, aget n (ws_nt ws) = Some f -> n_down f = true ->
            flat_map up_xsig (alist_get [] n (y_up s)) = [] /\ wph w = PExited;
}.

(* an alive worker whose own session has stopped (stops_after): the invariant of CouplingSteal.v in
   terms of what the controller still hears of it *)
Record SLX (o : oracle) (s : sys) (ws : wsstate) (n : nat) (w : wst) : Prop := {
  sx_ni : NIWS o ws (d_active (y_d s)) n (hsigs ws s n) (alist_get [] n (y_down s)) w;
  sx_dn : Forall good_cmd_ws (alist_get [] n (y_down s));
  sx_noend : no_end (alist_get [] n (y_up s));
  sx_noerr : no_errd n (y_evq s);
  sx_open : closedb (ws_nt ws) n = false;
  sx_down : forall f, aget n (ws_nt ws) = Some f -> n_down f = true -> wph w = PExited;
  sx_cl : wph w = PExited -> closed ws s n;
}.

Record DDX (o : oracle) (st : bool) (s : sys) (ws : wsstate) (n : nat) (w : wst) : Prop := {
  ddx_c : NDX ws n (xsigs s n) w;
  ddx_st : DeadStW st s ws n w;
  ddx_dn : alist_get [] n (y_down s) = [];
  ddx_ev : st = true -> exists r, In r (wran w) /\ stops_after o (snd (fst r)) = true;
}.

Definition NodeInvW (o : nat -> oracle) (P : nat -> bool) (s : sys) (ws : wsstate) (n : nat) (w : wst) : Prop :=
  WInv w /\ Forall good_cmd_ws (winbox w) /\ nogarb w /\
  (if mem_nat n (y_dead s) then DDX (o n) (P n) s ws n w
   else if P n then SLX (o n) s ws n w else ALX s ws n w).

(* what the controller still hears of node n *)
Definition hsigs_of (s : sys) (n : nat) : list xsig :=
  match d_sched (y_d s) with StW ws => hsigs ws s n | _ => [] end.

(* The crash coupling.  For every worker process that was ever started:
   - alive: what the worker side holds for n (in terms of what the controller still hears of n) is a
     sub-multiset of the book; and if the worker's own session has not stopped (unstopped c s n): the book
     is, as a multiset AND in order, exactly what it still owes plus what is on its way back;
   - dead, errordown not handled yet: everything still in flight from it is in its book, and (unstopped)
     in order the book with the indices on their way back / withdrawn-but-never-sent struck out is
       completions in flight ++ what the dead worker held (frozen) ++ lost;
   - dead, errordown handled: no book.
   An id without a process has no book. *)
Definition CrashCoupledW (c : config) (s : sys) : Prop :=
  forall n,
    match aget n (y_w s) with
    | None => bookw s n = []
    | Some w =>
        if mem_nat n (y_dead s) then
          (In n (d_active (y_d s)) ->
             sub (xcompletes (xsigs s n) ++ xbacks (xsigs s n)) (bookw s n) /\
             (unstopped c s n ->
              exists lost, filter (notin (xbacks (xsigs s n) ++ reply_inds (wreply w))) (bookw s n) =
                           xcompletes (xsigs s n) ++ owed_w w ++ lost)) /\
          (~ In n (d_active (y_d s)) -> bookw s n = [])
        else
          sub (xcompletes (hsigs_of s n) ++ owed_w w ++ flat_map cmd_inds (alist_get [] n (y_down s)) ++
               xbacks (hsigs_of s n) ++ reply_inds (wreply w)) (bookw s n) /\
          (unstopped c s n -> Permutation (bookw s n) (owedw s n ++ backw s n) /\
                              filter (notin (backw s n)) (bookw s n) = owedw s n)
    end.

(* THE collection, once the scheduler has fixed it *)
Definition the_collw (s : sys) : option (list string) :=
  match d_sched (y_d s) with StW ws => ws_coll ws | _ => None end.

(* withdrawal requests still travelling to/from node n that can reach the controller *)
Definition stealreqx (s : sys) (n : nat) : nat :=
  if mem_nat n (y_dead s) then nuns (xsigs s n)
  else nstc (alist_get [] n (y_down s)) +
       match aget n (y_w s) with Some w => nstc (winbox w) + nrep (wreply w) | None => 0 end +
       nuns (hsigs_of s n).

Definition StealOneX (c : config) (s : sys) : Prop :=
  forall n, match aget n (y_w s) with
            | None => True
            | Some _ => stealreqx s n <= cnt (steal_of s) n /\
                        (mem_nat n (y_dead s) = false -> unstopped c s n -> stealreq s n = cnt (steal_of s) n)
            end.

Lemma hsigs_of_VE s0 s n : VE s0 s -> hsigs_of s n = hsigs_of s0 n.
Proof. intros (E1 & E2 & E3 & E4 & E5 & E6 & E7 & _). unfold hsigs_of, hsigs. rewrite E6, E3, E4. reflexivity. Qed.

Lemma unstopped_VE c s0 s n : VE s0 s -> (unstopped c s n <-> unstopped c s0 n).
Proof. intros (E1 & _). unfold unstopped. rewrite E1. reflexivity. Qed.

Lemma CrashCoupledW_VE c s0 s : VE s0 s -> CrashCoupledW c s0 -> CrashCoupledW c s.
Proof.
  intros V H n. pose proof (hsigs_of_VE s0 s n V) as HS. pose proof (unstopped_VE c s0 s n V) as US.
  destruct V as (E1 & E2 & E3 & E4 & E5 & E6 & E7 & _). specialize (H n).
  assert (BK : bookw s n = bookw s0 n) by (unfold bookw; rewrite E6; reflexivity).
  assert (SG : xsigs s n = xsigs s0 n) by (unfold xsigs; rewrite E3, E4; reflexivity).
  assert (OW : owedw s n = owedw s0 n) by (unfold owedw; rewrite SG, E1, E5; reflexivity).
  assert (BW : backw s n = backw s0 n) by (unfold backw; rewrite SG, E1; reflexivity).
  rewrite E1, E2, BK, SG, OW, BW, E7, HS, E5. destruct (aget n (y_w s0)) as [w|]; [|exact H].
  destruct (mem_nat n (y_dead s0)).
  - destruct H as (A & B). split; [|exact B]. intros Hin. destruct (A Hin) as (A1 & A2). split; [exact A1|].
    intros U. apply A2. apply US. exact U.
  - destruct H as (A & B). split; [exact A|]. intros U. apply B. apply US. exact U.
Qed.

Lemma StealOneX_VE c s0 s : VE s0 s -> StealOneX c s0 -> StealOneX c s.
Proof.
  intros V H n. pose proof (hsigs_of_VE s0 s n V) as HS. pose proof (unstopped_VE c s0 s n V) as US.
  destruct V as (E1 & E2 & E3 & E4 & E5 & E6 & E7 & _). specialize (H n).
  assert (SG : xsigs s n = xsigs s0 n) by (unfold xsigs; rewrite E3, E4; reflexivity).
  assert (SR : stealreqx s n = stealreqx s0 n) by (unfold stealreqx; rewrite SG, E1, E2, E5, HS; reflexivity).
  assert (SQ : stealreq s n = stealreq s0 n) by (unfold stealreq; rewrite SG, E1, E5; reflexivity).
  assert (SO : steal_of s = steal_of s0) by (unfold steal_of; rewrite E6; reflexivity).
  rewrite E1, E2, SR, SQ, SO. destruct (aget n (y_w s0)); [|exact H].
  destruct H as (A & B). split; [exact A|]. intros Hd U. apply B; [exact Hd|apply US; exact U].
Qed.

Lemma DeadStW_frame st s s' ws n w :
  y_d s' = y_d s -> y_evq s' = y_evq s ->
  alist_get [] n (y_up s') = alist_get [] n (y_up s) ->
  DeadStW st s ws n w -> DeadStW st s' ws n w.
Proof.
  intros Ed Eq Eu H. pose proof (xsigs_ext s s' n Eq Eu) as Es.
  destruct H as [pre f A B C D E F G|q1 q2 A B C D E F G|A B C D E].
  - eapply DW_wire; rewrite ?Eu, ?Eq, ?Ed, ?Es; eauto.
  - eapply DW_queue; rewrite ?Eu, ?Eq, ?Ed, ?Es; eauto.
  - eapply DW_done; rewrite ?Eu, ?Eq, ?Ed; eauto.
Qed.

(* what is heard of a node whose session has not stopped is everything that is in flight *)
Lemma ALX_hsigs s ws n w : ALX s ws n w -> hsigs ws s n = xsigs s n.
Proof.
  intros [D1 _ _ _ _ D6]. unfold hsigs, xsigs, hup, ndown. f_equal.
  destruct (aget n (ws_nt ws)) as [f|] eqn:Ef.
  - destruct (n_down f) eqn:Ed.
    + destruct (D6 f eq_refl Ed) as (E0 & _). rewrite E0. reflexivity.
    + apply cutfin_sorted. pose proof (nw_chan _ _ _ _ _ _ D1) as (Hs & _). unfold xsigs in Hs.
      eapply xsorted_app_r. exact Hs.
  - apply cutfin_sorted. pose proof (nw_chan _ _ _ _ _ _ D1) as (Hs & _). unfold xsigs in Hs.
    eapply xsorted_app_r. exact Hs.
Qed.

Definition rq_ok (c : config) : Prop := c_requeue c = 0 \/ forall k, NoDup (c_coll c k).

Section SysX.
Variable c : config.
Notation N := (c_numnodes c).
Notation X0 := (c_coll c).
Notation OR := (c_oracle c).
Hypothesis Hmode : c_mode c = MSteal.
Hypothesis Hng : no_garbled c.
Hypothesis Hpos : 0 < N.
Hypothesis Hrq : rq_ok c.

(* P n: worker n's own session has stopped *)
Record XW (s : sys) : Prop := {
  w_lo : forall m, m < d_next_gw (y_d s) -> aget m (y_w s) <> None;
  w_hi : forall m, d_next_gw (y_d s) <= m ->
         aget m (y_w s) = None /\ alist_get [] m (y_up s) = [] /\ alist_get [] m (y_down s) = [];
  w_dj : exists ws P, DJX N X0 (y_d s) ws /\
           (forall n w, aget n (y_w s) = Some w -> NodeInvW OR P s ws n w) /\
           (forall n, d_next_gw (y_d s) <= n -> P n = false);
  w_evq : Forall (ok_evw X0 (d_next_gw (y_d s))) (y_evq s);
  w_up : forall n, Forall (ok_upw X0 n) (alist_get [] n (y_up s));
  w_act : y_result s = None -> d_active (y_d s) <> [];
  w_res : forall e, y_result s <> Some (RError e);
  w_dead : forall n, In n (y_dead s) -> n < d_next_gw (y_d s);
}.

Lemma worker_ltx s n w : XW s -> aget n (y_w s) = Some w -> n < d_next_gw (y_d s).
Proof.
  intros X E. destruct (Nat.lt_ge_cases n (d_next_gw (y_d s))) as [H|H]; [exact H|].
  destruct (w_hi _ X n H) as (F & _). congruence.
Qed.

(* ---- the initial state ---- *)
Lemma aget_init_nt_freshx n f : aget n (init_nt c) = Some f -> fresh_flags f.
Proof.
  unfold init_nt. induction (seq 0 N) as [|k l IH]; cbn; [discriminate|].
  destruct (Nat.eqb n k); [intros E; inv E; repeat split|exact IH].
Qed.

Lemma XW_init : XW (sys_init c).
Proof.
  assert (YW : forall n w, aget n (y_w (sys_init c)) = Some w -> n < N /\ w = w_init).
  { intros n w Ew. cbn [sys_init y_w] in Ew. pose proof (aget_some_in _ _ _ Ew) as Hk.
    rewrite (akeys_map_seq (fun _ => w_init)) in Hk. apply in_seq in Hk.
    apply aget_map_const in Ew. split; [lia|exact Ew]. }
  constructor.
  - cbn [sys_init y_d d_next_gw y_w]. intros m Hm. apply LoadProofs.aget_In_keys.
    rewrite (akeys_map_seq (fun _ => w_init)). apply in_seq. lia.
  - cbn [sys_init y_d d_next_gw y_w y_up y_down]. intros m Hm. split; [|split; apply alist_get_map_nil].
    apply LoadProofs.aget_none_keys. rewrite (akeys_map_seq (fun _ => w_init)). rewrite in_seq. lia.
  - cbn [sys_init y_d d_sched]. rewrite Hmode. cbn [s_init s_set_nt].
    eexists. exists (fun _ => false). split; [|split; [|reflexivity]].
    + split.
      * constructor; cbn [d_sched d_next_gw d_active d_requeue d_shouldstop d_shuttingdown].
        -- reflexivity.
        -- constructor; cbn [ws_set_nt ws_init ws_numnodes ws_nt ws_nodes ws_n2p ws_n2c ws_pending ws_coll ws_steal akeys map].
           ++ reflexivity.
           ++ apply aget_init_nt.
           ++ intros n [].
           ++ constructor.
           ++ intros n [].
           ++ intros F. exfalso. apply F. reflexivity.
           ++ intros k ids [].
           ++ intros X F. discriminate.
           ++ intros v F. discriminate.
           ++ constructor.
           ++ reflexivity.
           ++ intros X F. discriminate.
           ++ intros v F. discriminate.
        -- intros n Hn. apply in_seq in Hn. lia.
        -- exact Hrq.
        -- intros _ n [].
        -- intros _ _ _. left. exists 0. cbn [ws_set_nt ws_init ws_nt].
           destruct (aget 0 (init_nt c)) as [f|] eqn:Ef.
           ++ exists f. split; [apply in_seq; lia|]. split; [reflexivity|apply (aget_init_nt_freshx 0 f Ef)].
           ++ exfalso. apply (proj2 (aget_init_nt c 0)); [lia|exact Ef].
      * split; [|cbn; discriminate]. intros (C0 & _). exfalso. unfold ws_collection_is_completed in C0.
        cbn [ws_set_nt ws_init ws_numnodes ws_n2c length] in C0. apply Nat.leb_le in C0. lia.
    + intros n w Ew. destruct (YW n w Ew) as (HnN & ->).
      assert (Esg : xsigs (sys_init c) n = []).
      { unfold xsigs. cbn [sys_init y_evq y_up]. rewrite alist_get_map_nil. reflexivity. }
      split; [apply winv_init|]. split; [constructor|]. split; [exact Logic.I|].
      cbn [sys_init y_dead mem_nat existsb].
      constructor; rewrite ?Esg; cbn [sys_init y_down y_up y_evq y_d d_active]; rewrite ?alist_get_map_nil.
      * constructor; cbn [ws_set_nt ws_init ws_nt ws_nodes ws_n2p ws_n2c ws_steal akeys map w_init wph wcb prank].
        -- destruct (aget n (init_nt c)) as [f|] eqn:Ef.
           ++ exists f. split; [reflexivity|]. cbn. apply mark_okb_nil.
           ++ exfalso. apply (proj2 (aget_init_nt c n)); [lia|exact Ef].
        -- reflexivity.
        -- apply xchan_ok_nil.
        -- intros [].
        -- intros [].
        -- intros F. exfalso. apply F. apply in_seq. lia.
        -- intros [F|(b & F)]; discriminate.
        -- discriminate.
        -- exact I.
        -- discriminate.
        -- reflexivity.
        -- constructor.
        -- reflexivity.
      * constructor.
      * intros [].
      * apply no_errd_nil.
      * unfold closedb. cbn [ws_set_nt ws_init ws_nt]. destruct (aget n (init_nt c)) as [f|] eqn:Ef; [|reflexivity].
        apply (aget_init_nt_freshx n f Ef).
      * cbn [ws_set_nt ws_init ws_nt]. intros f Ef Hd. destruct (aget_init_nt_freshx n f Ef) as (_ & F & _). congruence.
  - constructor.
  - intros n. cbn [sys_init y_up]. rewrite alist_get_map_nil. constructor.
  - intros _. cbn [sys_init y_d d_active]. destruct N; [lia|]. cbn. discriminate.
  - intros e. cbn. discriminate.
  - intros n [].
Qed.

(* ---- a step that does not concern node n ---- *)
Lemma xsigs_evq_ext s s' n evs :
  y_evq s' = y_evq s ++ evs -> evq_xsigs n evs = [] ->
  alist_get [] n (y_up s') = alist_get [] n (y_up s) -> xsigs s' n = xsigs s n.
Proof. intros E1 E2 E3. unfold xsigs. rewrite E1, E3, evq_xsigs_app, E2, app_nil_r. reflexivity. Qed.

Lemma hsigs_evq_ext s s' ws ws' n evs :
  y_evq s' = y_evq s ++ evs -> evq_xsigs n evs = [] ->
  alist_get [] n (y_up s') = alist_get [] n (y_up s) -> aget n (ws_nt ws') = aget n (ws_nt ws) ->
  hsigs ws' s' n = hsigs ws s n.
Proof.
  intros E1 E2 E3 E4. unfold hsigs, ndown. rewrite E1, E3, E4, evq_xsigs_app, E2, app_nil_r. reflexivity.
Qed.

Lemma NodeInvW_other P s s' ws ws' n w evs :
  ws_n2p ws' = ws_n2p ws -> ws_n2c ws' = ws_n2c ws -> ws_steal ws' = ws_steal ws ->
  aget n (ws_nt ws') = aget n (ws_nt ws) ->
  d_active (y_d s') = d_active (y_d s) ->
  y_evq s' = y_evq s ++ evs -> evq_xsigs n evs = [] -> no_errd n evs ->
  mem_nat n (y_dead s') = mem_nat n (y_dead s) ->
  alist_get [] n (y_up s') = alist_get [] n (y_up s) ->
  alist_get [] n (y_down s') = alist_get [] n (y_down s) ->
  NodeInvW OR P s ws n w -> NodeInvW OR P s' ws' n w.
Proof.
  intros Ep Ec Est Ef Ea Eq Esg Hne Edd Eu Edn (A & B & C & D).
  pose proof (xsigs_evq_ext s s' n evs Eq Esg Eu) as Es.
  pose proof (hsigs_evq_ext s s' ws ws' n evs Eq Esg Eu Ef) as Eh.
  split; [exact A|]. split; [exact B|]. split; [exact C|]. rewrite Edd.
  destruct (mem_nat n (y_dead s)).
  - destruct D as [D1 D2 D3 D4]. constructor; rewrite ?Es, ?Edn; auto.
    + eapply NDX_ext; eauto.
    + destruct D2 as [pre f X1 X2 X3 X4 X5 X6 X7|q1 q2 X1 X2 X3 X4 X5 X6 X7|X1 X2 X3 X4 X5].
      * eapply DW_wire; rewrite ?Eu, ?Eq, ?Ea, ?Es, ?Ef; eauto.
        -- apply no_errd_app. auto.
        -- eapply NDXcpl_ext; eauto.
      * eapply (DW_queue _ _ _ _ _ q1 (q2 ++ evs)); rewrite ?Eu, ?Eq, ?Ea, ?Es; eauto.
        -- rewrite X2, <- app_assoc. reflexivity.
        -- rewrite evq_xsigs_app, X3, Esg. reflexivity.
        -- apply no_errd_app. auto.
        -- eapply NDXcpl_ext; eauto.
      * eapply DW_done; rewrite ?Eu, ?Eq, ?Ea; eauto.
        -- apply no_errd_app. auto.
        -- rewrite evq_xsigs_app, X3, Esg. reflexivity.
        -- unfold ws_nodes. rewrite Ep. exact X5.
  - destruct (P n).
    + destruct D as [D1 D2 D3 D4 D5 D6 D7]. constructor; rewrite ?Eh, ?Edn, ?Eu, ?Ea; auto.
      * eapply NIWS_flags_ext; [| | | |exact D1]; auto. intros f Hf. exists f. rewrite Ef. auto.
      * rewrite Eq. apply no_errd_app. auto.
      * unfold closedb in *. rewrite Ef. exact D5.
      * rewrite Ef. exact D6.
      * intros Hp. destruct (D7 Hp) as [X|X]; [left|right].
        -- unfold ndown in *. rewrite Ef. exact X.
        -- rewrite Eu. exact X.
    + destruct D as [D1 D2 D3 D4 D5 D6]. constructor; rewrite ?Es, ?Edn, ?Eu, ?Ea; auto.
      * eapply NIW_flags_ext; [| | | |exact D1]; auto. intros f Hf. exists f. rewrite Ef. auto.
      * rewrite Eq. apply no_errd_app. auto.
      * unfold closedb in *. rewrite Ef. exact D5.
      * rewrite Ef. exact D6.
Qed.

(* ---- LDeliver ---- *)
Lemma step_deliverx s n0 cmd rest w0 :
  XW s -> mem_nat n0 (y_dead s) = false ->
  aget n0 (y_down s) = Some (cmd :: rest) -> aget n0 (y_w s) = Some w0 ->
  XW {| y_d := y_d s; y_evq := y_evq s; y_down := aset n0 rest (y_down s); y_up := y_up s;
        y_w := aset n0 (deliver w0 cmd) (y_w s); y_dead := y_dead s; y_result := y_result s |}.
Proof.
  intros X Hd Ed Ew. pose proof X as [Lo Hi (ws & P & DJd & NIs & Pout) Eq Eu Ea Er Edead].
  pose proof (worker_ltx s n0 w0 X Ew) as HnG.
  set (s' := {| y_d := y_d s; y_evq := y_evq s; y_down := aset n0 rest (y_down s); y_up := y_up s;
          y_w := aset n0 (deliver w0 cmd) (y_w s); y_dead := y_dead s; y_result := y_result s |}).
  constructor; unfold s'; cbn [y_d y_evq y_down y_up y_w y_dead y_result].
  - intros m Hm. rewrite LoadProofs.aget_aset. destruct (Nat.eqb m n0); [discriminate|apply Lo; exact Hm].
  - intros m Hm. destruct (Hi m Hm) as (A & B & C). assert (m <> n0) by lia.
    rewrite FifoProofs.aget_aset_neq, FifoProofs.alist_get_aset_neq by assumption. auto.
  - exists ws, P. split; [exact DJd|]. split; [|exact Pout]. intros n w Hw. destruct (Nat.eq_dec n n0) as [->|Hn].
    + rewrite FifoProofs.aget_aset_eq in Hw. inv Hw. destruct (NIs n0 w0 Ew) as (A & B & C & D). rewrite Hd in D.
      destruct (deliver_owed2 w0 cmd) as (_ & Ep & _).
      assert (Gc : Forall good_cmd_ws (alist_get [] n0 (y_down s))) by (destruct (P n0); destruct D; assumption).
      rewrite (alist_get_some [] _ _ _ Ed) in Gc. inversion Gc as [|c1 r1 Gc1 Gr]; subst.
      split; [apply upd_recv_inv; exact A|]. split; [apply deliver_good_ws; assumption|].
      split; [eapply nogarb_ph; [exact Ep|exact C]|]. cbn [y_dead]. rewrite Hd.
      destruct (P n0).
      * destruct D as [D1 D2 D3 D4 D5 D6 D7]. rewrite (alist_get_some [] _ _ _ Ed) in D1.
        constructor; cbn [y_d y_evq y_down y_up]; rewrite ?FifoProofs.alist_get_aset_eq; auto.
        all: try (apply NIWS_deliver; exact D1).
        all: try (rewrite Ep; exact D6).
        all: try (rewrite Ep; exact D7).
      * destruct D as [D1 D2 D3 D4 D5 D6]. rewrite (alist_get_some [] _ _ _ Ed) in D1.
        constructor; cbn [y_d y_evq y_down y_up]; rewrite ?FifoProofs.alist_get_aset_eq; auto.
        all: try (apply NIW_deliver; exact D1).
        all: try (rewrite Ep; exact D6).
    + rewrite FifoProofs.aget_aset_neq in Hw by exact Hn.
      apply (NodeInvW_other P s s' ws ws n w []); auto.
      * cbn. rewrite app_nil_r. reflexivity.
      * apply no_errd_nil.
      * cbn [s' y_down]. apply FifoProofs.alist_get_aset_neq. exact Hn.
  - exact Eq.
  - exact Eu.
  - exact Ea.
  - exact Er.
  - exact Edead.
Qed.


Lemma NodeInvW_P_ext P P' s ws n w : P' n = P n -> NodeInvW OR P s ws n w -> NodeInvW OR P' s ws n w.
Proof. intros E. unfold NodeInvW. rewrite E. auto. Qed.

(* ---- a worker step that pushes events onto its wire ---- *)
Lemma up_xsigs_of_wev n evs : flat_map up_xsig (map (up_of_wevent c n) evs) = flat_map we_xsig evs.
Proof. apply up_xsigs_of_wevents. Qed.

Lemma xw_push s n0 w0 w' evs :
  XW s -> mem_nat n0 (y_dead s) = false -> aget n0 (y_w s) = Some w0 ->
  Forall (fun e => is_garbled e = false) evs ->
  (forall ws P, DJX N X0 (y_d s) ws -> NodeInvW OR P s ws n0 w0 ->
     exists P', (forall n, n <> n0 -> P' n = P n) /\
                NodeInvW OR P' (push_up (set_w s n0 w') n0 (map (up_of_wevent c n0) evs)) ws n0 w') ->
  XW (push_up (set_w s n0 w') n0 (map (up_of_wevent c n0) evs)).
Proof.
  intros X Hd Ew NGe Hni. pose proof X as [Lo Hi (ws & P & DJd & NIs & Pout) Eq Eu Ea Er Edead].
  pose proof (worker_ltx s n0 w0 X Ew) as HnG.
  set (s' := push_up (set_w s n0 w') n0 (map (up_of_wevent c n0) evs)) in *.
  destruct (Hni ws P DJd (NIs n0 w0 Ew)) as (P' & HP & HN).
  constructor; unfold s'; cbn [push_up set_w y_d y_evq y_down y_up y_w y_dead y_result].
  - intros m Hm. rewrite LoadProofs.aget_aset. destruct (Nat.eqb m n0); [discriminate|apply Lo; exact Hm].
  - intros m Hm. destruct (Hi m Hm) as (A & B & C). assert (m <> n0) by lia.
    rewrite FifoProofs.aget_aset_neq, FifoProofs.alist_get_aset_neq by assumption. auto.
  - exists ws, P'. split; [exact DJd|]. split.
    + intros n w Hw. destruct (Nat.eq_dec n n0) as [->|Hn].
      * rewrite FifoProofs.aget_aset_eq in Hw. inv Hw. exact HN.
      * rewrite FifoProofs.aget_aset_neq in Hw by exact Hn.
        apply (NodeInvW_P_ext P P'); [apply HP; exact Hn|].
        apply (NodeInvW_other P s s' ws ws n w []); auto.
        -- cbn. rewrite app_nil_r. reflexivity.
        -- apply no_errd_nil.
        -- cbn [s' push_up set_w y_up]. apply FifoProofs.alist_get_aset_neq. exact Hn.
    + intros n Hn. rewrite HP by lia. apply Pout. exact Hn.
  - exact Eq.
  - intros n. destruct (Nat.eq_dec n n0) as [->|Hn].
    + rewrite FifoProofs.alist_get_aset_eq. apply Forall_app. split; [apply Eu|].
      apply Forall_forall. intros m Hm. apply in_map_iff in Hm. destruct Hm as (e & <- & He).
      rewrite Forall_forall in NGe. specialize (NGe e He).
      destruct e; cbn; auto. destruct oc; cbn; auto. discriminate.
    + rewrite FifoProofs.alist_get_aset_neq by exact Hn. apply Eu.
  - exact Ea.
  - exact Er.
  - exact Edead.
Qed.

(* a node that is not down and whose main thread has not said "finished": the controller hears all *)
Lemma open_hsigs ws s n L w :
  xchan_ok (prank (wph w)) L -> L = hsigs ws s n -> prank (wph w) <= 3 ->
  (forall f, aget n (ws_nt ws) = Some f -> n_down f = true -> wph w = PExited) -> wph w <> PExited ->
  ndown ws n = false /\ hasfin (flat_map up_xsig (alist_get [] n (y_up s))) = false.
Proof.
  intros Ch EL Hk Hdn Hne.
  assert (Hd : ndown ws n = false).
  { unfold ndown. destruct (aget n (ws_nt ws)) as [f|] eqn:Ef; [|reflexivity]. destruct (n_down f) eqn:Ed; [|reflexivity].
    exfalso. exact (Hne (Hdn f eq_refl Ed)). }
  split; [exact Hd|]. apply nofin_hasfin. intros b Hb.
  destruct (hasfin_cutfin _ (proj2 (hasfin_in _) (ex_intro _ b Hb))) as (b' & Hb').
  refine (xchan_nofin _ _ Ch Hk b' _). rewrite EL. unfold hsigs, hup. rewrite Hd. apply in_or_app. right. exact Hb'.
Qed.

(* ---- a worker process dies (LCrash, or entering a test that kills it) ---- *)
Lemma step_crashx s n0 w0 :
  XW s -> mem_nat n0 (y_dead s) = false -> aget n0 (y_w s) = Some w0 -> wph w0 <> PExited ->
  XW (crash_worker c s n0).
Proof.
  intros X Hd Ew Hph. pose proof X as [Lo Hi (ws & P & DJd & NIs & Pout) Eq Eu Ea Er Edead].
  pose proof (worker_ltx s n0 w0 X Ew) as HnG.
  pose proof DJd as ([Els J _ _ _ _] & _).
  destruct (aget n0 (ws_nt ws)) as [f0|] eqn:Ef0; [|exfalso; apply (proj2 (xj_ntk _ _ _ _ J n0) HnG); exact Ef0].
  set (s' := crash_worker c s n0).
  assert (DX : exists ws' f0', DJX N X0 (y_d s') ws' /\ ws_n2p ws' = ws_n2p ws /\ ws_n2c ws' = ws_n2c ws /\
             ws_steal ws' = ws_steal ws /\
             (forall n, n <> n0 -> aget n (ws_nt ws') = aget n (ws_nt ws)) /\
             aget n0 (ws_nt ws') = Some f0' /\ n_down f0' = n_down f0 /\ n_sdsent f0' = n_sdsent f0 /\
             d_active (y_d s') = d_active (y_d s) /\
             d_next_gw (y_d s') = d_next_gw (y_d s)).
  { unfold s', crash_worker. cbn [y_d]. destruct (c_strict c).
    - assert (Ent : d_nt (y_d s) = ws_nt ws) by (unfold d_nt; rewrite Els; reflexivity).
      rewrite Ent, Ef0. exists (upd_flagw ws n0 (closed_flag f0)), (closed_flag f0).
      split. { rewrite <- Ent. fold (closed_flag f0). apply (DJX_flag N X0 _ ws n0 f0); auto. }
      split; [reflexivity|]. split; [reflexivity|]. split; [reflexivity|].
      split. { intros n Hn. rewrite aget_upd_flagw. apply Nat.eqb_neq in Hn. rewrite Hn. reflexivity. }
      split. { rewrite aget_upd_flagw, Nat.eqb_refl. reflexivity. }
      split; [reflexivity|]. split; [reflexivity|]. split; reflexivity.
    - exists ws, f0. split; [exact DJd|]. repeat (split; [reflexivity|]).
      split; [exact Ef0|]. repeat (split; [reflexivity|]). reflexivity. }
  destruct DX as (ws' & f0' & DJ2 & Ep & Ec & Est & Eoth & Ef0' & Edn0 & Esd0 & Eact & Egw).
  destruct (NIs n0 w0 Ew) as (A0 & B0 & C0 & D0). rewrite Hd in D0.
  assert (Sg0 : xsigs s' n0 = xsigs s n0).
  { unfold xsigs, s', crash_worker. cbn [y_evq y_up]. rewrite FifoProofs.alist_get_aset_eq, flat_map_app. cbn. rewrite app_nil_r. reflexivity. }
  (* what the node looked like, whether its own session had stopped or not *)
  assert (CORE : NDX ws n0 (xsigs s n0) w0 /\ NDXcpl (P n0) ws n0 (xsigs s n0) w0 /\
                 no_end (alist_get [] n0 (y_up s)) /\ no_errd n0 (y_evq s) /\ n_down f0 = false /\
                 In n0 (d_active (y_d s)) /\
                 (P n0 = true -> exists r, In r (wran w0) /\ stops_after (OR n0) (snd (fst r)) = true)).
  { destruct (P n0) eqn:EP.
    - destruct D0 as [D1 D2 D3 D4 D5 D6 D7].
      assert (Hk : prank (wph w0) <= 3).
      { destruct (sw_ph _ _ _ _ _ _ _ D1) as [Y|Y]; [rewrite Y; cbn; lia|contradiction]. }
      destruct (open_hsigs ws s n0 _ w0 (sw_chan _ _ _ _ _ _ _ D1) eq_refl Hk D6 Hph) as (Hdn & Hf).
      rewrite (hsigs_open ws s n0 Hdn Hf) in D1.
      split; [eapply NDX_of_NIWS; eauto|]. split; [eapply NDXcpl_of_NIWS; eauto|]. split; [exact D3|]. split; [exact D4|].
      split. { unfold ndown in Hdn. rewrite Ef0 in Hdn. exact Hdn. }
      split; [|intros _; exact (sw_ev _ _ _ _ _ _ _ D1)].
      destruct (in_dec Nat.eq_dec n0 (d_active (y_d s))) as [Hin|Hni]; [exact Hin|].
      destruct (sw_act _ _ _ _ _ _ _ D1 Hni) as (_ & Pe). contradiction.
    - destruct D0 as [D1 D2 D3 D4 D5 D6].
      split; [eapply NDX_of_NIW; eauto|]. split; [eapply NDXcpl_of_NIW; eauto|]. split; [exact D3|]. split; [exact D4|].
      split. { apply not_true_false. intros F. destruct (D6 f0 Ef0 F) as (_ & Pe). contradiction. }
      split; [|discriminate].
      destruct (in_dec Nat.eq_dec n0 (d_active (y_d s))) as [Hin|Hni]; [exact Hin|].
      destruct (nw_act _ _ _ _ _ _ D1 Hni) as (_ & Pe). contradiction. }
  destruct CORE as (C1 & C2 & C3 & C4 & C5 & C6 & C7).
  constructor; rewrite ?Egw.
  - intros m Hm. unfold s', crash_worker. cbn [y_w]. apply Lo. exact Hm.
  - intros m Hm. destruct (Hi m Hm) as (A & B & C). assert (m <> n0) by lia.
    unfold s', crash_worker. cbn [y_w y_up y_down]. rewrite !FifoProofs.alist_get_aset_neq by assumption. auto.
  - exists ws', P. split; [exact DJ2|]. split; [|exact Pout]. intros n w Hw. change (y_w s') with (y_w s) in Hw.
    destruct (Nat.eq_dec n n0) as [->|Hn].
    + assert (w = w0) by congruence. subst w.
      split; [exact A0|]. split; [exact B0|]. split; [exact C0|].
      change (y_dead s') with (n0 :: y_dead s). rewrite mem_nat_cons, Nat.eqb_refl. cbn [orb].
      constructor; rewrite ?Sg0.
      * eapply NDX_ext; [exact Ep|exact C1].
      * eapply (DW_wire _ _ _ _ _ (alist_get [] n0 (y_up s)) f0'); rewrite ?Sg0, ?Eact.
        -- unfold s', crash_worker. cbn [y_up]. apply FifoProofs.alist_get_aset_eq.
        -- exact C3.
        -- exact Ef0'.
        -- rewrite Edn0. exact C5.
        -- exact C4.
        -- exact C6.
        -- eapply NDXcpl_ext; [exact Ep|exact Est|exact C2].
      * unfold s', crash_worker. cbn [y_down]. apply FifoProofs.alist_get_aset_eq.
      * exact C7.
    + apply (NodeInvW_other P s s' ws ws' n w []); auto; try apply no_errd_nil.
      * unfold s', crash_worker. cbn [y_evq]. rewrite app_nil_r. reflexivity.
      * change (y_dead s') with (n0 :: y_dead s). rewrite mem_nat_cons. apply Nat.eqb_neq in Hn. rewrite Hn. reflexivity.
      * unfold s', crash_worker. cbn [y_up]. apply FifoProofs.alist_get_aset_neq. exact Hn.
      * unfold s', crash_worker. cbn [y_down]. apply FifoProofs.alist_get_aset_neq. exact Hn.
  - exact Eq.
  - intros n. unfold s', crash_worker. cbn [y_up]. destruct (Nat.eq_dec n n0) as [->|Hn].
    + rewrite FifoProofs.alist_get_aset_eq. apply Forall_app. split; [apply Eu|]. repeat constructor.
    + rewrite FifoProofs.alist_get_aset_neq by exact Hn. apply Eu.
  - rewrite Eact. exact Ea.
  - exact Er.
  - intros n [<-|Hn]; [exact HnG|apply Edead; exact Hn].
Qed.

(* ---- the channel of a dead worker is closed once its end marker has been read ---- *)
Lemma close_if_dead_XW s n : XW s -> XW (close_if_dead s n).
Proof.
  intros X. unfold close_if_dead. destruct (mem_nat n (y_dead s)) eqn:Hd; [|exact X].
  destruct (aget n (d_nt (y_d s))) as [f|] eqn:Ef; [|exact X].
  destruct (n_down f) eqn:Edn; [|exact X].
  pose proof X as [Lo Hi (ws & P & DJd & NIs & Pout) Eq Eu Ea Er Edead].
  pose proof DJd as ([Els J _ _ _ _] & _).
  assert (Ent : d_nt (y_d s) = ws_nt ws) by (unfold d_nt; rewrite Els; reflexivity).
  set (fc := {| n_spec := n_spec f; n_down := true; n_sdsent := n_sdsent f; n_closed := true |}).
  set (s' := set_d s (d_set_nt (y_d s) (aset n fc (d_nt (y_d s))))).
  assert (Ef' : aget n (ws_nt ws) = Some f) by (rewrite <- Ent; exact Ef).
  constructor.
  - exact Lo.
  - exact Hi.
  - exists (upd_flagw ws n fc), P. split; [apply (DJX_flag N X0 _ ws n f); auto|]. split; [|exact Pout].
    intros k w Hw. change (y_w s') with (y_w s) in Hw. destruct (Nat.eq_dec k n) as [->|Hk].
    + destruct (NIs n w Hw) as (A & B & C & D). split; [exact A|]. split; [exact B|]. split; [exact C|].
      change (y_dead s') with (y_dead s). rewrite Hd in *. destruct D as [D1 D2 D3 D4].
      constructor.
      * change (xsigs s' n) with (xsigs s n). eapply NDX_ext; [|exact D1]. reflexivity.
      * destruct D2 as [pre g X1 X2 X3 X4 X5 X6 X7|q1 q2 X1 X2 X3 X4 X5 X6 X7|X1 X2 X3 X4 X5].
        -- exfalso. congruence.
        -- eapply (DW_queue _ _ _ _ _ q1 q2); eauto.
        -- eapply DW_done; eauto.
      * exact D3.
      * exact D4.
    + apply (NodeInvW_other P s s' ws (upd_flagw ws n fc) k w []); auto; try apply no_errd_nil.
      * rewrite aget_upd_flagw. apply Nat.eqb_neq in Hk. rewrite Hk. reflexivity.
      * cbn. rewrite app_nil_r. reflexivity.
  - exact Eq.
  - exact Eu.
  - exact Ea.
  - exact Er.
  - exact Edead.
Qed.


(* ---- LRecv: the controller's receiver thread reads one message ---- *)
Lemma step_recvx s n0 m rest d' outs r :
  XW s -> aget n0 (y_up s) = Some (m :: rest) ->
  process_from_remote n0 m (y_d s) = (d', outs, r) ->
  outs = [] /\ exists evs, r = Ok evs /\
  XW (set_evq (set_d {| y_d := y_d s; y_evq := y_evq s; y_down := y_down s; y_up := aset n0 rest (y_up s);
                        y_w := y_w s; y_dead := y_dead s; y_result := y_result s |} d') (y_evq s ++ evs)).
Proof.
  intros X Eup Ep. pose proof X as [Lo Hi (ws & P & DJd & NIs & Pout) Eq Eu Ea Er Edead].
  pose proof DJd as ([Els J _ _ _ _] & _).
  pose proof (alist_get_some [] _ _ _ Eup) as Eup'.
  assert (HnG : n0 < d_next_gw (y_d s)).
  { destruct (Nat.lt_ge_cases n0 (d_next_gw (y_d s))) as [H|H]; [exact H|].
    destruct (Hi n0 H) as (_ & F & _). rewrite Eup' in F. discriminate. }
  destruct (aget n0 (y_w s)) as [w0|] eqn:Ew; [|exfalso; exact (Lo n0 HnG Ew)].
  destruct (aget n0 (ws_nt ws)) as [f|] eqn:Ef; [|exfalso; apply (proj2 (xj_ntk _ _ _ _ J n0) HnG); exact Ef].
  destruct (NIs n0 w0 Ew) as (A0 & B0 & C0 & D0).
  pose proof (Eu n0) as En. rewrite Eup' in En. inversion En as [|m1 r1 Gm Gr]; subst.
  destruct (pfr_effx X0 _ _ _ _ _ _ _ _ _ Els Ef Gm HnG Ep) as (-> & evs & -> & Hd' & Hdrop & Hsig & Hok & Hend & Hnoend).
  split; [reflexivity|]. exists evs. split; [reflexivity|].
  set (s' := set_evq (set_d {| y_d := y_d s; y_evq := y_evq s; y_down := y_down s; y_up := aset n0 rest (y_up s);
                          y_w := y_w s; y_dead := y_dead s; y_result := y_result s |} d') (y_evq s ++ evs)).
  assert (Ent : d_nt (y_d s) = ws_nt ws) by (unfold d_nt; rewrite Els; reflexivity).
  assert (DX : exists wsA fA, DJX N X0 d' wsA /\ ws_n2p wsA = ws_n2p ws /\ ws_n2c wsA = ws_n2c ws /\
             ws_steal wsA = ws_steal ws /\
             (forall k, k <> n0 -> aget k (ws_nt wsA) = aget k (ws_nt ws)) /\
             aget n0 (ws_nt wsA) = Some fA /\ n_sdsent fA = n_sdsent f /\ n_closed fA = n_closed f /\
             (n_down fA = true -> n_down f = true \/ m = UEnd \/ exists b, m = UEv (EFinished b)) /\
             (n_down f = true -> n_down fA = true) /\
             ((m = UEnd \/ exists b, m = UEv (EFinished b)) -> n_down fA = true) /\
             d_active d' = d_active (y_d s) /\
             d_next_gw d' = d_next_gw (y_d s) /\ (d' = y_d s -> fA = f)).
  { destruct Hd' as [->|(-> & Hf & Hm)].
    - exists ws, f. split; [exact DJd|]. repeat (split; [reflexivity|]).
      split; [exact Ef|]. repeat (split; [reflexivity|]). split; [auto|]. split; [auto|].
      split.
      { intros Hm. destruct (n_down f) eqn:Edn; [reflexivity|]. exfalso.
        destruct Hm as [->|(b & ->)].
        - destruct (Hend eq_refl eq_refl) as (_ & F). apply F. reflexivity.
        - (* the controller marks the node down when it reads "finished" *)
          unfold process_from_remote in Ep. rewrite mbind_get, Ent, Ef in Ep. cbn [of_opt] in Ep. rewrite mbind_ret, Edn in Ep.
          rewrite mbind_put in Ep. unfold ret in Ep. injection Ep as Ed _.
          assert (Xq : aget n0 (d_nt (d_set_nt (y_d s) (aset n0 (down_flag' f) (ws_nt ws)))) = Some (down_flag' f)).
          { rewrite d_nt_set. apply FifoProofs.aget_aset_eq. }
          unfold down_flag' in Xq. rewrite Ed, Ent, Ef in Xq. injection Xq as Xq. apply (f_equal n_down) in Xq. cbn in Xq. congruence. }
      repeat (split; [reflexivity|]). reflexivity.
    - exists (upd_flagw ws n0 (down_flag' f)), (down_flag' f).
      split; [apply (DJX_flag N X0 _ ws n0 f); auto|]. split; [reflexivity|]. split; [reflexivity|]. split; [reflexivity|].
      split. { intros k Hk. rewrite aget_upd_flagw. apply Nat.eqb_neq in Hk. rewrite Hk. reflexivity. }
      split. { rewrite aget_upd_flagw, Nat.eqb_refl. reflexivity. }
      split; [reflexivity|]. split; [reflexivity|]. split; [intros _; right; exact Hm|]. split; [reflexivity|].
      split; [reflexivity|]. split; [reflexivity|]. split; [reflexivity|].
      intros F. exfalso.
      assert (Xq : aget n0 (d_nt (d_set_nt (y_d s) (aset n0 (down_flag' f) (d_nt (y_d s))))) = Some (down_flag' f)).
      { rewrite d_nt_set. apply FifoProofs.aget_aset_eq. }
      rewrite F, Ent, Ef in Xq. injection Xq as Xq. apply (f_equal n_down) in Xq. cbn in Xq. congruence. }
  destruct DX as (wsA & fA & DJA & EpA & EcA & EstA & Eoth & EfA & EsdA & EclA & EdnA & EdnA' & EdnF & Eact & Egw & Esame).
  assert (SIGK : forall k, k <> n0 -> evq_xsigs k evs = []).
  { intros k Hk. destruct (n_down f) eqn:Edn.
    - destruct (Hdrop eq_refl) as (-> & _). reflexivity.
    - rewrite (Hsig eq_refl k). apply Nat.eqb_neq in Hk. rewrite Nat.eqb_sym, Hk. reflexivity. }
  assert (NE : forall k, k <> n0 -> no_errd k evs).
  { intros k Hk. destruct (n_down f) eqn:Edn; [apply Hnoend; right; reflexivity|].
    destruct m; try (apply Hnoend; left; discriminate).
    destruct (Hend eq_refl eq_refl) as (-> & _). intros ev [<-|[]]. cbn. apply Nat.eqb_neq. congruence. }
  constructor; unfold s'; cbn [set_evq set_d y_d y_evq y_down y_up y_w y_dead y_result]; rewrite ?Egw.
  - exact Lo.
  - intros k Hk. destruct (Hi k Hk) as (A & B & C). assert (k <> n0) by lia.
    rewrite FifoProofs.alist_get_aset_neq by assumption. auto.
  - exists wsA, P. split; [exact DJA|]. split; [|exact Pout]. intros k w Hw. destruct (Nat.eq_dec k n0) as [->|Hk].
    + assert (w = w0) by congruence. subst w.
      split; [exact A0|]. split; [exact B0|]. split; [exact C0|]. cbn [set_evq set_d y_dead].
      destruct (mem_nat n0 (y_dead s)) eqn:Hdd; rewrite ?Hdd in D0.
      * (* a dead worker: its last messages, then its end marker *)
        destruct D0 as [D1 D2 D3 D4].
        destruct D2 as [pre g X1 X2 X3 X4 X5 X6 X7|q1 q2 X1 _ _ _ _ _ _|X1 _ _ _ _]; try congruence.
        assert (g = f) by congruence. subst g. rewrite Eup' in X1.
        assert (Esg : xsigs s' n0 = xsigs s n0).
        { unfold xsigs, s'. cbn [set_evq set_d y_evq y_up]. rewrite FifoProofs.alist_get_aset_eq, evq_xsigs_app, (Hsig X4), Nat.eqb_refl, Eup'.
          cbn [flat_map]. rewrite <- app_assoc. reflexivity. }
        constructor; fold s'; rewrite ?Esg.
        -- eapply NDX_ext; [exact EpA|exact D1].
        -- destruct pre as [|m' pre'].
           ++ cbn [app] in X1. inv X1. destruct (Hend eq_refl X4) as (-> & _).
              eapply (DW_queue _ _ _ _ _ (y_evq s) []); rewrite ?Esg.
              ** unfold s'. cbn [set_evq set_d y_up]. apply FifoProofs.alist_get_aset_eq.
              ** reflexivity.
              ** reflexivity.
              ** exact X5.
              ** apply no_errd_nil.
              ** unfold s'. cbn [set_evq set_d y_d]. rewrite Eact. exact X6.
              ** eapply NDXcpl_ext; [exact EpA|exact EstA|exact X7].
           ++ cbn [app] in X1. inv X1.
              assert (Hne : m' <> UEnd) by (intros ->; apply X2; left; reflexivity).
              assert (Edd : d' = y_d s).
              { destruct Hd' as [E|(_ & _ & [E|(b & E)])]; [exact E|contradiction|]. subst m'. exfalso.
                apply (NDX_nofin _ _ _ _ b D1). unfold xsigs. rewrite Eup'. apply in_or_app. right. cbn. left. reflexivity. }
              rewrite (Esame Edd) in EfA.
              eapply (DW_wire _ _ _ _ _ pre' f); rewrite ?Esg.
              ** unfold s'. cbn [set_evq set_d y_up]. apply FifoProofs.alist_get_aset_eq.
              ** intros F. apply X2. right. exact F.
              ** exact EfA.
              ** exact X4.
              ** unfold s'. cbn [set_evq set_d y_evq]. apply no_errd_app. split; [exact X5|apply Hnoend; left; exact Hne].
              ** unfold s'. cbn [set_evq set_d y_d]. rewrite Eact. exact X6.
              ** eapply NDXcpl_ext; [exact EpA|exact EstA|exact X7].
        -- exact D3.
        -- exact D4.
      * destruct (P n0) eqn:EP.
        -- (* an alive worker whose own session has stopped *)
           destruct D0 as [D1 D2 D3 D4 D5 D6 D7]. rewrite Eup' in D3.
           assert (Hne : m <> UEnd) by (intros ->; apply D3; left; reflexivity).
           assert (Eups : flat_map up_xsig (alist_get [] n0 (y_up s)) = up_xsig m ++ flat_map up_xsig rest).
           { rewrite Eup'. reflexivity. }
           assert (FINM : forall b, In (XFin b) (up_xsig m) -> exists b', m = UEv (EFinished b')).
           { intros b Hb. destruct m as [e|ids|sk|i ms|dec| | |]; cbn in Hb; try contradiction; try (destruct Hb as [F|[]]; discriminate).
             destruct e; cbn in Hb; try contradiction; try (destruct Hb as [F|[]]; discriminate). eauto. }
           assert (ND0 : ndown ws n0 = n_down f) by (unfold ndown; rewrite Ef; reflexivity).
           assert (ND0' : ndown wsA n0 = n_down fA) by (unfold ndown; rewrite EfA; reflexivity).
           assert (Esh : hsigs wsA s' n0 = hsigs ws s n0).
           { unfold hsigs, s'. cbn [set_evq set_d y_evq y_up]. rewrite evq_xsigs_app, FifoProofs.alist_get_aset_eq, ND0, ND0'.
             unfold hup at 2. rewrite Eups.
             destruct (n_down f) eqn:Edf.
             - destruct (Hdrop eq_refl) as (-> & _). rewrite (EdnA' eq_refl). cbn. rewrite app_nil_r. reflexivity.
             - rewrite (Hsig eq_refl), Nat.eqb_refl.
               destruct (n_down fA) eqn:Edf'.
               + destruct (EdnA eq_refl) as [Y|[Y|(b & ->)]]; [discriminate|contradiction|]. cbn. rewrite <- app_assoc. reflexivity.
               + assert (Hnf : hasfin (up_xsig m) = false).
                 { apply nofin_hasfin. intros b Hb. destruct (FINM b Hb) as (b' & E'). discriminate (EdnF (or_intror (ex_intro _ b' E'))). }
                 unfold hup. rewrite cutfin_app, Hnf, <- app_assoc. reflexivity. }
           constructor; fold s'; rewrite ?Esh; unfold s'; cbn [set_evq set_d y_d y_evq y_down y_up]; rewrite ?Eact, ?FifoProofs.alist_get_aset_eq.
           ++ eapply NIWS_flags_ext; [| | | |exact D1]; auto. intros g Eg. assert (g = f) by congruence. subst g. exists fA. auto.
           ++ exact D2.
           ++ intros F. apply D3. right. exact F.
           ++ apply no_errd_app. split; [exact D4|apply Hnoend; left; exact Hne].
           ++ unfold closedb in *. rewrite EfA, EclA. rewrite Ef in D5. exact D5.
           ++ intros g Eg Hg. assert (g = fA) by congruence. subst g.
              destruct (EdnA Hg) as [Hd0|[F|(b & ->)]]; [exact (D6 f Ef Hd0)|contradiction|].
              destruct (n_down f) eqn:Edf; [exact (D6 f Ef Edf)|].
              pose proof (sw_chan _ _ _ _ _ _ _ D1) as Ch.
              assert (Hin : In (XFin b) (hsigs ws s n0)).
              { unfold hsigs, hup. rewrite ND0, Eups. apply in_or_app. right. cbn. left. reflexivity. }
              pose proof (xchan_ok_in _ _ _ Ch Hin) as Hp. apply prank_4. unfold prec in Hp. cbn in Hp. lia.
           ++ intros Hph. destruct (D7 Hph) as [Y|Y].
              ** left. rewrite ND0'. apply EdnA'. rewrite <- ND0. exact Y.
              ** rewrite Eups, hasfin_app in Y. apply orb_true_iff in Y.
                 destruct Y as [Y|Y]; [left|right; cbn [set_evq set_d y_up]; rewrite FifoProofs.alist_get_aset_eq; exact Y].
                 apply hasfin_in in Y. destruct Y as (b & Hb). destruct (FINM b Hb) as (b' & E'). rewrite ND0'.
                 exact (EdnF (or_intror (ex_intro _ b' E'))).
        -- (* an alive worker whose session has not stopped *)
           destruct D0 as [D1 D2 D3 D4 D5 D6]. rewrite Eup' in D3.
           assert (Hne : m <> UEnd) by (intros ->; apply D3; left; reflexivity).
           assert (Esg : xsigs s' n0 = xsigs s n0).
           { unfold xsigs, s'. cbn [set_evq set_d y_evq y_up]. rewrite FifoProofs.alist_get_aset_eq, evq_xsigs_app, Eup'.
             cbn [flat_map]. destruct (n_down f) eqn:Edf.
             - destruct (Hdrop eq_refl) as (-> & _). destruct (D6 f Ef Edf) as (Y1 & _). rewrite Eup' in Y1.
               cbn [flat_map] in Y1. apply app_eq_nil in Y1. destruct Y1 as (Y1 & Y2). rewrite Y1, Y2. cbn. rewrite !app_nil_r. reflexivity.
             - rewrite (Hsig eq_refl), Nat.eqb_refl, <- app_assoc. reflexivity. }
           constructor; fold s'; rewrite ?Esg; unfold s'; cbn [set_evq set_d y_d y_evq y_down y_up]; rewrite ?Eact, ?FifoProofs.alist_get_aset_eq.
           ++ eapply NIW_flags_ext; [| | | |exact D1]; auto. intros g Eg. assert (g = f) by congruence. subst g. exists fA. auto.
           ++ exact D2.
           ++ intros F. apply D3. right. exact F.
           ++ apply no_errd_app. split; [exact D4|apply Hnoend; left; exact Hne].
           ++ unfold closedb in *. rewrite EfA, EclA. rewrite Ef in D5. exact D5.
           ++ intros g Eg Hg. assert (g = fA) by congruence. subst g.
              destruct (EdnA Hg) as [Hd0|[F|(b & ->)]]; [|contradiction|].
              ** destruct (D6 f Ef Hd0) as (Y1 & Y2). rewrite Eup' in Y1. cbn [flat_map] in Y1. apply app_eq_nil in Y1. tauto.
              ** pose proof (nw_chan _ _ _ _ _ _ D1) as Ch. unfold xsigs in Ch.
                 rewrite Eup' in Ch. cbn [flat_map up_xsig we_xsig app] in Ch.
                 destruct (xchan_ok_fin_mid _ _ _ _ Ch) as (Y1 & Y2). split; [exact Y1|apply prank_4; exact Y2].
    + apply (NodeInvW_other P s s' ws wsA k w evs); auto.
      all: try (apply SIGK; exact Hk).
      all: try (unfold s'; cbn [set_evq set_d y_up]; apply FifoProofs.alist_get_aset_neq; exact Hk).
  - apply Forall_app. split; [exact Eq|exact Hok].
  - intros k. destruct (Nat.eq_dec k n0) as [->|Hk].
    + rewrite FifoProofs.alist_get_aset_eq. exact Gr.
    + rewrite FifoProofs.alist_get_aset_neq by exact Hk. apply Eu.
  - rewrite Eact. exact Ea.
  - exact Er.
  - exact Edead.
Qed.


(* ---- the preconditions of the handlers follow from the invariant ---- *)
Lemma xsigs_headx s ev q n :
  y_evq s = ev :: q -> xsigs s n = ev_xsigs_for n ev ++ (evq_xsigs n q ++ flat_map up_xsig (alist_get [] n (y_up s))).
Proof. intros E. unfold xsigs. rewrite E. cbn [evq_xsigs flat_map]. rewrite <- app_assoc. reflexivity. Qed.

Lemma evq_xsigs_cons n ev q : evq_xsigs n (ev :: q) = ev_xsigs_for n ev ++ evq_xsigs n q.
Proof. reflexivity. Qed.

(* what the node whose signal heads the queue looks like *)
Lemma head_nodex P s ws ev q n g :
  XW s -> (forall n w, aget n (y_w s) = Some w -> NodeInvW OR P s ws n w) ->
  y_evq s = ev :: q -> ev_xsig ev = Some (n, g) ->
  exists w L, aget n (y_w s) = Some w /\ In n (d_active (y_d s)) /\
    ((mem_nat n (y_dead s) = false /\ P n = false /\
      NIW ws (d_active (y_d s)) n (g :: L) (alist_get [] n (y_down s)) w) \/
     (mem_nat n (y_dead s) = false /\ P n = true /\
      NIWS (OR n) ws (d_active (y_d s)) n (g :: L) (alist_get [] n (y_down s)) w) \/
     (mem_nat n (y_dead s) = true /\ NDX ws n (g :: L) w /\ NDXcpl (P n) ws n (g :: L) w)).
Proof.
  intros X NIs Eq Eg. pose proof X as [Lo Hi _ Eok _ _ _ _].
  assert (HnG : n < d_next_gw (y_d s)).
  { rewrite Eq in Eok. inversion Eok as [|e1 q1 (_ & Hn) _]; subst. destruct ev; cbn in Eg; inv Eg; exact Hn. }
  destruct (aget n (y_w s)) as [w|] eqn:Ew; [|exfalso; exact (Lo n HnG Ew)].
  pose proof (xsigs_headx s ev q n Eq) as Es. unfold ev_xsigs_for in Es. rewrite Eg, Nat.eqb_refl in Es. cbn [app] in Es.
  pose proof (hsigs_head ws s ev q n Eq) as Eh. unfold ev_xsigs_for in Eh. rewrite Eg, Nat.eqb_refl in Eh. cbn [app] in Eh.
  exists w.
  destruct (NIs n w Ew) as (_ & _ & _ & D). destruct (mem_nat n (y_dead s)).
  - eexists. split; [reflexivity|]. destruct D as [D1 D2 D3 D4]. rewrite Es in D1.
    destruct D2 as [pre f X1 X2 X3 X4 X5 X6 X7|q1 q2 X1 X2 X3 X4 X5 X6 X7|X1 X2 X3 X4 X5].
    + split; [exact X6|]. right. right. rewrite Es in X7. split; [reflexivity|split; [exact D1|exact X7]].
    + split; [exact X6|]. right. right. rewrite Es in X7. split; [reflexivity|split; [exact D1|exact X7]].
    + exfalso. rewrite Eq, evq_xsigs_cons in X3. unfold ev_xsigs_for in X3. rewrite Eg, Nat.eqb_refl in X3. discriminate.
  - destruct (P n).
    + eexists. split; [reflexivity|]. destruct D as [D1 _ _ _ _ _ _]. rewrite Eh in D1. split.
      * destruct (in_dec Nat.eq_dec n (d_active (y_d s))) as [Hin|Hni]; [exact Hin|].
        destruct (sw_act _ _ _ _ _ _ _ D1 Hni) as (F & _). discriminate.
      * right. left. split; [reflexivity|split; [reflexivity|exact D1]].
    + eexists. split; [reflexivity|]. destruct D as [D1 _ _ _ _ _]. rewrite Es in D1. split.
      * destruct (in_dec Nat.eq_dec n (d_active (y_d s))) as [Hin|Hni]; [exact Hin|].
        destruct (nw_act _ _ _ _ _ _ D1 Hni) as (F & _). discriminate.
      * left. split; [reflexivity|split; [reflexivity|exact D1]].
Qed.

Lemma pre_from_invx P s ws ev q :
  XW s -> DJX N X0 (y_d s) ws -> (forall n w, aget n (y_w s) = Some w -> NodeInvW OR P s ws n w) ->
  y_evq s = ev :: q -> PREX X0 ev (y_d s) ws.
Proof.
  intros X DJd NIs Eq. pose proof X as [Lo Hi _ Eok _ _ _ _].
  assert (Hok : ok_evw X0 (d_next_gw (y_d s)) ev) by (rewrite Eq in Eok; inversion Eok; assumption).
  destruct Hok as (Hok3 & Hnode).
  destruct ev as [n|n ids|n key fl|n i|n i|n i k oc|n i ms|n ixs| |n|n sk|n]; cbn [PREX]; cbn in Hok3, Hnode; try contradiction; auto.
  - (* ready *)
    destruct (head_nodex P s ws _ q n XReady X NIs Eq eq_refl) as (w & L & Ew & Hact & HH). split; [exact Hnode|].
    split; [exact Hact|]. intros _ Hin.
    destruct HH as [(_ & _ & D1)|[(_ & _ & D1)|(_ & D1 & _)]].
    + destruct (nw_nodes _ _ _ _ _ _ D1 Hin) as (F & _). apply F. left. reflexivity.
    + apply (sw_nodes _ _ _ _ _ _ _ D1 Hin). left. reflexivity.
    + apply (dx_nodes _ _ _ _ D1 Hin). left. reflexivity.
  - (* complete *)
    destruct (head_nodex P s ws _ q n (XComp i) X NIs Eq eq_refl) as (w & L & Ew & Hact & HH).
    destruct HH as [(_ & _ & D1)|[(_ & _ & D1)|(_ & _ & (Sb & _ & _))]].
    + pose proof (nw_coupled _ _ _ _ _ _ D1) as Cp. cbn [xcompletes flat_map app] in Cp.
      eapply Permutation_in; [apply Permutation_sym; exact Cp|]. left. reflexivity.
    + pose proof (sw_sub _ _ _ _ _ _ _ D1) as Sb. cbn [xcompletes flat_map app] in Sb.
      eapply sub_in; [exact Sb|]. left. reflexivity.
    + cbn [xcompletes flat_map app] in Sb. eapply sub_in; [exact Sb|]. left. reflexivity.
  - (* unscheduled *)
    destruct (head_nodex P s ws _ q n (XUns ixs) X NIs Eq eq_refl) as (w & L & Ew & Hact & HH).
    assert (Hle : 1 <= cnt (ws_steal ws) n).
    { destruct HH as [(_ & _ & D1)|[(_ & _ & D1)|(_ & _ & (_ & St & _))]].
      - pose proof (nw_steal _ _ _ _ _ _ D1) as St. unfold nuns in St. cbn [filter is_uns length] in St. lia.
      - pose proof (sw_stle _ _ _ _ _ _ _ D1) as St. unfold nuns in St. cbn [filter is_uns length] in St. lia.
      - unfold nuns in St. cbn [filter is_uns length] in St. lia. }
    split; [pose proof (cnt_le1 (ws_steal ws) n); apply cnt_pos; lia|].
    assert (Sb : sub (xcompletes (XUns ixs :: L) ++ xbacks (XUns ixs :: L)) (bkw ws n)).
    { destruct HH as [(_ & _ & D1)|[(_ & _ & D1)|(_ & _ & (Sb & _ & _))]]; [| |exact Sb].
      - pose proof (nw_coupled _ _ _ _ _ _ D1) as Cp.
        exists (owed_w w ++ flat_map cmd_inds (alist_get [] n (y_down s)) ++ R w). rewrite Cp. permc.
      - eapply sub_trans; [|exact (sw_sub _ _ _ _ _ _ _ D1)].
        exists (owed_w w ++ flat_map cmd_inds (alist_get [] n (y_down s)) ++ R w). permc. }
    destruct Sb as (y & Py). cbn [xcompletes xbacks flat_map app] in Py.
    eexists. rewrite <- Py. unfold xcompletes, xbacks.
    match goal with |- Permutation ((?a ++ ixs ++ ?b) ++ ?cc) _ => instantiate (1 := a ++ b ++ cc) end. permc.
  - (* finished *)
    destruct sk; try contradiction.
    + destruct (head_nodex P s ws _ q n (XFin false) X NIs Eq eq_refl) as (w & L & Ew & Hact & HH).
      destruct HH as [(_ & _ & D1)|[(_ & _ & D1)|(_ & D1 & _)]].
      * destruct (NIW_finished_empty _ _ _ _ _ _ D1) as (Eb & Hf & Hst).
        split; [exact Hact|]. split; [|split; [exact Hst|exact Hf]].
        intros Hin. apply LoadProofs.aget_In_keys in Hin. unfold bkw, alist_get in Eb.
        destruct (aget n (ws_n2p ws)) as [b|]; [congruence|contradiction].
      * exfalso. apply (sw_nofalse _ _ _ _ _ _ _ D1). left. reflexivity.
      * exfalso. apply (NDX_nofin _ _ _ _ false D1). left. reflexivity.
    + destruct (head_nodex P s ws _ q n (XFin true) X NIs Eq eq_refl) as (w & L & Ew & Hact & _). exact Hact.
  - (* errordown: the node is dead and its end marker has been read *)
    destruct (aget n (y_w s)) as [w|] eqn:Ew; [|exfalso; exact (Lo n Hnode Ew)].
    destruct (NIs n w Ew) as (_ & _ & _ & D).
    assert (HIN : In (QErrorDown n) (y_evq s)) by (rewrite Eq; left; reflexivity).
    assert (ERR : is_errd n (QErrorDown n) = true) by (cbn; apply Nat.eqb_refl).
    destruct (mem_nat n (y_dead s)).
    + destruct D as [_ D2 _ _]. destruct D2 as [pre f X1 X2 X3 X4 X5 X6 X7|q1 q2 X1 X2 X3 X4 X5 X6 X7|X1 X2 X3 X4 X5].
      * rewrite (X5 _ HIN) in ERR. discriminate.
      * exact X6.
      * rewrite (X2 _ HIN) in ERR. discriminate.
    + destruct (P n).
      * destruct D as [_ _ _ D4 _ _ _]. rewrite (D4 _ HIN) in ERR. discriminate.
      * destruct D as [_ _ _ D4 _ _]. rewrite (D4 _ HIN) in ERR. discriminate.
Qed.

(* ---- LCtl: one iteration of the controller's main loop ---- *)
Lemma bookmidx_eq ev n b : (forall k, ev = QErrorDown k -> k <> n) -> bookmidx ev n b = bookmidw ev n b.
Proof.
  intros H. destruct ev; try reflexivity. cbn. destruct (Nat.eqb n n0) eqn:E; [|reflexivity].
  apply Nat.eqb_eq in E. subst. exfalso. exact (H n0 eq_refl eq_refl).
Qed.

Lemma ok_evw_mono G G' ev : G <= G' -> ok_evw X0 G ev -> ok_evw X0 G' ev.
Proof. intros H (A & B). split; [exact A|]. destruct (ev_nodew ev); [lia|exact I]. Qed.

Lemma evq_xsigs_fresh G q : Forall (ok_evw X0 G) q -> evq_xsigs G q = [].
Proof.
  induction 1 as [|e l (_ & He) _ IH]; [reflexivity|].
  rewrite evq_xsigs_cons, IH, app_nil_r. unfold ev_xsigs_for. destruct (ev_xsig e) as [[m g]|] eqn:Eg; [|reflexivity].
  destruct (Nat.eqb m G) eqn:Em; [|reflexivity]. apply Nat.eqb_eq in Em. subst m. exfalso.
  destruct e; cbn in Eg; inv Eg; cbn in He; lia.
Qed.

Lemma step_ctl_corex s ev q d' outs r :
  XW s -> y_result s = None -> y_evq s = ev :: q ->
  d_loop_once ev (y_d s) = (d', outs, r) ->
  r = Ok tt /\ (SAMEX X0 -> d_active d' = [] -> d_shuttingdown d' = true) /\
  (forall rr, (forall e, rr <> Some (RError e)) -> (rr = None -> d_active d' <> []) ->
     XW (set_result (apply_outs (set_d (set_evq s q) d') outs) rr)).
Proof.
  intros X Eres Eevq El. pose proof X as [Lo Hi (ws & P & DJd & NIs & Pout) Eq Eu Ea Er Edead].
  specialize (Ea Eres).
  pose proof (pre_from_invx P s ws ev q X DJd NIs Eevq) as Hpre.
  destruct (loop_once_okx N X0 Hpos ev _ ws d' outs r DJd Hpre El) as (-> & ws' & vo & Eo & E & DJ2 & _ & Hfin).
  split; [reflexivity|]. split; [exact Hfin|]. intros rr Hrr Hact.
  pose proof (loop_once_step _ _ _ _ _ El) as (_ & _ & _ & SP).
  pose proof DJd as ([Els J AL _ _ _] & _).
  pose proof DJ2 as ([Els2 J2 _ _ _ _] & _).
  set (G := d_next_gw (y_d s)) in *.
  assert (SPW : (d_next_gw d' = G /\ forall id sp, ~ In (OHook (HSpawn id sp)) outs) \/
                (d_next_gw d' = S G /\ (exists sp, In (OHook (HSpawn G sp)) outs) /\
                 forall id sp, In (OHook (HSpawn id sp)) outs -> id = G)).
  { destruct SP as [(C0 & G0)|(C1 & G1 & _ & _ & sp & SPx)].
    - left. split; [exact G0|]. intros id sp Hin. pose proof (count_zero_notin _ _ _ C0 Hin) as F. discriminate.
    - right. split; [exact G1|]. split.
      + destruct (count_pos_in _ _ C1) as (x & Hx & Fx). exists sp. rewrite <- (SPx x Hx Fx). exact Hx.
      + intros id sp' Hin. specialize (SPx _ Hin eq_refl). inv SPx. reflexivity. }
  assert (GW : G <= d_next_gw d') by (destruct SPW as [(A & _)|(A & _)]; lia).
  assert (SPID : forall id sp, In (OHook (HSpawn id sp)) outs -> id = G /\ d_next_gw d' = S G).
  { intros id sp Hin. destruct SPW as [(_ & F)|(A & _ & B)]; [exfalso; exact (F _ _ Hin)|]. split; [eapply B; eauto|exact A]. }
  assert (OUTG : forall m, G <= m -> cmds_to m outs = []).
  { intros m Hm. rewrite Eo, cmds_to_vfilter, (hx_out _ _ _ _ _ _ _ _ E m Hm). destruct (closedb (ws_nt ws) m); reflexivity. }
  set (sA := set_d (set_evq s q) d').
  destruct (apply_outs_frame outs sA) as (F1 & F2 & F3). cbn [sA set_d set_evq y_evq y_d y_dead] in F1, F2, F3.
  assert (UP : forall k, alist_get [] k (y_up (apply_outs sA outs)) = alist_get [] k (y_up s)).
  { intros k. rewrite apply_outs_up; [reflexivity|]. intros id sp Hin. destruct (SPID _ _ Hin) as (-> & _).
    cbn [sA set_d set_evq y_up]. apply (Hi G). lia. }
  assert (DOWN : forall k, alist_get [] k (y_down (apply_outs sA outs)) =
            if mem_nat k (y_dead s) then alist_get [] k (y_down s) else alist_get [] k (y_down s) ++ cmds_to k outs).
  { intros k. rewrite apply_outs_down; [reflexivity|]. intros id sp Hin. destruct (SPID _ _ Hin) as (-> & _).
    split; [apply OUTG; lia|]. cbn [sA set_d set_evq y_down]. apply (Hi G). lia. }
  assert (WOLD : forall k, k < G -> aget k (y_w (apply_outs sA outs)) = aget k (y_w s)).
  { intros k Hk. rewrite apply_outs_w_none; [reflexivity|]. intros sp Hin. destruct (SPID _ _ Hin) as (-> & _). lia. }
  assert (SIGS : forall k, xsigs s k = ev_xsigs_for k ev ++ xsigs (set_result (apply_outs sA outs) rr) k).
  { intros k. rewrite (xsigs_headx s ev q k Eevq). unfold xsigs. cbn [set_result y_evq y_up]. rewrite F1, UP. reflexivity. }
  assert (NDW : forall k, k < G -> ndown ws' k = ndown ws k).
  { intros k Hk. pose proof (hx_nt _ _ _ _ _ _ _ _ E k Hk) as R0. unfold ndown.
    destruct (aget k (ws_nt ws)) as [f|], (aget k (ws_nt ws')) as [f'|]; cbn in R0; try contradiction; [|reflexivity].
    destruct (NRW_fields _ _ _ R0) as (_ & B & _). exact B. }
  assert (HSIGS : forall k, k < G -> hsigs ws s k = ev_xsigs_for k ev ++ hsigs ws' (set_result (apply_outs sA outs) rr) k).
  { intros k Hk. rewrite (hsigs_head ws s ev q k Eevq). unfold hsigs. cbn [set_result y_evq y_up]. rewrite F1, UP, (NDW k Hk). reflexivity. }
  assert (EVIN : In ev (y_evq s)) by (rewrite Eevq; left; reflexivity).
  assert (NDB : forall k, NoDup (bkw ws k)) by (intros k; apply bkw_nodup; apply (xj_nd _ _ _ _ J)).
  assert (NDB' : forall k, NoDup (bkw ws' k)) by (intros k; apply bkw_nodup; apply (xj_nd _ _ _ _ J2)).
  constructor; cbn [set_result y_d y_evq y_down y_up y_w y_dead y_result]; rewrite ?F1, ?F2, ?F3.
  - (* every id below the counter has a process *)
    intros m Hm. destruct (Nat.lt_ge_cases m G) as [Hlt|Hge].
    + rewrite (WOLD m Hlt). apply Lo. exact Hlt.
    + destruct SPW as [(A & _)|(A & (sp & Hin) & _)]; [lia|]. assert (m = G) by lia. subst m.
      rewrite (apply_outs_spawned outs sA G); [discriminate|]. right. eauto.
  - intros m Hm. assert (HmG : G <= m) by lia. destruct (Hi m HmG) as (A & B & C). split; [|split].
    + rewrite apply_outs_w_none; [exact A|]. intros sp Hin. destruct (SPID _ _ Hin) as (-> & A'). lia.
    + rewrite UP. exact B.
    + rewrite DOWN, C, (OUTG m HmG). destruct (mem_nat m (y_dead s)); reflexivity.
  - exists ws', P. split; [exact DJ2|]. split; [|intros n Hn; apply Pout; lia]. intros k w Hw.
    destruct (Nat.lt_ge_cases k G) as [Hlt|Hge].
    + (* a worker that existed before *)
      rewrite (WOLD k Hlt) in Hw. destruct (NIs k w Hw) as (A & B & C & D).
      split; [exact A|]. split; [exact B|]. split; [exact C|].
      pose proof (hx_nt _ _ _ _ _ _ _ _ E k Hlt) as HNT.
      pose proof (hx_bk _ _ _ _ _ _ _ _ E k) as HBK.
      pose proof (hx_nodes _ _ _ _ _ _ _ _ E k) as HNODES.
      pose proof (hx_n2c _ _ _ _ _ _ _ _ E k) as HN2C.
      cbn [set_result y_dead]. rewrite F3.
      destruct (mem_nat k (y_dead s)) eqn:Hdd; rewrite ?Hdd in D.
      * (* dead *)
        destruct D as [D1 D2 D3 D4x]. rewrite (SIGS k) in D1.
        constructor.
        -- eapply NDX_ctl; eauto.
        -- destruct D2 as [pre f X1 X2 X3 X4 X5 X6 X7|q1 q2 X1 X2 X3 X4 X5 X6 X7|X1 X2 X3 X4 X5].
           ++ rewrite Eevq in X5. destruct (no_errd_cons_inv _ _ _ X5) as (Hev & Hq).
              rewrite X3 in HNT. destruct (aget k (ws_nt ws')) as [f'|] eqn:Ef'; [|destruct HNT]. cbn in HNT.
              destruct (NRW_fields _ _ _ HNT) as (_ & Bd & _).
              eapply (DW_wire _ _ _ _ _ pre f'); cbn [set_result y_up y_evq y_d]; rewrite ?UP, ?F1, ?F2; eauto; try congruence.
              ** destruct (hx_act _ _ _ _ _ _ _ _ E k X6) as [Y|[(b & Y)|Y]]; [exact Y| |].
                 --- exfalso. apply (NDX_nofin _ _ _ _ b D1). apply in_or_app. left.
                     unfold ev_xsigs_for. rewrite Y, Nat.eqb_refl. left. reflexivity.
                 --- exfalso. exact (is_errd_false _ _ Hev k Y eq_refl).
              ** rewrite (SIGS k) in X7. eapply (NDXcpl_ctl (P k) ev ws ws' k); [apply NDB| | |exact X7].
                 --- rewrite HBK, (bookmidx_eq ev k _ (is_errd_false _ _ Hev)). reflexivity.
                 --- apply (hx_steal _ _ _ _ _ _ _ _ E k). intros F. exact (is_errd_false _ _ Hev k F eq_refl).
           ++ rewrite Eevq in X2. destruct q1 as [|e1 q1'].
              ** (* its errordown has just been handled *)
                 cbn [app] in X2. injection X2 as E1 E2.
                 destruct (hx_err _ _ _ _ _ _ _ _ E k E1) as (Y1 & Y2).
                 eapply DW_done; cbn [set_result y_up y_evq y_d]; rewrite ?UP, ?F1, ?F2, ?E2; eauto.
              ** cbn [app] in X2. injection X2 as E1 E2. subst e1. destruct (no_errd_cons_inv _ _ _ X4) as (Hev & Hq1).
                 eapply (DW_queue _ _ _ _ _ q1' q2); cbn [set_result y_up y_evq y_d]; rewrite ?UP, ?F1, ?F2; eauto.
                 --- destruct (hx_act _ _ _ _ _ _ _ _ E k X6) as [Y|[(b & Y)|Y]]; [exact Y| |].
                     +++ exfalso. apply (NDX_nofin _ _ _ _ b D1). apply in_or_app. left.
                         unfold ev_xsigs_for. rewrite Y, Nat.eqb_refl. left. reflexivity.
                     +++ exfalso. exact (is_errd_false _ _ Hev k Y eq_refl).
                 --- rewrite (SIGS k) in X7. eapply (NDXcpl_ctl (P k) ev ws ws' k); [apply NDB| | |exact X7].
                     +++ rewrite HBK, (bookmidx_eq ev k _ (is_errd_false _ _ Hev)). reflexivity.
                     +++ apply (hx_steal _ _ _ _ _ _ _ _ E k). intros F. exact (is_errd_false _ _ Hev k F eq_refl).
           ++ rewrite Eevq in X2, X3. destruct (no_errd_cons_inv _ _ _ X2) as (Hev & Hq).
              rewrite evq_xsigs_cons in X3. apply app_eq_nil in X3. destruct X3 as (X3a & X3b).
              eapply DW_done; cbn [set_result y_up y_evq y_d]; rewrite ?UP, ?F1, ?F2; eauto.
              ** intros Hin. destruct (hx_actb _ _ _ _ _ _ _ _ E k Hin) as [Y|(Y & _)]; [contradiction|]. fold G in Y. lia.
              ** intros Hin. destruct (HNODES Hin) as [Y|Y]; [contradiction|].
                 unfold ev_xsigs_for in X3a. rewrite Y, Nat.eqb_refl in X3a. discriminate.
        -- cbn [set_result y_down]. rewrite DOWN, Hdd. exact D3.
        -- exact D4x.
      * destruct (P k) eqn:EPk.
        { (* alive, its own session has stopped *)
        destruct D as [D1 D2 D3 D4 D5 D6 D7]. rewrite (HSIGS k Hlt) in D1.
        rewrite Eevq in D4. destruct (no_errd_cons_inv _ _ _ D4) as (Hev & Hq).
        assert (CM : cmds_to k outs = cmds_to k vo) by (rewrite Eo, cmds_to_vfilter, D5; reflexivity).
        assert (NRk : exists f f', aget k (ws_nt ws) = Some f /\ aget k (ws_nt ws') = Some f' /\ NRW f (cmds_to k vo) f').
        { destruct (aget k (ws_nt ws)) as [f|] eqn:Ef; [|exfalso; apply (proj2 (xj_ntk _ _ _ _ J k) Hlt); exact Ef].
          destruct (aget k (ws_nt ws')) as [f'|] eqn:Ef'; [|destruct HNT]. exists f, f'. auto. }
        destruct NRk as (f & f' & Ef & Ef' & NRf). destruct (NRW_fields _ _ _ NRf) as (_ & Bd & Bc & _ & Bg).
        assert (HNE : forall j, ev = QErrorDown j -> j <> k) by (apply is_errd_false; exact Hev).
        constructor; cbn [set_result y_down y_up y_evq y_d]; rewrite ?DOWN, ?Hdd, ?UP, ?F1, ?F2, ?CM.
        -- apply (NIWS_ctlx (OR k) ev ws ws' (d_active (y_d s)) (d_active d') k _ _ w vo HNT).
           ++ rewrite HBK, (bookmidx_eq ev k _ HNE). reflexivity.
           ++ apply (hx_steal _ _ _ _ _ _ _ _ E k). intros F. exact (HNE k F eq_refl).
           ++ exact HNODES.
           ++ exact HN2C.
           ++ intros Hin. destruct (hx_act _ _ _ _ _ _ _ _ E k Hin) as [Y|[Y|Y]]; [left; exact Y|right; exact Y|].
              exfalso. exact (HNE k Y eq_refl).
           ++ apply NDB'.
           ++ exact D1.
        -- apply Forall_app. split; [exact D2|exact Bg].
        -- exact D3.
        -- exact Hq.
        -- rewrite (hx_closed _ _ _ _ _ _ _ _ E k). exact D5.
        -- intros g Eg Hg. assert (g = f') by congruence. subst g. apply (D6 f Ef). congruence.
        -- intros Hph. destruct (D7 Hph) as [Y|Y]; [left; rewrite (NDW k Hlt); exact Y|right].
           cbn [set_result y_up]. rewrite UP. exact Y. }
        (* alive *)
        destruct D as [D1 D2 D3 D4 D5 D6]. rewrite (SIGS k) in D1.
        rewrite Eevq in D4. destruct (no_errd_cons_inv _ _ _ D4) as (Hev & Hq).
        assert (CM : cmds_to k outs = cmds_to k vo) by (rewrite Eo, cmds_to_vfilter, D5; reflexivity).
        assert (NRk : exists f f', aget k (ws_nt ws) = Some f /\ aget k (ws_nt ws') = Some f' /\ NRW f (cmds_to k vo) f').
        { destruct (aget k (ws_nt ws)) as [f|] eqn:Ef; [|exfalso; apply (proj2 (xj_ntk _ _ _ _ J k) Hlt); exact Ef].
          destruct (aget k (ws_nt ws')) as [f'|] eqn:Ef'; [|destruct HNT]. exists f, f'. auto. }
        destruct NRk as (f & f' & Ef & Ef' & NRf). destruct (NRW_fields _ _ _ NRf) as (_ & Bd & Bc & _ & Bg).
        assert (HNE : forall j, ev = QErrorDown j -> j <> k) by (apply is_errd_false; exact Hev).
        constructor; cbn [set_result y_down y_up y_evq y_d]; rewrite ?DOWN, ?Hdd, ?UP, ?F1, ?F2, ?CM.
        -- apply (NIW_ctlx ev ws ws' (d_active (y_d s)) (d_active d') k _ _ w vo HNT).
           ++ rewrite HBK, (bookmidx_eq ev k _ HNE). reflexivity.
           ++ apply (hx_steal _ _ _ _ _ _ _ _ E k). intros F. exact (HNE k F eq_refl).
           ++ exact HNODES.
           ++ exact HN2C.
           ++ intros Hin. destruct (hx_act _ _ _ _ _ _ _ _ E k Hin) as [Y|[Y|Y]]; [left; exact Y|right; exact Y|].
              exfalso. exact (HNE k Y eq_refl).
           ++ apply NDB.
           ++ apply NDB'.
           ++ exact D1.
        -- apply Forall_app. split; [exact D2|exact Bg].
        -- exact D3.
        -- exact Hq.
        -- rewrite (hx_closed _ _ _ _ _ _ _ _ E k). exact D5.
        -- intros g Eg Hg. assert (g = f') by congruence. subst g. apply (D6 f Ef). congruence.
    + (* the replacement worker that has just been started *)
      destruct SPW as [(A & Fno)|(A & (sp & Hin) & _)].
      { exfalso. rewrite apply_outs_w_none in Hw by (intros sp Hin; exact (Fno _ _ Hin)).
        destruct (Hi k Hge) as (F & _). cbn [sA set_d set_evq y_w] in Hw. congruence. }
      destruct (Nat.eq_dec k G) as [->|Hne].
      2:{ exfalso. rewrite apply_outs_w_none in Hw.
          - destruct (Hi k Hge) as (F & _). cbn [sA set_d set_evq y_w] in Hw. congruence.
          - intros sp' Hin'. destruct (SPID _ _ Hin') as (-> & _). contradiction. }
      rewrite (apply_outs_spawned outs sA G) in Hw by (right; eauto). injection Hw as <-.
      destruct (hx_gw _ _ _ _ _ _ _ _ E) as [Y|(_ & (f & Ef & (Hf1 & Hf2 & Hf3)) & Hina & Hnn & Hnc)]; [fold G in Y; lia|].
      fold G in Ef, Hina, Hnn, Hnc.
      assert (HdG : mem_nat G (y_dead s) = false).
      { apply mem_nat_false. intros Hin'. specialize (Edead _ Hin'). fold G in Edead. lia. }
      destruct (Hi G (le_n G)) as (_ & UG & DG).
      assert (ESG : xsigs (set_result (apply_outs sA outs) rr) G = []).
      { assert (Z : xsigs s G = []).
        { unfold xsigs. rewrite UG. cbn. rewrite app_nil_r. apply evq_xsigs_fresh. exact Eq. }
        pose proof (SIGS G) as Z2. rewrite Z in Z2. symmetry in Z2. apply app_eq_nil in Z2. tauto. }
      assert (BKG : bkw ws' G = []) by (apply bkw_none; apply LoadProofs.aget_none_keys; exact Hnn).
      assert (STG : cnt (ws_steal ws') G = 0).
      { destruct (ws_steal ws') as [v|] eqn:Es; [|reflexivity]. cbn. destruct (Nat.eqb v G) eqn:Ev; [|reflexivity].
        apply Nat.eqb_eq in Ev. subst v. exfalso. apply Hnn. apply (xj_st _ _ _ _ J2). exact Es. }
      split; [apply winv_init|]. split; [constructor|]. split; [exact Logic.I|].
      cbn [set_result y_dead]. rewrite F3, HdG, (Pout G (le_n G)).
      constructor; rewrite ?ESG; cbn [set_result y_down y_up y_evq y_d]; rewrite ?DOWN, ?HdG, ?DG, ?UP, ?UG, ?F1, ?F2, ?(OUTG G (le_n G)); cbn [app].
      * constructor; cbn [w_init wph wcb prank].
        -- exists f. split; [exact Ef|]. cbn. rewrite Hf1. apply mark_okb_nil.
        -- rewrite BKG. reflexivity.
        -- apply xchan_ok_nil.
        -- intros Hin'. contradiction.
        -- intros Hin'. contradiction.
        -- intros F. contradiction.
        -- intros [F|(b & F)]; discriminate.
        -- discriminate.
        -- exact I.
        -- discriminate.
        -- rewrite STG. reflexivity.
        -- rewrite BKG. constructor.
        -- rewrite BKG. reflexivity.
      * constructor.
      * intros [].
      * intros e He. assert (He' : In e (y_evq s)) by (rewrite Eevq; right; exact He).
        rewrite Forall_forall in Eq. destruct (Eq e He') as (_ & Hn). destruct e; try reflexivity. cbn in Hn |- *.
        apply Nat.eqb_neq. fold G in Hn. lia.
      * unfold closedb. rewrite Ef. exact Hf3.
      * intros g Eg Hg. assert (g = f) by congruence. subst g. congruence.
  - rewrite Eevq in Eq. apply Forall_forall. intros e He. rewrite Forall_forall in Eq.
    apply (ok_evw_mono G _ e GW). apply Eq. right. exact He.
  - intros k. rewrite UP. apply Eu.
  - exact Hact.
  - exact Hrr.
  - intros k Hk. specialize (Edead k Hk). fold G in Edead. lia.
Qed.




(* ---- the invariant gives the statements ---- *)
Lemma unstopped_P P s ws n w :
  NodeInvW OR P s ws n w -> aget n (y_w s) = Some w -> unstopped c s n -> P n = false.
Proof.
  intros (_ & _ & _ & D) Ew U. destruct (P n) eqn:EP; [|reflexivity]. exfalso.
  assert (EV : exists r, In r (wran w) /\ stops_after (OR n) (snd (fst r)) = true).
  { destruct (mem_nat n (y_dead s)).
    - destruct D as [_ _ _ D4]. exact (D4 eq_refl).
    - destruct D as [D1 _ _ _ _ _ _]. exact (sw_ev _ _ _ _ _ _ _ D1). }
  destruct EV as (r & Hr & Hs). rewrite (U w Ew r Hr) in Hs. discriminate.
Qed.

Lemma xw_coupled s : XW s -> CrashCoupledW c s.
Proof.
  intros [Lo Hi (ws & P & DJd & NIs & Pout) Eq Eu Ea Er Edead] n.
  pose proof DJd as ([Els J _ _ _ _] & _).
  assert (BK : bookw s n = bkw ws n) by (unfold bookw; rewrite Els; reflexivity).
  assert (HS : hsigs_of s n = hsigs ws s n) by (unfold hsigs_of; rewrite Els; reflexivity).
  destruct (aget n (y_w s)) as [w|] eqn:Ew.
  - pose proof (unstopped_P P s ws n w (NIs n w Ew) Ew) as UP.
    destruct (NIs n w Ew) as (_ & _ & _ & D). destruct (mem_nat n (y_dead s)).
    + destruct D as [_ D2 _ _]. destruct D2 as [pre f X1 X2 X3 X4 X5 X6 X7|q1 q2 X1 X2 X3 X4 X5 X6 X7|X1 X2 X3 X4 X5].
      * split; [intros _; rewrite BK; split; [exact (proj1 X7)|intros U; exact (proj2 (proj2 X7) (UP U))]|intros F; contradiction].
      * split; [intros _; rewrite BK; split; [exact (proj1 X7)|intros U; exact (proj2 (proj2 X7) (UP U))]|intros F; contradiction].
      * split; [intros F; contradiction|]. intros _. rewrite BK. apply bkw_none. apply LoadProofs.aget_none_keys. exact X5.
    + rewrite BK, HS. destruct (P n) eqn:EP.
      * destruct D as [D1 _ _ _ _ _ _]. split; [exact (sw_sub _ _ _ _ _ _ _ D1)|]. intros U. discriminate (UP U).
      * pose proof (ALX_hsigs s ws n w D) as EH. destruct D as [D1 _ _ _ _ _]. rewrite EH. split.
        -- apply sub_perm. apply Permutation_sym. exact (nw_coupled _ _ _ _ _ _ D1).
        -- intros _. unfold owedw, backw. rewrite Ew. split.
           ++ rewrite (nw_coupled _ _ _ _ _ _ D1). unfold R. permc.
           ++ rewrite <- (nw_ord _ _ _ _ _ _ D1). apply filter_notin_ext. intros i. unfold R. rewrite !in_app_iff. tauto.
  - rewrite BK. apply bkw_none. apply LoadProofs.aget_none_keys. intros Hin.
    pose proof (xj_nodes _ _ _ _ J n Hin) as Hlt. exact (Lo n Hlt Ew).
Qed.

Lemma xw_stealone s : XW s -> StealOneX c s.
Proof.
  intros [Lo Hi (ws & P & DJd & NIs & Pout) Eq Eu Ea Er Edead] n.
  pose proof DJd as ([Els J _ _ _ _] & _).
  assert (SO : steal_of s = ws_steal ws) by (unfold steal_of; rewrite Els; reflexivity).
  assert (HS : hsigs_of s n = hsigs ws s n) by (unfold hsigs_of; rewrite Els; reflexivity).
  destruct (aget n (y_w s)) as [w|] eqn:Ew; [|exact I].
  pose proof (unstopped_P P s ws n w (NIs n w Ew) Ew) as UP.
  destruct (NIs n w Ew) as (_ & _ & _ & D). unfold stealreqx. rewrite Ew, HS, SO. destruct (mem_nat n (y_dead s)).
  - split; [|discriminate]. destruct D as [_ D2 _ _]. destruct D2 as [pre f X1 X2 X3 X4 X5 X6 X7|q1 q2 X1 X2 X3 X4 X5 X6 X7|X1 X2 X3 X4 X5].
    + exact (proj1 (proj2 X7)).
    + exact (proj1 (proj2 X7)).
    + unfold xsigs. rewrite X1, X3. cbn. lia.
  - destruct (P n) eqn:EP.
    + destruct D as [D1 _ _ _ _ _ _]. split; [pose proof (sw_stle _ _ _ _ _ _ _ D1); lia|]. intros _ U. discriminate (UP U).
    + pose proof (ALX_hsigs s ws n w D) as EH. destruct D as [D1 _ _ _ _ _]. rewrite EH.
      pose proof (nw_steal _ _ _ _ _ _ D1) as St. split; [lia|]. intros _ _. unfold stealreq. rewrite Ew. lia.
Qed.

(* the marker steal_requested_from_node names a node that is registered with the scheduler and that has a
   worker process; the controller still counts it as active, unless its own session has stopped *)
Lemma xw_marker s v : XW s -> steal_of s = Some v ->
  (exists ws, d_sched (y_d s) = StW ws /\ In v (ws_nodes ws)) /\ aget v (y_w s) <> None /\
  (mem_nat v (y_dead s) = true \/ unstopped c s v -> In v (d_active (y_d s))).
Proof.
  intros [Lo Hi (ws & P & DJd & NIs & Pout) Eq Eu Ea Er Edead] Hs.
  pose proof DJd as ([Els J AL _ JB _] & _ & Jss).
  assert (SO : ws_steal ws = Some v) by (unfold steal_of in Hs; rewrite Els in Hs; exact Hs).
  pose proof (xj_st _ _ _ _ J v SO) as Hin.
  pose proof (xj_nodes _ _ _ _ J v Hin) as Hlt.
  split; [exists ws; auto|]. split; [apply Lo; exact Hlt|].
  destruct (aget v (y_w s)) as [w|] eqn:Ew; [|exfalso; exact (Lo v Hlt Ew)].
  pose proof (unstopped_P P s ws v w (NIs v w Ew) Ew) as UP.
  destruct (NIs v w Ew) as (_ & _ & _ & D). destruct (mem_nat v (y_dead s)).
  - intros _. destruct D as [_ D2 _ _]. destruct D2 as [pre f X1 X2 X3 X4 X5 X6 X7|q1 q2 X1 X2 X3 X4 X5 X6 X7|X1 X2 X3 X4 X5]; try assumption.
    contradiction.
  - intros [F|U]; [discriminate|]. rewrite (UP U) in D. destruct D as [D1 _ _ _ _ _].
    destruct (in_dec Nat.eq_dec v (d_active (y_d s))) as [Hi0|Hni]; [exact Hi0|].
    destruct (nw_act _ _ _ _ _ _ D1 Hni) as (L0 & Hex).
    (* a node that has left the loop for good holds no steal request *)
    pose proof (nw_steal _ _ _ _ _ _ D1) as St. rewrite SO, cnt_some_eq in St.
    pose proof (nw_fx _ _ _ _ _ _ D1 (or_introl Hex)) as Mp.
    destruct (nw_flags _ _ _ _ _ _ D1) as (f & Ef & Mk).
    destruct (markpopped_empty _ _ _ Mp Mk) as (_ & _ & Erep & Ei & Ed & _).
    destruct (cmd_marks_nil _ Ei) as (_ & Ei2). destruct (cmd_marks_nil _ Ed) as (_ & Ed2).
    rewrite L0, Ei2, Ed2, Erep in St. cbn in St. discriminate.
Qed.

(* ---- every step ---- *)
(* the state in which the controller has raised RuntimeError("no active workers") *)
Definition ErrStW (s : sys) : Prop :=
  y_result s = Some (RError ERuntimeNoWorkers) /\ ~ SAMEX X0 /\ exists s0, XW s0 /\ VE s0 s.

Lemma up_not_end n e : up_of_wevent c n e <> UEnd.
Proof. apply up_of_wevent_not_end. Qed.

Lemma step_xw s l s' o w : XW s -> sys_step c s l = Some (s', o, w) -> XW s' \/ ErrStW s'.
Proof.
  intros X H. pose proof X as [Lo Hi (ws0 & P0 & DJd0 & NIs0 & Pout0) Eq Eu Ea Er Edead].
  unfold sys_step in H. destruct (y_result s) eqn:Eres; [discriminate|].
  destruct l as [n0|n0|n0|n0| |n0].
  - (* LDeliver *)
    destruct (mem_nat n0 (y_dead s)) eqn:Hd; [discriminate|].
    destruct (aget n0 (y_down s)) as [[|cmd rest]|] eqn:Ed; try discriminate.
    destruct (aget n0 (y_w s)) as [w0|] eqn:Ew; try discriminate.
    inv H. left. rewrite <- Eres. apply step_deliverx; assumption.
  - (* LRecvW *)
    destruct (mem_nat n0 (y_dead s)) eqn:Hd; [discriminate|].
    destruct (aget n0 (y_w s)) as [w0|] eqn:Ew; try discriminate.
    destruct (negb (wcb w0)); [discriminate|].
    destruct (recv_step (c_oracle c n0) w0) as [w' evs] eqn:Es. inv H. left.
    destruct (NIs0 n0 w0 Ew) as (Iw & Gw & NGw & _).
    destruct (recv_step_nogarb _ _ _ _ Es NGw) as (NG1 & NG2).
    pose proof (recv_step_inv (c_oracle c n0) w0 Iw) as I1. rewrite Es in I1. cbn [fst] in I1.
    pose proof (recv_step_tokens_ws (c_oracle c n0) w0 Gw) as (_ & G1). rewrite Es in G1. cbn [fst] in G1.
    pose proof (proj1 (recv_step_facts _ _ _ _ Es)) as Eph.
    apply (xw_push s n0 w0 w' evs X Hd Ew NG2). intros ws P DJd (_ & _ & _ & D). rewrite Hd in D.
    exists P. split; [reflexivity|].
    set (s1 := push_up (set_w s n0 w') n0 (map (up_of_wevent c n0) evs)).
    split; [exact I1|]. split; [exact G1|]. split; [exact NG1|]. cbn [s1 push_up set_w y_dead]. rewrite Hd.
    destruct (P n0) eqn:EP.
    + (* its own session has stopped *)
      destruct D as [D1 D2 D3 D4 D5 D6 D7].
      destruct (NIWS_recv (c_oracle c n0) _ _ _ _ _ _ Gw D1) as (Xa & Xb & Huns).
      rewrite Es in Xa, Xb, Huns. cbn [fst snd] in Xa, Xb, Huns.
      assert (NIX : NIWS (OR n0) ws (d_active (y_d s)) n0 (hsigs ws s1 n0) (alist_get [] n0 (y_down s)) w' /\
                    (wph w0 = PExited -> closed ws s n0)).
      { destruct (sw_ph _ _ _ _ _ _ _ D1) as [Hp|Hp].
        - assert (Hk : prank (wph w0) <= 3) by (rewrite Hp; cbn; lia).
          assert (Hne : wph w0 <> PExited) by (rewrite Hp; discriminate).
          destruct (open_hsigs ws s n0 _ w0 (sw_chan _ _ _ _ _ _ _ D1) eq_refl Hk D6 Hne) as (Hdn & Hf).
          split; [|intros F; congruence]. unfold s1.
          rewrite (hsigs_push_open c ws s n0 w' evs Hdn Hf (or_introl (uns_nofin evs Huns))).
          rewrite app_assoc. fold (xsigs s n0). rewrite <- (hsigs_open ws s n0 Hdn Hf). exact (Xb Hp).
        - split; [|intros _; exact (D7 Hp)]. unfold s1. rewrite (hsigs_push_closed c ws s n0 w' evs (D7 Hp)). exact Xa. }
      destruct NIX as (NI1 & CL1).
      constructor; cbn [s1 push_up set_w y_d y_evq y_down y_up]; rewrite ?FifoProofs.alist_get_aset_eq; auto.
      * intros Hin. apply in_app_or in Hin. destruct Hin as [Hin|Hin]; [exact (D3 Hin)|].
        apply in_map_iff in Hin. destruct Hin as (e & He & _). exact (up_not_end n0 e He).
      * intros f Ef Hdn. rewrite Eph. exact (D6 f Ef Hdn).
      * intros Hp. rewrite Eph in Hp. destruct (CL1 Hp) as [Y|Y]; [left; exact Y|right].
        unfold s1. cbn [push_up set_w y_up]. rewrite FifoProofs.alist_get_aset_eq, flat_map_app, hasfin_app, Y. reflexivity.
    + destruct D as [D1 D2 D3 D4 D5 D6].
      destruct (NIW_recv (c_oracle c n0) _ _ _ _ _ _ Gw D1) as (Z & _ & Zex). rewrite Es in Z, Zex. cbn [fst snd] in Z, Zex.
      assert (Sg : xsigs s1 n0 = xsigs s n0 ++ flat_map we_xsig evs).
      { unfold xsigs, s1. cbn [push_up set_w y_evq y_up]. rewrite FifoProofs.alist_get_aset_eq, flat_map_app, up_xsigs_of_wev, app_assoc. reflexivity. }
      constructor; rewrite ?Sg; cbn [s1 push_up set_w y_d y_evq y_down y_up]; rewrite ?FifoProofs.alist_get_aset_eq; auto.
      * intros Hin. apply in_app_or in Hin. destruct Hin as [Hin|Hin]; [exact (D3 Hin)|].
        apply in_map_iff in Hin. destruct Hin as (e & He & _). exact (up_not_end n0 e He).
      * intros f Ef Hdn. destruct (D6 f Ef Hdn) as (X1 & X2). rewrite Eph. split; [|exact X2].
        rewrite flat_map_app, up_xsigs_of_wev, X1, (Zex X2). reflexivity.
  - (* LMain *)
    destruct (mem_nat n0 (y_dead s)) eqn:Hd; [discriminate|].
    destruct (aget n0 (y_w s)) as [w0|] eqn:Ew; try discriminate.
    destruct (dies_now c n0 w0) eqn:Edie.
    + inv H. left. apply step_crashx with (w0 := w0); auto. unfold dies_now in Edie. destruct (wph w0); discriminate.
    + destruct (main_step (c_oracle c n0) w0) as [[w' evs]|] eqn:Es; [|discriminate]. inv H. left.
      destruct (NIs0 n0 w0 Ew) as (Iw & Gw & NGw & _).
      destruct (main_step_nogarb _ _ _ _ (Hng n0) Es NGw) as (NG1 & NG2).
      destruct (main_step_frame _ _ _ _ Es) as (_ & Einb & _).
      pose proof (main_step_inv _ _ _ _ Iw Es) as I1.
      pose proof (main_step_not_exited _ _ _ _ Es) as Hnex.
      apply (xw_push s n0 w0 w' evs X Hd Ew NG2). intros ws P DJd (_ & _ & _ & D). rewrite Hd in D.
      set (s1 := push_up (set_w s n0 w') n0 (map (up_of_wevent c n0) evs)).
      assert (Sg : xsigs s1 n0 = xsigs s n0 ++ flat_map we_xsig evs).
      { unfold xsigs, s1. cbn [push_up set_w y_evq y_up]. rewrite FifoProofs.alist_get_aset_eq, flat_map_app, up_xsigs_of_wev, app_assoc. reflexivity. }
      destruct (P n0) eqn:EP.
      * (* a stopped worker says "finished" *)
        exists P. split; [reflexivity|].
        destruct D as [D1 D2 D3 D4 D5 D6 D7].
        destruct (NIWS_main _ _ _ _ _ _ _ _ _ D1 Es) as (Xn & -> & Hp' & _).
        assert (Hp0 : wph w0 = PFinishing true) by (destruct (sw_ph _ _ _ _ _ _ _ D1) as [Y|Y]; [exact Y|contradiction]).
        assert (Hk : prank (wph w0) <= 3) by (rewrite Hp0; cbn; lia).
        destruct (open_hsigs ws s n0 _ w0 (sw_chan _ _ _ _ _ _ _ D1) eq_refl Hk D6 Hnex) as (Hdn & Hf).
        split; [exact I1|]. split; [rewrite Einb; exact Gw|]. split; [exact NG1|]. cbn [s1 push_up set_w y_dead]. rewrite Hd, EP.
        constructor; cbn [s1 push_up set_w y_d y_evq y_down y_up]; rewrite ?FifoProofs.alist_get_aset_eq; auto.
        -- fold s1. unfold s1. rewrite (hsigs_push_open c ws s n0 w' [EFinished true] Hdn Hf (or_intror (le_n 1))).
           rewrite app_assoc. fold (xsigs s n0). rewrite <- (hsigs_open ws s n0 Hdn Hf). exact Xn.
        -- intros Hin. apply in_app_or in Hin. destruct Hin as [Hin|Hin]; [exact (D3 Hin)|].
           apply in_map_iff in Hin. destruct Hin as (e & He & _). exact (up_not_end n0 e He).
        -- intros _. right. unfold s1. cbn [push_up set_w y_up]. rewrite FifoProofs.alist_get_aset_eq, flat_map_app, hasfin_app. cbn. apply orb_true_r.
      * destruct D as [D1 D2 D3 D4 D5 D6].
        assert (Hdn0 : forall f, aget n0 (ws_nt ws) = Some f -> n_down f = false).
        { intros f Ef. apply not_true_false. intros F. destruct (D6 f Ef F) as (_ & Pe). contradiction. }
        destruct (phase_eq_dec_stop (wph w')) as [Hstop|Hnstop].
        -- (* the worker's own session stops *)
           exists (fun n => if Nat.eqb n n0 then true else P n).
           split. { intros n Hn. apply Nat.eqb_neq in Hn. rewrite Hn. reflexivity. }
           destruct (NIW_main_stop _ _ _ _ _ _ _ _ _ Iw D1 Es Hstop) as (Xn & Hok & Hnf).
           assert (Hk2 : prank (wph w0) <= 3).
           { destruct (main_step_enter_stop _ _ _ _ Es Hstop) as (cur & nxt & Ep & _). rewrite Ep. cbn. lia. }
           assert (Hdn : ndown ws n0 = false).
           { unfold ndown. destruct (aget n0 (ws_nt ws)) as [f|] eqn:Ef; [exact (Hdn0 f eq_refl)|reflexivity]. }
           assert (Hf : hasfin (flat_map up_xsig (alist_get [] n0 (y_up s))) = false).
           { apply nofin_hasfin. intros b Hb. refine (xchan_nofin _ _ (nw_chan _ _ _ _ _ _ D1) Hk2 b _).
             unfold xsigs. apply in_or_app. right. exact Hb. }
           split; [exact I1|]. split; [rewrite Einb; exact Gw|]. split; [exact NG1|]. cbn [s1 push_up set_w y_dead].
           rewrite Hd, Nat.eqb_refl.
           constructor; cbn [s1 push_up set_w y_d y_evq y_down y_up]; rewrite ?FifoProofs.alist_get_aset_eq; auto.
           ++ fold s1. unfold s1. rewrite (hsigs_push_open c ws s n0 w' evs Hdn Hf (or_introl (nofin_hasfin _ Hnf))).
              rewrite app_assoc. fold (xsigs s n0). exact Xn.
           ++ intros Hin. apply in_app_or in Hin. destruct Hin as [Hin|Hin]; [exact (D3 Hin)|].
              apply in_map_iff in Hin. destruct Hin as (e & He & _). exact (up_not_end n0 e He).
           ++ intros f Ef F. rewrite (Hdn0 f Ef) in F. discriminate.
           ++ intros Hp. rewrite Hstop in Hp. discriminate.
        -- exists P. split; [reflexivity|].
           destruct (NIW_main _ _ _ _ _ _ _ _ _ Hnstop Iw D1 Es) as (Xn & Hok & Hnf).
           split; [exact I1|]. split; [rewrite Einb; exact Gw|]. split; [exact NG1|]. cbn [s1 push_up set_w y_dead]. rewrite Hd, EP.
           constructor; rewrite ?Sg; cbn [s1 push_up set_w y_d y_evq y_down y_up]; rewrite ?FifoProofs.alist_get_aset_eq; auto.
           ++ intros Hin. apply in_app_or in Hin. destruct Hin as [Hin|Hin]; [exact (D3 Hin)|].
              apply in_map_iff in Hin. destruct Hin as (e & He & _). exact (up_not_end n0 e He).
           ++ intros f Ef F. rewrite (Hdn0 f Ef) in F. discriminate.
  - (* LRecv *)
    destruct (aget n0 (y_up s)) as [[|m rest]|] eqn:Eup; try discriminate.
    cbn [y_d] in H.
    destruct (process_from_remote n0 m (y_d s)) as [[d' outs] r] eqn:Ep.
    destruct (step_recvx s n0 m rest d' outs r X Eup Ep) as (-> & evs & -> & X').
    cbn [apply_outs] in H. inv H. left. rewrite <- Eres. apply close_if_dead_XW. exact X'.
  - (* LCtl *)
    specialize (Ea eq_refl).
    destruct (d_active (y_d s)) as [|a0 ar] eqn:Eact; [contradiction|].
    destruct (y_evq s) as [|ev q] eqn:Eevq; [discriminate|].
    destruct (d_loop_once ev (y_d s)) as [[d' outs] r] eqn:El.
    destruct (step_ctl_corex s ev q d' outs r X Eres Eevq El) as (-> & Hfin & CORE).
    set (s1 := apply_outs (set_d (set_evq s q) d') outs) in *.
    destruct (d_session_finished d') eqn:Efin.
    + inv H. left. apply CORE.
      * intros e. destruct (d_shouldstop d'); discriminate.
      * destruct (d_shouldstop d'); discriminate.
    + destruct (d_active d') as [|b0 br] eqn:Eact'.
      * (* nobody is left and the session is not shutting down: RuntimeError("no active workers") *)
        right.
        assert (Hsd : d_shuttingdown d' = false).
        { unfold d_session_finished in Efin. rewrite Eact', andb_true_r in Efin. exact Efin. }
        assert (XR : XW (set_result s1 (Some RFinished))) by (apply CORE; [intros e; discriminate|discriminate]).
        pose proof XR as [_ _ (ws' & P' & DJ2 & _) _ _ _ _ _].
        destruct (apply_outs_frame outs (set_d (set_evq s q) d')) as (F1 & F2 & F3). cbn [set_d set_evq y_evq y_d y_dead] in F1, F2, F3.
        cbn [set_result y_d] in DJ2. fold s1 in F2. rewrite F2 in DJ2.
        destruct DJ2 as ([Els2 J2 _ _ JB2 _] & _ & Jss2).
        assert (Hss : d_shouldstop d' = false).
        { apply not_true_false. intros F. rewrite (Jss2 F) in Hsd. discriminate. }
        assert (Hnn : s_nodes (d_sched d') = []).
        { rewrite Els2. cbn [s_nodes]. specialize (JB2 Hss). rewrite Eact' in JB2.
          destruct (ws_nodes ws') as [|k rr]; [reflexivity|]. exfalso. apply (JB2 k). left. reflexivity. }
        rewrite (trigger_no_nodes d' Hsd Hnn) in H. cbn [apply_outs] in H. injection H as <- <- <-.
        split; [reflexivity|]. split.
        { intros HS. rewrite (Hfin HS eq_refl) in Hsd. discriminate. }
        exists (set_result s1 (Some RFinished)). split; [exact XR|].
        unfold VE. cbn [set_result set_d y_d y_w y_dead y_evq y_up y_down]. rewrite F2. auto 10.
      * inv H. left.
        assert (Er1 : y_result s1 = None).
        { unfold s1. rewrite apply_outs_result. cbn. exact Eres. }
        rewrite <- (set_result_same' s1 None Er1). apply CORE.
        -- intros e. discriminate.
        -- intros _. discriminate.
  - (* LCrash *)
    destruct (mem_nat n0 (y_dead s)) eqn:Hd; [discriminate|].
    destruct (aget n0 (y_w s)) as [w0|] eqn:Ew; try discriminate.
    destruct (wph w0) eqn:Eph; try discriminate; inv H; left; apply step_crashx with (w0 := w0); auto; rewrite Eph; discriminate.
Qed.

(* every reachable state satisfies the invariant, or is the state in which the controller has just raised
   "no active workers" *)
Theorem xw_run ls : XW (sys_run c ls) \/ ErrStW (sys_run c ls).
Proof.
  unfold sys_run.
  assert (G : forall s, XW s \/ ErrStW s ->
     let s' := fold_left (fun s l => match sys_step c s l with Some (s', _, _) => s' | None => s end) ls s in
     XW s' \/ ErrStW s').
  { induction ls as [|l ls0 IH]; intros s Hs; cbn [fold_left]; [exact Hs|].
    apply IH. destruct (sys_step c s l) as [[[s' o] w]|] eqn:E; [|exact Hs].
    destruct Hs as [Hs|(Hr & _)].
    - eapply step_xw; eauto.
    - unfold sys_step in E. rewrite Hr in E. discriminate. }
  apply G. left. apply XW_init.
Qed.

(* ---- a 'crashed while running' report names the head of the dead node's book ---- *)
Lemma ctl_crash_reportx s ev q d' outs r t k :
  XW s -> y_result s = None -> y_evq s = ev :: q ->
  d_loop_once ev (y_d s) = (d', outs, r) ->
  In (OHook (HCrashReport t k)) outs ->
  ev = QErrorDown k /\ In k (y_dead s) /\
  exists wk i rest coll, aget k (y_w s) = Some wk /\ bookw s k = i :: rest /\
    the_collw s = Some coll /\ nth_error coll i = Some t /\
    (unstopped c s k -> exists lost, filter (notin (reply_inds (wreply wk))) (bookw s k) = owed_w wk ++ lost).
Proof.
  intros X Eres Eevq El Hin. pose proof X as [Lo Hi (ws & P & DJd & NIs & Pout) Eq Eu Ea Er Edead].
  pose proof (pre_from_invx P s ws ev q X DJd NIs Eevq) as Hpre.
  destruct (loop_once_okx N X0 Hpos ev _ ws d' outs r DJd Hpre El) as (_ & ws' & vo & Eo & E & DJ2 & CR & _).
  destruct (CR t k Hin) as (-> & coll & i & rest & Ecl & Ebk & Enth). split; [reflexivity|].
  pose proof DJd as ([Els _ _ _ _ _] & _).
  assert (HkG : k < d_next_gw (y_d s)).
  { rewrite Eevq in Eq. inversion Eq as [|e1 q1 (_ & Hn) _]; subst. exact Hn. }
  destruct (aget k (y_w s)) as [wk|] eqn:Ew; [|exfalso; exact (Lo k HkG Ew)].
  pose proof (unstopped_P P s ws k wk (NIs k wk Ew) Ew) as UP.
  destruct (NIs k wk Ew) as (_ & _ & _ & D).
  assert (HIN : In (QErrorDown k) (y_evq s)) by (rewrite Eevq; left; reflexivity).
  assert (ERR : is_errd k (QErrorDown k) = true) by (cbn; apply Nat.eqb_refl).
  destruct (mem_nat k (y_dead s)) eqn:Hd.
  2:{ destruct (P k); [destruct D as [_ _ _ D4 _ _ _]|destruct D as [_ _ _ D4 _ _]]; rewrite (D4 _ HIN) in ERR; discriminate. }
  split; [apply StealProofs.mem_nat_In; exact Hd|].
  destruct D as [_ D2 _ _]. destruct D2 as [pre f X1 X2 X3 X4 X5 X6 X7|q1 q2 X1 X2 X3 X4 X5 X6 X7|X1 X2 X3 X4 X5].
  - rewrite (X5 _ HIN) in ERR. discriminate.
  - rewrite Eevq in X2. destruct q1 as [|e1 q1'].
    + cbn [app] in X2. injection X2 as E2.
      assert (Es : xsigs s k = []).
      { unfold xsigs. rewrite X1, Eevq, evq_xsigs_cons, E2, X3. reflexivity. }
      destruct X7 as (_ & _ & Ord). rewrite Es in Ord. cbn [xcompletes xbacks flat_map app] in Ord.
      exists wk, i, rest, coll. split; [reflexivity|]. unfold bookw, the_collw. rewrite Els. fold (bkw ws k).
      split; [exact Ebk|]. split; [exact Ecl|]. split; [exact Enth|]. intros U. exact (Ord (UP U)).
    + cbn [app] in X2. injection X2 as E1 E2. subst e1. rewrite (X4 _ (or_introl eq_refl)) in ERR. discriminate.
  - rewrite (X2 _ HIN) in ERR. discriminate.
Qed.

End SysX.

(* ====================================================================================== *)
(* D.4 the theorems                                                                        *)
(* ====================================================================================== *)
Section MainX.
  Variable c : config.
  Variable ls : list label.
  Hypothesis Hmode : c_mode c = MSteal.
  Hypothesis Hnogarbled : no_garbled c.
  Hypothesis Hnodes : 0 < c_numnodes c.
  Hypothesis Hrq : rq_ok c.

  Lemma run_goodx : XW c (sys_run c ls) \/ ErrStW c (sys_run c ls).
  Proof. apply xw_run; assumption. Qed.

  (* Goal 1: the crash coupling invariant, in every reachable state, for EVERY schedule.
     - a worker that is alive: what it holds (in terms of what the controller still hears of it) is a
       sub-multiset of its book; if its own session has not stopped (unstopped c s n: it has started no
       test after which its session stops), its book is, as a multiset AND in order, exactly what it still
       owes plus what is on its way back (the statement of CouplingSteal.v, now with crashes around it);
     - a dead worker whose errordown has not been handled: everything still in flight from it (completions,
       withdrawn indices on their way back) is in its book, and (unstopped) in order the book with the
       indices on their way back / withdrawn-but-never-sent struck out is
         completions in flight ++ what the dead worker held (frozen) ++ lost;
     - a dead worker whose errordown has been handled: no book. *)
  Theorem steal_crash_coupling_invariant : CrashCoupledW c (sys_run c ls).
  Proof.
    destruct run_goodx as [X|(_ & _ & s0 & X0 & V)]; [apply (xw_coupled c Hnodes); exact X|].
    apply (CrashCoupledW_VE c s0); [exact V|apply (xw_coupled c Hnodes); exact X0].
  Qed.

  (* Goal 2 (C17): the only exception that can escape the controller's loop is the documented
     RuntimeError("no active workers") *)
  Theorem steal_crash_c17 : forall e, y_result (sys_run c ls) = Some (RError e) -> e = ERuntimeNoWorkers.
  Proof.
    intros e H. destruct run_goodx as [X|(R & _)].
    - exfalso. exact (w_res _ _ X e H).
    - congruence.
  Qed.

  (* ... and it only occurs when some worker collected a different list of tests: *)
  Theorem steal_crash_no_active_workers_needs_different_collection :
    y_result (sys_run c ls) = Some (RError ERuntimeNoWorkers) -> ~ (forall n, c_coll c n = c_coll c 0).
  Proof.
    intros H. destruct run_goodx as [X|(_ & NS & _)]; [exfalso; exact (w_res _ _ X _ H)|exact NS].
  Qed.

  (* when every worker (replacements included) collects the same list, NO exception escapes *)
  Theorem steal_crash_controller_never_raises :
    (forall n, c_coll c n = c_coll c 0) -> forall e, y_result (sys_run c ls) <> Some (RError e).
  Proof.
    intros HS e H. pose proof (steal_crash_c17 e H) as ->.
    exact (steal_crash_no_active_workers_needs_different_collection H HS).
  Qed.

  Lemma nohook_no_activex : nohook d_no_active.
  Proof. unfold d_no_active, d_triggershutdown. nh; try (unfold d_node_shutdown; apply nohook_node_shutdown). Qed.

  (* Goal 3a (C03): whatever step is taken next, a 'crashed while running' report for worker k names the
     test at the head of the controller's book of the dead worker k; that book, with the indices the
     worker had withdrawn for a reply it never sent struck out, is what the dead worker held (in order:
     the test it was executing / about to start first) followed by what was lost on its wire.  When no
     reply was pending at its death (wreply wk = None) this is: the head of (owed_w wk ++ lost). *)
  Theorem steal_crash_report_names_running_test : forall l s' outs w t k,
    sys_step c (sys_run c ls) l = Some (s', outs, w) ->
    In (OHook (HCrashReport t k)) outs ->
    In k (y_dead (sys_run c ls)) /\
    exists wk i rest coll, aget k (y_w (sys_run c ls)) = Some wk /\
      bookw (sys_run c ls) k = i :: rest /\
      the_collw (sys_run c ls) = Some coll /\ nth_error coll i = Some t /\
      (unstopped c (sys_run c ls) k ->
       exists lost, filter (notin (reply_inds (wreply wk))) (bookw (sys_run c ls) k) = owed_w wk ++ lost).
  Proof.
    intros l s' outs w t k H Hin. set (s := sys_run c ls) in *.
    assert (X : XW c s).
    { destruct run_goodx as [X|(R & _)]; [exact X|]. fold s in R. unfold sys_step in H. rewrite R in H. discriminate. }
    unfold sys_step in H. destruct (y_result s) eqn:Eres; [discriminate|].
    destruct l as [n0|n0|n0|n0| |n0].
    - destruct (mem_nat n0 (y_dead s)); [discriminate|].
      destruct (aget n0 (y_down s)) as [[|cmd rest]|]; try discriminate.
      destruct (aget n0 (y_w s)); try discriminate. inv H. destruct Hin.
    - destruct (mem_nat n0 (y_dead s)); [discriminate|].
      destruct (aget n0 (y_w s)) as [w0|]; try discriminate.
      destruct (negb (wcb w0)); [discriminate|].
      destruct (recv_step (c_oracle c n0) w0) as [w' evs]. inv H. destruct Hin.
    - destruct (mem_nat n0 (y_dead s)); [discriminate|].
      destruct (aget n0 (y_w s)) as [w0|]; try discriminate.
      destruct (dies_now c n0 w0); [inv H; destruct Hin|].
      destruct (main_step (c_oracle c n0) w0) as [[w' evs]|]; [|discriminate]. inv H. destruct Hin.
    - destruct (aget n0 (y_up s)) as [[|m rest]|] eqn:Eup; try discriminate.
      cbn [y_d] in H.
      destruct (process_from_remote n0 m (y_d s)) as [[d' o1] r] eqn:Ep.
      destruct (step_recvx c Hnodes s n0 m rest d' o1 r X Eup Ep) as (-> & evs & -> & _).
      inv H. destruct Hin.
    - pose proof (w_act _ _ X Eres) as Ea.
      destruct (d_active (y_d s)) as [|a0 ar] eqn:Eact; [contradiction|].
      destruct (y_evq s) as [|ev q] eqn:Eevq; [discriminate|].
      destruct (d_loop_once ev (y_d s)) as [[d' o1] r] eqn:El.
      destruct (step_ctl_corex c Hnodes s ev q d' o1 r X Eres Eevq El) as (-> & _ & _).
      assert (EO : In (OHook (HCrashReport t k)) o1).
      { destruct (d_session_finished d') eqn:Efin; [inv H; exact Hin|].
        destruct (d_active d') eqn:Eact'; [|inv H; exact Hin].
        destruct (d_no_active d') as [[d2 o2] r2] eqn:Ena. inv H.
        apply in_app_or in Hin. destruct Hin as [Hin|Hin]; [exact Hin|]. exfalso.
        pose proof (nohook_no_activex _ _ _ _ Ena) as NH. rewrite Forall_forall in NH. exact (NH _ Hin). }
      destruct (ctl_crash_reportx c Hnodes s ev q d' o1 (Ok tt) t k X Eres Eevq El EO) as (_ & A & B).
      split; [exact A|exact B].
    - destruct (mem_nat n0 (y_dead s)); [discriminate|].
      destruct (aget n0 (y_w s)) as [w0|]; try discriminate.
      destruct (wph w0); try discriminate; inv H; destruct Hin.
  Qed.

  (* Goal 4 (C07): withdrawal requests with crashes.  For every worker process: a request that can still
     reach the controller (travelling to it / computed / on its way back; for a dead worker: its reply on
     the wire up or in the controller's queue) exists only if the marker steal_requested_from_node is on
     it; if it is alive and its own session has not stopped, a request is in flight EXACTLY once if the
     marker is on it and not at all otherwise. *)
  Theorem steal_crash_one_request : StealOneX c (sys_run c ls).
  Proof.
    destruct run_goodx as [X|(_ & _ & s0 & X0 & V)]; [apply (xw_stealone c Hnodes); exact X|].
    apply (StealOneX_VE c s0); [exact V|apply (xw_stealone c Hnodes); exact X0].
  Qed.

  (* ... hence at most one withdrawal request is outstanding in the whole system *)
  Corollary steal_crash_at_most_one_request : forall n m,
    aget n (y_w (sys_run c ls)) <> None -> aget m (y_w (sys_run c ls)) <> None ->
    0 < stealreqx (sys_run c ls) n -> 0 < stealreqx (sys_run c ls) m -> n = m.
  Proof.
    intros n m Hn Hm H1 H2. pose proof steal_crash_one_request as S.
    pose proof (S n) as Sn. pose proof (S m) as Sm.
    destruct (aget n (y_w (sys_run c ls))); [|contradiction]. destruct (aget m (y_w (sys_run c ls))); [|contradiction].
    assert (Cn : cnt (steal_of (sys_run c ls)) n = 1).
    { pose proof (cnt_le1 (steal_of (sys_run c ls)) n). destruct Sn as (Sn & _). lia. }
    assert (Cm : cnt (steal_of (sys_run c ls)) m = 1).
    { pose proof (cnt_le1 (steal_of (sys_run c ls)) m). destruct Sm as (Sm & _). lia. }
    apply cnt_pos in Cn. apply cnt_pos in Cm. congruence.
  Qed.

  (* the marker names nothing, or a node that is registered with the scheduler (a key of node2pending) and
     that has a worker process; the node is still active for the controller (its finished / errordown has
     not been handled) if it is dead or its own session has not stopped *)
  Theorem steal_crash_marker_registered : forall v,
    steal_of (sys_run c ls) = Some v ->
    (exists ws, d_sched (y_d (sys_run c ls)) = StW ws /\ In v (ws_nodes ws)) /\
    aget v (y_w (sys_run c ls)) <> None /\
    (mem_nat v (y_dead (sys_run c ls)) = true \/ unstopped c (sys_run c ls) v ->
     In v (d_active (y_d (sys_run c ls)))).
  Proof.
    intros v Hv. destruct run_goodx as [X|(_ & _ & s0 & X0 & V)]; [exact (xw_marker c _ v X Hv)|].
    pose proof (unstopped_VE c s0 (sys_run c ls) v V) as US.
    destruct V as (E1 & E2 & E3 & E4 & E5 & E6 & E7 & _).
    assert (Hv0 : steal_of s0 = Some v) by (unfold steal_of in *; rewrite <- E6; exact Hv).
    destruct (xw_marker c s0 v X0 Hv0) as ((ws & A1 & A2) & B & C0).
    split; [exists ws; rewrite E6; auto|]. split; [rewrite E1; exact B|].
    rewrite E2, E7. intros [F|U]; apply C0; [left; exact F|right; apply US; exact U].
  Qed.
End MainX.

Check steal_crash_coupling_invariant.
Print Assumptions steal_crash_coupling_invariant.
Check steal_crash_c17.
Print Assumptions steal_crash_c17.
Check steal_crash_no_active_workers_needs_different_collection.
Print Assumptions steal_crash_no_active_workers_needs_different_collection.
Check steal_crash_controller_never_raises.
Print Assumptions steal_crash_controller_never_raises.
Check steal_crash_report_names_running_test.
Print Assumptions steal_crash_report_names_running_test.
Check steal_crash_one_request.
Print Assumptions steal_crash_one_request.
Check steal_crash_at_most_one_request.
Print Assumptions steal_crash_at_most_one_request.
Check steal_crash_marker_registered.
Print Assumptions steal_crash_marker_registered.

(* ====================================================================================== *)
(* D.5 non-vacuity: concrete worksteal sessions with crashes, evaluated                     *)
(* ====================================================================================== *)
(* book; completions in flight; withdrawn indices on their way back; (what the worker holds, its
   computed but unsent reply) -- frozen if dead; indices on its wire down; dead?; still active for the
   controller?; withdrawal requests that can still reach the controller *)
Definition xs_parts (s : sys) (n : nat) :=
  (bookw s n, xcompletes (xsigs s n), xbacks (xsigs s n),
   match aget n (y_w s) with Some w => (owed_w w, wreply w) | None => ([], None) end,
   flat_map cmd_inds (alist_get [] n (y_down s)), mem_nat n (y_dead s), mem_nat n (d_active (y_d s)), stealreqx s n).
(* result, dead workers, tests started (all workers), ids of the replacement workers, crash reports,
   group counter, the marker steal_requested_from_node, the pool *)
Definition xs_summary (c : config) (ls : list label) :=
  let '(s, o, _) := sys_exec c (sys_init c) ls in
  (y_result s, y_dead s, started s, spawn_ids o, crx_crashes o, d_next_gw (y_d s), steal_of s, pool_ws s).

Lemma c01w_hyps :
  c_mode c01w_cfg = MSteal /\ no_garbled c01w_cfg /\ 0 < c_numnodes c01w_cfg /\ no_stop c01w_cfg /\ rq_ok c01w_cfg /\
  (forall n, c_coll c01w_cfg n = c_coll c01w_cfg 0).
Proof.
  split; [reflexivity|]. split; [|split; [cbn; lia|split; [intros n i; reflexivity|split; [left; reflexivity|reflexivity]]]].
  intros n i H. cbn in H. destruct H as [H|[]]. discriminate.
Qed.

(* (a) THE VICTIM OF A WITHDRAWAL REQUEST DIES.  The session of ExactlyOnceSteal.v (3 workers, 12 tests):
   worker 0 has run 0 1 2, the controller has asked worker 1 -- whose main thread has not moved -- for its
   last two tests 6 7 (marker on 1, CSteal [6;7] on its wire).  Now worker 1 is killed.  Its wire down is
   lost; its book [4;5;6;7] is exactly what it held; the marker is still on it, but no request can reach
   the controller any more (stealreqx = 0 <= 1). *)
Definition xs_kill_victim : list label := c01w_sched_request ++ [LCrash 1].
Example xs_ex_victim_dead :
  xs_summary c01w_cfg xs_kill_victim = (None, [1], [0; 1; 2], [], [], 3, Some 1, []) /\
  xs_parts (sys_run c01w_cfg xs_kill_victim) 1 = ([4; 5; 6; 7], [], [], ([4; 5; 6; 7], None), [], true, true, 0).
Proof. vm_compute. split; reflexivity. Qed.

(* the controller reads the end marker and handles the errordown: the request is CANCELLED (marker None),
   "t4" -- the head of the dead worker's book; it had started nothing -- is reported as crashed, the rest
   5 6 7 goes back to the pool and at once to worker 0, which was short of work; replacement worker 3 *)
Definition xs_victim_handled : list label := xs_kill_victim ++ [LRecv 1; LCtl].
Example xs_ex_victim_handled :
  xs_summary c01w_cfg xs_victim_handled = (None, [1], [0; 1; 2], [3], [("t4"%string, 1)], 4, None, []) /\
  xs_parts (sys_run c01w_cfg xs_victim_handled) 1 = ([], [], [], ([4; 5; 6; 7], None), [], true, false, 0) /\
  xs_parts (sys_run c01w_cfg xs_victim_handled) 0 = ([3; 5; 6; 7], [], [], ([3], None), [5; 6; 7], false, true, 0).
Proof. vm_compute. repeat split; reflexivity. Qed.

(* (b) the victim dies with its reply COMPUTED BUT NOT SENT: 6 7 have left its queue, but the controller
   never hears of it: book [4;5;6;7], held [4;5], unsent reply [6;7]:
   filter (not in [6;7]) [4;5;6;7] = [4;5] ++ [] -- the ordered dead-node coupling *)
Definition xs_kill_replying : list label := c01w_sched_stolen ++ [LCrash 1].
Example xs_ex_reply_lost :
  xs_parts (sys_run c01w_cfg xs_kill_replying) 1 = ([4; 5; 6; 7], [], [], ([4; 5], Some [6; 7]), [], true, true, 0).
Proof. vm_compute. reflexivity. Qed.

(* (c) the victim dies with its reply ON THE WIRE: the controller still hears it (stealreqx = 1, marker
   on 1), withdraws 6 7 from the dead worker's book and clears the marker; then the errordown: "t4"
   crashed, 5 back to the pool *)
Definition xs_kill_replied : list label := c01w_sched_inflight ++ [LCrash 1].
Example xs_ex_reply_heard :
  xs_parts (sys_run c01w_cfg xs_kill_replied) 1 = ([4; 5; 6; 7], [], [6; 7], ([4; 5], None), [], true, true, 1) /\
  xs_summary c01w_cfg (xs_kill_replied ++ [LRecv 1; LCtl]) = (None, [1], [0; 1; 2], [], [], 3, None, []) /\
  xs_parts (sys_run c01w_cfg (xs_kill_replied ++ [LRecv 1; LCtl])) 1 = ([4; 5], [], [], ([4; 5], None), [], true, true, 0) /\
  xs_summary c01w_cfg (xs_kill_replied ++ [LRecv 1; LCtl; LRecv 1; LCtl]) =
    (None, [1], [0; 1; 2], [3], [("t4"%string, 1)], 4, None, [5]).
Proof. vm_compute. repeat split; reflexivity. Qed.

(* (d) the sessions of (a) run to the end: finished, every test except the crash item started once *)
Definition xs_rr4 : list label :=
  [LMain 0; LMain 1; LMain 2; LMain 3; LRecvW 0; LRecvW 1; LRecvW 2; LRecvW 3;
   LDeliver 0; LDeliver 1; LDeliver 2; LDeliver 3; LRecv 0; LRecv 1; LRecv 2; LRecv 3; LCtl].
Example xs_ex_finished :
  xs_summary c01w_cfg (xs_victim_handled ++ rounds 60 xs_rr4) =
    (Some RFinished, [1], [0; 1; 2; 3; 5; 8; 9; 10; 11; 6; 7], [3], [("t4"%string, 1)], 4, None, []).
Proof. vm_compute. reflexivity. Qed.

(* (e) the theorems, instantiated; no worker's own session stops in this configuration, so every node
   is unstopped *)
Example xs_ex_theorems_apply :
  CrashCoupledW c01w_cfg (sys_run c01w_cfg xs_kill_replying) /\
  StealOneX c01w_cfg (sys_run c01w_cfg xs_kill_replied) /\
  (forall e, y_result (sys_run c01w_cfg (xs_victim_handled ++ rounds 60 xs_rr4)) <> Some (RError e)) /\
  (* the controller turn that handles worker 1's errordown *)
  (let s := sys_run c01w_cfg (xs_kill_replying ++ [LRecv 1]) in
   In 1 (y_dead s) /\
   exists wk i rest coll, aget 1 (y_w s) = Some wk /\ bookw s 1 = i :: rest /\
     the_collw s = Some coll /\ nth_error coll i = Some "t4"%string /\
     exists lost, filter (notin (reply_inds (wreply wk))) (bookw s 1) = owed_w wk ++ lost).
Proof.
  cbv zeta. destruct c01w_hyps as (H1 & H2 & H3 & H4 & H5 & H6).
  split; [apply steal_crash_coupling_invariant; assumption|].
  split; [apply steal_crash_one_request; assumption|].
  split; [apply steal_crash_controller_never_raises; assumption|].
  set (s := sys_run c01w_cfg (xs_kill_replying ++ [LRecv 1])).
  assert (Hin : In (OHook (HCrashReport "t4"%string 1))
                  (match sys_step c01w_cfg s LCtl with Some (_, o, _) => o | None => [] end)).
  { vm_compute. repeat (first [left; reflexivity | right]). }
  destruct (sys_step c01w_cfg s LCtl) as [[[s' outs] w]|] eqn:E; [|destruct Hin].
  destruct (steal_crash_report_names_running_test _ (xs_kill_replying ++ [LRecv 1]) H1 H2 H3 H5 LCtl s' outs w "t4"%string 1 E Hin)
    as (A & wk & i & rest & coll & B1 & B2 & B3 & B4 & B5).
  split; [exact A|]. exists wk, i, rest, coll. repeat (split; [assumption|]).
  apply B5. apply no_stop_unstopped. exact H4.
Qed.
Print Assumptions xs_ex_theorems_apply.

(* (f) RuntimeError("no active workers") IS reachable -- exactly as steal_crash_c17 and
   steal_crash_no_active_workers_needs_different_collection allow: ONE worker; it dies entering test 0;
   its replacement (worker 1) collects a different list (3 tests instead of 4), so it is shut down instead
   of being given work; nobody is left while 1 2 3 are still in the pool *)
Definition xs_cfg_diff : config :=
  {| c_mode := MSteal; c_numnodes := 1; c_chunk := None; c_maxfail := 0%Z; c_max_restart := Some 4%Z;
     c_requeue := 0; c_coll := fun n => if Nat.eqb n 1 then crx_names 3 else crx_names 4;
     c_oracle := fun _ => crx_oracle 4;
     c_dur := fun _ => 0%Z; c_crash_in := fun n i => Nat.eqb n 0 && Nat.eqb i 0; c_strict := false; c_spec := fun _ => 0 |}.
Example xs_ex_no_active_workers :
  xs_summary xs_cfg_diff (rounds 80 xs_rr4) =
    (Some (RError ERuntimeNoWorkers), [0], [], [1], [("0"%string, 0)], 2, None, [1; 2; 3]).
Proof. vm_compute. reflexivity. Qed.

(* (g) WHY rq_ok IS NEEDED -- a defect of the code being modelled.  Duplicate test ids AND a plugin that
   re-queues crash items (pytest_handlecrashitem -> mark_test_pending, c_requeue = 2).  mark_test_pending
   inserts collection.index(item): the FIRST index carrying the id, here index 1 for the crashed index 3.
   Three workers, six tests ["t0";"x";"t2";"x";"t4";"t5"], two each.  Worker 1 runs 2 and is killed while it
   waits on 3 ("x"): index 1 is re-queued although worker 0 still holds it.  Worker 2 runs 4 and is killed
   while it waits on 5: 5 is re-queued IN FRONT.  Worker 0 completes 0 and is topped up: its book is
   [1; 5; 1].  A replacement worker becomes ready: the controller asks worker 0 for the tail [1] of its
   book; worker 0 (running the first 1) gives the second one back; remove_pending_tests_from_node strikes
   BOTH out of the book ([5] is left); when worker 0 then reports test 1 complete,
   node2pending[node].remove(1) raises ValueError: the controller's loop dies with an exception that is
   not "no active workers". *)
Definition xs_dupcfg : config :=
  {| c_mode := MSteal; c_numnodes := 3; c_chunk := None; c_maxfail := 0%Z; c_max_restart := Some 8%Z;
     c_requeue := 2; c_coll := fun _ => ["t0"; "x"; "t2"; "x"; "t4"; "t5"]%string;
     c_oracle := fun _ => crx_oracle 6;
     c_dur := fun _ => 0%Z; c_crash_in := fun _ _ => false; c_strict := false; c_spec := fun _ => 0 |}.
Definition xs_dup_sched : list label :=
  (* boot and collect, initial distribution: [0;1] [2;3] [4;5] *)
  c01_rep 4 [LMain 0] ++ c01_rep 4 [LMain 1] ++ c01_rep 4 [LMain 2] ++
  c01_rep 3 [LRecv 0] ++ c01_rep 3 [LRecv 1] ++ c01_rep 3 [LRecv 2] ++ c01_rep 6 [LCtl] ++
  (* worker 1 runs 2, waits on 3, is killed; errordown: index 1 re-queued *)
  [LDeliver 1] ++ c01_rep 3 [LRecvW 1] ++ c01_rep 8 [LMain 1] ++ [LCrash 1] ++ c01_rep 8 [LRecv 1] ++ c01_rep 8 [LCtl] ++
  (* worker 2 runs 4, waits on 5, is killed; errordown: 5 re-queued in front: pool [5; 1] *)
  [LDeliver 2] ++ c01_rep 3 [LRecvW 2] ++ c01_rep 8 [LMain 2] ++ [LCrash 2] ++ c01_rep 8 [LRecv 2] ++ c01_rep 8 [LCtl] ++
  (* worker 0 runs 0, waits on 1; topped up: book [1; 5; 1] *)
  [LDeliver 0] ++ c01_rep 3 [LRecvW 0] ++ c01_rep 8 [LMain 0] ++ c01_rep 8 [LRecv 0] ++ c01_rep 8 [LCtl] ++
  (* the replacement worker 3 reports its collection: steal request [1] to worker 0 *)
  [LDeliver 0] ++ c01_rep 3 [LRecvW 0] ++ c01_rep 4 [LMain 3] ++ c01_rep 3 [LRecv 3] ++ c01_rep 4 [LCtl] ++
  (* worker 0 answers; the controller strikes both 1s out of its book *)
  [LDeliver 0; LRecvW 0; LRecvW 0; LRecv 0; LCtl].
Example xs_ex_duplicate_ids_requeue_books :
  bookw (sys_run xs_dupcfg (firstn 113 xs_dup_sched)) 0 = [1; 5; 1] /\
  bookw (sys_run xs_dupcfg xs_dup_sched) 0 = [5] /\
  option_map (fun w => owed_w w) (aget 0 (y_w (sys_run xs_dupcfg xs_dup_sched))) = Some [1; 5].
Proof. vm_compute. repeat split; reflexivity. Qed.
Example xs_ex_duplicate_ids_requeue_raises :
  y_result (sys_run xs_dupcfg (xs_dup_sched ++ c01_rep 8 [LMain 0] ++ c01_rep 8 [LRecv 0] ++ c01_rep 8 [LCtl]))
  = Some (RError EValue).
Proof. vm_compute. reflexivity. Qed.
(* the collection has a duplicate id and the plugin re-queues: rq_ok fails, as it must *)
Example xs_ex_duplicate_ids_not_rq_ok : ~ rq_ok xs_dupcfg.
Proof.
  intros [F|F]; [discriminate|]. specialize (F 0). cbn in F. inversion F as [|a l Hn ND1]; subst.
  inversion ND1 as [|a2 l2 Hn2 _]; subst. apply Hn2. right. left. reflexivity.
Qed.

(* (h) STOP REQUESTS AND CRASHES TOGETHER: the session of CompletenessSteal.v in which worker 1's own session
   stops after its first test and answers the withdrawal request after its "finished" (the marker stays on
   it for ever); now worker 0 is killed as well.  No exception; the session ends as "interrupted"; the
   theorems apply (no hypothesis on stops) *)
Definition xs_stop_crash : list label :=
  cst_stop_sched2 ++ [LCrash 0] ++ c01_rep 40 (cst_rr2 ++ [LMain 2; LRecvW 2; LDeliver 2; LRecv 2; LCtl]).
Example xs_ex_stop_and_crash :
  let s := sys_run cst_stop_cfg xs_stop_crash in
  y_result s = Some RInterrupted /\ y_dead s = [0] /\ steal_of s = Some 1 /\
  CrashCoupledW cst_stop_cfg s /\ StealOneX cst_stop_cfg s /\
  (forall l, forall e, y_result (sys_run cst_stop_cfg (firstn l xs_stop_crash)) <> Some (RError e)).
Proof.
  cbv zeta. destruct cst_ex_stop_hyps as (H1 & _ & H3 & _ & _ & H6 & _).
  assert (H5 : rq_ok cst_stop_cfg) by (left; reflexivity).
  split; [vm_compute; reflexivity|]. split; [vm_compute; reflexivity|]. split; [vm_compute; reflexivity|].
  split; [apply steal_crash_coupling_invariant; assumption|].
  split; [apply steal_crash_one_request; assumption|].
  intros l. apply steal_crash_controller_never_raises; try assumption. reflexivity.
Qed.
