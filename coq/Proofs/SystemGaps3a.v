(* SystemGaps3a.v — C09 "whoever is sent tests is registered", part 1: the schedulers and the
   controller.

   For every scheduler operation and every iteration of the controller loop: every work command
   (CRun / CRunAll / CSteal) in the outputs goes to a node whose collection is registered with the
   scheduler in the state right AFTER the operation / iteration.

   Relations carried through the monadic code (logic [from R s0 m] of ShutdownOnce.v):
     Wr  reg s s' o : every work command of o goes to a node registered in s'
     Mr  reg s s' o : Wr, and every node registered in s is still registered in s' (reflexive, composes)
     NWr     s s' o : o holds no work command
   Registrations only disappear at the very beginning of remove_node (before anything is sent), so
   every method is [from Mr] except remove_node, which is "a silent prefix, then [from Mr]".

   What needs a precondition:
     worksteal, scope family: nothing (every dispatch path looks the collection up first);
     each:  the scheduler invariant EInv "non-empty pending => collection registered" (e_schedule_node
            sends CRun pend without looking);
     load:  at the INITIAL distribution (l_schedule with no reference collection yet) every node of
            l_nodes must be registered (l_schedule sends to all of them without looking); this follows
            from the scheduler invariant LK (registered nodes are known nodes, while collection is not
            completed) and the counting fact "at most numnodes nodes are known" (part 2). *)
From XV Require Import Base Worker Ctl SchedLoad SchedSteal SchedScope SchedEach Sched DSession System
  NoHook DSessionProofs ShutdownOnce StopProofs FifoProofs SystemCorollaries SystemCorollariesColl.
From XV Require CollectionProofs.
Open Scope nat_scope.

(* ====================================================================================== *)
(* association lists                                                                       *)
(* ====================================================================================== *)
Lemma g3_ahas_aset {V} k n (v : V) m : ahas k m = true -> ahas k (aset n v m) = true.
Proof. unfold ahas. rewrite ShutdownOnce.aget_aset. destruct (Nat.eqb k n); auto. Qed.
Lemma g3_ahas_aset_self {V} n (v : V) m : ahas n (aset n v m) = true.
Proof. unfold ahas. rewrite ShutdownOnce.aget_aset, Nat.eqb_refl. reflexivity. Qed.
Lemma g3_aget_ahas {V} n (m : amap V) c : aget n m = Some c -> ahas n m = true.
Proof. unfold ahas. intros ->. reflexivity. Qed.
Lemma g3_ahas_keys {V} n (m : amap V) : ahas n m = true <-> In n (akeys m).
Proof.
  unfold ahas, akeys. induction m as [|[k v] m IH]; cbn; [split; [discriminate|intros []]|].
  destruct (Nat.eqb n k) eqn:E.
  - apply Nat.eqb_eq in E. subst k. split; auto.
  - apply Nat.eqb_neq in E. rewrite IH. split; [auto|]. intros [X|X]; [congruence|exact X].
Qed.
Lemma g3_aget_adel_neq {V} n k (m : amap V) : k <> n -> aget k (adel n m) = aget k m.
Proof.
  intros Hne. induction m as [|[k' v'] m IH]; cbn; [reflexivity|].
  destruct (Nat.eqb n k') eqn:E; cbn.
  - apply Nat.eqb_eq in E. subst k'. destruct (Nat.eqb k n) eqn:E2; [apply Nat.eqb_eq in E2; contradiction|reflexivity].
  - destruct (Nat.eqb k k'); [reflexivity|exact IH].
Qed.
Lemma g3_aget_adel_eq {V} n (m : amap V) : NoDup (akeys m) -> aget n (adel n m) = None.
Proof.
  induction m as [|[k' v'] m IH]; cbn; [reflexivity|]. intros ND. inversion ND as [|x l Hx ND']; subst.
  destruct (Nat.eqb n k') eqn:E; cbn.
  - apply Nat.eqb_eq in E. subst k'. destruct (aget n m) eqn:G; [|reflexivity].
    exfalso. apply Hx. apply g3_ahas_keys. unfold ahas. rewrite G. reflexivity.
  - rewrite E. apply IH. exact ND'.
Qed.
Lemma g3_akeys_aset_in {V} n (v : V) m : In n (akeys m) -> akeys (aset n v m) = akeys m.
Proof.
  induction m as [|[k' v'] m IH]; cbn; [intros []|].
  destruct (Nat.eqb n k') eqn:E; cbn; [reflexivity|].
  intros [X|X]; [apply Nat.eqb_neq in E; congruence|]. f_equal. apply IH. exact X.
Qed.
Lemma g3_akeys_aset_new {V} n (v : V) m : ~ In n (akeys m) -> akeys (aset n v m) = akeys m ++ [n].
Proof.
  induction m as [|[k' v'] m IH]; cbn; [reflexivity|].
  intros Hn. destruct (Nat.eqb n k') eqn:E; cbn.
  - apply Nat.eqb_eq in E. subst k'. exfalso. apply Hn. left. reflexivity.
  - f_equal. apply IH. intros X. apply Hn. right. exact X.
Qed.
Lemma g3_akeys_adel_incl {V} n (m : amap V) k : In k (akeys (adel n m)) -> In k (akeys m).
Proof.
  induction m as [|[k' v'] m IH]; cbn; [intros []|].
  destruct (Nat.eqb n k'); cbn; [intros X; right; exact X|]. intros [X|X]; [left; exact X|right; apply IH; exact X].
Qed.
Lemma g3_akeys_adel_nodup {V} n (m : amap V) : NoDup (akeys m) -> NoDup (akeys (adel n m)).
Proof.
  induction m as [|[k' v'] m IH]; cbn; [auto|]. intros ND. inversion ND as [|x l Hx ND']; subst.
  destruct (Nat.eqb n k'); cbn; [exact ND'|]. constructor; [|apply IH; exact ND'].
  intros X. apply Hx. eapply g3_akeys_adel_incl. exact X.
Qed.
Lemma g3_akeys_adel_notin {V} n (m : amap V) : NoDup (akeys m) -> ~ In n (akeys (adel n m)).
Proof. intros ND X. apply g3_ahas_keys in X. unfold ahas in X. rewrite (g3_aget_adel_eq n m ND) in X. discriminate. Qed.
Lemma g3_akeys_adel_neq {V} n k (m : amap V) : k <> n -> In k (akeys m) -> In k (akeys (adel n m)).
Proof.
  intros Hne X. apply g3_ahas_keys. apply g3_ahas_keys in X. unfold ahas in *. rewrite g3_aget_adel_neq; auto.
Qed.
Lemma g3_nodup_snoc {A} (l : list A) n : NoDup l -> ~ In n l -> NoDup (l ++ [n]).
Proof.
  induction l as [|x l IH]; cbn; intros ND Hn; [constructor; [intros []|constructor]|].
  inversion ND as [|y l' Hx ND']; subst. constructor.
  - intros X. apply in_app_or in X. destruct X as [X|[X|[]]]; [exact (Hx X)|]. apply Hn. left. symmetry. exact X.
  - apply IH; [exact ND'|]. intros X. apply Hn. right. exact X.
Qed.
Lemma g3_akeys_aset_nodup {V} n (v : V) m : NoDup (akeys m) -> NoDup (akeys (aset n v m)).
Proof.
  intros ND. destruct (in_dec Nat.eq_dec n (akeys m)) as [Hin|Hn].
  - rewrite g3_akeys_aset_in; auto.
  - rewrite g3_akeys_aset_new; auto. apply g3_nodup_snoc; auto.
Qed.
Lemma g3_akeys_length {V} (m : amap V) : length (akeys m) = length m.
Proof. apply map_length. Qed.

(* ====================================================================================== *)
(* two more rules for the [from] logic: the continuation may use what the first part        *)
(* established                                                                             *)
(* ====================================================================================== *)
Section MoreLogic.
  Context {S : Type}.
  Variable R : S -> S -> list out -> Prop.

  Lemma f_bind_pre {A B} s0 (m : M S A) (f : A -> M S B) :
    rtrans R -> from R s0 m -> (forall a s1 o1, R s0 s1 o1 -> from R s1 (f a)) -> from R s0 (mbind m f).
  Proof.
    intros Rt Hm Hf s' o r H. unfold mbind in H.
    destruct (m s0) as [[s1 o1] r1] eqn:E1. specialize (Hm _ _ _ E1).
    destruct r1 as [a|e].
    - destruct (f a s1) as [[s2 o2] r2] eqn:E2. inversion H; subst.
      eapply Rt; [exact Hm|]. exact (Hf a s1 o1 Hm _ _ _ E2).
    - inversion H; subst. exact Hm.
  Qed.

  Lemma f_mfor_pre {A} (P : S -> Prop) (l : list A) (f : A -> M S unit) :
    rrefl R -> rtrans R -> (forall s s' o, R s s' o -> P s -> P s') ->
    (forall a, In a l -> forall s, P s -> from R s (f a)) -> forall s0, P s0 -> from R s0 (mfor l f).
  Proof.
    intros Rr Rt St. induction l as [|x l IH]; intros Hf s0 P0; cbn [mfor]; [apply f_ret; exact Rr|].
    apply f_bind_pre; [exact Rt|apply Hf; [left; reflexivity|exact P0]|].
    intros _ s1 o1 R1. apply IH; [intros a Ha; apply Hf; right; exact Ha|]. eapply St; eassumption.
  Qed.
End MoreLogic.

(* ====================================================================================== *)
(* the relations                                                                           *)
(* ====================================================================================== *)
Section WorkRel.
  Context {S : Type} (reg : S -> amap (list string)).

  Definition Wr (s s' : S) (o : list out) : Prop :=
    forall n cm, In (OSend n cm) o -> is_workcmd cm = true -> ahas n (reg s') = true.
  Definition Mr (s s' : S) (o : list out) : Prop :=
    Wr s s' o /\ forall n, ahas n (reg s) = true -> ahas n (reg s') = true.
  Definition NWr (s s' : S) (o : list out) : Prop :=
    forall n cm, In (OSend n cm) o -> is_workcmd cm = false.

  Lemma Mr_refl : rrefl Mr.
  Proof. intros s. split; [intros n cm []|auto]. Qed.
  Lemma Mr_trans : rtrans Mr.
  Proof.
    intros a b c o1 o2 (A1 & A2) (B1 & B2). split; [|auto].
    intros n cm Hin Hw. apply in_app_or in Hin. destruct Hin as [Hin|Hin]; [apply B2; eapply A1; eassumption|eapply B1; eassumption].
  Qed.
  Lemma Wr_refl : rrefl Wr.
  Proof. intros s n cm []. Qed.
  Lemma NWr_refl : rrefl NWr.
  Proof. intros s n cm []. Qed.
  Lemma NWr_trans : rtrans NWr.
  Proof. intros a b c o1 o2 A B n cm Hin. apply in_app_or in Hin. destruct Hin; [eapply A|eapply B]; eassumption. Qed.
  Lemma Mr_Wr s s' o : Mr s s' o -> Wr s s' o.
  Proof. intros (A & _). exact A. Qed.
  Lemma Wr_Mr a b c o1 o2 : Wr a b o1 -> Mr b c o2 -> Wr a c (o1 ++ o2).
  Proof.
    intros A (B1 & B2) n cm Hin Hw. apply in_app_or in Hin.
    destruct Hin as [Hin|Hin]; [apply B2; eapply A; eassumption|eapply B1; eassumption].
  Qed.
  Lemma NWr_Wr a b c o1 o2 : NWr a b o1 -> Wr b c o2 -> Wr a c (o1 ++ o2).
  Proof.
    intros A B n cm Hin Hw. apply in_app_or in Hin. destruct Hin as [Hin|Hin]; [|eapply B; eassumption].
    rewrite (A n cm Hin) in Hw. discriminate.
  Qed.
  Lemma NWr_Mr s o : NWr s s o -> Mr s s o.
  Proof. intros A. split; [|auto]. intros n cm Hin Hw. rewrite (A n cm Hin) in Hw. discriminate. Qed.

  (* composite shapes *)
  Lemma m_to_w {A} s0 (m : M S A) : from Mr s0 m -> from Wr s0 m.
  Proof. intros H s' o r E. apply Mr_Wr. exact (H _ _ _ E). Qed.
  Lemma w_then_m {A B} s0 (m : M S A) (f : A -> M S B) :
    from Wr s0 m -> (forall a s1, from Mr s1 (f a)) -> from Wr s0 (mbind m f).
  Proof.
    intros Hm Hf s' o r H. unfold mbind in H.
    destruct (m s0) as [[s1 o1] r1] eqn:E1. specialize (Hm _ _ _ E1).
    destruct r1 as [a|e].
    - destruct (f a s1) as [[s2 o2] r2] eqn:E2. inversion H; subst.
      eapply Wr_Mr; [exact Hm|]. exact (Hf a s1 _ _ _ E2).
    - inversion H; subst. exact Hm.
  Qed.
  Lemma nw_then_w {A B} s0 (m : M S A) (f : A -> M S B) :
    from NWr s0 m -> (forall a s1, from Wr s1 (f a)) -> from Wr s0 (mbind m f).
  Proof.
    intros Hm Hf s' o r H. unfold mbind in H.
    destruct (m s0) as [[s1 o1] r1] eqn:E1. specialize (Hm _ _ _ E1).
    destruct r1 as [a|e].
    - destruct (f a s1) as [[s2 o2] r2] eqn:E2. inversion H; subst.
      eapply NWr_Wr; [exact Hm|]. exact (Hf a s1 _ _ _ E2).
    - inversion H; subst. intros n cm Hin Hw. rewrite (Hm n cm Hin) in Hw. discriminate.
  Qed.
  Lemma w_put_bind {B} s0 s1 (k : unit -> M S B) : from Wr s1 (k tt) -> from Wr s0 (mbind (put s1) k).
  Proof.
    intros Hk s' o r H. unfold mbind, put in H.
    destruct (k tt s1) as [[s2 o2] r2] eqn:E2. cbn [app] in H. inversion H; subst. exact (Hk _ _ _ E2).
  Qed.

  (* the primitives that send *)
  Lemma mr_node_send (nt_of : S -> ntable) n c s0 :
    (is_workcmd c = true -> ahas n (reg s0) = true) -> from Mr s0 (node_send nt_of n c).
  Proof.
    intros Hc s' o r E. destruct (node_send_out _ _ _ _ _ _ _ E) as (-> & [->| ->]); [apply Mr_refl|].
    split; [|auto]. intros k cm [X|[]] Hw. inversion X; subst. auto.
  Qed.
  Lemma mr_node_shutdown (nt_of : S -> ntable) set_nt n :
    (forall s v, reg (set_nt s v) = reg s) -> spec Mr (node_shutdown nt_of set_nt n).
  Proof.
    intros Hs s0. unfold node_shutdown. apply f_flags_bind; [exact Mr_refl|]. intros f Hf.
    destruct (n_down f || n_sdsent f); [apply f_ret; exact Mr_refl|].
    apply f_bind; [exact Mr_trans|apply mr_node_send; discriminate|]. intros _ s1.
    apply f_get. apply f_put. split; [intros k cm []|]. intros k. rewrite Hs. auto.
  Qed.
  Lemma nw_node_shutdown (nt_of : S -> ntable) set_nt n : spec NWr (node_shutdown nt_of set_nt n).
  Proof.
    intros s0. unfold node_shutdown. apply f_flags_bind; [exact NWr_refl|]. intros f Hf.
    destruct (n_down f || n_sdsent f); [apply f_ret; exact NWr_refl|].
    apply f_bind; [exact NWr_trans| |].
    - intros s' o r E. destruct (node_send_out _ _ _ _ _ _ _ E) as (-> & [->| ->]); [apply NWr_refl|].
      intros k cm [X|[]]. inversion X; subst. reflexivity.
    - intros _ s1. apply f_get. apply f_put. intros k cm [].
  Qed.
End WorkRel.
#[export] Hint Resolve Mr_refl Mr_trans NWr_refl NWr_trans : sdrel.

(* ====================================================================================== *)
(* decomposition tactic                                                                    *)
(* ====================================================================================== *)
Ltac mr_put :=
  split; [intros ? ? [] | cbn; intros ? HX; first [exact HX | apply g3_ahas_aset; exact HX]].
Ltac mr_emit :=
  split; [intros ? ? [HX|[]] ?; discriminate HX | auto].
Create HintDb mrdb.
Ltac mr1 :=
  first
    [ apply f_ret; rr | apply f_raise; rr | apply f_massert; rr | apply f_of_opt; rr
    | apply f_getv; rr
    | apply f_put; mr_put
    | apply f_emit; mr_emit
    | apply f_mfor; [rr | rr | intros ? ?]
    | apply mr_node_shutdown; intros; reflexivity
    | apply f_flags; rr
    | match goal with
      | |- from _ _ (mbind get _) => apply f_get
      | |- from _ _ (mbind (ret _) _) => apply f_ret_bind
      | |- from _ _ (mbind (put _) _) => apply f_put_bind; [rr | mr_put | ]
      | |- from _ _ (mbind (of_opt _ _) _) => apply f_of_opt_bind; [rr | intros ? ?]
      | |- from _ _ (mbind (massert _) _) => apply f_massert_bind; [rr | intros ?]
      | |- from _ _ (mbind (node_flags _ _) _) => apply f_flags_bind; [rr | intros ? ?]
      | |- from _ _ (mbind (node_shutting_down _ _) _) => apply f_nsd_bind; [rr | intros ? ?]
      | |- from _ _ (mbind _ _) => apply f_bind_pre; [rr | | intros ? ? ? ?]
      end
    | progress cbv zeta
    | match goal with
      | |- from _ _ (match ?x with _ => _ end) => destruct x eqn:?
      | |- from _ _ (let '(_, _) := ?x in _) => destruct x eqn:?
      end
    | solve [eauto with mrdb] ].
Ltac mr := repeat mr1.

Notation wmr := (Mr ws_n2c).
Notation cmr := (Mr sc_reg).
Notation emr := (Mr e_n2c).
Notation lmr := (Mr l_n2c).

(* ====================================================================================== *)
(* worksteal                                                                               *)
(* ====================================================================================== *)
Lemma mr_ws_send_tests n num s0 : ahas n (ws_n2c s0) = true -> from wmr s0 (ws_send_tests n num).
Proof.
  intros Hn. unfold ws_send_tests. mr. apply mr_node_send. intros _. exact Hn.
Qed.

Lemma mr_ws_distribute idle : forall s0,
  (forall n, In n idle -> ahas n (ws_n2c s0) = true) -> from wmr s0 (ws_distribute idle).
Proof.
  induction idle as [|n r IH]; intros s0 Hi; cbn [ws_distribute]; [mr|].
  apply f_get. cbv zeta. apply f_bind_pre; [rr|apply mr_ws_send_tests; apply Hi; left; reflexivity|].
  intros _ s1 o1 (_ & Mo). apply IH. intros k Hk. apply Mo. apply Hi. right. exact Hk.
Qed.

Lemma ws_up_reg s n : In n (ws_up s) -> ahas n (ws_n2c s) = true.
Proof.
  unfold ws_up. intros H. apply filter_In in H. destruct H as (_ & H).
  destruct (aget n (ws_nt s)); [|discriminate]. apply andb_true_iff in H. exact (proj2 H).
Qed.
Lemma ws_idle_incl s up n : In n (ws_idle s up) -> In n up.
Proof. unfold ws_idle. intros H. apply filter_In in H. exact (proj1 H). Qed.

Lemma first_max_in s l : forall best v, first_max s l best = Some v -> In v l \/ best = Some v.
Proof.
  induction l as [|n r IH]; intros best v H; cbn [first_max] in H; [right; exact H|].
  destruct best as [b|].
  - destruct (ws_len s b <? ws_len s n).
    + destruct (IH _ _ H) as [X|X]; [left; right; exact X|inversion X; left; left; reflexivity].
    + destruct (IH _ _ H) as [X|X]; [left; right; exact X|right; exact X].
  - destruct (IH _ _ H) as [X|X]; [left; right; exact X|inversion X; left; left; reflexivity].
Qed.

Lemma mr_ws_check s0 : from wmr s0 ws_check_schedule.
Proof.
  unfold ws_check_schedule. apply f_get. destruct (ws_coll s0); [|mr]. cbv zeta.
  assert (UP : forall n, In n (ws_up s0) -> ahas n (ws_n2c s0) = true) by (intros n; apply ws_up_reg).
  assert (ID : forall n, In n (ws_idle s0 (ws_up s0)) -> ahas n (ws_n2c s0) = true).
  { intros n Hn. apply UP. eapply ws_idle_incl. exact Hn. }
  destruct (ws_idle s0 (ws_up s0)) as [|i0 ir] eqn:Eidle; [mr|].
  apply f_bind_pre; [rr| |].
  - destruct (ws_pending s0); [mr|]. apply mr_ws_distribute. exact ID.
  - intros _ s1 o1 (_ & Mo). apply f_get.
    destruct (match ws_pending s0 with [] => i0 :: ir | _ :: _ => ws_idle s1 (ws_up s0) end); [mr|].
    destruct (ws_steal s1); [mr|].
    destruct (first_max s1 (ws_up s0) None) as [v|] eqn:Efm.
    + destruct (first_max_in _ _ _ _ Efm) as [Hv|Hv]; [|discriminate]. cbv beta iota zeta.
      destruct (Nat.min (ws_len s1 v / 2) (ws_len s1 v - MIN_PENDING)); [mr|].
      mr. apply mr_node_send. intros _. apply Mo. apply UP. exact Hv.
    + mr.
Qed.
#[export] Hint Resolve mr_ws_check : mrdb.

Lemma mr_ws_add_node n s0 : from wmr s0 (ws_add_node n).
Proof. unfold ws_add_node. mr. Qed.
Lemma mr_ws_add_coll n c s0 : from wmr s0 (ws_add_node_collection n c).
Proof. unfold ws_add_node_collection. mr. Qed.
Lemma mr_ws_complete n i s0 : from wmr s0 (ws_mark_test_complete n i).
Proof. unfold ws_mark_test_complete. mr. Qed.
Lemma mr_ws_pending it s0 : from wmr s0 (ws_mark_test_pending it).
Proof. unfold ws_mark_test_pending. mr. Qed.
Lemma mr_ws_unsched n ixs s0 : from wmr s0 (ws_remove_pending_tests_from_node n ixs).
Proof. unfold ws_remove_pending_tests_from_node. mr. Qed.
Lemma mr_ws_same s0 : from wmr s0 ws_same_collection.
Proof. unfold ws_same_collection. mr. Qed.
#[export] Hint Resolve mr_ws_same : mrdb.
Lemma mr_ws_schedule s0 : from wmr s0 ws_schedule.
Proof. unfold ws_schedule. mr. Qed.

(* remove_node: the registration of n (and only of n) may disappear, before anything is sent *)
Lemma w_ws_remove n s0 : from (Wr ws_n2c) s0 (ws_remove_node n).
Proof.
  unfold ws_remove_node. apply f_get. apply f_of_opt_bind; [exact (Wr_refl _)|]. intros pend _.
  apply w_put_bind. apply nw_then_w.
  - apply f_get. destruct (ws_collection_is_completed _); [apply f_ret; rr|apply f_put; intros k cm []].
  - intros _ s1. apply m_to_w. mr.
Qed.

(* ====================================================================================== *)
(* scope family                                                                            *)
(* ====================================================================================== *)
Lemma mr_sc_add_node n s0 : from cmr s0 (sc_add_node n).
Proof. unfold sc_add_node. mr. Qed.
(* _assign_work_unit looks the worker's collection up (KeyError) before anything is sent *)
Lemma mr_sc_assign n s0 : from cmr s0 (sc_assign_work_unit n).
Proof.
  unfold sc_assign_work_unit. mr. apply mr_node_send. intros _. eapply g3_aget_ahas. eassumption.
Qed.
#[export] Hint Resolve mr_sc_assign : mrdb.
Lemma mr_sc_top_up fuel n s0 : from cmr s0 (sc_top_up fuel n).
Proof. revert s0. induction fuel as [|f IH]; intros s0; cbn [sc_top_up]; mr. Qed.
#[export] Hint Resolve mr_sc_top_up : mrdb.
Lemma mr_sc_reschedule n s0 : from cmr s0 (sc_reschedule n).
Proof. unfold sc_reschedule. mr. Qed.
#[export] Hint Resolve mr_sc_reschedule : mrdb.
Lemma mr_sc_add_coll n c s0 : from cmr s0 (sc_add_node_collection n c).
Proof. unfold sc_add_node_collection. mr. Qed.
Lemma mr_sc_complete n i s0 : from cmr s0 (sc_mark_test_complete n i).
Proof. unfold sc_mark_test_complete. mr. Qed.
Lemma mr_sc_same s0 : from cmr s0 sc_same_collection.
Proof. unfold sc_same_collection. mr. Qed.
#[export] Hint Resolve mr_sc_same : mrdb.
Lemma mr_sc_pop_extra k s0 : from cmr s0 (sc_pop_extra k).
Proof. revert s0. induction k as [|k IH]; intros s0; cbn [sc_pop_extra]; mr. Qed.
#[export] Hint Resolve mr_sc_pop_extra : mrdb.
Lemma mr_sc_schedule s0 : from cmr s0 sc_schedule.
Proof. unfold sc_schedule. mr. Qed.
Lemma w_sc_remove n s0 : from (Wr sc_reg) s0 (sc_remove_node n).
Proof.
  unfold sc_remove_node. apply f_get. apply f_of_opt_bind; [exact (Wr_refl _)|]. intros w _.
  apply w_put_bind. apply nw_then_w.
  - apply f_get. destruct (sc_collection_is_completed _); [apply f_ret; rr|apply f_put; intros k cm []].
  - intros _ s1. apply m_to_w. mr.
Qed.

(* ====================================================================================== *)
(* each                                                                                    *)
(* ====================================================================================== *)
(* the scheduler invariant: a node with tests pending has its collection registered
   (pending becomes non-empty only in e_schedule_node itself -- for a registered node -- and in
   the take-over of a dead node's tests, which registers) *)
Definition EInv (s : estate) : Prop :=
  NoDup (akeys (e_n2p s)) /\
  forall n p, aget n (e_n2p s) = Some p -> p <> [] -> ahas n (e_n2c s) = true.
Definition EI (s s' : estate) (o : list out) : Prop := EInv s -> EInv s'.
Lemma EI_refl : rrefl EI. Proof. intros s H. exact H. Qed.
Lemma EI_trans : rtrans EI. Proof. intros a b c o1 o2 A B H. exact (B (A H)). Qed.
#[export] Hint Resolve EI_refl EI_trans : sdrel.

Lemma einv_set s s' n p :
  EInv s -> e_n2p s' = aset n p (e_n2p s) ->
  (forall k, ahas k (e_n2c s) = true -> ahas k (e_n2c s') = true) ->
  (p <> [] -> ahas n (e_n2c s') = true) -> EInv s'.
Proof.
  intros (ND & H) E1 Hm Hp. split; [rewrite E1; apply g3_akeys_aset_nodup; exact ND|].
  intros k q. rewrite E1, ShutdownOnce.aget_aset. destruct (Nat.eqb k n) eqn:E.
  - apply Nat.eqb_eq in E. subst k. intros X Hq. inversion X; subst. auto.
  - intros X Hq. apply Hm. eapply H; eassumption.
Qed.
Lemma einv_same s s' : e_n2p s' = e_n2p s -> e_n2c s' = e_n2c s -> EInv s -> EInv s'.
Proof. unfold EInv. intros -> ->. auto. Qed.

Lemma einv_init nt numnodes : EInv (e_init nt numnodes).
Proof. split; [constructor|]. intros n p H. discriminate. Qed.

Ltac ei_put :=
  intros HI;
  first [ exact HI
        | eapply einv_same; [reflexivity | reflexivity | exact HI]
        | eapply einv_set;
          [ exact HI | reflexivity
          | cbn; intros ? HX; first [exact HX | apply g3_ahas_aset; exact HX]
          | cbn; try congruence; try (intros _; apply g3_ahas_aset_self) ] ].
Lemma ei_node_shutdown n : spec EI (node_shutdown e_nt e_set_nt n).
Proof.
  intros s0 s' o r H. destruct (node_shutdown_frame _ _ _ _ _ _ _ H) as [->|(v & ->)]; [apply EI_refl|].
  intros HI. eapply einv_same; [| |exact HI]; reflexivity.
Qed.
Lemma ei_node_send n c : spec EI (node_send e_nt n c).
Proof. intros s0 s' o r H. destruct (node_send_out _ _ _ _ _ _ _ H) as (-> & _). apply EI_refl. Qed.
Create HintDb eidb.
Ltac ei1 :=
  first
    [ apply f_ret; rr | apply f_raise; rr | apply f_massert; rr | apply f_of_opt; rr
    | apply f_getv; rr
    | apply f_put; ei_put
    | apply f_emit; exact (fun HI => HI)
    | apply f_mfor; [rr | rr | intros ? ?]
    | apply ei_node_shutdown
    | apply ei_node_send
    | match goal with
      | |- from _ _ (mbind get _) => apply f_get
      | |- from _ _ (mbind (ret _) _) => apply f_ret_bind
      | |- from _ _ (mbind (of_opt _ _) _) => apply f_of_opt_bind; [rr | intros ? ?]
      | |- from _ _ (mbind (massert _) _) => apply f_massert_bind; [rr | intros ?]
      | |- from _ _ (mbind _ _) => apply f_bind; [rr | | intros ? ?]
      end
    | progress cbv zeta
    | match goal with
      | |- from _ _ (match ?x with _ => _ end) => destruct x eqn:?
      | |- from _ _ (let '(_, _) := ?x in _) => destruct x eqn:?
      end
    | solve [eauto with eidb] ].
Ltac ei := repeat ei1.

Lemma ei_e_add_node n s0 : from EI s0 (e_add_node n).
Proof. unfold e_add_node. ei. Qed.
Lemma ei_e_inherit n c dead s0 : from EI s0 (e_inherit n c dead).
Proof. revert s0. induction dead as [|[d p] r IH]; intros s0; cbn [e_inherit]; ei. Qed.
#[export] Hint Resolve ei_e_inherit : eidb.
Lemma ei_e_add_coll n c s0 : from EI s0 (e_add_node_collection n c).
Proof. unfold e_add_node_collection. ei. Qed.
Lemma remove_first_nonnil i l l' : remove_first i l = Some l' -> l <> [].
Proof. destruct l; [discriminate|intros _ X; discriminate]. Qed.
Lemma ei_e_complete n i s0 : from EI s0 (e_mark_test_complete n i).
Proof.
  unfold e_mark_test_complete. ei. intros _. destruct HI as (_ & HI2). eapply HI2; [eassumption|].
  eapply remove_first_nonnil. eassumption.
Qed.
Lemma ei_e_schedule_node n s0 : from EI s0 (e_schedule_node n).
Proof.
  unfold e_schedule_node. ei. intros _. eapply g3_aget_ahas. eassumption.
Qed.
#[export] Hint Resolve ei_e_schedule_node : eidb.
Lemma ei_e_schedule s0 : from EI s0 e_schedule.
Proof. unfold e_schedule. ei. Qed.

(* remove_node sends nothing; the node leaves node2pending, and node2collection unless collection
   is completed *)
Lemma e_remove_frame n s s' o r :
  e_remove_node n s = (s', o, r) ->
  o = [] /\
  (s' = s \/ (e_n2p s' = adel n (e_n2p s) /\ (e_n2c s' = e_n2c s \/ e_n2c s' = adel n (e_n2c s)))).
Proof.
  unfold e_remove_node, mbind, get, of_opt, put, ret, raise.
  destruct (aget n (e_n2p s)) as [pend|]; cbn; [|intros H; inversion H; auto].
  destruct (e_completed s) eqn:Ec; cbn; rewrite ?Ec; cbn.
  - destruct pend as [|i rest]; cbn; [intros H; inversion H; subst; cbn; auto|].
    destruct (aget n (e_n2c s)) as [coll|]; cbn; [|intros H; inversion H; subst; cbn; auto].
    destruct (nth_error coll i); cbn; [|intros H; inversion H; subst; cbn; auto].
    destruct rest; cbn; intros H; inversion H; subst; cbn; auto.
  - destruct pend as [|i rest]; cbn; [intros H; inversion H; subst; cbn; auto|].
    destruct (aget n (adel n (e_n2c s))) as [coll|]; cbn; [|intros H; inversion H; subst; cbn; auto].
    destruct (nth_error coll i); cbn; [|intros H; inversion H; subst; cbn; auto].
    destruct rest; cbn; intros H; inversion H; subst; cbn; auto.
Qed.
Lemma ei_e_remove n s0 : from EI s0 (e_remove_node n).
Proof.
  intros s' o r H (ND & HI). destruct (e_remove_frame _ _ _ _ _ H) as (_ & [->|(E1 & E2)]); [split; assumption|].
  split; [rewrite E1; apply g3_akeys_adel_nodup; exact ND|].
  intros k p. rewrite E1. intros G Hp. destruct (Nat.eq_dec k n) as [->|Hne].
  - rewrite (g3_aget_adel_eq n _ ND) in G. discriminate.
  - rewrite g3_aget_adel_neq in G by exact Hne. pose proof (HI k p G Hp) as A.
    destruct E2 as [->| ->]; [exact A|]. unfold ahas in *. rewrite g3_aget_adel_neq by exact Hne. exact A.
Qed.

(* ---- work commands ---- *)
Lemma mr_e_add_node n s0 : from emr s0 (e_add_node n).
Proof. unfold e_add_node. mr. Qed.
Lemma mr_e_inherit n c dead s0 : from emr s0 (e_inherit n c dead).
Proof. revert s0. induction dead as [|[d p] r IH]; intros s0; cbn [e_inherit]; mr. Qed.
#[export] Hint Resolve mr_e_inherit : mrdb.
Lemma mr_e_add_coll n c s0 : from emr s0 (e_add_node_collection n c).
Proof. unfold e_add_node_collection. mr. Qed.
Lemma mr_e_complete n i s0 : from emr s0 (e_mark_test_complete n i).
Proof. unfold e_mark_test_complete. mr. Qed.
Lemma w_e_remove n s0 : from (Wr e_n2c) s0 (e_remove_node n).
Proof. intros s' o r H. destruct (e_remove_frame _ _ _ _ _ H) as (-> & _). intros k cm []. Qed.
Lemma mr_e_schedule_node n s0 : EInv s0 -> from emr s0 (e_schedule_node n).
Proof.
  intros (_ & HI). unfold e_schedule_node. mr.
  - apply mr_node_send. intros _. cbn. eapply g3_aget_ahas. eassumption.
  - apply mr_node_send. intros _. eapply HI; [eassumption|discriminate].
Qed.

Definition EM (s s' : estate) (o : list out) : Prop := emr s s' o /\ EI s s' o.
Lemma EM_refl : rrefl EM. Proof. intros s. split; [apply Mr_refl|apply EI_refl]. Qed.
Lemma EM_trans : rtrans EM.
Proof. intros a b c o1 o2 (A1 & A2) (B1 & B2). split; [eapply Mr_trans; eassumption|eapply EI_trans; eassumption]. Qed.
Lemma mr_e_schedule s0 : EInv s0 -> from emr s0 e_schedule.
Proof.
  intros HI. unfold e_schedule. apply f_get. apply f_massert_bind; [rr|]. intros _.
  assert (X : from EM s0 (mfor (akeys (e_n2p s0)) e_schedule_node)).
  { apply (f_mfor_pre EM EInv); [exact EM_refl|exact EM_trans| | |exact HI].
    - intros s s' o (_ & A) H. exact (A H).
    - intros n _ s Hs s' o r E. split; [exact (mr_e_schedule_node n s Hs _ _ _ E)|exact (ei_e_schedule_node n s _ _ _ E)]. }
  intros s' o r E. exact (proj1 (X _ _ _ E)).
Qed.

(* ====================================================================================== *)
(* load                                                                                    *)
(* ====================================================================================== *)
Lemma mr_l_send_tests n num s0 : ahas n (l_n2c s0) = true -> from lmr s0 (l_send_tests n num).
Proof. intros Hn. unfold l_send_tests. mr. apply mr_node_send. intros _. exact Hn. Qed.
(* check_schedule is guarded: a node that has not reported its collection gets nothing *)
Lemma mr_l_check_schedule n d s0 : from lmr s0 (l_check_schedule n d).
Proof.
  unfold l_check_schedule. mr. apply mr_l_send_tests.
  match goal with H : negb _ = false |- _ => apply negb_false_iff in H; exact H end.
Qed.
#[export] Hint Resolve mr_l_check_schedule : mrdb.
Lemma mr_l_round_robin fuel all : forall cur s0,
  (forall n, In n all \/ In n cur -> ahas n (l_n2c s0) = true) -> from lmr s0 (l_round_robin fuel all cur).
Proof.
  induction fuel as [|f IH]; intros cur s0 Hi; cbn [l_round_robin]; [mr|].
  destruct cur as [|n r]; [destruct all as [|n r]; [mr|]|].
  - apply f_bind_pre; [rr|apply mr_l_send_tests; apply Hi; left; left; reflexivity|].
    intros _ s1 o1 (_ & Mo). apply IH. intros k Hk. apply Mo. apply Hi. left. destruct Hk as [Hk|Hk]; [exact Hk|right; exact Hk].
  - apply f_bind_pre; [rr|apply mr_l_send_tests; apply Hi; right; left; reflexivity|].
    intros _ s1 o1 (_ & Mo). apply IH. intros k Hk. apply Mo. apply Hi. destruct Hk as [Hk|Hk]; [left; exact Hk|right; right; exact Hk].
Qed.
Lemma mr_l_same s0 : from lmr s0 l_same_collection.
Proof. unfold l_same_collection. mr. Qed.
Lemma l_same_state s s' o r : l_same_collection s = (s', o, r) -> s' = s.
Proof.
  unfold l_same_collection, mbind, get. destruct (l_n2c s) as [|[first col] others]; [intros H; inversion H; reflexivity|].
  rewrite CollectionProofs.mfor_colldiff_eq. cbn. intros H; inversion H; reflexivity.
Qed.
Lemma f_bind_same {S A B} (R : S -> S -> list out -> Prop) s0 (m : M S A) (f : A -> M S B) :
  rtrans R -> (forall s' o r, m s0 = (s', o, r) -> s' = s0) -> from R s0 m ->
  (forall a, from R s0 (f a)) -> from R s0 (mbind m f).
Proof.
  intros Rt Hs Hm Hf s' o r H. unfold mbind in H.
  destruct (m s0) as [[s1 o1] r1] eqn:E1. pose proof (Hs _ _ _ eq_refl) as ->. specialize (Hm _ _ _ E1).
  destruct r1 as [a|e].
  - destruct (f a s0) as [[s2 o2] r2] eqn:E2. inversion H; subst.
    eapply Rt; [exact Hm|]. exact (Hf a _ _ _ E2).
  - inversion H; subst. exact Hm.
Qed.

(* the initial distribution sends to every node of l_nodes without looking: they must all be
   registered *)
Definition LS (s : lstate) : Prop :=
  l_coll s = None -> forall n, In n (l_nodes s) -> ahas n (l_n2c s) = true.
Lemma mr_l_schedule s0 : LS s0 -> from lmr s0 l_schedule.
Proof.
  intros HS. unfold l_schedule. apply f_get. apply f_massert_bind; [rr|]. intros _.
  destruct (l_coll s0) as [c0|] eqn:Ec; [mr|]. specialize (HS Ec).
  apply f_bind_same; [rr|apply l_same_state|apply mr_l_same|]. intros same.
  destruct (negb same); [mr|]. apply f_get. apply f_of_opt_bind; [rr|]. intros coll _.
  apply f_put_bind; [rr|mr_put|]. destruct coll as [|c1 cr]; [mr|].
  apply f_get. apply f_put_bind; [rr|mr_put|]. apply f_get. cbv zeta.
  apply f_bind; [rr| |intros ? ?; mr].
  match goal with |- from _ ?s (if ?b then _ else _) => destruct b end.
  - apply mr_l_round_robin. cbn. intros n [H|H]; apply HS; exact H.
  - match goal with |- from _ ?s (if ?b then _ else _) => destruct b end; [mr|].
    apply (f_mfor_pre lmr (fun s => forall n, In n (l_nodes s0) -> ahas n (l_n2c s) = true)); [rr|rr| | |].
    + intros s s' o (_ & Mo) H n Hn. apply Mo. apply H. exact Hn.
    + intros n Hn s Hs. apply mr_l_send_tests. apply Hs. exact Hn.
    + cbn. exact HS.
Qed.
Lemma mr_l_add_node n s0 : from lmr s0 (l_add_node n).
Proof. unfold l_add_node. mr. Qed.
Lemma mr_l_add_coll n c s0 : from lmr s0 (l_add_node_collection n c).
Proof. unfold l_add_node_collection. mr. Qed.
Lemma mr_l_complete n i d s0 : from lmr s0 (l_mark_test_complete n i d).
Proof. unfold l_mark_test_complete. mr. Qed.
Lemma mr_l_pending it s0 : from lmr s0 (l_mark_test_pending it).
Proof. unfold l_mark_test_pending. mr. Qed.
Lemma w_l_remove n s0 : from (Wr l_n2c) s0 (l_remove_node n).
Proof.
  unfold l_remove_node. apply f_get. apply f_of_opt_bind; [exact (Wr_refl _)|]. intros pend _.
  apply w_put_bind. apply nw_then_w.
  - apply f_get. destruct (l_collection_is_completed _); [apply f_ret; rr|apply f_put; intros k cm []].
  - intros _ s1. apply m_to_w. mr.
Qed.

(* ---- load: what the methods do to the set of known nodes and to the registrations ---- *)
Definition LF (s s' : lstate) (o : list out) : Prop :=
  akeys (l_n2p s') = akeys (l_n2p s) /\ l_numnodes s' = l_numnodes s /\ l_n2c s' = l_n2c s.
Lemma LF_refl : rrefl LF. Proof. intros s. repeat split. Qed.
Lemma LF_trans : rtrans LF.
Proof. intros a b c o1 o2 (A1 & A2 & A3) (B1 & B2 & B3). repeat split; congruence. Qed.
#[export] Hint Resolve LF_refl LF_trans : sdrel.
Lemma g3_aget_in_keys {V} n (m : amap V) c : aget n m = Some c -> In n (akeys m).
Proof. intros H. apply g3_ahas_keys. eapply g3_aget_ahas. exact H. Qed.
Ltac lf_put :=
  split; [cbn; first [reflexivity | apply g3_akeys_aset_in; eapply g3_aget_in_keys; eassumption]
         | split; reflexivity].
Lemma lf_node_shutdown n : spec LF (node_shutdown l_nt l_set_nt n).
Proof.
  intros s0 s' o r H. destruct (node_shutdown_frame _ _ _ _ _ _ _ H) as [->|(v & ->)]; [apply LF_refl|]. repeat split.
Qed.
Lemma lf_node_send n c : spec LF (node_send l_nt n c).
Proof. intros s0 s' o r H. destruct (node_send_out _ _ _ _ _ _ _ H) as (-> & _). apply LF_refl. Qed.
Create HintDb lfdb.
Ltac lf1 :=
  first
    [ apply f_ret; rr | apply f_raise; rr | apply f_massert; rr | apply f_of_opt; rr
    | apply f_getv; rr
    | apply f_put; lf_put
    | apply f_emit; exact (LF_refl _)
    | apply f_mfor; [rr | rr | intros ? ?]
    | apply lf_node_shutdown
    | apply lf_node_send
    | match goal with
      | |- from _ _ (mbind get _) => apply f_get
      | |- from _ _ (mbind (ret _) _) => apply f_ret_bind
      | |- from _ _ (mbind (of_opt _ _) _) => apply f_of_opt_bind; [rr | intros ? ?]
      | |- from _ _ (mbind (massert _) _) => apply f_massert_bind; [rr | intros ?]
      | |- from _ _ (mbind (node_flags _ _) _) => apply f_flags_bind; [rr | intros ? ?]
      | |- from _ _ (mbind (node_shutting_down _ _) _) => apply f_nsd_bind; [rr | intros ? ?]
      | |- from _ _ (mbind _ _) => apply f_bind; [rr | | intros ? ?]
      end
    | progress cbv zeta
    | match goal with
      | |- from _ _ (match ?x with _ => _ end) => destruct x eqn:?
      | |- from _ _ (let '(_, _) := ?x in _) => destruct x eqn:?
      end
    | solve [eauto with lfdb] ].
Ltac lf := repeat lf1.

Lemma lf_l_send_tests n num s0 : from LF s0 (l_send_tests n num).
Proof. unfold l_send_tests. lf. Qed.
#[export] Hint Resolve lf_l_send_tests : lfdb.
Lemma lf_l_check_schedule n d s0 : from LF s0 (l_check_schedule n d).
Proof. unfold l_check_schedule. lf. Qed.
#[export] Hint Resolve lf_l_check_schedule : lfdb.
Lemma lf_l_round_robin fuel all cur s0 : from LF s0 (l_round_robin fuel all cur).
Proof.
  revert cur s0. induction fuel as [|f IH]; intros cur s0; cbn [l_round_robin]; [lf|].
  destruct cur as [|n r]; [destruct all as [|n r]; [lf|]|];
    (apply f_bind; [rr|apply lf_l_send_tests|intros _ s1; apply IH]).
Qed.
#[export] Hint Resolve lf_l_round_robin : lfdb.
Lemma lf_l_same s0 : from LF s0 l_same_collection.
Proof. unfold l_same_collection. lf. Qed.
#[export] Hint Resolve lf_l_same : lfdb.
Lemma lf_l_schedule s0 : from LF s0 l_schedule.
Proof. unfold l_schedule. lf. Qed.
Lemma lf_l_complete n i d s0 : from LF s0 (l_mark_test_complete n i d).
Proof. unfold l_mark_test_complete. lf. Qed.
Lemma lf_l_pending it s0 : from LF s0 (l_mark_test_pending it).
Proof. unfold l_mark_test_pending. lf. Qed.

(* the three methods that are not frame-preserving *)
Lemma l_add_node_eff n s s' o r :
  l_add_node n s = (s', o, r) ->
  l_numnodes s' = l_numnodes s /\ l_n2c s' = l_n2c s /\
  (akeys (l_n2p s') = akeys (l_n2p s) \/ (~ In n (akeys (l_n2p s)) /\ akeys (l_n2p s') = akeys (l_n2p s) ++ [n])).
Proof.
  unfold l_add_node, mbind, get, massert, put, ret, raise.
  destruct (ahas n (l_n2p s)) eqn:E; cbn; intros H; inversion H; subst; cbn; [auto|].
  assert (Hn : ~ In n (akeys (l_n2p s))) by (intros X; apply g3_ahas_keys in X; congruence).
  split; [reflexivity|]. split; [reflexivity|]. right. split; [exact Hn|]. apply g3_akeys_aset_new. exact Hn.
Qed.

Lemma l_add_coll_eff n coll s s' o r :
  l_add_node_collection n coll s = (s', o, r) ->
  akeys (l_n2p s') = akeys (l_n2p s) /\ l_numnodes s' = l_numnodes s /\ l_coll s' = l_coll s /\
  (l_collection_is_completed s = true -> l_coll s = None -> exists e, r = Err e) /\
  (l_n2c s' = l_n2c s \/
   (In n (akeys (l_n2p s)) /\ l_n2c s' = aset n coll (l_n2c s) /\
    (l_collection_is_completed s = true -> l_coll s <> None))).
Proof.
  unfold l_add_node_collection, mbind, get, massert, put, ret, raise, of_opt, emit.
  destruct (ahas n (l_n2p s)) eqn:Eh; cbn; [|intros H; inversion H; subst; eauto 10].
  apply g3_ahas_keys in Eh.
  destruct (l_collection_is_completed s) eqn:Ecc.
  - destruct (l_coll s) as [[|c0 cr]|] eqn:Ecl; cbn; try (intros H; inversion H; subst; rewrite ?Ecl; eauto 10; fail).
    destruct (coll_eqb coll (c0 :: cr)); cbn.
    + intros H; inversion H; subst; cbn. rewrite Ecl. repeat split; try discriminate. right. repeat split; auto. discriminate.
    + destruct (first_key (l_n2c s)); cbn; [|intros H; inversion H; subst; rewrite ?Ecl; repeat split; try discriminate; auto].
      destruct (node_shutdown l_nt l_set_nt n s) as [[s2 o2] r2] eqn:E2. cbn.
      intros H; inversion H; subst.
      destruct (node_shutdown_frame _ _ _ _ _ _ _ E2) as [->|(v & ->)]; cbn; rewrite ?Ecl; repeat split; try discriminate; auto.
  - cbn. intros H; inversion H; subst; cbn. repeat split; try discriminate. right. repeat split; auto. discriminate.
Qed.

(* rules that change the relation *)
Lemma from_put_bind_rel {S B} (R R1 : S -> S -> list out -> Prop) s0 s1 (k : unit -> M S B) :
  (forall s' o, R1 s1 s' o -> R s0 s' o) -> from R1 s1 (k tt) -> from R s0 (mbind (put s1) k).
Proof.
  intros HR Hk s' o r H. unfold mbind, put in H.
  destruct (k tt s1) as [[s2 o2] r2] eqn:E2. cbn [app] in H. inversion H; subst. apply HR. exact (Hk _ _ _ E2).
Qed.
Lemma from_bind_rel {S A B} (R R1 R2 : S -> S -> list out -> Prop) s0 (m : M S A) (f : A -> M S B) :
  from R1 s0 m -> (forall a s1, from R2 s1 (f a)) ->
  (forall s1 s2 o1 o2, R1 s0 s1 o1 -> R2 s1 s2 o2 -> R s0 s2 (o1 ++ o2)) ->
  (forall s1 o1, R1 s0 s1 o1 -> R s0 s1 o1) -> from R s0 (mbind m f).
Proof.
  intros Hm Hf H12 H1 s' o r H. unfold mbind in H.
  destruct (m s0) as [[s1 o1] r1] eqn:E1. specialize (Hm _ _ _ E1).
  destruct r1 as [a|e].
  - destruct (f a s1) as [[s2 o2] r2] eqn:E2. inversion H; subst. eapply H12; [exact Hm|exact (Hf a s1 _ _ _ E2)].
  - inversion H; subst. apply H1. exact Hm.
Qed.

Lemma l_remove_eff n s s' o r :
  l_remove_node n s = (s', o, r) ->
  l_numnodes s' = l_numnodes s /\
  ((aget n (l_n2p s) = None /\ s' = s) \/
   (akeys (l_n2p s') = akeys (adel n (l_n2p s)) /\
    l_n2c s' = if l_collection_is_completed s then l_n2c s else adel n (l_n2c s))).
Proof.
  destruct (aget n (l_n2p s)) as [pend|] eqn:Ep.
  2:{ unfold l_remove_node. rewrite CollectionProofs.mbind_get, Ep. cbn. intros H; inversion H; subst. auto. }
  set (R := fun (a b : lstate) (_ : list out) =>
     l_numnodes b = l_numnodes a /\
     (akeys (l_n2p b) = akeys (adel n (l_n2p a)) /\
      l_n2c b = if l_collection_is_completed a then l_n2c a else adel n (l_n2c a))).
  enough (X : from R s (l_remove_node n)) by (intros H; destruct (X _ _ _ H) as (A & B); split; [exact A|right; exact B]).
  unfold l_remove_node. apply f_get. rewrite Ep. cbn [of_opt]. apply f_ret_bind.
  set (s1 := l_set_n2p s (adel n (l_n2p s))).
  apply (from_put_bind_rel R (fun a b (_ : list out) =>
     akeys (l_n2p b) = akeys (l_n2p s1) /\ l_numnodes b = l_numnodes s /\
     l_n2c b = if l_collection_is_completed s then l_n2c s else adel n (l_n2c s))).
  { intros b o0 (A1 & A2 & A3). split; [exact A2|]. split; [exact A1|exact A3]. }
  apply (from_bind_rel _ (fun a b (_ : list out) =>
     akeys (l_n2p b) = akeys (l_n2p s1) /\ l_numnodes b = l_numnodes s /\
     l_n2c b = if l_collection_is_completed s then l_n2c s else adel n (l_n2c s)) LF).
  - apply f_get. change (l_collection_is_completed s1) with (l_collection_is_completed s).
    destruct (l_collection_is_completed s); intros b o0 r0 H0; inversion H0; subst; repeat split.
  - intros _ s2. lf.
  - intros a b o1 o2 (A1 & A2 & A3) (B1 & B2 & B3). repeat split; congruence.
  - auto.
Qed.

(* ---- load: the scheduler invariant used for the counting argument ---- *)
(* registered nodes are distinct, and -- as long as collection is not completed -- they are known
   nodes (remove_node forgets the collection of a node that leaves before completion) *)
Definition LK (s : lstate) : Prop :=
  NoDup (akeys (l_n2p s)) /\ NoDup (akeys (l_n2c s)) /\
  (l_collection_is_completed s = false -> incl (akeys (l_n2c s)) (akeys (l_n2p s))).
Lemma lk_init nt numnodes chunk : LK (l_init nt numnodes chunk).
Proof. split; [constructor|]. split; [constructor|]. intros _ k []. Qed.
Lemma lk_frame s s' o : LF s s' o -> LK s -> LK s'.
Proof.
  intros (A1 & A2 & A3) (NP & ND & HI). unfold LK, l_collection_is_completed in *. rewrite A1, A2, A3. auto.
Qed.
Lemma g3_akeys_aset_cases {V} n (v : V) m k : In k (akeys (aset n v m)) -> k = n \/ In k (akeys m).
Proof.
  intros H. apply g3_ahas_keys in H. unfold ahas in H. rewrite ShutdownOnce.aget_aset in H.
  destruct (Nat.eqb k n) eqn:E; [left; apply Nat.eqb_eq; exact E|right]. apply g3_ahas_keys. exact H.
Qed.
Lemma lk_add_node n s s' o r : l_add_node n s = (s', o, r) -> LK s -> LK s'.
Proof.
  intros H (NP & ND & HI). destruct (l_add_node_eff _ _ _ _ _ H) as (A1 & A2 & A3).
  unfold LK, l_collection_is_completed in *. rewrite A1, A2. split; [|split; [exact ND|]].
  - destruct A3 as [-> |(Hn & ->)]; [exact NP|apply g3_nodup_snoc; assumption].
  - intros Hc k Hk. specialize (HI Hc k Hk). destruct A3 as [-> |(_ & ->)]; [exact HI|apply in_or_app; left; exact HI].
Qed.
Lemma lk_add_coll n coll s s' o r : l_add_node_collection n coll s = (s', o, r) -> LK s -> LK s'.
Proof.
  intros H (NP & ND & HI). destruct (l_add_coll_eff _ _ _ _ _ _ H) as (A1 & A2 & _ & _ & A3).
  unfold LK, l_collection_is_completed in *. rewrite A1, A2. split; [exact NP|].
  destruct A3 as [-> |(Hn & -> & _)]; [split; assumption|].
  split; [apply g3_akeys_aset_nodup; exact ND|].
  intros Hc k Hk. apply g3_akeys_aset_cases in Hk. destruct Hk as [->|Hk]; [exact Hn|].
  apply HI; [|exact Hk]. apply Nat.leb_gt. apply Nat.leb_gt in Hc.
  pose proof (CollectionProofs.length_aset_ge n coll (l_n2c s)). lia.
Qed.
Lemma lk_remove n s s' o r : l_remove_node n s = (s', o, r) -> LK s -> LK s'.
Proof.
  intros H (NP & ND & HI). destruct (l_remove_eff _ _ _ _ _ H) as (A1 & [(_ & ->)|(A2 & A3)]); [repeat split; assumption|].
  unfold LK. rewrite A2. split; [apply g3_akeys_adel_nodup; exact NP|]. destruct (l_collection_is_completed s) eqn:Ec.
  - assert (Ec' : l_collection_is_completed s' = true).
    { unfold l_collection_is_completed in *. rewrite A1, A3. exact Ec. }
    rewrite Ec', A3. split; [exact ND|discriminate].
  - rewrite A3. split; [apply g3_akeys_adel_nodup; exact ND|].
    intros _ k Hk. assert (Hne : k <> n).
    { intros ->. exact (g3_akeys_adel_notin n _ ND Hk). }
    apply g3_akeys_adel_neq; [exact Hne|]. apply HI; [reflexivity|]. eapply g3_akeys_adel_incl. exact Hk.
Qed.

(* ====================================================================================== *)
(* the scheduler interface                                                                 *)
(* ====================================================================================== *)
Definition SInv (st : sstate) : Prop :=
  match st with StL s => LK s | StE s => EInv s | _ => True end.
Lemma SInv_set_nt st v : SInv (s_set_nt st v) <-> SInv st.
Proof. destruct st; cbn; tauto. Qed.

Lemma lift_inv {S A B} (I : S -> Prop) (wrap : S -> sstate) (f : A -> B) (m : M S A) s st' o r :
  (forall x, SInv (wrap x) = I x) ->
  (forall s' o r, m s = (s', o, r) -> I s -> I s') ->
  lift wrap f (m s) = (st', o, r) -> I s -> SInv st'.
Proof.
  intros Hw Hm H Hi. unfold lift in H. destruct (m s) as [[s1 o1] r1] eqn:E. inversion H; subst.
  rewrite Hw. eapply Hm; [reflexivity|exact Hi].
Qed.
Lemma lift_wrap {S A B} (wrap : S -> sstate) (f : A -> B) (x : S * list out * result A) st' o r :
  lift wrap f x = (st', o, r) -> exists s', st' = wrap s'.
Proof. destruct x as [[s1 o1] r1]. unfold lift. intros H. inversion H. eexists. reflexivity. Qed.
Lemma lk_from {A} (m : M lstate A) s s' o r : from LF s m -> m s = (s', o, r) -> LK s -> LK s'.
Proof. intros F E. eapply lk_frame. exact (F _ _ _ E). Qed.

Theorem s_step_sinv st op st' o r : s_step st op = (st', o, r) -> SInv st -> SInv st'.
Proof.
  destruct op; cbn [s_step]; intros H Hi.
  - inversion H; subst. apply SInv_set_nt. exact Hi.
  - destruct st as [s|s|s|s]; cbn [SInv] in *;
      try (destruct (lift_wrap _ _ _ _ _ _ H) as (? & ->); exact I);
      (eapply lift_inv; [| |exact H|exact Hi]; [intros; reflexivity|intros s' o' r' E]).
    + eapply lk_add_node; exact E.
    + exact (ei_e_add_node n s _ _ _ E).
  - destruct st as [s|s|s|s]; cbn [SInv] in *;
      try (destruct (lift_wrap _ _ _ _ _ _ H) as (? & ->); exact I);
      (eapply lift_inv; [| |exact H|exact Hi]; [intros; reflexivity|intros s' o' r' E]).
    + eapply lk_add_coll; exact E.
    + exact (ei_e_add_coll n coll s _ _ _ E).
  - destruct st as [s|s|s|s]; cbn [SInv] in *;
      try (destruct (lift_wrap _ _ _ _ _ _ H) as (? & ->); exact I);
      (eapply lift_inv; [| |exact H|exact Hi]; [intros; reflexivity|intros s' o' r' E]).
    + eapply lk_from; [apply lf_l_schedule|exact E].
    + exact (ei_e_schedule s _ _ _ E).
  - destruct st as [s|s|s|s]; cbn [SInv] in *;
      try (destruct (lift_wrap _ _ _ _ _ _ H) as (? & ->); exact I);
      (eapply lift_inv; [| |exact H|exact Hi]; [intros; reflexivity|intros s' o' r' E]).
    + eapply lk_from; [apply lf_l_complete|exact E].
    + exact (ei_e_complete n idx s _ _ _ E).
  - destruct st as [s|s|s|s]; cbn [SInv] in *; try (inversion H; subst; exact Hi);
      try (destruct (lift_wrap _ _ _ _ _ _ H) as (? & ->); exact I).
    eapply lift_inv; [| |exact H|exact Hi]; [intros; reflexivity|intros s' o' r' E].
    eapply lk_from; [apply lf_l_pending|exact E].
  - destruct st as [s|s|s|s]; cbn [SInv] in *; try (inversion H; subst; exact Hi);
      try (destruct (lift_wrap _ _ _ _ _ _ H) as (? & ->); exact I).
  - destruct st as [s|s|s|s]; cbn [SInv] in *;
      try (destruct (lift_wrap _ _ _ _ _ _ H) as (? & ->); exact I);
      (eapply lift_inv; [| |exact H|exact Hi]; [intros; reflexivity|intros s' o' r' E]).
    + eapply lk_remove; exact E.
    + exact (ei_e_remove n s _ _ _ E).
  - destruct (aget n (s_nt st)); inversion H; subst; [apply SInv_set_nt|]; exact Hi.
  - destruct st as [s|s|s|s]; cbn [SInv] in *;
      try (destruct (lift_wrap _ _ _ _ _ _ H) as (? & ->); exact I);
      (eapply lift_inv; [| |exact H|exact Hi]; [intros; reflexivity|intros s' o' r' E]).
    + eapply lk_from; [apply lf_node_shutdown|exact E].
    + exact (ei_node_shutdown n s _ _ _ E).
Qed.

(* ---- work commands, per scheduler operation ---- *)
Definition is_remove (op : sop) : bool := match op with SRemove _ => true | _ => false end.
(* what the operation needs from the state it is called in *)
Definition SPre (st : sstate) (op : sop) : Prop :=
  match op with
  | SSchedule => match st with StL s => LS s | StE s => EInv s | _ => True end
  | _ => True
  end.
Notation Wrs := (Wr s_registered).
Notation Mrs := (Mr s_registered).

Lemma Mr_set_nt st v : Mrs st (s_set_nt st v) [].
Proof. split; [intros k cm []|]. intros k. rewrite s_registered_set_nt. auto. Qed.

Lemma lift_mr {S A B} (reg : S -> amap (list string)) (wrap : S -> sstate) (f : A -> B) (m : M S A) s st' o r :
  (forall x, s_registered (wrap x) = reg x) -> from (Mr reg) s m ->
  lift wrap f (m s) = (st', o, r) -> Mrs (wrap s) st' o.
Proof.
  intros Hw Hm H. unfold lift in H. destruct (m s) as [[s1 o1] r1] eqn:E. inversion H; subst.
  destruct (Hm _ _ _ E) as (A1 & A2). split.
  - intros k cm Hin Hwk. rewrite Hw. eapply A1; eassumption.
  - intros k. rewrite !Hw. apply A2.
Qed.
Lemma lift_wr {S A B} (reg : S -> amap (list string)) (wrap : S -> sstate) (f : A -> B) (m : M S A) s st' o r :
  (forall x, s_registered (wrap x) = reg x) -> from (Wr reg) s m ->
  lift wrap f (m s) = (st', o, r) -> Wrs (wrap s) st' o.
Proof.
  intros Hw Hm H. unfold lift in H. destruct (m s) as [[s1 o1] r1] eqn:E. inversion H; subst.
  intros k cm Hin Hwk. rewrite Hw. eapply (Hm _ _ _ E); eassumption.
Qed.

Ltac lifted_mr H lem := (eapply lift_mr; [| |exact H]); [intros; reflexivity|apply lem].
Ltac lifted_wr H lem := (eapply lift_wr; [| |exact H]); [intros; reflexivity|apply lem].

Theorem s_step_work st op st' o r :
  s_step st op = (st', o, r) -> SPre st op ->
  if is_remove op then Wrs st st' o else Mrs st st' o.
Proof.
  intros H Hp. destruct op; cbn [s_step is_remove] in *.
  - inversion H; subst. apply Mr_set_nt.
  - destruct st as [s|s|s|s].
    + lifted_mr H mr_l_add_node. + lifted_mr H mr_ws_add_node.
    + lifted_mr H mr_sc_add_node. + lifted_mr H mr_e_add_node.
  - destruct st as [s|s|s|s].
    + lifted_mr H mr_l_add_coll. + lifted_mr H mr_ws_add_coll.
    + lifted_mr H mr_sc_add_coll. + lifted_mr H mr_e_add_coll.
  - destruct st as [s|s|s|s]; cbn [SPre] in Hp.
    + lifted_mr H mr_l_schedule. exact Hp. + lifted_mr H mr_ws_schedule.
    + lifted_mr H mr_sc_schedule. + lifted_mr H mr_e_schedule. exact Hp.
  - destruct st as [s|s|s|s].
    + lifted_mr H mr_l_complete. + lifted_mr H mr_ws_complete.
    + lifted_mr H mr_sc_complete. + lifted_mr H mr_e_complete.
  - destruct st as [s|s|s|s]; try (inversion H; subst; apply Mr_refl).
    + lifted_mr H mr_l_pending. + lifted_mr H mr_ws_pending.
  - destruct st as [s|s|s|s]; try (inversion H; subst; apply Mr_refl).
    lifted_mr H mr_ws_unsched.
  - destruct st as [s|s|s|s].
    + lifted_wr H w_l_remove. + lifted_wr H w_ws_remove.
    + lifted_wr H w_sc_remove. + lifted_wr H w_e_remove.
  - destruct (aget n (s_nt st)); inversion H; subst; [apply Mr_set_nt|apply Mr_refl].
  - destruct st as [s|s|s|s]; (eapply lift_mr; [| |exact H]; [intros; reflexivity|]);
      apply mr_node_shutdown; intros; reflexivity.
Qed.

(* ---- load: the set of known nodes, per scheduler operation ---- *)
Theorem l_step_nodes s op st' o r :
  s_step (StL s) op = (st', o, r) ->
  exists s', st' = StL s' /\ l_numnodes s' = l_numnodes s /\
    match op with
    | SAddNode n => l_nodes s' = l_nodes s \/ (~ In n (l_nodes s) /\ l_nodes s' = l_nodes s ++ [n])
    | SRemove n => (~ In n (l_nodes s) /\ l_nodes s' = l_nodes s) \/ l_nodes s' = akeys (adel n (l_n2p s))
    | _ => l_nodes s' = l_nodes s
    end.
Proof.
  intros H.
  assert (LFT : forall A (m : M lstate A) (f : A -> option string),
             from LF s m -> lift StL f (m s) = (st', o, r) ->
             exists s', st' = StL s' /\ l_numnodes s' = l_numnodes s /\ l_nodes s' = l_nodes s).
  { intros A m f Hm HL. unfold lift in HL. destruct (m s) as [[s1 o1] r1] eqn:E. inversion HL; subst.
    destruct (Hm _ _ _ E) as (A1 & A2 & _). exists s1. split; [reflexivity|]. split; [exact A2|exact A1]. }
  destruct op; cbn [s_step] in H.
  - inversion H; subst. eexists. split; [reflexivity|]. split; reflexivity.
  - unfold lift in H. destruct (l_add_node n s) as [[s1 o1] r1] eqn:E. inversion H; subst.
    destruct (l_add_node_eff _ _ _ _ _ E) as (A1 & _ & A3). exists s1. split; [reflexivity|]. split; [exact A1|exact A3].
  - unfold lift in H. destruct (l_add_node_collection n coll s) as [[s1 o1] r1] eqn:E. inversion H; subst.
    destruct (l_add_coll_eff _ _ _ _ _ _ E) as (A1 & A2 & _). exists s1. split; [reflexivity|]. split; [exact A2|exact A1].
  - eapply LFT; [|exact H]. apply lf_l_schedule.
  - eapply LFT; [|exact H]. apply lf_l_complete.
  - eapply LFT; [|exact H]. apply lf_l_pending.
  - inversion H; subst. eexists. split; [reflexivity|]. split; reflexivity.
  - unfold lift in H. destruct (l_remove_node n s) as [[s1 o1] r1] eqn:E. inversion H; subst.
    destruct (l_remove_eff _ _ _ _ _ E) as (A1 & A2). exists s1. split; [reflexivity|]. split; [exact A1|].
    destruct A2 as [(Hn & ->)|(A2 & _)]; [left; split; [|reflexivity]|right; exact A2].
    intros X. apply g3_ahas_keys in X. unfold ahas in X. rewrite Hn in X. discriminate.
  - cbn [s_nt s_set_nt] in H. destruct (aget n (l_nt s)); inversion H; subst; eexists; (split; [reflexivity|]); split; reflexivity.
  - eapply LFT; [|exact H]. apply lf_node_shutdown.
Qed.

Print Assumptions s_step_work.
Print Assumptions s_step_sinv.
Print Assumptions l_step_nodes.
