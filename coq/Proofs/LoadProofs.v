(* Proofs about Model/SchedLoad.v (LoadScheduling): conservation of test indices
   ("tokens"), the shutting-down guard, the crash path, valid indices. *)
From XV Require Import Base Worker Ctl SchedLoad.
From Coq Require Import Permutation.
Open Scope nat_scope.

(* ---------- definitions used in the statements ---------- *)
Definition run_inds (o : out) : list nat := match o with OSend _ (CRun ixs) => ixs | _ => [] end.
Definition sent_inds (outs : list out) : list nat := flat_map run_inds outs.
Definition books (s : lstate) : list nat := flat_map snd (l_n2p s).      (* all booked indices *)
Definition tokens (s : lstate) : list nat := l_pending s ++ books s.
Definition sends_to (n : nat) (o : out) : bool := match o with OSend m _ => Nat.eqb m n | _ => false end.
Definition is_run_or_steal (o : out) : bool :=
  match o with OSend _ (CRun _) | OSend _ (CSteal _) | OSend _ CRunAll => true | _ => false end.

(* the node's channel is known and open *)
Definition chan_open (n : nat) (s : lstate) : Prop :=
  forall c, aget n (l_nt s) = Some c -> n_closed c = false.
Definition all_open (nt : ntable) : Prop :=
  forall n c, aget n nt = Some c -> n_closed c = false.

Ltac inv H := inversion H; subst; clear H.

(* ---------- (L1) Python slices ---------- *)
Lemma py_take_drop : forall A (k : Z) (l : list A), py_take k l ++ py_drop k l = l.
Proof.
  intros A k l. unfold py_take, py_drop. destruct (0 <=? k)%Z; apply firstn_skipn.
Qed.

Lemma py_take_incl : forall A (k : Z) (l : list A) x, In x (py_take k l) -> In x l.
Proof.
  intros A k l x H. rewrite <- (py_take_drop A k l). apply in_or_app. left. exact H.
Qed.

(* ---------- association lists ---------- *)
Lemma aget_split : forall V n (m : amap V) cur,
  aget n m = Some cur ->
  exists pre post, m = pre ++ (n, cur) :: post /\
                   (forall v, aset n v m = pre ++ (n, v) :: post) /\
                   adel n m = pre ++ post /\
                   ~ In n (akeys pre).
Proof.
  intros V n m. induction m as [|[k v] m IH]; intros cur H; cbn in H; [discriminate|].
  destruct (Nat.eqb n k) eqn:E.
  - apply Nat.eqb_eq in E. subst k. inv H. exists [], m. cbn. rewrite Nat.eqb_refl.
    repeat split; auto.
  - destruct (IH _ H) as (pre & post & Hm & Hs & Hd & Hn).
    exists ((k, v) :: pre), post. cbn. rewrite E. repeat split.
    + rewrite Hm at 1. reflexivity.
    + intros v0. rewrite Hs. reflexivity.
    + rewrite Hd. reflexivity.
    + intros [F|F]; [|exact (Hn F)]. subst k. rewrite Nat.eqb_refl in E. discriminate.
Qed.

Lemma akeys_app : forall V (a b : amap V), akeys (a ++ b) = akeys a ++ akeys b.
Proof. intros. unfold akeys. apply map_app. Qed.

Lemma akeys_aset_has : forall V n (m : amap V) cur v,
  aget n m = Some cur -> akeys (aset n v m) = akeys m.
Proof.
  intros V n m cur v H. destruct (aget_split _ _ _ _ H) as (pre & post & Hm & Hs & _ & _).
  rewrite Hs. rewrite Hm. rewrite !akeys_app. reflexivity.
Qed.

Lemma aget_In_keys : forall V n (m : amap V), aget n m <> None <-> In n (akeys m).
Proof.
  intros V n m. induction m as [|[k v] m IH]; cbn.
  - split; [congruence|tauto].
  - destruct (Nat.eqb n k) eqn:E.
    + apply Nat.eqb_eq in E. subst. split; [auto|congruence].
    + rewrite IH. split; [auto|]. intros [F|F]; [|exact F]. subst. rewrite Nat.eqb_refl in E. discriminate.
Qed.

Lemma aget_none_keys : forall V n (m : amap V), aget n m = None <-> ~ In n (akeys m).
Proof.
  intros V n m. rewrite <- aget_In_keys. destruct (aget n m) as [v|]; split; intros H.
  - discriminate.
  - exfalso. apply H. discriminate.
  - intros F. apply F. reflexivity.
  - reflexivity.
Qed.

Lemma akeys_aset_new : forall V n (m : amap V) v,
  aget n m = None -> akeys (aset n v m) = akeys m ++ [n].
Proof.
  intros V n m v. unfold akeys. induction m as [|[k w] m IH]; cbn; intros H; [reflexivity|].
  destruct (Nat.eqb n k); [discriminate|]. cbn. rewrite IH by exact H. reflexivity.
Qed.

Lemma flat_snd_aset_app : forall n (m : amap (list nat)) cur t,
  aget n m = Some cur ->
  Permutation (flat_map snd (aset n (cur ++ t) m)) (flat_map snd m ++ t).
Proof.
  intros n m cur t H. destruct (aget_split _ _ _ _ H) as (pre & post & Hm & Hs & _ & _).
  rewrite Hs. rewrite Hm. rewrite !flat_map_app. cbn [flat_map snd].
  rewrite <- !app_assoc. apply Permutation_app_head. apply Permutation_app_head.
  apply Permutation_app_comm.
Qed.

Lemma flat_snd_aset_perm : forall n (m : amap (list nat)) cur cur',
  aget n m = Some cur ->
  Permutation (flat_map snd (aset n cur' m) ++ cur) (flat_map snd m ++ cur').
Proof.
  intros n m cur cur' H. destruct (aget_split _ _ _ _ H) as (pre & post & Hm & Hs & _ & _).
  rewrite Hs. rewrite Hm. rewrite !flat_map_app. cbn [flat_map snd].
  rewrite <- !app_assoc. apply Permutation_app_head.
  rewrite !app_assoc. rewrite (Permutation_app_comm (cur' ++ flat_map snd post) cur).
  rewrite (Permutation_app_comm (cur ++ flat_map snd post) cur').
  rewrite !app_assoc. apply Permutation_app_tail. apply Permutation_app_comm.
Qed.

Lemma flat_snd_adel : forall n (m : amap (list nat)) cur,
  aget n m = Some cur ->
  Permutation (flat_map snd m) (cur ++ flat_map snd (adel n m)).
Proof.
  intros n m cur H. destruct (aget_split _ _ _ _ H) as (pre & post & Hm & _ & Hd & _).
  rewrite Hd. rewrite Hm at 1. rewrite !flat_map_app. cbn [flat_map snd].
  rewrite !app_assoc. apply Permutation_app_tail. apply Permutation_app_comm.
Qed.

Lemma flat_snd_adel_nil : forall n (m : amap (list nat)),
  aget n m = Some [] -> flat_map snd (adel n m) = flat_map snd m.
Proof.
  intros n m H. destruct (aget_split _ _ _ _ H) as (pre & post & Hm & _ & Hd & _).
  rewrite Hd. rewrite Hm. rewrite !flat_map_app. reflexivity.
Qed.

Lemma adel_not_key : forall V n (m : amap V), NoDup (akeys m) -> ~ In n (akeys (adel n m)).
Proof.
  intros V n m. induction m as [|[k v] m IH]; cbn; intros ND; [tauto|].
  inv ND. destruct (Nat.eqb n k) eqn:E.
  - apply Nat.eqb_eq in E. subst. exact H1.
  - cbn. intros [F|F]; [subst; rewrite Nat.eqb_refl in E; discriminate|]. exact (IH H2 F).
Qed.

Lemma adel_keys_incl : forall V n (m : amap V) x, In x (akeys (adel n m)) -> In x (akeys m).
Proof.
  intros V n m x. induction m as [|[k v] m IH]; cbn; [tauto|].
  destruct (Nat.eqb n k); cbn; [auto|]. intros [F|F]; auto.
Qed.

Lemma adel_nodup : forall V n (m : amap V), NoDup (akeys m) -> NoDup (akeys (adel n m)).
Proof.
  intros V n m. induction m as [|[k v] m IH]; cbn; intros ND; [constructor|].
  inv ND. destruct (Nat.eqb n k); [exact H2|]. cbn. constructor; [|auto].
  intros F. apply H1. eapply adel_keys_incl. exact F.
Qed.

Lemma remove_first_perm : forall x l l', remove_first x l = Some l' -> Permutation (x :: l') l.
Proof.
  intros x l. induction l as [|y l IH]; cbn; intros l' H; [discriminate|].
  destruct (Nat.eqb x y) eqn:E.
  - apply Nat.eqb_eq in E. inv H. reflexivity.
  - destruct (remove_first x l) as [r|]; [|discriminate]. inv H.
    rewrite perm_swap. apply perm_skip. apply IH. reflexivity.
Qed.

(* ---------- the monad ---------- *)
Lemma mbind_inv : forall S A B (m : M S A) (f : A -> M S B) s s' o r,
  mbind m f s = (s', o, r) ->
  (exists e, m s = (s', o, Err e) /\ r = Err e) \/
  (exists s1 o1 a o2, m s = (s1, o1, Ok a) /\ f a s1 = (s', o2, r) /\ o = o1 ++ o2).
Proof.
  intros S A B m f s s' o r H. unfold mbind in H. destruct (m s) as [[s1 o1] [a|e]].
  - destruct (f a s1) as [[s2 o2] r2] eqn:E. inv H. right. exists s1, o1, a, o2. auto.
  - inv H. left. exists e. auto.
Qed.

Section MforInv.
  Variable S : Type.
  Variable P : S -> S -> list out -> Prop.
  Hypothesis P_refl : forall s, P s s [].
  Hypothesis P_trans : forall s s1 s2 o1 o2, P s s1 o1 -> P s1 s2 o2 -> P s s2 (o1 ++ o2).

  (* a transition predicate kept by every successful iteration is kept by a successful loop *)
  Lemma mfor_ok_inv : forall A (f : A -> M S unit) l,
    (forall x s s' o, In x l -> f x s = (s', o, Ok tt) -> P s s' o) ->
    forall s s' o, mfor l f s = (s', o, Ok tt) -> P s s' o.
  Proof.
    intros A f l. induction l as [|x l IH]; intros Hf s s' o H.
    - cbn in H. unfold ret in H. inv H. apply P_refl.
    - cbn [mfor] in H. apply mbind_inv in H. destruct H as [(e & _ & F)|(s1 & o1 & a & o2 & H1 & H2 & ->)].
      + discriminate.
      + destruct a. eapply P_trans.
        * eapply Hf; [left; reflexivity|exact H1].
        * eapply IH; [|exact H2]. intros y t t' o' Hy. apply Hf. right. exact Hy.
  Qed.

  (* the same for predicates kept whatever the outcome (exceptions included) *)
  Lemma mfor_any_inv : forall A (f : A -> M S unit) l,
    (forall x s s' o r, In x l -> f x s = (s', o, r) -> P s s' o) ->
    forall s s' o r, mfor l f s = (s', o, r) -> P s s' o.
  Proof.
    intros A f l. induction l as [|x l IH]; intros Hf s s' o r H.
    - cbn in H. unfold ret in H. inv H. apply P_refl.
    - cbn [mfor] in H. apply mbind_inv in H. destruct H as [(e & H1 & F)|(s1 & o1 & a & o2 & H1 & H2 & ->)].
      + eapply Hf; [left; reflexivity|exact H1].
      + eapply P_trans.
        * eapply Hf; [left; reflexivity|exact H1].
        * eapply IH; [|exact H2]. intros y t t' o' r' Hy. apply Hf. right. exact Hy.
  Qed.
End MforInv.

Lemma sent_inds_app : forall a b, sent_inds (a ++ b) = sent_inds a ++ sent_inds b.
Proof. intros. unfold sent_inds. apply flat_map_app. Qed.

(* ---------- (L2) l_send_tests ---------- *)

(* complete case analysis: what l_send_tests does, branch by branch *)
Lemma l_send_tests_cases : forall n num s s' outs r,
  l_send_tests n num s = (s', outs, r) ->
  let tests := py_take num (l_pending s) in
  let s1 := l_set_pending s (py_drop num (l_pending s)) in
  (tests = [] /\ s' = s /\ outs = [] /\ r = Ok tt) \/
  (tests <> [] /\ aget n (l_n2p s) = None /\ s' = s1 /\ outs = [] /\ r = Err EKey) \/
  (tests <> [] /\ exists cur, aget n (l_n2p s) = Some cur /\
     s' = l_set_n2p s1 (aset n (cur ++ tests) (l_n2p s)) /\
     ((aget n (l_nt s) = None /\ outs = [] /\ r = Err EKey) \/
      (exists c, aget n (l_nt s) = Some c /\ r = Ok tt /\
                 outs = if n_closed c then [] else [OSend n (CRun tests)]))).
Proof.
  intros n num s s' outs r H tests s1.
  unfold l_send_tests, mbind, get in H. cbn beta iota in H. fold tests in H.
  destruct tests as [|t0 tr] eqn:Et.
  - unfold ret in H. inv H. left. auto.
  - right. assert (Hne : t0 :: tr <> []) by discriminate.
    unfold put, of_opt, node_send, node_flags, mbind, get, ret, raise, emit in H.
    cbn -[py_drop py_take aset aget] in H.
    destruct (aget n (l_n2p s)) as [cur|] eqn:Ec.
    + right. split; [exact Hne|]. exists cur. split; [reflexivity|].
      cbn -[py_drop py_take aset aget] in H.
      destruct (aget n (l_nt s)) as [c|] eqn:En; cbn -[py_drop py_take aset aget] in H.
      * destruct (n_closed c) eqn:Ecl; cbn -[py_drop py_take aset aget] in H; inv H;
          (split; [reflexivity|]); right; exists c; rewrite Ecl; auto.
      * inv H. split; [reflexivity|]. left. auto.
    + left. inv H. auto.
Qed.

Lemma perm_move : forall (t d b : list nat), Permutation (d ++ b ++ t) ((t ++ d) ++ b).
Proof.
  intros t d b. rewrite app_assoc. rewrite (Permutation_app_comm (d ++ b) t).
  rewrite app_assoc. reflexivity.
Qed.

(* (L2) l_send_tests moves the prefix [py_take num pending] of the pool to node n's book and
   sends exactly those indices (or nothing when the channel is closed / nothing to send) *)
Theorem l_send_tests_spec : forall n num s s' outs r,
  l_send_tests n num s = (s', outs, r) ->
  l_pending s = py_take num (l_pending s) ++ l_pending s' /\
  (r = Ok tt -> Permutation (tokens s') (tokens s)) /\
  (forall o, In o outs -> o = OSend n (CRun (py_take num (l_pending s)))) /\
  (l_nt s' = l_nt s /\ l_coll s' = l_coll s /\ l_n2c s' = l_n2c s /\
   l_numnodes s' = l_numnodes s /\ l_chunk s' = l_chunk s) /\
  akeys (l_n2p s') = akeys (l_n2p s).
Proof.
  intros n num s s' outs r H. apply l_send_tests_cases in H. cbv zeta in H.
  pose proof (py_take_drop _ num (l_pending s)) as Etd.
  destruct H as [(Et & -> & -> & ->)|[(Hne & Ec & -> & -> & ->)|(Hne & cur & Ec & -> & Hr)]].
  - rewrite Et. cbn. repeat split; auto. intros o [].
  - cbn [l_pending l_set_pending l_nt l_coll l_n2c l_numnodes l_chunk l_n2p].
    repeat split; auto; try discriminate. intros o [].
  - cbn [l_pending l_set_pending l_set_n2p l_nt l_coll l_n2c l_numnodes l_chunk l_n2p].
    repeat split; auto.
    + intros _. unfold tokens, books. cbn [l_pending l_set_pending l_set_n2p l_n2p].
      rewrite (flat_snd_aset_app _ _ _ _ Ec). clear Hr Hne.
      remember (py_take num (l_pending s)) as t. remember (py_drop num (l_pending s)) as d.
      rewrite <- Etd. apply perm_move.
    + intros o Ho. destruct Hr as [(_ & -> & _)|(c & _ & _ & ->)]; [destruct Ho|].
      destruct (n_closed c); [destruct Ho|]. destruct Ho as [<-|[]]. reflexivity.
    + eapply akeys_aset_has. exact Ec.
Qed.

(* ... and it never raises when the node is booked (in node2pending) and known (in the node table) *)
Theorem l_send_tests_no_raise : forall n num s s' outs r,
  l_send_tests n num s = (s', outs, r) ->
  aget n (l_n2p s) <> None -> aget n (l_nt s) <> None -> r = Ok tt.
Proof.
  intros n num s s' outs r H Hp Hn. apply l_send_tests_cases in H. cbv zeta in H.
  destruct H as [(_ & _ & _ & ->)|[(_ & Ec & _)|(_ & cur & _ & _ & [(En & _)|(c & _ & -> & _)])]];
    try reflexivity; contradiction.
Qed.

(* with an open channel the sent indices are exactly the moved prefix *)
Theorem l_send_tests_sent : forall n num s s' outs,
  l_send_tests n num s = (s', outs, Ok tt) -> chan_open n s ->
  sent_inds outs = py_take num (l_pending s).
Proof.
  intros n num s s' outs H Ho. apply l_send_tests_cases in H. cbv zeta in H.
  destruct H as [(Et & _ & -> & _)|[(_ & _ & _ & _ & F)|(_ & cur & _ & _ & [(_ & _ & F)|(c & En & _ & ->)])]];
    try discriminate.
  - rewrite Et. reflexivity.
  - rewrite (Ho _ En). cbn. apply app_nil_r.
Qed.

(* in general (channel possibly closed) the sent indices are the moved prefix or nothing *)
Theorem l_send_tests_sent_weak : forall n num s s' outs r,
  l_send_tests n num s = (s', outs, r) ->
  sent_inds outs = py_take num (l_pending s) \/ outs = [].
Proof.
  intros n num s s' outs r H. apply l_send_tests_cases in H. cbv zeta in H.
  destruct H as [(Et & _ & -> & _)|[(_ & _ & _ & -> & _)|(_ & cur & _ & _ & [(_ & -> & _)|(c & En & _ & ->)])]];
    auto.
  destruct (n_closed c); auto. left. cbn. apply app_nil_r.
Qed.

(* ---------- WorkerController.shutdown ---------- *)
Definition sd_mark (c : nctl) : nctl :=
  {| n_spec := n_spec c; n_down := n_down c; n_sdsent := true; n_closed := n_closed c |}.

Lemma node_shutdown_cases : forall n s s' outs r,
  node_shutdown l_nt l_set_nt n s = (s', outs, r) ->
  (aget n (l_nt s) = None /\ s' = s /\ outs = [] /\ r = Err EKey) \/
  (exists c, aget n (l_nt s) = Some c /\ shutting_down c = true /\ s' = s /\ outs = [] /\ r = Ok tt) \/
  (exists c, aget n (l_nt s) = Some c /\ shutting_down c = false /\ r = Ok tt /\
     s' = l_set_nt s (aset n (sd_mark c) (l_nt s)) /\
     outs = if n_closed c then [] else [OSend n CShutdown]).
Proof.
  intros n s s' outs r H.
  unfold node_shutdown, node_send, node_flags, mbind, get, put, of_opt, ret, raise, emit in H.
  cbn -[aset aget] in H.
  destruct (aget n (l_nt s)) as [c|] eqn:En; cbn -[aset aget] in H.
  - right. unfold shutting_down. destruct (n_down c || n_sdsent c) eqn:Esd; cbn -[aset aget] in H.
    + inv H. left. exists c. auto.
    + right. exists c. rewrite En in H. cbn -[aset aget] in H.
      destruct (n_closed c) eqn:Ecl; cbn -[aset aget] in H; inv H; unfold sd_mark; rewrite Ecl; auto.
  - inv H. left. auto.
Qed.

(* ---------- l_check_schedule, branch by branch ---------- *)
Lemma l_check_schedule_cases : forall n dur s s' outs r,
  l_check_schedule n dur s = (s', outs, r) ->
  (aget n (l_nt s) = None /\ s' = s /\ outs = [] /\ r = Err EKey) \/
  (exists c, aget n (l_nt s) = Some c /\ shutting_down c = true /\ s' = s /\ outs = [] /\ r = Ok tt) \/
  (exists c, aget n (l_nt s) = Some c /\ shutting_down c = false /\ l_pending s = [] /\
             node_shutdown l_nt l_set_nt n s = (s', outs, r)) \/
  (exists c, aget n (l_nt s) = Some c /\ shutting_down c = false /\ l_pending s <> [] /\
             s' = s /\ outs = []) \/
  (exists c num, aget n (l_nt s) = Some c /\ shutting_down c = false /\ l_pending s <> [] /\
             l_send_tests n num s = (s', outs, r)).
Proof.
  intros n dur s s' outs r H.
  unfold l_check_schedule, node_shutting_down, node_flags, mbind, get, of_opt, ret, raise in H.
  cbn beta iota zeta delta [app] in H.
  destruct (aget n (l_nt s)) as [c|] eqn:En; cbn beta iota zeta delta [app] in H.
  2:{ inv H. left. auto. }
  right. destruct (shutting_down c) eqn:Esd; cbn beta iota zeta delta [app] in H.
  { inv H. left. exists c. auto. }
  right. destruct (l_pending s) as [|p0 pr] eqn:Ep.
  { left. exists c. destruct (node_shutdown l_nt l_set_nt n s) as [[s2 o2] r2]. inv H. auto. }
  right. assert (Hne : p0 :: pr <> []) by discriminate.
  assert (Hstay : forall x, (s, @nil out, x) = (s', outs, r) ->
     (exists c0 : nctl, Some c = Some c0 /\ shutting_down c0 = false /\ p0 :: pr <> [] /\ s' = s /\ outs = []) \/
     (exists (c0 : nctl) (num : Z), Some c = Some c0 /\ shutting_down c0 = false /\
        p0 :: pr <> [] /\ l_send_tests n num s = (s', outs, r))).
  { intros x Hx. inv Hx. left. exists c. auto. }
  destruct (negb (ahas n (l_n2c s))); cbn beta iota zeta delta [app] in H; [eapply Hstay; exact H|].
  destruct (zlen (l_n2p s) =? 0)%Z; cbn beta iota zeta delta [app] in H; [eapply Hstay; exact H|].
  destruct (aget n (l_n2p s)) as [a|]; cbn beta iota zeta delta [app] in H; [|eapply Hstay; exact H].
  match type of H with context [if ?b then _ else _] => destruct b end;
    cbn beta iota zeta delta [app] in H; [|eapply Hstay; exact H].
  match type of H with context [if ?b then _ else _] => destruct b end;
    cbn beta iota zeta delta [app] in H; [eapply Hstay; exact H|].
  destruct (l_chunk s) as [chunk|]; cbn beta iota zeta delta [app] in H; [|eapply Hstay; exact H].
  match type of H with context [l_send_tests n ?z s] => destruct (l_send_tests n z s) as [[s2 o2] r2] eqn:Es end.
  inv H. right. exists c. eexists. repeat split; eauto.
Qed.

(* ---------- (L3) the shutting-down guard ---------- *)
Theorem l_check_schedule_guard : forall n dur s s' outs r,
  l_check_schedule n dur s = (s', outs, r) ->
  (exists c, aget n (l_nt s) = Some c /\ shutting_down c = true) ->
  outs = [] /\ s' = s /\ r = Ok tt.
Proof.
  intros n dur s s' outs r H (c & En & Esd). apply l_check_schedule_cases in H.
  destruct H as [(F & _)|[(c' & _ & _ & -> & -> & ->)|[(c' & En' & Esd' & _)|[(c' & En' & Esd' & _)|(c' & num & En' & Esd' & _)]]]];
    auto; congruence.
Qed.

(* whatever l_check_schedule n puts on a channel, it puts on n's channel, and only if
   n was known and not shutting down on entry *)
Theorem l_check_schedule_addressed : forall n dur s s' outs r,
  l_check_schedule n dur s = (s', outs, r) ->
  forall o, In o outs ->
    (exists cm, o = OSend n cm /\ (cm = CShutdown \/ exists ixs, cm = CRun ixs)) /\
    (exists c, aget n (l_nt s) = Some c /\ shutting_down c = false).
Proof.
  intros n dur s s' outs r H o Ho. apply l_check_schedule_cases in H.
  destruct H as [(_ & _ & -> & _)|[(c' & _ & _ & _ & -> & _)|[(c & En & Esd & Ep & H)|[(c & _ & _ & _ & _ & ->)|(c & num & En & Esd & Ep & H)]]]];
    try (destruct Ho; fail).
  - split; [|exists c; auto]. apply node_shutdown_cases in H.
    destruct H as [(_ & _ & -> & _)|[(c' & _ & _ & _ & -> & _)|(c' & _ & _ & _ & _ & ->)]]; try (destruct Ho; fail).
    destruct (n_closed c'); [destruct Ho|]. destruct Ho as [<-|[]]. exists CShutdown. auto.
  - split; [|exists c; auto]. apply l_send_tests_spec in H. destruct H as (_ & _ & Ho' & _).
    rewrite (Ho' _ Ho). eexists. split; [reflexivity|]. right. eexists. reflexivity.
Qed.

Corollary l_check_schedule_to_n : forall n dur s s' outs r,
  l_check_schedule n dur s = (s', outs, r) ->
  forall o, In o outs -> exists c, o = OSend n c.
Proof.
  intros n dur s s' outs r H o Ho.
  destruct (l_check_schedule_addressed _ _ _ _ _ _ H o Ho) as ((cm & -> & _) & _). exists cm. reflexivity.
Qed.

Corollary l_check_schedule_sends_to : forall n dur s s' outs r,
  l_check_schedule n dur s = (s', outs, r) -> forallb (sends_to n) outs = true.
Proof.
  intros n dur s s' outs r H. apply forallb_forall. intros o Ho.
  destruct (l_check_schedule_to_n _ _ _ _ _ _ H o Ho) as (c & ->). cbn. apply Nat.eqb_refl.
Qed.

Theorem l_check_schedule_shutdown_pool_empty : forall n dur s s' outs r,
  l_check_schedule n dur s = (s', outs, r) ->
  In (OSend n CShutdown) outs -> l_pending s = [].
Proof.
  intros n dur s s' outs r H Ho. apply l_check_schedule_cases in H.
  destruct H as [(_ & _ & -> & _)|[(c' & _ & _ & _ & -> & _)|[(c & En & Esd & Ep & H)|[(c & _ & _ & _ & _ & ->)|(c & num & En & Esd & Ep & H)]]]];
    try (destruct Ho; fail).
  - exact Ep.
  - apply l_send_tests_spec in H. destruct H as (_ & _ & Ho' & _). specialize (Ho' _ Ho). discriminate.
Qed.

Theorem l_check_schedule_run_not_shutting_down : forall n dur s s' outs r ixs,
  l_check_schedule n dur s = (s', outs, r) ->
  In (OSend n (CRun ixs)) outs ->
  exists c, aget n (l_nt s) = Some c /\ shutting_down c = false.
Proof.
  intros n dur s s' outs r ixs H Ho.
  exact (proj2 (l_check_schedule_addressed _ _ _ _ _ _ H _ Ho)).
Qed.

(* a CRun goes out only while the pool is non-empty, and carries a prefix of the pool *)
Theorem l_check_schedule_run_prefix : forall n dur s s' outs r ixs,
  l_check_schedule n dur s = (s', outs, r) ->
  In (OSend n (CRun ixs)) outs ->
  l_pending s <> [] /\ exists num, ixs = py_take num (l_pending s).
Proof.
  intros n dur s s' outs r ixs H Ho. apply l_check_schedule_cases in H.
  destruct H as [(_ & _ & -> & _)|[(c' & _ & _ & _ & -> & _)|[(c & En & Esd & Ep & H)|[(c & _ & _ & _ & _ & ->)|(c & num & En & Esd & Ep & H)]]]];
    try (destruct Ho; fail).
  - apply node_shutdown_cases in H.
    destruct H as [(_ & _ & -> & _)|[(c' & _ & _ & _ & -> & _)|(c' & _ & _ & _ & _ & ->)]]; try (destruct Ho; fail).
    destruct (n_closed c'); [destruct Ho|]. destruct Ho as [F|[]]. discriminate.
  - split; [exact Ep|]. apply l_send_tests_spec in H. destruct H as (_ & _ & Ho' & _).
    specialize (Ho' _ Ho). inv Ho'. exists num. reflexivity.
Qed.

(* ---------- transition predicates ---------- *)

(* fields that the scheduling steps never touch, whatever the outcome *)
Definition keeps (s s' : lstate) (outs : list out) : Prop :=
  l_coll s' = l_coll s /\ l_n2c s' = l_n2c s /\ l_numnodes s' = l_numnodes s /\
  l_chunk s' = l_chunk s /\ akeys (l_n2p s') = akeys (l_n2p s).

(* conservation of indices by a successful step: nothing is lost or duplicated, a prefix
   [moved] of the pool was booked, and whatever was sent was taken from that prefix *)
Definition conserves (s s' : lstate) (outs : list out) : Prop :=
  Permutation (tokens s') (tokens s) /\
  exists moved, l_pending s = moved ++ l_pending s' /\ incl (sent_inds outs) moved.

(* with all channels open: the sent indices are exactly the prefix taken from the pool *)
Definition exact_open (s s' : lstate) (outs : list out) : Prop :=
  all_open (l_nt s) -> all_open (l_nt s') /\ l_pending s = sent_inds outs ++ l_pending s'.

Lemma keeps_refl : forall s, keeps s s [].
Proof. intros s. unfold keeps. auto. Qed.
Lemma keeps_trans : forall s s1 s2 o1 o2, keeps s s1 o1 -> keeps s1 s2 o2 -> keeps s s2 (o1 ++ o2).
Proof. unfold keeps. intros s s1 s2 o1 o2 (A & B & C & D & E) (A' & B' & C' & D' & E'). repeat split; congruence. Qed.

Lemma conserves_refl : forall s, conserves s s [].
Proof. intros s. split; [reflexivity|]. exists []. split; [reflexivity|]. intros x []. Qed.
Lemma conserves_trans : forall s s1 s2 o1 o2,
  conserves s s1 o1 -> conserves s1 s2 o2 -> conserves s s2 (o1 ++ o2).
Proof.
  intros s s1 s2 o1 o2 (P1 & m1 & E1 & I1) (P2 & m2 & E2 & I2). split.
  - rewrite P2. exact P1.
  - exists (m1 ++ m2). split.
    + rewrite E1, E2. apply app_assoc.
    + rewrite sent_inds_app. apply incl_app; [apply incl_appl|apply incl_appr]; assumption.
Qed.

Lemma exact_open_refl : forall s, exact_open s s [].
Proof. intros s Ho. auto. Qed.
Lemma exact_open_trans : forall s s1 s2 o1 o2,
  exact_open s s1 o1 -> exact_open s1 s2 o2 -> exact_open s s2 (o1 ++ o2).
Proof.
  intros s s1 s2 o1 o2 H1 H2 Ho. destruct (H1 Ho) as (Ho1 & E1). destruct (H2 Ho1) as (Ho2 & E2).
  split; [exact Ho2|]. rewrite sent_inds_app, E1, E2. apply app_assoc.
Qed.

Lemma aget_aset : forall V k n (v : V) m,
  aget k (aset n v m) = if Nat.eqb k n then Some v else aget k m.
Proof.
  intros V k n v m. induction m as [|[k' v'] m IH]; cbn.
  - destruct (Nat.eqb k n); reflexivity.
  - destruct (Nat.eqb n k') eqn:E; cbn.
    + apply Nat.eqb_eq in E. subst k'. destruct (Nat.eqb k n); reflexivity.
    + rewrite IH. destruct (Nat.eqb k k') eqn:E'; [|reflexivity].
      apply Nat.eqb_eq in E'. subst k'. rewrite Nat.eqb_sym, E. reflexivity.
Qed.

(* ---------- node_shutdown touches only the node table ---------- *)
Lemma node_shutdown_effect : forall n s s' outs r,
  node_shutdown l_nt l_set_nt n s = (s', outs, r) ->
  l_pending s' = l_pending s /\ l_n2p s' = l_n2p s /\ keeps s s' outs /\ sent_inds outs = [] /\
  (forall o, In o outs -> o = OSend n CShutdown) /\
  (all_open (l_nt s) -> all_open (l_nt s')).
Proof.
  intros n s s' outs r H. apply node_shutdown_cases in H.
  destruct H as [(_ & -> & -> & _)|[(c & _ & _ & -> & -> & _)|(c & En & _ & _ & -> & ->)]];
    unfold keeps; cbn [l_pending l_n2p l_coll l_n2c l_numnodes l_chunk l_set_nt l_nt];
    try (repeat split; auto; intros o []).
  repeat split; auto.
  - destruct (n_closed c); reflexivity.
  - intros o Ho. destruct (n_closed c); [destruct Ho|]. destruct Ho as [<-|[]]. reflexivity.
  - intros Ho k ck. rewrite aget_aset. destruct (Nat.eqb k n); [|apply Ho].
    intros E. inv E. cbn. exact (Ho _ _ En).
Qed.

(* ---------- (L4) conservation for l_check_schedule ---------- *)
Lemma tokens_eq : forall s s', l_pending s' = l_pending s -> l_n2p s' = l_n2p s -> tokens s' = tokens s.
Proof. intros s s' A B. unfold tokens, books. rewrite A, B. reflexivity. Qed.

Lemma l_send_tests_keeps : forall n num s s' outs r,
  l_send_tests n num s = (s', outs, r) -> keeps s s' outs /\ l_nt s' = l_nt s.
Proof.
  intros n num s s' outs r H. apply l_send_tests_spec in H.
  destruct H as (_ & _ & _ & (A & B & C & D & E) & F). unfold keeps. auto 10.
Qed.

Lemma l_send_tests_conserves : forall n num s s' outs,
  l_send_tests n num s = (s', outs, Ok tt) -> conserves s s' outs.
Proof.
  intros n num s s' outs H. pose proof (l_send_tests_sent_weak _ _ _ _ _ _ H) as Hs.
  apply l_send_tests_spec in H. destruct H as (Ep & Pm & _). split; [auto|].
  exists (py_take num (l_pending s)). split; [exact Ep|].
  destruct Hs as [->| ->]; [apply incl_refl|intros x []].
Qed.

Lemma l_send_tests_exact_open : forall n num s s' outs,
  l_send_tests n num s = (s', outs, Ok tt) -> exact_open s s' outs.
Proof.
  intros n num s s' outs H Ho. assert (Hc : chan_open n s) by (intros c; apply Ho).
  rewrite (l_send_tests_sent _ _ _ _ _ H Hc).
  apply l_send_tests_spec in H. destruct H as (Ep & _ & _ & (-> & _) & _). auto.
Qed.

Lemma l_check_schedule_keeps : forall n dur s s' outs r,
  l_check_schedule n dur s = (s', outs, r) -> keeps s s' outs.
Proof.
  intros n dur s s' outs r H. apply l_check_schedule_cases in H.
  destruct H as [(_ & -> & _)|[(c' & _ & _ & -> & _)|[(c & En & Esd & Ep & H)|[(c & _ & _ & _ & -> & _)|(c & num & En & Esd & Ep & H)]]]];
    try (unfold keeps; auto; fail).
  - apply node_shutdown_effect in H. tauto.
  - apply l_send_tests_keeps in H. tauto.
Qed.

Lemma l_check_schedule_all_open : forall n dur s s' outs r,
  l_check_schedule n dur s = (s', outs, r) -> all_open (l_nt s) -> all_open (l_nt s').
Proof.
  intros n dur s s' outs r H. apply l_check_schedule_cases in H.
  destruct H as [(_ & -> & _)|[(c' & _ & _ & -> & _)|[(c & En & Esd & Ep & H)|[(c & _ & _ & _ & -> & _)|(c & num & En & Esd & Ep & H)]]]];
    auto.
  - apply node_shutdown_effect in H. tauto.
  - apply l_send_tests_keeps in H. destruct H as (_ & ->). auto.
Qed.

Theorem l_check_schedule_conserves : forall n dur s s' outs,
  l_check_schedule n dur s = (s', outs, Ok tt) -> conserves s s' outs.
Proof.
  intros n dur s s' outs H. apply l_check_schedule_cases in H.
  destruct H as [(_ & _ & _ & F)|[(c' & _ & _ & -> & -> & _)|[(c & En & Esd & Ep & H)|[(c & _ & _ & _ & -> & ->)|(c & num & En & Esd & Ep & H)]]]];
    try discriminate; try apply conserves_refl.
  - apply node_shutdown_effect in H. destruct H as (A & B & _ & C & _). split.
    + rewrite (tokens_eq _ _ A B). reflexivity.
    + exists []. rewrite A, C. split; [reflexivity|apply incl_refl].
  - apply l_send_tests_conserves in H. exact H.
Qed.

(* (L4) as asked, in the form that is true of the model: a prefix [moved] leaves the pool, and
   the indices put on the wire are that prefix -- or nothing at all when the channel is closed
   (sendcommand swallows the OSError; the items stay booked on the dead node until its
   errordown event makes DSession call remove_node). *)
Theorem l_check_schedule_L4 : forall n dur s s' outs,
  l_check_schedule n dur s = (s', outs, Ok tt) ->
  Permutation (tokens s') (tokens s) /\
  exists moved, l_pending s = moved ++ l_pending s' /\
                (sent_inds outs = moved \/ sent_inds outs = []).
Proof.
  intros n dur s s' outs H. split; [exact (proj1 (l_check_schedule_conserves _ _ _ _ _ H))|].
  apply l_check_schedule_cases in H.
  destruct H as [(_ & _ & _ & F)|[(c' & _ & _ & -> & -> & _)|[(c & En & Esd & Ep & H)|[(c & _ & _ & _ & -> & ->)|(c & num & En & Esd & Ep & H)]]]];
    try discriminate; try (exists []; auto; fail).
  - apply node_shutdown_effect in H. destruct H as (A & _ & _ & C & _).
    exists []. rewrite A, C. auto.
  - exists (py_take num (l_pending s)). pose proof (l_send_tests_sent_weak _ _ _ _ _ _ H) as Hs.
    apply l_send_tests_spec in H. destruct H as (Ep' & _). split; [exact Ep'|].
    destruct Hs as [->| ->]; auto.
Qed.

(* (L4) exactly as asked holds when n's channel is open *)
Theorem l_check_schedule_L4_open : forall n dur s s' outs,
  l_check_schedule n dur s = (s', outs, Ok tt) -> chan_open n s ->
  Permutation (tokens s') (tokens s) /\ l_pending s = sent_inds outs ++ l_pending s'.
Proof.
  intros n dur s s' outs H Hc. split; [exact (proj1 (l_check_schedule_conserves _ _ _ _ _ H))|].
  apply l_check_schedule_cases in H.
  destruct H as [(_ & _ & _ & F)|[(c' & _ & _ & -> & -> & _)|[(c & En & Esd & Ep & H)|[(c & _ & _ & _ & -> & ->)|(c & num & En & Esd & Ep & H)]]]];
    try discriminate; try reflexivity.
  - apply node_shutdown_effect in H. destruct H as (A & _ & _ & C & _). rewrite A, C. reflexivity.
  - rewrite (l_send_tests_sent _ _ _ _ _ H Hc). apply l_send_tests_spec in H. tauto.
Qed.

Lemma l_check_schedule_exact_open : forall n dur s s' outs,
  l_check_schedule n dur s = (s', outs, Ok tt) -> exact_open s s' outs.
Proof.
  intros n dur s s' outs H Ho. split; [eapply l_check_schedule_all_open; eauto|].
  apply (l_check_schedule_L4_open _ _ _ _ _ H). intros c. apply Ho.
Qed.

(* The statement (L4) literally as first written,
     r = Ok tt -> l_pending s = sent_inds outs ++ l_pending s',
   is FALSE of the model when n's channel is closed: WorkerController.sendcommand swallows the
   OSError, so the indices leave the pool, are booked on n, and nothing is put on the wire. *)
Definition cex_state : lstate :=
  {| l_nt := [(0, {| n_spec := 0; n_down := false; n_sdsent := false; n_closed := true |})];
     l_numnodes := 1;
     l_n2c := [(0, ["a"; "b"; "c"]%string)];
     l_n2p := [(0, [])];
     l_pending := [0; 1; 2];
     l_coll := Some ["a"; "b"; "c"]%string;
     l_chunk := Some 1%Z |}.

Example L4_literal_is_false_on_closed_channel :
  exists s' outs, l_check_schedule 0 0%Z cex_state = (s', outs, Ok tt) /\
                  l_pending cex_state <> sent_inds outs ++ l_pending s' /\
                  outs = [] /\ l_pending s' = [2] /\ l_n2p s' = [(0, [0; 1])].
Proof.
  eexists. eexists. split; [vm_compute; reflexivity|]. cbn. repeat split. discriminate.
Qed.

(* ---------- (L5) l_mark_test_complete ---------- *)
Lemma l_mark_test_complete_cases : forall n idx dur s s' outs r,
  l_mark_test_complete n idx dur s = (s', outs, r) ->
  (aget n (l_n2p s) = None /\ s' = s /\ outs = [] /\ r = Err EKey) \/
  (exists cur, aget n (l_n2p s) = Some cur /\ remove_first idx cur = None /\
               s' = s /\ outs = [] /\ r = Err EValue) \/
  (exists cur cur', aget n (l_n2p s) = Some cur /\ remove_first idx cur = Some cur' /\
     l_check_schedule n dur (l_set_n2p s (aset n cur' (l_n2p s))) = (s', outs, r)).
Proof.
  intros n idx dur s s' outs r H.
  unfold l_mark_test_complete, mbind, get, put, of_opt, ret, raise in H.
  cbn beta iota zeta delta [app] in H.
  destruct (aget n (l_n2p s)) as [cur|]; cbn beta iota zeta delta [app] in H.
  2:{ inv H. left. auto. }
  right. destruct (remove_first idx cur) as [cur'|] eqn:Er; cbn beta iota zeta delta [app] in H.
  2:{ inv H. left. exists cur. auto. }
  right. exists cur, cur'.
  destruct (l_check_schedule n dur (l_set_n2p s (aset n cur' (l_n2p s)))) as [[s2 o2] r2].
  inv H. auto.
Qed.

Lemma flat_snd_aset_remove : forall n (m : amap (list nat)) cur cur' x,
  aget n m = Some cur -> Permutation (x :: cur') cur ->
  Permutation (x :: flat_map snd (aset n cur' m)) (flat_map snd m).
Proof.
  intros n m cur cur' x H Hp. destruct (aget_split _ _ _ _ H) as (pre & post & Hm & Hs & _ & _).
  rewrite Hs. rewrite Hm. rewrite !flat_map_app. cbn [flat_map snd].
  rewrite <- Hp. cbn [app]. apply Permutation_middle.
Qed.

Lemma l_mark_test_complete_book : forall n idx s cur cur',
  aget n (l_n2p s) = Some cur -> remove_first idx cur = Some cur' ->
  Permutation (idx :: tokens (l_set_n2p s (aset n cur' (l_n2p s)))) (tokens s).
Proof.
  intros n idx s cur cur' Ec Er. unfold tokens, books. cbn [l_pending l_n2p l_set_n2p].
  rewrite Permutation_middle. apply Permutation_app_head.
  eapply flat_snd_aset_remove; [exact Ec|]. apply remove_first_perm. exact Er.
Qed.

(* the completed index leaves the books; the refill (if any) takes a prefix of the pool *)
Theorem l_mark_test_complete_L5 : forall n idx dur s s' outs,
  l_mark_test_complete n idx dur s = (s', outs, Ok tt) ->
  Permutation (idx :: tokens s') (tokens s) /\
  exists moved, l_pending s = moved ++ l_pending s' /\
                (sent_inds outs = moved \/ sent_inds outs = []).
Proof.
  intros n idx dur s s' outs H. apply l_mark_test_complete_cases in H.
  destruct H as [(_ & _ & _ & F)|[(cur & _ & _ & _ & _ & F)|(cur & cur' & Ec & Er & H)]]; try discriminate.
  apply l_check_schedule_L4 in H. destruct H as (Pm & moved & Ep & Hs). split.
  - rewrite Pm. eapply l_mark_test_complete_book; eauto.
  - exists moved. auto.
Qed.

(* (L5) exactly as asked, for an open channel *)
Theorem l_mark_test_complete_L5_open : forall n idx dur s s' outs,
  l_mark_test_complete n idx dur s = (s', outs, Ok tt) -> chan_open n s ->
  Permutation (idx :: tokens s') (tokens s) /\ l_pending s = sent_inds outs ++ l_pending s'.
Proof.
  intros n idx dur s s' outs H Hc. apply l_mark_test_complete_cases in H.
  destruct H as [(_ & _ & _ & F)|[(cur & _ & _ & _ & _ & F)|(cur & cur' & Ec & Er & H)]]; try discriminate.
  apply l_check_schedule_L4_open in H; [|exact Hc]. destruct H as (Pm & Ep). split.
  - rewrite Pm. eapply l_mark_test_complete_book; eauto.
  - exact Ep.
Qed.

(* it raises exactly when the node has no book or the index is not booked on it
   (or l_check_schedule raises) *)
Theorem l_mark_test_complete_keeps : forall n idx dur s s' outs r,
  l_mark_test_complete n idx dur s = (s', outs, r) -> keeps s s' outs.
Proof.
  intros n idx dur s s' outs r H. apply l_mark_test_complete_cases in H.
  destruct H as [(_ & -> & _)|[(cur & _ & _ & -> & _)|(cur & cur' & Ec & Er & H)]];
    try (unfold keeps; auto; fail).
  apply l_check_schedule_keeps in H. destruct H as (A & B & C & D & E).
  cbn [l_coll l_n2c l_numnodes l_chunk l_n2p l_set_n2p] in *. unfold keeps. repeat split; auto.
  rewrite E. eapply akeys_aset_has. exact Ec.
Qed.

(* ---------- the rescheduling loop  for node in self.nodes: self.check_schedule(node) ---------- *)
Lemma mfor_check_keeps : forall l dur s s' outs r,
  mfor l (fun m => l_check_schedule m dur) s = (s', outs, r) -> keeps s s' outs.
Proof.
  intros l dur. apply mfor_any_inv; [apply keeps_refl|apply keeps_trans|].
  intros x s s' o r _ H. eapply l_check_schedule_keeps. exact H.
Qed.

Lemma mfor_check_conserves : forall l dur s s' outs,
  mfor l (fun m => l_check_schedule m dur) s = (s', outs, Ok tt) -> conserves s s' outs.
Proof.
  intros l dur. apply mfor_ok_inv; [apply conserves_refl|apply conserves_trans|].
  intros x s s' o _ H. eapply l_check_schedule_conserves. exact H.
Qed.

Lemma mfor_check_exact_open : forall l dur s s' outs,
  mfor l (fun m => l_check_schedule m dur) s = (s', outs, Ok tt) -> exact_open s s' outs.
Proof.
  intros l dur. apply mfor_ok_inv; [apply exact_open_refl|apply exact_open_trans|].
  intros x s s' o _ H. eapply l_check_schedule_exact_open. exact H.
Qed.

(* every command the loop over [l] sends goes to a member of [l] that was not shutting down
   when the loop started (the flag is only ever set, never cleared, by these steps) *)
Lemma mfor_check_addressed : forall l dur s s' outs r,
  mfor l (fun m => l_check_schedule m dur) s = (s', outs, r) ->
  forall o, In o outs -> exists m cm, In m l /\ o = OSend m cm.
Proof.
  intros l dur. induction l as [|x l IH]; intros s s' outs r H o Ho.
  - cbn in H. unfold ret in H. inv H. destruct Ho.
  - cbn [mfor] in H. apply mbind_inv in H.
    destruct H as [(e & H1 & _)|(s1 & o1 & a & o2 & H1 & H2 & ->)].
    + destruct (l_check_schedule_to_n _ _ _ _ _ _ H1 o Ho) as (cm & ->). exists x, cm. split; [left|]; auto.
    + apply in_app_or in Ho. destruct Ho as [Ho|Ho].
      * destruct (l_check_schedule_to_n _ _ _ _ _ _ H1 o Ho) as (cm & ->). exists x, cm. split; [left|]; auto.
      * destruct (IH _ _ _ _ H2 o Ho) as (m & cm & Hm & ->). exists m, cm. split; [right|]; auto.
Qed.

(* ---------- (L6) l_remove_node: the crash path ---------- *)
Definition rm_state (n : nat) (s : lstate) : lstate :=
  let s1 := l_set_n2p s (adel n (l_n2p s)) in
  if l_collection_is_completed s1 then s1 else l_set_n2c s1 (adel n (l_n2c s1)).

Lemma rm_state_fields : forall n s,
  l_n2p (rm_state n s) = adel n (l_n2p s) /\ l_pending (rm_state n s) = l_pending s /\
  l_coll (rm_state n s) = l_coll s /\ l_nt (rm_state n s) = l_nt s /\
  l_chunk (rm_state n s) = l_chunk s /\ l_numnodes (rm_state n s) = l_numnodes s.
Proof.
  intros n s. unfold rm_state. cbv zeta.
  destruct (l_collection_is_completed (l_set_n2p s (adel n (l_n2p s)))); cbn; auto 10.
Qed.

Lemma l_remove_node_cases : forall n s s' outs r,
  l_remove_node n s = (s', outs, r) ->
  (aget n (l_n2p s) = None /\ s' = s /\ outs = [] /\ r = Err EKey) \/
  (aget n (l_n2p s) = Some [] /\ s' = rm_state n s /\ outs = [] /\ r = Ok None) \/
  (exists i rest, aget n (l_n2p s) = Some (i :: rest) /\
     ((l_coll s = None /\ s' = rm_state n s /\ outs = [] /\ r = Err EAssert) \/
      (exists coll, l_coll s = Some coll /\ nth_error coll i = None /\
                    s' = rm_state n s /\ outs = [] /\ r = Err EIndex) \/
      (exists coll item r0, l_coll s = Some coll /\ nth_error coll i = Some item /\
         mfor (akeys (adel n (l_n2p s))) (fun m => l_check_schedule m 0%Z)
              (l_set_pending (rm_state n s) (l_pending s ++ rest)) = (s', outs, r0) /\
         r = match r0 with Ok _ => Ok (Some item) | Err e => Err e end))).
Proof.
  intros n s s' outs r H.
  destruct (rm_state_fields n s) as (Fp & Fq & Fc & _).
  unfold l_remove_node, mbind, get, put, of_opt, ret, raise in H.
  cbn beta iota zeta delta [app] in H.
  destruct (aget n (l_n2p s)) as [pend|]; cbn beta iota zeta delta [app] in H.
  2:{ inv H. left. auto. }
  right.
  pose proof (eq_refl : rm_state n s = rm_state n s) as Erm. unfold rm_state at 2 in Erm. cbv zeta in Erm.
  destruct (l_collection_is_completed (l_set_n2p s (adel n (l_n2p s))));
    cbn beta iota zeta delta [app] in H; rewrite <- Erm in H; clear Erm.
  all: destruct pend as [|i rest]; cbn beta iota zeta delta [app] in H; [inv H; left; auto|].
  all: right; exists i, rest; split; [reflexivity|]; rewrite ?Fc, ?Fq, ?Fp in H.
  all: destruct (l_coll s) as [coll|]; cbn beta iota zeta delta [app] in H; [|inv H; left; auto].
  all: right; destruct (nth_error coll i) as [item|] eqn:Enth; cbn beta iota zeta delta [app] in H;
    [|inv H; left; exists coll; auto 10].
  all: right; exists coll, item; cbn [l_n2p l_set_pending] in H; rewrite ?Fp, ?Fq in H.
  all: destruct (mfor (akeys (adel n (l_n2p s))) (fun m => l_check_schedule m 0%Z)
              (l_set_pending (rm_state n s) (l_pending s ++ rest))) as [[s2 o2] r2].
  all: exists r2; destruct r2 as [[]|e]; cbn beta iota zeta delta [app] in H; inv H;
    rewrite ?app_nil_r; auto.
Qed.

(* the HEAD of the dead node's book is the crash item; it alone disappears, the rest of the
   book goes back to the END of the pool, and the node loses its book *)
Theorem l_remove_node_L6 : forall n s s' outs v i rest coll item,
  l_remove_node n s = (s', outs, Ok v) ->
  aget n (l_n2p s) = Some (i :: rest) -> l_coll s = Some coll -> nth_error coll i = Some item ->
  v = Some item /\
  akeys (l_n2p s') = akeys (adel n (l_n2p s)) /\
  (NoDup (akeys (l_n2p s)) -> ~ In n (akeys (l_n2p s'))) /\
  Permutation (i :: tokens s') (tokens s) /\
  l_coll s' = Some coll.
Proof.
  intros n s s' outs v i rest coll item H Ep Ec En. apply l_remove_node_cases in H.
  destruct (rm_state_fields n s) as (Fp & Fq & Fc & _).
  destruct H as [(F & _)|[(F & _)|(i' & rest' & Ep' & H)]]; try congruence.
  rewrite Ep in Ep'. inv Ep'.
  destruct H as [(F & _)|[(c' & Ec' & F & _)|(c' & item' & r0 & Ec' & En' & H & Hr)]]; try congruence.
  rewrite Ec in Ec'. inv Ec'. rewrite En in En'. inv En'.
  destruct r0 as [[]|e]; [|discriminate]. inv Hr.
  pose proof (mfor_check_keeps _ _ _ _ _ _ H) as (Kc & _ & _ & _ & Kk).
  pose proof (mfor_check_conserves _ _ _ _ _ H) as (Pm & _).
  cbn [l_coll l_n2p l_set_pending] in Kc, Kk. rewrite Fc in Kc. rewrite Fp in Kk.
  split; [reflexivity|]. split; [exact Kk|]. split; [|split].
  - intros ND. rewrite Kk. apply adel_not_key. exact ND.
  - rewrite Pm. unfold tokens, books. cbn [l_pending l_n2p l_set_pending]. rewrite Fp.
    rewrite (flat_snd_adel _ _ _ Ep). rewrite <- !app_assoc. cbn [app].
    apply Permutation_middle.
  - congruence.
Qed.

(* with every channel open, what the crash path sends is exactly what left the pool
   (the pool being the old pool followed by the rest of the dead node's book) *)
Theorem l_remove_node_L6_sent : forall n s s' outs v i rest,
  l_remove_node n s = (s', outs, Ok v) ->
  aget n (l_n2p s) = Some (i :: rest) -> all_open (l_nt s) ->
  l_pending s ++ rest = sent_inds outs ++ l_pending s' /\
  (forall o, In o outs -> exists m cm, In m (akeys (adel n (l_n2p s))) /\ o = OSend m cm).
Proof.
  intros n s s' outs v i rest H Ep Ho. apply l_remove_node_cases in H.
  destruct (rm_state_fields n s) as (_ & _ & _ & Fn & _).
  destruct H as [(F & _)|[(F & _)|(i' & rest' & Ep' & H)]]; try congruence.
  rewrite Ep in Ep'. inv Ep'.
  destruct H as [(_ & _ & _ & F)|[(c' & _ & _ & _ & _ & F)|(c' & item' & r0 & Ec' & En' & H & Hr)]];
    try discriminate.
  destruct r0 as [[]|e]; [|discriminate]. split.
  - apply mfor_check_exact_open in H. apply H. cbn [l_nt l_set_pending]. rewrite Fn. exact Ho.
  - eapply mfor_check_addressed. exact H.
Qed.

(* a node with an empty book: nothing crashed, nothing moves *)
Theorem l_remove_node_L6_empty : forall n s s' outs r,
  l_remove_node n s = (s', outs, r) -> aget n (l_n2p s) = Some [] ->
  r = Ok None /\ outs = [] /\ tokens s' = tokens s /\ l_pending s' = l_pending s /\
  l_n2p s' = adel n (l_n2p s).
Proof.
  intros n s s' outs r H Ep. apply l_remove_node_cases in H.
  destruct (rm_state_fields n s) as (Fp & Fq & _).
  destruct H as [(F & _)|[(_ & -> & -> & ->)|(i' & rest' & Ep' & _)]]; try congruence.
  repeat split; auto. unfold tokens, books. rewrite Fp, Fq. rewrite (flat_snd_adel_nil _ _ Ep). reflexivity.
Qed.

(* an unknown node: KeyError and nothing happens *)
Theorem l_remove_node_unknown : forall n s s' outs r,
  l_remove_node n s = (s', outs, r) -> aget n (l_n2p s) = None ->
  r = Err EKey /\ outs = [] /\ s' = s.
Proof.
  intros n s s' outs r H Ep. apply l_remove_node_cases in H.
  destruct H as [(_ & -> & -> & ->)|[(F & _)|(i' & rest' & F & _)]]; try congruence. auto.
Qed.

(* ---------- (L7) l_mark_test_pending ---------- *)

(* the index is put at the FRONT of the pool, and only then does the rescheduling loop run *)
Theorem l_mark_test_pending_L7_front : forall item s coll idx,
  l_coll s = Some coll -> index_of_str item coll = Some idx ->
  l_mark_test_pending item s =
  mfor (akeys (l_n2p s)) (fun n => l_check_schedule n 0%Z) (l_set_pending s (idx :: l_pending s)) /\
  l_pending (l_set_pending s (idx :: l_pending s)) = idx :: l_pending s.
Proof.
  intros item s coll idx Ec Ei. split; [|reflexivity].
  unfold l_mark_test_pending, mbind, get, put, of_opt, ret. rewrite Ec. cbn beta iota zeta. rewrite Ei.
  cbn beta iota zeta delta [app]. cbn [l_n2p l_set_pending].
  destruct (mfor (akeys (l_n2p s)) (fun n => l_check_schedule n 0%Z) (l_set_pending s (idx :: l_pending s)))
    as [[s2 o2] r2]. reflexivity.
Qed.

Theorem l_mark_test_pending_L7 : forall item s s' outs coll idx,
  l_mark_test_pending item s = (s', outs, Ok tt) ->
  l_coll s = Some coll -> index_of_str item coll = Some idx ->
  Permutation (tokens s') (idx :: tokens s) /\
  (exists moved, idx :: l_pending s = moved ++ l_pending s' /\ incl (sent_inds outs) moved) /\
  (all_open (l_nt s) -> idx :: l_pending s = sent_inds outs ++ l_pending s') /\
  keeps s s' outs.
Proof.
  intros item s s' outs coll idx H Ec Ei.
  rewrite (proj1 (l_mark_test_pending_L7_front _ _ _ _ Ec Ei)) in H.
  pose proof (mfor_check_conserves _ _ _ _ _ H) as (Pm & Mv).
  pose proof (mfor_check_exact_open _ _ _ _ _ H) as Hx.
  pose proof (mfor_check_keeps _ _ _ _ _ _ H) as Hk.
  split; [|split; [|split]].
  - rewrite Pm. reflexivity.
  - exact Mv.
  - intros Ho. apply Hx. exact Ho.
  - exact Hk.
Qed.

(* index_of_str returns a valid index, so the re-queued index is in range *)
Lemma index_of_str_lt : forall x l i, index_of_str x l = Some i -> i < length l.
Proof.
  intros x l. induction l as [|y l IH]; cbn; intros i H; [discriminate|].
  destruct (String.eqb x y); [inv H; lia|].
  destruct (index_of_str x l) as [j|]; [|discriminate]. inv H. specialize (IH _ eq_refl). lia.
Qed.

(* ---------- (L8) valid indices; the initial distribution in l_schedule ---------- *)
Definition valid (s : lstate) : Prop :=
  forall coll, l_coll s = Some coll -> forall i, In i (tokens s) -> i < length coll.

Definition step_ok (s s' : lstate) (o : list out) : Prop :=
  conserves s s' o /\ keeps s s' o /\ exact_open s s' o.

Lemma step_ok_refl : forall s, step_ok s s [].
Proof. intros s. split; [apply conserves_refl|split; [apply keeps_refl|apply exact_open_refl]]. Qed.
Lemma step_ok_trans : forall s s1 s2 o1 o2, step_ok s s1 o1 -> step_ok s1 s2 o2 -> step_ok s s2 (o1 ++ o2).
Proof.
  intros s s1 s2 o1 o2 (A & B & C) (A' & B' & C').
  split; [eapply conserves_trans; eauto|split; [eapply keeps_trans; eauto|eapply exact_open_trans; eauto]].
Qed.

Lemma l_send_tests_step_ok : forall n num s s' outs,
  l_send_tests n num s = (s', outs, Ok tt) -> step_ok s s' outs.
Proof.
  intros n num s s' outs H. split; [|split].
  - eapply l_send_tests_conserves; eauto.
  - eapply l_send_tests_keeps; eauto.
  - eapply l_send_tests_exact_open; eauto.
Qed.

Lemma l_check_schedule_step_ok : forall n dur s s' outs,
  l_check_schedule n dur s = (s', outs, Ok tt) -> step_ok s s' outs.
Proof.
  intros n dur s s' outs H. split; [|split].
  - eapply l_check_schedule_conserves; eauto.
  - eapply l_check_schedule_keeps; eauto.
  - eapply l_check_schedule_exact_open; eauto.
Qed.

(* validity is kept by every conserving step *)
Lemma valid_step : forall s s' o, keeps s s' o -> Permutation (tokens s') (tokens s) -> valid s -> valid s'.
Proof.
  intros s s' o (Kc & _) Pm V coll Ec i Hi. rewrite Kc in Ec. apply (V coll Ec).
  eapply Permutation_in; eauto.
Qed.

Theorem l_check_schedule_valid : forall n dur s s' outs,
  l_check_schedule n dur s = (s', outs, Ok tt) -> valid s -> valid s'.
Proof.
  intros n dur s s' outs H. apply l_check_schedule_step_ok in H. destruct H as ((Pm & _) & K & _).
  eapply valid_step; eauto.
Qed.

Theorem l_mark_test_complete_valid : forall n idx dur s s' outs,
  l_mark_test_complete n idx dur s = (s', outs, Ok tt) -> valid s -> valid s'.
Proof.
  intros n idx dur s s' outs H V coll Ec i Hi.
  pose proof (l_mark_test_complete_keeps _ _ _ _ _ _ _ H) as (Kc & _).
  apply l_mark_test_complete_L5 in H. destruct H as (Pm & _).
  rewrite Kc in Ec. apply (V coll Ec). eapply Permutation_in; [exact Pm|]. right. exact Hi.
Qed.

Theorem l_mark_test_pending_valid : forall item s s' outs,
  l_mark_test_pending item s = (s', outs, Ok tt) -> valid s -> valid s'.
Proof.
  intros item s s' outs H V.
  destruct (l_coll s) as [coll|] eqn:Ec.
  2:{ unfold l_mark_test_pending, mbind, get, of_opt, raise in H. rewrite Ec in H. cbn in H. discriminate. }
  destruct (index_of_str item coll) as [idx|] eqn:Ei.
  2:{ unfold l_mark_test_pending, mbind, get, of_opt, ret, raise in H. rewrite Ec in H. cbn beta iota in H.
      rewrite Ei in H. cbn in H. discriminate. }
  destruct (l_mark_test_pending_L7 _ _ _ _ _ _ H Ec Ei) as (Pm & _ & _ & (Kc & _)).
  intros coll' Ec' i Hi. rewrite Kc, Ec in Ec'. inv Ec'.
  apply (Permutation_in _ Pm) in Hi. destruct Hi as [<-|Hi].
  - eapply index_of_str_lt; eauto.
  - eapply V; eauto.
Qed.

Lemma mfor_colldiff_effect : forall first col others (s s' : lstate) o r,
  mfor others (fun p : nat * list string =>
                 if coll_eqb col (snd p) then ret tt else emit (OCollDiff first (fst p))) s = (s', o, r) ->
  s' = s /\ sent_inds o = [].
Proof.
  intros first col others.
  apply (mfor_any_inv lstate (fun s s' o => s' = s /\ sent_inds o = [])).
  - auto.
  - intros t t1 t2 p1 p2 (-> & E1) (-> & E2). rewrite sent_inds_app, E1, E2. auto.
  - intros x t t' o r' _ Hx. destruct (coll_eqb col (snd x)); unfold ret, emit in Hx; inv Hx; auto.
Qed.

Lemma l_same_collection_effect : forall s s' outs r,
  l_same_collection s = (s', outs, r) -> s' = s /\ sent_inds outs = [].
Proof.
  intros s s' outs r H. unfold l_same_collection in H.
  apply mbind_inv in H. destruct H as [(e & H & _)|(t1 & p1 & a & p2 & Hg & H & ->)].
  { unfold get in H. inv H. }
  unfold get in Hg. injection Hg as <- <- <-. cbn [app].
  destruct (l_n2c s) as [|[first col] others].
  { unfold raise in H. inv H. auto. }
  rename H into E.
  apply mbind_inv in E. destruct E as [(e & H & _)|(t3 & p3 & a & p4 & H1 & H & ->)].
  - apply mfor_colldiff_effect in H. exact H.
  - apply mfor_colldiff_effect in H1. destruct H1 as (-> & E). unfold ret in H. inv H.
    rewrite sent_inds_app, E. auto.
Qed.

Lemma l_round_robin_step_ok : forall fuel all cur s s' outs,
  l_round_robin fuel all cur s = (s', outs, Ok tt) -> step_ok s s' outs.
Proof.
  intros fuel all. induction fuel as [|f IH]; intros cur s s' outs H.
  - cbn in H. unfold ret in H. inv H. apply step_ok_refl.
  - cbn [l_round_robin] in H. destruct cur as [|n r].
    + destruct all as [|n r]; [unfold raise in H; inv H|].
      apply mbind_inv in H. destruct H as [(e & _ & F)|(s1 & o1 & [] & o2 & H1 & H2 & ->)]; [discriminate|].
      eapply step_ok_trans; [eapply l_send_tests_step_ok; eauto|eapply IH; eauto].
    + apply mbind_inv in H. destruct H as [(e & _ & F)|(s1 & o1 & [] & o2 & H1 & H2 & ->)]; [discriminate|].
      eapply step_ok_trans; [eapply l_send_tests_step_ok; eauto|eapply IH; eauto].
Qed.

Lemma mfor_send_tests_step_ok : forall l num s s' outs,
  mfor l (fun n => l_send_tests n num) s = (s', outs, Ok tt) -> step_ok s s' outs.
Proof.
  intros l num. apply mfor_ok_inv; [apply step_ok_refl|apply step_ok_trans|].
  intros x s s' o _ H. eapply l_send_tests_step_ok. exact H.
Qed.

Definition quiet (s s' : lstate) (o : list out) : Prop :=
  l_pending s' = l_pending s /\ l_n2p s' = l_n2p s /\ keeps s s' o /\ sent_inds o = [] /\
  (all_open (l_nt s) -> all_open (l_nt s')).

Lemma mfor_shutdown_quiet : forall l s s' outs r,
  mfor l (fun n => node_shutdown l_nt l_set_nt n) s = (s', outs, r) -> quiet s s' outs.
Proof.
  intros l. apply mfor_any_inv.
  - intros s. unfold quiet, keeps. repeat split; auto.
  - intros s s1 s2 o1 o2 (A & B & C & D & E) (A' & B' & C' & D' & E'). unfold quiet.
    rewrite sent_inds_app, D, D'.
    split; [congruence|split; [congruence|split; [eapply keeps_trans; eauto|split; [reflexivity|auto]]]].
  - intros x s s' o r _ H. apply node_shutdown_effect in H. unfold quiet. tauto.
Qed.

Lemma quiet_refl : forall s, quiet s s [].
Proof. intros s. unfold quiet, keeps. repeat split; auto. Qed.

Ltac mbo H t p a q H1 :=
  apply mbind_inv in H;
  destruct H as [(?e & ?He & ?Hr)|(t & p & a & q & H1 & H & ->)]; [congruence|].

(* The first call of schedule() (collection not yet fixed, empty pool, empty books):
   either the collections differ and nothing happens, or the collection is fixed, the pool is
   0 .. len-1, a prefix of it is distributed, and every index anywhere is in range. *)
Theorem l_schedule_L8 : forall s s' outs,
  l_schedule s = (s', outs, Ok tt) -> l_coll s = None -> l_pending s = [] -> books s = [] ->
  (l_coll s' = None /\ s' = s /\ sent_inds outs = []) \/
  (exists coll, l_coll s' = Some coll /\
     Permutation (tokens s') (seq 0 (length coll)) /\
     (exists moved, seq 0 (length coll) = moved ++ l_pending s' /\ incl (sent_inds outs) moved) /\
     (forall i, In i (sent_inds outs) -> i < length coll) /\
     (all_open (l_nt s) -> seq 0 (length coll) = sent_inds outs ++ l_pending s') /\
     valid s').
Proof.
  intros s s' outs H Ec Ep Eb. unfold l_schedule in H.
  mbo H t0 p0 a0 q0 Hg. unfold get in Hg. injection Hg as <- <- <-. cbn [app].
  mbo H t1 p1 a1 q1 Ha.
  assert (E1 : t1 = s /\ p1 = []).
  { destruct (l_collection_is_completed s); unfold massert, ret, raise in Ha; inv Ha; auto. }
  destruct E1 as (-> & ->). cbn [app]. clear Ha.
  rewrite Ec in H.
  mbo H t2 p2 same q2 Hs. apply l_same_collection_effect in Hs. destruct Hs as (-> & Es).
  rewrite sent_inds_app, Es. cbn [app].
  destruct same; cbn [negb] in H.
  2:{ unfold ret in H. inv H. left. auto. }
  right.
  mbo H t3 p3 a3 q3 Hg. unfold get in Hg. injection Hg as <- <- <-. cbn [app].
  mbo H t4 p4 coll q4 Ho.
  destruct (l_n2c s) as [|[k c] others]; cbn in Ho; [discriminate|]. injection Ho as <- <- <-. cbn [app].
  mbo H t5 p5 a5 q5 Hp. unfold put in Hp. injection Hp as <- <- <-. cbn [app].
  exists c.
  destruct c as [|c0 cr].
  { unfold ret in H. inv H.
    assert (Et : tokens (l_set_pending (l_set_coll s (Some [])) (seq 0 (length (@nil string)))) = []).
    { unfold tokens, books. cbn [l_pending l_set_pending l_n2p l_set_coll length seq app]. exact Eb. }
    cbn [length seq] in Et. split; [reflexivity|]. rewrite Et. cbn [length seq].
    split; [constructor|]. split; [exists []; split; [reflexivity|apply incl_refl]|].
    split; [intros i []|]. split; [reflexivity|]. intros coll E i Hi. rewrite Et in Hi. destruct Hi. }
  set (coll := c0 :: cr) in *.
  set (s1 := l_set_pending (l_set_coll s (Some coll)) (seq 0 (length coll))) in *.
  mbo H t6 p6 a6 q6 Hg. unfold get in Hg. injection Hg as <- <- <-. cbn [app].
  mbo H t7 p7 a7 q7 Hp. unfold put in Hp. injection Hp as <- <- <-. cbn [app].
  mbo H t8 p8 a8 q8 Hg. unfold get in Hg. injection Hg as <- <- <-. cbn [app].
  match type of H with context [l_set_chunk s1 (Some ?ch)] => set (chunk := ch) in * end.
  set (s3 := l_set_chunk s1 (Some chunk)) in *.
  mbo H t9 p9 a9 q9 Hmid.
  mbo H t10 p10 a10 q10 Hg. unfold get in Hg. injection Hg as <- <- <-. cbn [app].
  assert (Hok : step_ok s3 t9 p9).
  { destruct a9. destruct (zlen (l_pending s3) <? 2 * zlen (l_nodes s3))%Z.
    - eapply l_round_robin_step_ok. exact Hmid.
    - destruct (zlen (l_n2p s3) =? 0)%Z; [unfold raise in Hmid; inv Hmid|].
      eapply mfor_send_tests_step_ok. exact Hmid. }
  assert (Hq : quiet t9 s' q10).
  { destruct (l_pending t9).
    - eapply mfor_shutdown_quiet. exact H.
    - unfold ret in H. inv H. apply quiet_refl. }
  clear H Hmid.
  destruct Hok as ((Pm & moved & Emv & Hin) & (Kc & _) & Hx).
  destruct Hq as (Qp & Qb & (Qc & _) & Qs & _).
  assert (Et3 : tokens s3 = seq 0 (length coll)).
  { unfold tokens, books, s3, s1. cbn [l_pending l_n2p l_set_chunk l_set_pending l_set_coll].
    fold (books s). rewrite Eb. apply app_nil_r. }
  assert (Ecs : l_coll s' = Some coll) by (rewrite Qc, Kc; reflexivity).
  assert (Etk : Permutation (tokens s') (seq 0 (length coll))).
  { rewrite (tokens_eq _ _ Qp Qb). rewrite Pm. rewrite Et3. reflexivity. }
  rewrite sent_inds_app, Qs, app_nil_r. rewrite Qp.
  assert (Ep3 : l_pending s3 = seq 0 (length coll)) by reflexivity.
  rewrite Ep3 in Emv.
  split; [exact Ecs|]. split; [exact Etk|]. split; [exists moved; auto|].
  split; [|split].
  - intros i Hi. apply Hin in Hi. assert (Hs : In i (seq 0 (length coll))).
    { rewrite Emv. apply in_or_app. left. exact Hi. }
    apply in_seq in Hs. lia.
  - intros Ho. destruct (Hx Ho) as (_ & E). rewrite <- E. reflexivity.
  - intros coll' Ec' i Hi. rewrite Ecs in Ec'. inv Ec'.
    apply (Permutation_in _ Etk) in Hi. apply in_seq in Hi. lia.
Qed.

(* schedule() called again once the collection is fixed is just the rescheduling loop *)
Theorem l_schedule_again : forall s s' outs coll,
  l_schedule s = (s', outs, Ok tt) -> l_coll s = Some coll ->
  step_ok s s' outs /\ (valid s -> valid s').
Proof.
  intros s s' outs coll H Ec. unfold l_schedule in H.
  mbo H t0 p0 a0 q0 Hg. unfold get in Hg. injection Hg as <- <- <-. cbn [app].
  mbo H t1 p1 a1 q1 Ha.
  assert (E1 : t1 = s /\ p1 = []).
  { destruct (l_collection_is_completed s); unfold massert, ret, raise in Ha; inv Ha; auto. }
  destruct E1 as (-> & ->). cbn [app]. clear Ha. rewrite Ec in H.
  assert (Hok : step_ok s s' q1).
  { revert H. apply mfor_ok_inv; [apply step_ok_refl|apply step_ok_trans|].
    intros x t t' o _ Hx. eapply l_check_schedule_step_ok. exact Hx. }
  split; [exact Hok|]. destruct Hok as ((Pm & _) & K & _). eapply valid_step; eauto.
Qed.

(* ---------- the guard, for the loops: shutting_down is never cleared ---------- *)
Lemma l_check_schedule_sd_back : forall n dur s s' outs r,
  l_check_schedule n dur s = (s', outs, r) ->
  forall m c', aget m (l_nt s') = Some c' -> shutting_down c' = false ->
  exists c, aget m (l_nt s) = Some c /\ shutting_down c = false.
Proof.
  intros n dur s s' outs r H m c' Em Esd. apply l_check_schedule_cases in H.
  destruct H as [(_ & -> & _)|[(c0 & _ & _ & -> & _)|[(c & En & Esd0 & Ep & H)|[(c & _ & _ & _ & -> & _)|(c & num & En & Esd0 & Ep & H)]]]];
    try (exists c'; auto; fail).
  - apply node_shutdown_cases in H.
    destruct H as [(_ & -> & _)|[(c1 & _ & _ & -> & _)|(c1 & En1 & _ & _ & -> & _)]];
      try (exists c'; auto; fail).
    cbn [l_nt l_set_nt] in Em. rewrite aget_aset in Em. destruct (Nat.eqb m n) eqn:E.
    + inv Em. unfold shutting_down, sd_mark in Esd. cbn in Esd. rewrite orb_true_r in Esd. discriminate.
    + exists c'. auto.
  - apply l_send_tests_keeps in H. destruct H as (_ & E). rewrite E in Em. exists c'. auto.
Qed.

(* whatever CRun the rescheduling loop emits goes to a node that was known and NOT shutting
   down when the loop was entered *)
Theorem mfor_check_guard : forall l dur s s' outs r,
  mfor l (fun m => l_check_schedule m dur) s = (s', outs, r) ->
  (forall m c', aget m (l_nt s') = Some c' -> shutting_down c' = false ->
     exists c, aget m (l_nt s) = Some c /\ shutting_down c = false) /\
  (forall m ixs, In (OSend m (CRun ixs)) outs ->
     exists c, aget m (l_nt s) = Some c /\ shutting_down c = false).
Proof.
  intros l dur. induction l as [|x l IH]; intros s s' outs r H.
  - cbn in H. unfold ret in H. inv H. split; [eauto|]. intros m ixs [].
  - cbn [mfor] in H. apply mbind_inv in H.
    destruct H as [(e & H1 & _)|(s1 & o1 & a & o2 & H1 & H2 & ->)].
    + split; [eapply l_check_schedule_sd_back; eauto|]. intros m ixs Ho.
      destruct (l_check_schedule_to_n _ _ _ _ _ _ H1 _ Ho) as (cm & E). inv E.
      eapply l_check_schedule_run_not_shutting_down; eauto.
    + destruct (IH _ _ _ _ H2) as (B2 & G2). split.
      * intros m c' Em Esd. destruct (B2 _ _ Em Esd) as (c1 & Em1 & Esd1).
        eapply l_check_schedule_sd_back; eauto.
      * intros m ixs Ho. apply in_app_or in Ho. destruct Ho as [Ho|Ho].
        -- destruct (l_check_schedule_to_n _ _ _ _ _ _ H1 _ Ho) as (cm & E). inv E.
           eapply l_check_schedule_run_not_shutting_down; eauto.
        -- destruct (G2 _ _ Ho) as (c1 & Em1 & Esd1). eapply l_check_schedule_sd_back; eauto.
Qed.

Theorem l_remove_node_guard : forall n s s' outs r m ixs,
  l_remove_node n s = (s', outs, r) -> In (OSend m (CRun ixs)) outs ->
  exists c, aget m (l_nt s) = Some c /\ shutting_down c = false.
Proof.
  intros n s s' outs r m ixs H Ho. apply l_remove_node_cases in H.
  destruct (rm_state_fields n s) as (_ & _ & _ & Fn & _).
  destruct H as [(_ & _ & -> & _)|[(_ & _ & -> & _)|(i & rest & _ & H)]]; try (destruct Ho; fail).
  destruct H as [(_ & _ & -> & _)|[(c' & _ & _ & _ & -> & _)|(c' & item & r0 & _ & _ & H & _)]];
    try (destruct Ho; fail).
  apply mfor_check_guard in H. destruct H as (_ & G). destruct (G _ _ Ho) as (c & Em & Esd).
  cbn [l_nt l_set_pending] in Em. rewrite Fn in Em. eauto.
Qed.

Theorem l_mark_test_pending_guard : forall item s s' outs r m ixs,
  l_mark_test_pending item s = (s', outs, r) -> In (OSend m (CRun ixs)) outs ->
  exists c, aget m (l_nt s) = Some c /\ shutting_down c = false.
Proof.
  intros item s s' outs r m ixs H Ho.
  destruct (l_coll s) as [coll|] eqn:Ec.
  2:{ unfold l_mark_test_pending, mbind, get, of_opt, raise in H. rewrite Ec in H. cbn in H. inv H. destruct Ho. }
  destruct (index_of_str item coll) as [idx|] eqn:Ei.
  2:{ unfold l_mark_test_pending, mbind, get, of_opt, ret, raise in H. rewrite Ec in H. cbn beta iota in H.
      rewrite Ei in H. cbn in H. inv H. destruct Ho. }
  rewrite (proj1 (l_mark_test_pending_L7_front _ _ _ _ Ec Ei)) in H.
  apply mfor_check_guard in H. destruct H as (_ & G). exact (G _ _ Ho).
Qed.

(* ---------- node2pending never gets duplicate keys ---------- *)
Definition wf (s : lstate) : Prop := NoDup (akeys (l_n2p s)).

Theorem l_add_node_wf : forall n s s' outs r,
  l_add_node n s = (s', outs, r) -> wf s -> wf s' /\ outs = [] /\ tokens s' = tokens s.
Proof.
  intros n s s' outs r H W. unfold l_add_node, mbind, get, put, massert, ahas in H.
  cbn beta iota zeta in H. destruct (aget n (l_n2p s)) eqn:E; cbn in H; inv H; auto.
  unfold wf. cbn [l_n2p l_set_n2p]. split; [|split; [reflexivity|]].
  - rewrite (akeys_aset_new _ _ _ _ E). apply NoDup_rev in W. rewrite <- (rev_involutive (akeys (l_n2p s) ++ [n])).
    apply NoDup_rev. rewrite rev_app_distr. cbn. constructor; [|exact W].
    rewrite <- in_rev. apply aget_none_keys. exact E.
  - unfold tokens, books. cbn [l_pending l_n2p l_set_n2p]. f_equal.
    clear W. induction (l_n2p s) as [|[k v] m IH]; cbn in *; [reflexivity|].
    destruct (Nat.eqb n k); [discriminate|]. cbn. rewrite IH by exact E. reflexivity.
Qed.

Theorem l_check_schedule_wf : forall n dur s s' outs r,
  l_check_schedule n dur s = (s', outs, r) -> wf s -> wf s'.
Proof. intros n dur s s' outs r H. apply l_check_schedule_keeps in H. destruct H as (_ & _ & _ & _ & E). unfold wf. rewrite E. auto. Qed.

Theorem l_mark_test_complete_wf : forall n idx dur s s' outs r,
  l_mark_test_complete n idx dur s = (s', outs, r) -> wf s -> wf s'.
Proof. intros n idx dur s s' outs r H. apply l_mark_test_complete_keeps in H. destruct H as (_ & _ & _ & _ & E). unfold wf. rewrite E. auto. Qed.

Theorem l_remove_node_wf : forall n s s' outs r,
  l_remove_node n s = (s', outs, r) -> wf s -> wf s' /\ (r <> Err EKey -> ~ In n (akeys (l_n2p s'))).
Proof.
  intros n s s' outs r H W. apply l_remove_node_cases in H.
  destruct (rm_state_fields n s) as (Fp & _).
  assert (Wr : wf (rm_state n s) /\ ~ In n (akeys (l_n2p (rm_state n s)))).
  { unfold wf. rewrite Fp. split; [apply adel_nodup|apply adel_not_key]; exact W. }
  destruct H as [(_ & -> & _ & ->)|[(_ & -> & _)|(i & rest & _ & H)]]; [split; [exact W|congruence]|tauto|].
  destruct H as [(_ & -> & _)|[(c' & _ & _ & -> & _)|(c' & item & r0 & _ & _ & H & _)]]; try tauto.
  apply mfor_check_keeps in H. destruct H as (_ & _ & _ & _ & E).
  cbn [l_n2p l_set_pending] in E. unfold wf. rewrite E. tauto.
Qed.

(* the crash path never puts anything on the dead node's own channel *)
Theorem l_remove_node_never_to_dead : forall n s s' outs r,
  l_remove_node n s = (s', outs, r) -> wf s ->
  forall o, In o outs -> sends_to n o = false.
Proof.
  intros n s s' outs r H W o Ho. apply l_remove_node_cases in H.
  destruct H as [(_ & _ & -> & _)|[(_ & _ & -> & _)|(i & rest & _ & H)]]; try (destruct Ho; fail).
  destruct H as [(_ & _ & -> & _)|[(c' & _ & _ & _ & -> & _)|(c' & item & r0 & _ & _ & H & _)]];
    try (destruct Ho; fail).
  destruct (mfor_check_addressed _ _ _ _ _ _ H o Ho) as (m & cm & Hm & ->). cbn.
  apply Nat.eqb_neq. intros ->. exact (adel_not_key _ _ _ W Hm).
Qed.

(* ---------- non-vacuity: concrete runs with two nodes ---------- *)
Definition open_node : nctl := {| n_spec := 0; n_down := false; n_sdsent := false; n_closed := false |}.
Definition ex_coll : list string :=
  ["t0"; "t1"; "t2"; "t3"; "t4"; "t5"; "t6"; "t7"; "t8"; "t9"; "t10"; "t11"]%string.
Definition ex0 : lstate :=
  {| l_nt := [(0, open_node); (1, open_node)]; l_numnodes := 2;
     l_n2c := [(0, ex_coll); (1, ex_coll)]; l_n2p := [(0, []); (1, [])];
     l_pending := []; l_coll := None; l_chunk := None |}.
Definition ex1 : lstate := fst (fst (l_schedule ex0)).
Definition ex2 : lstate := fst (fst (l_mark_test_complete 0 0 0%Z ex1)).
Definition ex3 : lstate := fst (fst (l_remove_node 1 ex2)).
Definition ex4 : lstate := fst (fst (l_mark_test_pending "t2" ex3)).

(* initial distribution: two tests to each node, the rest stays in the pool *)
Example ex_schedule :
  l_schedule ex0 = (ex1, [OSend 0 (CRun [0; 1]); OSend 1 (CRun [2; 3])], Ok tt) /\
  l_pending ex1 = [4; 5; 6; 7; 8; 9; 10; 11] /\ l_n2p ex1 = [(0, [0; 1]); (1, [2; 3])].
Proof. vm_compute. repeat split. Qed.

(* node 0 completes test 0: it leaves the book and one more test is sent from the pool's front *)
Example ex_complete :
  l_mark_test_complete 0 0 0%Z ex1 = (ex2, [OSend 0 (CRun [4])], Ok tt) /\
  l_pending ex2 = [5; 6; 7; 8; 9; 10; 11] /\ l_n2p ex2 = [(0, [1; 4]); (1, [2; 3])].
Proof. vm_compute. repeat split. Qed.

(* node 1 crashes: the head of its book (test 2) is the crash item, test 3 goes back to the pool *)
Example ex_crash :
  l_remove_node 1 ex2 = (ex3, [], Ok (Some "t2"%string)) /\
  l_pending ex3 = [5; 6; 7; 8; 9; 10; 11; 3] /\ l_n2p ex3 = [(0, [1; 4])].
Proof. vm_compute. repeat split. Qed.

(* the crashed test is re-queued at the front; node 0 then completes 1 and is sent test 2 first
   (only one node is left, so its share is larger) *)
Example ex_requeue :
  l_mark_test_pending "t2" ex3 = (ex4, [], Ok tt) /\
  l_pending ex4 = [2; 5; 6; 7; 8; 9; 10; 11; 3] /\
  snd (fst (l_mark_test_complete 0 1 0%Z ex4)) = [OSend 0 (CRun [2; 5; 6])].
Proof. vm_compute. repeat split. Qed.

(* the hypotheses of the general theorems hold of these runs (so the theorems are not vacuous) *)
Example ex_L8_applies :
  exists coll, l_coll ex1 = Some coll /\ Permutation (tokens ex1) (seq 0 (length coll)) /\ valid ex1.
Proof.
  destruct (l_schedule_L8 ex0 ex1 _ (proj1 ex_schedule) eq_refl eq_refl eq_refl)
    as [(F & _)|(coll & Ec & Pm & _ & _ & _ & V)]; [discriminate|].
  exists coll. auto.
Qed.

Example ex_L5_applies : Permutation (0 :: tokens ex2) (tokens ex1).
Proof. exact (proj1 (l_mark_test_complete_L5 _ _ _ _ _ _ (proj1 ex_complete))). Qed.

Example ex_L6_applies : Permutation (2 :: tokens ex3) (tokens ex2).
Proof.
  destruct (l_remove_node_L6 1 ex2 ex3 [] (Some "t2"%string) 2 [3] ex_coll "t2"%string
              (proj1 ex_crash) eq_refl eq_refl eq_refl) as (_ & _ & _ & Pm & _).
  exact Pm.
Qed.

(* a shutting-down node gets nothing, even with a full pool *)
Example ex_guard :
  let s := l_set_nt ex2 [(0, {| n_spec := 0; n_down := false; n_sdsent := true; n_closed := false |});
                         (1, open_node)] in
  l_check_schedule 0 0%Z s = (s, [], Ok tt) /\ l_pending s <> [].
Proof. vm_compute. split; [reflexivity|discriminate]. Qed.

(* a shutting-down node is never sent work of any kind *)
Corollary l_check_schedule_guard_no_work : forall n dur s s' outs r,
  l_check_schedule n dur s = (s', outs, r) ->
  (exists c, aget n (l_nt s) = Some c /\ shutting_down c = true) ->
  existsb is_run_or_steal outs = false /\ existsb (sends_to n) outs = false.
Proof.
  intros n dur s s' outs r H Hsd. destruct (l_check_schedule_guard _ _ _ _ _ _ H Hsd) as (-> & _). auto.
Qed.

(* (L6) "n is no longer a key" needs node2pending to have distinct keys (wf), which add_node's
   assertion guarantees (l_add_node_wf ... l_remove_node_wf); on an ill-formed table it fails: *)
Example L6_needs_distinct_keys :
  let s := l_set_n2p ex1 [(1, [2]); (1, [3])] in
  exists s' outs, l_remove_node 1 s = (s', outs, Ok (Some "t2"%string)) /\ In 1 (akeys (l_n2p s')).
Proof. eexists. eexists. split; [vm_compute; reflexivity|]. cbn. auto. Qed.

Print Assumptions py_take_drop.
Print Assumptions l_check_schedule_guard_no_work.
Print Assumptions l_send_tests_spec.
Print Assumptions l_send_tests_no_raise.
Print Assumptions l_check_schedule_guard.
Print Assumptions l_check_schedule_addressed.
Print Assumptions l_check_schedule_shutdown_pool_empty.
Print Assumptions l_check_schedule_run_not_shutting_down.
Print Assumptions l_check_schedule_L4.
Print Assumptions l_check_schedule_L4_open.
Print Assumptions L4_literal_is_false_on_closed_channel.
Print Assumptions l_mark_test_complete_L5.
Print Assumptions l_mark_test_complete_L5_open.
Print Assumptions l_remove_node_L6.
Print Assumptions l_remove_node_L6_sent.
Print Assumptions l_remove_node_L6_empty.
Print Assumptions l_mark_test_pending_L7_front.
Print Assumptions l_mark_test_pending_L7.
Print Assumptions l_schedule_L8.
Print Assumptions l_schedule_again.
Print Assumptions mfor_check_guard.
Print Assumptions l_remove_node_guard.
Print Assumptions l_mark_test_pending_guard.
Print Assumptions l_remove_node_wf.
Print Assumptions l_remove_node_never_to_dead.
Print Assumptions l_mark_test_pending_valid.
Print Assumptions ex_L8_applies.
